(* A name-space model of the served tree, as far as the client's composite operations need it (client.go Remove, MkdirAll,
   RemoveAll against the os-backed server, whose REMOVE and RMDIR are both os.Remove, MKDIR os.Mkdir, STAT/LSTAT os.Stat/Lstat,
   READDIR os.File.Readdir). Paths are lists of components below the served root ([] is the root); an entry is a directory,
   a file or a symbolic link. Anything that would make the kernel FOLLOW a symbolic link is "not modelled" (None / LUndef):
   the theorems and the tie speak about the rest. Permissions are not modelled (every outcome is ok / not-exist / other). *)
From Coq Require Import List Bool Arith.
Import ListNotations.

Module FsTree.

Definition name := nat.
Definition path := list name.
Inductive kind := KDir | KFile | KLink.
Definition tree := list (path * kind).
Inductive cat := TOk | TNotExist | TOther.

Fixpoint path_eqb (a b : path) : bool :=
  match a, b with
  | [], [] => true
  | x :: a', y :: b' => (x =? y) && path_eqb a' b'
  | _, _ => false
  end.

(* p is q or an ancestor of q *)
Fixpoint under (p q : path) : bool :=
  match p, q with
  | [], _ => true
  | x :: p', y :: q' => (x =? y) && under p' q'
  | _ :: _, [] => false
  end.

Fixpoint assoc (t : tree) (p : path) : option kind :=
  match t with [] => None | (q, k) :: r => if path_eqb q p then Some k else assoc r p end.

Definition kind_at (t : tree) (p : path) : option kind :=
  match p with [] => Some KDir | _ => assoc t p end.

(* what the kernel's path walk finds *)
Inductive look := LKind (k : kind) | LNoEnt | LNotDir | LUndef.

Fixpoint walk (t : tree) (pre rest : path) : look :=
  match rest with
  | [] => match kind_at t pre with Some k => LKind k | None => LNoEnt end
  | c :: rest' =>
      match kind_at t pre with
      | Some KDir => walk t (pre ++ [c]) rest'
      | Some KFile => LNotDir
      | Some KLink => LUndef          (* the kernel would follow the link *)
      | None => LNoEnt
      end
  end.

Definition lstat (t : tree) (p : path) : look := walk t [] p.
Definition stat (t : tree) (p : path) : look :=
  match lstat t p with LKind KLink => LUndef | l => l end.

(* direct children of p, in the order of the tree *)
Definition is_child (p q : path) : bool := under p q && (length q =? S (length p)).
Definition children (t : tree) (p : path) : list (path * kind) := filter (fun e => is_child p (fst e)) t.
Definition remove_entry (t : tree) (p : path) : tree := filter (fun e => negb (path_eqb (fst e) p)) t.

(* ---------- the server's primitives (os calls); None = not modelled ---------- *)
(* os.Remove: unlink, or rmdir of an empty directory *)
Definition p_remove (t : tree) (p : path) : option (cat * tree) :=
  match p with
  | [] => None                                   (* the served root itself: not modelled *)
  | _ =>
    match lstat t p with
    | LKind KDir => match children t p with [] => Some (TOk, remove_entry t p) | _ => Some (TOther, t) end
    | LKind _ => Some (TOk, remove_entry t p)
    | LNoEnt => Some (TNotExist, t)
    | LNotDir => Some (TOther, t)
    | LUndef => None
    end
  end.

(* rmdir(2), what package os offers for "remove this directory": only an empty directory goes *)
Definition p_rmdir (t : tree) (p : path) : option (cat * tree) :=
  match p with
  | [] => None
  | _ =>
    match lstat t p with
    | LKind KDir => match children t p with [] => Some (TOk, remove_entry t p) | _ => Some (TOther, t) end
    | LKind _ => Some (TOther, t)                    (* ENOTDIR *)
    | LNoEnt => Some (TNotExist, t)
    | LNotDir => Some (TOther, t)
    | LUndef => None
    end
  end.

(* os.Mkdir *)
Definition p_mkdir (t : tree) (p : path) : option (cat * tree) :=
  match p with
  | [] => Some (TOther, t)
  | _ =>
    match stat t (removelast p) with               (* the parent is resolved following links *)
    | LKind KDir => match kind_at t p with Some _ => Some (TOther, t) | None => Some (TOk, t ++ [(p, KDir)]) end
    | LKind _ => Some (TOther, t)
    | LNoEnt => Some (TNotExist, t)
    | LNotDir => Some (TOther, t)
    | LUndef => None
    end
  end.

(* ---------- client.go composites ---------- *)
(* Remove: REMOVE, and if that fails RMDIR; both are os.Remove on this server, so the second attempt sees the same tree *)
Definition c_remove (t : tree) (p : path) : option (cat * tree) :=
  match p_remove t p with
  | Some (TOk, t') => Some (TOk, t')
  | Some (e1, _) =>
      match p_remove t p with
      | Some (TOk, t') => Some (TOk, t')
      | Some (_, _) => Some (e1, t)
      | None => None
      end
  | None => None
  end.

Fixpoint c_mkdirall (fuel : nat) (t : tree) (p : path) : option (cat * tree) :=
  match fuel with
  | O => None
  | S f =>
    match stat t p with
    | LUndef => None
    | LKind KDir => Some (TOk, t)
    | LKind _ => Some (TOther, t)                 (* ENOTDIR *)
    | _ =>
      match p with
      | [] => None
      | _ =>
        match c_mkdirall f t (removelast p) with
        | Some (TOk, t1) =>
            match p_mkdir t1 p with
            | Some (TOk, t2) => Some (TOk, t2)
            | Some (e, t2) => match lstat t2 p with LKind KDir => Some (TOk, t2) | LUndef => None | _ => Some (e, t2) end
            | None => None
            end
        | r => r
        end
      end
    end
  end.

(* RemoveAll: Lstat; a directory: ReadDir, RemoveAll on sub-directories and Remove on everything else, stop at the first error;
   finally Remove the path itself *)
Definition ra_step (ra : tree -> path -> option (cat * tree)) (acc : option (cat * tree)) (e : path * kind) : option (cat * tree) :=
  match acc with
  | Some (TOk, t1) => match snd e with KDir => ra t1 (fst e) | _ => c_remove t1 (fst e) end
  | r => r
  end.

Fixpoint c_removeall (fuel : nat) (t : tree) (p : path) : option (cat * tree) :=
  match fuel with
  | O => None
  | S f =>
    match p with
    | [] => None
    | _ =>
      match lstat t p with
      | LUndef => None
      | LNoEnt => Some (TNotExist, t)
      | LNotDir => Some (TOther, t)
      | LKind KDir =>
          match fold_left (ra_step (c_removeall f)) (children t p) (Some (TOk, t)) with
          | Some (TOk, t1) => c_remove t1 p
          | r => r
          end
      | LKind _ => c_remove t p
      end
    end
  end.

(* ---------- what package os does (os.MkdirAll; os.RemoveAll with the documented difference that a missing path is an error) ---------- *)
(* pre and every longer prefix of pre ++ rest, as directories, top down *)
Fixpoint chain (pre rest : path) : tree :=
  (pre, KDir) :: match rest with [] => [] | c :: r => chain (pre ++ [c]) r end.

Fixpoint spec_mk (t : tree) (pre rest : path) : option (cat * tree) :=
  match kind_at t pre with
  | Some KDir => match rest with [] => Some (TOk, t) | c :: r => spec_mk t (pre ++ [c]) r end
  | Some KFile => Some (TOther, t)
  | Some KLink => None
  | None => Some (TOk, t ++ chain pre rest)      (* pre and everything below it is missing: create them *)
  end.
Definition spec_mkdirall (t : tree) (p : path) : option (cat * tree) := spec_mk t [] p.

Definition spec_removeall (t : tree) (p : path) : option (cat * tree) :=
  match p with
  | [] => None
  | _ =>
    match lstat t p with
    | LUndef => None
    | LNoEnt => Some (TNotExist, t)
    | LNotDir => Some (TOther, t)
    | LKind _ => Some (TOk, filter (fun e => negb (under p (fst e))) t)
    end
  end.

(* ---------- rename, link, symlink (server: os.Rename for RENAME and posix-rename@openssh.com alike, os.Link, os.Symlink) ---------- *)
(* q = p ++ r *)
Fixpoint strip (p q : path) : option path :=
  match p, q with
  | [], _ => Some q
  | x :: p', y :: q' => if x =? y then strip p' q' else None
  | _ :: _, [] => None
  end.

Definition move_entry (src dst : path) (e : path * kind) : path * kind :=
  match strip src (fst e) with Some r => (dst ++ r, snd e) | None => e end.

(* the parent directory of a path, as the kernel resolves it (following links: a link on the way is "not modelled") *)
Definition parent_look (t : tree) (p : path) : look := stat t (removelast p).

(* rename(2). Order of the checks as in the kernel: both parents are resolved first, then the source's last component, then
   the ancestry rule, then the target. The last components are never followed. *)
Definition sys_rename (t : tree) (src dst : path) : option (cat * tree) :=
  match src, dst with
  | [], _ | _, [] => None                          (* the served root itself: not modelled *)
  | _, _ =>
    match parent_look t src with
    | LUndef => None | LNoEnt => Some (TNotExist, t) | LNotDir => Some (TOther, t)
    | LKind KFile | LKind KLink => Some (TOther, t)
    | LKind KDir =>
      match parent_look t dst with
      | LUndef => None | LNoEnt => Some (TNotExist, t) | LNotDir => Some (TOther, t)
      | LKind KFile | LKind KLink => Some (TOther, t)
      | LKind KDir =>
        match kind_at t src with
        | None => Some (TNotExist, t)
        | Some ks =>
          if path_eqb src dst then Some (TOk, t)
          else if under src dst then Some (TOther, t)                  (* into its own subtree: EINVAL *)
          else
            let moved := map (move_entry src dst) (remove_entry t dst) in
            match kind_at t dst with
            | None => Some (TOk, moved)
            | Some kd =>
              match ks, kd with
              | KDir, KDir => match children t dst with [] => Some (TOk, moved) | _ => Some (TOther, t) end   (* ENOTEMPTY *)
              | KDir, _ => Some (TOther, t)                              (* ENOTDIR *)
              | _, KDir => Some (TOther, t)                              (* EISDIR *)
              | _, _ => Some (TOk, moved)                                (* the target is replaced *)
              end
            end
        end
      end
    end
  end.

(* os.Rename: package os first looks at the new name; an existing directory there is an error of its own (EEXIST) - after the
   error of the old name, should that be bad too - so that os.Rename never replaces a directory, not even an empty one *)
Definition p_rename (t : tree) (src dst : path) : option (cat * tree) :=
  match src, dst with
  | [], _ | _, [] => None
  | _, _ =>
    match lstat t dst with
    | LUndef => None
    | LKind KDir =>
        match lstat t src with
        | LUndef => None
        | LNoEnt => Some (TNotExist, t)
        | LNotDir => Some (TOther, t)
        | LKind _ => Some (TOther, t)
        end
    | _ => sys_rename t src dst
    end
  end.

(* link(2) without AT_SYMLINK_FOLLOW (os.Link): a link to a symbolic link is a link to the link itself. A directory source is
   EPERM - the permission category, which the model does not have: not modelled. *)
Definition p_link (t : tree) (src dst : path) : option (cat * tree) :=
  match src, dst with
  | [], _ | _, [] => None
  | _, _ =>
    match parent_look t src with
    | LUndef => None | LNoEnt => Some (TNotExist, t) | LNotDir => Some (TOther, t)
    | LKind KFile | LKind KLink => Some (TOther, t)
    | LKind KDir =>
      match kind_at t src with
      | None => Some (TNotExist, t)
      | Some KDir => None
      | Some ks =>
        match parent_look t dst with
        | LUndef => None | LNoEnt => Some (TNotExist, t) | LNotDir => Some (TOther, t)
        | LKind KFile | LKind KLink => Some (TOther, t)
        | LKind KDir =>
          match kind_at t dst with Some _ => Some (TOther, t) | None => Some (TOk, t ++ [(dst, ks)]) end
        end
      end
    end
  end.

(* symlink(2): the target text is not looked at, except that an empty one is ENOENT before anything else *)
Definition p_symlink (empty_target : bool) (t : tree) (lnk : path) : option (cat * tree) :=
  if empty_target then Some (TNotExist, t) else
  match lnk with
  | [] => Some (TOther, t)
  | _ =>
    match parent_look t lnk with
    | LUndef => None | LNoEnt => Some (TNotExist, t) | LNotDir => Some (TOther, t)
    | LKind KFile | LKind KLink => Some (TOther, t)
    | LKind KDir => match kind_at t lnk with Some _ => Some (TOther, t) | None => Some (TOk, t ++ [(lnk, KLink)]) end
    end
  end.

(* ---------- Client.Walk (kr/fs walker over LSTAT and READDIR): the root is examined without following it, a directory's
   entries are pushed and visited in turn, nothing but directories is descended into (a link is a leaf) ---------- *)
Fixpoint c_walk (fuel : nat) (t : tree) (p : path) (k : kind) : list (path * kind) :=
  match fuel with
  | O => []
  | S f => (p, k) :: match k with
                     | KDir => flat_map (fun e => c_walk f t (fst e) (snd e)) (children t p)
                     | _ => []
                     end
  end.

(* filepath.Walk's specification: the root as Lstat sees it and every entry below it *)
Definition spec_walk (t : tree) (p : path) (k : kind) : list (path * kind) :=
  (p, k) :: filter (fun e => under p (fst e) && negb (path_eqb (fst e) p)) t.

(* ---------- Client.Glob (match.go). A pattern is a list of component patterns; what path.Match says about a component pattern
   and a name is GIVEN (cp_all / cp_names: the names it matches; cp_meta: whether hasMeta holds of its text) - package path is
   outside the repository. Modelled for clean patterns (no empty, "." or ".." components). ---------- *)
Record cpat := { cp_meta : bool; cp_all : bool; cp_names : list name }.
Definition cmatch (c : cpat) (n : name) : bool := cp_all c || existsb (Nat.eqb n) (cp_names c).
Definition lit_name (c : cpat) : name := hd 0 (cp_names c).

(* Client.glob(dir, pattern): Stat(dir) must be a directory; ReadDir; Match every name *)
Definition glob1 (t : tree) (dir : path) (c : cpat) : option (list path) :=
  match stat t dir with
  | LUndef => None
  | LKind KDir => Some (map fst (filter (fun e => cmatch c (last (fst e) 0)) (children t dir)))
  | _ => Some []
  end.

(* for d in m: matches = glob(d, file, matches); None as soon as one step is outside the model *)
Fixpoint glob_each (t : tree) (c : cpat) (m : list path) : option (list path) :=
  match m with
  | [] => Some []
  | d :: rest => match glob1 t d c, glob_each t c rest with
                 | Some a, Some b => Some (a ++ b)
                 | _, _ => None
                 end
  end.

Definition has_meta (ps : list cpat) : bool := existsb cp_meta ps.

(* Client.Glob, on the pattern's components last one first: no magic character at all - one LSTAT of the pattern as a path;
   none in the directory part - glob(dir, file) directly; otherwise Glob(dir) first and glob(d, file) for each of its results *)
Fixpoint c_glob (t : tree) (rp : list cpat) : option (list path) :=
  match rp with
  | [] => Some [[]]
  | c :: rps =>
      let dirpath := map lit_name (rev rps) in
      if negb (has_meta (c :: rps)) then
        match lstat t (dirpath ++ [lit_name c]) with
        | LKind _ => Some [dirpath ++ [lit_name c]]
        | LUndef => None
        | _ => Some []
        end
      else if negb (has_meta rps) then glob1 t dirpath c
      else match c_glob t rps with Some m => glob_each t c m | None => None end
  end.

(* filepath.Glob's meaning: expand the pattern component by component, every component alike *)
Fixpoint spec_glob (t : tree) (rp : list cpat) : option (list path) :=
  match rp with
  | [] => Some [[]]
  | c :: rps => match spec_glob t rps with Some m => glob_each t c m | None => None end
  end.

(* ---------- OPEN (os.OpenFile on the server; Client.Create is OpenFile with O_RDWR|O_CREATE|O_TRUNC): what it does to the name
   space. wr: write access asked for (O_WRONLY / O_RDWR / O_TRUNC); a symbolic link as the last component would be followed
   (or refused under O_EXCL): not modelled. ---------- *)
Definition p_open (creat excl wr : bool) (t : tree) (p : path) : option (cat * tree) :=
  match p with
  | [] => None
  | _ =>
    match parent_look t p with
    | LUndef => None | LNoEnt => Some (TNotExist, t) | LNotDir => Some (TOther, t)
    | LKind KFile | LKind KLink => Some (TOther, t)
    | LKind KDir =>
      match kind_at t p with
      | None => if creat then Some (TOk, t ++ [(p, KFile)]) else Some (TNotExist, t)
      | Some KLink => None
      | Some KDir => if wr || creat then Some (TOther, t) else Some (TOk, t)       (* EISDIR *)
      | Some KFile => if creat && excl then Some (TOther, t) else Some (TOk, t)     (* EEXIST *)
      end
    end
  end.

(* well-formed trees: every path once, no entry for the root, the parent of every entry is a directory *)
Definition wf (t : tree) : Prop :=
  NoDup (map fst t) /\ forall p k, In (p, k) t -> p <> [] /\ kind_at t (removelast p) = Some KDir.

End FsTree.
