(* Client.nextID is atomic.AddUint32(&c.nextid, 1): the n-th request of a connection whose counter started at c0 carries
   the id (c0 + n) mod 2^32. The LTS of Conn/ClientConn.v numbers requests 1, 2, 3, ... without a bound (issue numbers);
   this file is the map from issue numbers to the 32-bit ids on the wire. *)
From Coq Require Import List NArith Arith.
Import ListNotations.
Local Open Scope N_scope.

Definition idmod : N := 4294967296.          (* 2^32 *)

(* the id handed out by the call that finds the counter at c *)
Definition next_id (c : N) : N := (c + 1) mod idmod.

(* the ids of k consecutive calls, starting with the counter at c0 *)
Fixpoint ids_from (c0 : N) (k : nat) : list N :=
  match k with O => [] | S k' => next_id c0 :: ids_from (next_id c0) k' end.

(* wire id of issue number i (1-based) on a connection whose counter started at c0 *)
Definition wire_id (c0 : N) (i : nat) : N := (c0 + N.of_nat i) mod idmod.
