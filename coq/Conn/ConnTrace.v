(* Trace acceptance for the client connection LTS. The instrumented conn.go (build tag verif) reports
     P sid ok     putChannel: registered (ok) / found the connection closed      [inside the clientConn mutex]
     S sid -      dispatchRequest: conn.sendPacket returned an error (a successful send is not reported)
     g sid found  getChannel: the id was / was not registered; called by recv (a reply arrived) and by dispatchRequest
                  after a failed send                                               [inside the mutex]
     B            broadcastErr entered                                             [inside the mutex]
     T sid k      the caller took its result (k: 0 a reply, 1 ErrSSHFxConnectionLost, 2 another error)
   Request ids are 1, 2, 3, ...; the request with id i is the model's caller i-1; NextID labels are inserted in id order.
   A g event does not say who called getChannel: after a failed send of the same id both readings are tried, so the
   replay carries a list of candidate states and the trace is accepted when one candidate survives. *)
From Coq Require Import List Bool Arith.
From Sftp Require Import Conn.ClientConn.
Import ListNotations.

Inductive cev :=
| CEvP (sid : nat) (ok : bool)
| CEvS (sid : nat) (ok : bool)
| CEvG (sid : nat) (found : bool)
| CEvB
| CEvT (sid : nat) (k : nat).

Fixpoint ensure_ids (fuel : nat) (s : cst) (sid : nat) : cst :=
  match fuel with
  | O => s
  | S f => if nid s <? sid then
             match cstep s (NextID (nid s)) with Some s' => ensure_ids f s' sid | None => s end
           else s
  end.

Definition kind_of (r : result) : nat := match r with ROk _ => 0 | RConnLost => 1 | RSendErr => 2 end.

Definition opt_list {A} (o : option A) : list A := match o with Some x => [x] | None => [] end.

Definition mem (x : nat) (l : list nat) : bool := existsb (Nat.eqb x) l.
Definition del (x : nat) (l : list nat) : list nat := filter (fun y => negb (y =? x)) l.
Definition is_some {A} (o : option A) : bool := match o with Some _ => true | None => false end.

Definition cand := (cst * list nat)%type.   (* model state, ids whose send failed and whose getChannel is still to come *)

Definition cstep1 (c : cand) (e : cev) : list cand :=
  let '(s, sf) := c in
  match e with
  | CEvP sid ok =>
      let s1 := ensure_ids sid s sid in
      match cstep s1 (Put (sid - 1)) with
      | Some s' => if Bool.eqb ok (negb (closed s1)) then [(s', sf)] else []
      | None => []
      end
  | CEvS sid true => map (fun s' => (s', sf)) (opt_list (cstep s (SendOK (sid - 1))))
  | CEvS sid false => [(s, sid :: sf)]
  | CEvG sid found =>
      (if mem sid sf then
         if Bool.eqb found (is_some (lookup_if sid (inflight s))) then
           map (fun s' => (s', del sid sf)) (opt_list (cstep s (SendFail (sid - 1))))
         else []
       else [])
      ++
      (if found then map (fun s' => (s', sf)) (opt_list (cstep s (Deliver sid)))
       else if negb (is_some (lookup_if sid (inflight s))) && negb (closed s) then [(s, sf)] else [])
  | CEvB => map (fun s' => (s', sf)) (opt_list (cstep s RecvFail))
  | CEvT sid k =>
      (* a successful send is not reported: a caller still "registered" when it takes its result has sent *)
      let s := match cstate_of (sid - 1) (callers s) with
               | Some (CRegistered _) => match cstep s (SendOK (sid - 1)) with Some s1 => s1 | None => s end
               | _ => s
               end in
      match cstep s (Take (sid - 1)) with
      | Some s' =>
          match cstate_of (sid - 1) (callers s') with
          | Some (CDone id r) => if (id =? sid) && (kind_of r =? k) then [(s', sf)] else []
          | _ => []
          end
      | None => []
      end
  end.

Fixpoint caccept (cs : list cand) (tr : list cev) (i : nat) : list cand + nat :=
  match tr with
  | [] => inl cs
  | e :: rest =>
      match flat_map (fun c => cstep1 c e) cs with
      | [] => inr i
      | cs' => caccept cs' rest (S i)
      end
  end.

Definition caccept_trace (n : nat) (tr : list cev) : list cand + nat := caccept [(cinit n, [])] tr 0.
