(* conn.sendPacket: every request is written under the connection mutex, as one Write (header and payload in one buffer)
   or as two Writes (header, then payload: WRITE, SETSTAT, FSETSTAT carry their payload separately). The wire is the
   sequence of Write calls; senders are numbered.
     WLock c      c takes the mutex (only when it is free)
     WOne c       c writes a one-part packet
     WHdr c       c writes the header of a two-part packet
     WPay c       c writes the payload that belongs to the header it wrote
     WUnlock c    c releases the mutex
   `locked_one` = false models the variant in which one-part packets are written without taking the mutex. *)
From Coq Require Import List Bool Arith.
Import ListNotations.

Inductive part := POne | PHdr | PPay.
Inductive stage := SIdle | SLocked | SHdrDone | SWritten | SDone.

Record wst := mkW { holder : option nat; wire : list (nat * part); stages : list (nat * stage) }.

Definition w0 (n : nat) : wst := mkW None [] (map (fun c => (c, SIdle)) (seq 0 n)).

Inductive wlabel := WLock (c : nat) | WOne (c : nat) | WHdr (c : nat) | WPay (c : nat) | WUnlock (c : nat).

Fixpoint stage_of (c : nat) (l : list (nat * stage)) : option stage :=
  match l with [] => None | (c', s) :: t => if c' =? c then Some s else stage_of c t end.
Definition set_stage (c : nat) (s : stage) (l : list (nat * stage)) : list (nat * stage) :=
  map (fun e => if fst e =? c then (fst e, s) else e) l.

Definition holds (w : wst) (c : nat) : bool := match holder w with Some h => h =? c | None => false end.

Definition wstep (locked_one : bool) (w : wst) (l : wlabel) : option wst :=
  match l with
  | WLock c =>
      match holder w, stage_of c (stages w) with
      | None, Some SIdle => Some (mkW (Some c) (wire w) (set_stage c SLocked (stages w)))
      | _, _ => None
      end
  | WOne c =>
      match stage_of c (stages w) with
      | Some SLocked => if holds w c then Some (mkW (holder w) (wire w ++ [(c, POne)]) (set_stage c SWritten (stages w))) else None
      | Some SIdle => if locked_one then None    (* must take the mutex first *)
                      else Some (mkW (holder w) (wire w ++ [(c, POne)]) (set_stage c SDone (stages w)))
      | _ => None
      end
  | WHdr c =>
      match stage_of c (stages w) with
      | Some SLocked => if holds w c then Some (mkW (holder w) (wire w ++ [(c, PHdr)]) (set_stage c SHdrDone (stages w))) else None
      | _ => None
      end
  | WPay c =>
      match stage_of c (stages w) with
      | Some SHdrDone => if holds w c then Some (mkW (holder w) (wire w ++ [(c, PPay)]) (set_stage c SWritten (stages w))) else None
      | _ => None
      end
  | WUnlock c =>
      match stage_of c (stages w) with
      | Some SWritten => if holds w c then Some (mkW None (wire w) (set_stage c SDone (stages w))) else None
      | _ => None
      end
  end.

Fixpoint wrun (locked_one : bool) (w : wst) (tr : list wlabel) : option wst :=
  match tr with [] => Some w | l :: rest => match wstep locked_one w l with Some w' => wrun locked_one w' rest | None => None end end.

(* reading the wire from the left: None = a Write that does not belong there (a foreign Write inside a two-part packet, a
   payload without its header); Some None = whole packets only; Some (Some c) = whole packets, then c's header *)
Fixpoint scan (wi : list (nat * part)) (open_hdr : option nat) : option (option nat) :=
  match wi with
  | [] => Some open_hdr
  | (c, POne) :: rest => match open_hdr with None => scan rest None | Some _ => None end
  | (c, PHdr) :: rest => match open_hdr with None => scan rest (Some c) | Some _ => None end
  | (c, PPay) :: rest => match open_hdr with Some h => if h =? c then scan rest None else None | None => None end
  end.

(* Closing the writer. conn.Close takes the same mutex as sendPacket (locked_close = true): the close can only happen while
   nobody is between its Lock and its Unlock - the receive loop's deferred conn.Close() waits for a sender that has written a
   header to write the payload too. locked_close = false is the variant that closes the transport directly. Once the writer
   is closed nothing further reaches the wire: the run is over as far as the wire is concerned. *)
Inductive clabel := CW (l : wlabel) | CClose.

Definition cstep (locked_close : bool) (s : wst * bool) (l : clabel) : option (wst * bool) :=
  let (w, closed) := s in
  if closed then None
  else match l with
       | CW l => match wstep true w l with Some w' => Some (w', false) | None => None end
       | CClose => if locked_close then match holder w with None => Some (w, true) | Some _ => None end
                   else Some (w, true)
       end.

Fixpoint crun (locked_close : bool) (s : wst * bool) (tr : list clabel) : option (wst * bool) :=
  match tr with [] => Some s | l :: rest => match cstep locked_close s l with Some s' => crun locked_close s' rest | None => None end end.
