(* conn.go: the client's request/reply multiplexer as a labelled transition system.
   Callers are numbered; each caller performs one request: nextID, putChannel (register its result channel under the id),
   conn.sendPacket (one whole frame under the connection mutex), then waits on its channel (capacity 1).
   recv() dispatches every reply by id (getChannel removes the entry, then sends on that channel); when recv fails the
   connection is closed and broadcastErr sends one error to every registered channel and replaces each entry by a
   fresh channel nobody reads ("hijack"), then latches `closed`. *)
From Coq Require Import List Bool Arith Lia.
Import ListNotations.

Inductive result := ROk (id : nat) | RSendErr | RConnLost.

Inductive cstate :=
| CIdle
| CHasId (id : nat)          (* after nextID *)
| CRegistered (id : nat)     (* after putChannel succeeded *)
| CWaiting (id : nat)        (* after the send attempt (successful or not): blocked on its channel *)
| CDone (id : nat) (r : result).

Record cst := mkC {
  nid : nat;                              (* Client.nextid (ids are taken mod 2^32 in the code; here unbounded, see the theorems) *)
  inflight : list (nat * option nat);     (* id -> Some caller | None (hijacked: a fresh channel nobody reads) *)
  bufs : list (nat * result);             (* results sitting in callers' channels *)
  closed : bool;
  wire : list nat;                        (* ids of the frames written to the connection, in order, each contiguous *)
  callers : list (nat * cstate)
}.

Definition cinit (n : nat) : cst := mkC 0 [] [] false [] (map (fun c => (c, CIdle)) (seq 0 n)).

Inductive clabel :=
| NextID (c : nat) | Put (c : nat) | SendOK (c : nat) | SendFail (c : nat)
| Deliver (id : nat)      (* recv read a complete reply carrying this id *)
| RecvFail                (* recv returned: conn.Close(), broadcastErr *)
| Take (c : nat).

Fixpoint cstate_of (c : nat) (l : list (nat * cstate)) : option cstate :=
  match l with [] => None | (c', s) :: t => if c' =? c then Some s else cstate_of c t end.
Definition set_state (c : nat) (s : cstate) (l : list (nat * cstate)) : list (nat * cstate) :=
  map (fun e => if fst e =? c then (fst e, s) else e) l.

Fixpoint lookup_if (id : nat) (l : list (nat * option nat)) : option (option nat) :=
  match l with [] => None | (i, v) :: t => if i =? id then Some v else lookup_if id t end.
Definition remove_if (id : nat) (l : list (nat * option nat)) : list (nat * option nat) :=
  filter (fun e => negb (fst e =? id)) l.
(* map assignment: c.inflight[sid] = ch *)
Definition put_if (id : nat) (v : option nat) (l : list (nat * option nat)) : list (nat * option nat) :=
  (id, v) :: remove_if id l.

Fixpoint take_buf (c : nat) (l : list (nat * result)) : option (result * list (nat * result)) :=
  match l with
  | [] => None
  | (c', r) :: t => if c' =? c then Some (r, t)
                    else match take_buf c t with Some (r', t') => Some (r', (c', r) :: t') | None => None end
  end.

Definition deliver_to (v : option nat) (r : result) (b : list (nat * result)) : list (nat * result) :=
  match v with Some c => b ++ [(c, r)] | None => b end.

Definition cstep (s : cst) (l : clabel) : option cst :=
  match l with
  | NextID c =>
      match cstate_of c (callers s) with
      | Some CIdle => Some (mkC (S (nid s)) (inflight s) (bufs s) (closed s) (wire s) (set_state c (CHasId (S (nid s))) (callers s)))
      | _ => None
      end
  | Put c =>
      match cstate_of c (callers s) with
      | Some (CHasId id) =>
          if closed s then   (* putChannel: already closed -> the error is delivered on the caller's own channel *)
            Some (mkC (nid s) (inflight s) (bufs s ++ [(c, RConnLost)]) (closed s) (wire s) (set_state c (CWaiting id) (callers s)))
          else Some (mkC (nid s) (put_if id (Some c) (inflight s)) (bufs s) (closed s) (wire s) (set_state c (CRegistered id) (callers s)))
      | _ => None
      end
  | SendOK c =>
      match cstate_of c (callers s) with
      | Some (CRegistered id) =>
          Some (mkC (nid s) (inflight s) (bufs s) (closed s) (wire s ++ [id]) (set_state c (CWaiting id) (callers s)))
      | _ => None
      end
  | SendFail c =>
      match cstate_of c (callers s) with
      | Some (CRegistered id) =>
          (* dispatchRequest: on a send error, getChannel(sid) and, if still registered, deliver the error there *)
          match lookup_if id (inflight s) with
          | Some v => Some (mkC (nid s) (remove_if id (inflight s)) (deliver_to v RSendErr (bufs s)) (closed s) (wire s)
                                (set_state c (CWaiting id) (callers s)))
          | None => Some (mkC (nid s) (inflight s) (bufs s) (closed s) (wire s) (set_state c (CWaiting id) (callers s)))
          end
      | _ => None
      end
  | Deliver id =>
      if closed s then None else
      match lookup_if id (inflight s) with
      | Some v => Some (mkC (nid s) (remove_if id (inflight s)) (deliver_to v (ROk id) (bufs s)) (closed s) (wire s) (callers s))
      | None => None         (* "sid not found": recv returns an error instead (RecvFail) *)
      end
  | RecvFail =>
      if closed s then None else
      Some (mkC (nid s) (map (fun e => (fst e, None)) (inflight s))
                (bufs s ++ flat_map (fun e => match snd e with Some c => [(c, RConnLost)] | None => [] end) (inflight s))
                true (wire s) (callers s))
  | Take c =>
      match cstate_of c (callers s) with
      | Some (CWaiting id) =>
          match take_buf c (bufs s) with
          | Some (r, rest) => Some (mkC (nid s) (inflight s) rest (closed s) (wire s) (set_state c (CDone id r) (callers s)))
          | None => None
          end
      | _ => None
      end
  end.

Fixpoint crun (s : cst) (tr : list clabel) : option cst :=
  match tr with [] => Some s | l :: rest => match cstep s l with Some s' => crun s' rest | None => None end end.

(* number of results owed or delivered to caller c *)
Definition pending_for (c : nat) (s : cst) : nat :=
  length (filter (fun e => match snd e with Some c' => c' =? c | None => false end) (inflight s)) +
  length (filter (fun e => fst e =? c) (bufs s)).
