(* Go's path.Clean / path.Join / path.IsAbs (== filepath.* on Linux), request-server.go cleanPath / cleanPathWithBase,
   server_unix.go toLocalPath, as functions on byte strings via slash-free segments. *)
From Coq Require Import List NArith Bool Strings.Byte.
From Sftp Require Import Base.GoSem.
Import ListNotations.

Definition sl : byte := x2f.   (* '/' *)
Definition dot : byte := x2e.  (* '.' *)

Definition is_sl (b : byte) : bool := Byte.eqb b sl.

(* split on '/': "a//b/" -> ["a"; ""; "b"; ""] *)
Fixpoint split_sl (p : bytes) (cur : bytes) : list bytes :=
  match p with
  | [] => [rev cur]
  | x :: t => if is_sl x then rev cur :: split_sl t [] else split_sl t (x :: cur)
  end.

Definition is_dot (s : bytes) : bool := match s with [x] => Byte.eqb x dot | _ => false end.
Definition is_dotdot (s : bytes) : bool := match s with [x; y] => Byte.eqb x dot && Byte.eqb y dot | _ => false end.
Definition is_empty (s : bytes) : bool := match s with [] => true | _ => false end.

(* the element stack of Clean: `stack` is reversed; `..` pops a real element, is dropped at the root of a rooted path and
   kept (pushed) in a relative one *)
Fixpoint clean_stack (rooted : bool) (segs : list bytes) (stack : list bytes) : list bytes :=
  match segs with
  | [] => rev stack
  | s :: rest =>
    if is_empty s || is_dot s then clean_stack rooted rest stack
    else if is_dotdot s then
      match stack with
      | top :: below => if is_dotdot top then clean_stack rooted rest (s :: stack)
                        else clean_stack rooted rest below
      | [] => if rooted then clean_stack rooted rest [] else clean_stack rooted rest [s]
      end
    else clean_stack rooted rest (s :: stack)
  end.

Fixpoint join_sl (segs : list bytes) : bytes :=
  match segs with
  | [] => []
  | [s] => s
  | s :: rest => s ++ sl :: join_sl rest
  end.

Definition is_abs (p : bytes) : bool := match p with x :: _ => is_sl x | [] => false end.

(* the segments of the cleaned path and whether it is rooted *)
Definition clean_segments (p : bytes) : bool * list bytes :=
  let rooted := is_abs p in (rooted, clean_stack rooted (split_sl p []) []).

Definition render_path (rooted : bool) (segs : list bytes) : bytes :=
  match segs with
  | [] => if rooted then [sl] else [dot]
  | _ => if rooted then sl :: join_sl segs else join_sl segs
  end.

(* path.Clean *)
Definition clean (p : bytes) : bytes :=
  match p with
  | [] => [dot]
  | _ => let '(r, segs) := clean_segments p in render_path r segs
  end.

(* path.Join(a, b) for two elements: empty elements are ignored; all empty -> "" *)
Definition join2 (a b : bytes) : bytes :=
  match a, b with
  | [], [] => []
  | [], _ => clean b
  | _, [] => clean a
  | _, _ => clean (a ++ sl :: b)
  end.

(* request-server.go cleanPathWithBase(base, p) *)
Definition clean_with_base (base p : bytes) : bytes :=
  let p' := clean p in
  if is_abs p' then p' else join2 base p'.

Definition clean_path (p : bytes) : bytes := clean_with_base [sl] p.

(* server_unix.go toLocalPath: relative paths are joined under the working directory, absolute ones and the
   no-working-directory case are passed through unchanged *)
Definition to_local_path (workdir p : bytes) : bytes :=
  match workdir with
  | [] => p
  | _ => if is_abs p then p else join2 workdir p
  end.

(* a path is "absolute and lexically clean": rooted, and every segment is non-empty, not ".", not ".." and slash-free *)
Definition good_seg (s : bytes) : bool :=
  negb (is_empty s) && negb (is_dot s) && negb (is_dotdot s) && forallb (fun b => negb (is_sl b)) s.
