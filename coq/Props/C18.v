(* C18 — The server buffer allocator is invisible. Theorems only; proofs in Proofs/AllocP.v *)
From Coq Require Import List Bool Arith.
From Sftp Require Import Sched.Alloc Sched.AllocTrace Proofs.AllocP Proofs.AllocTraceP.
Import ListNotations.

(* for every sequence of GetPage / ReleasePages / Free (every request stream and schedule induces one): a page is never
   in two places - not lent to two requests, not lent and available at once *)
Theorem C18_no_double_lend : forall ops, NoDup (all_pages (fold_left astep ops alloc0)).
Proof. intros ops. apply (no_double_lend ops). Qed.
Print Assumptions C18_no_double_lend.

(* the page handed out by GetPage was not lent to anybody at that moment *)
Theorem C18_get_page_not_in_use : forall ops oid,
  ~ In (snd (get_page (fold_left astep ops alloc0) oid)) (all_used (fold_left astep ops alloc0)).
Proof. intros ops oid. apply get_page_not_in_use. apply no_double_lend. Qed.
Print Assumptions C18_get_page_not_in_use.

(* pages lent for an order id (the receive buffer of the request and the data slice its DATA response refers to) stay
   lent across every other allocator operation until that id is released - which the packet manager does only after the
   matching response has been written (maybeSendPackets) *)
Theorem C18_no_reuse_before_release : forall a oid o p,
  In p (pages_of oid (used a)) -> o <> ARelease oid -> o <> AFree -> In p (pages_of oid (used (astep a o))).
Proof. exact pages_stay_until_release. Qed.
Print Assumptions C18_no_reuse_before_release.

Theorem C18_released_means_unused : forall a oid, pages_of oid (used (release_pages a oid)) = [].
Proof. exact released_means_unused. Qed.
Print Assumptions C18_released_means_unused.

(* ===== the tie to allocator.go: replay of the allocator's own event trace (family alt) =====
   The instrumented allocator reports, inside its mutex, every GetPage with the identity of the page it returned, every
   ReleasePages and Free. A trace `areplay_trace` accepts is a run of the model that hands out the same pages: *)
Theorem C18_accepted_trace_is_model_run : forall tr a, areplay_trace tr = inl a ->
  a = fold_left astep (map aop_of tr) alloc0 /\ NoDup (all_pages a).
Proof. exact accepted_alloc_trace. Qed.
Print Assumptions C18_accepted_trace_is_model_run.

(* ... so the page each recorded GetPage handed out was lent to nobody at that moment *)
Theorem C18_accepted_get_not_in_use : forall pre oid p post a,
  areplay_trace (pre ++ AEvG oid p :: post) = inl a ->
  ~ In p (all_used (fold_left astep (map aop_of pre) alloc0)).
Proof. exact accepted_get_not_in_use. Qed.
Print Assumptions C18_accepted_get_not_in_use.

(* PARTIAL: byte-identity of the response streams with and without the allocator follows from the three facts above
   together with C02's ordering, but that composition (responses read their page at send time) is tied by the oracle of
   family c18 (the same programs under the same gate schedule, allocator off vs on), not yet proved as one theorem. *)
Example C18_nonvacuous :
  let a := fold_left astep [AGet 1; AGet 1; AGet 2; ARelease 1; AGet 3] alloc0 in
  used a = [(2, [2]); (3, [1])] /\ available a = [0].
Proof. vm_compute. split; reflexivity. Qed.
