(* C18 — The server buffer allocator is invisible. Theorems only; proofs in Proofs/AllocP.v, Proofs/AllocTraceP.v, Proofs/PageMgrP.v *)
From Coq Require Import List Bool Arith Strings.Byte.
From Sftp Require Import Base.GoSem Sched.Alloc Sched.AllocTrace Sched.PageMgr Proofs.AllocP Proofs.AllocTraceP Proofs.PageMgrP.
Import ListNotations.

(* for every sequence of GetPage / ReleasePages / Free (every request stream and schedule induces one): a page is never
   in two places - not lent to two requests, not lent and available at once *)
Theorem C18_no_double_lend : forall ops, NoDup (all_pages (fold_left astep ops alloc0)).
Proof. intros ops. apply (no_double_lend ops). Qed.
Print Assumptions C18_no_double_lend.

(* the page handed out by GetPage was not lent to anybody at that moment *)
Theorem C18_get_page_not_in_use : forall ops oid,
  ~ In (snd (get_page (fold_left astep ops alloc0) oid)) (all_used (fold_left astep ops alloc0)).
Proof. intros ops oid. apply get_page_not_in_use. apply no_double_lend. Qed.
Print Assumptions C18_get_page_not_in_use.

(* pages lent for an order id (the receive buffer of the request and the data slice its DATA response refers to) stay
   lent across every other allocator operation until that id is released - which the packet manager does only after the
   matching response has been written (maybeSendPackets) *)
Theorem C18_no_reuse_before_release : forall a oid o p,
  In p (pages_of oid (used a)) -> o <> ARelease oid -> o <> AFree -> In p (pages_of oid (used (astep a o))).
Proof. exact pages_stay_until_release. Qed.
Print Assumptions C18_no_reuse_before_release.

Theorem C18_released_means_unused : forall a oid, pages_of oid (used (release_pages a oid)) = [].
Proof. exact released_means_unused. Qed.
Print Assumptions C18_released_means_unused.

(* ===== the tie to allocator.go: replay of the allocator's own event trace (family alt) =====
   The instrumented allocator reports, inside its mutex, every GetPage with the identity of the page it returned, every
   ReleasePages and Free. A trace `areplay_trace` accepts is a run of the model that hands out the same pages: *)
Theorem C18_accepted_trace_is_model_run : forall tr a, areplay_trace tr = inl a ->
  a = fold_left astep (map aop_of tr) alloc0 /\ NoDup (all_pages a).
Proof. exact accepted_alloc_trace. Qed.
Print Assumptions C18_accepted_trace_is_model_run.

(* ... so the page each recorded GetPage handed out was lent to nobody at that moment *)
Theorem C18_accepted_get_not_in_use : forall pre oid p post a,
  areplay_trace (pre ++ AEvG oid p :: post) = inl a ->
  ~ In p (all_used (fold_left astep (map aop_of pre) alloc0)).
Proof. exact accepted_get_not_in_use. Qed.
Print Assumptions C18_accepted_get_not_in_use.

(* ===== page contents (Sched/PageMgr.v): the allocator is invisible =====
   A request's receive buffer and the data slice of its READ response live in pages lent for its order id; the decoded
   WRITE/SETSTAT request points into the receive page, the DATA response into the data page; the response is written at send
   time and only then are the pages released. For EVERY interleaving of receiving (PRecv), handling (PWork) and sending
   (PSend) of any number of requests: each worker sees exactly the request bytes received for its request, and each
   response goes out with exactly the payload its worker produced - i.e. what happens without the allocator, where every
   buffer is private. *)
Theorem C18_allocator_invisible : forall tr s oid b seen d out,
  prun p0 tr = Some s -> In (oid, (b, seen, d, out)) (pouts s) -> seen = b /\ out = d.
Proof. exact allocator_invisible. Qed.
Print Assumptions C18_allocator_invisible.

(* a buffer is not reused before the response that refers to it has been written *)
Theorem C18_pages_hold_until_sent : forall tr s oid q d seen b,
  prun p0 tr = Some s -> In (oid, (Some q, d, seen, b)) (pworks s) -> ~ In oid (psent s) ->
  In q (pages_of oid (used (pa s))) /\ pmem s q = d.
Proof. exact pages_hold_until_sent. Qed.
Print Assumptions C18_pages_hold_until_sent.

(* MODELLED, NOT PROVED ABOUT THE CODE: that recvPacket/getDataSlice take their pages for the request's own order id and that
   the release happens after the write (maybeSendPackets) - the first is what the recorded allocator traces show (family alt:
   the G/L events carry the order ids), the second is the order of two statements; both are what the seeded changes C18-m1,
   C18-m2, C15-m2 break and the checks report. Byte-identity of whole response streams additionally needs C02's order. *)
Example C18_nonvacuous :
  let a := fold_left astep [AGet 1; AGet 1; AGet 2; ARelease 1; AGet 3] alloc0 in
  used a = [(2, [2]); (3, [1])] /\ available a = [0].
Proof. vm_compute. split; reflexivity. Qed.

Example C18_pages_nonvacuous :
  exists s, prun p0 [PRecv 1 [x01]%byte; PRecv 2 [x02]%byte; PWork 2 [x22]%byte true; PWork 1 [x11]%byte true; PSend 1; PRecv 3 [x03]%byte;
                     PWork 3 [x33]%byte true; PSend 2; PSend 3] = Some s /\
            map fst (pouts s) = [3; 2; 1] /\ length (available (pa s)) = 4.
Proof. eexists. split; [vm_compute; reflexivity|]. vm_compute. split; reflexivity. Qed.
