(* C11 — Handles are unique, die on close, and all resources are released once. Theorems only; proofs in Proofs/HandlesP.v *)
From Coq Require Import List Bool Arith.
From Sftp Require Import Srv.Handles Proofs.HandlesP Srv.Shutdown Proofs.ShutdownP.
Import ListNotations.
Import Shutdown.

(* over whole sessions (opens that succeed or fail, repeated and bogus closes, use after close, any number of
   simultaneously open handles): handles issued are pairwise distinct *)
Theorem C11_handles_distinct : forall ops, Forall (fun o => o <> EndSession) ops -> NoDup (issued (hrun ops)).
Proof. exact handles_distinct. Qed.
Print Assumptions C11_handles_distinct.

(* a request naming a handle that was never issued or has been closed fails without touching any file or handler *)
Theorem C11_stale_handle_inert : forall s h, is_open s h = false ->
  hstep s (Use h) = (s, true) /\ hstep s (CloseH h) = (s, true).
Proof. exact stale_handle_inert. Qed.
Print Assumptions C11_stale_handle_inert.

(* whenever Serve returns, after ANY prefix of ANY session (clean close, EOF after any request, connection cut): every
   resource handed out has been closed exactly once, its context cancelled exactly once, and the transfer-error
   notification went exactly to the resources whose handle was still open *)
Theorem C11_all_closed_once_at_end : forall ops e,
  Forall (fun o => o <> EndSession) ops -> In e (res (hrun ops)) ->
  exists r', In (fst e, r') (res (fst (hstep (hrun ops) EndSession))) /\
    r_closed r' = 1 /\ r_cancelled r' = 1 /\
    (r_xfer r' = 1 <-> is_open (hrun ops) (fst e) = true) /\ r_xfer r' <= 1.
Proof. exact all_closed_once_at_end. Qed.
Print Assumptions C11_all_closed_once_at_end.

Theorem C11_session_invariant : forall ops, Forall (fun o => o <> EndSession) ops -> hinv (hrun ops).
Proof. exact hinv_run. Qed.
Print Assumptions C11_session_invariant.

(* ===== "by the time Serve returns": the order of Serve's epilogue (Srv/Shutdown.v) =====
   The theorems above take the end of the session as one step. In the code it is a protocol between goroutines: the receive
   loop closes the channel, Serve waits on a WaitGroup for the workers and only then sweeps the handle table. Because the
   counter is raised by Serve BEFORE each worker goroutine is created, for every number of workers, every number of queued
   requests and every interleaving: nothing is served after the sweep, no handle is opened after it, and when the sweep runs
   every worker has left, every received request has been served and (after the sweep) no handle is open. Tied by kind
   prebuf (session readable at once, then EOF: the receive loop is done before any worker has run). *)
Theorem C11_nothing_after_the_sweep : forall n tr s, shrun true (sh0 true n) tr = Some s ->
  late s = 0 /\ leaked s = 0 /\
  (swept s = true -> spawned s + running s = 0 /\ opened s = 0 /\ (0 < n -> queue s = 0)).
Proof. exact nothing_after_the_sweep. Qed.
Print Assumptions C11_nothing_after_the_sweep.

Theorem C11_observer_sees_nothing : forall n tr s, shrun true (sh0 true n) tr = Some s -> swept s = true -> after_return s = (0, 0).
Proof. exact observer_sees_nothing. Qed.
Print Assumptions C11_observer_sees_nothing.

(* raising the counter inside the goroutine instead lets Serve sweep before a worker has run: one request served after the
   cleanup, one handle nobody closes *)
Theorem C11_add_inside_goroutine_refuted :
  exists tr s, shrun false (sh0 false 1) tr = Some s /\ swept s = true /\ after_return s = (1, 1).
Proof. exact add_inside_goroutine_refuted. Qed.
Print Assumptions C11_add_inside_goroutine_refuted.

Example C11_nonvacuous :
  let s := hrun [OpenOk; OpenFail true; OpenOk; CloseH 1; Use 1; CloseH 1; CloseH 7] in
  issued s = [1; 3] /\ table s = [3] /\ counter s = 3 /\
  res (fst (hstep s EndSession)) = [(1, mkR 1 0 1); (2, mkR 1 0 1); (3, mkR 1 1 1)].
Proof. vm_compute. repeat split; reflexivity. Qed.
