(* C02 — Servers answer every request once, with its id, in arrival order. Theorems only; proofs in Proofs/PktMgrP.v *)
From Coq Require Import List Bool Arith.
From Sftp Require Import Sched.PktMgr Proofs.PktMgrP.
Import ListNotations.

(* for every request program (any mix of read/write, close and command requests pipelined without waiting) and every
   schedule of the dispatcher, the eight pool workers, the command worker and the controller (every list of labels the
   system can execute): the responses written so far are those of requests 1..k in arrival order, each exactly once *)
Theorem C02_emitted_prefix : forall tr s, run init tr = Some s ->
  emitted s = seq 1 (length (emitted s)) /\ length (emitted s) <= arrived s /\ NoDup (emitted s).
Proof. exact emitted_prefix. Qed.
Print Assumptions C02_emitted_prefix.

(* the bookkeeping invariant behind it, for every reachable state: emitted = 1..E, the controller's `incoming` is the
   next segment, the `requests` channel the one after, the not yet dispatched requests the last *)
Theorem C02_order_invariant : forall tr s, run init tr = Some s -> inv1 s.
Proof. intros tr s H. exact (inv_run inv1 inv1_step tr init s inv1_init H). Qed.
Print Assumptions C02_order_invariant.

(* the WaitGroup counts exactly the requests handed to workers and not yet answered *)
Theorem C02_working_counts : forall tr s, run init tr = Some s -> working s = length (rw_run s) + length (cmd_q s).
Proof. intros tr s H. apply (close_barrier tr s H). Qed.
Print Assumptions C02_working_counts.

(* PARTIAL: "every request is eventually answered" (no wedge / completeness at quiescence) is not yet a theorem; it is
   decided per run by the oracle of family c02 (one response per request under chosen completion orders). The shutdown
   race that loses trailing responses when the input ends right after the requests (finding F10) is a known finding. *)
Example C02_nonvacuous :
  exists s, run init [Arrive KRW; Arrive KCmd; Arrive KRW; Dispatch; Dispatch; Dispatch; FinishRW 3; FinishCmd; CtlReq; CtlResp;
                      CtlResp; CtlReq; CtlReq; FinishRW 1; CtlResp] = Some s /\ emitted s = [1; 2; 3].
Proof. eexists. split; [vm_compute; reflexivity | reflexivity]. Qed.
