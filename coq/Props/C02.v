(* C02 — Servers answer every request once, with its id, in arrival order. Theorems only; proofs in Proofs/PktMgrP.v, Proofs/PktMgrLiveP.v *)
From Coq Require Import List Bool Arith.
From Sftp Require Import Sched.PktMgr Sched.PktTrace Proofs.PktMgrP Proofs.PktMgrLiveP Proofs.PktTraceP Proofs.PktTraceLiveP.
Import ListNotations.

(* for every request program (any mix of read/write, close and command requests pipelined without waiting) and every
   schedule of the dispatcher, the eight pool workers, the command worker and the controller (every list of labels the
   system can execute): the responses written so far are those of requests 1..k in arrival order, each exactly once *)
Theorem C02_emitted_prefix : forall tr s, run init tr = Some s ->
  emitted s = seq 1 (length (emitted s)) /\ length (emitted s) <= arrived s /\ NoDup (emitted s).
Proof. exact emitted_prefix. Qed.
Print Assumptions C02_emitted_prefix.

(* the bookkeeping invariant behind it, for every reachable state: emitted = 1..E, the controller's `incoming` is the
   next segment, the `requests` channel the one after, the not yet dispatched requests the last *)
Theorem C02_order_invariant : forall tr s, run init tr = Some s -> inv1 s.
Proof. intros tr s H. exact (inv_run inv1 inv1_step tr init s inv1_init H). Qed.
Print Assumptions C02_order_invariant.

(* the WaitGroup counts exactly the requests handed to workers and not yet answered *)
Theorem C02_working_counts : forall tr s, run init tr = Some s -> working s = length (rw_run s) + length (cmd_q s).
Proof. intros tr s H. apply (close_barrier tr s H). Qed.
Print Assumptions C02_working_counts.

(* nothing is lost: for every pipeline and every schedule, once no goroutine has work left, the responses written are
   exactly those of ALL the requests that arrived, in arrival order, each once *)
Theorem C02_quiescent_complete : forall tr s, run init tr = Some s -> quiescent s = true ->
  emitted s = seq 1 (arrived s).
Proof. exact quiescent_complete. Qed.
Print Assumptions C02_quiescent_complete.

(* "with its id" does not rest on the ids being distinct: the packet manager orders by arrival, not by the id the peer chose.
   For ANY assignment of ids to requests - a peer may reuse an id while an earlier request carrying it is still in flight - the
   ids on the wire are the ids of requests 1..k in arrival order, and all of them once nothing is in flight. Tied by the
   programs of c02 and pmt whose ids are drawn from {7, 8, 9}. *)
Theorem C02_ids_in_arrival_order_any_assignment : forall (A : Type) (rid : nat -> A) tr s, run init tr = Some s ->
  map rid (emitted s) = map rid (seq 1 (length (emitted s))).
Proof. exact emitted_ids_any_assignment. Qed.
Print Assumptions C02_ids_in_arrival_order_any_assignment.

Theorem C02_all_ids_once_quiescent_any_assignment : forall (A : Type) (rid : nat -> A) tr s,
  run init tr = Some s -> quiescent s = true -> map rid (emitted s) = map rid (seq 1 (arrived s)).
Proof. exact quiescent_ids_any_assignment. Qed.
Print Assumptions C02_all_ids_once_quiescent_any_assignment.

(* no wedge: a reachable state with work left can always take a step of the server's own goroutines (also across the
   CLOSE barrier) ... *)
Theorem C02_progress : forall tr s, run init tr = Some s -> quiescent s = false ->
  exists l s', internal l = true /\ step s l = Some s'.
Proof. exact progress. Qed.
Print Assumptions C02_progress.

(* ... such steps cannot go on forever (each one strictly decreases `measure`) ... *)
Theorem C02_internal_runs_bounded : forall tr' s s', forallb internal tr' = true -> run s tr' = Some s' ->
  length tr' + measure s' <= measure s.
Proof. exact internal_runs_bounded. Qed.
Print Assumptions C02_internal_runs_bounded.

(* ... so from every reachable state the server can finish, and then it has answered every request exactly once *)
Theorem C02_drains : forall tr s, run init tr = Some s ->
  exists tr' s', forallb internal tr' = true /\ run s tr' = Some s' /\ quiescent s' = true /\
                 arrived s' = arrived s /\ emitted s' = seq 1 (arrived s).
Proof. exact drains. Qed.
Print Assumptions C02_drains.

(* ===== the tie to packet-manager.go: trace acceptance (families pmt) =====
   The instrumented packet manager reports its events (A arrive, D dispatch, F finished, Q/R controller receives,
   E emission); `accept_trace` replays them on the LTS. For every trace it accepts: the E events are 1, 2, 3, ... (every
   response once, in arrival order), the order invariant holds in the state reached, and the model's emissions are the
   trace's plus those the last controller step still owes. Every run compares accepted/emitted with the recorded trace. *)
Theorem C02_accepted_trace_in_order : forall tr s owed,
  accept_raw tr = inl (s, owed) ->
  inv1 s /\ emitted s = es_of tr ++ owed /\ es_of tr = seq 1 (length (es_of tr)).
Proof. exact accepted_raw_in_order. Qed.
Print Assumptions C02_accepted_trace_in_order.

(* ... and nothing is lost in the recorded runs either: an accepted trace that ends with nothing in flight (every run of
   the pmt family that is not cut short ends so, and the check compares `quiescent`) has answered every request exactly
   once - its E events, followed by what the last controller step still owes, are 1 .. number of arrivals *)
Theorem C02_accepted_trace_complete : forall tr s owed,
  accept_raw tr = inl (s, owed) -> quiescent s = true ->
  es_of tr ++ owed = seq 1 (arrived s).
Proof. exact accepted_raw_quiescent_complete. Qed.
Print Assumptions C02_accepted_trace_complete.

(* MODELLED, NOT PROVED ABOUT THE CODE: that the LTS is the packet manager (tied by the c02 family's oracle and by code
   reading, see DESIGN 0.2); the response id equals the request id (oracle of c02); behaviour when the input ends while
   work is in flight: the real Serve stops the controller early (finding F10, known), which the LTS does not model. *)
Example C02_nonvacuous :
  exists s, run init [Arrive KRW; Arrive KCmd; Arrive KRW; Dispatch; Dispatch; Dispatch; FinishRW 3; FinishCmd; CtlReq; CtlResp;
                      CtlResp; CtlReq; CtlReq; FinishRW 1; CtlResp] = Some s /\ emitted s = [1; 2; 3].
Proof. eexists. split; [vm_compute; reflexivity | reflexivity]. Qed.
