(* C12 — A remote File keeps os.File's offset and closed-state semantics. Theorems only; proofs in Proofs/TransferP.v, Proofs/FileOpsP.v *)
From Coq Require Import List NArith ZArith Bool Arith Lia Strings.Byte.
From Sftp Require Import Base.GoSem Xfer.Transfer Xfer.FileOps Proofs.TransferP Proofs.TransferE2EP Proofs.FileOpsP Xfer.FileLock Proofs.FileLockP.
Import ListNotations.

(* Seek computes start-, current- and end-relative positions, rejects an invalid whence, and a failing Seek does not move *)
Theorem C12_seek_spec : forall cur size w delta,
  (snd (seek cur size w delta) = true -> fst (seek cur size w delta) = cur) /\
  (snd (seek cur size w delta) = false ->
     match w with
     | SeekStart => Z.of_nat (fst (seek cur size w delta)) = delta
     | SeekCurrent => Z.of_nat (fst (seek cur size w delta)) = (Z.of_nat cur + delta)%Z
     | SeekEnd => Z.of_nat (fst (seek cur size w delta)) = (Z.of_nat size + delta)%Z
     | SeekBad => False
     end).
Proof. exact seek_spec. Qed.
Print Assumptions C12_seek_spec.

Theorem C12_seek_negative_rejected : forall cur size w delta t,
  match w with SeekStart => t = delta | SeekCurrent => t = (Z.of_nat cur + delta)%Z
             | SeekEnd => t = (Z.of_nat size + delta)%Z | SeekBad => True end ->
  (t < 0)%Z -> seek cur size w delta = (cur, true).
Proof. exact seek_negative_rejected. Qed.
Print Assumptions C12_seek_negative_rejected.

(* concurrent WriteTo (repaired tree): the offset ends at the end of the data; the pinned tree left it at the next chunk
   boundary (finding F9): 10-byte file, 4-byte packets -> 12 *)
Theorem C12_writeTo_offset_pinned_refuted :
  let s := mkSrv (pattern 0 10) 100 (fun _ => None) (fun _ => None) in
  snd (writeToConc 12 false s 4 0 [] 0) = 12 /\ snd (writeToConc 12 true s 4 0 [] 0) = 10 /\
  fst (fst (writeToConc 12 true s 4 0 [] 0)) = pattern 0 10.
Proof. exact writeToConc_pinned_refuted. Qed.
Print Assumptions C12_writeTo_offset_pinned_refuted.

Theorem C12_tree_is_repaired : writeto_fixed = true /\ readfrom_fixed = true.
Proof. split; reflexivity. Qed.
Print Assumptions C12_tree_is_repaired.

(* sequential ReadFrom moves the offset exactly past what was stored when it succeeds *)
Theorem C12_readFrom_offset : forall fuel s p src off read s' n foff,
  1 <= p -> length src <= fuel ->
  readFromSeq fuel readfrom_fixed s p src off read = (s', n, None, foff) -> foff = off + length src.
Proof. intros. eapply readFromSeq_nil_means_all; eassumption. Qed.
Print Assumptions C12_readFrom_offset.

(* ===== refinement: a remote File is an os.File (Xfer/FileOps.v) =====
   fstep is the File method layer of client.go (Read/Write/ReadFrom/WriteTo use and move File.offset, ReadAt/WriteAt/
   Truncate/Stat do not, Seek as above) over the transfer paths; ostep is an os.File on a plain byte string. For EVERY
   sequence of method calls with arbitrary lengths, offsets and whence values, under every packet size and every
   read/write concurrency option (packet size within the server's payload limit, no injected failures): every call
   returns the same count, the same error-or-not and the same data, and the served content and the offset agree after
   every step. *)
Theorem C12_file_refines_os_file : forall o ops s off s' off' rs,
  wf o s -> frun o (s, off) ops = ((s', off'), rs) ->
  orun (file s, off) ops = ((file s', off'), rs).
Proof. exact frun_refines. Qed.
Print Assumptions C12_file_refines_os_file.

Theorem C12_step_refines : forall o s off op s' off' r,
  wf o s -> fstep o (s, off) op = ((s', off'), r) ->
  ostep (file s, off) op = ((file s', off'), r) /\ wf o s'.
Proof. exact fstep_refines. Qed.
Print Assumptions C12_step_refines.

(* spelled out: which methods move the offset, and by how much *)
Theorem C12_offsets_like_os : forall o s off op s' off' r,
  wf o s -> fstep o (s, off) op = ((s', off'), r) ->
  match op with
  | FReadAt _ _ | FWriteAt _ _ | FTruncate _ | FStat => off' = off
  | FRead _ | FWrite _ => off' = off + r_n r
  | FReadFrom src _ => off' = off + length src /\ r_n r = length src
  | FWriteTo => off' = Nat.max off (length (file s))
  | FSeek _ _ => True
  end.
Proof. exact offsets_like_os. Qed.
Print Assumptions C12_offsets_like_os.

(* MODELLED / OBSERVED, NOT PROVED: the closed-state half (after Close every method returns os.ErrClosed, exactly one CLOSE
   is sent, nothing carrying the handle is written afterwards even when Close races with other methods) depends on
   File.mu (sync.RWMutex) and is decided per run by family c12 (Close races against a logging peer). The model fstep is
   tied to client.go on every run: family c12 kind fseqm replays each random method sequence on the extracted model and
   compares count, error, data and offset after every step and the final content. *)
(* ===== closed state under concurrency (Xfer/FileLock.v) =====
   Every File method takes f.mu (shared or exclusive), looks at the handle, sends its requests and unlocks; Close clears the
   handle and sends CLOSE under the exclusive lock. For every set of concurrent calls (any mix of shared-lock methods,
   exclusive-lock methods and Close calls, any number of requests each) and every interleaving of their lock / check / send /
   unlock steps: at most one CLOSE request is written and no request carrying the handle is written after it; once the
   handle is gone it stays gone and every method that looks at it returns os.ErrClosed; and while some call has not returned,
   some thread can take a step (no deadlock; the RWMutex is modelled by its exclusion guarantee, not by its fairness). The c12
   family runs the same `wire_scan` over the requests the peer saw in its Close races (kind closewire). *)
Theorem C12_no_request_after_close : forall calls tr s, FileLock.frun8 (FileLock.finit calls) tr = Some s ->
  FileLock.wire_scan (FileLock.wire s) false = true /\
  exists pre, FileLockP.noclose pre /\ (FileLock.wire s = pre \/ exists c, FileLock.wire s = pre ++ [FileLock.WClose c]).
Proof. exact FileLockP.no_request_after_close. Qed.
Print Assumptions C12_no_request_after_close.

(* "exactly one close request has been sent": a Close call that returned without error has written its CLOSE, no other CLOSE
   was written, and it is the last request on the wire *)
Theorem C12_successful_close_sent_exactly_one : forall calls tr s c t, FileLock.frun8 (FileLock.finit calls) tr = Some s ->
  FileLock.thr_of c (FileLock.threads s) = Some t -> FileLock.kind t = FileLock.MClose -> FileLock.st t = FileLock.SDone false ->
  exists pre c', FileLock.wire s = pre ++ [FileLock.WClose c'] /\ FileLockP.noclose pre.
Proof. exact FileLockP.successful_close_sent_exactly_one. Qed.
Print Assumptions C12_successful_close_sent_exactly_one.

Theorem C12_closed_stays : forall s l s', FileLock.fstep s l = Some s' -> FileLock.closed s = true -> FileLock.closed s' = true.
Proof. exact FileLockP.closed_stays. Qed.
Print Assumptions C12_closed_stays.

Theorem C12_check_after_close_is_errclosed : forall s c s', FileLock.closed s = true -> FileLock.fstep s (FileLock.Chk c) = Some s' ->
  exists t', FileLock.thr_of c (FileLock.threads s') = Some t' /\ FileLock.st t' = FileLock.SRel true.
Proof. exact FileLockP.check_after_close_is_errclosed. Qed.
Print Assumptions C12_check_after_close_is_errclosed.

Theorem C12_close_no_deadlock : forall calls tr s, FileLock.frun8 (FileLock.finit calls) tr = Some s ->
  (exists c t, In (c, t) (FileLock.threads s) /\ forall b, FileLock.st t <> FileLock.SDone b) -> exists l s', FileLock.fstep s l = Some s'.
Proof. exact FileLockP.no_deadlock. Qed.
Print Assumptions C12_close_no_deadlock.

Example C12_nonvacuous :
  seek 5 20 SeekEnd (-3)%Z = (17, false) /\ seek 5 20 SeekCurrent (-6)%Z = (5, true) /\ seek 5 20 SeekBad 0%Z = (5, true).
Proof. vm_compute. repeat split; reflexivity. Qed.

Example C12_refinement_nonvacuous :
  let o := mkOpts 3 2 true true false in
  let s := mkSrv (pattern 0 10) 100 (fun _ => None) (fun _ => None) in
  wf o s /\
  map r_n (snd (frun o (s, 0) [FRead 4; FWrite (pattern 50 7); FSeek SeekEnd (-2)%Z; FRead 5; FReadAt 1 3; FWriteTo])) = [4; 7; 9; 2; 3; 0] /\
  snd (fst (frun o (s, 0) [FRead 4; FWrite (pattern 50 7); FSeek SeekEnd (-2)%Z; FRead 5])) = 11.
Proof. split; [repeat split; intros; try reflexivity; cbn; lia|]. vm_compute. split; reflexivity. Qed.

Example C12_lock_nonvacuous :
  exists s, FileLock.frun8 (FileLock.finit [(FileLock.MShared, 2); (FileLock.MClose, 1); (FileLock.MShared, 1)])
              [FileLock.Acq 0; FileLock.Acq 2; FileLock.Chk 0; FileLock.Snd 0; FileLock.Chk 2; FileLock.Snd 2; FileLock.Rel 2; FileLock.Snd 0; FileLock.Rel 0;
               FileLock.Acq 1; FileLock.Chk 1; FileLock.Snd 1; FileLock.Rel 1] = Some s /\
            FileLock.wire s = [FileLock.WReq 0; FileLock.WReq 2; FileLock.WReq 0; FileLock.WClose 1] /\ FileLock.closed s = true.
Proof. eexists. split; [vm_compute; reflexivity | split; reflexivity]. Qed.
