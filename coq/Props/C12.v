(* C12 — A remote File keeps os.File's offset and closed-state semantics. Theorems only; proofs in Proofs/TransferP.v *)
From Coq Require Import List NArith ZArith Bool Arith Strings.Byte.
From Sftp Require Import Base.GoSem Xfer.Transfer Proofs.TransferP.
Import ListNotations.

(* Seek computes start-, current- and end-relative positions, rejects an invalid whence, and a failing Seek does not move *)
Theorem C12_seek_spec : forall cur size w delta,
  (snd (seek cur size w delta) = true -> fst (seek cur size w delta) = cur) /\
  (snd (seek cur size w delta) = false ->
     match w with
     | SeekStart => Z.of_nat (fst (seek cur size w delta)) = delta
     | SeekCurrent => Z.of_nat (fst (seek cur size w delta)) = (Z.of_nat cur + delta)%Z
     | SeekEnd => Z.of_nat (fst (seek cur size w delta)) = (Z.of_nat size + delta)%Z
     | SeekBad => False
     end).
Proof. exact seek_spec. Qed.
Print Assumptions C12_seek_spec.

Theorem C12_seek_negative_rejected : forall cur size w delta t,
  match w with SeekStart => t = delta | SeekCurrent => t = (Z.of_nat cur + delta)%Z
             | SeekEnd => t = (Z.of_nat size + delta)%Z | SeekBad => True end ->
  (t < 0)%Z -> seek cur size w delta = (cur, true).
Proof. exact seek_negative_rejected. Qed.
Print Assumptions C12_seek_negative_rejected.

(* concurrent WriteTo (repaired tree): the offset ends at the end of the data; the pinned tree left it at the next chunk
   boundary (finding F9): 10-byte file, 4-byte packets -> 12 *)
Theorem C12_writeTo_offset_pinned_refuted :
  let s := mkSrv (pattern 0 10) 100 (fun _ => None) (fun _ => None) in
  snd (writeToConc 12 false s 4 0 [] 0) = 12 /\ snd (writeToConc 12 true s 4 0 [] 0) = 10 /\
  fst (fst (writeToConc 12 true s 4 0 [] 0)) = pattern 0 10.
Proof. exact writeToConc_pinned_refuted. Qed.
Print Assumptions C12_writeTo_offset_pinned_refuted.

Theorem C12_tree_is_repaired : writeto_fixed = true /\ readfrom_fixed = true.
Proof. split; reflexivity. Qed.
Print Assumptions C12_tree_is_repaired.

(* sequential ReadFrom moves the offset exactly past what was stored when it succeeds *)
Theorem C12_readFrom_offset : forall fuel s p src off read s' n foff,
  1 <= p -> length src <= fuel ->
  readFromSeq fuel readfrom_fixed s p src off read = (s', n, None, foff) -> foff = off + length src.
Proof. intros. eapply readFromSeq_nil_means_all; eassumption. Qed.
Print Assumptions C12_readFrom_offset.

(* PARTIAL: offset refinement for every method sequence (Read/Write/WriteTo/ReadFrom advance by the bytes moved,
   ReadAt/WriteAt do not move) and the Close/RWMutex interleaving argument are tied by the correspondence and oracle
   runs (family c12: offsets against an os.File after every step; Close races against a logging peer), not yet theorems *)
Example C12_nonvacuous :
  seek 5 20 SeekEnd (-3)%Z = (17, false) /\ seek 5 20 SeekCurrent (-6)%Z = (5, true) /\ seek 5 20 SeekBad 0%Z = (5, true).
Proof. vm_compute. repeat split; reflexivity. Qed.
