(* C06 — The wire encoding is lossless and the two codecs agree. Theorems only; proofs in Proofs/Wire*P.v *)
From Coq Require Import List NArith Bool Strings.Byte.
From Sftp Require Import Base.GoSem Wire.Prim Wire.Packets Wire.Spec Proofs.PrimP Proofs.WireRtP Proofs.WirePktP Proofs.WireBRtP.
Import ListNotations.
Open Scope N_scope.

(* the length prefix equals the number of bytes that follow it (any body shorter than 2^32) *)
Theorem C06_frame_len : forall body, len32 body < p32 ->
  u32_dec_safe (frame body) = Ok (len32 body, body) /\ length (frame body) = (4 + length body)%nat.
Proof. exact frame_prefix_is_length. Qed.
Print Assumptions C06_frame_len.

(* primitives, all values: 32/64-bit integers and strings of any content (empty, long, non-UTF-8) *)
Theorem C06_prim_roundtrip : forall v s rest,
  u32_dec_safe (u32_enc v ++ rest) = Ok (v mod p32, rest) /\
  u64_dec_safe (u64_enc v ++ rest) = Ok (v mod p64, rest) /\
  (is_str s = true -> str_dec_safe (str_enc s ++ rest) = Ok (s, rest)).
Proof. intros; repeat split; [apply u32_dec_safe_enc | apply u64_dec_safe_enc | apply str_dec_safe_enc]. Qed.
Print Assumptions C06_prim_roundtrip.

(* attribute blocks: every subset of flags, any number of extended pairs; both decoders (with/without count guard) *)
Theorem C06_attrs_roundtrip : forall g a rest, wf_attrs a = true -> attrs_dec g (attrs_enc a ++ rest) = Ok (a, rest).
Proof. exact attrs_dec_enc. Qed.
Print Assumptions C06_attrs_roundtrip.

(* any field list (integers, strings, attribute blocks, extension pairs, name lists) *)
Theorem C06_fields_roundtrip : forall g fs rest,
  forallb wf_fld fs = true -> greedy_last fs = true -> (ends_greedy fs = true -> rest = []) ->
  parse (map (kind_of g) fs) (render fs ++ rest) = Ok (fs, rest).
Proof. exact parse_render. Qed.
Print Assumptions C06_fields_roundtrip.

(* every request packet: what the server's decoder (makePacket) holds after decoding the client's encoding is the packet *)
Theorem C06_decA_encA : forall p,
  wf_packet p = true -> is_request p = true -> ext_name_free p = true ->
  decA (ptype p) (render (fieldsA p)) = Ok (rawify p).
Proof. exact decA_encA. Qed.
Print Assumptions C06_decA_encA.

(* sending a packet and receiving it: the reader obtains exactly type and payload and consumes exactly the frame *)
Theorem C06_recv_encA : forall p rest, len32 (bodyA p) <= max_msg_length ->
  recv_frame (encA p ++ rest) = {| f_res := Ok (ptype p mod 256, render (fieldsA p)); f_consumed := length (encA p) |}.
Proof. exact recv_frame_encA. Qed.
Print Assumptions C06_recv_encA.

(* the two codecs produce identical bytes wherever both can express the packet (MKDIR: codec A has no attribute body) *)
Theorem C06_encB_eq_encA : forall p b, encB p = Some b -> mkdir_plain p = true -> b = encA p.
Proof. exact encB_eq_encA. Qed.
Print Assumptions C06_encB_eq_encA.

(* and those bytes are the ones the specification tables prescribe *)
Theorem C06_encA_is_spec : forall p b, spec_bytes p = Some b -> mkdir_plain p = true -> encA p = b.
Proof. exact encA_is_spec. Qed.
Print Assumptions C06_encA_is_spec.

Theorem C06_encB_is_spec : forall p, spec_layout p = fieldsB p.
Proof. exact encB_is_spec. Qed.
Print Assumptions C06_encB_is_spec.

(* codec B decodes its own encoding of every request (other than INIT, which it does not decode as a request) back to the
   packet: attribute blocks structured, every extended request in the generic form it keeps them in *)
Theorem C06_decB_request_encB : forall p fs,
  fieldsB p = Some fs -> forallb wf_fld fs = true -> is_request p = true -> not_init p = true ->
  decB_request (u8_enc (ptype p) ++ render fs) = Ok (normB p).
Proof. exact decB_request_encB. Qed.
Print Assumptions C06_decB_request_encB.

(* ... and of every STATUS, HANDLE, DATA, NAME and ATTRS response; with C06_encB_eq_encA: codec B decodes codec A's bytes *)
Theorem C06_decB_response_encB : forall p fs,
  fieldsB p = Some fs -> forallb wf_fld fs = true -> is_reply5 p = true ->
  decB_response (u8_enc (ptype p) ++ render fs) = Ok p.
Proof. exact decB_response_encB. Qed.
Print Assumptions C06_decB_response_encB.

(* ... and INIT and VERSION, which have decoders of their own in codec B (no request id): version and every extension pair, in
   place. Tied by the init / version cases of c06 (obs decBiv; hook VerifDecBInitVersion). *)
Theorem C06_decB_initversion_enc : forall p, wf_packet p = true ->
  match p with PInit _ _ | PVersion _ _ => True | _ => False end ->
  decB_initversion (u8_enc (ptype p) ++ render (fieldsA p)) = Ok p.
Proof. exact decB_initversion_enc. Qed.
Print Assumptions C06_decB_initversion_enc.

(* non-vacuity: a WRITE with a non-UTF-8 payload at offset 2^63 and an OPEN with size+permissions attributes *)
Example C06_nonvacuous :
  let p1 := PWrite 4294967295 [x31]%byte 9223372036854775808 [xff; x00; xc3; x28]%byte in
  let a := mkAttrs 5 1234 0 0 420 0 0 [] in
  let p2 := POpen 7 [x2f; x61]%byte 26 5 (AStat a) in
  wf_packet p1 = true /\ wf_packet p2 = true /\ encB p2 = Some (encA p2) /\
  decA (ptype p1) (render (fieldsA p1)) = Ok p1 /\ length (encA p1) = 30%nat.
Proof. vm_compute. repeat split; reflexivity. Qed.
