(* C09 — A read-only server never changes the file system. Theorems only; proofs in Proofs/ReadOnlyP.v *)
From Coq Require Import List NArith Bool.
From Sftp Require Import Base.GoSem Wire.Prim Wire.Packets Srv.ReadOnly Proofs.ReadOnlyP.
From Sftp Require Import Fs.Tree.
From Sftp Require Proofs.ReadOnlyTreeP.
Import ListNotations.
Open Scope N_scope.

Theorem C09_gate_is_repaired : ro_fixed = true.
Proof. reflexivity. Qed.
Print Assumptions C09_gate_is_repaired.

(* whatever the request type, open flags (all 2^32 words), attribute flags or extension name:
   a request that passes the gate reaches no modifying os call *)
Theorem C09_ro_never_mutates : forall p, gate ro_fixed p = true -> may_mutate p = false.
Proof. exact ro_never_mutates. Qed.
Print Assumptions C09_ro_never_mutates.

(* a refused request is answered permission-denied (code 3) and issues no os call at all *)
Theorem C09_ro_denied_is_perm : forall p, gate ro_fixed p = false -> ro_serve ro_fixed p = (Some 3, []).
Proof. exact (ro_denied_is_perm ro_fixed). Qed.
Print Assumptions C09_ro_denied_is_perm.

(* purely reading requests keep working *)
Theorem C09_ro_reads_work : forall p, reading_request p = true -> gate ro_fixed p = true.
Proof. exact ro_reads_work. Qed.
Print Assumptions C09_ro_reads_work.

(* no sequence of requests (including ones that first obtain a handle and then try to modify through it) issues a
   modifying os call *)
Theorem C09_ro_sequence_never_mutates : forall ps,
  Forall (fun o => mutating o = false) (flat_map (fun p => snd (ro_serve ro_fixed p)) ps).
Proof. exact ro_sequence_never_mutates. Qed.
Print Assumptions C09_ro_sequence_never_mutates.

(* which EXTENDED requests can modify anything is decided by the extension name, byte for byte: whatever bytes arrive, if the
   decoder (codec A, the one the servers use) yields a request that can reach a modifying os call, the name in the packet IS
   "posix-rename@openssh.com" or "hardlink@openssh.com" - no other spelling (letter case, padding) is such a request.
   Tied by c09's near-miss names (tree untouched) and by c06/c08 decoding such names with both the code and this decoder. *)
Theorem C09_modifying_extensions_by_exact_name : forall payload p,
  dec_ext_A payload = Ok p -> may_mutate p = true ->
  ext_name payload = Some n_posix_rename \/ ext_name payload = Some n_hardlink.
Proof. exact ext_modifying_only_exact_names. Qed.
Print Assumptions C09_modifying_extensions_by_exact_name.

(* `mutating` is a modelled fact about the os (which open(2) flags can change anything). On the name-space model of C05 (Fs/Tree.v,
   tied to package os on every run) it is a theorem: an OpenFile whose flag word is classified as not mutating leaves the tree
   exactly as it was, whatever the tree and the path - and the classification is not vacuous there (O_CREATE on a free name
   does change the tree). With C09_ro_sequence_never_mutates: no sequence of requests to a read-only server changes the name
   space through an OPEN. *)
Theorem C09_nonmutating_open_keeps_the_tree : forall f t p c t', FsTree.wf t -> mutating (OOpenFile f) = false ->
  FsTree.p_open (ReadOnlyTreeP.creat_of f) (ReadOnlyTreeP.excl_of f) (ReadOnlyTreeP.wr_of f) t p = Some (c, t') -> t' = t.
Proof. exact ReadOnlyTreeP.nonmutating_open_keeps_tree. Qed.
Print Assumptions C09_nonmutating_open_keeps_the_tree.

Theorem C09_mutating_open_can_change_the_tree : exists f t p t',
  mutating (OOpenFile f) = true /\ FsTree.wf t /\
  FsTree.p_open (ReadOnlyTreeP.creat_of f) (ReadOnlyTreeP.excl_of f) (ReadOnlyTreeP.wr_of f) t p = Some (FsTree.TOk, t') /\ t' <> t.
Proof. exact ReadOnlyTreeP.mutating_open_can_change. Qed.
Print Assumptions C09_mutating_open_can_change_the_tree.

(* the pinned tree violated the property (finding F2, repaired): hardlink, OPEN READ|CREAT, OPEN READ|TRUNC *)
Theorem C09_pinned_tree_refuted :
  (gate false (PExtHardlink 1 [] []) = true /\ may_mutate (PExtHardlink 1 [] []) = true) /\
  (gate false (POpen 1 [] 9 0 (ARaw [])) = true /\ may_mutate (POpen 1 [] 9 0 (ARaw [])) = true) /\
  (gate false (POpen 1 [] 17 0 (ARaw [])) = true /\ may_mutate (POpen 1 [] 17 0 (ARaw [])) = true).
Proof. exact ro_pinned_refuted. Qed.
Print Assumptions C09_pinned_tree_refuted.

Example C09_nonvacuous :
  gate ro_fixed (POpen 1 [] 1 0 (ARaw [])) = true /\ gate ro_fixed (POpen 1 [] 9 0 (ARaw [])) = false /\
  gate ro_fixed (PWrite 1 [] 0 []) = false /\ gate ro_fixed (PExtStatvfs 1 []) = true /\
  effects (POpen 1 [] 26 0 (ARaw [])) = [OOpenFile 577].
Proof. vm_compute. repeat split; reflexivity. Qed.
