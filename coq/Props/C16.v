(* C16 — A directory listing returns every entry exactly once. Theorems only; proofs in Proofs/ListingP.v *)
From Coq Require Import List Bool Arith Strings.Byte.
From Sftp Require Import Base.GoSem Wire.ClientParse Srv.Listing Proofs.ListingP Mode.FileMode Proofs.FileModeP.
Import ListNotations.

(* for every directory (any number of entries, any names), every batch size >= 1 and every lister behaviour that honours
   the ListerAt contract (EOF with the last entries or on the following call, short batches): the client's loop ends and
   returns each entry exactly once, in order, with "." and ".." excluded, using at most |dir| + 1 requests *)
Theorem C16_listing_exact : forall dir beh B, 1 <= B -> legal (length dir) B beh ->
  exists r, client_list (length dir + 2) dir beh B 0 [] 0 = (filter not_dot dir, r, true) /\ r <= length dir + 1.
Proof. exact listing_from_start. Qed.
Print Assumptions C16_listing_exact.

(* the same from any intermediate position (what holds after every batch) *)
Theorem C16_listing_invariant : forall fuel dir beh B off acc reqs,
  1 <= B -> legal (length dir) B beh -> off <= length dir -> length dir + 2 <= fuel + off ->
  exists r, client_list fuel dir beh B off acc reqs = (acc ++ filter not_dot (skipn off dir), r, true) /\
            r <= reqs + (length dir - off) + 1.
Proof. exact listing_exact. Qed.
Print Assumptions C16_listing_invariant.

(* the listers scripted by the correspondence harness are legal, so the theorem applies to every harness case *)
Theorem C16_scripted_legal : forall L B style k, 1 <= B -> legal L B (scripted L style k).
Proof. exact scripted_legal. Qed.
Print Assumptions C16_scripted_legal.

(* the contract is needed: a lister that reports neither progress nor EOF keeps the loop going for ever *)
Theorem C16_illegal_lister_spins : forall fuel dir reqs acc,
  snd (client_list fuel dir (fun _ _ => (0, false)) 3 0 acc reqs) = false.
Proof. exact illegal_lister_spins. Qed.
Print Assumptions C16_illegal_lister_spins.

(* "with the attributes the server reported", for the owner of an entry that has two sources (attrs.go fileStatFromInfo): an
   entry that implements FileInfoUidGid is listed with the ids it gives, whatever a host *syscall.Stat_t behind Sys() says; one
   that does not, with the Stat_t's. Tied by kind listowner: every entry of the ownedlisting cases. *)
Theorem C16_listed_owner_is_the_reported_one : forall hs stat_ids iface_ids,
  fileStat_owner hs true stat_ids iface_ids = iface_ids /\ fileStat_owner true false stat_ids iface_ids = stat_ids.
Proof. exact listed_owner_is_the_reported_one. Qed.
Print Assumptions C16_listed_owner_is_the_reported_one.

Example C16_nonvacuous :
  let dir := [[x2e]; [x2e; x2e]; [x61]; [x62]; [x63]; [x64]; [x65]]%byte in
  client_list 9 dir (scripted 7 1 5) 3 0 [] 0 = ([[x61]; [x62]; [x63]; [x64]; [x65]]%byte, 4, true).
Proof. vm_compute. reflexivity. Qed.
