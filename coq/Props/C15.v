(* C15 — Concurrent single-packet operations are linearizable. Theorems only; proofs in Proofs/LinearizeP.v, Proofs/ComposeP.v *)
From Coq Require Import List NArith Bool Arith Strings.Byte.
From Sftp Require Import Base.GoSem Lin.Linearize Lin.Compose Proofs.LinearizeP Proofs.ComposeP Xfer.OffsetLock Proofs.OffsetLockP.
Import ListNotations.

(* the decision procedure applied to every observed history is sound: a positive answer exhibits an order of the
   operations that is a rearrangement of the history, respects real-time order and is a legal run of a plain file *)
Theorem C15_lin_check_sound : forall f0 h, lin_check f0 h = true -> linearizable f0 h.
Proof. exact lin_check_sound. Qed.
Print Assumptions C15_lin_check_sound.

(* what "respects real-time order" means for a witness: nobody is placed before an operation that had already returned
   when it was called *)
Theorem C15_respects_rt_spec : forall order, respects_rt order = true ->
  forall pre a mid b post, order = pre ++ a :: mid ++ b :: post -> ~ (o_ret b < o_call a).
Proof. exact respects_rt_spec. Qed.
Print Assumptions C15_respects_rt_spec.

Theorem C15_witness_is_rearrangement : forall order h, is_rearrangement h order = true -> length h = length order.
Proof. exact is_rearrangement_length. Qed.
Print Assumptions C15_witness_is_rearrangement.

(* the sequential specification really is a plain file of fixed size: in every legal run all size queries report the
   file's size, whatever writes within the extent happened *)
Theorem C15_sizes_constant : forall order f,
  Forall (fun o => match o_kind o with OWrite off d => off + length d <= length f | _ => True end) order ->
  legal_seq f order = true ->
  Forall (fun o => match o_kind o with OSize got => got = length f | _ => True end) order.
Proof. exact legal_seq_sizes_constant. Qed.
Print Assumptions C15_sizes_constant.

(* ===== composition (Lin/Compose.v) =====
   The path of a single-packet operation through caller, client multiplexer, wire, server receive loop, packet manager,
   worker, backing store and back is abstracted to three atomic steps per operation: Call (the caller starts it), Store
   (the worker applies it to the backing store, whose own ReadAt/WriteAt/Stat are atomic - the property's proviso - and the
   result is fixed), Ret (the caller gets exactly that result). For every initial content, every set of operations and
   EVERY interleaving of these steps: once all operations have returned, the history the callers observed is
   linearizable, and the order of the Store steps is a linearization. *)
Theorem C15_store_order_linearizes : forall f0 tr s,
  srun (sys0 f0) tr = Some s -> all_returned s = true ->
  valid_witness f0 (history s) (store_order s) = true.
Proof. exact store_order_linearizes. Qed.
Print Assumptions C15_store_order_linearizes.

Theorem C15_composed_history_linearizable : forall f0 tr s,
  srun (sys0 f0) tr = Some s -> all_returned s = true -> linearizable f0 (history s).
Proof. exact composed_history_linearizable. Qed.
Print Assumptions C15_composed_history_linearizable.

(* MODELLED, NOT PROVED ABOUT THE CODE: that the implementation IS such a system - every operation has exactly one Store
   step, between its call and its return, and gets its own result back. That is what the theorems of C03 (a caller takes the
   reply carrying its own id), C02 (one response per request, with its id), C14 and C18 (responses unchanged by the
   allocator) say about the layers in between; their conjunction with this theorem is an argument in prose (DESIGN.md 3,
   C15), not a single Coq term. Every observed history is decided independently by the verified checker (family c15). *)
(* ===== Write: the single-packet operation that takes its position from the File (Xfer/OffsetLock.v) =====
   File.Write holds f.mu exclusively over reading the offset, sending the request and storing the new offset. For every number
   of concurrent calls on one File and every interleaving of their steps: when all have returned, the blocks lie at positions
   0..n-1, every call's block exactly once (none lost, none twice), and the offset stands behind the last - the calls took
   effect one after the other in the order of their lock acquisitions. Tied by kind cwrite (the observed layout is read by the
   extracted layout_ok, the observed offset compared with the theorem's). *)
Theorem C15_concurrent_writes_serialize : forall n tr s,
  OffsetLock.orun true (OffsetLock.o0 n) tr = Some s -> OffsetLock.all_done s = true ->
  OffsetLock.off s = n /\ map fst (OffsetLock.cells s) = seq 0 n /\ NoDup (map snd (OffsetLock.cells s)) /\
  (forall c, c < n -> In c (map snd (OffsetLock.cells s))) /\ OffsetLock.layout_ok n (map snd (OffsetLock.cells s)) = true.
Proof. exact writes_serialize. Qed.
Print Assumptions C15_concurrent_writes_serialize.

(* with the shared lock instead, two calls read the same offset: one acknowledged block is replaced by the other and the offset
   stands one short *)
Theorem C15_shared_lock_loses_a_write :
  exists tr s, OffsetLock.orun false (OffsetLock.o0 2) tr = Some s /\ OffsetLock.all_done s = true /\ OffsetLock.off s = 1 /\
               OffsetLock.holder_of 0 (OffsetLock.cells s) = Some 1 /\ OffsetLock.holder_of 1 (OffsetLock.cells s) = None
               /\ OffsetLock.layout_ok 2 (map snd (filter (fun e => match OffsetLock.holder_of (fst e) (OffsetLock.cells s) with Some w => w =? snd e | None => false end) (OffsetLock.cells s))) = false.
Proof. exact shared_lock_loses_a_write. Qed.
Print Assumptions C15_shared_lock_loses_a_write.

Example C15_nonvacuous :
  let f0 := [x00; x00]%byte in
  lin_check f0 [mkOp 1 1 4 (OWrite 0 [x41]%byte); mkOp 2 2 3 (ORead 0 1 [x41]%byte)] = true /\
  lin_check f0 [mkOp 1 1 2 (OWrite 0 [x41]%byte); mkOp 2 3 4 (ORead 0 1 [x00]%byte)] = false.
Proof. vm_compute. split; reflexivity. Qed.

Example C15_compose_nonvacuous :
  exists s, srun (sys0 [x00; x00]%byte)
              [LCall 1 (RWrite 0 [x41]%byte); LCall 2 (RRead 0 1); LCall 3 RSize; LStore 2; LStore 1; LRet 1; LStore 3; LRet 3; LRet 2] = Some s /\
            all_returned s = true /\ length (history s) = 3 /\ map o_id (store_order s) = [2; 1; 3] /\ map o_id (history s) = [1; 3; 2].
Proof. eexists. split; [vm_compute; reflexivity|]. vm_compute. repeat split; reflexivity. Qed.
