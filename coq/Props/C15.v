(* C15 — Concurrent single-packet operations are linearizable. Theorems only; proofs in Proofs/LinearizeP.v *)
From Coq Require Import List NArith Bool Arith Strings.Byte.
From Sftp Require Import Base.GoSem Lin.Linearize Proofs.LinearizeP.
Import ListNotations.

(* the decision procedure applied to every observed history is sound: a positive answer exhibits an order of the
   operations that is a rearrangement of the history, respects real-time order and is a legal run of a plain file *)
Theorem C15_lin_check_sound : forall f0 h, lin_check f0 h = true -> linearizable f0 h.
Proof. exact lin_check_sound. Qed.
Print Assumptions C15_lin_check_sound.

(* what "respects real-time order" means for a witness: nobody is placed before an operation that had already returned
   when it was called *)
Theorem C15_respects_rt_spec : forall order, respects_rt order = true ->
  forall pre a mid b post, order = pre ++ a :: mid ++ b :: post -> ~ (o_ret b < o_call a).
Proof. exact respects_rt_spec. Qed.
Print Assumptions C15_respects_rt_spec.

Theorem C15_witness_is_rearrangement : forall order h, is_rearrangement h order = true -> length h = length order.
Proof. exact is_rearrangement_length. Qed.
Print Assumptions C15_witness_is_rearrangement.

(* the sequential specification really is a plain file of fixed size: in every legal run all size queries report the
   file's size, whatever writes within the extent happened *)
Theorem C15_sizes_constant : forall order f,
  Forall (fun o => match o_kind o with OWrite off d => off + length d <= length f | _ => True end) order ->
  legal_seq f order = true ->
  Forall (fun o => match o_kind o with OSize got => got = length f | _ => True end) order.
Proof. exact legal_seq_sizes_constant. Qed.
Print Assumptions C15_sizes_constant.

(* PARTIAL: the composition theorem of DESIGN.md ("ordering operations by their store step is a legal sequential history,
   for every schedule of client multiplexer, packet manager and workers") is not proved; what is proved is the soundness of
   the checker that decides each observed history, plus C02/C03/C18's invariants that the argument would compose. *)
Example C15_nonvacuous :
  let f0 := [x00; x00]%byte in
  lin_check f0 [mkOp 1 1 4 (OWrite 0 [x41]%byte); mkOp 2 2 3 (ORead 0 1 [x41]%byte)] = true /\
  lin_check f0 [mkOp 1 1 2 (OWrite 0 [x41]%byte); mkOp 2 3 4 (ORead 0 1 [x00]%byte)] = false.
Proof. vm_compute. split; reflexivity. Qed.
