(* C07 — No byte stream can crash, wedge or trick a server. Theorems only; proofs in Proofs/ServeLoopP.v *)
From Coq Require Import List NArith Bool Strings.Byte.
From Sftp Require Import Base.GoSem Wire.Prim Wire.Packets Srv.ServeLoop Proofs.WirePktP Proofs.WireTotalP Proofs.ServeLoopP.
Import ListNotations.
Open Scope N_scope.

Theorem C07_tree_is_repaired : serve_fixed = true.
Proof. reflexivity. Qed.
Print Assumptions C07_tree_is_repaired.

(* a well-formed session followed by ANY bytes: its requests are handed to the workers in order, and the rest of the
   behaviour is that of the loop on the remaining bytes (so responses to the session are a prefix of the responses) *)
Theorem C07_serve_good_prefix : forall ps fixed tail f, Forall good_request ps ->
  serve (length ps + f) fixed (flat_map encA ps ++ tail) =
    (let '(evs, e) := serve f fixed tail in (map (fun p => Dispatched (rawify p)) ps ++ evs, e)).
Proof. exact serve_good_prefix. Qed.
Print Assumptions C07_serve_good_prefix.

(* a packet that fails to decode (truncated body, inner length corrupted, unknown type ...) is never acted upon: exactly
   the requests before it reach the workers, whatever follows it *)
Theorem C07_malformed_inert : forall ps bad f, Forall good_request ps -> malformed_head bad ->
  dispatched_packets (fst (serve (length ps + S f) serve_fixed (flat_map encA ps ++ bad))) = map rawify ps /\
  any_bad (fst (serve (length ps + S f) serve_fixed (flat_map encA ps ++ bad))) = false.
Proof. exact malformed_inert. Qed.
Print Assumptions C07_malformed_inert.

(* the stream stops (EOF between packets, EOF inside a frame, oversized or zero-length frame): exactly the complete
   requests are dispatched *)
Theorem C07_cut_stream_prefix : forall ps tail f, Forall good_request ps ->
  (exists e, f_res (recv_frame tail) = Err e) ->
  dispatched_packets (fst (serve (length ps + S f) serve_fixed (flat_map encA ps ++ tail))) = map rawify ps.
Proof. exact cut_stream_prefix. Qed.
Print Assumptions C07_cut_stream_prefix.

(* receiving and decoding never panic, for any bytes (from C08) *)
Theorem C07_no_panic : forall input ty b, f_res (recv_frame input) <> Panic /\ decA ty b <> Panic.
Proof. intros; split; [apply recv_frame_nopanic | apply decA_nopanic]. Qed.
Print Assumptions C07_no_panic.

(* the pinned os-backed server violated it (finding F1, repaired): MKDIR without its flags word was dispatched, and an
   unknown type byte put a nil packet into the packet manager *)
Theorem C07_pinned_tree_refuted :
  (let bad := [x00; x00; x00; x0a; x0e; x00; x00; x00; x01; x00; x00; x00; x01; x64]%byte in
   any_bad (fst (serve 3 false bad)) = true /\ any_bad (fst (serve 3 true bad)) = false /\ snd (serve 3 true bad) = EndMalformed EShort) /\
  (let bad := [x00; x00; x00; x05; x63; x00; x00; x00; x01]%byte in
   fst (serve 3 false bad) = [DispatchedBad 99 EUnhandledType] /\ fst (serve 3 true bad) = []).
Proof. split; [exact pinned_dispatches_malformed | exact pinned_dispatches_unknown_type]. Qed.
Print Assumptions C07_pinned_tree_refuted.

(* PARTIAL: "releases every file or handler object it opened" is C11's theorem; "no goroutine left, Serve returns" is
   observed by family c07 (child processes), not proved (runtime behaviour). *)
Example C07_nonvacuous :
  good_request (PMkdir 1 [x64]%byte 0 (ARaw [])) /\
  malformed_head [x00; x00; x00; x0a; x0e; x00; x00; x00; x01; x00; x00; x00; x01; x64]%byte.
Proof.
  split; [repeat split; vm_compute; try reflexivity; discriminate|].
  eexists _, _, _. split; vm_compute; reflexivity.
Qed.
