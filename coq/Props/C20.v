(* C20 — No server reply can crash the client. Theorems only; proofs in Proofs/ClientParseP.v.
   Precondition (conn.go recv): only payloads of at least 4 bytes reach a caller. *)
From Coq Require Import List NArith Bool Strings.Byte.
From Sftp Require Import Base.GoSem Wire.Prim Wire.Packets Wire.ClientParse Proofs.ClientParseP.
Import ListNotations.
Open Scope N_scope.

(* the tree that is checked is the repaired one *)
Theorem C20_client_is_safe : client_safe = true.
Proof. reflexivity. Qed.
Print Assumptions C20_client_is_safe.

(* every call site's decoder returns a value or an error for every reply type and every payload *)
Theorem C20_parse_total : forall id typ data, (4 <= length data)%nat ->
  parse_status_only client_safe id typ data <> Panic /\ parse_handle client_safe id typ data <> Panic /\
  parse_attrs client_safe id typ data <> Panic /\ parse_name1 client_safe id typ data <> Panic /\
  parse_readdir client_safe id typ data <> Panic /\ parse_statvfs client_safe id typ data <> Panic.
Proof.
  intros id typ data H. change client_safe with true.
  repeat split; [apply parse_status_only_total | apply parse_handle_total | apply parse_attrs_total
                | apply parse_name1_total | apply parse_readdir_total | apply parse_statvfs_total]; exact H.
Qed.
Print Assumptions C20_parse_total.

(* DATA replies in readChunkAt, in the concurrent ReadAt worker (cap = None) and the WriteTo worker (cap = pool buffer) *)
Theorem C20_parse_data_total : forall id typ data want cap, (4 <= length data)%nat ->
  parse_data client_safe id typ data want cap <> Panic.
Proof. intros. apply parse_data_total. assumption. Qed.
Print Assumptions C20_parse_data_total.

(* never more bytes than were asked for, nor than were received: no allocation out of proportion *)
Theorem C20_parse_data_bounded : forall safe id typ data want cap d,
  parse_data safe id typ data want cap = Ok (CVal (VData d)) -> (length d <= want /\ length d <= length data)%nat.
Proof. exact parse_data_bounded. Qed.
Print Assumptions C20_parse_data_bounded.

(* "returns" also means "terminates": the read loop needs at most one request per byte wanted, whatever the replies *)
Theorem C20_read_chunk_returns : forall fuel replies want id acc,
  (want <= fuel)%nat -> read_chunk fuel client_safe id replies want acc <> Err EOutOfFuel.
Proof. exact read_chunk_returns. Qed.
Print Assumptions C20_read_chunk_returns.

Theorem C20_read_chunk_nopanic : forall fuel replies want id acc,
  Forall (fun r => (4 <= length (snd r))%nat) replies -> read_chunk fuel client_safe id replies want acc <> Panic.
Proof. exact read_chunk_nopanic. Qed.
Print Assumptions C20_read_chunk_nopanic.

(* the pinned tree violated the property (findings F8, F15, F16; repaired by fix: commits): concrete replies *)
Theorem C20_pinned_tree_refuted :
  status_parse false 7 id7 = Panic /\ parse_handle false 7 t_handle id7 = Panic /\
  parse_readdir false 7 t_name (id7 ++ [x00; x00; x00; x01]%byte) = Panic /\
  parse_data false 7 t_data (id7 ++ [x00; x00; x00; x09; x41]%byte) 8 None = Panic /\
  parse_handle false 7 t_status (id7 ++ [x00; x00; x00; x00]%byte) = Ok (CVal VOk) /\
  (forall n acc, read_chunk n false 7 (repeat empty_data n) 8 acc = Err EOutOfFuel).
Proof.
  exact (conj unsafe_status_panics (conj unsafe_handle_panics (conj unsafe_name_panics
          (conj unsafe_data_panics (conj unsafe_ok_status_is_nil_value unsafe_read_chunk_spins))))).
Qed.
Print Assumptions C20_pinned_tree_refuted.

Example C20_nonvacuous :
  parse_handle true 7 t_handle (id7 ++ [x00; x00; x00; x02; x68; x31]%byte) = Ok (CVal (VHandle [x68; x31]%byte)) /\
  parse_handle true 7 t_handle id7 = Ok (CErr EShort) /\
  parse_name1 true 7 t_name (id7 ++ [x00; x00; x00; x02]%byte) = Ok (CErr EOther) /\
  read_chunk 8 true 7 [(t_data, id7 ++ [x00; x00; x00; x03; x61; x62; x63]%byte); (t_status, id7 ++ [x00; x00; x00; x01]%byte)] 8 []
    = Ok ([x61; x62; x63]%byte, Some (EStatus 1)).
Proof. vm_compute. repeat split; reflexivity. Qed.
