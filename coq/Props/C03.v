(* C03 — Each client call gets the reply to its own request. Theorems only; proofs in Proofs/ClientConnP.v *)
From Coq Require Import List Bool Arith.
From Sftp Require Import Conn.ClientConn Conn.ConnTrace Proofs.ClientConnP Proofs.ConnTraceP.
Import ListNotations.

(* for every number of concurrent callers and every interleaving of their steps with the receiver's deliveries (replies
   in any order the peer chooses), send failures and a receiver failure: a caller that takes a reply takes the reply that
   carries its own request id *)
Theorem C03_own_reply : forall n tr s c s' id r,
  crun (cinit n) tr = Some s -> cstep s (Take c) = Some s' ->
  cstate_of c (callers s') = Some (CDone id r) -> forall j, r = ROk j -> j = id.
Proof. exact own_reply_at_take. Qed.
Print Assumptions C03_own_reply.

(* ids of requests in flight are pairwise distinct, and no two callers ever hold the same id
   (ids are unbounded naturals here: the code's uint32 counter needs fewer than 2^32 requests outstanding) *)
Theorem C03_inflight_ids_distinct : forall n tr s, crun (cinit n) tr = Some s -> NoDup (map fst (inflight s)).
Proof. exact inflight_ids_distinct. Qed.
Print Assumptions C03_inflight_ids_distinct.

Theorem C03_caller_ids_distinct : forall n tr s c1 c2 st1 st2 i, crun (cinit n) tr = Some s ->
  cstate_of c1 (callers s) = Some st1 -> cstate_of c2 (callers s) = Some st2 -> has_id st1 i -> has_id st2 i -> c1 = c2.
Proof. exact caller_ids_distinct. Qed.
Print Assumptions C03_caller_ids_distinct.

(* the whole invariant, for every reachable state *)
Theorem C03_invariant : forall n tr s, crun (cinit n) tr = Some s -> cinv s.
Proof. exact cinv_run. Qed.
Print Assumptions C03_invariant.

(* "each request reaches the wire as one contiguous frame" is the connection mutex around header+payload writes: in the
   model a frame is one label (SendOK); the harness checks the consequence on the real byte stream (family c03). *)
(* ===== the tie to conn.go: trace acceptance (family cct) =====
   The instrumented connection reports P (putChannel), S (send result), g (getChannel), B (broadcast), T (result taken);
   P, g and B inside the clientConn mutex. `caccept_trace` replays them; every candidate explanation of an accepted trace
   is a state the LTS reaches from n idle callers, so the invariant and every theorem above holds for what the real
   connection did in that run. *)
Theorem C03_accepted_trace_reachable : forall n tr cs, caccept_trace n tr = inl cs ->
  cs <> [] /\ Forall (fun c => reach n (fst c) /\ cinv (fst c)) cs.
Proof. exact accepted_conn_trace. Qed.
Print Assumptions C03_accepted_trace_reachable.

Example C03_nonvacuous :
  exists s, crun (cinit 2) [NextID 0; NextID 1; Put 1; Put 0; SendOK 0; SendOK 1; Deliver 2; Deliver 1; Take 1; Take 0] = Some s /\
            cstate_of 0 (callers s) = Some (CDone 1 (ROk 1)) /\ cstate_of 1 (callers s) = Some (CDone 2 (ROk 2)) /\ wire s = [1; 2].
Proof. eexists. split; [vm_compute; reflexivity | repeat split]. Qed.
