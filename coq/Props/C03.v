(* C03 — Each client call gets the reply to its own request. Theorems only; proofs in Proofs/ClientConnP.v *)
From Coq Require Import List Bool Arith.
From Coq Require Import NArith.
From Sftp Require Import Conn.WireMutex Proofs.WireMutexP Conn.IdWrap Conn.ClientConn Conn.ConnTrace Proofs.ClientConnP Proofs.ConnTraceP Proofs.IdWrapP.
Import ListNotations.

(* for every number of concurrent callers and every interleaving of their steps with the receiver's deliveries (replies
   in any order the peer chooses), send failures and a receiver failure: a caller that takes a reply takes the reply that
   carries its own request id *)
Theorem C03_own_reply : forall n tr s c s' id r,
  crun (cinit n) tr = Some s -> cstep s (Take c) = Some s' ->
  cstate_of c (callers s') = Some (CDone id r) -> forall j, r = ROk j -> j = id.
Proof. exact own_reply_at_take. Qed.
Print Assumptions C03_own_reply.

(* ids of requests in flight are pairwise distinct, and no two callers ever hold the same id
   (ids are unbounded naturals here: the code's uint32 counter needs fewer than 2^32 requests outstanding) *)
Theorem C03_inflight_ids_distinct : forall n tr s, crun (cinit n) tr = Some s -> NoDup (map fst (inflight s)).
Proof. exact inflight_ids_distinct. Qed.
Print Assumptions C03_inflight_ids_distinct.

Theorem C03_caller_ids_distinct : forall n tr s c1 c2 st1 st2 i, crun (cinit n) tr = Some s ->
  cstate_of c1 (callers s) = Some st1 -> cstate_of c2 (callers s) = Some st2 -> has_id st1 i -> has_id st2 i -> c1 = c2.
Proof. exact caller_ids_distinct. Qed.
Print Assumptions C03_caller_ids_distinct.

(* the whole invariant, for every reachable state *)
Theorem C03_invariant : forall n tr s, crun (cinit n) tr = Some s -> cinv s.
Proof. exact cinv_run. Qed.
Print Assumptions C03_invariant.

(* ===== "each request reaches the wire as one contiguous frame" (Conn/WireMutex.v) =====
   conn.sendPacket takes the connection mutex, writes the packet with one Write (header and payload in one buffer) or two
   (WRITE, SETSTAT, FSETSTAT: header, then payload) and releases the mutex. For every number of senders and every
   interleaving of their lock / write / unlock steps the sequence of Write calls reads as whole packets: nothing foreign
   ever lies between a header and its payload, and whenever the mutex is free the wire ends on a packet boundary. The c03
   family records the Write calls the real client makes under concurrency and runs the same `scan` over them. *)
Theorem C03_wire_is_whole_packets : forall n tr w, wrun true (w0 n) tr = Some w ->
  exists p, scan (WireMutex.wire w) None = Some p /\ (WireMutex.holder w = None -> p = None).
Proof. exact wire_is_whole_packets. Qed.
Print Assumptions C03_wire_is_whole_packets.

(* without the mutex around one-part packets the clause fails: a foreign Write lands inside a two-part packet *)
Theorem C03_unlocked_one_part_refuted :
  exists tr w, wrun false (w0 2) tr = Some w /\ scan (WireMutex.wire w) None = None.
Proof. exact unlocked_one_part_refuted. Qed.
Print Assumptions C03_unlocked_one_part_refuted.

(* ... and the writer is closed between packets, never inside one: conn.Close (what the receive loop runs when the reply
   direction ends, and what Client.Close runs) takes the same mutex, so for every interleaving of the senders' steps with the
   close, what has been written when the writer is closed consists of whole packets - a header that is on the wire has its
   payload there too. Tied by kind wireclose: the reply direction is ended while a sender sits between its two Writes. *)
Theorem C03_close_finds_whole_packets : forall n tr w, WireMutex.crun true (w0 n, false) tr = Some (w, true) ->
  scan (WireMutex.wire w) None = Some None.
Proof. exact close_finds_whole_packets. Qed.
Print Assumptions C03_close_finds_whole_packets.

(* closing the transport without the mutex can leave a header without its payload *)
Theorem C03_unlocked_close_refuted :
  exists tr w, WireMutex.crun false (w0 1, false) tr = Some (w, true) /\ scan (WireMutex.wire w) None = Some (Some 0).
Proof. exact unlocked_close_refuted. Qed.
Print Assumptions C03_unlocked_close_refuted.

(* ===== 32-bit request ids (Conn/IdWrap.v) =====
   The LTS numbers requests 1, 2, 3, ... without a bound; Client.nextID is atomic.AddUint32, so the request with issue
   number i carries (c0 + i) mod 2^32 where c0 is where the counter stood. Any 2^32 consecutive calls get pairwise
   distinct ids, across the wrap as well; the distinctness the LTS proves carries over to the wire whenever the
   outstanding requests span less than 2^32 issue numbers - and only then (window_is_needed): a request that stays
   outstanding while 2^32 others are issued on the same connection meets its own id again, in the code as in the model.
   The ids family starts the counter shortly before the wrap (hook VerifSetNextID) and compares the ids the peer saw
   with `ids_from`. *)
Theorem C03_consecutive_ids_distinct : forall k c0, (c0 < idmod)%N -> (N.of_nat k <= idmod)%N -> NoDup (ids_from c0 k).
Proof. exact ids_from_nodup. Qed.
Print Assumptions C03_consecutive_ids_distinct.

Theorem C03_inflight_wire_ids_distinct : forall n tr s c0, crun (cinit n) tr = Some s ->
  (forall a b, In a (map fst (inflight s)) -> In b (map fst (inflight s)) -> (N.of_nat a < N.of_nat b + idmod)%N) ->
  NoDup (map (wire_id c0) (map fst (inflight s))).
Proof. exact inflight_wire_ids_distinct. Qed.
Print Assumptions C03_inflight_wire_ids_distinct.

Theorem C03_caller_wire_ids_distinct : forall n tr s c1 c2 st1 st2 i1 i2 c0, crun (cinit n) tr = Some s ->
  cstate_of c1 (callers s) = Some st1 -> cstate_of c2 (callers s) = Some st2 -> has_id st1 i1 -> has_id st2 i2 ->
  c1 <> c2 -> (N.of_nat i1 < N.of_nat i2 + idmod)%N -> (N.of_nat i2 < N.of_nat i1 + idmod)%N ->
  wire_id c0 i1 <> wire_id c0 i2.
Proof. exact caller_wire_ids_distinct. Qed.
Print Assumptions C03_caller_wire_ids_distinct.

Theorem C03_window_is_needed : forall c0 i j, (N.of_nat j = N.of_nat i + idmod)%N -> wire_id c0 i = wire_id c0 j.
Proof. exact window_is_needed. Qed.
Print Assumptions C03_window_is_needed.

(* ===== the tie to conn.go: trace acceptance (family cct) =====
   The instrumented connection reports P (putChannel), S (send result), g (getChannel), B (broadcast), T (result taken);
   P, g and B inside the clientConn mutex. `caccept_trace` replays them; every candidate explanation of an accepted trace
   is a state the LTS reaches from n idle callers, so the invariant and every theorem above holds for what the real
   connection did in that run. *)
Theorem C03_accepted_trace_reachable : forall n tr cs, caccept_trace n tr = inl cs ->
  cs <> [] /\ Forall (fun c => reach n (fst c) /\ cinv (fst c)) cs.
Proof. exact accepted_conn_trace. Qed.
Print Assumptions C03_accepted_trace_reachable.

Example C03_nonvacuous :
  exists s, crun (cinit 2) [NextID 0; NextID 1; Put 1; Put 0; SendOK 0; SendOK 1; Deliver 2; Deliver 1; Take 1; Take 0] = Some s /\
            cstate_of 0 (callers s) = Some (CDone 1 (ROk 1)) /\ cstate_of 1 (callers s) = Some (CDone 2 (ROk 2)) /\ wire s = [1; 2].
Proof. eexists. split; [vm_compute; reflexivity | repeat split]. Qed.
