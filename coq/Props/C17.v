(* C17 — File attributes and modes survive every conversion.  Theorems only; proofs live in Proofs/FileModeP.v *)
From Coq Require Import List NArith Bool Sorted Strings.Byte.
From Coq Require Import ZArith.
From Sftp Require Import Mode.FileMode Mode.LongName Proofs.FileModeP Proofs.CalendarP Proofs.LongNameP.
Import ListNotations.
Open Scope N_scope.

(* every one of the 2^16 wire mode words: wire -> os -> wire is the identity on words with a valid type nibble and
   the stated normal form (type forced to "regular", all 12 low bits kept) otherwise *)
Theorem C17_from_to : forall w, w < 2 ^ 16 -> fromFileMode (toFileMode w) = wire_normal w.
Proof. exact from_to_all. Qed.
Print Assumptions C17_from_to.

Theorem C17_from_to_valid : forall w, w < 2 ^ 16 -> valid_wire_type w = true -> fromFileMode (toFileMode w) = w.
Proof. exact from_to_valid. Qed.
Print Assumptions C17_from_to_valid.

(* every os.FileMode built from one type, nine permission bits and three special bits: os -> wire -> os is the identity *)
Theorem C17_to_from : forall ty p s, In ty os_types -> p < 512 -> s < 8 ->
  toFileMode (fromFileMode (os_mode ty p s)) = os_mode ty p s.
Proof. exact to_from_all. Qed.
Print Assumptions C17_to_from.

Theorem C17_from_range : forall ty p s, In ty os_types -> p < 512 -> s < 8 ->
  fromFileMode (os_mode ty p s) < 2 ^ 16 /\ valid_wire_type (fromFileMode (os_mode ty p s)) = true.
Proof. exact from_range. Qed.
Print Assumptions C17_from_range.

Theorem C17_chmod_perm_bits : forall ty p s, In ty os_types -> p < 512 -> s < 8 ->
  toChmodPerm (os_mode ty p s) = p + 512 * s /\
  toChmodPerm (os_mode ty p s) = N.land (fromFileMode (os_mode ty p s)) 4095.
Proof. intros; split; [apply chmod_perm_all | apply chmod_perm_is_low12]; assumption. Qed.
Print Assumptions C17_chmod_perm_bits.

Theorem C17_isRegular_agrees : forall w, w < 2 ^ 16 -> valid_wire_type w = true ->
  isRegular w = (N.land (toFileMode w) o_type =? 0).
Proof. exact isRegular_agrees. Qed.
Print Assumptions C17_isRegular_agrees.

(* the mode column of the long name determines type, permission and special bits (and is '?…' exactly for invalid types) *)
Theorem C17_longname_mode_agrees : forall w, w < 2 ^ 16 ->
  length (mode_string w) = 10%nat /\
  parse_mode_string (mode_string w) = if valid_wire_type w then Some w else None.
Proof. intros w Hw; split; [apply mode_string_len | apply mode_string_parse]; exact Hw. Qed.
Print Assumptions C17_longname_mode_agrees.

(* a set-attributes request issues exactly the operations whose flag it carries, with the values it carries,
   in the order size, permissions, owner, times; on failure it stops after the failing one *)
Theorem C17_setstat_exact : forall flags fs,
  (forall o, In o (setstat_ops flags fs) <->
     (has flags (op_kind o) = true /\
      o = match o with
          | OpTruncate _ => OpTruncate (st_size fs)
          | OpChmod _ => OpChmod (toFileMode (st_mode fs))
          | OpChown _ _ => OpChown (st_uid fs) (st_gid fs)
          | OpChtimes _ _ => OpChtimes (st_atime fs) (st_mtime fs)
          end)) /\
  Sorted.StronglySorted (fun a b => (op_rank a < op_rank b)%nat) (setstat_ops flags fs).
Proof. intros; split; [apply setstat_ops_exact | apply setstat_ops_ordered]. Qed.
Print Assumptions C17_setstat_exact.

Theorem C17_setstat_stops_at_failure : forall ops fails,
  exists rest, ops = fst (run_until_fail ops fails) ++ rest /\
  (snd (run_until_fail ops fails) = true -> rest = [] /\ Forall (fun o => fails o = false) ops) /\
  (snd (run_until_fail ops fails) = false ->
     exists pre o, fst (run_until_fail ops fails) = pre ++ [o] /\ fails o = true /\ Forall (fun o => fails o = false) pre).
Proof. exact run_until_fail_prefix. Qed.
Print Assumptions C17_setstat_stops_at_failure.

(* owner and group: an entry that implements FileInfoUidGid is reported with the ids it gives (whatever a host Stat_t behind
   Sys() says), one that only has a Stat_t with the Stat_t's, and in both cases the attribute block announces them; the
   owner and group columns of the long name are the ones in the attribute block (entries whose Sys() is nil or a Stat_t) *)
Theorem C17_owner_from_interface : forall hs stat_ids iface_ids, fileStat_owner hs true stat_ids iface_ids = iface_ids.
Proof. exact owner_from_interface. Qed.
Print Assumptions C17_owner_from_interface.

Theorem C17_owner_from_stat_t : forall stat_ids iface_ids, fileStat_owner true false stat_ids iface_ids = stat_ids.
Proof. exact owner_from_stat_t. Qed.
Print Assumptions C17_owner_from_stat_t.

Theorem C17_owner_flag_set : forall hs hi n he, (hs || hi = true)%bool -> has (fileStat_flags hs hi n he) fl_uidgid = true.
Proof. exact owner_flag_set. Qed.
Print Assumptions C17_owner_flag_set.

Theorem C17_longname_owner_agrees : forall hs hi stat_ids iface_ids,
  ls_owner hs hi stat_ids iface_ids = fileStat_owner hs hi stat_ids iface_ids.
Proof. exact longname_owner_agrees. Qed.
Print Assumptions C17_longname_owner_agrees.

(* non-vacuity: a setgid directory 02755 and a sticky world-writable directory *)
Example C17_nonvacuous :
  toFileMode 17901 = N.lor o_dir (N.lor o_setgid 493) /\ fromFileMode (N.lor o_dir (N.lor o_setgid 493)) = 17901 /\
  In o_dir os_types /\ os_mode o_dir 493 2 = N.lor o_dir (N.lor o_setgid 493) /\
  mode_string 17901 = [x64; x72; x77; x78; x72; x2d; x73; x72; x2d; x78]%byte.
Proof. vm_compute. repeat split; auto. Qed.

(* ---- the whole long name (Mode/LongName.v: runLs column by column) ---- *)

(* every column of the long name reads back as the entry's structured attribute: the mode column (which
   C17_longname_mode_agrees turns back into the mode word), the link count, the owner and group texts, the size (int64,
   negative included), the month and day of the modification time, the year-or-clock column and the name (blanks kept) -
   for every mode word, count, size, time, name, "now", and every owner / group text that is one non-empty word *)
Theorem C17_longname_columns : forall now e,
  col_ok (le_uid e) = true -> col_ok (le_gid e) = true ->
  let p := parse_ls (run_ls now e) in
  let '(_, m, d) := civil_from_days (le_mtime e / 86400)%Z in
  lp_mode p = mode_string (le_mode e) /\ lp_links p = Some (le_links e) /\ lp_uid p = le_uid e /\ lp_gid p = le_gid e /\
  lp_size p = Some (le_size e) /\ lp_month p = month_name m /\ lp_day p = Some (Z.to_N d) /\
  lp_yt p = year_or_time (le_mtime e) now /\ lp_name p = le_name e.
Proof. exact run_ls_parses. Qed.
Print Assumptions C17_longname_columns.

(* the date the long name shows is the day of the modification time: for EVERY day number (no bound), counting the days up
   to the (year, month, day) the formatter names gives the day number back *)
Theorem C17_longname_date_is_mtime_day : forall z : Z,
  let '(y, m, d) := civil_from_days z in
  (days_from_civil y m d = z /\ 1 <= m <= 12 /\ 1 <= d <= 31)%Z.
Proof. exact civil_roundtrip. Qed.
Print Assumptions C17_longname_date_is_mtime_day.

(* and for every modification time the wire can carry (32-bit seconds) it is a date of the calendar: the day does not exceed
   the month's length in that year (leap years by the Gregorian rule) *)
Theorem C17_longname_date_valid_on_wire : forall s : Z, (0 <= s < 2 ^ 32)%Z ->
  let '(y, m, d) := civil_from_days (s / 86400)%Z in
  (1970 <= y < 2150 /\ 1 <= m <= 12 /\ 1 <= d <= days_in_month y m)%Z.
Proof. exact civil_valid_wire. Qed.
Print Assumptions C17_longname_date_valid_on_wire.

(* the clock column: hours and minutes of the second of the day *)
Theorem C17_longname_clock : forall s : Z,
  let sod := (s mod 86400)%Z in
  let hh := (sod / 3600)%Z in let mm := ((sod mod 3600) / 60)%Z in
  (0 <= hh < 24 /\ 0 <= mm < 60 /\ (s / 86400) * 86400 + hh * 3600 + mm * 60 + s mod 60 = s)%Z.
Proof. exact clock_exact. Qed.
Print Assumptions C17_longname_clock.

(* non-vacuity: a concrete entry, and the line the model gives for it *)
Example C17_longname_example :
  let e := {| le_mode := 16877; le_links := 12; le_uid := ["0"%byte]; le_gid := ["4"%byte; "2"%byte]; le_size := (-5)%Z;
              le_mtime := 1785000000%Z; le_name := ["a"%byte; " "%byte; "b"%byte] |} in
  col_ok (le_uid e) = true /\ col_ok (le_gid e) = true /\
  lp_size (parse_ls (run_ls 1790000000%Z e)) = Some (-5)%Z /\ lp_day (parse_ls (run_ls 1790000000%Z e)) = Some 25 /\
  shows_year 1500000000%Z 1790000000%Z = true /\ shows_year 1785000000%Z 1790000000%Z = false.
Proof. vm_compute. repeat split; reflexivity. Qed.
