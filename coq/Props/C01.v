(* C01 — Transferred bytes are exactly the file's bytes. Theorems only; proofs in Proofs/TransferP.v *)
From Coq Require Import List NArith Bool Arith Permutation Strings.Byte.
From Sftp Require Import Base.GoSem Xfer.Transfer Proofs.TransferP.
Import ListNotations.

(* every slicer cuts a transfer of n bytes into contiguous chunks of 1..p bytes that add up to n: this is where the
   sizes within one byte of a multiple of the packet size live *)
Theorem C01_chunks_spec : forall fuel off n p, 1 <= p -> n <= fuel ->
  let cs := chunks fuel off n p in
  fold_right (fun c a => snd c + a) 0 cs = n /\
  Forall (fun c => 1 <= snd c <= p) cs /\
  (forall pre c post, cs = pre ++ c :: post -> fst c = off + fold_right (fun c a => snd c + a) 0 pre).
Proof. exact chunks_spec. Qed.
Print Assumptions C01_chunks_spec.

(* the chunk payloads, in offset order, are the caller's buffer: nothing lost, nothing duplicated *)
Theorem C01_chunks_cover : forall fuel n p (b : bytes) boff off, 1 <= p -> n <= fuel ->
  slices (chunks fuel off n p) b boff = firstn n (skipn boff b).
Proof. exact chunks_cover. Qed.
Print Assumptions C01_chunks_cover.

(* one chunk (the refill loop): exactly the file's bytes from the offset; nil iff the whole request was transferred,
   io.EOF otherwise; for every file, offset, length, server payload limit >= 1 *)
Theorem C01_readChunkAt_exact : forall fuel s off want acc,
  no_rfail s -> 1 <= maxTx s -> want <= fuel ->
  readChunkAt fuel s off want acc =
    (acc ++ firstn want (skipn off (file s)), if want <=? length (file s) - off then None else Some xeof).
Proof. exact readChunkAt_exact. Qed.
Print Assumptions C01_readChunkAt_exact.

Theorem C01_readAt_single_exact : forall o s off len arrival,
  no_rfail s -> 1 <= maxTx s -> len <= maxPacket o ->
  readAt o s off len arrival =
    (Nat.min len (length (file s) - off), (if len <=? length (file s) - off then None else Some xeof),
     firstn len (skipn off (file s))).
Proof. exact readAt_single_exact. Qed.
Print Assumptions C01_readAt_single_exact.

(* the concurrent reduce does not depend on the order in which chunk replies come back *)
Theorem C01_reduce_perm : forall l l', Permutation l l' -> NoDup (map fst l) -> reduce_first_err l = reduce_first_err l'.
Proof. exact reduce_perm. Qed.
Print Assumptions C01_reduce_perm.

Theorem C01_readConc_order_irrelevant : forall s off len p arrival arrival',
  Permutation (errs_of (map (conc_chunk s) arrival)) (errs_of (map (conc_chunk s) arrival')) ->
  NoDup (map fst (errs_of (map (conc_chunk s) arrival))) ->
  readConc s off len p arrival = readConc s off len p arrival'.
Proof. exact readConc_order_irrelevant. Qed.
Print Assumptions C01_readConc_order_irrelevant.

(* the side condition of the property is necessary: with a server payload limit below the client's packet size the
   concurrent reader reports a false EOF *)
Theorem C01_maxTx_needed_refuted :
  let s := mkSrv (pattern 0 10) 2 (fun _ => None) (fun _ => None) in
  fst (fst (readConc s 0 8 4 (chunks 8 0 8 4))) = 2 /\ snd (fst (readConc s 0 8 4 (chunks 8 0 8 4))) = Some xeof.
Proof. exact maxTx_needed_refuted. Qed.
Print Assumptions C01_maxTx_needed_refuted.

(* PARTIAL: the end-to-end statements for the sequential multi-chunk loops, concurrent ReadAt/WriteTo and the write paths
   (result = file bytes / splice for all sizes) are not yet proved as theorems; they are covered by the correspondence
   run of the same executable definitions (families c01, c13) *)
Example C01_nonvacuous :
  let s := mkSrv (pattern 0 10) 100 (fun _ => None) (fun _ => None) in
  let o := mkOpts 3 2 true false false in
  readAt o s 2 7 (chunks 7 2 7 3) = (7, None, pattern 2 7) /\
  readAt o s 2 9 (rev (chunks 9 2 9 3)) = (8, Some xeof, pattern 2 8) /\
  chunks 10 2 7 3 = [(2, 3); (5, 3); (8, 1)].
Proof. vm_compute. repeat split; reflexivity. Qed.
