(* C01 — Transferred bytes are exactly the file's bytes. Theorems only; proofs in Proofs/TransferP.v, Proofs/TransferE2EP.v *)
From Coq Require Import List NArith Bool Arith Permutation Strings.Byte.
From Sftp Require Import Base.GoSem Xfer.Transfer Proofs.TransferP Proofs.TransferE2EP Proofs.TransferOrderP Proofs.RfcArgP.
From Coq Require Import ZArith.
Import ListNotations.

(* every slicer cuts a transfer of n bytes into contiguous chunks of 1..p bytes that add up to n: this is where the
   sizes within one byte of a multiple of the packet size live *)
Theorem C01_chunks_spec : forall fuel off n p, 1 <= p -> n <= fuel ->
  let cs := chunks fuel off n p in
  fold_right (fun c a => snd c + a) 0 cs = n /\
  Forall (fun c => 1 <= snd c <= p) cs /\
  (forall pre c post, cs = pre ++ c :: post -> fst c = off + fold_right (fun c a => snd c + a) 0 pre).
Proof. exact chunks_spec. Qed.
Print Assumptions C01_chunks_spec.

(* the chunk payloads, in offset order, are the caller's buffer: nothing lost, nothing duplicated *)
Theorem C01_chunks_cover : forall fuel n p (b : bytes) boff off, 1 <= p -> n <= fuel ->
  slices (chunks fuel off n p) b boff = firstn n (skipn boff b).
Proof. exact chunks_cover. Qed.
Print Assumptions C01_chunks_cover.

(* one chunk (the refill loop): exactly the file's bytes from the offset; nil iff the whole request was transferred,
   io.EOF otherwise; for every file, offset, length, server payload limit >= 1 *)
Theorem C01_readChunkAt_exact : forall fuel s off want acc,
  no_rfail s -> 1 <= maxTx s -> want <= fuel ->
  readChunkAt fuel s off want acc =
    (acc ++ firstn want (skipn off (file s)), if want <=? length (file s) - off then None else Some xeof).
Proof. exact readChunkAt_exact. Qed.
Print Assumptions C01_readChunkAt_exact.

Theorem C01_readAt_single_exact : forall o s off len arrival,
  no_rfail s -> 1 <= maxTx s -> len <= maxPacket o ->
  readAt o s off len arrival =
    (Nat.min len (length (file s) - off), (if len <=? length (file s) - off then None else Some xeof),
     firstn len (skipn off (file s))).
Proof. exact readAt_single_exact. Qed.
Print Assumptions C01_readAt_single_exact.

(* the concurrent reduce does not depend on the order in which chunk replies come back *)
Theorem C01_reduce_perm : forall l l', Permutation l l' -> NoDup (map fst l) -> reduce_first_err l = reduce_first_err l'.
Proof. exact reduce_perm. Qed.
Print Assumptions C01_reduce_perm.

Theorem C01_readConc_order_irrelevant : forall s off len p arrival arrival',
  Permutation (errs_of (map (conc_chunk s) arrival)) (errs_of (map (conc_chunk s) arrival')) ->
  NoDup (map fst (errs_of (map (conc_chunk s) arrival))) ->
  readConc s off len p arrival = readConc s off len p arrival'.
Proof. exact readConc_order_irrelevant. Qed.
Print Assumptions C01_readConc_order_irrelevant.

(* the side condition of the property is necessary: with a server payload limit below the client's packet size the
   concurrent reader reports a false EOF *)
Theorem C01_maxTx_needed_refuted :
  let s := mkSrv (pattern 0 10) 2 (fun _ => None) (fun _ => None) in
  fst (fst (readConc s 0 8 4 (chunks 8 0 8 4))) = 2 /\ snd (fst (readConc s 0 8 4 (chunks 8 0 8 4))) = Some xeof.
Proof. exact maxTx_needed_refuted. Qed.
Print Assumptions C01_maxTx_needed_refuted.

(* ===== end to end, for all sizes, offsets, packet sizes, option combinations and reply orders ===== *)

(* File.ReadAt, every path (one packet; sequential chunks; concurrent map/reduce with the workers reporting in ANY order):
   the bytes are exactly file[off, off+len) cut at the end of the file, the count is their number, the error is nil iff
   the buffer was filled and io.EOF otherwise. Side condition exactly as in the property: on the concurrent path the
   client's packet size must not exceed the server's payload limit. *)
Theorem C01_readAt_exact : forall o s off len arrival,
  no_rfail s -> 1 <= maxTx s -> 1 <= maxPacket o ->
  (concReads o = true -> maxPacket o < len -> maxPacket o <= maxTx s) ->
  Permutation arrival (chunks len off len (maxPacket o)) ->
  readAt o s off len arrival =
    (Nat.min len (length (file s) - off),
     (if len <=? length (file s) - off then None else Some xeof),
     firstn len (skipn off (file s))).
Proof. exact readAt_exact. Qed.
Print Assumptions C01_readAt_exact.

(* File.WriteTo, every path: the writer receives exactly the file from the offset to its end; nil; offset at the end *)
Theorem C01_writeTo_exact : forall o s regular off,
  no_rfail s -> 1 <= maxTx s -> 1 <= maxPacket o ->
  (concReads o = true -> regular = true -> maxPacket o < length (file s) -> maxPacket o <= maxTx s) ->
  writeTo o s regular off = (skipn off (file s), None, Nat.max off (length (file s))).
Proof. exact writeTo_exact. Qed.
Print Assumptions C01_writeTo_exact.

(* File.WriteAt, every path (one packet; sequential chunks; concurrent chunks): afterwards the served file is exactly
   the old file with the buffer spliced in at the offset (zero-filled gap beyond the old end), count = len(buf), nil *)
Theorem C01_writeAt_exact : forall o s off b dispatched,
  no_wfail s -> 1 <= maxPacket o ->
  length (chunks (length b) off (length b) (maxPacket o)) <= dispatched ->
  writeAt o s off b dispatched = (with_file s (splice (file s) off b), length b, None).
Proof. exact writeAt_exact. Qed.
Print Assumptions C01_writeAt_exact.

(* two adjacent chunk writes are one write of the concatenation: the algebra all write paths rest on *)
Theorem C01_splice_app : forall f off d1 d2, splice (splice f off d1) (off + length d1) d2 = splice f off (d1 ++ d2).
Proof. exact splice_app. Qed.
Print Assumptions C01_splice_app.

(* File.ReadFrom, sequential and ReadFromWithConcurrency (all chunks dispatched): the source's bytes are spliced in at the
   File offset, count = bytes consumed = len(src), nil, and the File offset moves past them *)
Theorem C01_readFromSeq_exact : forall fuel s p src off read,
  no_wfail s -> 1 <= p -> length src < fuel ->
  readFromSeq fuel readfrom_fixed s p src off read =
    (with_file s (splice (file s) off src), read + length src, None, off + length src).
Proof. exact readFromSeq_exact. Qed.
Print Assumptions C01_readFromSeq_exact.

Theorem C01_readFromConc_exact : forall s p src off dispatched,
  no_wfail s -> 1 <= p -> length (chunks (length src) off (length src) p) <= dispatched ->
  readFromConc s p src off dispatched = (with_file s (splice (file s) off src), length src, None, off + length src).
Proof. exact readFromConc_exact. Qed.
Print Assumptions C01_readFromConc_exact.

(* the order in which the server applies the chunk writes of one concurrent transfer does not matter: the model (writeAll)
   applies the dispatched chunks in chunk order; applying the same writes in ANY order - with any subset of them rejected -
   leaves the same file *)
Theorem C01_concurrent_writes_any_order : forall fuel s off n p b boff errs s' errs' order,
  1 <= p -> n <= fuel -> n <= length b - boff ->
  writeAll (chunks fuel off n p) s b boff errs = (s', errs') ->
  Permutation order (ops_of (chunks fuel off n p) b boff) ->
  fold_left (wstep (wfail s)) order (file s) = file s'.
Proof. exact concurrent_writes_any_order. Qed.
Print Assumptions C01_concurrent_writes_any_order.

(* ... because two writes to disjoint ranges commute, zero-filled gaps included *)
Theorem C01_splice_commute : forall f o1 d1 o2 d2, d1 <> [] -> d2 <> [] ->
  o1 + length d1 <= o2 \/ o2 + length d2 <= o1 ->
  splice (splice f o1 d1) o2 d2 = splice (splice f o2 d2) o1 d1.
Proof. exact splice_commute. Qed.
Print Assumptions C01_splice_commute.

(* MODELLED, NOT PROVED ABOUT THE CODE: `srv` (READ = up to min(len,maxTx) bytes or EOF status; WRITE = splice) stands for
   both servers with and without the allocator, and the model functions for client.go's loops; both are tied to the code
   on every run by the correspondence families c01/c13 (same executable definitions, extracted), which sweep sizes around
   k*maxPacket, all option combinations and server kinds. File.Read / File.Write are ReadAt / WriteAt at File.offset
   followed by offset += n (not separately modelled; exercised by c01). Offsets are nat: no 2^63 wrap-around. *)
(* ReadFromWithConcurrency's concurrency ARGUMENT: above the client's maximum or below one means the maximum, so at least one
   worker and at most the maximum are started - whatever the argument (in range, zero, negative, too large) the transfer is the
   one proved exact above. Tied by the readfromc cases, three quarters of which pass 0, -1 or maximum+7. *)
Theorem C01_rfc_workers_bounds : forall arg maxc, 1 <= maxc -> 1 <= rfc_workers arg maxc <= maxc.
Proof. exact rfc_workers_bounds. Qed.
Print Assumptions C01_rfc_workers_bounds.

Theorem C01_readFromConc_any_argument : forall arg maxc s p src off d, 1 <= maxc ->
  readFromConcArg 1%Z arg maxc s p src off d = readFromConc s p src off d.
Proof. exact readFromConc_any_argument. Qed.
Print Assumptions C01_readFromConc_any_argument.

(* letting 0 through starts no worker: (0, nil) with nothing transferred *)
Theorem C01_zero_passes_refuted : forall maxc s p src off d,
  readFromConcArg 0%Z 0%Z maxc s p src off d = (s, 0, None, off).
Proof. exact zero_passes_refuted. Qed.
Print Assumptions C01_zero_passes_refuted.

(* the size STAT / FSTAT reports only picks WriteTo's path: whatever it says - the true size, 0 (a /proc file, generated content),
   too little, too much - WriteTo delivers exactly the rest of the file and leaves the offset at its end (side condition as above,
   read with the reported size). Tied by the cases whose scripted peer reports another size than the content's. *)
Theorem C01_writeTo_any_stat_size : forall o s regular statsize off,
  no_rfail s -> 1 <= maxTx s -> 1 <= maxPacket o ->
  (concReads o = true -> regular = true -> maxPacket o < statsize -> maxPacket o <= maxTx s) ->
  writeToS o s regular statsize off = (skipn off (file s), None, Nat.max off (length (file s))).
Proof. exact writeToS_exact. Qed.
Print Assumptions C01_writeTo_any_stat_size.

Example C01_nonvacuous :
  let s := mkSrv (pattern 0 10) 100 (fun _ => None) (fun _ => None) in
  let o := mkOpts 3 2 true false false in
  readAt o s 2 7 (chunks 7 2 7 3) = (7, None, pattern 2 7) /\
  readAt o s 2 9 (rev (chunks 9 2 9 3)) = (8, Some xeof, pattern 2 8) /\
  chunks 10 2 7 3 = [(2, 3); (5, 3); (8, 1)].
Proof. vm_compute. repeat split; reflexivity. Qed.
