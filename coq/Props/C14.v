(* C14 — Close waits for the reads and writes sent before it. Theorems only; proofs in Proofs/PktMgrP.v *)
From Coq Require Import List Bool Arith.
From Sftp Require Import Sched.PktMgr Proofs.PktMgrP.
Import ListNotations.

(* for every pipeline depth, number of handles and relative speed of the pool workers and the command worker: while a
   CLOSE is with the command worker (queued or being handled) no READ/WRITE that arrived before it is still in the pool -
   so none of them runs concurrently with or after the Close of its handle *)
Theorem C14_close_barrier : forall tr s, run init tr = Some s ->
  Forall (fun c => snd c = KClose -> Forall (fun r => fst c < r) (rw_run s)) (cmd_q s).
Proof. intros tr s H. apply (close_barrier tr s H). Qed.
Print Assumptions C14_close_barrier.

(* a CLOSE is handed to the command worker only when nothing at all is in flight (working.Wait()) *)
Theorem C14_close_dispatch_needs_idle : forall s oid rest s',
  pending s = (oid, KClose) :: rest -> step s Dispatch = Some s' -> working s = 0.
Proof. exact close_dispatch_needs_idle. Qed.
Print Assumptions C14_close_dispatch_needs_idle.

(* and "nothing in flight" really means every earlier request has been answered *)
Theorem C14_idle_means_answered : forall tr s, run init tr = Some s -> working s = 0 -> rw_run s = [] /\ cmd_q s = [].
Proof.
  intros tr s H Hz. destruct (close_barrier tr s H) as [Hw _]. rewrite Hz in Hw.
  destruct (rw_run s); [|cbn [length] in Hw; discriminate]. destruct (cmd_q s); [split; reflexivity | cbn [length] in Hw; discriminate].
Qed.
Print Assumptions C14_idle_means_answered.

(* without the barrier the property fails: the same model with the wait removed lets a CLOSE overtake a READ *)
Example C14_nonvacuous :
  run init [Arrive KRW; Arrive KRW; Arrive KClose; Dispatch; Dispatch; Dispatch] = None /\
  (exists s, run init [Arrive KRW; Arrive KRW; Arrive KClose; Dispatch; Dispatch; FinishRW 2; FinishRW 1; Dispatch] = Some s /\
             cmd_q s = [(3, KClose)] /\ rw_run s = []).
Proof. split; [vm_compute; reflexivity | eexists; split; [vm_compute; reflexivity | split; reflexivity]]. Qed.
