(* C14 — Close waits for the reads and writes sent before it. Theorems only; proofs in Proofs/PktMgrP.v *)
From Coq Require Import List Bool Arith.
From Sftp Require Import Sched.PktMgr Sched.PktTrace Proofs.PktMgrP Proofs.PktMgrLiveP Proofs.PktTraceP Proofs.PktTraceLiveP Proofs.PktTraceBarrierP.
Import ListNotations.

(* for every pipeline depth, number of handles and relative speed of the pool workers and the command worker: while a
   CLOSE is with the command worker (queued or being handled) no READ/WRITE that arrived before it is still in the pool -
   so none of them runs concurrently with or after the Close of its handle *)
Theorem C14_close_barrier : forall tr s, run init tr = Some s ->
  Forall (fun c => snd c = KClose -> Forall (fun r => fst c < r) (rw_run s)) (cmd_q s).
Proof. intros tr s H. apply (close_barrier tr s H). Qed.
Print Assumptions C14_close_barrier.

(* a CLOSE is handed to the command worker only when nothing at all is in flight (working.Wait()) *)
Theorem C14_close_dispatch_needs_idle : forall s oid rest s',
  pending s = (oid, KClose) :: rest -> step s Dispatch = Some s' -> working s = 0.
Proof. exact close_dispatch_needs_idle. Qed.
Print Assumptions C14_close_dispatch_needs_idle.

(* and "nothing in flight" really means every earlier request has been answered *)
Theorem C14_idle_means_answered : forall tr s, run init tr = Some s -> working s = 0 -> rw_run s = [] /\ cmd_q s = [].
Proof.
  intros tr s H Hz. destruct (close_barrier tr s H) as [Hw _]. rewrite Hz in Hw.
  destruct (rw_run s); [|cbn [length] in Hw; discriminate]. destruct (cmd_q s); [split; reflexivity | cbn [length] in Hw; discriminate].
Qed.
Print Assumptions C14_idle_means_answered.

(* without the barrier the property fails: the same model with the wait removed lets a CLOSE overtake a READ *)
(* the barrier never wedges the server: a reachable state with work left can always take a step of the server's own
   goroutines (a CLOSE waiting at the barrier is released by the workers finishing), and then everything is answered *)
Theorem C14_barrier_no_wedge : forall tr s, run init tr = Some s -> quiescent s = false ->
  exists l s', internal l = true /\ step s l = Some s'.
Proof. exact progress. Qed.
Print Assumptions C14_barrier_no_wedge.

(* ===== the tie to packet-manager.go: trace acceptance (family pmt) =====
   `accept_trace` replays the recorded events; a D event of a CLOSE is accepted only when the model's in-flight counter
   is zero (step Dispatch), i.e. when every F of an earlier request precedes it in the trace. *)
Theorem C14_accepted_trace_in_order : forall tr s owed,
  accept_raw tr = inl (s, owed) ->
  inv1 s /\ emitted s = es_of tr ++ owed /\ es_of tr = seq 1 (length (es_of tr)).
Proof. exact accepted_raw_in_order. Qed.
Print Assumptions C14_accepted_trace_in_order.

(* the property itself, on the recorded runs: in every trace the model accepts, when the dispatcher hands a CLOSE to the
   command worker (its D event), every request it handed out before - READ, WRITE or command, whatever the workers'
   relative speed - has already reported that it is finished (its F event, logged on entry to readyPacket) *)
Theorem C14_accepted_close_after_finished : forall pre oid post c,
  accept_raw (pre ++ EvD oid KClose :: post) = inl c ->
  forall o k, In (EvD o k) pre -> In (EvF o) pre.
Proof. exact accepted_raw_close_after_finished. Qed.
Print Assumptions C14_accepted_close_after_finished.

(* and an accepted trace that ends with nothing in flight has answered everything, the CLOSE included *)
Theorem C14_accepted_trace_complete : forall tr s owed,
  accept_raw tr = inl (s, owed) -> quiescent s = true ->
  es_of tr ++ owed = seq 1 (arrived s).
Proof. exact accepted_raw_quiescent_complete. Qed.
Print Assumptions C14_accepted_trace_complete.

Example C14_nonvacuous :
  run init [Arrive KRW; Arrive KRW; Arrive KClose; Dispatch; Dispatch; Dispatch] = None /\
  (exists s, run init [Arrive KRW; Arrive KRW; Arrive KClose; Dispatch; Dispatch; FinishRW 2; FinishRW 1; Dispatch] = Some s /\
             cmd_q s = [(3, KClose)] /\ rw_run s = []).
Proof. split; [vm_compute; reflexivity | eexists; split; [vm_compute; reflexivity | split; reflexivity]]. Qed.
