(* C13 — On partial failure the count names a prefix that really moved. Theorems only; proofs in Proofs/TransferP.v, Proofs/TransferFailP.v, Proofs/TransferWFailP.v *)
From Coq Require Import List NArith Bool Arith Permutation Strings.Byte.
From Sftp Require Import Base.GoSem Xfer.Transfer Proofs.TransferP Proofs.TransferE2EP Proofs.TransferFailP Proofs.TransferWFailP.
Import ListNotations.

(* whatever the set of failing chunks and whatever order the replies arrive in: the reduce keeps an error that was
   reported, and no reported error has a lower offset *)
Theorem C13_lowest_error_wins : forall l e, reduce_first_err l = Some e -> is_min l e.
Proof. exact reduce_is_min. Qed.
Print Assumptions C13_lowest_error_wins.

Theorem C13_no_error_iff_none_reported : forall l, reduce_first_err l = None <-> l = [].
Proof. exact reduce_none_iff. Qed.
Print Assumptions C13_no_error_iff_none_reported.

Theorem C13_arrival_order_irrelevant : forall l l', Permutation l l' -> NoDup (map fst l) -> reduce_first_err l = reduce_first_err l'.
Proof. exact reduce_perm. Qed.
Print Assumptions C13_arrival_order_irrelevant.

(* concurrent ReadAt: count = (lowest error offset) - (start offset), error = that chunk's error *)
Theorem C13_readConc_lowest_error_wins : forall s off len p arrival n e buf,
  readConc s off len p arrival = (n, Some e, buf) ->
  exists eo, is_min (errs_of (map (conc_chunk s) arrival)) (eo, e) /\ n = eo - off.
Proof. exact readConc_lowest_error_wins. Qed.
Print Assumptions C13_readConc_lowest_error_wins.

(* a worker's error offset lies inside its own chunk: distinct chunks cannot tie, so "lowest" is unique *)
Theorem C13_error_offset_in_chunk : forall s o l d eo e,
  conc_chunk s (o, l) = (d, Some (eo, e)) -> o <= eo /\ (eo < o + l \/ eo = o).
Proof. exact conc_chunk_err_in_chunk. Qed.
Print Assumptions C13_error_offset_in_chunk.

(* sequential ReadFrom (repaired tree): a nil error means the whole source was written; so a short count never comes
   with a nil error, and the offset marks the end of what was stored *)
Theorem C13_readFrom_nil_means_all : forall fuel s p src off read s' n foff,
  1 <= p -> length src <= fuel ->
  readFromSeq fuel readfrom_fixed s p src off read = (s', n, None, foff) ->
  n = read + length src /\ foff = off + length src.
Proof. exact readFromSeq_nil_means_all. Qed.
Print Assumptions C13_readFrom_nil_means_all.

(* the pinned tree violated it (finding F13, repaired): 3 source bytes, 2-byte packets, the final 1-byte chunk is
   rejected, yet (3, nil) is returned while only 2 bytes are stored *)
Theorem C13_readFrom_pinned_refuted :
  exists s p src,
    (exists s' n foff, readFromSeq 10 false s p src 0 0 = (s', n, None, foff) /\ n = 3 /\ foff = 2 /\ length (file s') = 2) /\
    (exists s' n foff c, readFromSeq 10 true s p src 0 0 = (s', n, Some (XStatus c), foff) /\ foff = 2).
Proof. exact readFromSeq_pinned_refuted. Qed.
Print Assumptions C13_readFrom_pinned_refuted.

(* ===== for an ARBITRARY failure plan of the server (any set of failing offsets, any status codes, any payload limit) ===== *)

(* one chunk and the sequential multi-chunk ReadAt: what is returned is an intact, contiguous prefix of the requested
   window of the file; nil only if the window was filled (so a short count never comes with nil); io.EOF only at the true
   end of the file (unless the server itself answers status EOF early) *)
Theorem C13_readChunkAt_prefix : forall fuel s off want acc d' e,
  readChunkAt fuel s off want acc = (d', e) ->
  exists d, d' = acc ++ d /\ prefix_of_window d s off /\ length d <= want /\ (e = None -> length d = want) /\
            (e = Some xeof -> no_injected_eof s -> length (file s) <= off + length d).
Proof. exact readChunkAt_prefix. Qed.
Print Assumptions C13_readChunkAt_prefix.

Theorem C13_readSeq_prefix : forall fuel s off n p acc d' e,
  1 <= p -> n <= fuel ->
  readSeq (chunks fuel off n p) s acc = (d', e) ->
  exists d, d' = acc ++ d /\ prefix_of_window d s off /\ length d <= n /\ (e = None -> length d = n) /\
            (e = Some xeof -> no_injected_eof s -> length (file s) <= off + length d).
Proof. exact readSeq_prefix. Qed.
Print Assumptions C13_readSeq_prefix.

(* concurrent ReadAt: for every number k of chunks dispatched before the cancellation took effect and every order in which
   those workers report: the count bytes returned with the error are exactly the file's, intact and contiguous *)
Theorem C13_readConc_prefix : forall s off len p k arrival n e b,
  1 <= p <= maxTx s ->
  Permutation arrival (firstn k (chunks len off len p)) ->
  readConc s off len p arrival = (n, Some e, b) ->
  prefix_of_window b s off /\ length b = n /\ n <= len.
Proof. exact readConc_prefix. Qed.
Print Assumptions C13_readConc_prefix.

(* ... and a nil error from the concurrent path means the whole window *)
Theorem C13_readConc_nil_means_all : forall s off len p arrival n b,
  1 <= p <= maxTx s ->
  Permutation arrival (chunks len off len p) ->
  readConc s off len p arrival = (n, None, b) ->
  n = len /\ b = firstn len (skipn off (file s)) /\ length b = len.
Proof. exact readConc_nil_means_all. Qed.
Print Assumptions C13_readConc_nil_means_all.

(* sequential WriteAt: whatever chunks the server rejects, the count names exactly the bytes stored (contiguous from the
   offset: the file is the old one with the first m bytes of the buffer spliced in), nil means all, and the error is the
   one the server gave for the first rejected chunk *)
Theorem C13_writeSeq_prefix : forall fuel s off n p b boff w s' w' e,
  1 <= p -> n <= fuel -> n <= length b - boff ->
  writeSeq (chunks fuel off n p) s b boff w = (s', w', e) ->
  exists m, m <= n /\ w' = w + m /\ s' = with_file s (splice (file s) off (firstn m (skipn boff b))) /\
            (e = None -> m = n) /\ (forall c, e = Some (XStatus c) -> wfail s (off + m) = Some c).
Proof. exact writeSeq_prefix. Qed.
Print Assumptions C13_writeSeq_prefix.

(* concurrent WriteAt (writeAtConcurrent), k chunks dispatched before the cancellation took effect, any set of rejected
   chunks: the error returned is the one of the lowest rejected offset, the count is that offset minus the start, and exactly
   those count bytes are in the file, intact and contiguous; nil means everything dispatched was stored *)
Theorem C13_writeConc_prefix : forall s off b p k s' cnt eopt,
  1 <= p -> writeConc s off b p k = (s', cnt, eopt) ->
  match eopt with
  | Some e => cnt <= length b /\ firstn cnt (skipn off (file s')) = firstn cnt b /\
              exists c, e = XStatus c /\ wfail s (off + cnt) = Some c
  | None => cnt = length b /\ (length b <= k * p -> file s' = splice (file s) off b)
  end.
Proof. exact writeConc_prefix. Qed.
Print Assumptions C13_writeConc_prefix.

(* ReadFromWithConcurrency: on error the File offset marks the end of the intact prefix, and the error is the one of the
   lowest rejected offset; nil with everything dispatched means the whole source was stored *)
Theorem C13_readFromConc_prefix : forall s p src off k s' n eopt foff,
  1 <= p -> readFromConc s p src off k = (s', n, eopt, foff) ->
  match eopt with
  | Some e => off <= foff /\ foff - off <= length src /\
              firstn (foff - off) (skipn off (file s')) = firstn (foff - off) src /\
              exists c, e = XStatus c /\ wfail s foff = Some c
  | None => foff = off + n /\ (length src <= k * p -> n = length src /\ file s' = splice (file s) off src)
  end.
Proof. exact readFromConc_prefix. Qed.
Print Assumptions C13_readFromConc_prefix.

(* The concurrent write model applies the dispatched chunks in chunk order; that any other order of application - with any
   subset of the chunks rejected - leaves the same file is C01_concurrent_writes_any_order (Proofs/TransferOrderP.v). *)
Example C13_nonvacuous :
  let s := mkSrv (pattern 0 10) 100 (fun o => if o =? 5 then Some 4%N else None) (fun _ => None) in
  let o := mkOpts 3 2 true false false in
  readAt o s 2 8 (rev (chunks 8 2 8 3)) = (3, Some (XStatus 4), pattern 2 3) /\
  readAt (mkOpts 3 2 false false false) s 2 8 [] = (3, Some (XStatus 4), pattern 2 3).
Proof. vm_compute. repeat split; reflexivity. Qed.
