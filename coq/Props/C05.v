(* C05 — Operations through Client and Server behave like package os.
   What is proved here is the part of the property that is pure logic of pkg/sftp: outcome categories survive the wire,
   paths reach package os as the working-directory rule says, and each request type is mapped onto the os call the
   table names. That the served TREE then evolves like os's is not a theorem (package os and the kernel are outside the
   repository): it is decided on every run by the differential oracle of family c05 against package os itself. *)
From Coq Require Import List NArith Bool Strings.Byte.
From Sftp Require Import Base.GoSem Wire.Prim Wire.Packets Path.Clean Err.Status Srv.ReadOnly Srv.OpenFlags
                         Proofs.CleanP Proofs.StatusP Proofs.OpenFlagsP.
Import ListNotations.
Open Scope N_scope.

(* ok / not-exist / permission / EOF / other failure: the category of every error package os can return, bare or inside
   *PathError, *LinkError, *SyscallError, is the category the client reports *)
Theorem C05_category_rt : forall w b, in_scope w b = true ->
  cat_of_cerr (normalise (status_code perm_fixed w b)) = cat_of w b.
Proof. exact category_rt. Qed.
Print Assumptions C05_category_rt.

(* path resolution: without a working directory, and for absolute paths, the client's path reaches os unchanged *)
Theorem C05_to_local_path_passthrough : forall w p,
  to_local_path [] p = p /\ (is_abs p = true -> to_local_path w p = p).
Proof. intros w p; split; [apply to_local_path_no_workdir | apply to_local_path_abs]. Qed.
Print Assumptions C05_to_local_path_passthrough.

(* with a working directory a relative path is joined under it and cleaned lexically (this is where the known
   "workdir-clean" divergences from os's own resolution come from: path.Join cleans, the kernel does not) *)
Theorem C05_to_local_path_relative : forall w p, w <> [] -> is_abs p = false -> to_local_path w p = join2 w p.
Proof. intros w p Hw Hp. unfold to_local_path. destruct w; [congruence|]. rewrite Hp. reflexivity. Qed.
Print Assumptions C05_to_local_path_relative.

(* one os call per request type: the table *)
Theorem C05_request_table : forall id a b fl ab,
  effects (PMkdir id a fl ab) = [OMkdir] /\ effects (PRemove id a) = [ORemove] /\ effects (PRmdir id a) = [ORemove] /\
  effects (PRename id a b) = [ORename] /\ effects (PExtPosixRename id a b) = [ORename] /\
  effects (PExtHardlink id a b) = [OLink] /\ effects (PSymlink id a b) = [OSymlink] /\
  effects (PReadlink id a) = [OReadlink] /\ effects (PStat id a) = [OStat] /\ effects (PLstat id a) = [OLstat] /\
  effects (PRealpath id a) = [OAbs] /\ effects (PExtStatvfs id a) = [OStatfs] /\ effects (POpendir id a) = [OStat; OOpenFile 0].
Proof. intros. repeat split; reflexivity. Qed.
Print Assumptions C05_request_table.

(* the pinned tree reported permission errors as generic failures (finding F5, repaired) *)
Theorem C05_permission_pinned_refuted :
  cat_of_cerr (normalise (status_code false WLink (BErrno eperm))) <> cat_of WLink (BErrno eperm).
Proof. vm_compute. discriminate. Qed.
Print Assumptions C05_permission_pinned_refuted.

(* Client.OpenFile's flags survive the wire: for EVERY os flag word f, the os.OpenFile call the server makes carries f's
   access mode and its O_CREATE / O_TRUNC / O_EXCL bits and nothing else (O_APPEND is transmitted but, as documented in
   server.go, not applied: the client supplies offsets); the impossible access mode 3 is refused with EINVAL before any
   os call. toPflags is tied exhaustively on the 2^11 words it can distinguish (family opf). *)
Theorem C05_openfile_flags_survive : forall f, open_osflags (toPflags f) = served_osflags f.
Proof. exact openfile_flags_survive. Qed.
Print Assumptions C05_openfile_flags_survive.

Example C05_nonvacuous :
  to_local_path [x2f; x77]%byte [x61; x2f; x2e; x2e; x2f; x62]%byte = [x2f; x77; x2f; x62]%byte /\
  status_code true WLink (BErrno 1) = 3 /\ normalise 3 = CPermission.
Proof. vm_compute. repeat split; reflexivity. Qed.
