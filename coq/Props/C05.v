(* C05 — Operations through Client and Server behave like package os.
   What is proved here is the part of the property that is pure logic of pkg/sftp: outcome categories survive the wire,
   paths reach package os as the working-directory rule says, and each request type is mapped onto the os call the
   table names; and, on a name-space model of the served tree (Fs/Tree.v), the client's COMPOSITE operations - Remove with its
   RMDIR fallback, MkdirAll, RemoveAll - do to the tree exactly what os.Remove, os.MkdirAll and os.RemoveAll do (refinement,
   every tree, every path, wherever the kernel would not have to follow a symbolic link). That the model's primitives are
   what package os and the kernel do is not a theorem (they are outside the repository): it is decided on every run by the
   differential oracle of family c05 against package os itself, and by kind fsspec (the model's specifications against
   package os on the same trees). *)
From Coq Require Import List NArith Bool Strings.Byte.
From Sftp Require Import Base.GoSem Wire.Prim Wire.Packets Path.Clean Err.Status Srv.ReadOnly Srv.OpenFlags
                         Proofs.CleanP Proofs.StatusP Proofs.OpenFlagsP Fs.Tree Proofs.TreeP.
Import ListNotations.
From Sftp Require Proofs.TreeRenameP Proofs.TreeWalkP Proofs.TreeGlobP.
Open Scope N_scope.

(* ok / not-exist / permission / EOF / other failure: the category of every error package os can return, bare or inside
   *PathError, *LinkError, *SyscallError, is the category the client reports *)
Theorem C05_category_rt : forall w b, in_scope w b = true ->
  cat_of_cerr (normalise (status_code perm_fixed w b)) = cat_of w b.
Proof. exact category_rt. Qed.
Print Assumptions C05_category_rt.

(* path resolution: without a working directory, and for absolute paths, the client's path reaches os unchanged *)
Theorem C05_to_local_path_passthrough : forall w p,
  to_local_path [] p = p /\ (is_abs p = true -> to_local_path w p = p).
Proof. intros w p; split; [apply to_local_path_no_workdir | apply to_local_path_abs]. Qed.
Print Assumptions C05_to_local_path_passthrough.

(* with a working directory a relative path is joined under it and cleaned lexically (this is where the known
   "workdir-clean" divergences from os's own resolution come from: path.Join cleans, the kernel does not) *)
Theorem C05_to_local_path_relative : forall w p, w <> [] -> is_abs p = false -> to_local_path w p = join2 w p.
Proof. intros w p Hw Hp. unfold to_local_path. destruct w; [congruence|]. rewrite Hp. reflexivity. Qed.
Print Assumptions C05_to_local_path_relative.

(* one os call per request type: the table *)
Theorem C05_request_table : forall id a b fl ab,
  effects (PMkdir id a fl ab) = [OMkdir] /\ effects (PRemove id a) = [ORemove] /\ effects (PRmdir id a) = [ORemove] /\
  effects (PRename id a b) = [ORename] /\ effects (PExtPosixRename id a b) = [ORename] /\
  effects (PExtHardlink id a b) = [OLink] /\ effects (PSymlink id a b) = [OSymlink] /\
  effects (PReadlink id a) = [OReadlink] /\ effects (PStat id a) = [OStat] /\ effects (PLstat id a) = [OLstat] /\
  effects (PRealpath id a) = [OAbs] /\ effects (PExtStatvfs id a) = [OStatfs] /\ effects (POpendir id a) = [OStat; OOpenFile 0].
Proof. intros. repeat split; reflexivity. Qed.
Print Assumptions C05_request_table.

(* the pinned tree reported permission errors as generic failures (finding F5, repaired) *)
Theorem C05_permission_pinned_refuted :
  cat_of_cerr (normalise (status_code false WLink (BErrno eperm))) <> cat_of WLink (BErrno eperm).
Proof. vm_compute. discriminate. Qed.
Print Assumptions C05_permission_pinned_refuted.

(* Client.OpenFile's flags survive the wire: for EVERY os flag word f, the os.OpenFile call the server makes carries f's
   access mode and its O_CREATE / O_TRUNC / O_EXCL bits and nothing else (O_APPEND is transmitted but, as documented in
   server.go, not applied: the client supplies offsets); the impossible access mode 3 is refused with EINVAL before any
   os call. toPflags is tied exhaustively on the 2^11 words it can distinguish (family opf). *)
Theorem C05_openfile_flags_survive : forall f, open_osflags (toPflags f) = served_osflags f.
Proof. exact openfile_flags_survive. Qed.
Print Assumptions C05_openfile_flags_survive.

(* ===== the client's composite operations on a model of the served tree (Fs/Tree.v) =====
   Entries are directories, files and symbolic links under paths of components below the served root; `wf`: every path once
   and the parent of every entry is a directory. Server primitives as the os-backed server maps them: REMOVE and RMDIR are
   both os.Remove (p_remove), MKDIR os.Mkdir (p_mkdir), STAT / LSTAT the kernel's path walk (stat / lstat), READDIR the
   children. None = the kernel would have to follow a symbolic link: not modelled. *)

(* Client.Remove (REMOVE, then RMDIR if that fails) is os.Remove: the fallback repeats the same call on the same tree *)
Theorem C05_remove_is_os_remove : forall t p, FsTree.c_remove t p = FsTree.p_remove t p.
Proof. exact FsTreeP.c_remove_is_os_remove. Qed.
Print Assumptions C05_remove_is_os_remove.

(* Client.RemoveDirectory: the server answers RMDIR with os.Remove too; that is rmdir(2) exactly when the path is a directory -
   a file or a link is removed where rmdir(2) refuses (finding F17, known) *)
Theorem C05_rmdir_agrees_on_dirs : forall t p k, FsTree.lstat t p = FsTree.LKind k ->
  (k = FsTree.KDir <-> FsTree.p_remove t p = FsTree.p_rmdir t p) \/ p = [].
Proof. exact FsTreeP.rmdir_agrees_on_dirs. Qed.
Print Assumptions C05_rmdir_agrees_on_dirs.

Theorem C05_rmdir_on_a_file_refuted :
  exists t p, FsTree.wf t /\ FsTree.p_remove t p = Some (FsTree.TOk, []) /\ FsTree.p_rmdir t p = Some (FsTree.TOther, t).
Proof. exact FsTreeP.rmdir_on_a_file_refuted. Qed.
Print Assumptions C05_rmdir_on_a_file_refuted.

(* Client.MkdirAll (Stat, recursion on the parent, Mkdir, Lstat re-check) returns what os.MkdirAll returns and leaves the tree
   os.MkdirAll leaves - for every well-formed tree and every path, whenever the specification is defined *)
Theorem C05_mkdirall_refines : forall t p r, FsTree.wf t -> FsTree.spec_mkdirall t p = Some r ->
  FsTree.c_mkdirall (S (length p)) t p = Some r.
Proof. exact FsTreeP.mkdirall_refines. Qed.
Print Assumptions C05_mkdirall_refines.

(* ... and what that is: on success the path is a directory, nothing that was there is touched, everything new is a
   directory on the way to the path; a failure changes nothing *)
Theorem C05_mkdirall_post : forall t p c t1, FsTree.wf t -> FsTree.spec_mkdirall t p = Some (c, t1) ->
  (c = FsTree.TOk -> FsTree.wf t1 /\ FsTree.kind_at t1 p = Some FsTree.KDir /\ (forall x k, In (x, k) t -> In (x, k) t1) /\
              (forall x k, In (x, k) t1 -> In (x, k) t \/ (FsTree.under x p = true /\ k = FsTree.KDir))) /\
  (c <> FsTree.TOk -> t1 = t).
Proof. exact FsTreeP.spec_mkdirall_post. Qed.
Print Assumptions C05_mkdirall_post.

(* Client.RemoveAll (Lstat, ReadDir, RemoveAll on sub-directories and Remove on everything else, Remove of the path) removes
   exactly the sub-tree, as os.RemoveAll does, for every well-formed tree of any depth and width; a missing path is an error
   (the documented difference from os.RemoveAll) *)
Theorem C05_removeall_refines : forall fuel t p r, FsTree.wf t -> (FsTreeP.cnt t p < fuel)%nat ->
  FsTree.spec_removeall t p = Some r -> FsTree.c_removeall fuel t p = Some r.
Proof. exact FsTreeP.removeall_refines. Qed.
Print Assumptions C05_removeall_refines.

Theorem C05_removeall_post : forall t p t1, FsTree.wf t -> FsTree.spec_removeall t p = Some (FsTree.TOk, t1) ->
  FsTree.wf t1 /\ (forall x k, In (x, k) t1 <-> In (x, k) t /\ FsTree.under p x = false).
Proof. exact FsTreeP.spec_removeall_post. Qed.
Print Assumptions C05_removeall_post.

(* ANY sequence of the modelled operations (Mkdir, Remove, RemoveDirectory, MkdirAll, RemoveAll), started on a well-formed tree:
   every tree on the way is well formed, and the Client's way of doing them produces the outcomes and the tree that package
   os's operations produce, step for step - as long as no step has to follow a symbolic link *)
Theorem C05_sequences_stay_well_formed : forall ops t cs t', FsTree.wf t ->
  FsTreeP.run_ops FsTreeP.os_op t ops = Some (cs, t') -> FsTree.wf t'.
Proof. exact FsTreeP.run_ops_wf. Qed.
Print Assumptions C05_sequences_stay_well_formed.

Theorem C05_client_sequences_refine_os : forall ops t r, FsTree.wf t ->
  FsTreeP.run_ops FsTreeP.os_op t ops = Some r -> FsTreeP.run_ops FsTreeP.client_op t ops = Some r.
Proof. exact FsTreeP.client_sequences_refine_os. Qed.
Print Assumptions C05_client_sequences_refine_os.

Example C05_nonvacuous :
  to_local_path [x2f; x77]%byte [x61; x2f; x2e; x2e; x2f; x62]%byte = [x2f; x77; x2f; x62]%byte /\
  status_code true WLink (BErrno 1) = 3 /\ normalise 3 = CPermission.
Proof. vm_compute. repeat split; reflexivity. Qed.

Example C05_tree_nonvacuous :
  let t := [([1], FsTree.KDir); ([1; 2], FsTree.KDir); ([1; 2; 3], FsTree.KFile); ([1; 4], FsTree.KLink); ([5], FsTree.KFile)]%nat in
  FsTree.c_mkdirall 4 t [1; 6; 7]%nat = Some (FsTree.TOk, t ++ [([1; 6], FsTree.KDir); ([1; 6; 7], FsTree.KDir)])%nat /\
  FsTree.c_mkdirall 3 t [5; 1]%nat = Some (FsTree.TOther, t) /\
  FsTree.c_removeall 6 t [1]%nat = Some (FsTree.TOk, [([5], FsTree.KFile)])%nat /\
  FsTree.c_removeall 6 t [1; 4; 2]%nat = None.
Proof. vm_compute. repeat split; reflexivity. Qed.

(* ---- Rename, PosixRename, Link, Symlink in the name-space model (Fs/Tree.v p_rename / p_link / p_symlink; the os-backed server
   answers both rename requests with os.Rename). MODELLED: os.Rename / os.Link / os.Symlink themselves are the model's
   definitions, tied on every run to what package os did to the twin tree (kind fsspec) and to what the Client did to the served
   tree (kind fsop); file identity (two names of one file) and permissions are not in the model. ---- *)

(* a successful rename to another name: the tree stays well formed, the whole subtree is found under the new name with the
   kinds it had, everything outside the two names is untouched *)
Theorem C05_rename_moves_the_subtree : forall t s d t', FsTree.wf t -> FsTree.p_rename t s d = Some (FsTree.TOk, t') -> s <> d ->
  FsTree.wf t' /\
  (forall r, FsTree.kind_at t' (d ++ r) = FsTree.kind_at t (s ++ r)) /\
  (forall q, FsTree.under s q = false -> FsTree.under d q = false -> FsTree.kind_at t' q = FsTree.kind_at t q).
Proof. exact TreeRenameP.rename_ok. Qed.
Print Assumptions C05_rename_moves_the_subtree.

(* ... and nothing is left at or below the old name *)
Theorem C05_rename_leaves_nothing_behind : forall t s d t', FsTree.wf t -> FsTree.p_rename t s d = Some (FsTree.TOk, t') -> s <> d ->
  forall r, FsTree.kind_at t' (s ++ r) = None.
Proof. exact TreeRenameP.rename_source_gone. Qed.
Print Assumptions C05_rename_leaves_nothing_behind.

(* a failing rename, link or symlink changes nothing *)
Theorem C05_failed_rename_link_symlink_change_nothing :
  (forall t s d c t', FsTree.p_rename t s d = Some (c, t') -> c <> FsTree.TOk -> t' = t) /\
  (forall t s d c t', FsTree.p_link t s d = Some (c, t') -> c <> FsTree.TOk -> t' = t) /\
  (forall e t l c t', FsTree.p_symlink e t l = Some (c, t') -> c <> FsTree.TOk -> t' = t).
Proof. exact (conj TreeRenameP.rename_fail_same (conj TreeRenameP.link_fail_same TreeRenameP.symlink_fail_same)). Qed.
Print Assumptions C05_failed_rename_link_symlink_change_nothing.

(* a successful link adds exactly one entry of the source's kind (never a directory) at a name that was free; a successful
   symlink adds exactly one link entry at a name that was free; both keep the tree well formed *)
Theorem C05_link_adds_one_entry : forall t s d t', FsTree.wf t -> FsTree.p_link t s d = Some (FsTree.TOk, t') ->
  exists k, FsTree.kind_at t s = Some k /\ k <> FsTree.KDir /\ FsTree.kind_at t d = None /\ t' = t ++ [(d, k)] /\ FsTree.wf t'.
Proof. exact TreeRenameP.link_ok. Qed.
Print Assumptions C05_link_adds_one_entry.

Theorem C05_symlink_adds_one_entry : forall e t l t', FsTree.wf t -> FsTree.p_symlink e t l = Some (FsTree.TOk, t') ->
  e = false /\ FsTree.kind_at t l = None /\ t' = t ++ [(l, FsTree.KLink)] /\ FsTree.wf t'.
Proof. exact TreeRenameP.symlink_ok. Qed.
Print Assumptions C05_symlink_adds_one_entry.

(* ANY sequence over the whole set of modelled operations (the five above and Rename, PosixRename, Link, Symlink, OpenFile / Create): every tree
   on the way is well formed and the Client's way of doing them gives package os's outcomes and tree, step for step *)
Theorem C05_all_sequences_stay_well_formed : forall ops t cs t', FsTree.wf t ->
  TreeRenameP.run_ops2 TreeRenameP.os_op2 t ops = Some (cs, t') -> FsTree.wf t'.
Proof. exact TreeRenameP.run_ops2_wf. Qed.
Print Assumptions C05_all_sequences_stay_well_formed.

Theorem C05_all_client_sequences_refine_os : forall ops t r, FsTree.wf t ->
  TreeRenameP.run_ops2 TreeRenameP.os_op2 t ops = Some r -> TreeRenameP.run_ops2 TreeRenameP.client_op2 t ops = Some r.
Proof. exact TreeRenameP.client_sequences2_refine_os. Qed.
Print Assumptions C05_all_client_sequences_refine_os.

(* rename(2) alone is not what the server does: package os refuses a directory as the new name, also an empty one *)
Theorem C05_rename_onto_empty_directory_refuted : exists t s d,
  FsTree.wf t /\ FsTree.sys_rename t s d = Some (FsTree.TOk, [(d, FsTree.KDir)]) /\ FsTree.p_rename t s d = Some (FsTree.TOther, t).
Proof. exact TreeRenameP.rename_onto_empty_dir_refuted. Qed.
Print Assumptions C05_rename_onto_empty_directory_refuted.

Example C05_rename_nonvacuous :
  let t := [([1], FsTree.KDir); ([1; 2], FsTree.KDir); ([1; 2; 3], FsTree.KFile); ([1; 4], FsTree.KLink); ([5], FsTree.KFile)]%nat in
  FsTree.p_rename t [1; 2]%nat [6]%nat = Some (FsTree.TOk, [([1], FsTree.KDir); ([6], FsTree.KDir); ([6; 3], FsTree.KFile); ([1; 4], FsTree.KLink); ([5], FsTree.KFile)])%nat /\
  FsTree.p_rename t [1]%nat [1; 2; 7]%nat = Some (FsTree.TOther, t) /\
  FsTree.p_rename t [5]%nat [1; 4]%nat = Some (FsTree.TOk, [([1], FsTree.KDir); ([1; 2], FsTree.KDir); ([1; 2; 3], FsTree.KFile); ([1; 4], FsTree.KFile)])%nat /\
  FsTree.p_rename t [5]%nat [1; 4; 9]%nat = None /\
  FsTree.p_link t [1; 4]%nat [8]%nat = Some (FsTree.TOk, t ++ [([8], FsTree.KLink)])%nat.
Proof. vm_compute. repeat split; reflexivity. Qed.

(* ---- Client.Walk (the kr/fs walker over LSTAT and READDIR) against filepath.Walk's specification: for every well-formed tree
   and every path in it, the traversal returns the root and exactly the entries below it (none lost, none invented: links and
   files are leaves, only directories are descended into), each of them once. The ORDER of a walk is the file system's directory
   order on the served side and lexical on package os's side: not part of the model. ---- *)
Theorem C05_walk_refines_filepath_walk : forall t p k, FsTree.wf t -> p <> [] -> FsTree.kind_at t p = Some k ->
  forall e, In e (FsTree.c_walk (S (FsTreeP.cnt t p)) t p k) <-> In e (FsTree.spec_walk t p k).
Proof. exact TreeWalkP.walk_refines_spec. Qed.
Print Assumptions C05_walk_refines_filepath_walk.

Theorem C05_walk_visits_each_entry_once : forall fuel t p k, FsTree.wf t -> p <> [] -> FsTree.kind_at t p = Some k ->
  (FsTreeP.cnt t p < fuel)%nat -> NoDup (map fst (FsTree.c_walk fuel t p k)).
Proof. exact TreeWalkP.walk_once. Qed.
Print Assumptions C05_walk_visits_each_entry_once.

Example C05_walk_nonvacuous :
  let t := [([1], FsTree.KDir); ([1; 2], FsTree.KDir); ([1; 2; 3], FsTree.KFile); ([1; 4], FsTree.KLink); ([5], FsTree.KFile)]%nat in
  FsTree.c_walk 5 t [1]%nat FsTree.KDir = [([1], FsTree.KDir); ([1; 2], FsTree.KDir); ([1; 2; 3], FsTree.KFile); ([1; 4], FsTree.KLink)]%nat.
Proof. vm_compute. reflexivity. Qed.

(* ---- Client.Glob (match.go) against the component-by-component expansion of the pattern (what filepath.Glob means). What
   path.Match says about a component pattern and a name is GIVEN (package path is outside the repository; MODELLED: cp_all /
   cp_names, computed by package path itself in the tie). For every well-formed tree and every pattern whose components without
   magic characters match exactly their own name: Glob's three routes - one LSTAT when the pattern has no magic character,
   glob(dir, file) directly when the directory part has none, Glob(dir) first otherwise - return the same set of paths as the
   expansion, and are outside the model (a symbolic link would have to be followed) exactly when the expansion is. ---- *)
Theorem C05_glob_refines_expansion : forall t rp, FsTree.wf t -> TreeGlobP.pat_ok rp ->
  TreeGlobP.eqv (FsTree.c_glob t rp) (FsTree.spec_glob t rp).
Proof. exact TreeGlobP.glob_refines_expansion. Qed.
Print Assumptions C05_glob_refines_expansion.

(* a pattern without magic characters names itself, if it is there (and nothing if it is not) *)
Theorem C05_glob_literal_pattern : forall t rps, FsTree.wf t -> TreeGlobP.pat_ok rps -> FsTree.has_meta rps = false ->
  TreeGlobP.eqv (FsTree.spec_glob t rps) (TreeGlobP.of_lstat t (TreeGlobP.lit_path rps)).
Proof. exact TreeGlobP.spec_literal. Qed.
Print Assumptions C05_glob_literal_pattern.

Example C05_glob_nonvacuous :
  let t := [([1], FsTree.KDir); ([1; 2], FsTree.KDir); ([1; 2; 3], FsTree.KFile); ([1; 4], FsTree.KLink); ([5], FsTree.KFile)]%nat in
  let star := {| FsTree.cp_meta := true; FsTree.cp_all := true; FsTree.cp_names := [] |} in
  let lit n := {| FsTree.cp_meta := false; FsTree.cp_all := false; FsTree.cp_names := [n] |} in
  FsTree.c_glob t [star; lit 1]%nat = Some [[1; 2]; [1; 4]]%nat /\
  FsTree.c_glob t [lit 3; star; lit 1]%nat = None /\
  FsTree.c_glob t [star; lit 2; lit 1]%nat = Some [[1; 2; 3]]%nat /\
  FsTree.c_glob t [star; star]%nat = Some [[1; 2]; [1; 4]]%nat /\
  FsTree.c_glob t [star; lit 4; lit 1]%nat = None /\
  FsTree.c_glob t [lit 9; lit 1]%nat = Some [].
Proof. vm_compute. repeat split; reflexivity. Qed.

Example C05_glob_pattern_ok :
  TreeGlobP.pat_ok [{| FsTree.cp_meta := true; FsTree.cp_all := true; FsTree.cp_names := [] |};
                    {| FsTree.cp_meta := false; FsTree.cp_all := false; FsTree.cp_names := [1%nat] |}].
Proof.
  intros c [<-|[<-|[]]] H; [discriminate H | split; reflexivity].
Qed.

(* ---- OPEN / Create on the name space: the tree stays well formed, a failure changes nothing, and the only change there can be
   is one new file entry at a free name, under O_CREATE ---- *)
Theorem C05_open_effect : forall creat excl wr t p c t', FsTree.wf t -> FsTree.p_open creat excl wr t p = Some (c, t') ->
  FsTree.wf t' /\ (c <> FsTree.TOk -> t' = t) /\
  (t' = t \/ (c = FsTree.TOk /\ creat = true /\ FsTree.kind_at t p = None /\ t' = t ++ [(p, FsTree.KFile)])).
Proof. exact TreeRenameP.open_effect. Qed.
Print Assumptions C05_open_effect.
