(* C04 — Connection loss fails every call and hangs none. Theorems only; proofs in Proofs/ClientConnP.v *)
From Coq Require Import List Bool Arith.
From Sftp Require Import Conn.ClientConn Conn.ConnTrace Proofs.ClientConnP Proofs.ClientConnLiveP Proofs.ConnTraceP Proofs.ConnTraceLiveP.
Import ListNotations.

(* for every interleaving of callers, deliveries, send failures and the receiver's failure: at most one result is ever
   waiting for a caller, results are only ever produced for callers that are owed one, and an entry points only at a
   caller that is still owed one - so nobody is notified twice and no sender ever blocks on a full channel *)
Theorem C04_at_most_one_result : forall n tr s, crun (cinit n) tr = Some s ->
  NoDup (map fst (bufs s)) /\
  (forall c r, In (c, r) (bufs s) -> (exists st i, cstate_of c (callers s) = Some st /\ owed st i) /\ forall i, ~ In (i, Some c) (inflight s)) /\
  (forall i c, In (i, Some c) (inflight s) -> exists st, cstate_of c (callers s) = Some st /\ owed st i).
Proof. exact at_most_one_result. Qed.
Print Assumptions C04_at_most_one_result.

(* after the receiver failed, every entry has been hijacked: late send errors and stray replies reach nobody *)
Theorem C04_after_loss_no_live_entry : forall n tr s, crun (cinit n) tr = Some s -> closed s = true ->
  forall i c, ~ In (i, Some c) (inflight s).
Proof. exact after_loss_no_live_entry. Qed.
Print Assumptions C04_after_loss_no_live_entry.

(* a reply that was delivered before the failure is what its caller takes, failure or not *)
Theorem C04_delivered_survive : forall n tr s c s' id r,
  crun (cinit n) tr = Some s -> cstep s (Take c) = Some s' ->
  cstate_of c (callers s') = Some (CDone id r) -> forall j, r = ROk j -> j = id.
Proof. exact own_reply_at_take. Qed.
Print Assumptions C04_delivered_survive.

(* ===== the tie to conn.go: trace acceptance (family cct) =====
   The instrumented connection reports P (putChannel), S (send result), g (getChannel), B (broadcast), T (result taken);
   P, g and B inside the clientConn mutex. `caccept_trace` replays them; every candidate explanation of an accepted trace
   is a state the LTS reaches from n idle callers, so the invariant and every theorem above holds for what the real
   connection did in that run. *)
Theorem C04_accepted_trace_reachable : forall n tr cs, caccept_trace n tr = inl cs ->
  cs <> [] /\ Forall (fun c => reach n (fst c) /\ cinv (fst c)) cs.
Proof. exact accepted_conn_trace. Qed.
Print Assumptions C04_accepted_trace_reachable.

(* ===== the "at least once" half, at the level of the LTS ===== *)
(* in every reachable state, a caller that is owed a result either has it in its channel already or still has its entry in
   `inflight` - which a reply, a failed send or the broadcast will serve *)
Theorem C04_owed_has_result_or_entry : forall n tr s, crun (cinit n) tr = Some s ->
  forall c st i, cstate_of c (callers s) = Some st -> owed st i ->
    In c (map fst (bufs s)) \/ In (i, Some c) (inflight s).
Proof. exact linv_run. Qed.
Print Assumptions C04_owed_has_result_or_entry.

(* once the receiver has failed, every caller that is owed a result HAS it waiting in its channel ... *)
Theorem C04_after_loss_all_notified : forall n tr s, crun (cinit n) tr = Some s -> closed s = true ->
  forall c st i, cstate_of c (callers s) = Some st -> owed st i -> In c (map fst (bufs s)).
Proof. exact after_loss_all_notified. Qed.
Print Assumptions C04_after_loss_all_notified.

(* ... so no call hangs: whatever it was doing, every caller that has not finished can take its own next step (at most
   four remain: nextID, putChannel, send, take), and no reply can be delivered any more, so what it takes is an error *)
Theorem C04_after_loss_every_caller_can_step : forall n tr s, crun (cinit n) tr = Some s -> closed s = true ->
  forall c st, cstate_of c (callers s) = Some st ->
    (exists k r, st = CDone k r) \/
    exists l s', In l [NextID c; Put c; SendOK c; Take c] /\ cstep s l = Some s'.
Proof. exact after_loss_every_caller_can_step. Qed.
Print Assumptions C04_after_loss_every_caller_can_step.

Theorem C04_after_loss_no_delivery : forall s k, closed s = true -> cstep s (Deliver k) = None.
Proof. exact after_loss_no_delivery. Qed.
Print Assumptions C04_after_loss_no_delivery.

(* the same two facts for the recorded runs of conn.go: in every candidate explanation of a trace the model accepts, a
   caller that is owed a result has it or still has its entry; if the trace contains the broadcast, it has it *)
Theorem C04_accepted_trace_owed : forall n tr cs, caccept_trace n tr = inl cs ->
  Forall (fun c : cand =>
    (forall k st i, cstate_of k (callers (fst c)) = Some st -> owed st i ->
       In k (map fst (bufs (fst c))) \/ In (i, Some k) (inflight (fst c))) /\
    (closed (fst c) = true -> forall k st i, cstate_of k (callers (fst c)) = Some st -> owed st i ->
       In k (map fst (bufs (fst c))))) cs.
Proof. exact accepted_conn_trace_owed. Qed.
Print Assumptions C04_accepted_trace_owed.

(* MODELLED, NOT PROVED ABOUT THE CODE: that recv() does fail when the transport dies (io.Reader contract), Go's scheduler
   runs every goroutine, goroutines end, Wait/Close return - observed per run by families c04 and cct (watchdogs, goroutine
   counts); the worker loops of multi-chunk transfers sit above this LTS (each chunk is one caller). *)
Example C04_nonvacuous :
  exists s, crun (cinit 3) [NextID 0; NextID 1; Put 0; Put 1; SendOK 0; Deliver 1; RecvFail; SendFail 1; NextID 2; Put 2; Take 0; Take 1; Take 2] = Some s /\
            cstate_of 0 (callers s) = Some (CDone 1 (ROk 1)) /\ cstate_of 1 (callers s) = Some (CDone 2 RConnLost) /\
            cstate_of 2 (callers s) = Some (CDone 3 RConnLost) /\ bufs s = [].
Proof. eexists. split; [vm_compute; reflexivity | repeat split]. Qed.
