(* C19 — Version and extension negotiation is truthful. Theorems only; proofs in Proofs/NegotiateP.v *)
From Coq Require Import List NArith Bool Strings.Byte.
From Sftp Require Import Base.GoSem Wire.Prim Wire.Packets Srv.Negotiate Srv.ReadOnly Proofs.NegotiateP.
Import ListNotations.
Open Scope N_scope.

(* over all reply types, all versions 0..2^32-1, arbitrary / truncated extension lists *)
Theorem C19_client_accepts_iff : forall typ data exts,
  recv_version typ data = Ok exts <->
  (typ = t_version /\ exists rest, u32_dec_safe data = Ok (3, rest) /\ pairs_all_dec (length rest) rest = Ok exts).
Proof. exact client_accepts_iff. Qed.
Print Assumptions C19_client_accepts_iff.

Theorem C19_client_rejects : forall typ data,
  (typ <> t_version -> recv_version typ data = Err EUnexpectedType) /\
  (forall v rest, u32_dec_safe data = Ok (v, rest) -> v <> 3 -> recv_version t_version data = Err EVersion).
Proof. intros; split; [apply client_rejects_wrong_type | intros v rest; apply client_rejects_other_versions]. Qed.
Print Assumptions C19_client_rejects.

Theorem C19_reported_eq_advertised : forall adv, forallb wf_pair adv = true ->
  recv_version t_version (render (fieldsA (version_reply adv))) = Ok adv.
Proof. exact reported_eq_advertised. Qed.
Print Assumptions C19_reported_eq_advertised.

Theorem C19_advertised_eq_configured : forall cur names,
  (forall l, resolve names = Some l -> set_extensions cur names = (l, true)) /\
  (resolve names = None -> set_extensions cur names = (cur, false)).
Proof. exact advertised_eq_configured. Qed.
Print Assumptions C19_advertised_eq_configured.

Theorem C19_advertised_always_supported : forall calls cur,
  Forall (fun p => In p supported) cur -> Forall (fun p => In p supported) (fst (run_set cur calls)).
Proof. exact advertised_always_supported. Qed.
Print Assumptions C19_advertised_always_supported.

Theorem C19_advertised_subset_served : forall p, In p supported ->
  served_name (fst p) = true /\
  (forall id a b, effects (PExtStatvfs id a) <> [] /\ effects (PExtPosixRename id a b) <> [] /\ effects (PExtHardlink id a b) <> []).
Proof. intros p H; split; [apply advertised_subset_served; exact H | apply served_reaches_respond]. Qed.
Print Assumptions C19_advertised_subset_served.

Theorem C19_unknown_ext_unsupported_and_continues : forall id name payload,
  is_u32 id = true -> is_str name = true -> served_name name = false ->
  decA t_extended (render (fieldsA (PExtOther id name payload))) = Ok (PExtOther id name payload) /\
  ext_reaction name = Some 8.
Proof. exact unknown_ext_decodes. Qed.
Print Assumptions C19_unknown_ext_unsupported_and_continues.

Theorem C19_sync_guard : forall calls, sync_sends (fst (run_set supported calls)) = false.
Proof. exact sync_guard. Qed.
Print Assumptions C19_sync_guard.

Example C19_nonvacuous :
  run_set supported [[n_statvfs]; [n_fsync]; [n_hardlink; n_statvfs]] = ([(n_hardlink, d1); (n_statvfs, d2)], [true; false; true]) /\
  recv_version 2 [x00; x00; x00; x04]%byte = Err EVersion /\
  has_extension [(n_hardlink, d1); (n_hardlink, d2)] n_hardlink = Some d2.
Proof. vm_compute. repeat split; reflexivity. Qed.
