(* C10 — The request server is a faithful adapter in both directions. Theorems only. *)
From Coq Require Import List NArith Bool Strings.Byte.
From Sftp Require Import Base.GoSem Wire.Prim Wire.Packets Path.Clean Err.Status Srv.ReqServer
                         Proofs.CleanP Proofs.StatusP Proofs.ReqServerP Srv.Reply Proofs.ReplyP Wire.ClientParse Srv.Listing Proofs.ListingP.
Import ListNotations.
Open Scope N_scope.

(* for every start directory that is absolute and every path string (any bytes: empty, relative, dot and dot-dot
   segments, repeated and trailing slashes, non-UTF-8): the cleaned path is rooted and every segment is non-empty,
   not ".", not ".." and slash-free *)
Theorem C10_clean_abs_clean : forall base p, is_abs base = true ->
  exists segs, clean_with_base base p = render_path true segs /\ Forall (fun s => good_seg s = true) segs.
Proof. exact clean_with_base_abs_good. Qed.
Print Assumptions C10_clean_abs_clean.

(* confinement: no segment of such a path is "..", so joining it under any root cannot escape the root *)
Theorem C10_confined : forall s, good_seg s = true ->
  is_dotdot s = false /\ is_empty s = false /\ Clean.is_dot s = false /\ nosl s = true.
Proof. exact good_seg_not_dotdot. Qed.
Print Assumptions C10_confined.

(* every path-taking request, every combination of the optional handler interfaces: the handler entry point receives
   absolute clean paths; only a symlink's target text and the argument of a custom RealPath are verbatim *)
Theorem C10_dispatch_paths_clean : forall start ifc p c,
  is_abs start = true -> dispatch start ifc p = Some c ->
  (verbatim_path c = false -> abs_clean (c_path c)) /\ (c_target c = [] \/ abs_clean (c_target c)).
Proof. exact dispatch_paths_clean. Qed.
Print Assumptions C10_dispatch_paths_clean.

Theorem C10_realpath_default_clean : forall start path, is_abs start = true -> abs_clean (realpath_default start path).
Proof. exact realpath_default_clean. Qed.
Print Assumptions C10_realpath_default_clean.

(* results: the outcome category of every error a handler may return (nil, not-exist, permission, EOF, any errno, any
   SFTP status code, any other error; bare or inside *PathError / *LinkError / *SyscallError) survives the wire *)
Theorem C10_result_kind_rt : forall w b, in_scope w b = true ->
  cat_of_cerr (normalise (status_code perm_fixed w b)) = cat_of w b.
Proof. exact category_rt. Qed.
Print Assumptions C10_result_kind_rt.

Theorem C10_fx_codes_as_given : forall w c, status_code perm_fixed w (BFx c) = c.
Proof. exact fx_codes_as_given. Qed.
Print Assumptions C10_fx_codes_as_given.

Theorem C10_other_is_failure : forall w, status_code perm_fixed w BOther = 4 /\ status_code perm_fixed w BEOF = 1.
Proof. intros w; split; [apply other_is_failure | apply eof_through_any_wrapper]. Qed.
Print Assumptions C10_other_is_failure.

(* the pinned tree lost the permission category (finding F5, repaired) *)
Theorem C10_permission_pinned_refuted :
  cat_of_cerr (normalise (status_code false WBare BPermission)) <> cat_of WBare BPermission /\
  cat_of_cerr (normalise (status_code false WLink (BErrno eperm))) <> cat_of WLink (BErrno eperm) /\
  cat_of_cerr (normalise (status_code false WPath BPermission)) <> cat_of WPath BPermission.
Proof. exact category_pinned_refuted. Qed.
Print Assumptions C10_permission_pinned_refuted.

(* ===== the other direction: what a handler returns reaches the client unchanged in kind (Srv/Reply.v) =====
   request.go turns the result (n, err) of a handler call into the response. err is nil, io.EOF or an error with the status code
   statusFromError gives it. Tied by kind replymap: handlers that return scripted (n, err) pairs for READ (read-only and
   read+write handles), WRITE, READDIR, STAT, LSTAT and READLINK, the reply compared with these functions. *)
Theorem C10_read_data_as_given : forall n e,
  (e = Reply.HNil \/ (e = Reply.HEOF /\ (0 < n)%nat)) <-> Reply.read_reply n e = Reply.RData n.
Proof. exact ReplyP.read_data_as_given. Qed.
Print Assumptions C10_read_data_as_given.

Theorem C10_read_eof_only_when_empty : forall n e, Reply.read_reply n e = Reply.RStatus 1 ->
  (e = Reply.HEOF /\ n = 0%nat) \/ e = Reply.HErr 1%N.
Proof. exact ReplyP.read_eof_only_when_empty. Qed.
Print Assumptions C10_read_eof_only_when_empty.

Theorem C10_errors_as_given : forall n c,
  Reply.read_reply n (Reply.HErr c) = Reply.RStatus c /\ Reply.list_reply n (Reply.HErr c) = Reply.RStatus c /\
  Reply.stat_reply n (Reply.HErr c) = Reply.RStatus c /\ Reply.readlink_reply n (Reply.HErr c) = Reply.RStatus c /\
  Reply.write_reply (Reply.HErr c) = Reply.RStatus c.
Proof. exact ReplyP.errors_as_given. Qed.
Print Assumptions C10_errors_as_given.

Theorem C10_list_as_given : forall n e,
  (e = Reply.HNil \/ (e = Reply.HEOF /\ (0 < n)%nat)) <-> Reply.list_reply n e = Reply.RNames n.
Proof. exact ReplyP.list_as_given. Qed.
Print Assumptions C10_list_as_given.

Theorem C10_stat_as_given : forall n e, (0 < n)%nat -> (e = Reply.HNil \/ e = Reply.HEOF) ->
  Reply.stat_reply n e = Reply.RAttrs /\ Reply.readlink_reply n e = Reply.RName1.
Proof. exact ReplyP.stat_as_given. Qed.
Print Assumptions C10_stat_as_given.

(* listings as given over a whole directory handle: a paginated handler lister (at most P entries per call however large the
   buffer, the end reported with the last page or after it) is within the ListerAt contract for every page size, so the entries
   the handler holds reach the client exactly, in order, in at most |dir| + 1 READDIR requests (request.go advances the handle's
   offset by what was delivered). Tied by kind listpages: count and number of ListAt calls against the extracted client_list. *)
Theorem C10_paged_lister_is_legal : forall L B P style, (1 <= B)%nat -> (1 <= P)%nat -> legal L B (paged L P style).
Proof. exact paged_legal. Qed.
Print Assumptions C10_paged_lister_is_legal.

Theorem C10_paged_listing_exact : forall dir B P style, (1 <= B)%nat -> (1 <= P)%nat ->
  exists r, client_list (length dir + 2) dir (paged (length dir) P style) B 0 [] 0 = (filter not_dot dir, r, true) /\ (r <= length dir + 1)%nat.
Proof. exact paged_listing_exact. Qed.
Print Assumptions C10_paged_listing_exact.

Example C10_nonvacuous :
  clean_with_base [x2f; x68]%byte [x2e; x2e; x2f; x2e; x2e; x2f; x65; x74; x63]%byte = [x2f; x65; x74; x63]%byte /\
  dispatch [x2f]%byte (mkIf false false false false false false) (PSymlink 1 [x2e; x2e]%byte [x61]%byte)
    = Some (mkCall EFilecmd MSymlink [x2e; x2e]%byte [x2f; x61]%byte 0 []) /\
  status_code true WLink (BErrno 13) = 3.
Proof. vm_compute. repeat split; reflexivity. Qed.
