(* C08 — Decoding arbitrary bytes is total and bounded. Theorems only. *)
From Coq Require Import List NArith Bool Strings.Byte.
From Sftp Require Import Base.GoSem Wire.Prim Wire.Packets Proofs.PrimP Proofs.WireTotalP Proofs.WirePktP.
Import ListNotations.
Open Scope N_scope.

(* no decoding entry point panics, on any byte string *)
Theorem C08_decA_total : forall ty b, decA ty b <> Panic.
Proof. exact decA_nopanic. Qed.
Print Assumptions C08_decA_total.

Theorem C08_decB_total : forall b, decB_request b <> Panic /\ decB_response b <> Panic.
Proof. intros b; split; [apply decB_request_nopanic | apply decB_response_nopanic]. Qed.
Print Assumptions C08_decB_total.

Theorem C08_attrs_total : forall g b flags, attrs_dec g b <> Panic /\ filestat_dec g flags b <> Panic.
Proof. intros; split; [apply attrs_dec_nopanic | apply filestat_dec_nopanic]. Qed.
Print Assumptions C08_attrs_total.

Theorem C08_names_total : forall g fuel count b, names_dec fuel g count b <> Panic.
Proof. intros; apply names_dec_nopanic. Qed.
Print Assumptions C08_names_total.

Theorem C08_frame_total : forall input, f_res (recv_frame input) <> Panic.
Proof. exact recv_frame_nopanic. Qed.
Print Assumptions C08_frame_total.

(* frames longer than 256 KiB are refused after reading only the 4 length bytes; zero-length frames are refused *)
Theorem C08_frame_long_refused : forall input len rest,
  u32_dec_safe input = Ok (len, rest) -> max_msg_length < len ->
  recv_frame input = {| f_res := Err ELong; f_consumed := 4 |}.
Proof. exact frame_long_refused. Qed.
Print Assumptions C08_frame_long_refused.

Theorem C08_frame_zero_refused : forall input rest,
  u32_dec_safe input = Ok (0, rest) -> recv_frame input = {| f_res := Err EShort; f_consumed := 4 |}.
Proof. exact frame_zero_refused. Qed.
Print Assumptions C08_frame_zero_refused.

(* a frame whose declared length exceeds the bytes available is an error, never delivered short *)
Theorem C08_frame_short_is_error : forall input len rest,
  u32_dec_safe input = Ok (len, rest) -> len <= max_msg_length -> len <> 0 -> len32 rest < len ->
  recv_frame input = {| f_res := Err EUnexpectedEOF; f_consumed := length input |}.
Proof. exact frame_short_is_error. Qed.
Print Assumptions C08_frame_short_is_error.

Theorem C08_frame_ok_exact : forall input t payload,
  f_res (recv_frame input) = Ok (t, payload) ->
  exists len rest tb, u32_dec_safe input = Ok (len, rest) /\ 0 < len <= max_msg_length /\
    firstn (N.to_nat len) rest = tb :: payload /\ t = Byte.to_N tb /\
    N.of_nat (length payload) + 1 = len /\ f_consumed (recv_frame input) = (4 + N.to_nat len)%nat.
Proof. exact frame_ok_exact. Qed.
Print Assumptions C08_frame_ok_exact.

(* memory allocated by a declared count is bounded by the input: 8 bytes per extended attribute, 12 per name entry *)
Theorem C08_alloc_linear : forall b flags,
  8 * attrs_alloc_cells true b <= N.of_nat (length b) /\
  8 * filestat_alloc_cells true flags b <= N.of_nat (length b) /\
  12 * decB_name_alloc_cells b <= N.of_nat (length b).
Proof.
  intros b flags. split; [apply attrs_alloc_linear|]. split; [apply filestat_alloc_linear|].
  apply name_alloc_linear. reflexivity.
Qed.
Print Assumptions C08_alloc_linear.

(* codec B decodes attribute blocks and name lists under the same guard (after the repair of F3) *)
Theorem C08_codecB_guarded : guardB = true.
Proof. reflexivity. Qed.
Print Assumptions C08_codecB_guarded.

(* without the guard the statement is false: 8 input bytes declare 2^32-1 cells (finding F3, repaired) *)
Theorem C08_alloc_unguarded_refuted : exists b, length b = 8%nat /\ attrs_alloc_cells false b = 4294967295.
Proof. exact attrs_alloc_unguarded_refuted. Qed.
Print Assumptions C08_alloc_unguarded_refuted.

Example C08_nonvacuous :
  recv_frame [x00; x04; x00; x01; x03]%byte = {| f_res := Err ELong; f_consumed := 4 |} /\
  decA 14 [x00; x00; x00; x01; x00; x00; x00; x01; x61]%byte = Err EShort /\
  decA 99 [x00; x00; x00; x01]%byte = Err EUnhandledType /\
  attrs_alloc_cells true [x80; x00; x00; x00; xff; xff; xff; xff]%byte = 0.
Proof. vm_compute. repeat split; reflexivity. Qed.
