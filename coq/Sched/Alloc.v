(* allocator.go: pages of 256 KiB lent per request order id. Pages have identity (nat); `available` is a stack,
   `used` maps an order id to the pages lent for it. *)
From Coq Require Import List Bool Arith Lia.
Import ListNotations.

Record alloc := mkAlloc { available : list nat; used : list (nat * list nat); fresh : nat }.

Definition alloc0 : alloc := mkAlloc [] [] 0.

Fixpoint add_used (oid p : nat) (u : list (nat * list nat)) : list (nat * list nat) :=
  match u with
  | [] => [(oid, [p])]
  | (o, ps) :: t => if o =? oid then (o, ps ++ [p]) :: t else (o, ps) :: add_used oid p t
  end.

(* GetPage(orderID): pop an available page, or make a new one; record it as used by orderID *)
Definition get_page (a : alloc) (oid : nat) : alloc * nat :=
  match rev (available a) with
  | p :: rest_rev => (mkAlloc (rev rest_rev) (add_used oid p (used a)) (fresh a), p)
  | [] => (mkAlloc [] (add_used oid (fresh a) (used a)) (S (fresh a)), fresh a)
  end.

Fixpoint pages_of (oid : nat) (u : list (nat * list nat)) : list nat :=
  match u with [] => [] | (o, ps) :: t => if o =? oid then ps ++ pages_of oid t else pages_of oid t end.
Definition drop_oid (oid : nat) (u : list (nat * list nat)) : list (nat * list nat) :=
  filter (fun e => negb (fst e =? oid)) u.

(* ReleasePages(orderID): all pages of that id become available again *)
Definition release_pages (a : alloc) (oid : nat) : alloc :=
  mkAlloc (available a ++ pages_of oid (used a)) (drop_oid oid (used a)) (fresh a).

(* Free(): forget everything *)
Definition free_all (a : alloc) : alloc := mkAlloc [] [] (fresh a).

Inductive aop := AGet (oid : nat) | ARelease (oid : nat) | AFree.

Definition astep (a : alloc) (o : aop) : alloc :=
  match o with AGet oid => fst (get_page a oid) | ARelease oid => release_pages a oid | AFree => free_all a end.

Definition all_used (a : alloc) : list nat := flat_map snd (used a).
Definition all_pages (a : alloc) : list nat := available a ++ all_used a.
