(* The packet manager (packet-manager.go) and the worker pool as a labelled transition system.
   Requests are identified by their order id 1, 2, 3, ... (packetCount); READ/WRITE go to a pool of parallel workers,
   everything else to one sequential command worker; a CLOSE is held back until every earlier request has been answered
   (working.Wait()); the controller keeps `incoming` and `outgoing` sorted and emits while their heads match. *)
From Coq Require Import List Bool Arith Lia.
Import ListNotations.

Inductive kind := KRW | KClose | KCmd.
Definition kind_eqb (a b : kind) : bool :=
  match a, b with KRW, KRW | KClose, KClose | KCmd, KCmd => true | _, _ => false end.

Record st := mkSt {
  arrived : nat;                     (* packetCount: order ids 1..arrived have been assigned *)
  pending : list (nat * kind);       (* pktChan: received, not yet taken by the dispatcher goroutine *)
  working : nat;                     (* the WaitGroup counter *)
  reqq : list nat;                   (* `requests` channel: registered, not yet seen by the controller *)
  rw_run : list nat;                 (* READ/WRITE requests in the pool (rwChan buffer or a worker) *)
  cmd_q : list (nat * kind);         (* command worker: FIFO, the head is the one being handled *)
  respq : list nat;                  (* `responses` channel *)
  incoming : list nat;               (* controller, sorted *)
  outgoing : list nat;               (* controller, sorted *)
  emitted : list nat                 (* order ids of the responses written to the connection, in order *)
}.

Definition init : st := mkSt 0 [] 0 [] [] [] [] [] [] [].

Inductive label :=
| Arrive (k : kind)      (* recvPacket + makePacket + pktChan <- newOrderedRequest *)
| Dispatch               (* the dispatcher goroutine takes the head of pktChan *)
| FinishRW (oid : nat)   (* a pool worker answered: readyPacket *)
| FinishCmd              (* the command worker answered the head of its queue *)
| CtlReq                 (* controller: case pkt := <-s.requests *)
| CtlResp.               (* controller: case pkt := <-s.responses *)

Fixpoint insert_sorted (x : nat) (l : list nat) : list nat :=
  match l with
  | [] => [x]
  | y :: t => if x <=? y then x :: l else y :: insert_sorted x t
  end.

(* maybeSendPackets: emit while the heads of incoming and outgoing carry the same order id *)
Fixpoint maybe_send (fuel : nat) (inc out em : list nat) : list nat * list nat * list nat :=
  match fuel with
  | O => (inc, out, em)
  | S f =>
    match inc, out with
    | i :: inc', o :: out' => if i =? o then maybe_send f inc' out' (em ++ [o]) else (inc, out, em)
    | _, _ => (inc, out, em)
    end
  end.

Definition remove_nat (x : nat) (l : list nat) : list nat := filter (fun y => negb (y =? x)) l.

Definition step (s : st) (l : label) : option st :=
  match l with
  | Arrive k =>
      Some (mkSt (S (arrived s)) (pending s ++ [(S (arrived s), k)]) (working s) (reqq s) (rw_run s) (cmd_q s)
                 (respq s) (incoming s) (outgoing s) (emitted s))
  | Dispatch =>
      match pending s with
      | [] => None
      | (oid, k) :: rest =>
        if kind_eqb k KClose && negb (working s =? 0) then None          (* s.working.Wait() *)
        else Some (mkSt (arrived s) rest (S (working s)) (reqq s ++ [oid])
                        (if kind_eqb k KRW then rw_run s ++ [oid] else rw_run s)
                        (if kind_eqb k KRW then cmd_q s else cmd_q s ++ [(oid, k)])
                        (respq s) (incoming s) (outgoing s) (emitted s))
      end
  | FinishRW oid =>
      if existsb (Nat.eqb oid) (rw_run s) then
        Some (mkSt (arrived s) (pending s) (working s - 1) (reqq s) (remove_nat oid (rw_run s)) (cmd_q s)
                   (respq s ++ [oid]) (incoming s) (outgoing s) (emitted s))
      else None
  | FinishCmd =>
      match cmd_q s with
      | [] => None
      | (oid, _) :: rest =>
        Some (mkSt (arrived s) (pending s) (working s - 1) (reqq s) (rw_run s) rest
                   (respq s ++ [oid]) (incoming s) (outgoing s) (emitted s))
      end
  | CtlReq =>
      match reqq s with
      | [] => None
      | oid :: rest =>
        let inc := insert_sorted oid (incoming s) in
        let '(inc', out', em') := maybe_send (S (length inc)) inc (outgoing s) (emitted s) in
        Some (mkSt (arrived s) (pending s) (working s) rest (rw_run s) (cmd_q s) (respq s) inc' out' em')
      end
  | CtlResp =>
      match respq s with
      | [] => None
      | oid :: rest =>
        let out := insert_sorted oid (outgoing s) in
        let '(inc', out', em') := maybe_send (S (length out)) (incoming s) out (emitted s) in
        Some (mkSt (arrived s) (pending s) (working s) (reqq s) (rw_run s) (cmd_q s) rest inc' out' em')
      end
  end.

Fixpoint run (s : st) (tr : list label) : option st :=
  match tr with
  | [] => Some s
  | l :: rest => match step s l with Some s' => run s' rest | None => None end
  end.

(* no internal label is enabled: the system is quiescent *)
Definition quiescent (s : st) : bool :=
  match pending s, reqq s, rw_run s, cmd_q s, respq s with
  | [], [], [], [], [] => true
  | _, _, _, _, _ => false
  end.
