(* Trace acceptance for the packet manager LTS: the events the instrumented packet-manager.go reports (build tag verif)
   are replayed on the model. Worker goroutines report F (readyPacket entered) before they send on the `responses`
   channel, so two workers may reach the channel in the other order than they reported: the controller's R event
   therefore takes its order id from anywhere in the model's respq (re-linearisation of concurrent F events); everything
   else must match the model exactly, including the emissions (E) each controller step causes. *)
From Coq Require Import List Bool Arith.
From Sftp Require Import Sched.PktMgr.
Import ListNotations.

Inductive ev :=
| EvA (oid : nat) (k : kind)
| EvD (oid : nat) (k : kind)
| EvF (oid : nat)
| EvQ (oid : nat)
| EvR (oid : nat)
| EvE (oid : nat).

Definition set_respq (s : st) (r : list nat) : st :=
  mkSt (arrived s) (pending s) (working s) (reqq s) (rw_run s) (cmd_q s) r (incoming s) (outgoing s) (emitted s).

Definition head_is (x : nat) (l : list nat) : bool := match l with y :: _ => x =? y | [] => false end.

(* state of the replay: model state, emissions the last controller step caused and the trace has not shown yet *)
Definition accept_step (c : st * list nat) (e : ev) : option (st * list nat) :=
  let '(s, owed) := c in
  match e with
  | EvA oid k =>
      match step s (Arrive k) with
      | Some s' => if arrived s' =? oid then Some (s', owed) else None
      | None => None
      end
  | EvD oid k =>
      match pending s with
      | (o, k') :: _ =>
          if (o =? oid) && kind_eqb k k' then
            match step s Dispatch with Some s' => Some (s', owed) | None => None end
          else None
      | [] => None
      end
  | EvF oid =>
      if existsb (Nat.eqb oid) (rw_run s) then
        match step s (FinishRW oid) with Some s' => Some (s', owed) | None => None end
      else if head_is oid (map fst (cmd_q s)) then
        match step s FinishCmd with Some s' => Some (s', owed) | None => None end
      else None
  | EvQ oid =>
      match owed with
      | [] => if head_is oid (reqq s) then
                match step s CtlReq with
                | Some s' => Some (s', skipn (length (emitted s)) (emitted s'))
                | None => None
                end
              else None
      | _ => None
      end
  | EvR oid =>
      match owed with
      | [] => if existsb (Nat.eqb oid) (respq s) then
                let s1 := set_respq s (oid :: remove_nat oid (respq s)) in
                match step s1 CtlResp with
                | Some s' => Some (s', skipn (length (emitted s)) (emitted s'))
                | None => None
                end
              else None
      | _ => None
      end
  | EvE oid =>
      match owed with
      | o :: rest => if o =? oid then Some (s, rest) else None
      | [] => None
      end
  end.

(* Some (final state, owed, number of events) or the index of the first event that does not fit *)
Fixpoint accept (c : st * list nat) (tr : list ev) (i : nat) : (st * list nat) + nat :=
  match tr with
  | [] => inl c
  | e :: rest => match accept_step c e with Some c' => accept c' rest (S i) | None => inr i end
  end.

Definition accept_trace (tr : list ev) : (st * list nat) + nat := accept (init, []) tr 0.

(* The recv loop reports an arrival (A) before the packet's kind is known to the trace point; the dispatcher's D event
   carries it. `annotate` gives every A event the kind of the D event with the same order id (a request that is never
   dispatched behaves like a command). *)
Fixpoint kind_in (tr : list ev) (oid : nat) : kind :=
  match tr with
  | [] => KCmd
  | EvD o k :: rest => if o =? oid then k else kind_in rest oid
  | _ :: rest => kind_in rest oid
  end.

Definition annotate (tr : list ev) : list ev :=
  map (fun e => match e with EvA oid _ => EvA oid (kind_in tr oid) | _ => e end) tr.

Definition accept_raw (tr : list ev) : (st * list nat) + nat := accept_trace (annotate tr).
