(* Replay of the allocator's own event trace (instrumented allocator.go, build tag verif; events are reported inside
   the allocator mutex, pages numbered in order of first appearance) on the model: every GetPage must return the page
   the model returns. *)
From Coq Require Import List Bool Arith.
From Sftp Require Import Sched.Alloc.
Import ListNotations.

Inductive aev := AEvG (oid page : nat) | AEvL (oid : nat) | AEvX.

Fixpoint areplay (a : alloc) (tr : list aev) (i : nat) : alloc + nat :=
  match tr with
  | [] => inl a
  | AEvG oid p :: rest => let '(a', p') := get_page a oid in if p' =? p then areplay a' rest (S i) else inr i
  | AEvL oid :: rest => areplay (release_pages a oid) rest (S i)
  | AEvX :: rest => areplay (free_all a) rest (S i)
  end.

Definition areplay_trace (tr : list aev) : alloc + nat := areplay alloc0 tr 0.
