(* C18: the allocator with page CONTENTS. A request's receive buffer and the data slice of its READ response live in pages
   lent for its order id (packet.go recvPacket / getDataSlice with the allocator on); the decoded WRITE/SETSTAT request
   points into its receive page, the DATA response into its data page, and the response is marshalled and written at send
   time, after which the order id's pages are released (packet-manager.go maybeSendPackets).
     PRecv oid b        the receive loop takes a page for oid and reads the request bytes b into it
     PWork oid d paged  a worker handles oid: it reads the request from the receive page (`seen`), and produces the
                        response payload d - in a fresh page of oid when `paged` (READ), else in memory of its own
     PSend oid          the controller writes the response (reading the data page now) and releases oid's pages
   Between the events of one request any events of other requests may occur: the theorems quantify over all traces. *)
From Coq Require Import List Bool Arith Strings.Byte.
From Sftp Require Import Base.GoSem Sched.Alloc.
Import ListNotations.

Record pst := mkP {
  pa : alloc;
  pmem : nat -> bytes;                                        (* page -> content *)
  preqs : list (nat * (nat * bytes));                         (* oid -> receive page, request bytes as received *)
  pworks : list (nat * (option nat * bytes * bytes * bytes)); (* oid -> data page, payload produced, request as SEEN, request as received *)
  psent : list nat;
  pouts : list (nat * (bytes * bytes * bytes * bytes))        (* oid -> request received, request seen by the worker, payload produced, payload SENT *)
}.

Definition p0 : pst := mkP alloc0 (fun _ => []) [] [] [] [].

Inductive plabel := PRecv (oid : nat) (b : bytes) | PWork (oid : nat) (d : bytes) (paged : bool) | PSend (oid : nat).

Fixpoint alookup {A} (k : nat) (l : list (nat * A)) : option A :=
  match l with [] => None | (k', v) :: t => if k' =? k then Some v else alookup k t end.
Definition akey {A} (k : nat) (l : list (nat * A)) : bool := existsb (fun e => fst e =? k) l.
Definition upd (m : nat -> bytes) (p : nat) (b : bytes) : nat -> bytes := fun q => if q =? p then b else m q.

Definition pstep (s : pst) (l : plabel) : option pst :=
  match l with
  | PRecv oid b =>
      if akey oid (preqs s) then None else
      let '(a', p) := get_page (pa s) oid in
      Some (mkP a' (upd (pmem s) p b) ((oid, (p, b)) :: preqs s) (pworks s) (psent s) (pouts s))
  | PWork oid d paged =>
      match alookup oid (preqs s) with
      | Some (p, b) =>
          if akey oid (pworks s) then None else
          let seen := pmem s p in
          if paged then
            let '(a', q) := get_page (pa s) oid in
            Some (mkP a' (upd (pmem s) q d) (preqs s) ((oid, (Some q, d, seen, b)) :: pworks s) (psent s) (pouts s))
          else Some (mkP (pa s) (pmem s) (preqs s) ((oid, (None, d, seen, b)) :: pworks s) (psent s) (pouts s))
      | None => None
      end
  | PSend oid =>
      match alookup oid (pworks s) with
      | Some (qopt, d, seen, b) =>
          if existsb (Nat.eqb oid) (psent s) then None else
          let out := match qopt with Some q => pmem s q | None => d end in
          Some (mkP (release_pages (pa s) oid) (pmem s) (preqs s) (pworks s) (oid :: psent s) ((oid, (b, seen, d, out)) :: pouts s))
      | None => None
      end
  end.

Fixpoint prun (s : pst) (tr : list plabel) : option pst :=
  match tr with [] => Some s | l :: rest => match pstep s l with Some s' => prun s' rest | None => None end end.
