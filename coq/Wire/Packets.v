(* Model of the two packet codecs:
     A = packet.go / packet-typing.go / attrs.go   (the one on the wire)
     B = internal/encoding/ssh/filexfer (+ openssh/)
   over one logical packet type.  Encoders are given as field lists (one transcription per codec, fieldsA /
   fieldsB, plus a third one typed from draft-ietf-secsh-filexfer-02 and OpenSSH PROTOCOL in Spec.v);
   decoders as kind lists interpreted by one generic parser, with each codec's leniencies. *)
From Coq Require Import List NArith Bool Strings.Byte.
From Sftp Require Import Base.GoSem Wire.Prim Mode.FileMode.
Import ListNotations.
Open Scope N_scope.

(* ---------- attributes ---------- *)
Record attrs := mkAttrs {
  a_flags : N; a_size : N; a_uid : N; a_gid : N; a_perm : N; a_atime : N; a_mtime : N;
  a_ext : list (bytes * bytes) }.

Definition attrs0 : attrs := mkAttrs 0 0 0 0 0 0 0 [].

Definition pair_enc (p : bytes * bytes) : bytes := str_enc (fst p) ++ str_enc (snd p).
Definition pairs_enc (l : list (bytes * bytes)) : bytes := flat_map pair_enc l.

(* marshalFileStat(b, flags, fs) / Attributes.MarshalInto without the flags word *)
Definition filestat_enc (flags : N) (a : attrs) : bytes :=
  (if has flags fl_size then u64_enc (a_size a) else []) ++
  (if has flags fl_uidgid then u32_enc (a_uid a) ++ u32_enc (a_gid a) else []) ++
  (if has flags fl_perm then u32_enc (a_perm a) else []) ++
  (if has flags fl_acmod then u32_enc (a_atime a) ++ u32_enc (a_mtime a) else []) ++
  (if has flags fl_ext then u32_enc (N.of_nat (length (a_ext a))) ++ pairs_enc (a_ext a) else []).

Definition attrs_enc (a : attrs) : bytes := u32_enc (a_flags a) ++ filestat_enc (a_flags a) a.

(* count-driven loop over extended pairs; fuel is the remaining input length (each round consumes >= 8 bytes) *)
Fixpoint pairs_dec (fuel : nat) (count : N) (b : bytes) : res (list (bytes * bytes) * bytes) :=
  if count =? 0 then Ok ([], b) else
  match fuel with
  | O => Err EShort
  | S f =>
    '(t, b) <- str_dec_safe b ;;
    '(d, b) <- str_dec_safe b ;;
    '(l, b) <- pairs_dec f (count - 1) b ;;
    Ok ((t, d) :: l, b)
  end.

(* unmarshalFileStat (codec A, guard = true: count > len(b)/8 is refused before allocating)
   Attributes.XXX_UnmarshalByFlags (codec B, guard = false: make([]ExtendedAttribute, count) unguarded) *)
Definition filestat_dec (guard : bool) (flags : N) (b : bytes) : res (attrs * bytes) :=
  '(size, b) <- (if has flags fl_size then u64_dec_safe b else Ok (0, b)) ;;
  '(uid, b) <- (if has flags fl_uidgid then u32_dec_safe b else Ok (0, b)) ;;
  '(gid, b) <- (if has flags fl_uidgid then u32_dec_safe b else Ok (0, b)) ;;
  '(perm, b) <- (if has flags fl_perm then u32_dec_safe b else Ok (0, b)) ;;
  '(atime, b) <- (if has flags fl_acmod then u32_dec_safe b else Ok (0, b)) ;;
  '(mtime, b) <- (if has flags fl_acmod then u32_dec_safe b else Ok (0, b)) ;;
  '(ext, b) <- (if has flags fl_ext then
                  '(count, b) <- u32_dec_safe b ;;
                  if guard && (N.of_nat (length b) / 8 <? count) then Err EShort
                  else pairs_dec (length b) count b
                else Ok ([], b)) ;;
  Ok (mkAttrs flags size uid gid perm atime mtime ext, b).

Definition attrs_dec (guard : bool) (b : bytes) : res (attrs * bytes) :=
  '(flags, b) <- u32_dec_safe b ;; filestat_dec guard flags b.

(* cells allocated by a declared count (make([]T, count)) while decoding an attribute block *)
Definition filestat_alloc_cells (guard : bool) (flags : N) (b : bytes) : N :=
  match (
    '(_, b) <- (if has flags fl_size then u64_dec_safe b else Ok (0, b)) ;;
    '(_, b) <- (if has flags fl_uidgid then u32_dec_safe b else Ok (0, b)) ;;
    '(_, b) <- (if has flags fl_uidgid then u32_dec_safe b else Ok (0, b)) ;;
    '(_, b) <- (if has flags fl_perm then u32_dec_safe b else Ok (0, b)) ;;
    '(_, b) <- (if has flags fl_acmod then u32_dec_safe b else Ok (0, b)) ;;
    '(_, b) <- (if has flags fl_acmod then u32_dec_safe b else Ok (0, b)) ;;
    if has flags fl_ext then
      '(count, b) <- u32_dec_safe b ;;
      if guard && (N.of_nat (length b) / 8 <? count) then Ok 0 else Ok count
    else Ok 0) with
  | Ok c => c
  | _ => 0
  end.

Definition attrs_alloc_cells (guard : bool) (b : bytes) : N :=
  match u32_dec_safe b with Ok (flags, b) => filestat_alloc_cells guard flags b | _ => 0 end.

(* ---------- name entries (NAME responses) ---------- *)
Definition nentry := (bytes * bytes * attrs)%type.
Definition name_enc (e : nentry) : bytes :=
  let '(n, l, a) := e in str_enc n ++ str_enc l ++ attrs_enc a.
Definition names_enc (l : list nentry) : bytes := flat_map name_enc l.

Fixpoint names_dec (fuel : nat) (guard : bool) (count : N) (b : bytes) : res (list nentry * bytes) :=
  if count =? 0 then Ok ([], b) else
  match fuel with
  | O => Err EShort
  | S f =>
    '(n, b) <- str_dec_safe b ;;
    '(l, b) <- str_dec_safe b ;;
    '(a, b) <- attrs_dec guard b ;;
    '(rest, b) <- names_dec f guard (count - 1) b ;;
    Ok ((n, l, a) :: rest, b)
  end.

(* extension pairs until the buffer is exhausted (INIT / VERSION) *)
Fixpoint pairs_all_dec (fuel : nat) (b : bytes) : res (list (bytes * bytes)) :=
  match b with
  | [] => Ok []
  | _ =>
    match fuel with
    | O => Err EOutOfFuel
    | S f =>
      '(n, b) <- str_dec_safe b ;;
      '(d, b) <- str_dec_safe b ;;
      l <- pairs_all_dec f b ;;
      Ok ((n, d) :: l)
    end
  end.

(* ---------- generic fields ---------- *)
Inductive fld :=
| FU8 (v : N) | FU32 (v : N) | FU64 (v : N) | FStr (s : bytes) | FRaw (s : bytes)
| FAttrs (a : attrs) | FPairs (l : list (bytes * bytes)) | FNames (l : list nentry).

Definition render_fld (f : fld) : bytes :=
  match f with
  | FU8 v => u8_enc v | FU32 v => u32_enc v | FU64 v => u64_enc v | FStr s => str_enc s | FRaw s => s
  | FAttrs a => attrs_enc a | FPairs l => pairs_enc l
  | FNames l => u32_enc (N.of_nat (length l)) ++ names_enc l
  end.
Definition render (fs : list fld) : bytes := flat_map render_fld fs.

Inductive kind := KU8 | KU32 | KU64 | KStr | KRest | KAttrs (guard : bool) | KPairs | KNames (guard : bool).

Definition parse_fld (k : kind) (b : bytes) : res (fld * bytes) :=
  match k with
  | KU8 => '(v, b) <- u8_dec_safe b ;; Ok (FU8 v, b)
  | KU32 => '(v, b) <- u32_dec_safe b ;; Ok (FU32 v, b)
  | KU64 => '(v, b) <- u64_dec_safe b ;; Ok (FU64 v, b)
  | KStr => '(s, b) <- str_dec_safe b ;; Ok (FStr s, b)
  | KRest => Ok (FRaw b, [])
  | KAttrs g => '(a, b) <- attrs_dec g b ;; Ok (FAttrs a, b)
  | KPairs => l <- pairs_all_dec (length b) b ;; Ok (FPairs l, [])
  | KNames g =>
    '(count, b) <- u32_dec_safe b ;;
    if g && (N.of_nat (length b) / 12 <? count) then Err EShort else
    '(l, b) <- names_dec (length b) g count b ;; Ok (FNames l, b)
  end.

Fixpoint parse (ks : list kind) (b : bytes) : res (list fld * bytes) :=
  match ks with
  | [] => Ok ([], b)
  | k :: ks => '(f, b) <- parse_fld k b ;; '(fs, b) <- parse ks b ;; Ok (f :: fs, b)
  end.

(* ---------- logical packets ---------- *)
Inductive abody := ARaw (b : bytes) | AStat (a : attrs).

Inductive packet :=
| PInit (ver : N) (exts : list (bytes * bytes))
| PVersion (ver : N) (exts : list (bytes * bytes))
| POpen (id : N) (path : bytes) (pflags flags : N) (ab : abody)
| PClose (id : N) (h : bytes)
| PRead (id : N) (h : bytes) (off len : N)
| PWrite (id : N) (h : bytes) (off : N) (data : bytes)
| PLstat (id : N) (p : bytes)
| PFstat (id : N) (h : bytes)
| PSetstat (id : N) (p : bytes) (flags : N) (ab : abody)
| PFsetstat (id : N) (h : bytes) (flags : N) (ab : abody)
| POpendir (id : N) (p : bytes)
| PReaddir (id : N) (h : bytes)
| PRemove (id : N) (p : bytes)
| PMkdir (id : N) (p : bytes) (flags : N) (ab : abody)
| PRmdir (id : N) (p : bytes)
| PRealpath (id : N) (p : bytes)
| PStat (id : N) (p : bytes)
| PRename (id : N) (o n : bytes)
| PReadlink (id : N) (p : bytes)
| PSymlink (id : N) (target link : bytes)
| PExtStatvfs (id : N) (p : bytes)
| PExtPosixRename (id : N) (o n : bytes)
| PExtHardlink (id : N) (o n : bytes)
| PExtFsync (id : N) (h : bytes)
| PExtOther (id : N) (name : bytes) (payload : bytes)
| PStatus (id : N) (code : N) (msg lang : bytes)
| PHandle (id : N) (h : bytes)
| PData (id : N) (data : bytes)
| PName (id : N) (entries : list nentry)
| PAttrs (id : N) (a : attrs)
| PStatvfsReply (id : N) (vals : list N)
| PExtReplyOther (id : N) (payload : bytes).

Definition t_init := 1. Definition t_version := 2. Definition t_open := 3. Definition t_close := 4.
Definition t_read := 5. Definition t_write := 6. Definition t_lstat := 7. Definition t_fstat := 8.
Definition t_setstat := 9. Definition t_fsetstat := 10. Definition t_opendir := 11. Definition t_readdir := 12.
Definition t_remove := 13. Definition t_mkdir := 14. Definition t_rmdir := 15. Definition t_realpath := 16.
Definition t_stat := 17. Definition t_rename := 18. Definition t_readlink := 19. Definition t_symlink := 20.
Definition t_status := 101. Definition t_handle := 102. Definition t_data := 103. Definition t_name := 104.
Definition t_attrs := 105. Definition t_extended := 200. Definition t_extreply := 201.

Definition ptype (p : packet) : N :=
  match p with
  | PInit _ _ => t_init | PVersion _ _ => t_version | POpen _ _ _ _ _ => t_open | PClose _ _ => t_close
  | PRead _ _ _ _ => t_read | PWrite _ _ _ _ => t_write | PLstat _ _ => t_lstat | PFstat _ _ => t_fstat
  | PSetstat _ _ _ _ => t_setstat | PFsetstat _ _ _ _ => t_fsetstat | POpendir _ _ => t_opendir
  | PReaddir _ _ => t_readdir | PRemove _ _ => t_remove | PMkdir _ _ _ _ => t_mkdir | PRmdir _ _ => t_rmdir
  | PRealpath _ _ => t_realpath | PStat _ _ => t_stat | PRename _ _ _ => t_rename | PReadlink _ _ => t_readlink
  | PSymlink _ _ _ => t_symlink
  | PExtStatvfs _ _ | PExtPosixRename _ _ _ | PExtHardlink _ _ _ | PExtFsync _ _ | PExtOther _ _ _ => t_extended
  | PStatus _ _ _ _ => t_status | PHandle _ _ => t_handle | PData _ _ => t_data | PName _ _ => t_name
  | PAttrs _ _ => t_attrs | PStatvfsReply _ _ | PExtReplyOther _ _ => t_extreply
  end.

(* ASCII helpers for the extension names *)
Definition ascii_bytes (l : list N) : bytes := map byte_of_N l.
Definition n_statvfs : bytes :=   (* "statvfs@openssh.com" *)
  ascii_bytes [115;116;97;116;118;102;115;64;111;112;101;110;115;115;104;46;99;111;109].
Definition n_posix_rename : bytes :=  (* "posix-rename@openssh.com" *)
  ascii_bytes [112;111;115;105;120;45;114;101;110;97;109;101;64;111;112;101;110;115;115;104;46;99;111;109].
Definition n_hardlink : bytes :=  (* "hardlink@openssh.com" *)
  ascii_bytes [104;97;114;100;108;105;110;107;64;111;112;101;110;115;115;104;46;99;111;109].
Definition n_fsync : bytes :=  (* "fsync@openssh.com" *)
  ascii_bytes [102;115;121;110;99;64;111;112;101;110;115;115;104;46;99;111;109].

Definition bytes_eqb (a b : bytes) : bool :=
  (Nat.eqb (length a) (length b)) && forallb (fun '(x, y) => Byte.eqb x y) (combine a b).

(* attribute body as codec A marshals it: []byte verbatim, *FileStat through marshalFileStat(flags) *)
Definition abody_encA (flags : N) (ab : abody) : bytes :=
  match ab with ARaw b => b | AStat a => filestat_enc flags a end.

(* ---- codec A: what each MarshalBinary / marshalPacket writes after the type byte ---- *)
Definition fieldsA (p : packet) : list fld :=
  match p with
  | PInit v e => [FU32 v; FPairs e]
  | PVersion v e => [FU32 v; FPairs e]
  | POpen id path pf fl ab => [FU32 id; FStr path; FU32 pf; FU32 fl; FRaw (abody_encA fl ab)]
  | PClose id h => [FU32 id; FStr h]
  | PRead id h off len => [FU32 id; FStr h; FU64 off; FU32 len]
  | PWrite id h off d => [FU32 id; FStr h; FU64 off; FStr d]
  | PLstat id p => [FU32 id; FStr p]
  | PFstat id h => [FU32 id; FStr h]
  | PSetstat id p fl ab => [FU32 id; FStr p; FU32 fl; FRaw (abody_encA fl ab)]
  | PFsetstat id h fl ab => [FU32 id; FStr h; FU32 fl; FRaw (abody_encA fl ab)]
  | POpendir id p => [FU32 id; FStr p]
  | PReaddir id h => [FU32 id; FStr h]
  | PRemove id p => [FU32 id; FStr p]
  | PMkdir id p fl _ => [FU32 id; FStr p; FU32 fl]       (* codec A has no attribute body on MKDIR *)
  | PRmdir id p => [FU32 id; FStr p]
  | PRealpath id p => [FU32 id; FStr p]
  | PStat id p => [FU32 id; FStr p]
  | PRename id o n => [FU32 id; FStr o; FStr n]
  | PReadlink id p => [FU32 id; FStr p]
  | PSymlink id t l => [FU32 id; FStr t; FStr l]
  | PExtStatvfs id p => [FU32 id; FStr n_statvfs; FStr p]
  | PExtPosixRename id o n => [FU32 id; FStr n_posix_rename; FStr o; FStr n]
  | PExtHardlink id o n => [FU32 id; FStr n_hardlink; FStr o; FStr n]
  | PExtFsync id h => [FU32 id; FStr n_fsync; FStr h]
  | PExtOther id name pl => [FU32 id; FStr name; FRaw pl]
  | PStatus id c m l => [FU32 id; FU32 c; FStr m; FStr l]
  | PHandle id h => [FU32 id; FStr h]
  | PData id d => [FU32 id; FStr d]
  | PName id es => [FU32 id; FNames es]
  | PAttrs id a => [FU32 id; FAttrs a]
  | PStatvfsReply id vs => FU32 id :: map FU64 vs
  | PExtReplyOther id pl => [FU32 id; FRaw pl]
  end.

(* ---- codec B: StartPacket(type, reqid) then the Append* calls of each MarshalPacket ---- *)
Definition abody_attrs (flags : N) (ab : abody) : option attrs :=
  match ab with
  | AStat a => if a_flags a =? flags then Some a else None
  | ARaw _ => None
  end.

Definition fieldsB (p : packet) : option (list fld) :=
  match p with
  | PInit v e => Some [FU32 v; FPairs e]
  | PVersion v e => Some [FU32 v; FPairs e]
  | POpen id path pf fl ab =>
      match abody_attrs fl ab with Some a => Some [FU32 id; FStr path; FU32 pf; FAttrs a] | None => None end
  | PClose id h => Some [FU32 id; FStr h]
  | PRead id h off len => Some [FU32 id; FStr h; FU64 off; FU32 len]
  | PWrite id h off d => Some [FU32 id; FStr h; FU64 off; FStr d]
  | PLstat id p => Some [FU32 id; FStr p]
  | PFstat id h => Some [FU32 id; FStr h]
  | PSetstat id p fl ab =>
      match abody_attrs fl ab with Some a => Some [FU32 id; FStr p; FAttrs a] | None => None end
  | PFsetstat id h fl ab =>
      match abody_attrs fl ab with Some a => Some [FU32 id; FStr h; FAttrs a] | None => None end
  | POpendir id p => Some [FU32 id; FStr p]
  | PReaddir id h => Some [FU32 id; FStr h]
  | PRemove id p => Some [FU32 id; FStr p]
  | PMkdir id p fl ab =>
      match abody_attrs fl ab with Some a => Some [FU32 id; FStr p; FAttrs a] | None => None end
  | PRmdir id p => Some [FU32 id; FStr p]
  | PRealpath id p => Some [FU32 id; FStr p]
  | PStat id p => Some [FU32 id; FStr p]
  | PRename id o n => Some [FU32 id; FStr o; FStr n]
  | PReadlink id p => Some [FU32 id; FStr p]
  | PSymlink id t l => Some [FU32 id; FStr t; FStr l]
  | PExtStatvfs id p => Some [FU32 id; FStr n_statvfs; FStr p]
  | PExtPosixRename id o n => Some [FU32 id; FStr n_posix_rename; FStr o; FStr n]
  | PExtHardlink id o n => Some [FU32 id; FStr n_hardlink; FStr o; FStr n]
  | PExtFsync id h => Some [FU32 id; FStr n_fsync; FStr h]
  | PExtOther id name pl => Some [FU32 id; FStr name; FRaw pl]
  | PStatus id c m l => Some [FU32 id; FU32 c; FStr m; FStr l]
  | PHandle id h => Some [FU32 id; FStr h]
  | PData id d => Some [FU32 id; FStr d]
  | PName id es => Some [FU32 id; FNames es]
  | PAttrs id a => Some [FU32 id; FAttrs a]
  | PStatvfsReply id vs => Some (FU32 id :: map FU64 vs)
  | PExtReplyOther id pl => Some [FU32 id; FRaw pl]
  end.

(* sendPacket: header(4 length bytes patched) ++ payload; the length counts everything after itself *)
Definition frame (body : bytes) : bytes := u32_enc (len32 body) ++ body.
Definition bodyA (p : packet) : bytes := u8_enc (ptype p) ++ render (fieldsA p).
Definition encA (p : packet) : bytes := frame (bodyA p).
Definition encB (p : packet) : option bytes :=
  match fieldsB p with Some fs => Some (frame (u8_enc (ptype p) ++ render fs)) | None => None end.

(* ---------- decoding, codec A: makePacket + UnmarshalBinary (requests only) ---------- *)
Definition id_str := [KU32; KStr].

Definition dec_ext_A (payload : bytes) : res packet :=
  '(fs, _) <- parse [KU32; KStr] payload ;;
  match fs with
  | [FU32 id; FStr name] =>
    if bytes_eqb name n_statvfs then
      '(fs, _) <- parse [KU32; KStr; KStr] payload ;;
      match fs with [FU32 id; FStr _; FStr p] => Ok (PExtStatvfs id p) | _ => Err EOther end
    else if bytes_eqb name n_posix_rename then
      '(fs, _) <- parse [KU32; KStr; KStr; KStr] payload ;;
      match fs with [FU32 id; FStr _; FStr o; FStr n] => Ok (PExtPosixRename id o n) | _ => Err EOther end
    else if bytes_eqb name n_hardlink then
      '(fs, _) <- parse [KU32; KStr; KStr; KStr] payload ;;
      match fs with [FU32 id; FStr _; FStr o; FStr n] => Ok (PExtHardlink id o n) | _ => Err EOther end
    else
      (* errUnknownExtendedPacket, returned together with the partially decoded packet (ID, ExtendedRequest) *)
      Ok (PExtOther id name (skipn (8 + length name) payload))
  | _ => Err EOther
  end.

Definition decA (ty : N) (payload : bytes) : res packet :=
  if ty =? t_init then
    '(fs, _) <- parse [KU32; KPairs] payload ;;
    match fs with [FU32 v; FPairs e] => Ok (PInit v e) | _ => Err EOther end
  else if ty =? t_open then
    '(fs, _) <- parse [KU32; KStr; KU32; KU32; KRest] payload ;;
    match fs with [FU32 id; FStr p; FU32 pf; FU32 fl; FRaw r] => Ok (POpen id p pf fl (ARaw r)) | _ => Err EOther end
  else if ty =? t_read then
    '(fs, _) <- parse [KU32; KStr; KU64; KU32] payload ;;
    match fs with [FU32 id; FStr h; FU64 off; FU32 len] => Ok (PRead id h off len) | _ => Err EOther end
  else if ty =? t_write then
    '(fs, _) <- parse [KU32; KStr; KU64; KStr] payload ;;
    match fs with [FU32 id; FStr h; FU64 off; FStr d] => Ok (PWrite id h off d) | _ => Err EOther end
  else if (ty =? t_setstat) || (ty =? t_fsetstat) then
    '(fs, _) <- parse [KU32; KStr; KU32; KRest] payload ;;
    match fs with
    | [FU32 id; FStr p; FU32 fl; FRaw r] =>
        Ok (if ty =? t_setstat then PSetstat id p fl (ARaw r) else PFsetstat id p fl (ARaw r))
    | _ => Err EOther end
  else if ty =? t_mkdir then
    '(fs, _) <- parse [KU32; KStr; KU32] payload ;;
    match fs with [FU32 id; FStr p; FU32 fl] => Ok (PMkdir id p fl (ARaw [])) | _ => Err EOther end
  else if (ty =? t_rename) || (ty =? t_symlink) then
    '(fs, _) <- parse [KU32; KStr; KStr] payload ;;
    match fs with
    | [FU32 id; FStr a; FStr b] => Ok (if ty =? t_rename then PRename id a b else PSymlink id a b)
    | _ => Err EOther end
  else if ty =? t_extended then dec_ext_A payload
  else
    let mk : option (N -> bytes -> packet) :=
      if ty =? t_close then Some PClose else if ty =? t_lstat then Some PLstat
      else if ty =? t_fstat then Some PFstat else if ty =? t_opendir then Some POpendir
      else if ty =? t_readdir then Some PReaddir else if ty =? t_remove then Some PRemove
      else if ty =? t_rmdir then Some PRmdir else if ty =? t_realpath then Some PRealpath
      else if ty =? t_stat then Some PStat else if ty =? t_readlink then Some PReadlink
      else None in
    match mk with
    | Some c =>
      '(fs, _) <- parse id_str payload ;;
      match fs with [FU32 id; FStr s] => Ok (c id s) | _ => Err EOther end
    | None => Err EUnhandledType
    end.

(* ---------- decoding, codec B ---------- *)
(* does codec B bound a declared extended-attribute / name count by the bytes that remain before allocating?
   pinned tree: no (finding F3, repaired by the fix: commit in /repo); now yes *)
Definition guardB : bool := true.

(* codec B's InitPacket / VersionPacket.UnmarshalBinary on a frame body (type byte first): the version, then extension pairs
   until the buffer is exhausted - each pair decoded into its own value *)
Definition decB_initversion (body : bytes) : res packet :=
  '(ty, b) <- u8_dec_safe body ;;
  if ty =? t_init then
    '(fs, _) <- parse [KU32; KPairs] b ;;
    match fs with [FU32 v; FPairs e] => Ok (PInit v e) | _ => Err EOther end
  else if ty =? t_version then
    '(fs, _) <- parse [KU32; KPairs] b ;;
    match fs with [FU32 v; FPairs e] => Ok (PVersion v e) | _ => Err EOther end
  else Err EUnhandledType.

(* RequestPacket.UnmarshalFrom on a frame body (type byte first) *)
Definition decB_request (body : bytes) : res packet :=
  '(ty, b) <- u8_dec_safe body ;;
  let known := existsb (N.eqb ty) [t_open; t_close; t_read; t_write; t_lstat; t_fstat; t_setstat; t_fsetstat; t_opendir;
                                   t_readdir; t_remove; t_mkdir; t_rmdir; t_realpath; t_stat; t_rename; t_readlink;
                                   t_symlink; t_extended] in
  if negb known then Err EUnhandledType else
  '(id, b) <- u32_dec_safe b ;;
  if ty =? t_open then
    '(fs, _) <- parse [KStr; KU32; KAttrs guardB] b ;;
    match fs with [FStr p; FU32 pf; FAttrs a] => Ok (POpen id p pf (a_flags a) (AStat a)) | _ => Err EOther end
  else if ty =? t_read then
    '(fs, _) <- parse [KStr; KU64; KU32] b ;;
    match fs with [FStr h; FU64 off; FU32 len] => Ok (PRead id h off len) | _ => Err EOther end
  else if ty =? t_write then
    '(fs, _) <- parse [KStr; KU64; KStr] b ;;
    match fs with [FStr h; FU64 off; FStr d] => Ok (PWrite id h off d) | _ => Err EOther end
  else if (ty =? t_setstat) || (ty =? t_fsetstat) || (ty =? t_mkdir) then
    '(fs, _) <- parse [KStr; KAttrs guardB] b ;;
    match fs with
    | [FStr p; FAttrs a] =>
        Ok (if ty =? t_setstat then PSetstat id p (a_flags a) (AStat a)
            else if ty =? t_fsetstat then PFsetstat id p (a_flags a) (AStat a)
            else PMkdir id p (a_flags a) (AStat a))
    | _ => Err EOther end
  else if (ty =? t_rename) || (ty =? t_symlink) then
    '(fs, _) <- parse [KStr; KStr] b ;;
    match fs with
    | [FStr x; FStr y] => Ok (if ty =? t_rename then PRename id x y else PSymlink id x y)
    | _ => Err EOther end
  else if ty =? t_extended then
    '(fs, _) <- parse [KStr; KRest] b ;;
    match fs with [FStr name; FRaw pl] => Ok (PExtOther id name pl) | _ => Err EOther end
  else
    '(fs, _) <- parse [KStr] b ;;
    match fs with
    | [FStr s] =>
      Ok (if ty =? t_close then PClose id s else if ty =? t_lstat then PLstat id s
          else if ty =? t_fstat then PFstat id s else if ty =? t_opendir then POpendir id s
          else if ty =? t_readdir then PReaddir id s else if ty =? t_remove then PRemove id s
          else if ty =? t_rmdir then PRmdir id s else if ty =? t_realpath then PRealpath id s
          else if ty =? t_stat then PStat id s else PReadlink id s)
    | _ => Err EOther end.

(* response packets: RawPacket header (type, id) then <Type>Packet.UnmarshalPacketBody *)
Definition decB_response (body : bytes) : res packet :=
  '(ty, b) <- u8_dec_safe body ;;
  '(id, b) <- u32_dec_safe b ;;
  if ty =? t_status then
    '(fs, _) <- parse [KU32; KStr; KStr] b ;;
    match fs with [FU32 c; FStr m; FStr l] => Ok (PStatus id c m l) | _ => Err EOther end
  else if ty =? t_handle then
    '(fs, _) <- parse [KStr] b ;; match fs with [FStr h] => Ok (PHandle id h) | _ => Err EOther end
  else if ty =? t_data then
    '(fs, _) <- parse [KStr] b ;; match fs with [FStr d] => Ok (PData id d) | _ => Err EOther end
  else if ty =? t_name then
    '(fs, _) <- parse [KNames guardB] b ;; match fs with [FNames l] => Ok (PName id l) | _ => Err EOther end
  else if ty =? t_attrs then
    '(fs, _) <- parse [KAttrs guardB] b ;; match fs with [FAttrs a] => Ok (PAttrs id a) | _ => Err EOther end
  else if ty =? t_extreply then Ok (PExtReplyOther id b)
  else Err EUnhandledType.

(* declared-count allocation of NamePacket.UnmarshalPacketBody: make([]*NameEntry, 0, count) *)
Definition decB_name_alloc_cells (b : bytes) : N :=
  match u32_dec_safe b with
  | Ok (count, r) => if guardB && (N.of_nat (length r) / 12 <? count) then 0 else count
  | _ => 0 end.

(* ---------- framing ---------- *)
Definition max_msg_length : N := 262144.

Record frame_out := { f_res : res (N * bytes); f_consumed : nat }.

(* recvPacket over a reader holding exactly `input` and then EOF *)
Definition recv_frame (input : bytes) : frame_out :=
  match input with
  | [] => {| f_res := Err EEOF; f_consumed := 0 |}
  | _ =>
    match u32_dec_safe input with
    | Ok (len, rest) =>
      if max_msg_length <? len then {| f_res := Err ELong; f_consumed := 4 |}
      else if len =? 0 then {| f_res := Err EShort; f_consumed := 4 |}
      else if len32 rest <? len then {| f_res := Err EUnexpectedEOF; f_consumed := length input |}
      else match firstn (N.to_nat len) rest with
           | t :: payload => {| f_res := Ok (Byte.to_N t, payload); f_consumed := 4 + N.to_nat len |}
           | [] => {| f_res := Panic; f_consumed := 4 |}     (* unreachable: len >= 1 *)
           end
    | _ => {| f_res := Err EUnexpectedEOF; f_consumed := length input |}
    end
  end.

(* filexfer readPacket(r, b, maxPacketLength) *)
Definition recv_frame_B (maxlen : N) (input : bytes) : frame_out :=
  match input with
  | [] => {| f_res := Err EEOF; f_consumed := 0 |}
  | _ =>
    match u32_dec_safe input with
    | Ok (len, rest) =>
      if len <? 5 then {| f_res := Err EShort; f_consumed := 4 |}
      else if maxlen <? len then {| f_res := Err ELong; f_consumed := 4 |}
      else if len32 rest <? len then
        {| f_res := Err (match rest with [] => EEOF | _ => EUnexpectedEOF end); f_consumed := length input |}
      else match firstn (N.to_nat len) rest with
           | t :: payload => {| f_res := Ok (Byte.to_N t, payload); f_consumed := 4 + N.to_nat len |}
           | [] => {| f_res := Panic; f_consumed := 4 |}
           end
    | _ => {| f_res := Err EUnexpectedEOF; f_consumed := length input |}
    end
  end.

(* ---------- well-formedness (boolean) ---------- *)
Definition wf_pair (p : bytes * bytes) : bool := is_str (fst p) && is_str (snd p).

Definition wf_attrs (a : attrs) : bool :=
  is_u32 (a_flags a) &&
  (if has (a_flags a) fl_size then is_u64 (a_size a) else a_size a =? 0) &&
  (if has (a_flags a) fl_uidgid then is_u32 (a_uid a) && is_u32 (a_gid a) else (a_uid a =? 0) && (a_gid a =? 0)) &&
  (if has (a_flags a) fl_perm then is_u32 (a_perm a) else a_perm a =? 0) &&
  (if has (a_flags a) fl_acmod then is_u32 (a_atime a) && is_u32 (a_mtime a) else (a_atime a =? 0) && (a_mtime a =? 0)) &&
  (if has (a_flags a) fl_ext then (N.of_nat (length (a_ext a)) <? p32) && forallb wf_pair (a_ext a)
   else match a_ext a with [] => true | _ => false end).

Definition wf_nentry (e : nentry) : bool := let '(n, l, a) := e in is_str n && is_str l && wf_attrs a.

Definition wf_fld (f : fld) : bool :=
  match f with
  | FU8 v => is_u8 v | FU32 v => is_u32 v | FU64 v => is_u64 v | FStr s => is_str s | FRaw _ => true
  | FAttrs a => wf_attrs a | FPairs l => forallb wf_pair l
  | FNames l => (N.of_nat (length l) <? p32) && forallb wf_nentry l
  end.

Definition greedy (f : fld) : bool := match f with FRaw _ | FPairs _ => true | _ => false end.

Definition kind_of (guard : bool) (f : fld) : kind :=
  match f with
  | FU8 _ => KU8 | FU32 _ => KU32 | FU64 _ => KU64 | FStr _ => KStr | FRaw _ => KRest
  | FAttrs _ => KAttrs guard | FPairs _ => KPairs | FNames _ => KNames guard
  end.

Definition wf_packet (p : packet) : bool := forallb wf_fld (fieldsA p).

Definition is_request (p : packet) : bool :=
  match p with
  | PVersion _ _ | PStatus _ _ _ _ | PHandle _ _ | PData _ _ | PName _ _ | PAttrs _ _
  | PStatvfsReply _ _ | PExtReplyOther _ _ => false
  | _ => true
  end.

(* what codec A's decoder holds after decoding codec A's own encoding: attribute bodies stay raw bytes,
   MKDIR has no body, fsync is not a name the server decodes *)
Definition rawify (p : packet) : packet :=
  match p with
  | POpen id path pf fl ab => POpen id path pf fl (ARaw (abody_encA fl ab))
  | PSetstat id q fl ab => PSetstat id q fl (ARaw (abody_encA fl ab))
  | PFsetstat id h fl ab => PFsetstat id h fl (ARaw (abody_encA fl ab))
  | PMkdir id q fl _ => PMkdir id q fl (ARaw [])
  | PExtFsync id h => PExtOther id n_fsync (str_enc h)
  | p => p
  end.
