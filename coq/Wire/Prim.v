(* packet.go primitives: marshalUint32/64/String, unmarshal* (panicking) and unmarshal*Safe;
   the same functions serve as the model of filexfer Buffer.Append*/Consume* (sticky error == early exit
   as far as the returned value/error is concerned). *)
From Coq Require Import List NArith Strings.Byte.
From Sftp Require Import Base.GoSem.
Import ListNotations.
Open Scope N_scope.

Definition byte_of_N (n : N) : byte := match Byte.of_N (n mod 256) with Some b => b | None => x00 end.

Definition p32 : N := 4294967296.
Definition p64 : N := 18446744073709551616.

(* marshalUint32: byte(v>>24), byte(v>>16), byte(v>>8), byte(v); the value is a uint32, i.e. taken mod 2^32 *)
Definition u32_enc (v : N) : bytes :=
  let v := v mod p32 in
  [byte_of_N (v / 16777216); byte_of_N (v / 65536); byte_of_N (v / 256); byte_of_N v].

Definition u64_enc (v : N) : bytes :=
  let v := v mod p64 in u32_enc (v / p32) ++ u32_enc v.

Definition u8_enc (v : N) : bytes := [byte_of_N v].

Definition len32 (s : bytes) : N := N.of_nat (length s).

(* marshalString: uint32(len(v)) then the bytes *)
Definition str_enc (s : bytes) : bytes := u32_enc (len32 s) ++ s.

Definition u32_of4 (b0 b1 b2 b3 : byte) : N :=
  Byte.to_N b0 * 16777216 + Byte.to_N b1 * 65536 + Byte.to_N b2 * 256 + Byte.to_N b3.

(* unmarshalUint32: indexes b[3]: panics when len(b) < 4 *)
Definition u32_dec (b : bytes) : res (N * bytes) :=
  match b with
  | b0 :: b1 :: b2 :: b3 :: rest => Ok (u32_of4 b0 b1 b2 b3, rest)
  | _ => Panic
  end.

(* unmarshalUint32Safe *)
Definition u32_dec_safe (b : bytes) : res (N * bytes) :=
  match b with
  | b0 :: b1 :: b2 :: b3 :: rest => Ok (u32_of4 b0 b1 b2 b3, rest)
  | _ => Err EShort
  end.

Definition u64_dec (b : bytes) : res (N * bytes) :=
  '(h, b) <- u32_dec b ;; '(l, b) <- u32_dec b ;; Ok (h * p32 + l, b).

(* unmarshalUint64Safe: len(b) < 8 -> errShortPacket *)
Definition u64_dec_safe (b : bytes) : res (N * bytes) :=
  if Nat.ltb (length b) 8 then Err EShort else u64_dec b.

Definition u8_dec_safe (b : bytes) : res (N * bytes) :=
  match b with x :: rest => Ok (Byte.to_N x, rest) | [] => Err EShort end.

(* unmarshalString: string(b[:n]), b[n:]: panics when n > len(b) *)
Definition str_dec (b : bytes) : res (bytes * bytes) :=
  '(n, b) <- u32_dec b ;;
  if N.ltb (len32 b) n then Panic else Ok (firstn (N.to_nat n) b, skipn (N.to_nat n) b).

(* unmarshalStringSafe *)
Definition str_dec_safe (b : bytes) : res (bytes * bytes) :=
  '(n, b) <- u32_dec_safe b ;;
  if N.ltb (len32 b) n then Err EShort else Ok (firstn (N.to_nat n) b, skipn (N.to_nat n) b).

(* range predicates *)
Definition is_u8 (v : N) : bool := v <? 256.
Definition is_u32 (v : N) : bool := v <? p32.
Definition is_u64 (v : N) : bool := v <? p64.
Definition is_str (s : bytes) : bool := len32 s <? p32.
