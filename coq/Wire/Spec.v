(* The packet layouts of draft-ietf-secsh-filexfer-02 (sections 3-7) and of OpenSSH's PROTOCOL file (sections 3.3-3.6,
   4.1), typed in as field tables independently of the two codec transcriptions in Packets.v.
   No network in this sandbox: the tables are written from knowledge of those documents (named in the trusted base). *)
From Coq Require Import List NArith Strings.Byte.
From Sftp Require Import Base.GoSem Wire.Prim Wire.Packets.
Import ListNotations.
Open Scope N_scope.

(* draft-02 section 5: ATTRS = uint32 flags, then the fields selected by the flags, in this order *)
Definition spec_attrs (a : attrs) : fld := FAttrs a.

Definition spec_layout (p : packet) : option (list fld) :=
  match p with
  (* 4.  SSH_FXP_INIT / SSH_FXP_VERSION: uint32 version, then extension name/data string pairs *)
  | PInit v e => Some [FU32 v; FPairs e]
  | PVersion v e => Some [FU32 v; FPairs e]
  (* 6.3 SSH_FXP_OPEN: uint32 id, string filename, uint32 pflags, ATTRS attrs *)
  | POpen id path pf fl (AStat a) => if a_flags a =? fl then Some [FU32 id; FStr path; FU32 pf; spec_attrs a] else None
  (* 6.3 SSH_FXP_CLOSE: uint32 id, string handle *)
  | PClose id h => Some [FU32 id; FStr h]
  (* 6.4 SSH_FXP_READ: uint32 id, string handle, uint64 offset, uint32 len *)
  | PRead id h off len => Some [FU32 id; FStr h; FU64 off; FU32 len]
  (* 6.4 SSH_FXP_WRITE: uint32 id, string handle, uint64 offset, string data *)
  | PWrite id h off d => Some [FU32 id; FStr h; FU64 off; FStr d]
  (* 6.8 SSH_FXP_STAT / LSTAT: uint32 id, string path;  FSTAT: uint32 id, string handle *)
  | PLstat id q => Some [FU32 id; FStr q]
  | PStat id q => Some [FU32 id; FStr q]
  | PFstat id h => Some [FU32 id; FStr h]
  (* 6.9 SSH_FXP_SETSTAT: id, path, ATTRS;  FSETSTAT: id, handle, ATTRS *)
  | PSetstat id q fl (AStat a) => if a_flags a =? fl then Some [FU32 id; FStr q; spec_attrs a] else None
  | PFsetstat id h fl (AStat a) => if a_flags a =? fl then Some [FU32 id; FStr h; spec_attrs a] else None
  (* 6.7 SSH_FXP_OPENDIR: id, path;  READDIR: id, handle *)
  | POpendir id q => Some [FU32 id; FStr q]
  | PReaddir id h => Some [FU32 id; FStr h]
  (* 6.5 SSH_FXP_REMOVE: id, filename;  RENAME: id, oldpath, newpath *)
  | PRemove id q => Some [FU32 id; FStr q]
  | PRename id o n => Some [FU32 id; FStr o; FStr n]
  (* 6.6 SSH_FXP_MKDIR: id, path, ATTRS;  RMDIR: id, path *)
  | PMkdir id q fl (AStat a) => if a_flags a =? fl then Some [FU32 id; FStr q; spec_attrs a] else None
  | PRmdir id q => Some [FU32 id; FStr q]
  (* 6.10 SSH_FXP_READLINK: id, path.  SSH_FXP_SYMLINK: the draft says linkpath then targetpath; OpenSSH PROTOCOL 4.1
     documents that its implementation sends targetpath first, and that is what deployed peers expect *)
  | PReadlink id q => Some [FU32 id; FStr q]
  | PSymlink id target link => Some [FU32 id; FStr target; FStr link]
  (* 6.11 SSH_FXP_REALPATH: id, path *)
  | PRealpath id q => Some [FU32 id; FStr q]
  (* 8. SSH_FXP_EXTENDED: id, string extended-request, request-specific data.
     PROTOCOL 3.3 posix-rename@openssh.com: oldpath, newpath; 3.4 statvfs@openssh.com: path;
     3.5 hardlink@openssh.com: oldpath, newpath; 3.6 fsync@openssh.com: handle *)
  | PExtStatvfs id q => Some [FU32 id; FStr n_statvfs; FStr q]
  | PExtPosixRename id o n => Some [FU32 id; FStr n_posix_rename; FStr o; FStr n]
  | PExtHardlink id o n => Some [FU32 id; FStr n_hardlink; FStr o; FStr n]
  | PExtFsync id h => Some [FU32 id; FStr n_fsync; FStr h]
  | PExtOther id name pl => Some [FU32 id; FStr name; FRaw pl]
  (* 7. responses: STATUS id, uint32 code, string message, string language; HANDLE id, string; DATA id, string;
     NAME id, uint32 count, count x (filename, longname, ATTRS); ATTRS id, ATTRS *)
  | PStatus id c m l => Some [FU32 id; FU32 c; FStr m; FStr l]
  | PHandle id h => Some [FU32 id; FStr h]
  | PData id d => Some [FU32 id; FStr d]
  | PName id es => Some [FU32 id; FNames es]
  | PAttrs id a => Some [FU32 id; spec_attrs a]
  (* PROTOCOL 3.4: the statvfs reply is SSH_FXP_EXTENDED_REPLY id followed by eleven uint64 *)
  | PStatvfsReply id vs => Some (FU32 id :: map FU64 vs)
  | PExtReplyOther id pl => Some [FU32 id; FRaw pl]
  | _ => None
  end.

(* the bytes the specification prescribes: uint32 length, byte type, fields *)
Definition spec_bytes (p : packet) : option bytes :=
  match spec_layout p with Some fs => Some (frame (u8_enc (ptype p) ++ render fs)) | None => None end.
