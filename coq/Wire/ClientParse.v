(* The client's hand-written reply decoders (client.go, one per call site) and unmarshalStatus (packet.go).
   `safe = false` is the pinned tree: unmarshalUint32 / unmarshalString / data[:l] / pool.Get()[:l] panic on short
   input (finding F8) and an empty DATA reply never ends readChunkAt (F15).  `safe = true` is the repaired tree.
   Precondition everywhere: the receive loop (conn.go recv) only forwards payloads of at least 4 bytes. *)
From Coq Require Import List NArith Bool Strings.Byte.
From Sftp Require Import Base.GoSem Wire.Prim Wire.Packets.
Import ListNotations.
Open Scope N_scope.

Definition client_safe : bool := true.

Definition u32d (safe : bool) (b : bytes) : res (N * bytes) := if safe then u32_dec_safe b else u32_dec b.
Definition strd (safe : bool) (b : bytes) : res (bytes * bytes) := if safe then str_dec_safe b else str_dec b.

(* what a call returns: a value, or an error of some kind (nil error with no value is VOk) *)
Inductive cval :=
| VOk | VHandle (h : bytes) | VAttrs (a : attrs) | VName (s : bytes) | VNames (l : list (bytes * attrs))
| VData (d : bytes) | VStatvfs (raw : bytes).
Inductive cres := CVal (v : cval) | CErr (e : err).

(* normaliseError(unmarshalStatus(id, data)): nil for code 0; EOF / not-exist / permission / the status itself otherwise *)
Definition status_parse (safe : bool) (id : N) (data : bytes) : res cres :=
  '(sid, d) <- u32d safe data ;;
  if negb (sid =? id) then Ok (CErr EIdMismatch) else
  '(code, d) <- u32d safe d ;;
  (* message and language tag are read with the safe variants and errors are ignored *)
  Ok (if code =? 0 then CVal VOk else CErr (EStatus code)).

Definition unimplemented : res cres := Ok (CErr EUnexpectedType).

(* statusError: a status in reply to a request that expects a value; the repaired tree turns an OK status into an
   error, the pinned tree returned (nil value, nil error) *)
Definition status_value (safe : bool) (id : N) (data : bytes) : res cres :=
  match status_parse safe id data with
  | Ok (CVal VOk) => if safe then Ok (CErr EOther) else Ok (CVal VOk)
  | r => r
  end.

(* operations that expect only a status *)
Definition parse_status_only (safe : bool) (id typ : N) (data : bytes) : res cres :=
  if typ =? t_status then status_parse safe id data else unimplemented.

(* open / opendir *)
Definition parse_handle (safe : bool) (id typ : N) (data : bytes) : res cres :=
  if typ =? t_handle then
    '(sid, d) <- u32_dec data ;;
    if negb (sid =? id) then Ok (CErr EIdMismatch) else
    match strd safe d with
    | Ok (h, _) => Ok (CVal (VHandle h))
    | Err e => Ok (CErr e)
    | Panic => Panic
    end
  else if typ =? t_status then status_value safe id data else unimplemented.

(* stat / lstat / fstat *)
Definition parse_attrs (safe : bool) (id typ : N) (data : bytes) : res cres :=
  if typ =? t_attrs then
    '(sid, d) <- u32_dec data ;;
    if negb (sid =? id) then Ok (CErr EIdMismatch) else
    match attrs_dec true d with
    | Ok (a, _) => Ok (CVal (VAttrs a))
    | Err e => Ok (CErr e)
    | Panic => Panic
    end
  else if typ =? t_status then status_value safe id data else unimplemented.

(* readlink / realpath: exactly one name *)
Definition parse_name1 (safe : bool) (id typ : N) (data : bytes) : res cres :=
  if typ =? t_name then
    '(sid, d) <- u32_dec data ;;
    if negb (sid =? id) then Ok (CErr EIdMismatch) else
    match u32d safe d with
    | Ok (count, d) =>
      if negb (count =? 1) then Ok (CErr EOther) else
      match strd safe d with
      | Ok (s, _) => Ok (CVal (VName s))
      | Err e => Ok (CErr e)
      | Panic => Panic
      end
    | Err e => Ok (CErr e)
    | Panic => Panic
    end
  else if typ =? t_status then status_value safe id data else unimplemented.

(* Go's path.Base *)
Definition slash : byte := x2f.
Fixpoint strip_trailing_slashes_rev (r : bytes) : bytes :=
  match r with x :: t => if Byte.eqb x slash then strip_trailing_slashes_rev t else r | [] => [] end.
Fixpoint take_until_slash (r : bytes) : bytes :=
  match r with x :: t => if Byte.eqb x slash then [] else x :: take_until_slash t | [] => [] end.
Definition path_base (p : bytes) : bytes :=
  match p with
  | [] => [x2e]
  | _ =>
    let r := strip_trailing_slashes_rev (rev p) in
    match rev (take_until_slash r) with
    | [] => [slash]
    | b => b
    end
  end.

Definition is_dot (s : bytes) : bool :=
  match s with [x2e] => true | [x2e; x2e] => true | _ => false end.

(* one READDIR batch: count entries, each name, longname (discarded), attributes; "." and ".." dropped, names based *)
Fixpoint readdir_entries (fuel : nat) (safe : bool) (count : N) (d : bytes) : res (cres) :=
  if count =? 0 then Ok (CVal (VNames [])) else
  match fuel with
  | O => Ok (CErr EShort)
  | S f =>
    match strd safe d with
    | Ok (name, d) =>
      match strd safe d with
      | Ok (_, d) =>
        match attrs_dec true d with
        | Ok (a, d) =>
          match readdir_entries f safe (count - 1) d with
          | Ok (CVal (VNames l)) => Ok (CVal (VNames (if is_dot name then l else (path_base name, a) :: l)))
          | r => r
          end
        | Err e => Ok (CErr e)
        | Panic => Panic
        end
      | Err e => Ok (CErr e)
      | Panic => Panic
      end
    | Err e => Ok (CErr e)
    | Panic => Panic
    end
  end.

Definition parse_readdir (safe : bool) (id typ : N) (data : bytes) : res cres :=
  if typ =? t_name then
    '(sid, d) <- u32_dec data ;;
    if negb (sid =? id) then Ok (CErr EIdMismatch) else
    match u32d safe d with
    | Ok (count, d) => readdir_entries (S (length d)) safe count d
    | Err e => Ok (CErr e)
    | Panic => Panic
    end
  else if typ =? t_status then status_parse safe id data else unimplemented.

(* statvfs: binary.Read of id + 11 uint64 (92 bytes); anything shorter is "can not parse reply" *)
Definition parse_statvfs (safe : bool) (id typ : N) (data : bytes) : res cres :=
  if typ =? t_extreply then
    if Nat.ltb (length data) 92 then Ok (CErr EOther) else Ok (CVal (VStatvfs (firstn 92 data)))
  else if typ =? t_status then status_value safe id data else unimplemented.

(* one DATA reply inside readChunkAt / the concurrent read worker / the WriteTo worker:
   want = bytes still wanted (len(b)-n, resp. len(packet.b)), cap = capacity of the pooled buffer (WriteTo only) *)
Definition parse_data (safe : bool) (id typ : N) (data : bytes) (want : nat) (cap : option nat) : res cres :=
  if typ =? t_data then
    '(sid, d) <- u32_dec data ;;
    if negb (sid =? id) then Ok (CErr EIdMismatch) else
    match u32d safe d with
    | Ok (l, d) =>
      if len32 d <? l then (if safe then Ok (CErr EShort) else Panic)         (* data[:l] *)
      else match cap with
           | Some c => if N.of_nat c <? l then (if safe then Ok (CErr EShort) else Panic)   (* pool.Get()[:l] *)
                       else Ok (CVal (VData (firstn (Nat.min want (N.to_nat l)) d)))
           | None => Ok (CVal (VData (firstn (Nat.min want (N.to_nat l)) d)))
           end
    | Err e => Ok (CErr e)
    | Panic => Panic
    end
  else if typ =? t_status then status_parse safe id data else unimplemented.

(* readChunkAt: the refill loop. replies = what the peer answers to the successive READ requests (type, payload with
   the request's id already in place); returns bytes obtained and the final error (None = nil).
   Fuel counts requests; an empty DATA reply makes no progress: the pinned code asks again for ever (fuel runs out),
   the repaired code returns io.ErrNoProgress. *)
Fixpoint read_chunk (fuel : nat) (safe : bool) (id : N) (replies : list (N * bytes)) (want : nat) (acc : bytes)
  : res (bytes * option err) :=
  match want with
  | O => Ok (acc, None)
  | _ =>
    match fuel with
    | O => Err EOutOfFuel
    | S f =>
      match replies with
      | [] => Ok (acc, Some EConnLost)
      | (typ, data) :: rest =>
        match parse_data safe id typ data want None with
        | Ok (CVal (VData d)) =>
            match d with
            | [] => if safe then Ok (acc, Some ENoProgress) else read_chunk f safe id rest want acc
            | _ => read_chunk f safe id rest (want - length d) (acc ++ d)
            end
        | Ok (CVal VOk) => Ok (acc, None)      (* a STATUS OK reply to READ: `return n, nil` (short count, nil error) *)
        | Ok (CVal _) => Ok (acc, Some EOther)
        | Ok (CErr e) => Ok (acc, Some e)
        | Err e => Ok (acc, Some e)
        | Panic => Panic
        end
      end
    end
  end.
