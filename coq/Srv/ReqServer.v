(* The handler-based server as an adapter: which handler entry point a decoded path request reaches, with which method
   name, paths, flags and attributes (request.go requestFromPacket / requestMethod / open / call / filecmd / filestat,
   request-server.go packetWorker). Handle-based requests are in Handles.v. *)
From Coq Require Import List NArith Bool Strings.Byte.
From Sftp Require Import Base.GoSem Wire.Prim Wire.Packets Mode.FileMode Path.Clean Srv.ReadOnly.
Import ListNotations.
Open Scope N_scope.

Inductive entry := EFileread | EFilewrite | EOpenFile | EFilecmd | EFilelist | ELstat | EReadlink | ERealPath
                 | EPosixRename | EStatVFS.
Inductive meth := MGet | MPut | MOpen | MSetstat | MRename | MRmdir | MMkdir | MLink | MSymlink | MRemove
                | MPosixRename | MStatVFS | MList | MStat | MLstat | MReadlink | MNone.

(* the optional handler interfaces *)
Record ifaces := mkIf { i_openfile : bool; i_lstat : bool; i_readlink : bool; i_realpath : bool;
                        i_posixrename : bool; i_statvfs : bool }.

Record call := mkCall { c_entry : entry; c_meth : meth; c_path : bytes; c_target : bytes; c_flags : N; c_attrs : bytes }.

Definition raw_of (ab : abody) : bytes := match ab with ARaw b => b | AStat _ => [] end.

(* None = no handler is invoked for this request (answered by the server itself) *)
Definition dispatch (start : bytes) (ifc : ifaces) (p : packet) : option call :=
  let cw := clean_with_base start in
  match p with
  | POpen _ path pflags fl ab =>
      let rd := has pflags pf_read in
      let wr := has pflags pf_write || has pflags pf_append || has pflags pf_creat || has pflags pf_trunc in
      if wr then
        if rd && i_openfile ifc then Some (mkCall EOpenFile MOpen (cw path) [] pflags (raw_of ab))
        else Some (mkCall EFilewrite MPut (cw path) [] pflags (raw_of ab))
      else if rd then Some (mkCall EFileread MGet (cw path) [] pflags (raw_of ab))
      else None
  | POpendir _ path => Some (mkCall EFilelist MList (cw path) [] 0 [])
  | PSetstat _ path fl ab => Some (mkCall EFilecmd MSetstat (cw path) [] fl (raw_of ab))
  | PRename _ o n => Some (mkCall EFilecmd MRename (cw o) (cw n) 0 [])
  | PSymlink _ target link => Some (mkCall EFilecmd MSymlink target (cw link) 0 [])    (* target text verbatim *)
  | PRemove _ path => Some (mkCall EFilecmd MRemove (cw path) [] 0 [])
  | PRmdir _ path => Some (mkCall EFilecmd MRmdir (cw path) [] 0 [])
  | PMkdir _ path _ _ => Some (mkCall EFilecmd MMkdir (cw path) [] 0 [])
  | PStat _ path => Some (mkCall EFilelist MStat (cw path) [] 0 [])
  | PLstat _ path => if i_lstat ifc then Some (mkCall ELstat MLstat (cw path) [] 0 [])
                     else Some (mkCall EFilelist MStat (cw path) [] 0 [])
  | PReadlink _ path => if i_readlink ifc then Some (mkCall EReadlink MNone (cw path) [] 0 [])   (* Readlink(string): only the cleaned path *)
                        else Some (mkCall EFilelist MReadlink (cw path) [] 0 [])
  | PRealpath _ path => if i_realpath ifc then Some (mkCall ERealPath MNone path [] 0 [])   (* argument verbatim *)
                        else None
  | PExtPosixRename _ o n => if i_posixrename ifc then Some (mkCall EPosixRename MPosixRename (cw o) (cw n) 0 [])
                             else Some (mkCall EFilecmd MRename (cw o) (cw n) 0 [])
  | PExtStatvfs _ path => if i_statvfs ifc then Some (mkCall EStatVFS MStatVFS (cw path) [] 0 []) else None
  | PExtHardlink _ o n => Some (mkCall EFilecmd MLink (cw o) (cw n) 0 [])
  | _ => None
  end.

(* the default REALPATH answer when the handler has no RealPath method *)
Definition realpath_default (start path : bytes) : bytes := clean_with_base start path.

(* the two places where a string is passed through verbatim *)
Definition verbatim_path (c : call) : bool :=
  match c_entry c, c_meth c with
  | EFilecmd, MSymlink => true
  | ERealPath, _ => true
  | _, _ => false
  end.
