(* request.go fileget / fileputget / fileput / filelist / filestat: how the result (n, err) of a handler call becomes the
   response packet. The handler's error is nil, io.EOF, or something else whose status code is given (Err/Status.v decides
   which); n is the count the handler returned. *)
From Coq Require Import List Arith Bool NArith.
Import ListNotations.

Module Reply.

Inductive herr := HNil | HEOF | HErr (code : N).   (* code: the status statusFromError gives that error; never 0 or 1 *)
Inductive reply := RData (n : nat) | RNames (n : nat) | RAttrs | RName1 | RStatus (code : N).

Definition code_of (e : herr) : N := match e with HNil => 0%N | HEOF => 1%N | HErr c => c end.

(* READ on any kind of file handle: an error other than io.EOF is reported; io.EOF only when nothing was read *)
Definition read_reply (n : nat) (e : herr) : reply :=
  match e with
  | HNil => RData n
  | HEOF => if n =? 0 then RStatus 1 else RData n
  | HErr c => RStatus c
  end.

(* WRITE: the status of the handler's error *)
Definition write_reply (e : herr) : reply := RStatus (code_of e).

(* READDIR *)
Definition list_reply (n : nat) (e : herr) : reply :=
  match e with
  | HNil => RNames n
  | HEOF => if n =? 0 then RStatus 1 else RNames n
  | HErr c => RStatus c
  end.

(* STAT / LSTAT / FSTAT through a lister: one entry wanted; none is "no such file" (2) *)
Definition stat_reply (n : nat) (e : herr) : reply :=
  match e with
  | HErr c => RStatus c
  | _ => if n =? 0 then RStatus 2 else RAttrs
  end.

(* READLINK through a lister *)
Definition readlink_reply (n : nat) (e : herr) : reply :=
  match e with
  | HErr c => RStatus c
  | _ => if n =? 0 then RStatus 2 else RName1
  end.

End Reply.
