(* Directory listing: request.go filelist (ListAt at lsNext, lsInc(n), EOF status only when n = 0), the os-backed
   READDIR (Readdir(128)), and the client's READDIR loop (client.go ReadDirContext). *)
From Coq Require Import List Bool Arith Lia Strings.Byte.
From Sftp Require Import Base.GoSem Wire.ClientParse.
Import ListNotations.

(* a ListerAt behaviour: (offset, buffer length) -> (entries returned, io.EOF reported?) *)
Definition lister := nat -> nat -> nat * bool.

(* the ListerAt contract over a directory of L entries with buffers of B: progress while entries remain, never more than
   fit or exist, EOF only at the end (together with the last entries, or alone on the following call) *)
Definition legal (L B : nat) (beh : lister) : Prop :=
  forall off,
    (off < L -> 1 <= fst (beh off B) <= Nat.min B (L - off) /\ (snd (beh off B) = true -> off + fst (beh off B) = L)) /\
    (L <= off -> beh off B = (0, true)).

Inductive dirreply := DNames (es : list bytes) | DEof.

(* one READDIR on the request server: returns the reply and the new lsoffset *)
Definition filelist_step (dir : list bytes) (beh : lister) (B off : nat) : dirreply * nat :=
  let '(n, eof) := beh off B in
  if eof && (n =? 0) then (DEof, off + n) else (DNames (firstn n (skipn off dir)), off + n).

Definition not_dot (s : bytes) : bool := negb (is_dot s).

(* the client's loop: READDIR until a status arrives; EOF ends the listing with a nil error; "." and ".." are dropped.
   Returns the entries, the number of READDIR requests, and whether it ended (false = fuel ran out) *)
Fixpoint client_list (fuel : nat) (dir : list bytes) (beh : lister) (B off : nat) (acc : list bytes) (reqs : nat)
  : list bytes * nat * bool :=
  match fuel with
  | O => (acc, reqs, false)
  | S f =>
    match filelist_step dir beh B off with
    | (DEof, _) => (acc, S reqs, true)
    | (DNames es, off') => client_list f dir beh B off' (acc ++ filter not_dot es) (S reqs)
    end
  end.

(* the parametrised family of listers the correspondence harness scripts: style 0 = EOF together with the last entries,
   style 1 = EOF alone on the following call; k shortens batches pseudo-randomly *)
Definition scripted (L style k : nat) : lister := fun off B =>
  if L <=? off then (0, true) else
  let want := if k =? 0 then B else 1 + ((off * 7 + k) mod B) in
  let n := Nat.min (Nat.min want B) (L - off) in
  (n, (style =? 0) && (off + n =? L)).

(* a paginated backend: at most P entries per call however large the buffer is (a non-final answer shorter than the buffer,
   with a nil error, is within the contract); style as above *)
Definition paged (L P style : nat) : lister := fun off B =>
  if L <=? off then (0, true) else
  let n := Nat.min (Nat.min P B) (L - off) in
  (n, (style =? 0) && (off + n =? L)).
