(* client.go toPflags (os flags of Client.OpenFile -> SSH_FXF_* pflags) next to the server's translation back
   (Srv/ReadOnly.v open_osflags = sshFxpOpenPacket.respond): what os.OpenFile the server ends up calling for a Client.OpenFile. *)
From Coq Require Import List NArith Bool.
From Sftp Require Import Mode.FileMode Srv.ReadOnly.
Import ListNotations.
Open Scope N_scope.

(* os.O_* on Linux not yet named in ReadOnly.v *)
Definition o_append : N := 1024.
Definition o_accmode : N := 3.

Definition toPflags (f : N) : N :=
  let acc := N.land f o_accmode in
  let out := if acc =? 0 then pf_read else if acc =? o_wronly then pf_write else if acc =? o_rdwr then N.lor pf_read pf_write else 0 in
  let out := if N.land f o_append =? o_append then N.lor out pf_append else out in
  let out := if N.land f o_creat =? o_creat then N.lor out pf_creat else out in
  let out := if N.land f o_trunc =? o_trunc then N.lor out pf_trunc else out in
  let out := if N.land f o_excl =? o_excl then N.lor out pf_excl else out in
  out.

(* what arrives at os.OpenFile on the server for Client.OpenFile(path, f): the access mode and CREATE/TRUNC/EXCL of f;
   O_APPEND is sent but deliberately not applied (the client supplies offsets); access mode 3 is refused with EINVAL *)
Definition served_osflags (f : N) : option N :=
  if N.land f o_accmode =? 3 then None
  else Some (N.land f (N.lor o_accmode (N.lor o_creat (N.lor o_trunc o_excl)))).
