(* How Serve ends (request-server.go Serve, server.go Serve): the receive loop hands requests to a channel, N worker
   goroutines take them from it; when the input ends the loop closes the channel, Serve waits on a WaitGroup for the workers
   and only then sweeps the handle table (closes what is still open, cancels the contexts, delivers the transfer errors).
     LRecv          the receive loop puts a request into the channel
     LEnd           the input ended: the channel is closed
     LStart         a worker goroutine that Serve created starts running
     LServe opens   a running worker takes a request and serves it (opens = 1: the request opens a handle)
     LExit          a running worker finds the channel closed and empty: it returns (wg.Done)
     LSweep         wg.Wait() has returned (counter 0, channel closed): Serve sweeps the handle table
   add_before_go = true is the code: wg.Add(1) is called by Serve BEFORE the `go` statement, so the counter already counts
   a worker that has not run yet. false is the variant that calls wg.Add(1) as the goroutine's first statement. *)
From Coq Require Import List Bool Arith.
Import ListNotations.

Module Shutdown.

Record sst := mkSh {
  queue : nat;      (* requests in the channel *)
  recv_open : bool; (* the receive loop is still reading *)
  wg : nat;         (* WaitGroup counter *)
  spawned : nat;    (* worker goroutines created, not yet running *)
  running : nat;
  exited : nat;
  opened : nat;     (* handles opened and not yet closed *)
  swept : bool;
  leaked : nat;     (* handles opened after the sweep: nothing will ever close them *)
  late : nat        (* requests served after the sweep: handler calls after Serve's cleanup *)
}.

Definition sh0 (add_before_go : bool) (n : nat) : sst :=
  mkSh 0 true (if add_before_go then n else 0) n 0 0 0 false 0 0.

Inductive slabel := LRecv | LEnd | LStart | LServe (opens : nat) | LExit | LSweep.

Definition shstep (abg : bool) (s : sst) (l : slabel) : option sst :=
  match l with
  | LRecv => if recv_open s then Some (mkSh (S (queue s)) true (wg s) (spawned s) (running s) (exited s) (opened s) (swept s) (leaked s) (late s)) else None
  | LEnd => if recv_open s then Some (mkSh (queue s) false (wg s) (spawned s) (running s) (exited s) (opened s) (swept s) (leaked s) (late s)) else None
  | LStart =>
      match spawned s with
      | O => None
      | S k => Some (mkSh (queue s) (recv_open s) (if abg then wg s else S (wg s)) k (S (running s)) (exited s) (opened s) (swept s) (leaked s) (late s))
      end
  | LServe o =>
      match running s, queue s with
      | S _, S q =>
          if swept s then Some (mkSh q (recv_open s) (wg s) (spawned s) (running s) (exited s) (opened s) true (leaked s + o) (S (late s)))
          else Some (mkSh q (recv_open s) (wg s) (spawned s) (running s) (exited s) (opened s + o) false (leaked s) (late s))
      | _, _ => None
      end
  | LExit =>
      match running s, queue s, recv_open s with
      | S r, O, false => Some (mkSh 0 false (pred (wg s)) (spawned s) r (S (exited s)) (opened s) (swept s) (leaked s) (late s))
      | _, _, _ => None
      end
  | LSweep =>
      if negb (recv_open s) && (wg s =? 0) && negb (swept s)
      then Some (mkSh (queue s) false 0 (spawned s) (running s) (exited s) 0 true (leaked s) (late s))
      else None
  end.

Fixpoint shrun (abg : bool) (s : sst) (tr : list slabel) : option sst :=
  match tr with [] => Some s | l :: rest => match shstep abg s l with Some s' => shrun abg s' rest | None => None end end.

(* what an observer of a finished Serve sees: (requests served after the cleanup, handles nobody closed) *)
Definition after_return (s : sst) : nat * nat := (late s, leaked s + (if swept s then opened s else 0)).

(* one schedule, for the correspondence: everything is received, the input ends, the workers start, serve, leave; the sweep *)
Definition eager_schedule (n reqs opens : nat) : list slabel :=
  repeat LRecv reqs ++ [LEnd] ++ repeat LStart n ++ repeat (LServe 1) opens ++ repeat (LServe 0) (reqs - opens) ++ repeat LExit n ++ [LSweep].

End Shutdown.
