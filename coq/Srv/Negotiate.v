(* Version and extension negotiation: sftp.go (supportedSFTPExtensions, SetSFTPExtensions), the servers' INIT reply,
   client.go recvVersion / HasExtension / Sync's guard, and the extended-request name switch. *)
From Coq Require Import List NArith Bool Strings.Byte.
From Sftp Require Import Base.GoSem Wire.Prim Wire.Packets.
Import ListNotations.
Open Scope N_scope.

Definition epair := (bytes * bytes)%type.

Definition d1 : bytes := [x31]%byte.  (* "1" *)
Definition d2 : bytes := [x32]%byte.  (* "2" *)

(* sftp.go: supportedSFTPExtensions *)
Definition supported : list epair := [(n_hardlink, d1); (n_posix_rename, d1); (n_statvfs, d2)].

Fixpoint lookup_first (l : list epair) (name : bytes) : option epair :=
  match l with
  | [] => None
  | (n, d) :: t => if bytes_eqb n name then Some (n, d) else lookup_first t name
  end.

(* SetSFTPExtensions: validate every name first, then swap the advertised list; an invalid name changes nothing *)
Fixpoint resolve (names : list bytes) : option (list epair) :=
  match names with
  | [] => Some []
  | n :: t =>
    match lookup_first supported n with
    | None => None
    | Some p => match resolve t with Some l => Some (p :: l) | None => None end
    end
  end.

Definition set_extensions (cur : list epair) (names : list bytes) : list epair * bool :=
  match resolve names with Some l => (l, true) | None => (cur, false) end.

Fixpoint run_set (cur : list epair) (calls : list (list bytes)) : list epair * list bool :=
  match calls with
  | [] => (cur, [])
  | c :: t => let '(cur', ok) := set_extensions cur c in
              let '(fin, oks) := run_set cur' t in (fin, ok :: oks)
  end.

(* the servers' answer to INIT (server.go handlePacket, request-server.go): version 3 and the advertised list *)
Definition version_reply (adv : list epair) : packet := PVersion 3 adv.

(* client.go recvVersion on (type, payload): type must be VERSION, version must be 3, pairs until the payload ends *)
Definition recv_version (typ : N) (data : bytes) : res (list epair) :=
  if negb (typ =? t_version) then Err EUnexpectedType else
  '(v, rest) <- u32_dec_safe data ;;
  if negb (v =? 3) then Err EVersion else
  pairs_all_dec (length rest) rest.

(* the client's map: a later pair with the same name overrides an earlier one *)
Fixpoint has_extension (exts : list epair) (name : bytes) : option bytes :=
  match exts with
  | [] => None
  | (n, d) :: t =>
    match has_extension t name with
    | Some d' => Some d'
    | None => if bytes_eqb n name then Some d else None
    end
  end.

(* File.Sync sends an fsync request only if the server advertised fsync@openssh.com with data "1" *)
Definition sync_sends (exts : list epair) : bool :=
  match has_extension exts n_fsync with Some d => bytes_eqb d d1 | None => false end.

(* the extended-request name switch of the os-backed server: which names reach a respond method *)
Definition served_name (name : bytes) : bool :=
  bytes_eqb name n_statvfs || bytes_eqb name n_posix_rename || bytes_eqb name n_hardlink.

(* the os-backed server's reaction to an extended request with this name: None = served (the answer depends on the
   file system), Some 8 = STATUS operation-unsupported; in both cases the session continues *)
Definition ext_reaction (name : bytes) : option N := if served_name name then None else Some 8.
