(* Handle tables of both servers (server.go nextHandle/closeHandle/getHandle; request-server.go nextRequest/getRequest/
   closeRequest) and the life cycle of the resources behind handles (request.go Request.close / transferError /
   closeListerAt / cancelCtx; the end-of-Serve sweeps). Handles are the decimal strings of a counter: modelled as nat. *)
From Coq Require Import List Bool Arith Lia.
Import ListNotations.

(* per resource (file / reader / writer / lister + its context), identified by the handle number that created it *)
Record rsrc := mkR { r_closed : nat; r_xfer : nat; r_cancelled : nat }.

Record hst := mkH {
  counter : nat;                   (* handleCount *)
  table : list nat;                (* open handles *)
  res : list (nat * rsrc);         (* every resource ever created, by handle number *)
  backend_calls : nat;             (* file / handler-object operations performed *)
  issued : list nat                (* handles sent to the client in HANDLE replies *)
}.

Definition h0 : hst := mkH 0 [] [] 0 [].

Inductive hop :=
| OpenOk            (* open / opendir whose backend call succeeds *)
| OpenFail (made : bool)  (* the backend refuses: the handle number is consumed and dropped; `made` = a resource object
                             had been created for it (request server: the Request and its context) *)
| Use (h : nat)     (* READ / WRITE / READDIR / FSTAT / FSETSTAT naming h *)
| CloseH (h : nat)  (* CLOSE naming h *)
| EndSession.       (* Serve returns: clean close, EOF or broken connection *)

Definition bump (f : rsrc -> rsrc) (h : nat) (l : list (nat * rsrc)) : list (nat * rsrc) :=
  map (fun e => if fst e =? h then (fst e, f (snd e)) else e) l.

Definition close_r (r : rsrc) : rsrc := mkR (S (r_closed r)) (r_xfer r) (S (r_cancelled r)).
Definition sweep_r (r : rsrc) : rsrc := mkR (S (r_closed r)) (S (r_xfer r)) (S (r_cancelled r)).

Definition is_open (s : hst) (h : nat) : bool := existsb (Nat.eqb h) (table s).
Definition remove_h (h : nat) (l : list nat) : list nat := filter (fun x => negb (x =? h)) l.

(* returns the new state and whether the request was answered with a failure status *)
Definition hstep (s : hst) (o : hop) : hst * bool :=
  match o with
  | OpenOk =>
      let h := S (counter s) in
      (mkH h (table s ++ [h]) (res s ++ [(h, mkR 0 0 0)]) (S (backend_calls s)) (issued s ++ [h]), false)
  | OpenFail made =>
      let h := S (counter s) in
      (* nextRequest registers the handle, the handler fails, closeRequest(handle) removes it again and closes the
         (empty) request: its context is cancelled, nothing else exists to close *)
      (mkH h (table s) (if made then res s ++ [(h, mkR 1 0 1)] else res s) (S (backend_calls s)) (issued s), true)
  | Use h =>
      if is_open s h then (mkH (counter s) (table s) (res s) (S (backend_calls s)) (issued s), false)
      else (s, true)                                                   (* EBADF, nothing touched *)
  | CloseH h =>
      if is_open s h then
        (mkH (counter s) (remove_h h (table s)) (bump close_r h (res s)) (backend_calls s) (issued s), false)
      else (s, true)
  | EndSession =>
      (mkH (counter s) [] (fold_left (fun rs h => bump sweep_r h rs) (table s) (res s)) (backend_calls s) (issued s), false)
  end.

Definition hrun (ops : list hop) : hst := fold_left (fun s o => fst (hstep s o)) ops h0.
