(* The read-only gate of the os-backed server (server.go sftpServerWorker) over decoded requests, and which
   requests reach a modifying os call (handlePacket / respond methods).
   ro_fixed = false is the pinned tree (finding F2); true the repaired tree. *)
From Coq Require Import List NArith Bool.
From Sftp Require Import Base.GoSem Wire.Prim Wire.Packets Mode.FileMode.
Import ListNotations.
Open Scope N_scope.

Definition ro_fixed : bool := true.

Definition pf_read : N := 1.  Definition pf_write : N := 2.  Definition pf_append : N := 4.
Definition pf_creat : N := 8.  Definition pf_trunc : N := 16. Definition pf_excl : N := 32.

(* packet-typing.go: the notReadOnly marker methods *)
Definition not_read_only_marker (p : packet) : bool :=
  match p with
  | PWrite _ _ _ _ | PSetstat _ _ _ _ | PFsetstat _ _ _ _ | PRemove _ _ | PMkdir _ _ _ _ | PRmdir _ _
  | PRename _ _ _ | PSymlink _ _ _ => true
  | _ => false
  end.

(* sshFxpOpenPacket.readonly() *)
Definition open_readonly (fixed : bool) (pflags : N) : bool :=
  if fixed then N.land pflags (N.lor pf_write (N.lor pf_creat pf_trunc)) =? 0
  else negb (has pflags pf_write).

(* sshFxpExtendedPacket.readonly(): nil SpecificPacket (unknown name) is read-only; otherwise the inner packet's answer *)
Definition ext_readonly (fixed : bool) (p : packet) : bool :=
  match p with
  | PExtStatvfs _ _ => true
  | PExtPosixRename _ _ _ => false
  | PExtHardlink _ _ _ => negb fixed
  | _ => true
  end.

(* the worker's switch: true = the request is let through on a read-only server *)
Definition gate (fixed : bool) (p : packet) : bool :=
  if not_read_only_marker p then false
  else match p with
       | POpen _ _ pflags _ _ => open_readonly fixed pflags
       | PExtStatvfs _ _ | PExtPosixRename _ _ _ | PExtHardlink _ _ _ | PExtFsync _ _ | PExtOther _ _ _ => ext_readonly fixed p
       | _ => true
       end.

(* os-level operations a request can lead to *)
Inductive osop :=
| OStat | OLstat | OFstat | OReadlink | OAbs | OReaddir | OReadAt | OClose | OStatfs
| OOpenFile (osflags : N) | OWriteAt | OTruncate | OChmod | OChown | OChtimes
| ORemove | OMkdir | ORename | OSymlink | OLink.

(* os.O_* on Linux *)
Definition o_wronly : N := 1. Definition o_rdwr : N := 2. Definition o_creat : N := 64.
Definition o_excl : N := 128. Definition o_trunc : N := 512.

(* sshFxpOpenPacket.respond: translation of pflags to os flags; None = EINVAL before any os call *)
Definition open_osflags (pflags : N) : option N :=
  let acc :=
    if has pflags pf_read && has pflags pf_write then Some o_rdwr
    else if has pflags pf_write then Some o_wronly
    else if has pflags pf_read then Some 0
    else None in
  match acc with
  | None => None
  | Some f =>
    let f := if has pflags pf_creat then N.lor f o_creat else f in
    let f := if has pflags pf_trunc then N.lor f o_trunc else f in
    let f := if has pflags pf_excl then N.lor f o_excl else f in
    Some f
  end.

Definition effects (p : packet) : list osop :=
  match p with
  | PInit _ _ | PVersion _ _ => []
  | POpen _ _ pflags _ _ => match open_osflags pflags with Some f => [OOpenFile f] | None => [] end
  | PClose _ _ => [OClose]
  | PRead _ _ _ _ => [OReadAt]
  | PWrite _ _ _ _ => [OWriteAt]
  | PLstat _ _ => [OLstat]
  | PFstat _ _ => [OFstat]
  | PStat _ _ => [OStat]
  | PSetstat _ _ fl _ | PFsetstat _ _ fl _ =>
      (if has fl fl_size then [OTruncate] else []) ++ (if has fl fl_perm then [OChmod] else []) ++
      (if has fl fl_uidgid then [OChown] else []) ++ (if has fl fl_acmod then [OChtimes] else [])
  | POpendir _ _ => [OStat; OOpenFile 0]
  | PReaddir _ _ => [OReaddir]
  | PRemove _ _ | PRmdir _ _ => [ORemove]
  | PMkdir _ _ _ _ => [OMkdir]
  | PRealpath _ _ => [OAbs]
  | PRename _ _ _ | PExtPosixRename _ _ _ => [ORename]
  | PReadlink _ _ => [OReadlink]
  | PSymlink _ _ _ => [OSymlink]
  | PExtStatvfs _ _ => [OStatfs]
  | PExtHardlink _ _ _ => [OLink]
  | PExtFsync _ _ | PExtOther _ _ _ => []       (* unknown to the server: operation unsupported *)
  | _ => []                                      (* response packets are not requests *)
  end.

(* open(2): O_WRONLY / O_RDWR give write access, O_CREAT may create, O_TRUNC truncates even with O_RDONLY on Linux *)
Definition mutating (o : osop) : bool :=
  match o with
  | OOpenFile f => negb (N.land f (N.lor o_wronly (N.lor o_rdwr (N.lor o_creat o_trunc))) =? 0)
  | OWriteAt | OTruncate | OChmod | OChown | OChtimes | ORemove | OMkdir | ORename | OSymlink | OLink => true
  | _ => false
  end.

Definition may_mutate (p : packet) : bool := existsb mutating (effects p).

(* the worker on a read-only server: either the request goes to handlePacket, or the answer is
   STATUS permission-denied (code 3) and no os call is issued *)
Definition ro_serve (fixed : bool) (p : packet) : (option N) * list osop :=
  if gate fixed p then (None, effects p) else (Some 3, []).

(* purely reading requests *)
Definition reading_request (p : packet) : bool :=
  match p with
  | PClose _ _ | PRead _ _ _ _ | PLstat _ _ | PFstat _ _ | PStat _ _ | POpendir _ _ | PReaddir _ _
  | PRealpath _ _ | PReadlink _ _ | PExtStatvfs _ _ => true
  | POpen _ _ pflags _ _ => (pflags =? pf_read) || (pflags =? N.lor pf_read pf_excl) || (pflags =? N.lor pf_read pf_append)
  | _ => false
  end.
