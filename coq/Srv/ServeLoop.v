(* The receive loops of both servers (server.go Serve, request-server.go serveLoop) over a byte stream:
   recvPacket -> makePacket -> hand the request to the workers, or stop. `fixed = false` is the pinned os-backed server,
   whose `break` left the switch instead of the loop (finding F1): the packet that failed to decode was still dispatched. *)
From Coq Require Import List NArith Bool Strings.Byte.
From Sftp Require Import Base.GoSem Wire.Prim Wire.Packets.
Import ListNotations.
Open Scope N_scope.

Inductive sevent :=
| Dispatched (p : packet)             (* pktChan <- newOrderedRequest(pkt) with a decoded request *)
| DispatchedBad (ty : N) (e : err).   (* pinned tree only: a partially decoded / nil packet reaches the workers *)

Inductive sending :=
| EndEOF                 (* clean end between packets: Serve returns nil *)
| EndRecv (e : err)      (* framing error or EOF inside a packet *)
| EndMalformed (e : err) (* a packet failed to decode: connection closed, loop left *)
| EndFuel.

Definition serve_fixed : bool := true.

Fixpoint serve (fuel : nat) (fixed : bool) (input : bytes) : list sevent * sending :=
  match fuel with
  | O => ([], EndFuel)
  | S f =>
    let fo := recv_frame input in
    match f_res fo with
    | Err EEOF => ([], EndEOF)
    | Err e => ([], EndRecv e)
    | Panic => ([], EndRecv EOther)
    | Ok (ty, payload) =>
      let rest := skipn (f_consumed fo) input in
      match decA ty payload with
      | Ok p => let '(evs, e) := serve f fixed rest in (Dispatched p :: evs, e)
      | Err e => if fixed then ([], EndMalformed e)
                 else ([DispatchedBad ty e], EndMalformed e)   (* conn.Close(); the bad packet is dispatched; the next recv fails *)
      | Panic => ([], EndMalformed EOther)
      end
    end
  end.

Definition dispatched_packets (evs : list sevent) : list packet :=
  flat_map (fun e => match e with Dispatched p => [p] | DispatchedBad _ _ => [] end) evs.
Definition any_bad (evs : list sevent) : bool :=
  existsb (fun e => match e with DispatchedBad _ _ => true | _ => false end) evs.
