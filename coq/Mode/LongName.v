(* ls_formatting.go: runLs - the whole `ls -l` style long name of a NAME entry, column by column:
     fmt.Sprintf("%s %4d %-8s %-8s %8d %s %5s %s", symPerms, numLinks, uid, gid, size, date, yearOrTime, name)
   with date = mtime.Format("Jan 2") and yearOrTime = mtime.Format("2006") when mtime is before now.AddDate(0,-6,0), else
   mtime.Format("15:04").  Times are whole seconds since the epoch in UTC (Z: a handler's FileInfo may carry any time).
   MODELLED: the calendar (package time's absolute-days arithmetic) is modelled by the days <-> civil algorithms below; the
   owner columns are the strings runLs ends up with (numeric ids or looked-up names), taken as bytes (fmt pads by runes:
   the model is exact for ASCII names). *)
From Coq Require Import List NArith ZArith Lia Bool Strings.Byte.
From Sftp Require Import Mode.FileMode.
Import ListNotations.

Definition sp : byte := " "%byte.
Definition is_sp (c : byte) : bool := Byte.eqb c sp.

(* ---- strconv / %d ---- *)
Definition digit (d : N) : byte :=
  match d with
  | 0 => "0" | 1 => "1" | 2 => "2" | 3 => "3" | 4 => "4" | 5 => "5" | 6 => "6" | 7 => "7" | 8 => "8" | _ => "9"
  end%N%byte.

(* fuel = number of bits + 1: never exhausted (dec_value in LongNameP.v says the digits denote n, which excludes it) *)
Fixpoint dec_fuel (fuel : nat) (n : N) (acc : list byte) : list byte :=
  match fuel with
  | O => acc
  | S f => let acc' := digit (n mod 10) :: acc in
           if (n / 10 =? 0)%N then acc' else dec_fuel f (n / 10) acc'
  end.
Definition dec (n : N) : list byte := dec_fuel (S (N.to_nat (N.size n))) n [].

Definition sdec (z : Z) : list byte :=
  match z with
  | Zneg p => "-"%byte :: dec (Npos p)
  | _ => dec (Z.to_N z)
  end.

Definition padl (w : nat) (s : list byte) : list byte := repeat sp (w - length s) ++ s.
Definition padr (w : nat) (s : list byte) : list byte := s ++ repeat sp (w - length s).
Definition padl0 (w : nat) (s : list byte) : list byte := repeat "0"%byte (w - length s) ++ s.

(* ---- the calendar (proleptic Gregorian, days since 1970-01-01) ---- *)
Open Scope Z_scope.

(* day of the 400-year era -> (year of era counted from 1 March, month 1..12, day 1..31) *)
Definition civil_doe (doe : Z) : Z * Z * Z :=
  let yoe := (doe - doe / 1460 + doe / 36524 - doe / 146096) / 365 in
  let doy := doe - (365 * yoe + yoe / 4 - yoe / 100) in
  let mp := (5 * doy + 2) / 153 in
  let d := doy - (153 * mp + 2) / 5 + 1 in
  let m := if mp <? 10 then mp + 3 else mp - 9 in
  (yoe, m, d).

Definition doe_of (yoe m d : Z) : Z :=
  let mp := if 2 <? m then m - 3 else m + 9 in
  let doy := (153 * mp + 2) / 5 + d - 1 in
  yoe * 365 + yoe / 4 - yoe / 100 + doy.

Definition civil_from_days (z : Z) : Z * Z * Z :=
  let z' := z + 719468 in
  let era := z' / 146097 in
  let doe := z' mod 146097 in
  let '(yoe, m, d) := civil_doe doe in
  (yoe + era * 400 + (if m <=? 2 then 1 else 0), m, d).

(* the specification side: counting days from a calendar date (linear in d: days beyond the month's end roll over, which is
   what time.Date's normalisation does) *)
Definition days_from_civil (y m d : Z) : Z :=
  let y' := y - (if m <=? 2 then 1 else 0) in
  let era := y' / 400 in
  let yoe := y' mod 400 in
  era * 146097 + doe_of yoe m d - 719468.

Definition is_leap (y : Z) : bool := ((y mod 4 =? 0) && negb (y mod 100 =? 0)) || (y mod 400 =? 0).
Definition days_in_month (y m : Z) : Z :=
  if m =? 2 then (if is_leap y then 29 else 28)
  else if (m =? 4) || (m =? 6) || (m =? 9) || (m =? 11) then 30 else 31.

Definition month_name (m : Z) : list byte :=
  match m with
  | 1 => ["J";"a";"n"] | 2 => ["F";"e";"b"] | 3 => ["M";"a";"r"] | 4 => ["A";"p";"r"] | 5 => ["M";"a";"y"] | 6 => ["J";"u";"n"]
  | 7 => ["J";"u";"l"] | 8 => ["A";"u";"g"] | 9 => ["S";"e";"p"] | 10 => ["O";"c";"t"] | 11 => ["N";"o";"v"] | _ => ["D";"e";"c"]
  end%byte.

(* mtime.Format("Jan 2") *)
Definition fmt_date (s : Z) : list byte :=
  let '(_, m, d) := civil_from_days (s / 86400) in
  month_name m ++ [sp] ++ dec (Z.to_N d).

(* mtime.Format("15:04") *)
Definition fmt_hhmm (s : Z) : list byte :=
  let sod := s mod 86400 in
  padl0 2 (dec (Z.to_N (sod / 3600))) ++ [":"%byte] ++ padl0 2 (dec (Z.to_N ((sod mod 3600) / 60))).

(* mtime.Format("2006"): four digits, zero padded (years 0..9999; Go writes other years differently - outside the model) *)
Definition fmt_year (s : Z) : list byte :=
  let '(y, _, _) := civil_from_days (s / 86400) in padl0 4 (dec (Z.to_N y)).

(* now.AddDate(0, -6, 0), whole seconds: same day number and clock, month - 6 normalised into the year, days past the end of
   the month rolling over *)
Definition six_months_before (now : Z) : Z :=
  let '(y, m, d) := civil_from_days (now / 86400) in
  let mi := y * 12 + (m - 1) - 6 in
  days_from_civil (mi / 12) (mi mod 12 + 1) d * 86400 + now mod 86400.

(* mtime.Before(now.AddDate(0,-6,0)) for whole-second mtime and now *)
Definition shows_year (mtime now : Z) : bool := mtime <? six_months_before now.

Definition year_or_time (mtime now : Z) : list byte :=
  if shows_year mtime now then fmt_year mtime else fmt_hhmm mtime.

Close Scope Z_scope.

Record lsent := {
  le_mode : N;              (* wire mode word *)
  le_links : N;
  le_uid : list byte;       (* the owner / group columns as runLs has them after the optional lookup *)
  le_gid : list byte;
  le_size : Z;              (* int64 *)
  le_mtime : Z;
  le_name : list byte
}.

Definition run_ls (now : Z) (e : lsent) : list byte :=
  mode_string (le_mode e) ++ [sp] ++ padl 4 (dec (le_links e)) ++ [sp] ++ padr 8 (le_uid e) ++ [sp] ++ padr 8 (le_gid e) ++ [sp]
  ++ padl 8 (sdec (le_size e)) ++ [sp] ++ fmt_date (le_mtime e) ++ [sp] ++ padl 5 (year_or_time (le_mtime e) now) ++ [sp] ++ le_name e.

(* ---- reading a long name back (the spec side of "the long name agrees with the structured attributes") ---- *)
Fixpoint skip_sp (s : list byte) : list byte :=
  match s with c :: r => if is_sp c then skip_sp r else s | [] => [] end.
Fixpoint take_word (s : list byte) : list byte * list byte :=
  match s with
  | c :: r => if is_sp c then ([], s) else let '(w, rest) := take_word r in (c :: w, rest)
  | [] => ([], [])
  end.
(* next column: skip leading blanks, take the word, drop the single separator after it *)
Definition next_col (s : list byte) : list byte * list byte :=
  let '(w, rest) := take_word (skip_sp s) in (w, match rest with _ :: r => r | [] => [] end).

Definition dval (c : byte) : option N :=
  let v := Byte.to_N c in if (48 <=? v)%N && (v <=? 57)%N then Some (v - 48)%N else None.
Fixpoint dec_val_aux (s : list byte) (acc : N) : option N :=
  match s with
  | [] => Some acc
  | c :: r => match dval c with Some v => dec_val_aux r (10 * acc + v)%N | None => None end
  end.
Definition dec_val (s : list byte) : option N := match s with [] => None | _ => dec_val_aux s 0%N end.
Definition sdec_val (s : list byte) : option Z :=
  match s with
  | c :: r => if Byte.eqb c "-"%byte then option_map (fun n => (- Z.of_N n)%Z) (dec_val r) else option_map Z.of_N (dec_val s)
  | [] => None
  end.

Record lsparsed := {
  lp_mode : list byte; lp_links : option N; lp_uid : list byte; lp_gid : list byte; lp_size : option Z;
  lp_month : list byte; lp_day : option N; lp_yt : list byte; lp_name : list byte
}.

Definition parse_ls (s : list byte) : lsparsed :=
  let '(c_mode, s) := next_col s in
  let '(c_links, s) := next_col s in
  let '(c_uid, s) := next_col s in
  let '(c_gid, s) := next_col s in
  let '(c_size, s) := next_col s in
  let '(c_month, s) := next_col s in
  let '(c_day, s) := next_col s in
  let '(c_yt, s) := next_col s in
  {| lp_mode := c_mode; lp_links := dec_val c_links; lp_uid := c_uid; lp_gid := c_gid; lp_size := sdec_val c_size;
     lp_month := c_month; lp_day := dec_val c_day; lp_yt := c_yt; lp_name := s |}.

Definition no_sp (s : list byte) : bool := forallb (fun c => negb (is_sp c)) s.
Definition col_ok (s : list byte) : bool := match s with [] => false | _ => no_sp s end.
