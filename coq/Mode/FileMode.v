(* Model of stat.go (toFileMode, fromFileMode, isRegular), client.go toChmodPerm,
   internal/encoding/ssh/filexfer/permissions.go (FileMode.String) and the flag logic of
   attrs.go fileStatFromInfo / server.go SETSTAT application.
   Words are N; Go's uint32 / os.FileMode (uint32) truncation is explicit where the code truncates. *)
From Coq Require Import List NArith Bool.
From Coq Require Import Strings.Byte.
Import ListNotations.
Open Scope N_scope.

(* ---- wire (POSIX) constants: permissions.go ---- *)
Definition w_perm : N := 511.          (* 0o777 *)
Definition w_setuid : N := 2048.       (* 0o4000 *)
Definition w_setgid : N := 1024.       (* 0o2000 *)
Definition w_sticky : N := 512.        (* 0o1000 *)
Definition w_type : N := 61440.        (* 0xF000 *)
Definition w_fifo : N := 4096.         (* 0x1000 *)
Definition w_chr : N := 8192.          (* 0x2000 *)
Definition w_dir : N := 16384.         (* 0x4000 *)
Definition w_blk : N := 24576.         (* 0x6000 *)
Definition w_reg : N := 32768.         (* 0x8000 *)
Definition w_lnk : N := 40960.         (* 0xA000 *)
Definition w_sock : N := 49152.        (* 0xC000 *)

(* ---- os.FileMode constants (io/fs) ---- *)
Definition o_dir : N := 2147483648.    (* 1<<31 *)
Definition o_symlink : N := 134217728. (* 1<<27 *)
Definition o_device : N := 67108864.   (* 1<<26 *)
Definition o_pipe : N := 33554432.     (* 1<<25 *)
Definition o_socket : N := 16777216.   (* 1<<24 *)
Definition o_setuid : N := 8388608.    (* 1<<23 *)
Definition o_setgid : N := 4194304.    (* 1<<22 *)
Definition o_chardev : N := 2097152.   (* 1<<21 *)
Definition o_sticky : N := 1048576.    (* 1<<20 *)
Definition o_irregular : N := 524288.  (* 1<<19 *)
Definition o_type : N :=
  N.lor o_dir (N.lor o_symlink (N.lor o_pipe (N.lor o_socket (N.lor o_device (N.lor o_chardev o_irregular))))).
Definition o_perm : N := 511.

Definition has (m bit : N) : bool := negb (N.land m bit =? 0).

(* stat.go: isRegular *)
Definition isRegular (mode : N) : bool := N.land mode w_type =? w_reg.

(* stat.go: toFileMode(mode uint32) os.FileMode *)
Definition toFileMode (mode : N) : N :=
  let fm := N.land mode 511 in
  let t := N.land mode w_type in
  let fm :=
    if t =? w_blk then N.lor fm o_device
    else if t =? w_chr then N.lor fm (N.lor o_device o_chardev)
    else if t =? w_dir then N.lor fm o_dir
    else if t =? w_fifo then N.lor fm o_pipe
    else if t =? w_lnk then N.lor fm o_symlink
    else if t =? w_reg then fm
    else if t =? w_sock then N.lor fm o_socket
    else fm in
  let fm := if has mode w_setuid then N.lor fm o_setuid else fm in
  let fm := if has mode w_setgid then N.lor fm o_setgid else fm in
  let fm := if has mode w_sticky then N.lor fm o_sticky else fm in
  fm.

(* stat.go: fromFileMode(mode os.FileMode) uint32 *)
Definition fromFileMode (mode : N) : N :=
  let ret := N.land mode o_perm in
  let t := N.land mode o_type in
  let ret :=
    if t =? N.lor o_device o_chardev then N.lor ret w_chr
    else if t =? o_device then N.lor ret w_blk
    else if t =? o_dir then N.lor ret w_dir
    else if t =? o_pipe then N.lor ret w_fifo
    else if t =? o_symlink then N.lor ret w_lnk
    else if t =? 0 then N.lor ret w_reg
    else if t =? o_socket then N.lor ret w_sock
    else ret in
  let ret := if has mode o_setuid then N.lor ret w_setuid else ret in
  let ret := if has mode o_setgid then N.lor ret w_setgid else ret in
  let ret := if has mode o_sticky then N.lor ret w_sticky else ret in
  ret.

(* client.go: toChmodPerm(m os.FileMode) uint32 *)
Definition toChmodPerm (m : N) : N :=
  let mask := N.lor o_perm (N.lor w_setuid (N.lor w_setgid w_sticky)) in
  let perm := N.land m mask in
  let perm := if has m o_setuid then N.lor perm w_setuid else perm in
  let perm := if has m o_setgid then N.lor perm w_setgid else perm in
  let perm := if has m o_sticky then N.lor perm w_sticky else perm in
  perm.

(* permissions.go: FileMode.String *)
Definition rwx_char (i : nat) : byte :=
  match Nat.modulo i 3 with O => "r"%byte | 1%nat => "w"%byte | _ => "x"%byte end.

Definition perm_chars (m : N) : list byte :=
  map (fun i => if N.testbit m (N.of_nat (8 - i)) then rwx_char i else "-"%byte) (seq 0 9).

Definition subst_at (i : nat) (l : list byte) (f : byte -> byte) : list byte :=
  firstn i l ++ match nth_error l i with Some c => [f c] | None => [] end ++ skipn (S i) l.

Definition is_x (c : byte) : bool := Byte.eqb c "x"%byte.

Definition mode_string (m : N) : list byte :=
  let t := N.land m w_type in
  let c0 : byte :=
    if t =? w_reg then "-"%byte else if t =? w_dir then "d"%byte else if t =? w_lnk then "l"%byte
    else if t =? w_blk then "b"%byte else if t =? w_chr then "c"%byte else if t =? w_fifo then "p"%byte
    else if t =? w_sock then "s"%byte else "?"%byte in
  let buf := c0 :: perm_chars m in
  let buf := if has m w_setuid then subst_at 3 buf (fun c => if is_x c then "s"%byte else "S"%byte) else buf in
  let buf := if has m w_setgid then subst_at 6 buf (fun c => if is_x c then "s"%byte else "S"%byte) else buf in
  let buf := if has m w_sticky then subst_at 9 buf (fun c => if is_x c then "t"%byte else "T"%byte) else buf in
  buf.

(* ---- reading a mode column back (the spec side of "long name agrees with the attributes") ---- *)
Definition type_of_char (c : byte) : option N :=
  if Byte.eqb c "-"%byte then Some w_reg else if Byte.eqb c "d"%byte then Some w_dir
  else if Byte.eqb c "l"%byte then Some w_lnk else if Byte.eqb c "b"%byte then Some w_blk
  else if Byte.eqb c "c"%byte then Some w_chr else if Byte.eqb c "p"%byte then Some w_fifo
  else if Byte.eqb c "s"%byte then Some w_sock else None.

(* a permission character contributes (perm bit set?, special bit set?) *)
Definition perm_of_char (plain special_x special_nox c : byte) : option (bool * bool) :=
  if Byte.eqb c plain then Some (true, false)
  else if Byte.eqb c "-"%byte then Some (false, false)
  else if Byte.eqb c special_x then Some (true, true)
  else if Byte.eqb c special_nox then Some (false, true)
  else None.

Definition b2n (b : bool) (v : N) : N := if b then v else 0.

(* parse "drwxr-sr-T" -> wire word; None on a '?' type or junk *)
Definition parse_mode_string (s : list byte) : option N :=
  match s with
  | [c0; r1; w1; x1; r2; w2; x2; r3; w3; x3] =>
    match type_of_char c0,
          perm_of_char "r"%byte "r"%byte "r"%byte r1, perm_of_char "w"%byte "w"%byte "w"%byte w1, perm_of_char "x"%byte "s"%byte "S"%byte x1,
          perm_of_char "r"%byte "r"%byte "r"%byte r2, perm_of_char "w"%byte "w"%byte "w"%byte w2, perm_of_char "x"%byte "s"%byte "S"%byte x2,
          perm_of_char "r"%byte "r"%byte "r"%byte r3, perm_of_char "w"%byte "w"%byte "w"%byte w3, perm_of_char "x"%byte "t"%byte "T"%byte x3 with
    | Some t, Some (a1,_), Some (a2,_), Some (a3,s1), Some (a4,_), Some (a5,_), Some (a6,s2),
      Some (a7,_), Some (a8,_), Some (a9,s3) =>
        Some (t + b2n a1 256 + b2n a2 128 + b2n a3 64 + b2n a4 32 + b2n a5 16 + b2n a6 8
              + b2n a7 4 + b2n a8 2 + b2n a9 1 + b2n s1 w_setuid + b2n s2 w_setgid + b2n s3 w_sticky)%N
    | _, _, _, _, _, _, _, _, _, _ => None
    end
  | _ => None
  end.

(* ---- domains ---- *)
Definition valid_wire_type (w : N) : bool :=
  let t := N.land w w_type in
  (t =? w_fifo) || (t =? w_chr) || (t =? w_dir) || (t =? w_blk) || (t =? w_reg) || (t =? w_lnk) || (t =? w_sock).

(* the normal form from(to(w)) has for ANY 16-bit word: invalid type nibbles become "regular" *)
Definition wire_normal (w : N) : N :=
  if valid_wire_type w then w else N.lor (N.land w 4095) w_reg.

(* os modes built from one type, nine permission bits and three special bits *)
Definition os_types : list N := [0; o_dir; o_symlink; o_device; N.lor o_device o_chardev; o_pipe; o_socket].
Definition os_mode (ty perm spec : N) : N :=
  N.lor ty (N.lor perm (N.lor (b2n (N.testbit spec 2) o_setuid)
                         (N.lor (b2n (N.testbit spec 1) o_setgid) (b2n (N.testbit spec 0) o_sticky)))).

(* ---- attrs.go: fileStatFromInfo flag logic (Linux: Sys() is *syscall.Stat_t unless the FileInfo is synthetic) ---- *)
Definition fl_size : N := 1.
Definition fl_uidgid : N := 2.
Definition fl_perm : N := 4.
Definition fl_acmod : N := 8.
Definition fl_ext : N := 2147483648.

Definition fileStat_flags (has_stat_t has_uidgid_iface : bool) (n_extended : nat) (has_ext_iface : bool) : N :=
  let f := N.lor fl_size (N.lor fl_perm fl_acmod) in
  let f := if has_stat_t then N.lor f fl_uidgid else f in
  let f := if has_uidgid_iface then N.lor f fl_uidgid else f in
  let f := if has_ext_iface && negb (Nat.eqb n_extended 0) then N.lor f fl_ext else f in
  f.

(* attrs.go fileStatFromInfo: whose uid/gid goes into the attribute block. fileStatFromInfoOs fills them in from a
   *syscall.Stat_t behind Sys(); an entry that implements FileInfoUidGid overrides them with Uid()/Gid(). *)
Definition fileStat_owner (has_stat_t has_uidgid_iface : bool) (stat_ids iface_ids : N * N) : N * N :=
  if has_uidgid_iface then iface_ids else if has_stat_t then stat_ids else (0, 0).

(* ls_formatting.go runLs, for entries whose Sys() is nil or a *syscall.Stat_t (the default branch of its type switch): the
   owner and group columns of the long name *)
Definition ls_owner (has_stat_t has_uidgid_iface : bool) (stat_ids iface_ids : N * N) : N * N :=
  if has_uidgid_iface then iface_ids else if has_stat_t then stat_ids else (0, 0).

(* ---- server.go: SETSTAT / FSETSTAT application: which os operations are issued, in which order ---- *)
Inductive setop := OpTruncate (size : N) | OpChmod (osmode : N) | OpChown (uid gid : N) | OpChtimes (atime mtime : N).

Record fstat := { st_size : N; st_mode : N; st_mtime : N; st_atime : N; st_uid : N; st_gid : N }.

(* the ops attempted when every op succeeds *)
Definition setstat_ops (flags : N) (fs : fstat) : list setop :=
  (if has flags fl_size then [OpTruncate (st_size fs)] else []) ++
  (if has flags fl_perm then [OpChmod (toFileMode (st_mode fs))] else []) ++
  (if has flags fl_uidgid then [OpChown (st_uid fs) (st_gid fs)] else []) ++
  (if has flags fl_acmod then [OpChtimes (st_atime fs) (st_mtime fs)] else []).

(* with failures: stop after the first failing op (fail : position in the issued list -> bool) *)
Fixpoint run_until_fail (ops : list setop) (fails : setop -> bool) : list setop * bool :=
  match ops with
  | [] => ([], true)
  | o :: rest => if fails o then ([o], false)
                 else let '(done, ok) := run_until_fail rest fails in (o :: done, ok)
  end.
