(* Extraction of the executable model for the correspondence driver. ExtrOcamlBasic only:
   bool, option, unit, list, prod, sumbool map to OCaml's; N, Z, positive, nat, byte stay inductives. *)
Require Extraction.
Require Import ExtrOcamlBasic.
From Coq Require Import Strings.Byte.
From Sftp Require Import Base.GoSem Mode.FileMode Mode.LongName Wire.Prim Wire.Packets Wire.ClientParse Srv.ReadOnly Srv.OpenFlags Srv.Negotiate Xfer.Transfer Xfer.FileOps Xfer.FileLock Xfer.OffsetLock Path.Clean Fs.Tree Proofs.TreeP Err.Status Srv.ReqServer Srv.Reply Srv.Shutdown Srv.Listing Lin.Linearize Srv.ServeLoop Srv.Handles Sched.PktMgr Sched.PktTrace Conn.WireMutex Conn.IdWrap Conn.ClientConn Conn.ConnTrace Sched.Alloc Sched.AllocTrace.
Extraction Language OCaml.
Extraction "model.ml"
  Byte.of_bits Byte.to_bits
  toFileMode fromFileMode toChmodPerm isRegular mode_string parse_mode_string wire_normal valid_wire_type
  os_mode fileStat_flags fileStat_owner ls_owner setstat_ops run_until_fail
  encA encB decA decB_request decB_initversion decB_response recv_frame recv_frame_B attrs_dec attrs_alloc_cells decB_name_alloc_cells guardB
  rawify wf_packet ptype
  client_safe parse_status_only parse_handle parse_attrs parse_name1 parse_readdir parse_statvfs parse_data read_chunk path_base
  gate ro_fixed may_mutate effects reading_request
  supported run_set recv_version has_extension ext_reaction sync_sends version_reply
  readAt writeTo writeToS writeAt readFromSeq readFromConc readFromConcArg readFrom_uses_conc readfrom_fixed writeto_fixed seek pattern chunks
  clean clean_with_base clean_path to_local_path status_code perm_fixed normalise dispatch realpath_default
  client_list scripted paged filelist_step
  lin_check serve serve_fixed hstep h0
  toPflags served_osflags frun accept_raw quiescent emitted arrived caccept_trace areplay_trace all_used available scan ids_from
  FsTree.c_remove FsTree.c_mkdirall FsTree.c_removeall FsTree.spec_mkdirall FsTree.spec_removeall Reply.read_reply Reply.write_reply Reply.list_reply Reply.stat_reply Reply.readlink_reply Shutdown.shrun Shutdown.sh0 Shutdown.eager_schedule Shutdown.after_return OffsetLock.layout_ok FileLock.wire_scan FsTree.p_remove FsTree.p_rmdir FsTree.p_mkdir FsTree.lstat FsTree.stat FsTreeP.cnt
  FsTree.p_rename FsTree.p_link FsTree.p_symlink FsTree.children FsTree.c_walk FsTree.spec_walk FsTree.c_glob FsTree.spec_glob FsTree.p_open
  run_ls parse_ls six_months_before shows_year civil_from_days days_from_civil.
