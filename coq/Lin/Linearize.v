(* Linearizability of single-packet operations on one file of fixed size (C15).
   A history is a list of completed operations with the logical times of their call and return (a global counter) and
   their observed results. The sequential specification is a plain file. A witness is an order of the operations; the
   validator checks exactly the definition: the order is a permutation of the history, never puts an operation before one
   that had returned before it was called, and replaying it on a plain file yields the observed results. *)
From Coq Require Import List NArith Bool Arith Lia Permutation Strings.Byte.
From Sftp Require Import Base.GoSem.
Import ListNotations.

Inductive opk :=
| ORead (off len : nat) (got : bytes)       (* ReadAt within the extent: the bytes it returned *)
| OWrite (off : nat) (data : bytes)         (* WriteAt within the extent *)
| OSize (got : nat).                        (* Stat / Fstat: the size it reported *)

Record op := mkOp { o_id : nat; o_call : nat; o_ret : nat; o_kind : opk }.

Definition bytes_eqb (a b : bytes) : bool :=
  (Nat.eqb (length a) (length b)) && forallb (fun '(x, y) => Byte.eqb x y) (combine a b).

Definition overwrite (f : bytes) (off : nat) (d : bytes) : bytes :=
  firstn off f ++ d ++ skipn (off + length d) f.

(* one step of the sequential specification: the new file, and whether the observed result is the specified one *)
Definition seq_step (f : bytes) (k : opk) : bytes * bool :=
  match k with
  | ORead off len got => (f, bytes_eqb got (firstn len (skipn off f)))
  | OWrite off d => (overwrite f off d, true)
  | OSize got => (f, Nat.eqb got (length f))
  end.

Fixpoint legal_seq (f : bytes) (order : list op) : bool :=
  match order with
  | [] => true
  | o :: rest => let '(f', ok) := seq_step f (o_kind o) in ok && legal_seq f' rest
  end.

(* real-time order: if a returned before b was called, a must come first; checked pairwise along the order *)
Fixpoint respects_rt (order : list op) : bool :=
  match order with
  | [] => true
  | a :: rest => forallb (fun b => negb (o_ret b <? o_call a)) rest && respects_rt rest
  end.

Fixpoint remove_id (i : nat) (l : list op) : option (list op) :=
  match l with
  | [] => None
  | o :: t => if o_id o =? i then Some t else match remove_id i t with Some t' => Some (o :: t') | None => None end
  end.

(* is `order` a rearrangement of `h` (matching by operation id, then comparing the operations)? *)
Definition op_eqb (a b : op) : bool :=
  (o_id a =? o_id b) && (o_call a =? o_call b) && (o_ret a =? o_ret b) &&
  match o_kind a, o_kind b with
  | ORead o1 l1 g1, ORead o2 l2 g2 => (o1 =? o2) && (l1 =? l2) && bytes_eqb g1 g2
  | OWrite o1 d1, OWrite o2 d2 => (o1 =? o2) && bytes_eqb d1 d2
  | OSize g1, OSize g2 => g1 =? g2
  | _, _ => false
  end.

Fixpoint is_rearrangement (h order : list op) : bool :=
  match order with
  | [] => match h with [] => true | _ => false end
  | o :: rest =>
    match find (fun x => o_id x =? o_id o) h with
    | Some x => op_eqb x o && match remove_id (o_id o) h with Some h' => is_rearrangement h' rest | None => false end
    | None => false
    end
  end.

Definition valid_witness (f0 : bytes) (h order : list op) : bool :=
  is_rearrangement h order && respects_rt order && legal_seq f0 order.

Definition linearizable (f0 : bytes) (h : list op) : Prop := exists order, valid_witness f0 h order = true.

(* ---------- search: depth-first over the operations that may come next ---------- *)
(* an operation may come next if no other remaining operation returned before it was called *)
Definition minimal (o : op) (remaining : list op) : bool :=
  forallb (fun b => (o_id b =? o_id o) || negb (o_ret b <? o_call o)) remaining.

Fixpoint search (fuel : nat) (f : bytes) (remaining : list op) : option (list op) :=
  match remaining with
  | [] => Some []
  | _ =>
    match fuel with
    | O => None
    | S fu =>
      (fix try (cands : list op) : option (list op) :=
         match cands with
         | [] => None
         | o :: more =>
           if minimal o remaining then
             let '(f', ok) := seq_step f (o_kind o) in
             if ok then
               match remove_id (o_id o) remaining with
               | Some rem' => match search fu f' rem' with
                              | Some rest => Some (o :: rest)
                              | None => try more
                              end
               | None => try more
               end
             else try more
           else try more
         end) remaining
    end
  end.

(* the decision used on observed histories: search for an order, then VALIDATE it against the definition *)
Definition lin_check (f0 : bytes) (h : list op) : bool :=
  match search (S (length h)) f0 h with
  | Some order => valid_witness f0 h order
  | None => false
  end.
