(* C15, composition: the whole path of a single-packet operation - caller, client multiplexer, wire, server receive loop,
   packet manager, worker, backing store, and back - abstracted to three atomic steps per operation:
     Call   the caller starts the operation (logical time = a global clock),
     Store  the worker applies it to the backing store (the store's own ReadAt/WriteAt/Stat are atomic: the property's
            proviso) and the result is fixed,
     Ret    the caller gets exactly that result back.
   That every operation has exactly one Store step between its Call and its Ret and gets its OWN result back is what C03
   (own reply), C02 (one response per request, with its id), C14 and C18 (responses unchanged by the allocator) establish
   for the layers in between; this file states the system those theorems justify, and Proofs/ComposeP.v proves that every
   history it can produce is linearizable, the linearization being the order of the Store steps. *)
From Coq Require Import List NArith Bool Arith Lia Strings.Byte.
From Sftp Require Import Base.GoSem Lin.Linearize.
Import ListNotations.

Inductive req := RRead (off len : nat) | RWrite (off : nat) (d : bytes) | RSize.

Record sys := mkSys {
  clock : nat;
  store : bytes;
  pend : list (nat * (nat * req));           (* id -> call time, request: called, not yet applied *)
  slog : list (nat * (nat * nat * opk));      (* id -> call time, store time, result: in the order of the Store steps *)
  rets : list (nat * nat)                     (* id -> return time: in the order of the Ret steps *)
}.

Definition sys0 (f0 : bytes) : sys := mkSys 0 f0 [] [] [].

Inductive slabel := LCall (id : nat) (r : req) | LStore (id : nat) | LRet (id : nat).

Fixpoint assoc {A} (k : nat) (l : list (nat * A)) : option A :=
  match l with [] => None | (k', v) :: t => if k' =? k then Some v else assoc k t end.
Definition has_key {A} (k : nat) (l : list (nat * A)) : bool := existsb (fun e => fst e =? k) l.
Definition del_key {A} (k : nat) (l : list (nat * A)) : list (nat * A) := filter (fun e => negb (fst e =? k)) l.

Definition apply (f : bytes) (r : req) : bytes * opk :=
  match r with
  | RRead off len => (f, ORead off len (firstn len (skipn off f)))
  | RWrite off d => (overwrite f off d, OWrite off d)
  | RSize => (f, OSize (length f))
  end.

Definition sstep (s : sys) (l : slabel) : option sys :=
  match l with
  | LCall id r =>
      if has_key id (pend s) || has_key id (slog s) then None
      else Some (mkSys (S (clock s)) (store s) (pend s ++ [(id, (clock s, r))]) (slog s) (rets s))
  | LStore id =>
      match assoc id (pend s) with
      | Some (ct, r) =>
          let '(f', res) := apply (store s) r in
          Some (mkSys (S (clock s)) f' (del_key id (pend s)) (slog s ++ [(id, (ct, clock s, res))]) (rets s))
      | None => None
      end
  | LRet id =>
      if has_key id (slog s) && negb (has_key id (rets s)) then
        Some (mkSys (S (clock s)) (store s) (pend s) (slog s) (rets s ++ [(id, clock s)]))
      else None
  end.

Fixpoint srun (s : sys) (tr : list slabel) : option sys :=
  match tr with [] => Some s | l :: rest => match sstep s l with Some s' => srun s' rest | None => None end end.

(* every operation that was called has returned *)
Definition all_returned (s : sys) : bool :=
  match pend s with [] => length (rets s) =? length (slog s) | _ => false end.

(* the completed operation with this id, as the caller saw it *)
Definition op_of (s : sys) (id : nat) : op :=
  match assoc id (slog s), assoc id (rets s) with
  | Some (ct, _, res), Some rt => mkOp id ct rt res
  | Some (ct, _, res), None => mkOp id ct 0 res
  | None, _ => mkOp id 0 0 (OSize 0)
  end.

(* the history in the order in which the callers got their results, and the same operations in the order of the Store steps *)
Definition history (s : sys) : list op := map (op_of s) (map fst (rets s)).
Definition store_order (s : sys) : list op := map (op_of s) (map fst (slog s)).
