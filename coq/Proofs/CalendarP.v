(* The calendar of Mode/LongName.v: days <-> civil dates (never imported by a model file). *)
From Coq Require Import List NArith ZArith Lia Bool Strings.Byte ZifyBool ZifyN ZifyNat.
From Sftp Require Import Base.Bits Mode.FileMode Mode.LongName.
Import ListNotations.
Ltac Zify.zify_post_hook ::= Z.div_mod_to_equations.

(* ================= the calendar ================= *)
Open Scope Z_scope.

Definition doe_ok (w : N) : bool :=
  let doe := Z.of_N w in
  if doe <? 146097 then
    let '(yoe, m, d) := civil_doe doe in
    (0 <=? yoe) && (yoe <? 400) && (1 <=? m) && (m <=? 12) && (1 <=? d) && (d <=? 31) && (doe_of yoe m d =? doe)
  else true.

Lemma doe_sweep : forallb doe_ok (bits 18) = true.
Proof. vm_compute. reflexivity. Qed.

Lemma doe_fact : forall doe, 0 <= doe < 146097 ->
  let '(yoe, m, d) := civil_doe doe in
  0 <= yoe < 400 /\ 1 <= m <= 12 /\ 1 <= d <= 31/\ doe_of yoe m d = doe.
Proof.
  intros doe Hd.
  pose proof (forallb_bits doe_ok 18 doe_sweep (Z.to_N doe)) as H.
  assert (Hlt : (Z.to_N doe < 2 ^ N.of_nat 18)%N) by (change (2 ^ N.of_nat 18)%N with 262144%N; lia).
  specialize (H Hlt). unfold doe_ok in H. rewrite Z2N.id in H by lia.
  destruct (doe <? 146097) eqn:E; [|lia].
  destruct (civil_doe doe) as [[yoe m] d]. lia.
Qed.

(* for every day number, without bound: counting the days of the date the algorithm names gives the day number back *)
Theorem civil_roundtrip : forall z,
  let '(y, m, d) := civil_from_days z in
  days_from_civil y m d = z /\ 1 <= m <= 12 /\ 1 <= d <= 31.
Proof.
  intros z. unfold civil_from_days.
  set (z' := z + 719468).
  assert (Hm : 0 <= z' mod 146097 < 146097) by (apply Z.mod_pos_bound; lia).
  pose proof (doe_fact (z' mod 146097) Hm) as H.
  destruct (civil_doe (z' mod 146097)) as [[yoe m] d].
  destruct H as (Hy & Hmm & Hd & Hdoe).
  split; [|split; assumption].
  unfold days_from_civil.
  set (c := if m <=? 2 then 1 else 0).
  replace (yoe + z' / 146097 * 400 + c - c) with (yoe + z' / 146097 * 400) by lia.
  assert (Hq : (yoe + z' / 146097 * 400) / 400 = z' / 146097).
  { symmetry. apply Z.div_unique with (r := yoe); lia. }
  assert (Hr : (yoe + z' / 146097 * 400) mod 400 = yoe).
  { symmetry. apply Z.mod_unique with (q := z' / 146097); lia. }
  rewrite Hq, Hr, Hdoe.
  pose proof (Z.div_mod z' 146097). subst z'. lia.
Qed.

(* over the days the wire can carry (32-bit seconds: below 2^16 days) the date is a real calendar date *)
Definition day_valid (w : N) : bool :=
  let '(y, m, d) := civil_from_days (Z.of_N w) in
  (1970 <=? y) && (y <? 2150) && (1 <=? m) && (m <=? 12) && (1 <=? d) && (d <=? days_in_month y m).
Lemma day_sweep : forallb day_valid (bits 16) = true.
Proof. vm_compute. reflexivity. Qed.

Theorem civil_valid_wire : forall s, 0 <= s < 2 ^ 32 ->
  let '(y, m, d) := civil_from_days (s / 86400) in
  1970 <= y < 2150 /\ 1 <= m <= 12 /\ 1 <= d <= days_in_month y m.
Proof.
  intros s Hs.
  assert (Hd : 0 <= s / 86400 < 65536).
  { change (2 ^ 32) with 4294967296 in Hs. lia. }
  pose proof (forallb_bits day_valid 16 day_sweep (Z.to_N (s / 86400))) as H.
  assert (Hlt : (Z.to_N (s / 86400) < 2 ^ N.of_nat 16)%N) by (change (2 ^ N.of_nat 16)%N with 65536%N; lia).
  specialize (H Hlt). unfold day_valid in H. rewrite Z2N.id in H by lia.
  destruct (civil_from_days (s / 86400)) as [[y m] d]. lia.
Qed.

(* the clock columns denote the second of the day, to the minute *)
Theorem clock_exact : forall s,
  let sod := s mod 86400 in
  let hh := sod / 3600 in let mm := (sod mod 3600) / 60 in
  0 <= hh < 24 /\ 0 <= mm < 60 /\ (s / 86400) * 86400 + hh * 3600 + mm * 60 + s mod 60 = s.
Proof. intros s. cbv zeta. lia. Qed.
Close Scope Z_scope.

