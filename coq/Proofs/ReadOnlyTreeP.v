(* The read-only server on the name-space model: an OPEN that the model of the os classifies as not mutating (Srv/ReadOnly.v
   `mutating`) leaves the tree of Fs/Tree.v as it was. Ties the "modelled os fact" of C09 to the tree model of C05, which is
   itself tied to package os on every run. *)
From Coq Require Import List NArith Bool Lia.
From Sftp Require Import Mode.FileMode Srv.ReadOnly Fs.Tree Proofs.TreeP Proofs.TreeRenameP.
Import ListNotations.
Import FsTree FsTreeP.

Definition creat_of (f : N) : bool := has f o_creat.
Definition excl_of (f : N) : bool := has f o_excl.
Definition wr_of (f : N) : bool := has f o_wronly || has f o_rdwr || has f o_trunc.

Lemma land_lor_zero : forall f a b, N.land f (N.lor a b) = 0%N -> N.land f a = 0%N /\ N.land f b = 0%N.
Proof. intros f a b H. rewrite N.land_lor_distr_r in H. apply N.lor_eq_0_iff in H. exact H. Qed.

Lemma nonmutating_open_flags : forall f, mutating (OOpenFile f) = false -> creat_of f = false /\ wr_of f = false.
Proof.
  intros f H. cbn [mutating] in H. apply negb_false_iff in H. apply N.eqb_eq in H.
  apply land_lor_zero in H. destruct H as [Hw H]. apply land_lor_zero in H. destruct H as [Hr H].
  apply land_lor_zero in H. destruct H as [Hc Ht].
  unfold creat_of, wr_of, has. rewrite Hw, Hr, Hc, Ht. split; reflexivity.
Qed.

Theorem nonmutating_open_keeps_tree : forall f t p c t', wf t -> mutating (OOpenFile f) = false ->
  p_open (creat_of f) (excl_of f) (wr_of f) t p = Some (c, t') -> t' = t.
Proof.
  intros f t p c t' Hwf Hm H. destruct (nonmutating_open_flags f Hm) as [Hc _].
  destruct (open_effect _ _ _ t p c t' Hwf H) as (_ & _ & [E | (_ & Hcr & _)]); [exact E | congruence].
Qed.

(* and the other way round: a flag word the classification calls mutating CAN change the tree (O_CREATE on a free name) -
   the classification is not vacuous on the tree model *)
Theorem mutating_open_can_change : exists f t p t',
  mutating (OOpenFile f) = true /\ wf t /\ p_open (creat_of f) (excl_of f) (wr_of f) t p = Some (TOk, t') /\ t' <> t.
Proof.
  exists 64%N, [], [1%nat], [([1%nat], KFile)]. split; [reflexivity|]. split; [apply wf_empty|]. split; [reflexivity | discriminate].
Qed.
