From Coq Require Import List Bool Arith Lia.
From Sftp Require Import Srv.Handles.
Import ListNotations.

Definition hinv (s : hst) : Prop :=
  NoDup (table s) /\ Forall (fun h => 1 <= h <= counter s) (table s) /\
  NoDup (map fst (res s)) /\ Forall (fun e => 1 <= fst e <= counter s) (res s) /\
  NoDup (issued s) /\ Forall (fun h => 1 <= h <= counter s) (issued s) /\
  (* an open handle's resource is untouched; a closed one has been closed exactly once, without transfer error *)
  Forall (fun e => if existsb (Nat.eqb (fst e)) (table s)
                   then snd e = mkR 0 0 0
                   else r_closed (snd e) = 1 /\ r_cancelled (snd e) = 1 /\ r_xfer (snd e) = 0) (res s) /\
  Forall (fun h => In h (map fst (res s))) (table s).

Lemma in_remove_h : forall h x l, In x (remove_h h l) <-> In x l /\ x <> h.
Proof.
  intros h x l. unfold remove_h. rewrite filter_In. split; intros [H1 H2]; split; try assumption.
  - apply negb_true_iff in H2. apply Nat.eqb_neq in H2. exact H2.
  - apply negb_true_iff. apply Nat.eqb_neq. exact H2.
Qed.

Lemma existsb_eqb_in : forall h l, existsb (Nat.eqb h) l = true <-> In h l.
Proof.
  intros h l. rewrite existsb_exists. split.
  - intros [x [Hx E]]. apply Nat.eqb_eq in E. subst. exact Hx.
  - intros H. exists h. split; [exact H | apply Nat.eqb_refl].
Qed.

Lemma map_fst_bump : forall f h l, map fst (bump f h l) = map fst l.
Proof. intros f h l. unfold bump. rewrite map_map. apply map_ext. intros [a b]. cbn [fst]. destruct (a =? h); reflexivity. Qed.

Lemma nodup_snoc' {A} : forall (l : list A) x, NoDup l -> ~ In x l -> NoDup (l ++ [x]).
Proof.
  induction l as [|y t IH]; intros x Hnd Hni; cbn [app]; [constructor; [intros []|constructor]|].
  inversion Hnd as [|? ? Hy Ht]; subst. constructor.
  - intros Hin. apply in_app_or in Hin. destruct Hin as [Hin|[<-|[]]]; [apply Hy; exact Hin | apply Hni; left; reflexivity].
  - apply IH; [exact Ht | intros H; apply Hni; right; exact H].
Qed.

Lemma hinv_step_nonend : forall s o, hinv s -> o <> EndSession -> hinv (fst (hstep s o)).
Proof.
  intros s o [Ht [Htb [Hr [Hrb [Hi [Hib [Hres Hsub]]]]]]] Hne.
  assert (Hfresh : forall l, Forall (fun h => 1 <= h <= counter s) l -> ~ In (S (counter s)) l).
  { intros l Hl Hin. rewrite Forall_forall in Hl. specialize (Hl _ Hin). lia. }
  assert (Hfresh2 : ~ In (S (counter s)) (map fst (res s))).
  { intros Hin. apply in_map_iff in Hin. destruct Hin as [e [He Hin]]. rewrite Forall_forall in Hrb. specialize (Hrb e Hin). lia. }
  assert (Hwk : forall l, Forall (fun h => 1 <= h <= counter s) l -> Forall (fun h => 1 <= h <= S (counter s)) l)
    by (intros l Hl; eapply Forall_impl; [|exact Hl]; cbn beta; intros; lia).
  assert (Hwk2 : Forall (fun e => 1 <= fst e <= S (counter s)) (res s))
    by (eapply Forall_impl; [|exact Hrb]; cbn beta; intros; lia).
  destruct o as [|made|h|h|]; cbn [hstep fst]; try congruence.
  - (* OpenOk *) unfold hinv. cbn [table counter res issued].
    repeat split.
    + apply nodup_snoc'; [exact Ht | apply Hfresh; exact Htb].
    + apply Forall_app. split; [apply Hwk; exact Htb | constructor; [lia | constructor]].
    + rewrite map_app. cbn [map fst]. apply nodup_snoc'; assumption.
    + apply Forall_app. split; [exact Hwk2 | constructor; [cbn [fst]; lia | constructor]].
    + apply nodup_snoc'; [exact Hi | apply Hfresh; exact Hib].
    + apply Forall_app. split; [apply Hwk; exact Hib | constructor; [lia | constructor]].
    + apply Forall_app. split.
      * rewrite Forall_forall in *. intros e He. specialize (Hres e He). rewrite existsb_app. cbn [existsb orb].
        assert (Hn : fst e =? S (counter s) = false) by (apply Nat.eqb_neq; specialize (Hrb e He); lia).
        rewrite Hn, orb_false_r. exact Hres.
      * constructor; [|constructor]. cbn [fst snd]. rewrite existsb_app. cbn [existsb]. rewrite Nat.eqb_refl. rewrite orb_true_r. reflexivity.
    + apply Forall_app. split.
      * eapply Forall_impl; [|exact Hsub]. cbn beta. intros a Ha. rewrite map_app. apply in_or_app. left. exact Ha.
      * constructor; [|constructor]. rewrite map_app. apply in_or_app. right. left. reflexivity.
  - (* OpenFail *) unfold hinv. cbn [table counter res issued]. destruct made.
    + repeat split; try assumption; try (apply Hwk; assumption).
      * rewrite map_app. cbn [map fst]. apply nodup_snoc'; assumption.
      * apply Forall_app. split; [exact Hwk2 | constructor; [cbn [fst]; lia | constructor]].
      * apply Forall_app. split; [exact Hres|]. constructor; [|constructor]. cbn [fst snd].
        replace (existsb (Nat.eqb (S (counter s))) (table s)) with false.
        2:{ symmetry. apply not_true_iff_false. intros H. apply existsb_eqb_in in H. apply (Hfresh _ Htb H). }
        cbn. repeat split; lia.
      * eapply Forall_impl; [|exact Hsub]. cbn beta. intros a Ha. rewrite map_app. apply in_or_app. left. exact Ha.
    + repeat split; try assumption; try (apply Hwk; assumption).
  - (* Use *) destruct (is_open s h); cbn [fst]; unfold hinv; cbn [table counter res issued]; repeat split; assumption.
  - (* Close *) destruct (is_open s h) eqn:Eo; cbn [fst]; [|unfold hinv; repeat split; assumption].
    unfold hinv. cbn [table counter res issued]. rewrite map_fst_bump.
    repeat split; try assumption.
    + apply NoDup_filter. exact Ht.
    + apply Forall_forall. intros x Hx. apply in_remove_h in Hx. rewrite Forall_forall in Htb. apply Htb. apply Hx.
    + unfold bump. apply Forall_forall. intros e He. apply in_map_iff in He. destruct He as [e0 [He0 Hin]]. subst e.
      rewrite Forall_forall in Hrb. specialize (Hrb e0 Hin). destruct (fst e0 =? h); cbn [fst]; exact Hrb.
    + unfold bump. apply Forall_forall. intros e He. apply in_map_iff in He. destruct He as [e0 [He0 Hin]]. subst e.
      rewrite Forall_forall in Hres. specialize (Hres e0 Hin).
      destruct (fst e0 =? h) eqn:Eh; cbn [fst snd].
      * apply Nat.eqb_eq in Eh. replace (existsb (Nat.eqb (fst e0)) (remove_h h (table s))) with false.
        2:{ symmetry. apply not_true_iff_false. intros H. apply existsb_eqb_in in H. apply in_remove_h in H. lia. }
        assert (Hop : existsb (Nat.eqb (fst e0)) (table s) = true) by (rewrite Eh; exact Eo).
        rewrite Hop in Hres. rewrite Hres. cbn. repeat split; lia.
      * apply Nat.eqb_neq in Eh.
        destruct (existsb (Nat.eqb (fst e0)) (table s)) eqn:E1.
        -- replace (existsb (Nat.eqb (fst e0)) (remove_h h (table s))) with true; [exact Hres|].
           symmetry. apply existsb_eqb_in. apply in_remove_h. split; [apply existsb_eqb_in; exact E1 | exact Eh].
        -- replace (existsb (Nat.eqb (fst e0)) (remove_h h (table s))) with false; [exact Hres|].
           symmetry. apply not_true_iff_false. intros H. apply existsb_eqb_in in H. apply in_remove_h in H. destruct H as [H _].
           apply existsb_eqb_in in H. congruence.
    + apply Forall_forall. intros x Hx. apply in_remove_h in Hx. rewrite Forall_forall in Hsub. apply Hsub. apply Hx.
Qed.

Lemma hinv_h0 : hinv h0.
Proof. unfold hinv, h0. cbn. repeat split; constructor. Qed.

Lemma hinv_run : forall ops, Forall (fun o => o <> EndSession) ops -> hinv (hrun ops).
Proof.
  intros ops. unfold hrun. assert (H : hinv h0) by exact hinv_h0. revert H. generalize h0.
  induction ops as [|o ops IH]; intros s Hs Hall; cbn [fold_left]; [exact Hs|].
  inversion Hall; subst. apply IH; [apply hinv_step_nonend; assumption | assumption].
Qed.

(* handles issued during a session are pairwise distinct *)
Theorem handles_distinct : forall ops, Forall (fun o => o <> EndSession) ops -> NoDup (issued (hrun ops)).
Proof. intros ops H. destruct (hinv_run ops H) as [_ [_ [_ [_ [Hi _]]]]]. exact Hi. Qed.

(* a request naming a handle that was never issued or has been closed fails and touches nothing *)
Theorem stale_handle_inert : forall s h, is_open s h = false ->
  hstep s (Use h) = (s, true) /\ hstep s (CloseH h) = (s, true).
Proof. intros s h H. cbn [hstep]. rewrite H. split; reflexivity. Qed.

Lemma sweep_fold_spec : forall tbl rs e,
  NoDup (map fst rs) -> In e rs ->
  exists r', In (fst e, r') (fold_left (fun rs h => bump sweep_r h rs) tbl rs) /\
             (~ In (fst e) tbl -> r' = snd e) /\ (NoDup tbl -> In (fst e) tbl -> r' = sweep_r (snd e)).
Proof.
  induction tbl as [|h t IH]; intros rs e Hnd Hin; cbn [fold_left].
  - exists (snd e). split; [destruct e; exact Hin|]. split; [reflexivity | intros _ []].
  - set (e' := if fst e =? h then (fst e, sweep_r (snd e)) else e).
    assert (Hin' : In e' (bump sweep_r h rs)) by (unfold bump; apply in_map_iff; exists e; split; [reflexivity | exact Hin]).
    assert (Hf : fst e' = fst e) by (unfold e'; destruct (fst e =? h); reflexivity).
    assert (Hnd' : NoDup (map fst (bump sweep_r h rs))) by (rewrite map_fst_bump; exact Hnd).
    destruct (IH (bump sweep_r h rs) e' Hnd' Hin') as [r' [Hr [Hno Hyes]]].
    rewrite Hf in Hr, Hno, Hyes. exists r'. split; [exact Hr|]. split.
    + intros Hni. assert (Hne : fst e <> h) by (intros Hq; apply Hni; left; symmetry; exact Hq).
      rewrite Hno by (intros H; apply Hni; right; exact H). unfold e'. apply Nat.eqb_neq in Hne. rewrite Hne. reflexivity.
    + intros Hndt Hi. inversion Hndt as [|? ? Hnh Hndt']; subst. destruct Hi as [Heq|Hi].
      * subst h. rewrite Hno by exact Hnh. unfold e'. rewrite Nat.eqb_refl. reflexivity.
      * assert (Hne : fst e <> h) by (intros Hq; apply Hnh; rewrite <- Hq; exact Hi).
        rewrite (Hyes Hndt' Hi). unfold e'. apply Nat.eqb_neq in Hne. rewrite Hne. reflexivity.
Qed.

(* whenever Serve returns - after any prefix of a session - every resource ever handed out has been closed exactly once,
   its context cancelled exactly once, and the transfer-error notification went exactly to those still open at the end *)
Theorem all_closed_once_at_end : forall ops e,
  Forall (fun o => o <> EndSession) ops ->
  In e (res (hrun ops)) ->
  exists r', In (fst e, r') (res (fst (hstep (hrun ops) EndSession))) /\
    r_closed r' = 1 /\ r_cancelled r' = 1 /\
    (r_xfer r' = 1 <-> is_open (hrun ops) (fst e) = true) /\ r_xfer r' <= 1.
Proof.
  intros ops e Hall Hin. destruct (hinv_run ops Hall) as [Ht [_ [Hr [_ [_ [_ [Hres _]]]]]]].
  set (s := hrun ops) in *. cbn [hstep fst res].
  destruct (sweep_fold_spec (table s) (res s) e Hr Hin) as [r' [Hr' [Hno Hyes]]].
  exists r'. split; [exact Hr'|].
  rewrite Forall_forall in Hres. specialize (Hres e Hin). unfold is_open.
  destruct (existsb (Nat.eqb (fst e)) (table s)) eqn:Eo.
  - apply existsb_eqb_in in Eo. rewrite (Hyes Ht Eo). rewrite Hres. cbn. repeat split; auto.
  - assert (Hni : ~ In (fst e) (table s)) by (intros H; apply existsb_eqb_in in H; congruence).
    rewrite (Hno Hni). destruct Hres as [H1 [H2 H3]]. repeat split; try assumption; try lia; try discriminate.
Qed.
