(* C01/C13 end to end: without injected failures, every read path (single packet, sequential chunks, concurrent
   map-reduce in any arrival order) returns exactly the file's bytes in the requested window, with nil iff the window
   was filled and io.EOF otherwise; every write path leaves exactly splice(file, off, buf). *)
From Coq Require Import List NArith ZArith Bool Arith Lia Permutation Strings.Byte.
From Sftp Require Import Base.GoSem Xfer.Transfer Proofs.TransferP.
Import ListNotations.

(* ---------- sequential chunked read ---------- *)
Theorem readSeq_exact : forall fuel s off n p acc,
  no_rfail s -> 1 <= maxTx s -> 1 <= p -> n <= fuel ->
  readSeq (chunks fuel off n p) s acc =
    (acc ++ firstn n (skipn off (file s)), if n <=? length (file s) - off then None else Some xeof).
Proof.
  induction fuel as [|f IH]; intros s off n p acc Hnf Hm Hp Hf.
  - assert (n = 0) by lia. subst. cbn [chunks readSeq firstn]. rewrite app_nil_r. reflexivity.
  - destruct n as [|n']; [cbn [chunks readSeq firstn]; rewrite app_nil_r; reflexivity|].
    cbn [chunks]. set (l := Nat.min (S n') p). assert (Hl : 1 <= l <= S n') by (unfold l; lia).
    cbn [readSeq]. rewrite (readChunkAt_exact l s off l [] Hnf Hm (le_n _)). cbn [app].
    destruct (l <=? length (file s) - off) eqn:C.
    + apply Nat.leb_le in C. rewrite (IH s (off + l) (S n' - l) p _ Hnf Hm Hp ltac:(lia)).
      f_equal.
      * rewrite <- app_assoc. f_equal. replace (S n') with (l + (S n' - l)) at 2 by lia.
        rewrite firstn_add, skipn_skipn. reflexivity.
      * destruct (S n' - l <=? length (file s) - (off + l)) eqn:C1;
        destruct (S n' <=? length (file s) - off) eqn:C2; try reflexivity;
        [apply Nat.leb_le in C1; apply Nat.leb_gt in C2 | apply Nat.leb_gt in C1; apply Nat.leb_le in C2]; lia.
    + apply Nat.leb_gt in C.
      replace (S n' <=? length (file s) - off) with false by (symmetry; apply Nat.leb_gt; lia).
      f_equal. f_equal. rewrite !firstn_all2 by (rewrite skipn_length; lia). reflexivity.
Qed.

(* ---------- concurrent read ---------- *)
Definition rem (s : srv) (off : nat) : nat := length (file s) - off.

(* the buffer the workers fill: file bytes, then the untouched (zero) tail *)
Lemma conc_buf_spec : forall fuel s off n p,
  no_rfail s -> 1 <= p <= maxTx s -> n <= fuel ->
  let cs := chunks fuel off n p in
  flat_map (fun '(c, r) => fst r ++ zeros (snd c - length (fst r))) (combine cs (map (conc_chunk s) cs)) =
    firstn n (skipn off (file s)) ++ zeros (n - rem s off).
Proof.
  induction fuel as [|f IH]; intros s off n p Hnf Hp Hf; cbn zeta.
  - assert (n = 0) by lia. subst. reflexivity.
  - destruct n as [|n']; [reflexivity|].
    cbn [chunks]. set (l := Nat.min (S n') p). assert (Hl : 1 <= l <= S n') by (unfold l; lia).
    assert (Hlp : l <= p) by (unfold l; lia).
    cbn [map combine flat_map]. specialize (IH s (off + l) (S n' - l) p Hnf Hp ltac:(lia)). cbn zeta in IH. rewrite IH.
    assert (Hslot : fst (conc_chunk s (off, l)) = firstn l (skipn off (file s))).
    { unfold conc_chunk, srv_read. rewrite (Hnf off). destruct (length (file s) <=? off) eqn:E.
      - apply Nat.leb_le in E. rewrite skipn_all2 by exact E. rewrite firstn_nil. reflexivity.
      - destruct (_ <? l); cbn [fst]; rewrite firstn_firstn; f_equal; lia. }
    unfold bytes in *. rewrite Hslot. cbn [snd]. rewrite firstn_skipn_len. fold (rem s off). unfold rem in *.
    destruct (le_lt_dec l (length (file s) - off)) as [Hle|Hgt].
    + replace (l - Nat.min l (length (file s) - off)) with 0 by lia. cbn [zeros repeat]. rewrite app_nil_r.
      replace (firstn (S n') (skipn off (file s))) with (firstn (l + (S n' - l)) (skipn off (file s))) by (f_equal; lia).
      rewrite firstn_add, skipn_skipn, <- app_assoc.
      do 2 f_equal. f_equal. lia.
    + rewrite (firstn_all2 (n := l)) by (rewrite skipn_length; lia).
      rewrite (firstn_all2 (n := S n')) by (rewrite skipn_length; lia).
      rewrite (skipn_all2 (n := off + l)) by lia. rewrite firstn_nil. cbn [app].
      rewrite <- app_assoc. f_equal. unfold zeros. rewrite <- repeat_app. f_equal. lia.
Qed.

(* the errors the workers report: all io.EOF, none below max(off,|F|); none at all iff the window lies inside the
   file, and otherwise one exactly at max(off,|F|) *)
Lemma conc_errs_spec : forall fuel s off n p,
  no_rfail s -> 1 <= p <= maxTx s -> n <= fuel ->
  let es := errs_of (map (conc_chunk s) (chunks fuel off n p)) in
  Forall (fun e => snd e = xeof /\ Nat.max off (length (file s)) <= fst e) es /\
  (n <= rem s off -> es = []) /\
  (rem s off < n -> In (Nat.max off (length (file s)), xeof) es).
Proof.
  induction fuel as [|f IH]; intros s off n p Hnf Hp Hf; cbn zeta.
  - assert (n = 0) by lia. subst. cbn. repeat split; [constructor | lia].
  - destruct n as [|n']; [cbn; repeat split; [constructor | lia]|].
    cbn [chunks]. set (l := Nat.min (S n') p). assert (Hl : 1 <= l <= S n') by (unfold l; lia).
    assert (Hlp : l <= p) by (unfold l; lia).
    destruct (IH s (off + l) (S n' - l) p Hnf Hp ltac:(lia)) as [Hall [Hnone Hsome]].
    assert (Hc : snd (conc_chunk s (off, l)) =
                 if length (file s) <=? off then Some (off, xeof)
                 else if Nat.min l (length (file s) - off) <? l then Some (off + Nat.min l (length (file s) - off), xeof) else None).
    { unfold conc_chunk, srv_read. rewrite (Hnf off). destruct (length (file s) <=? off); [reflexivity|].
      rewrite firstn_firstn. replace (Nat.min l (Nat.min l (maxTx s))) with l by lia.
      rewrite firstn_skipn_len. destruct (_ <? l); reflexivity. }
    cbn [map]. unfold errs_of in *. cbn [flat_map]. unfold rem in *. unfold bytes in *. rewrite Hc. clear Hc.
    destruct (length (file s) <=? off) eqn:E.
    + apply Nat.leb_le in E. cbn [snd app]. repeat split.
      * constructor; [cbn [fst snd]; split; [reflexivity | lia]|].
        eapply Forall_impl; [|exact Hall]. cbn beta. intros e [H1 H2]. split; [exact H1 | lia].
      * intros; lia.
      * intros _. left. f_equal. lia.
    + apply Nat.leb_gt in E.
      destruct (Nat.min l (length (file s) - off) <? l) eqn:C; cbn [snd app].
      * apply Nat.ltb_lt in C. repeat split.
        -- constructor; [cbn [fst snd]; split; [reflexivity | lia]|].
           eapply Forall_impl; [|exact Hall]. cbn beta. intros e [H1 H2]. split; [exact H1 | lia].
        -- intros; lia.
        -- intros _. left. f_equal. lia.
      * apply Nat.ltb_ge in C. repeat split.
        -- eapply Forall_impl; [|exact Hall]. cbn beta. intros e [H1 H2]. split; [exact H1 | lia].
        -- intros H. apply Hnone. lia.
        -- intros H. replace (Nat.max off (length (file s))) with (Nat.max (off + l) (length (file s))) by lia.
           apply Hsome. lia.
Qed.

Theorem readConc_exact : forall s off len p arrival,
  no_rfail s -> 1 <= p <= maxTx s ->
  Permutation arrival (chunks len off len p) ->
  readConc s off len p arrival =
    (Nat.min len (rem s off), (if len <=? rem s off then None else Some xeof), firstn len (skipn off (file s))).
Proof.
  intros s off len p arrival Hnf Hp Hperm. unfold readConc.
  rewrite (conc_buf_spec len s off len p Hnf Hp (le_n _)).
  destruct (conc_errs_spec len s off len p Hnf Hp (le_n _)) as [Hall [Hnone Hsome]].
  pose proof (errs_of_perm (conc_chunk s) _ _ Hperm) as Hpe.
  set (es := errs_of (map (conc_chunk s) (chunks len off len p))) in *.
  set (ea := errs_of (map (conc_chunk s) arrival)) in *.
  unfold rem in *.
  destruct (len <=? length (file s) - off) eqn:C.
  - apply Nat.leb_le in C. rewrite (Hnone C) in Hpe. apply Permutation_sym, Permutation_nil in Hpe. rewrite Hpe.
    cbn [reduce_first_err fold_left]. replace (len - (length (file s) - off)) with 0 by lia.
    cbn [zeros repeat]. rewrite app_nil_r. replace (Nat.min len (length (file s) - off)) with len by lia. reflexivity.
  - apply Nat.leb_gt in C. specialize (Hsome C).
    destruct (reduce_first_err ea) as [[eo e]|] eqn:R.
    + apply reduce_is_min in R. destruct R as [Hin Hmin].
      assert (Hin' : In (eo, e) es) by (eapply Permutation_in; [exact Hpe | exact Hin]).
      rewrite Forall_forall in Hall. destruct (Hall _ Hin') as [He Hge]. cbn [fst snd] in He, Hge. subst e.
      assert (Hm : In (Nat.max off (length (file s)), xeof) ea)
        by (eapply Permutation_in; [apply Permutation_sym; exact Hpe | exact Hsome]).
      specialize (Hmin _ Hm). cbn [fst] in Hmin.
      assert (Heo : eo - off = length (file s) - off) by lia. rewrite Heo.
      replace (Nat.min len (length (file s) - off)) with (length (file s) - off) by lia. f_equal.
      rewrite firstn_app. rewrite firstn_skipn_len.
      replace (length (file s) - off - Nat.min len (length (file s) - off)) with 0 by lia.
      cbn [firstn]. rewrite app_nil_r. rewrite firstn_firstn. rewrite !firstn_all2 by (rewrite skipn_length; lia). reflexivity.
    + apply reduce_none_iff in R. rewrite R in Hpe. apply Permutation_nil in Hpe. rewrite Hpe in Hsome. destruct Hsome.
Qed.

(* ---------- File.ReadAt, every path ---------- *)
(* for every file, offset, length, packet size, server payload limit (at least one packet when the concurrent path is
   taken: the code documents that it does not refill short concurrent reads), and every order in which the concurrent
   workers report: the bytes are exactly file[off, off+len) cut at the end of the file, the count is their number, the
   error is nil iff the buffer was filled and io.EOF otherwise *)
Theorem readAt_exact : forall o s off len arrival,
  no_rfail s -> 1 <= maxTx s -> 1 <= maxPacket o ->
  (concReads o = true -> maxPacket o < len -> maxPacket o <= maxTx s) ->
  Permutation arrival (chunks len off len (maxPacket o)) ->
  readAt o s off len arrival =
    (Nat.min len (length (file s) - off),
     (if len <=? length (file s) - off then None else Some xeof),
     firstn len (skipn off (file s))).
Proof.
  intros o s off len arrival Hnf Hm Hp Hc Hperm.
  destruct (le_lt_dec len (maxPacket o)) as [Hle|Hgt]; [apply readAt_single_exact; assumption|].
  unfold readAt. replace (len <=? maxPacket o) with false by (symmetry; apply Nat.leb_gt; exact Hgt).
  destruct (concReads o) eqn:Ec; cbn [negb].
  - apply readConc_exact; [exact Hnf | split; [exact Hp | apply Hc; [reflexivity | exact Hgt]] | exact Hperm].
  - rewrite (readSeq_exact len s off len (maxPacket o) [] Hnf Hm Hp (le_n _)). cbn [app].
    rewrite firstn_skipn_len. reflexivity.
Qed.

(* ---------- writes ---------- *)
Definition no_wfail (s : srv) : Prop := forall o, wfail s o = None.
Definition with_file (s : srv) (f : bytes) : srv := mkSrv f (maxTx s) (rfail s) (wfail s).

Lemma with_file_id : forall s, with_file s (file s) = s. Proof. destruct s; reflexivity. Qed.

(* two adjacent writes are one write of the concatenation *)
Lemma splice_app : forall f off d1 d2,
  splice (splice f off d1) (off + length d1) d2 = splice f off (d1 ++ d2).
Proof.
  intros f off d1 d2.
  destruct d1 as [|a d1']; [cbn [splice length app]; rewrite Nat.add_0_r; reflexivity|].
  destruct d2 as [|b d2']; [rewrite app_nil_r; reflexivity|].
  set (d1 := a :: d1') in *. set (d2 := b :: d2') in *.
  assert (E1 : splice f off d1 = let f' := f ++ zeros (off - length f) in firstn off f' ++ d1 ++ skipn (off + length d1) f') by reflexivity.
  assert (E2 : forall g o, splice g o d2 = let f' := g ++ zeros (o - length g) in firstn o f' ++ d2 ++ skipn (o + length d2) f') by reflexivity.
  assert (E3 : splice f off (d1 ++ d2) = let f' := f ++ zeros (off - length f) in firstn off f' ++ (d1 ++ d2) ++ skipn (off + length (d1 ++ d2)) f') by reflexivity.
  rewrite E3, E2, E1. cbn zeta. clear E1 E2 E3.
  set (f' := f ++ zeros (off - length f)).
  assert (Hf' : off <= length f') by (unfold f', zeros; rewrite app_length, repeat_length; lia).
  set (A := firstn off f' ++ d1).
  assert (HA : length A = off + length d1) by (unfold A; rewrite app_length, firstn_length; lia).
  set (T := skipn (off + length d1) f').
  replace (firstn off f' ++ d1 ++ T) with (A ++ T) by (unfold A; rewrite <- app_assoc; reflexivity).
  replace (off + length d1 - length (A ++ T)) with 0 by (rewrite app_length; lia).
  cbn [zeros repeat]. rewrite app_nil_r.
  rewrite <- HA. replace (length A) with (length A + 0) at 1 by lia. rewrite firstn_app_2. cbn [firstn]. rewrite app_nil_r.
  rewrite skipn_app. replace (length A + length d2 - length A) with (length d2) by lia.
  rewrite (skipn_all2 (n := length A + length d2)) by lia. cbn [app].
  unfold T. rewrite skipn_skipn. unfold A. rewrite <- !app_assoc. do 3 f_equal.
  rewrite app_length. f_equal. lia.
Qed.

Lemma srv_write_ok : forall s off d, no_wfail s -> srv_write s off d = (with_file s (splice (file s) off d), None).
Proof. intros s off d H. unfold srv_write. rewrite (H off). reflexivity. Qed.

Theorem writeSeq_exact : forall fuel s off n p b boff w,
  no_wfail s -> 1 <= p -> n <= fuel -> n <= length b - boff ->
  writeSeq (chunks fuel off n p) s b boff w =
    (with_file s (splice (file s) off (firstn n (skipn boff b))), w + n, None).
Proof.
  induction fuel as [|f IH]; intros s off n p b boff w Hnf Hp Hf Hb.
  - assert (n = 0) by lia. subst. cbn [chunks writeSeq firstn splice]. rewrite with_file_id, Nat.add_0_r. reflexivity.
  - destruct n as [|n']; [cbn [chunks writeSeq firstn splice]; rewrite with_file_id, Nat.add_0_r; reflexivity|].
    cbn [chunks]. set (l := Nat.min (S n') p). assert (Hl : 1 <= l <= S n') by (unfold l; lia).
    cbn [writeSeq]. rewrite (srv_write_ok s off _ Hnf).
    set (d1 := firstn l (skipn boff b)).
    assert (Hd1 : length d1 = l) by (unfold d1; rewrite firstn_length, skipn_length; lia).
    rewrite (IH (with_file s (splice (file s) off d1)) (off + l) (S n' - l) p b (boff + l) (w + l)); try lia; [|exact Hnf].
    unfold with_file. cbn [file maxTx rfail wfail].
    assert (Hfile : splice (splice (file s) off d1) (off + l) (firstn (S n' - l) (skipn (boff + l) b)) =
                    splice (file s) off (firstn (S n') (skipn boff b))).
    { rewrite <- Hd1 at 1. rewrite splice_app. f_equal. unfold d1.
      replace (firstn (S n') (skipn boff b)) with (firstn (l + (S n' - l)) (skipn boff b)) by (f_equal; lia).
      rewrite firstn_add, skipn_skipn. reflexivity. }
    rewrite Hfile. replace (w + l + (S n' - l)) with (w + S n') by lia. reflexivity.
Qed.

Lemma writeAll_exact : forall fuel s off n p b boff errs,
  no_wfail s -> 1 <= p -> n <= fuel -> n <= length b - boff ->
  writeAll (chunks fuel off n p) s b boff errs =
    (with_file s (splice (file s) off (firstn n (skipn boff b))), errs).
Proof.
  induction fuel as [|f IH]; intros s off n p b boff errs Hnf Hp Hf Hb.
  - assert (n = 0) by lia. subst. cbn [chunks writeAll firstn splice]. rewrite with_file_id. reflexivity.
  - destruct n as [|n']; [cbn [chunks writeAll firstn splice]; rewrite with_file_id; reflexivity|].
    cbn [chunks]. set (l := Nat.min (S n') p). assert (Hl : 1 <= l <= S n') by (unfold l; lia).
    cbn [writeAll]. rewrite (srv_write_ok s off _ Hnf).
    set (d1 := firstn l (skipn boff b)).
    assert (Hd1 : length d1 = l) by (unfold d1; rewrite firstn_length, skipn_length; lia).
    rewrite (IH (with_file s (splice (file s) off d1)) (off + l) (S n' - l) p b (boff + l) errs); try lia; [|exact Hnf].
    unfold with_file. cbn [file maxTx rfail wfail].
    assert (Hfile : splice (splice (file s) off d1) (off + l) (firstn (S n' - l) (skipn (boff + l) b)) =
                    splice (file s) off (firstn (S n') (skipn boff b))).
    { rewrite <- Hd1 at 1. rewrite splice_app. f_equal. unfold d1.
      replace (firstn (S n') (skipn boff b)) with (firstn (l + (S n' - l)) (skipn boff b)) by (f_equal; lia).
      rewrite firstn_add, skipn_skipn. reflexivity. }
    rewrite Hfile. reflexivity.
Qed.

(* File.WriteAt, every path (single packet, sequential chunks, concurrent chunks all dispatched): the file afterwards is
   exactly the old file with buf spliced in at off (zero-filled gap if off lies beyond the end), count = len(buf), nil *)
Theorem writeAt_exact : forall o s off b dispatched,
  no_wfail s -> 1 <= maxPacket o ->
  length (chunks (length b) off (length b) (maxPacket o)) <= dispatched ->
  writeAt o s off b dispatched = (with_file s (splice (file s) off b), length b, None).
Proof.
  intros o s off b dispatched Hnf Hp Hd. unfold writeAt.
  destruct (length b <=? maxPacket o); [rewrite (srv_write_ok s off b Hnf); reflexivity|].
  destruct (concWrites o).
  - unfold writeConc. rewrite firstn_all2 by exact Hd.
    rewrite (writeAll_exact (length b) s off (length b) (maxPacket o) b 0 [] Hnf Hp (le_n _) ltac:(lia)).
    cbn [reduce_first_err fold_left skipn]. rewrite firstn_all. reflexivity.
  - rewrite (writeSeq_exact (length b) s off (length b) (maxPacket o) b 0 0 Hnf Hp (le_n _) ltac:(lia)).
    cbn [skipn Nat.add]. rewrite firstn_all. reflexivity.
Qed.

(* ---------- File.ReadFrom ---------- *)
Theorem readFromSeq_exact : forall fuel s p src off read,
  no_wfail s -> 1 <= p -> length src < fuel ->
  readFromSeq fuel readfrom_fixed s p src off read =
    (with_file s (splice (file s) off src), read + length src, None, off + length src).
Proof.
  induction fuel as [|f IH]; intros s p src off read Hnf Hp Hf; [lia|].
  destruct src as [|x src'].
  - cbn [readFromSeq splice length]. rewrite with_file_id, !Nat.add_0_r. reflexivity.
  - set (src := x :: src') in *. cbn [readFromSeq]. fold src.
    change (match src with [] => (s, read, None, off) | _ :: _ =>
              let chunk := firstn p src in let rest := skipn p src in let full := length chunk =? p in
              let '(s', e) := srv_write s off chunk in let read' := read + length chunk in
              match e with
              | Some c => if full then (s', read', Some (XStatus c), off)
                          else if readfrom_fixed then (s', read', Some (XStatus c), off) else (s', read', None, off)
              | None => if full then readFromSeq f readfrom_fixed s' p rest (off + length chunk) read'
                        else (s', read', None, off + length chunk)
              end end = (with_file s (splice (file s) off src), read + length src, None, off + length src)).
    unfold src at 1. cbn zeta. rewrite (srv_write_ok s off _ Hnf).
    assert (Hc : length (firstn p src) = Nat.min p (length src)) by apply firstn_length.
    destruct (length (firstn p src) =? p) eqn:Efull.
    + apply Nat.eqb_eq in Efull.
      rewrite (IH (with_file s (splice (file s) off (firstn p src))) p (skipn p src) (off + length (firstn p src))
                  (read + length (firstn p src)) Hnf Hp); [|rewrite skipn_length; unfold src in *; cbn [length] in *; lia].
      unfold with_file. cbn [file maxTx rfail wfail]. rewrite splice_app, firstn_skipn, skipn_length.
      replace (read + length (firstn p src) + (length src - p)) with (read + length src) by lia.
      replace (off + length (firstn p src) + (length src - p)) with (off + length src) by lia. reflexivity.
    + apply Nat.eqb_neq in Efull. rewrite firstn_all2 by lia. reflexivity.
Qed.

Lemma fold_add_snd : forall (cs : list (nat * nat)) a,
  fold_left (fun a c => a + snd c) cs a = a + fold_right (fun c a => snd c + a) 0 cs.
Proof. induction cs as [|c cs IH]; intros a; cbn [fold_left fold_right]; [lia|]. rewrite IH. lia. Qed.

Theorem readFromConc_exact : forall s p src off dispatched,
  no_wfail s -> 1 <= p ->
  length (chunks (length src) off (length src) p) <= dispatched ->
  readFromConc s p src off dispatched =
    (with_file s (splice (file s) off src), length src, None, off + length src).
Proof.
  intros s p src off dispatched Hnf Hp Hd. unfold readFromConc. rewrite firstn_all2 by exact Hd.
  rewrite (writeAll_exact (length src) s off (length src) p src 0 [] Hnf Hp (le_n _) ltac:(lia)).
  rewrite fold_add_snd. destruct (chunks_spec (length src) off (length src) p Hp (le_n _)) as [Hsum _].
  rewrite Hsum. cbn [reduce_first_err fold_left skipn Nat.add]. rewrite firstn_all. reflexivity.
Qed.

(* ---------- File.WriteTo ---------- *)
Theorem writeToSeq_exact : forall fuel s p off acc,
  no_rfail s -> 1 <= maxTx s -> 1 <= p -> length (file s) - off < fuel ->
  writeToSeq fuel s p off acc = (acc ++ skipn off (file s), None, Nat.max off (length (file s))).
Proof.
  induction fuel as [|f IH]; intros s p off acc Hnf Hm Hp Hf; [lia|].
  cbn [writeToSeq]. rewrite (readChunkAt_exact p s off p [] Hnf Hm (le_n _)). cbn [app].
  destruct (p <=? length (file s) - off) eqn:C.
  - apply Nat.leb_le in C.
    assert (Hl : length (firstn p (skipn off (file s))) = p) by (rewrite firstn_skipn_len; lia).
    rewrite (IH s p _ _ Hnf Hm Hp) by lia. rewrite Hl.
    replace (Nat.max (off + p) (length (file s))) with (Nat.max off (length (file s))) by lia.
    rewrite <- app_assoc. rewrite <- (firstn_skipn p (skipn off (file s))) at 2. rewrite skipn_skipn. reflexivity.
  - apply Nat.leb_gt in C. unfold xeof, code_eof.
    rewrite firstn_all2 by (rewrite skipn_length; lia). rewrite skipn_length.
    replace (off + (length (file s) - off)) with (Nat.max off (length (file s))) by lia. reflexivity.
Qed.

Theorem writeToConc_exact : forall fuel s p off acc cur,
  no_rfail s -> 1 <= p <= maxTx s -> length (file s) - off < fuel ->
  writeToConc fuel writeto_fixed s p off acc cur =
    (acc ++ skipn off (file s), None, if length (file s) <=? off then cur else length (file s)).
Proof.
  induction fuel as [|f IH]; intros s p off acc cur Hnf Hp Hf; [lia|].
  cbn [writeToConc]. unfold srv_read. rewrite (Hnf off).
  destruct (length (file s) <=? off) eqn:E.
  - apply Nat.leb_le in E. cbn [N.eqb code_eof Pos.eqb writeto_fixed]. rewrite skipn_all2 by exact E. rewrite app_nil_r. reflexivity.
  - apply Nat.leb_gt in E. rewrite firstn_firstn. replace (Nat.min p (Nat.min p (maxTx s))) with p by lia.
    rewrite (IH s p _ _ _ Hnf Hp) by lia. rewrite firstn_skipn_len.
    rewrite <- app_assoc. rewrite <- (firstn_skipn p (skipn off (file s))) at 2. rewrite skipn_skipn.
    destruct (length (file s) <=? off + p) eqn:E2; [|reflexivity].
    apply Nat.leb_le in E2. replace (off + Nat.min p (length (file s) - off)) with (length (file s)) by lia. reflexivity.
Qed.

(* File.WriteTo, every path: the writer receives exactly the file from the current offset to its end, the error is nil,
   and the File offset afterwards is the end of the file (or stays where it was if it already lay beyond it) *)
Theorem writeTo_exact : forall o s regular off,
  no_rfail s -> 1 <= maxTx s -> 1 <= maxPacket o ->
  (concReads o = true -> regular = true -> maxPacket o < length (file s) -> maxPacket o <= maxTx s) ->
  writeTo o s regular off = (skipn off (file s), None, Nat.max off (length (file s))).
Proof.
  intros o s regular off Hnf Hm Hp Hc. unfold writeTo.
  destruct (concReads o) eqn:Ec; cbn [negb].
  - destruct (length (file s) <=? maxPacket o) eqn:E1; cbn [orb].
    + rewrite (writeToSeq_exact _ s _ off [] Hnf Hm Hp) by lia. reflexivity.
    + destruct regular; cbn [negb].
      * apply Nat.leb_gt in E1. rewrite (writeToConc_exact _ s _ off [] off Hnf) by (try split; try lia; apply Hc; auto).
        cbn [app]. f_equal. destruct (length (file s) <=? off) eqn:E; [apply Nat.leb_le in E | apply Nat.leb_gt in E]; lia.
      * rewrite (writeToSeq_exact _ s _ off [] Hnf Hm Hp) by lia. reflexivity.
  - rewrite (writeToSeq_exact _ s _ off [] Hnf Hm Hp) by lia. reflexivity.
Qed.

(* whatever size STAT reports - the true one, 0, too small, too large - WriteTo delivers exactly the rest of the file *)
Theorem writeToS_exact : forall o s regular statsize off,
  no_rfail s -> 1 <= maxTx s -> 1 <= maxPacket o ->
  (concReads o = true -> regular = true -> maxPacket o < statsize -> maxPacket o <= maxTx s) ->
  writeToS o s regular statsize off = (skipn off (file s), None, Nat.max off (length (file s))).
Proof.
  intros o s regular statsize off Hnf Hm Hp Hc. unfold writeToS.
  destruct (concReads o) eqn:Ec; cbn [negb].
  - destruct (statsize <=? maxPacket o) eqn:E1; cbn [orb].
    + rewrite (writeToSeq_exact _ s _ off [] Hnf Hm Hp) by lia. reflexivity.
    + destruct regular; cbn [negb].
      * apply Nat.leb_gt in E1. rewrite (writeToConc_exact _ s _ off [] off Hnf) by (try split; try lia; apply Hc; auto).
        cbn [app]. f_equal. destruct (length (file s) <=? off) eqn:E; [apply Nat.leb_le in E | apply Nat.leb_gt in E]; lia.
      * rewrite (writeToSeq_exact _ s _ off [] Hnf Hm Hp) by lia. reflexivity.
  - rewrite (writeToSeq_exact _ s _ off [] Hnf Hm Hp) by lia. reflexivity.
Qed.
