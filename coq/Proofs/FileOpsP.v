(* C12: for every sequence of File method calls, under every option combination, the remote File (served file content,
   implicit offset, and what each call returns) evolves exactly like an os.File on a plain byte string. *)
From Coq Require Import List NArith ZArith Bool Arith Lia Permutation Strings.Byte.
From Sftp Require Import Base.GoSem Xfer.Transfer Xfer.FileOps Proofs.TransferP Proofs.TransferE2EP.
Import ListNotations.

Definition wf (o : copts) (s : srv) : Prop :=
  no_rfail s /\ no_wfail s /\ 1 <= maxPacket o /\ maxPacket o <= maxTx s.

Lemma wf_with_file : forall o s f, wf o s -> wf o (with_file s f).
Proof. intros o s f [H1 [H2 [H3 H4]]]. repeat split; assumption. Qed.

Lemma chunks_length_le : forall fuel off n p, 1 <= p -> length (chunks fuel off n p) <= n.
Proof.
  induction fuel as [|f IH]; intros off n p Hp; destruct n as [|n']; cbn [chunks length]; try lia.
  specialize (IH (off + Nat.min (S n') p) (S n' - Nat.min (S n') p) p Hp). lia.
Qed.

Lemma eof_flag : forall n r, is_some_x (if n <=? r then None else Some xeof) = (Nat.min n r <? n).
Proof.
  intros n r. destruct (Nat.leb_spec n r); cbn [is_some_x]; symmetry; [apply Nat.ltb_ge | apply Nat.ltb_lt]; lia.
Qed.

Theorem fstep_refines : forall o s off op s' off' r,
  wf o s -> fstep o (s, off) op = ((s', off'), r) ->
  ostep (file s, off) op = ((file s', off'), r) /\ wf o s'.
Proof.
  intros o s off op s' off' r Hwf H. pose proof Hwf as [Hr [Hw [Hp Hm]]].
  assert (Hm1 : 1 <= maxTx s) by lia.
  destruct op as [n|b|a n|a b|w d| |src known|size|]; cbn [fstep ostep] in *.
  - rewrite (readAt_exact o s off n _ Hr Hm1 Hp (fun _ _ => Hm) (Permutation_refl _)) in H.
    inversion H; subst. split; [|exact Hwf]. rewrite firstn_skipn_len, eof_flag. reflexivity.
  - rewrite (writeAt_exact o s off b _ Hw Hp (chunks_length_le _ _ _ _ Hp)) in H.
    inversion H; subst. cbn [file with_file is_some_x]. split; [reflexivity | apply wf_with_file; exact Hwf].
  - rewrite (readAt_exact o s a n _ Hr Hm1 Hp (fun _ _ => Hm) (Permutation_refl _)) in H.
    inversion H; subst. split; [|exact Hwf]. rewrite firstn_skipn_len, eof_flag. reflexivity.
  - rewrite (writeAt_exact o s a b _ Hw Hp (chunks_length_le _ _ _ _ Hp)) in H.
    inversion H; subst. cbn [file with_file is_some_x]. split; [reflexivity | apply wf_with_file; exact Hwf].
  - destruct (seek off (length (file s)) w d) as [pos bad]. inversion H; subst. split; [reflexivity | exact Hwf].
  - rewrite (writeTo_exact o s true off Hr Hm1 Hp (fun _ _ _ => Hm)) in H.
    inversion H; subst. cbn [is_some_x]. split; [reflexivity | exact Hwf].
  - destruct (readFrom_uses_conc o (if known then Some (length src) else None)).
    + rewrite (readFromConc_exact s (maxPacket o) src off _ Hw Hp (chunks_length_le _ _ _ _ Hp)) in H.
      inversion H; subst. cbn [file with_file is_some_x]. split; [reflexivity | apply wf_with_file; exact Hwf].
    + rewrite (readFromSeq_exact _ s (maxPacket o) src off 0 Hw Hp (Nat.lt_succ_diag_r _)) in H.
      inversion H; subst. cbn [file with_file is_some_x Nat.add]. split; [reflexivity | apply wf_with_file; exact Hwf].
  - inversion H; subst. cbn [file set_file]. split; [reflexivity|]. destruct Hwf as [H1 [H2 [H3 H4]]]. repeat split; assumption.
  - inversion H; subst. split; [reflexivity | exact Hwf].
Qed.

(* every sequence of method calls: same results, same final content, same final offset *)
Theorem frun_refines : forall o ops s off s' off' rs,
  wf o s -> frun o (s, off) ops = ((s', off'), rs) ->
  orun (file s, off) ops = ((file s', off'), rs).
Proof.
  intros o. induction ops as [|op ops IH]; intros s off s' off' rs Hwf H; cbn [frun orun] in *.
  - inversion H; subst. reflexivity.
  - destruct (fstep o (s, off) op) as [[s1 off1] r] eqn:E1.
    destruct (frun o (s1, off1) ops) as [[s2 off2] rs2] eqn:E2. inversion H; subst.
    destruct (fstep_refines _ _ _ _ _ _ _ Hwf E1) as [Ho Hwf1]. rewrite Ho.
    rewrite (IH _ _ _ _ _ Hwf1 E2). reflexivity.
Qed.

(* in particular: ReadAt and WriteAt leave the offset alone; Read, Write, ReadFrom advance it by the bytes moved *)
Corollary offsets_like_os : forall o s off op s' off' r,
  wf o s -> fstep o (s, off) op = ((s', off'), r) ->
  match op with
  | FReadAt _ _ | FWriteAt _ _ | FTruncate _ | FStat => off' = off
  | FRead _ | FWrite _ => off' = off + r_n r
  | FReadFrom src _ => off' = off + length src /\ r_n r = length src
  | FWriteTo => off' = Nat.max off (length (file s))
  | FSeek _ _ => True
  end.
Proof.
  intros o s off op s' off' r Hwf H. destruct (fstep_refines _ _ _ _ _ _ _ Hwf H) as [Ho _].
  destruct op; cbn [ostep] in Ho; try exact I; try (inversion Ho; subst; cbn [r_n]; try split; reflexivity).
Qed.
