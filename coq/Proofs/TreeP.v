From Coq Require Import List Bool Arith Lia.
From Sftp Require Import Fs.Tree.
Import ListNotations.

Module FsTreeP.
Import FsTree.

(* ---------- paths ---------- *)
Lemma path_eqb_eq : forall a b, path_eqb a b = true <-> a = b.
Proof.
  induction a as [|x a IH]; intros [|y b]; cbn [path_eqb]; split; intros H; try reflexivity; try discriminate.
  - apply andb_true_iff in H. destruct H as [Hx Ha]. apply Nat.eqb_eq in Hx. apply IH in Ha. subst. reflexivity.
  - inversion H; subst. rewrite Nat.eqb_refl. cbn [andb]. apply IH. reflexivity.
Qed.

Lemma path_eqb_refl : forall a, path_eqb a a = true.
Proof. intros a. apply path_eqb_eq. reflexivity. Qed.

Lemma path_eqb_neq : forall a b, a <> b -> path_eqb a b = false.
Proof. intros a b H. destruct (path_eqb a b) eqn:E; [apply path_eqb_eq in E; contradiction | reflexivity]. Qed.

Lemma under_iff : forall p q, under p q = true <-> exists r, q = p ++ r.
Proof.
  induction p as [|x p IH]; intros q; cbn [under].
  - split; [intros _; exists q; reflexivity | reflexivity].
  - destruct q as [|y q].
    + split; [discriminate | intros [r H]; discriminate].
    + split.
      * intros H. apply andb_true_iff in H. destruct H as [Hx Hu]. apply Nat.eqb_eq in Hx. subst y.
        apply IH in Hu. destruct Hu as [r ->]. exists r. reflexivity.
      * intros [r H]. cbn [app] in H. inversion H; subst. rewrite Nat.eqb_refl. cbn [andb]. apply IH. exists r. reflexivity.
Qed.

Lemma under_refl : forall p, under p p = true.
Proof. intros p. apply under_iff. exists []. rewrite app_nil_r. reflexivity. Qed.

Lemma under_app : forall p r, under p (p ++ r) = true.
Proof. intros p r. apply under_iff. exists r. reflexivity. Qed.

Lemma removelast_snoc {A} : forall (l : list A) x, removelast (l ++ [x]) = l.
Proof. intros l x. rewrite removelast_app by discriminate. cbn. apply app_nil_r. Qed.

Lemma snoc_cases {A} : forall (l : list A), l = [] \/ exists l' x, l = l' ++ [x].
Proof.
  induction l as [|a l IH]; [left; reflexivity|]. right. destruct IH as [->|[l' [x ->]]].
  - exists [], a. reflexivity.
  - exists (a :: l'), x. reflexivity.
Qed.

(* ---------- association ---------- *)
Lemma assoc_in : forall t p k, assoc t p = Some k -> In (p, k) t.
Proof.
  induction t as [|[q l] t IH]; intros p k H; cbn [assoc] in H; [discriminate|].
  destruct (path_eqb q p) eqn:E.
  - apply path_eqb_eq in E. inversion H; subst. left. reflexivity.
  - right. apply IH. exact H.
Qed.

Lemma in_assoc : forall t p k, NoDup (map fst t) -> In (p, k) t -> assoc t p = Some k.
Proof.
  induction t as [|[q l] t IH]; intros p k Hnd Hin; [destruct Hin|]. cbn [assoc]. cbn [map fst] in Hnd.
  inversion Hnd as [|? ? Hni Hnd']; subst. destruct Hin as [Heq|Hin].
  - inversion Heq; subst. rewrite path_eqb_refl. reflexivity.
  - destruct (path_eqb q p) eqn:E.
    + apply path_eqb_eq in E. subst q. exfalso. apply Hni. apply in_map_iff. exists (p, k). split; [reflexivity | exact Hin].
    + apply IH; assumption.
Qed.

Lemma assoc_none : forall t p, assoc t p = None <-> ~ In p (map fst t).
Proof.
  induction t as [|[q l] t IH]; intros p; cbn [assoc map fst In]; [split; [intros _ [] | reflexivity]|].
  destruct (path_eqb q p) eqn:E.
  - apply path_eqb_eq in E. subst. split; [discriminate | intros H; exfalso; apply H; left; reflexivity].
  - rewrite IH. split; [intros H [Heq|Hin]; [subst; rewrite path_eqb_refl in E; discriminate | exact (H Hin)] | intros H Hin; apply H; right; exact Hin].
Qed.

Lemma assoc_app : forall t u p, assoc (t ++ u) p = match assoc t p with Some k => Some k | None => assoc u p end.
Proof.
  induction t as [|[q l] t IH]; intros u p; cbn [app assoc]; [reflexivity|]. destruct (path_eqb q p); [reflexivity | apply IH].
Qed.

Lemma kind_at_root : forall t, kind_at t [] = Some KDir.
Proof. reflexivity. Qed.

Lemma kind_at_cons : forall t p, p <> [] -> kind_at t p = assoc t p.
Proof. intros t [|x p] H; [contradiction | reflexivity]. Qed.

Lemma snoc_ne {A} : forall (l : list A) x, l ++ [x] <> [].
Proof. intros [|a l] x; discriminate. Qed.

(* ---------- well-formed trees: ancestors of an entry are directories ---------- *)
Lemma wf_parent : forall t q c k, wf t -> kind_at t (q ++ [c]) = Some k -> kind_at t q = Some KDir.
Proof.
  intros t q c k [Hnd Hp] H. rewrite kind_at_cons in H by apply snoc_ne. apply assoc_in in H.
  destruct (Hp _ _ H) as [_ Hk]. rewrite removelast_snoc in Hk. exact Hk.
Qed.

Lemma wf_ancestor : forall t pre rest k, wf t -> kind_at t (pre ++ rest) = Some k -> rest <> [] -> kind_at t pre = Some KDir.
Proof.
  intros t pre rest. revert pre. induction rest as [|c rest IH] using rev_ind; intros pre k Hwf H Hne; [contradiction|].
  rewrite app_assoc in H. pose proof (wf_parent _ _ _ _ Hwf H) as Hd.
  destruct rest as [|d rest']; [rewrite app_nil_r in Hd; exact Hd|].
  apply (IH pre KDir Hwf Hd). discriminate.
Qed.

Lemma walk_exists : forall t rest pre k, wf t -> kind_at t (pre ++ rest) = Some k -> walk t pre rest = LKind k.
Proof.
  intros t rest. induction rest as [|c rest IH]; intros pre k Hwf H; cbn [walk].
  - rewrite app_nil_r in H. rewrite H. reflexivity.
  - rewrite (wf_ancestor t pre (c :: rest) k Hwf H) by discriminate.
    apply IH; [exact Hwf|]. rewrite <- app_assoc. exact H.
Qed.

Lemma lstat_exists : forall t p k, wf t -> kind_at t p = Some k -> lstat t p = LKind k.
Proof. intros t p k Hwf H. unfold lstat. apply walk_exists; assumption. Qed.

(* the walk of q ++ [c], in terms of the walk of q *)
Lemma walk_snoc : forall t rest pre c,
  walk t pre (rest ++ [c]) =
    match walk t pre rest with
    | LKind KDir => match kind_at t (pre ++ rest ++ [c]) with Some k => LKind k | None => LNoEnt end
    | LKind KFile => LNotDir
    | LKind KLink => LUndef
    | l => l
    end.
Proof.
  intros t rest. induction rest as [|d rest IH]; intros pre c; cbn [app walk].
  - destruct (kind_at t pre) as [[| |]|]; reflexivity.
  - destruct (kind_at t pre) as [[| |]|]; try reflexivity. rewrite IH. rewrite <- !app_assoc. reflexivity.
Qed.

Lemma lstat_snoc : forall t q c,
  lstat t (q ++ [c]) =
    match lstat t q with
    | LKind KDir => match kind_at t (q ++ [c]) with Some k => LKind k | None => LNoEnt end
    | LKind KFile => LNotDir
    | LKind KLink => LUndef
    | l => l
    end.
Proof. intros t q c. unfold lstat. rewrite walk_snoc. reflexivity. Qed.

(* a walk that ends at a kind found exactly that entry *)
Lemma walk_kind : forall t rest pre k, walk t pre rest = LKind k -> kind_at t (pre ++ rest) = Some k.
Proof.
  intros t rest. induction rest as [|c rest IH]; intros pre k H; cbn [walk] in H.
  - rewrite app_nil_r. destruct (kind_at t pre) as [k'|]; [inversion H; reflexivity | discriminate].
  - destruct (kind_at t pre) as [[| |]|]; try discriminate. apply IH in H. rewrite <- app_assoc in H. exact H.
Qed.

Lemma lstat_kind : forall t p k, lstat t p = LKind k -> kind_at t p = Some k.
Proof. intros t p k H. apply (walk_kind t p [] k H). Qed.

Lemma lstat_missing : forall t p, wf t -> (lstat t p = LNoEnt \/ lstat t p = LNotDir \/ lstat t p = LUndef) -> kind_at t p = None \/ exists k, kind_at t p = Some k /\ False.
Proof.
  intros t p Hwf H. left. destruct (kind_at t p) as [k|] eqn:E; [|reflexivity].
  rewrite (lstat_exists t p k Hwf E) in H. destruct H as [H|[H|H]]; discriminate.
Qed.

Lemma lstat_not_kind_none : forall t p, wf t -> (forall k, lstat t p <> LKind k) -> kind_at t p = None.
Proof.
  intros t p Hwf H. destruct (kind_at t p) as [k|] eqn:E; [|reflexivity]. exfalso. apply (H k). apply lstat_exists; assumption.
Qed.

(* ---------- MkdirAll ---------- *)
Lemma chain_snoc : forall rest pre c, chain pre (rest ++ [c]) = chain pre rest ++ [(pre ++ rest ++ [c], KDir)].
Proof.
  induction rest as [|d rest IH]; intros pre c; cbn [app chain]; [reflexivity|].
  f_equal. rewrite IH. rewrite <- !app_assoc. reflexivity.
Qed.

Lemma spec_mk_look : forall t rest pre,
  match walk t pre rest with
  | LKind KDir => spec_mk t pre rest = Some (TOk, t)
  | LKind KFile | LNotDir => spec_mk t pre rest = Some (TOther, t)
  | LKind KLink | LUndef => spec_mk t pre rest = None
  | LNoEnt => True
  end.
Proof.
  intros t rest. induction rest as [|c rest IH]; intros pre; cbn [walk spec_mk].
  - destruct (kind_at t pre) as [[| |]|]; auto.
  - destruct (kind_at t pre) as [[| |]|]; auto. apply IH.
Qed.

Lemma spec_mk_snoc : forall t rest pre c,
  spec_mk t pre (rest ++ [c]) =
    match walk t pre rest with
    | LKind KDir =>
        match kind_at t (pre ++ rest ++ [c]) with
        | Some KDir => Some (TOk, t) | Some KFile => Some (TOther, t) | Some KLink => None
        | None => Some (TOk, t ++ [(pre ++ rest ++ [c], KDir)])
        end
    | LNoEnt => match spec_mk t pre rest with Some (TOk, t1) => Some (TOk, t1 ++ [(pre ++ rest ++ [c], KDir)]) | r => r end
    | _ => spec_mk t pre rest
    end.
Proof.
  intros t rest. induction rest as [|d rest IH]; intros pre c; cbn [app walk spec_mk].
  - destruct (kind_at t pre) as [[| |]|] eqn:E; try reflexivity.
    cbn [chain]. rewrite <- app_assoc. cbn [app]. reflexivity.
  - destruct (kind_at t pre) as [[| |]|] eqn:E; try reflexivity.
    + rewrite IH. rewrite <- !app_assoc. reflexivity.
    + change (d :: rest ++ [c]) with ((d :: rest) ++ [c]). rewrite chain_snoc. rewrite app_assoc. reflexivity.
Qed.

Lemma nodup_snoc' {A} : forall (l : list A) x, NoDup l -> ~ In x l -> NoDup (l ++ [x]).
Proof.
  induction l as [|y t IH]; intros x Hnd Hni; cbn [app]; [constructor; [intros []|constructor]|].
  inversion Hnd; subst. constructor.
  - intros Hin. apply in_app_iff in Hin. destruct Hin as [Hin|[Heq|[]]]; [contradiction | subst; apply Hni; left; reflexivity].
  - apply IH; [assumption | intros Hin; apply Hni; right; exact Hin].
Qed.

Lemma wf_snoc : forall t p k, wf t -> p <> [] -> kind_at t p = None -> kind_at t (removelast p) = Some KDir -> wf (t ++ [(p, k)]).
Proof.
  intros t p k [Hnd Hp] Hne Hnone Hpar. split.
  - rewrite map_app. cbn [map fst]. apply nodup_snoc'; [exact Hnd|].
    rewrite kind_at_cons in Hnone by exact Hne. apply assoc_none. exact Hnone.
  - intros q l Hin. apply in_app_iff in Hin. destruct Hin as [Hin|[Heq|[]]].
    + destruct (Hp q l Hin) as [Hq Hk]. split; [exact Hq|].
      destruct (removelast q) as [|x r] eqn:Er; [reflexivity|]. cbn [kind_at] in *. rewrite assoc_app, Hk. reflexivity.
    + inversion Heq; subst q l. split; [exact Hne|].
      destruct (removelast p) as [|x r] eqn:Er; [reflexivity|]. cbn [kind_at] in *. rewrite assoc_app, Hpar. reflexivity.
Qed.

(* what a successful MkdirAll leaves behind *)
Definition mk_post (t : tree) (p : path) (t1 : tree) : Prop :=
  wf t1 /\ kind_at t1 p = Some KDir /\ (forall x k, In (x, k) t1 -> In (x, k) t \/ (under x p = true /\ k = KDir)) /\
  (forall x k, In (x, k) t -> In (x, k) t1).

Lemma under_snoc_self : forall p c, under (p ++ [c]) p = false.
Proof.
  intros p c. destruct (under (p ++ [c]) p) eqn:E; [|reflexivity]. apply under_iff in E. destruct E as [r Hr].
  apply (f_equal (@length name)) in Hr. rewrite !app_length in Hr. cbn in Hr. lia.
Qed.

Lemma under_trans : forall a b c, under a b = true -> under b c = true -> under a c = true.
Proof.
  intros a b c H1 H2. apply under_iff in H1, H2. destruct H1 as [r1 ->]. destruct H2 as [r2 ->].
  apply under_iff. exists (r1 ++ r2). rewrite app_assoc. reflexivity.
Qed.

Lemma lstat_root : forall t, lstat t [] = LKind KDir.
Proof. reflexivity. Qed.

Lemma mk_post_snoc : forall t q c t1, mk_post t q t1 -> kind_at t (q ++ [c]) = None ->
  mk_post t (q ++ [c]) (t1 ++ [(q ++ [c], KDir)]) /\ kind_at t1 (q ++ [c]) = None.
Proof.
  intros t q c t1 [Hwf [Hq [Hfrom Hkeep]]] Hnone.
  assert (Hn1 : kind_at t1 (q ++ [c]) = None).
  { destruct (kind_at t1 (q ++ [c])) as [k|] eqn:E; [|reflexivity]. exfalso.
    rewrite kind_at_cons in E by apply snoc_ne. apply assoc_in in E. destruct (Hfrom _ _ E) as [Hin|[Hu _]].
    - rewrite kind_at_cons in Hnone by apply snoc_ne. apply assoc_none in Hnone. apply Hnone. apply in_map_iff. exists (q ++ [c], k). split; [reflexivity | exact Hin].
    - rewrite under_snoc_self in Hu. discriminate. }
  split; [|exact Hn1]. split; [|split; [|split]].
  - apply wf_snoc; [exact Hwf | apply snoc_ne | exact Hn1 | rewrite removelast_snoc; exact Hq].
  - rewrite kind_at_cons by apply snoc_ne. rewrite assoc_app. rewrite kind_at_cons in Hn1 by apply snoc_ne. rewrite Hn1.
    cbn [assoc]. rewrite path_eqb_refl. reflexivity.
  - intros x k Hin. apply in_app_iff in Hin. destruct Hin as [Hin|[Heq|[]]].
    + destruct (Hfrom _ _ Hin) as [H|[Hu Hk]]; [left; exact H | right; split; [|exact Hk]]. eapply under_trans; [exact Hu | apply under_app].
    + inversion Heq; subst. right. split; [apply under_refl | reflexivity].
  - intros x k Hin. apply in_or_app. left. apply Hkeep. exact Hin.
Qed.

Lemma mk_post_same : forall t p, wf t -> kind_at t p = Some KDir -> mk_post t p t.
Proof. intros t p Hwf H. split; [exact Hwf|]. split; [exact H|]. split; [intros x k Hin; left; exact Hin | intros x k Hin; exact Hin]. Qed.

Lemma stat_of_lstat : forall t p, stat t p = match lstat t p with LKind KLink => LUndef | l => l end.
Proof. reflexivity. Qed.

(* Client.MkdirAll does what os.MkdirAll does, wherever no symbolic link has to be followed *)
Theorem mkdirall_refines_post : forall fuel t p r, wf t -> length p < fuel -> spec_mkdirall t p = Some r ->
  c_mkdirall fuel t p = Some r /\ (fst r = TOk -> mk_post t p (snd r)) /\ (fst r <> TOk -> snd r = t).
Proof.
  induction fuel as [|f IH]; intros t p r Hwf Hlen Hspec; [lia|]. cbn [c_mkdirall]. rewrite stat_of_lstat.
  unfold spec_mkdirall in Hspec. pose proof (spec_mk_look t p []) as Hlook. fold (lstat t p) in Hlook.
  destruct (lstat t p) as [[| |]| | |] eqn:El.
  - (* a directory already *)
    rewrite Hlook in Hspec. inversion Hspec; subst r. cbn [fst snd]. split; [reflexivity|]. split; [|intros H; contradiction H; reflexivity].
    intros _. apply mk_post_same; [exact Hwf | apply lstat_kind; exact El].
  - rewrite Hlook in Hspec. inversion Hspec; subst r. cbn [fst snd]. split; [reflexivity|]. split; [discriminate | reflexivity].
  - rewrite Hlook in Hspec. discriminate.
  - (* not there: parent first *)
    destruct (snoc_cases p) as [->|[q [c ->]]]; [rewrite lstat_root in El; discriminate|].
    destruct (q ++ [c]) as [|x0 r0] eqn:Eqc; [exfalso; exact (snoc_ne _ _ Eqc)|]. rewrite <- Eqc in *. clear x0 r0 Eqc.
    rewrite removelast_snoc. rewrite app_length in Hlen. cbn [length] in Hlen.
    rewrite spec_mk_snoc in Hspec. fold (lstat t q) in Hspec. cbn [app] in Hspec.
    rewrite lstat_snoc in El.
    destruct (lstat t q) as [[| |]| | |] eqn:Eq; try discriminate.
    + (* the parent is a directory, the path is missing *)
      destruct (kind_at t (q ++ [c])) as [k|] eqn:Ek; [discriminate|]. inversion Hspec; subst r. clear Hspec.
      pose proof (spec_mk_look t q []) as Hq. fold (lstat t q) in Hq. rewrite Eq in Hq.
      destruct (IH t q (TOk, t) Hwf ltac:(lia) Hq) as [Hc [Hpost _]]. rewrite Hc.
      destruct (mk_post_snoc t q c t (Hpost eq_refl) Ek) as [Hp2 Hn1]. cbn [snd] in *.
      unfold p_mkdir. destruct (q ++ [c]) as [|x0 r0] eqn:Eqc; [exfalso; exact (snoc_ne _ _ Eqc)|]. rewrite <- Eqc in *. clear x0 r0 Eqc.
      rewrite removelast_snoc, stat_of_lstat, Eq, Ek. cbn [fst snd]. split; [reflexivity|]. split; [intros _; exact Hp2 | intros H; contradiction H; reflexivity].
    + (* the parent is missing as well *)
      destruct (spec_mk t [] q) as [[[| |] t1]|] eqn:Esq; try discriminate.
      * inversion Hspec; subst r. clear Hspec.
        destruct (IH t q (TOk, t1) Hwf ltac:(lia) Esq) as [Hc [Hpost _]]. rewrite Hc. cbn [fst snd] in *.
        assert (Ek : kind_at t (q ++ [c]) = None).
        { apply lstat_not_kind_none; [exact Hwf|]. intros k. rewrite lstat_snoc, Eq. discriminate. }
        destruct (mk_post_snoc t q c t1 (Hpost eq_refl) Ek) as [Hp2 Hn1].
        destruct (Hpost eq_refl) as [Hwf1 [Hq1 _]].
        unfold p_mkdir. destruct (q ++ [c]) as [|x0 r0] eqn:Eqc; [exfalso; exact (snoc_ne _ _ Eqc)|]. rewrite <- Eqc in *. clear x0 r0 Eqc.
        rewrite removelast_snoc, stat_of_lstat, (lstat_exists t1 q KDir Hwf1 Hq1), Hn1.
        split; [reflexivity|]. split; [intros _; exact Hp2 | intros H; contradiction H; reflexivity].
      * inversion Hspec; subst r. clear Hspec.
        destruct (IH t q (TNotExist, t1) Hwf ltac:(lia) Esq) as [Hc [_ Hsame]]. rewrite Hc. cbn [fst snd] in *.
        split; [reflexivity|]. split; [discriminate | intros _; apply Hsame; discriminate].
      * inversion Hspec; subst r. clear Hspec.
        destruct (IH t q (TOther, t1) Hwf ltac:(lia) Esq) as [Hc [_ Hsame]]. rewrite Hc. cbn [fst snd] in *.
        split; [reflexivity|]. split; [discriminate | intros _; apply Hsame; discriminate].
  - (* a file on the way *)
    rewrite Hlook in Hspec. inversion Hspec; subst r. clear Hspec.
    destruct (snoc_cases p) as [->|[q [c ->]]]; [rewrite lstat_root in El; discriminate|].
    destruct (q ++ [c]) as [|x0 r0] eqn:Eqc; [exfalso; exact (snoc_ne _ _ Eqc)|]. rewrite <- Eqc in *. clear x0 r0 Eqc.
    rewrite removelast_snoc. rewrite app_length in Hlen. cbn [length] in Hlen. rewrite lstat_snoc in El.
    pose proof (spec_mk_look t q []) as Hq. fold (lstat t q) in Hq.
    assert (Hsq : spec_mkdirall t q = Some (TOther, t)).
    { unfold spec_mkdirall. destruct (lstat t q) as [[| |]| | |]; try discriminate; try exact Hq.
      destruct (kind_at t (q ++ [c])); discriminate. }
    destruct (IH t q (TOther, t) Hwf ltac:(lia) Hsq) as [Hc _]. rewrite Hc. cbn [fst snd].
    split; [reflexivity|]. split; [discriminate | reflexivity].
  - rewrite Hlook in Hspec. discriminate.
Qed.

Theorem mkdirall_refines : forall t p r, wf t -> spec_mkdirall t p = Some r -> c_mkdirall (S (length p)) t p = Some r.
Proof. intros t p r Hwf H. apply (mkdirall_refines_post (S (length p)) t p r Hwf); [lia | exact H]. Qed.

(* what os.MkdirAll leaves behind: the path is a directory, nothing that was there is touched, and everything new is a
   directory on the way to the path; a failure changes nothing *)
Theorem spec_mkdirall_post : forall t p c t1, wf t -> spec_mkdirall t p = Some (c, t1) ->
  (c = TOk -> wf t1 /\ kind_at t1 p = Some KDir /\ (forall x k, In (x, k) t -> In (x, k) t1) /\
              (forall x k, In (x, k) t1 -> In (x, k) t \/ (under x p = true /\ k = KDir))) /\
  (c <> TOk -> t1 = t).
Proof.
  intros t p c t1 Hwf H. destruct (mkdirall_refines_post (S (length p)) t p (c, t1) Hwf ltac:(lia) H) as [_ [Hok Hfail]].
  cbn [fst snd] in *. split; [|exact Hfail]. intros Hc. destruct (Hok Hc) as [H1 [H2 [H3 H4]]]. split; [exact H1|split; [exact H2|split; [exact H4|exact H3]]].
Qed.

(* ---------- Remove ---------- *)
Lemma p_remove_fail_same : forall t p c t', p_remove t p = Some (c, t') -> c <> TOk -> t' = t.
Proof.
  intros t p c t' H Hc. unfold p_remove in H. destruct p as [|x p]; [discriminate|].
  destruct (lstat t (x :: p)) as [[| |]| | |]; try discriminate.
  - destruct (children t (x :: p)); inversion H; subst; [contradiction Hc; reflexivity | reflexivity].
  - inversion H; subst. contradiction Hc; reflexivity.
  - inversion H; subst. contradiction Hc; reflexivity.
  - inversion H; subst. reflexivity.
  - inversion H; subst. reflexivity.
Qed.

(* Client.Remove against this server is os.Remove: the RMDIR fallback repeats the same call on the same tree *)
Theorem c_remove_is_os_remove : forall t p, c_remove t p = p_remove t p.
Proof.
  intros t p. unfold c_remove. destruct (p_remove t p) as [[c t']|] eqn:E; [|reflexivity].
  destruct c; try reflexivity.
  - rewrite (p_remove_fail_same t p TNotExist t' E) by discriminate. reflexivity.
  - rewrite (p_remove_fail_same t p TOther t' E) by discriminate. reflexivity.
Qed.

(* ---------- RemoveAll ---------- *)
Definition notunder (c : path) (e : path * kind) : bool := negb (under c (fst e)).
Definition cnt (t : tree) (p : path) : nat := length (filter (fun e => under p (fst e)) t).

Lemma filter_filter {A} : forall (f g : A -> bool) l, filter g (filter f l) = filter (fun x => f x && g x) l.
Proof.
  intros f g. induction l as [|a l IH]; cbn [filter]; [reflexivity|].
  destruct (f a); cbn [filter andb]; [destruct (g a); rewrite IH; reflexivity | exact IH].
Qed.

Lemma assoc_filter_path : forall (g : path -> bool) t p,
  assoc (filter (fun e => g (fst e)) t) p = if g p then assoc t p else None.
Proof.
  intros g. induction t as [|[q k] t IH]; intros p; cbn [filter assoc fst]; [destruct (g p); reflexivity|].
  destruct (g q) eqn:Eg; cbn [assoc].
  - destruct (path_eqb q p) eqn:E; [apply path_eqb_eq in E; subst; rewrite Eg; reflexivity | apply IH].
  - destruct (path_eqb q p) eqn:E; [apply path_eqb_eq in E; subst; rewrite IH, Eg; reflexivity | apply IH].
Qed.

Lemma nodup_map_filter : forall (f : path * kind -> bool) t, NoDup (map fst t) -> NoDup (map fst (filter f t)).
Proof.
  intros f. induction t as [|e t IH]; intros H; cbn [filter map]; [constructor|]. cbn [map] in H. inversion H as [|? ? Hni Hnd]; subst.
  destruct (f e); cbn [map]; [|apply IH; exact Hnd]. constructor; [|apply IH; exact Hnd].
  intros Hin. apply Hni. apply in_map_iff in Hin. destruct Hin as [x [Hx Hin]]. apply filter_In in Hin. destruct Hin as [Hin _].
  apply in_map_iff. exists x. split; assumption.
Qed.

Lemma under_removelast : forall c q, under c (removelast q) = true -> under c q = true.
Proof.
  intros c q H. destruct (snoc_cases q) as [->|[q' [x ->]]]; [exact H|]. rewrite removelast_snoc in H.
  eapply under_trans; [exact H | apply under_app].
Qed.

Lemma wf_filter_notunder : forall t c, wf t -> c <> [] -> wf (filter (notunder c) t).
Proof.
  intros t c [Hnd Hp] Hc. split; [apply nodup_map_filter; exact Hnd|].
  intros q k Hin. apply filter_In in Hin. destruct Hin as [Hin Hnu]. destruct (Hp q k Hin) as [Hq Hk]. split; [exact Hq|].
  unfold notunder in Hnu. cbn [fst] in Hnu. apply negb_true_iff in Hnu.
  destruct (removelast q) as [|x r] eqn:Er; [reflexivity|]. cbn [kind_at] in *. unfold notunder.
  rewrite (assoc_filter_path (fun p => negb (under c p)) t (x :: r)).
  destruct (under c (x :: r)) eqn:Eu; [|exact Hk]. exfalso. rewrite <- Er in Eu. apply under_removelast in Eu. congruence.
Qed.

Lemma kind_at_filter_notunder : forall t c p, c <> [] -> under c p = false -> kind_at (filter (notunder c) t) p = kind_at t p.
Proof.
  intros t c [|x p] Hc Hu; [reflexivity|]. cbn [kind_at]. unfold notunder.
  rewrite (assoc_filter_path (fun p => negb (under c p)) t (x :: p)), Hu. reflexivity.
Qed.

(* below something that is not a directory there is nothing *)
Lemma nondir_leaf : forall t p k e, wf t -> kind_at t p = Some k -> k <> KDir -> In e t -> under p (fst e) = path_eqb (fst e) p.
Proof.
  intros t p k [q l] Hwf Hk Hnd Hin. cbn [fst]. destruct (under p q) eqn:Eu.
  - apply under_iff in Eu. destruct Eu as [r ->]. destruct r as [|x r]; [rewrite app_nil_r; symmetry; apply path_eqb_refl|].
    exfalso. assert (Hq : kind_at t (p ++ x :: r) = Some l).
    { rewrite kind_at_cons by (destruct p; discriminate). apply in_assoc; [apply Hwf | exact Hin]. }
    rewrite (wf_ancestor t p (x :: r) l Hwf Hq) in Hk by discriminate. inversion Hk. congruence.
  - symmetry. apply path_eqb_neq. intros ->. rewrite under_refl in Eu. discriminate.
Qed.

Lemma remove_entry_is_filter : forall t p k, wf t -> kind_at t p = Some k -> k <> KDir -> remove_entry t p = filter (notunder p) t.
Proof.
  intros t p k Hwf Hk Hnd. unfold remove_entry, notunder. apply filter_ext_in. intros e Hin.
  rewrite (nondir_leaf t p k e Hwf Hk Hnd Hin). reflexivity.
Qed.

Lemma in_children : forall t p e, In e (children t p) <-> In e t /\ exists x, fst e = p ++ [x].
Proof.
  intros t p e. unfold children. rewrite filter_In. unfold is_child. split; intros [Hin H]; (split; [exact Hin|]).
  - apply andb_true_iff in H. destruct H as [Hu Hl]. apply under_iff in Hu. destruct Hu as [r Hr]. apply Nat.eqb_eq in Hl.
    rewrite Hr, app_length in Hl. destruct r as [|x [|y r]]; cbn [length] in Hl; try lia. exists x. exact Hr.
  - destruct H as [x Hx]. rewrite Hx. rewrite under_app. rewrite app_length. cbn [length]. rewrite Nat.add_1_r, Nat.eqb_refl. reflexivity.
Qed.

(* an entry below p is p itself or lies below (or is) one of p's children *)
Lemma under_split : forall t p e, wf t -> In e t -> under p (fst e) = true ->
  fst e = p \/ exists c, In c (children t p) /\ under (fst c) (fst e) = true.
Proof.
  intros t p [q l] Hwf Hin Hu. cbn [fst] in *. apply under_iff in Hu. destruct Hu as [r ->]. destruct r as [|x r]; [left; apply app_nil_r|].
  right. assert (Hq : kind_at t (p ++ x :: r) = Some l).
  { rewrite kind_at_cons by (destruct p; discriminate). apply in_assoc; [apply Hwf | exact Hin]. }
  destruct r as [|y r].
  - exists (p ++ [x], l). split; [apply in_children; split; [exact Hin | exists x; reflexivity] | apply under_refl].
  - assert (Hc : kind_at t (p ++ [x]) = Some KDir).
    { apply (wf_ancestor t (p ++ [x]) (y :: r) l Hwf); [rewrite <- app_assoc; exact Hq | discriminate]. }
    rewrite kind_at_cons in Hc by apply snoc_ne. apply assoc_in in Hc.
    exists (p ++ [x], KDir). split; [apply in_children; split; [exact Hc | exists x; reflexivity]|].
    cbn [fst]. apply under_iff. exists (y :: r). rewrite <- app_assoc. reflexivity.
Qed.

Lemma cnt_filter_le : forall t c p, cnt (filter (notunder c) t) p <= cnt t p.
Proof.
  intros t c p. unfold cnt. rewrite filter_filter. induction t as [|e t IH]; cbn [filter length]; [lia|].
  destruct (notunder c e); cbn [andb]; destruct (under p (fst e)); cbn [length]; lia.
Qed.

Lemma cnt_child_lt : forall t p x k, In (p, k) t -> cnt t (p ++ [x]) < cnt t p.
Proof.
  intros t p x k Hin. unfold cnt. induction t as [|e t IH]; [destruct Hin|]. cbn [filter].
  assert (Himp : forall q, under (p ++ [x]) q = true -> under p q = true) by (intros q H; eapply under_trans; [apply under_app | exact H]).
  assert (Hle : forall t' : tree, length (filter (fun e : path * kind => under (p ++ [x]) (fst e)) t') <= length (filter (fun e : path * kind => under p (fst e)) t')).
  { induction t' as [|a t' IH']; cbn [filter length]; [lia|]. destruct (under (p ++ [x]) (fst a)) eqn:E1.
    - rewrite (Himp _ E1). cbn [length]. lia.
    - destruct (under p (fst a)); cbn [length]; lia. }
  destruct Hin as [->|Hin].
  - cbn [fst]. rewrite under_snoc_self, under_refl. cbn [length]. specialize (Hle t). lia.
  - specialize (IH Hin). destruct (under (p ++ [x]) (fst e)) eqn:E1; [rewrite (Himp _ E1); cbn [length]; lia|].
    destruct (under p (fst e)); cbn [length]; lia.
Qed.

Lemma wf_filter_up : forall t (g : path -> bool), wf t ->
  (forall q, g q = true -> removelast q <> [] -> g (removelast q) = true) -> wf (filter (fun e => g (fst e)) t).
Proof.
  intros t g [Hnd Hp] Hup. split; [apply nodup_map_filter; exact Hnd|].
  intros q k Hin. apply filter_In in Hin. destruct Hin as [Hin Hg]. cbn [fst] in Hg. destruct (Hp q k Hin) as [Hq Hk]. split; [exact Hq|].
  destruct (removelast q) as [|x r] eqn:Er; [reflexivity|]. cbn [kind_at] in *.
  rewrite assoc_filter_path. rewrite <- Er. rewrite (Hup q Hg) by (rewrite Er; discriminate). rewrite Er. exact Hk.
Qed.

Definition notunder_any (cs : list (path * kind)) (q : path) : bool := negb (existsb (fun c => under (fst c) q) cs).

Lemma notunder_any_up : forall cs q, notunder_any cs q = true -> notunder_any cs (removelast q) = true.
Proof.
  intros cs q H. unfold notunder_any in *. apply negb_true_iff in H. apply negb_true_iff.
  destruct (existsb (fun c => under (fst c) (removelast q)) cs) eqn:E; [|reflexivity].
  apply existsb_exists in E. destruct E as [c [Hin Hu]]. apply under_removelast in Hu.
  assert (existsb (fun c => under (fst c) q) cs = true) by (apply existsb_exists; exists c; split; assumption). congruence.
Qed.

Lemma under_sibling : forall p x y, x <> y -> under (p ++ [x]) (p ++ [y]) = false.
Proof.
  intros p x y Hne. destruct (under (p ++ [x]) (p ++ [y])) eqn:E; [|reflexivity]. exfalso.
  apply under_iff in E. destruct E as [r Hr]. rewrite <- app_assoc in Hr. apply app_inv_head in Hr. cbn [app] in Hr. inversion Hr. congruence.
Qed.

Lemma p_remove_ne : forall t p, p <> [] -> p_remove t p =
  match lstat t p with
  | LKind KDir => match children t p with [] => Some (TOk, remove_entry t p) | _ => Some (TOther, t) end
  | LKind _ => Some (TOk, remove_entry t p)
  | LNoEnt => Some (TNotExist, t)
  | LNotDir => Some (TOther, t)
  | LUndef => None
  end.
Proof. intros t [|x p] H; [contradiction | reflexivity]. Qed.

Definition RA (f : nat) : Prop := forall t p k, wf t -> p <> [] -> cnt t p < f -> lstat t p = LKind k ->
  c_removeall f t p = Some (TOk, filter (notunder p) t).

Lemma c_remove_nondir : forall t q k, wf t -> q <> [] -> In (q, k) t -> k <> KDir -> c_remove t q = Some (TOk, filter (notunder q) t).
Proof.
  intros t q k Hwf Hq Hin Hk. rewrite c_remove_is_os_remove. unfold p_remove. destruct q as [|x q]; [contradiction|].
  assert (Hka : kind_at t (x :: q) = Some k) by (cbn [kind_at]; apply in_assoc; [apply Hwf | exact Hin]).
  rewrite (lstat_exists t (x :: q) k Hwf Hka). rewrite <- (remove_entry_is_filter t (x :: q) k Hwf Hka Hk).
  destruct k; [contradiction Hk; reflexivity | reflexivity | reflexivity].
Qed.

Lemma fold_ra : forall f, RA f -> forall cs t1, wf t1 -> NoDup (map fst cs) ->
  (forall c, In c cs -> In c t1 /\ fst c <> [] /\ cnt t1 (fst c) < f) ->
  (forall c d, In c cs -> In d cs -> fst c <> fst d -> under (fst c) (fst d) = false) ->
  fold_left (ra_step (c_removeall f)) cs (Some (TOk, t1)) = Some (TOk, filter (fun e => notunder_any cs (fst e)) t1).
Proof.
  intros f HRA. induction cs as [|[q k] cs IH]; intros t1 Hwf Hnd Hall Hpair; cbn [fold_left].
  - unfold notunder_any. cbn [existsb negb]. f_equal. f_equal. clear. induction t1 as [|e t IH]; cbn [filter]; [reflexivity | f_equal; exact IH].
  - destruct (Hall (q, k) (or_introl eq_refl)) as [Hin [Hq Hc]]. cbn [fst] in *.
    assert (Hstep : ra_step (c_removeall f) (Some (TOk, t1)) (q, k) = Some (TOk, filter (notunder q) t1)).
    { unfold ra_step. cbn [snd fst]. destruct k.
      - apply (HRA t1 q KDir Hwf Hq Hc). apply lstat_exists; [exact Hwf|].
        rewrite kind_at_cons by exact Hq. apply in_assoc; [apply Hwf | exact Hin].
      - apply (c_remove_nondir t1 q KFile Hwf Hq Hin). discriminate.
      - apply (c_remove_nondir t1 q KLink Hwf Hq Hin). discriminate. }
    rewrite Hstep. cbn [map fst] in Hnd. inversion Hnd as [|? ? Hni Hnd']; subst.
    rewrite IH.
    + f_equal. f_equal. rewrite filter_filter. apply filter_ext_in. intros e _. unfold notunder, notunder_any. cbn [existsb fst].
      rewrite negb_orb. reflexivity.
    + apply wf_filter_notunder; assumption.
    + exact Hnd'.
    + intros d Hd. destruct (Hall d (or_intror Hd)) as [Hdin [Hdq Hdc]]. split; [|split; [exact Hdq|]].
      * apply filter_In. split; [exact Hdin|]. unfold notunder. apply negb_true_iff.
        apply (Hpair (q, k) d (or_introl eq_refl) (or_intror Hd)). cbn [fst]. intros Heq. apply Hni. rewrite Heq. apply in_map. exact Hd.
      * pose proof (cnt_filter_le t1 q (fst d)). lia.
    + intros c d Hc' Hd' Hne. apply Hpair; [right; exact Hc' | right; exact Hd' | exact Hne].
Qed.

Lemma RA_all : forall f, RA f.
Proof.
  induction f as [|f IH]; intros t p k Hwf Hp Hcnt Hl; [lia|]. cbn [c_removeall].
  destruct p as [|x0 p0] eqn:Ep; [contradiction|]. rewrite <- Ep in *. clear x0 p0 Ep. rewrite Hl.
  pose proof (lstat_kind t p k Hl) as Hka. assert (Hin : In (p, k) t) by (rewrite kind_at_cons in Hka by exact Hp; apply assoc_in; exact Hka).
  destruct k; [| apply (c_remove_nondir t p KFile Hwf Hp Hin); discriminate | apply (c_remove_nondir t p KLink Hwf Hp Hin); discriminate].
  set (cs := children t p).
  assert (Hcs : forall c, In c cs -> In c t /\ exists x, fst c = p ++ [x]) by (intros c Hc; apply in_children; exact Hc).
  rewrite (fold_ra f IH cs t Hwf).
  - (* the directory itself: empty by now *)
    set (t1 := filter (fun e => notunder_any cs (fst e)) t).
    assert (Hwf1 : wf t1) by (apply wf_filter_up; [exact Hwf | intros q Hg _; apply notunder_any_up; exact Hg]).
    assert (Hnp : notunder_any cs p = true).
    { unfold notunder_any. apply negb_true_iff. destruct (existsb (fun c => under (fst c) p) cs) eqn:E; [|reflexivity].
      apply existsb_exists in E. destruct E as [c [Hc Hu]]. destruct (Hcs c Hc) as [_ [x Hx]]. rewrite Hx, under_snoc_self in Hu. discriminate. }
    assert (Hk1 : kind_at t1 p = Some KDir).
    { rewrite kind_at_cons in * by exact Hp. unfold t1. rewrite assoc_filter_path, Hnp. exact Hka. }
    rewrite c_remove_is_os_remove. rewrite (p_remove_ne t1 p Hp).
    rewrite (lstat_exists t1 p KDir Hwf1 Hk1).
    destruct (children t1 p) as [|e l] eqn:Ech.
    + f_equal. f_equal. unfold remove_entry, t1. rewrite filter_filter. apply filter_ext_in. intros e He. unfold notunder.
      destruct (under p (fst e)) eqn:Eu; cbn [negb].
      * destruct (under_split t p e Hwf He Eu) as [Heq|[c [Hc Hu]]].
        -- rewrite Heq, path_eqb_refl. cbn [negb]. apply andb_false_r.
        -- unfold notunder_any. assert (Hex : existsb (fun c => under (fst c) (fst e)) cs = true) by (apply existsb_exists; exists c; split; assumption).
           rewrite Hex. reflexivity.
      * assert (Hne : path_eqb (fst e) p = false) by (apply path_eqb_neq; intros Heq; rewrite Heq, under_refl in Eu; discriminate).
        rewrite Hne. cbn [negb]. rewrite andb_true_r. unfold notunder_any. apply negb_true_iff.
        destruct (existsb (fun c => under (fst c) (fst e)) cs) eqn:E; [|reflexivity]. exfalso.
        apply existsb_exists in E. destruct E as [c [Hc Hu]]. destruct (Hcs c Hc) as [_ [x Hx]].
        assert (under p (fst e) = true) by (eapply under_trans; [|exact Hu]; rewrite Hx; apply under_app). congruence.
    + exfalso. assert (He : In e (children t1 p)) by (rewrite Ech; left; reflexivity).
      apply in_children in He. destruct He as [He1 [x Hx]]. unfold t1 in He1. apply filter_In in He1. destruct He1 as [Het Hg].
      unfold notunder_any in Hg. apply negb_true_iff in Hg.
      assert (Hex : existsb (fun c => under (fst c) (fst e)) cs = true).
      { apply existsb_exists. exists e. split; [apply in_children; split; [exact Het | exists x; exact Hx] | apply under_refl]. }
      congruence.
  - apply nodup_map_filter. apply Hwf.
  - intros c Hc. destruct (Hcs c Hc) as [Hct [x Hx]]. split; [exact Hct|]. split; [rewrite Hx; apply snoc_ne|].
    rewrite Hx. pose proof (cnt_child_lt t p x KDir Hin). lia.
  - intros c d Hc Hd Hne. destruct (Hcs c Hc) as [_ [x Hx]]. destruct (Hcs d Hd) as [_ [y Hy]]. rewrite Hx, Hy in *.
    apply under_sibling. intros ->. apply Hne. reflexivity.
Qed.

(* Client.RemoveAll removes exactly the sub-tree (what os.RemoveAll does), wherever no symbolic link has to be followed;
   the documented difference - a missing path is an error - is part of the specification *)
Theorem removeall_refines : forall fuel t p r, wf t -> cnt t p < fuel -> spec_removeall t p = Some r -> c_removeall fuel t p = Some r.
Proof.
  intros fuel t p r Hwf Hc Hs. unfold spec_removeall in Hs. destruct p as [|x0 p0] eqn:Ep; [discriminate|]. rewrite <- Ep in *.
  assert (Hp : p <> []) by (rewrite Ep; discriminate). clear x0 p0 Ep.
  destruct (lstat t p) as [k| | |] eqn:El.
  - inversion Hs; subst r. apply (RA_all fuel t p k Hwf Hp Hc El).
  - inversion Hs; subst r. destruct fuel; [lia|]. cbn [c_removeall]. destruct p; [contradiction|]. rewrite El. reflexivity.
  - inversion Hs; subst r. destruct fuel; [lia|]. cbn [c_removeall]. destruct p; [contradiction|]. rewrite El. reflexivity.
  - discriminate.
Qed.

(* what is left after a successful RemoveAll: nothing at or below the path, everything else as it was, still well formed *)
Theorem spec_removeall_post : forall t p t1, wf t -> spec_removeall t p = Some (TOk, t1) ->
  wf t1 /\ (forall x k, In (x, k) t1 <-> In (x, k) t /\ under p x = false).
Proof.
  intros t p t1 Hwf Hs. unfold spec_removeall in Hs. destruct p as [|x0 p0] eqn:Ep; [discriminate|]. rewrite <- Ep in *.
  assert (Hp : p <> []) by (rewrite Ep; discriminate). clear x0 p0 Ep.
  destruct (lstat t p) as [k| | |]; try discriminate. inversion Hs; subst t1. split.
  - apply (wf_filter_notunder t p Hwf Hp).
  - intros x k0. rewrite filter_In. unfold notunder. cbn [fst]. rewrite negb_true_iff. reflexivity.
Qed.

(* RemoveDirectory: the server answers RMDIR with os.Remove, which agrees with rmdir(2) on directories and on what is not
   there, and differs on files and links (finding F17: they are removed) *)
Theorem rmdir_agrees_on_dirs : forall t p k, lstat t p = LKind k -> (k = KDir <-> p_remove t p = p_rmdir t p) \/ p = [].
Proof.
  intros t [|x p] k H; [right; reflexivity|]. left. unfold p_remove, p_rmdir. rewrite H. destruct k.
  - split; reflexivity.
  - split; [discriminate | intros E; discriminate].
  - split; [discriminate | intros E; discriminate].
Qed.

Theorem rmdir_on_a_file_refuted : exists t p, wf t /\ p_remove t p = Some (TOk, []) /\ p_rmdir t p = Some (TOther, t).
Proof.
  exists [([1], KFile)], [1]. split; [|split; reflexivity].
  split; [repeat constructor; intros [] | intros p k [H|[]]; inversion H; subst; split; [discriminate | reflexivity]].
Qed.

(* ---------- sequences of operations ---------- *)
Lemma remove_leaf_is_filter : forall t p, wf t -> children t p = [] -> remove_entry t p = filter (notunder p) t.
Proof.
  intros t p Hwf Hch. unfold remove_entry, notunder. apply filter_ext_in. intros e He.
  destruct (under p (fst e)) eqn:Eu.
  - destruct (under_split t p e Hwf He Eu) as [Heq|[c [Hc _]]]; [rewrite Heq, path_eqb_refl; reflexivity | rewrite Hch in Hc; destruct Hc].
  - rewrite path_eqb_neq; [reflexivity|]. intros Heq. rewrite Heq, under_refl in Eu. discriminate.
Qed.

Lemma p_remove_wf : forall t p c t', wf t -> p_remove t p = Some (c, t') -> wf t'.
Proof.
  intros t p c t' Hwf H. destruct p as [|x p]; [discriminate|]. assert (Hp : x :: p <> []) by discriminate.
  rewrite (p_remove_ne t (x :: p) Hp) in H. destruct (lstat t (x :: p)) as [[| |]| | |] eqn:El; try discriminate.
  - destruct (children t (x :: p)) eqn:Ech; inversion H; subst; [|exact Hwf].
    rewrite (remove_leaf_is_filter t (x :: p) Hwf Ech). apply wf_filter_notunder; assumption.
  - inversion H; subst. rewrite (remove_entry_is_filter t (x :: p) KFile Hwf (lstat_kind _ _ _ El)) by discriminate. apply wf_filter_notunder; assumption.
  - inversion H; subst. rewrite (remove_entry_is_filter t (x :: p) KLink Hwf (lstat_kind _ _ _ El)) by discriminate. apply wf_filter_notunder; assumption.
  - inversion H; subst. exact Hwf.
  - inversion H; subst. exact Hwf.
Qed.

Lemma p_rmdir_wf : forall t p c t', wf t -> p_rmdir t p = Some (c, t') -> wf t'.
Proof.
  intros t p c t' Hwf H. destruct p as [|x p]; [discriminate|]. assert (Hp : x :: p <> []) by discriminate.
  unfold p_rmdir in H. destruct (lstat t (x :: p)) as [[| |]| | |] eqn:El; try discriminate; try (inversion H; subst; exact Hwf).
  destruct (children t (x :: p)) eqn:Ech; inversion H; subst; [|exact Hwf].
  rewrite (remove_leaf_is_filter t (x :: p) Hwf Ech). apply wf_filter_notunder; assumption.
Qed.

Lemma p_mkdir_wf : forall t p c t', wf t -> p_mkdir t p = Some (c, t') -> wf t'.
Proof.
  intros t p c t' Hwf H. destruct p as [|x p]; [inversion H; subst; exact Hwf|]. unfold p_mkdir in H. rewrite stat_of_lstat in H.
  destruct (lstat t (removelast (x :: p))) as [[| |]| | |] eqn:El; try discriminate; try (inversion H; subst; exact Hwf).
  destruct (kind_at t (x :: p)) eqn:Ek; inversion H; subst; [exact Hwf|].
  apply wf_snoc; [exact Hwf | discriminate | exact Ek | apply lstat_kind; exact El].
Qed.

(* the operations of the model, as package os performs them (specifications) and as the Client performs them *)
Inductive fsop := OMkdir (p : path) | ORemove (p : path) | ORmdir (p : path) | OMkdirAll (p : path) | ORemoveAll (p : path).

Definition os_op (t : tree) (o : fsop) : option (cat * tree) :=
  match o with
  | OMkdir p => p_mkdir t p
  | ORemove p => p_remove t p
  | ORmdir p => p_remove t p          (* what the server does for RMDIR; rmdir(2) itself is p_rmdir *)
  | OMkdirAll p => spec_mkdirall t p
  | ORemoveAll p => spec_removeall t p
  end.

Definition client_op (t : tree) (o : fsop) : option (cat * tree) :=
  match o with
  | OMkdir p => p_mkdir t p
  | ORemove p => c_remove t p
  | ORmdir p => p_remove t p
  | OMkdirAll p => c_mkdirall (S (length p)) t p
  | ORemoveAll p => c_removeall (S (cnt t p)) t p
  end.

(* a sequence of operations: the outcome of each and the tree at the end; None as soon as one step is outside the model *)
Fixpoint run_ops (step : tree -> fsop -> option (cat * tree)) (t : tree) (ops : list fsop) : option (list cat * tree) :=
  match ops with
  | [] => Some ([], t)
  | o :: rest =>
      match step t o with
      | Some (c, t1) => match run_ops step t1 rest with Some (cs, t2) => Some (c :: cs, t2) | None => None end
      | None => None
      end
  end.

Lemma os_op_wf : forall t o c t', wf t -> os_op t o = Some (c, t') -> wf t'.
Proof.
  intros t o c t' Hwf H. destruct o as [p|p|p|p|p]; cbn [os_op] in H.
  - exact (p_mkdir_wf t p c t' Hwf H).
  - exact (p_remove_wf t p c t' Hwf H).
  - exact (p_remove_wf t p c t' Hwf H).
  - destruct (spec_mkdirall_post t p c t' Hwf H) as [Hok Hfail]. destruct c; [apply Hok; reflexivity | rewrite Hfail by discriminate; exact Hwf | rewrite Hfail by discriminate; exact Hwf].
  - destruct c.
    + apply (spec_removeall_post t p t' Hwf H).
    + unfold spec_removeall in H. destruct p; [discriminate|]. destruct (lstat t (n :: p)); inversion H; subst; exact Hwf.
    + unfold spec_removeall in H. destruct p; [discriminate|]. destruct (lstat t (n :: p)); inversion H; subst; exact Hwf.
Qed.

Lemma client_op_refines : forall t o r, wf t -> os_op t o = Some r -> client_op t o = Some r.
Proof.
  intros t o r Hwf H. destruct o as [p|p|p|p|p]; cbn [os_op client_op] in *.
  - exact H.
  - rewrite c_remove_is_os_remove. exact H.
  - exact H.
  - apply mkdirall_refines; assumption.
  - apply removeall_refines; [exact Hwf | lia | exact H].
Qed.

(* ANY sequence of these operations, started on a well-formed tree: every tree on the way is well formed, and the Client's
   composites produce the outcomes and the tree that package os's operations produce *)
Theorem run_ops_wf : forall ops t cs t', wf t -> run_ops os_op t ops = Some (cs, t') -> wf t'.
Proof.
  induction ops as [|o ops IH]; intros t cs t' Hwf H; cbn [run_ops] in H; [inversion H; subst; exact Hwf|].
  destruct (os_op t o) as [[c t1]|] eqn:E; [|discriminate].
  destruct (run_ops os_op t1 ops) as [[cs1 t2]|] eqn:E2; [|discriminate]. inversion H; subst.
  apply (IH t1 cs1 t' (os_op_wf t o c t1 Hwf E) E2).
Qed.

Theorem client_sequences_refine_os : forall ops t r, wf t -> run_ops os_op t ops = Some r -> run_ops client_op t ops = Some r.
Proof.
  induction ops as [|o ops IH]; intros t r Hwf H; cbn [run_ops] in *; [exact H|].
  destruct (os_op t o) as [[c t1]|] eqn:E; [|discriminate].
  rewrite (client_op_refines t o (c, t1) Hwf E).
  destruct (run_ops os_op t1 ops) as [[cs1 t2]|] eqn:E2; [|discriminate].
  rewrite (IH t1 (cs1, t2) (os_op_wf t o c t1 Hwf E) E2). exact H.
Qed.

Lemma wf_empty : wf [].
Proof. split; [constructor | intros p k []]. Qed.

End FsTreeP.
