From Coq Require Import List NArith Bool Lia Strings.Byte.
From Sftp Require Import Base.GoSem Wire.Prim Wire.Packets Srv.Negotiate Srv.ReadOnly Proofs.PrimP Proofs.WireRtP Proofs.WirePktP.
Import ListNotations.
Open Scope N_scope.

(* the client accepts exactly: type VERSION, a 4-byte version equal to 3, and well-formed pairs to the end *)
Theorem client_accepts_iff : forall typ data exts,
  recv_version typ data = Ok exts <->
  (typ = t_version /\ exists rest, u32_dec_safe data = Ok (3, rest) /\ pairs_all_dec (length rest) rest = Ok exts).
Proof.
  intros typ data exts. unfold recv_version. split.
  - destruct (typ =? t_version) eqn:Et; cbn [negb]; [|discriminate]. apply N.eqb_eq in Et.
    destruct (u32_dec_safe data) as [[v rest]| |] eqn:Ev; cbn [bind]; try discriminate.
    destruct (v =? 3) eqn:E3; cbn [negb]; [|discriminate]. apply N.eqb_eq in E3. subst v.
    intros H. split; [exact Et|]. exists rest. split; [reflexivity | exact H].
  - intros [Et [rest [Ev Hp]]]. subst typ. rewrite N.eqb_refl. cbn [negb]. rewrite Ev. cbn [bind]. exact Hp.
Qed.

Theorem client_rejects_other_versions : forall data v rest,
  u32_dec_safe data = Ok (v, rest) -> v <> 3 -> recv_version t_version data = Err EVersion.
Proof.
  intros data v rest Ev Hv. unfold recv_version. rewrite N.eqb_refl. cbn [negb]. rewrite Ev. cbn [bind].
  replace (v =? 3) with false by (symmetry; apply N.eqb_neq; exact Hv). reflexivity.
Qed.

Theorem client_rejects_wrong_type : forall typ data, typ <> t_version -> recv_version typ data = Err EUnexpectedType.
Proof.
  intros typ data H. unfold recv_version. replace (typ =? t_version) with false by (symmetry; apply N.eqb_neq; exact H). reflexivity.
Qed.

(* what the client reports is what the server advertised *)
Theorem reported_eq_advertised : forall adv,
  forallb wf_pair adv = true ->
  recv_version t_version (render (fieldsA (version_reply adv))) = Ok adv.
Proof.
  intros adv Hwf. unfold recv_version, version_reply. rewrite N.eqb_refl. cbn [negb fieldsA render flat_map render_fld].
  rewrite app_nil_r, u32_dec_safe_enc. cbn [bind]. change (3 mod p32) with 3. rewrite N.eqb_refl. cbn [negb].
  apply pairs_all_dec_enc; [exact Hwf|]. pose proof (pairs_enc_length_ge adv). lia.
Qed.

Lemma lookup_first_supported_wf name p : lookup_first supported name = Some p -> wf_pair p = true /\ In p supported.
Proof.
  unfold supported. cbn [lookup_first].
  destruct (bytes_eqb n_hardlink name); [intros H; inversion H; subst; split; [reflexivity | left; reflexivity]|].
  destruct (bytes_eqb n_posix_rename name); [intros H; inversion H; subst; split; [reflexivity | right; left; reflexivity]|].
  destruct (bytes_eqb n_statvfs name); [intros H; inversion H; subst; split; [reflexivity | right; right; left; reflexivity]|].
  discriminate.
Qed.

Lemma resolve_sub : forall names l, resolve names = Some l -> Forall (fun p => In p supported) l /\ forallb wf_pair l = true.
Proof.
  induction names as [|n t IH]; intros l H; cbn [resolve] in H.
  - inversion H; subst. split; [constructor | reflexivity].
  - destruct (lookup_first supported n) as [p|] eqn:E; [|discriminate].
    destruct (resolve t) as [l'|] eqn:E2; [|discriminate]. inversion H; subst.
    destruct (IH l' eq_refl) as [Hf Hw]. destruct (lookup_first_supported_wf n p E) as [Hp Hin].
    split; [constructor; assumption | cbn [forallb]; rewrite Hp, Hw; reflexivity].
Qed.

(* the advertised list is the configured one; an invalid configuration request changes nothing; every advertised
   extension is one of the supported ones (starting from any advertised list with that property) *)
Theorem advertised_eq_configured : forall cur names,
  (forall l, resolve names = Some l -> set_extensions cur names = (l, true)) /\
  (resolve names = None -> set_extensions cur names = (cur, false)).
Proof. intros cur names. unfold set_extensions. split; [intros l H; rewrite H; reflexivity | intros H; rewrite H; reflexivity]. Qed.

Theorem advertised_always_supported : forall calls cur,
  Forall (fun p => In p supported) cur ->
  Forall (fun p => In p supported) (fst (run_set cur calls)).
Proof.
  induction calls as [|c t IH]; intros cur Hc; cbn [run_set]; [exact Hc|].
  unfold set_extensions. destruct (resolve c) as [l|] eqn:E.
  - destruct (resolve_sub c l E) as [Hl _]. specialize (IH l Hl). destruct (run_set l t) as [fin oks]. exact IH.
  - specialize (IH cur Hc). destruct (run_set cur t) as [fin oks]. exact IH.
Qed.

(* every supported (hence every advertised) extension name is decoded to a specific packet by the server, and that
   packet reaches an os call: it is served *)
Theorem advertised_subset_served : forall p, In p supported -> served_name (fst p) = true.
Proof. intros p [<-|[<-|[<-|[]]]]; vm_compute; reflexivity. Qed.

Theorem served_reaches_respond : forall id a b,
  effects (PExtStatvfs id a) <> [] /\ effects (PExtPosixRename id a b) <> [] /\ effects (PExtHardlink id a b) <> [].
Proof. intros; repeat split; discriminate. Qed.

(* an extended request with any other name decodes (the session continues) to the "unknown extension" packet, which the
   os-backed server answers operation-unsupported *)
Theorem unknown_ext_decodes : forall id name payload,
  is_u32 id = true -> is_str name = true -> served_name name = false ->
  decA t_extended (render (fieldsA (PExtOther id name payload))) = Ok (PExtOther id name payload) /\
  ext_reaction name = Some 8.
Proof.
  intros id name payload Hid Hn Hs. split.
  - apply (decA_encA (PExtOther id name payload)).
    + unfold wf_packet. cbn [fieldsA forallb wf_fld]. rewrite Hid, Hn. reflexivity.
    + reflexivity.
    + unfold served_name in Hs. apply orb_false_iff in Hs. destruct Hs as [Hs H3]. apply orb_false_iff in Hs. destruct Hs as [H1 H2].
      cbn [ext_name_free]. rewrite H1, H2, H3. reflexivity.
  - unfold ext_reaction. rewrite Hs. reflexivity.
Qed.

(* fsync is never advertised by these servers, so File.Sync never sends a request they would not understand *)
Theorem sync_guard : forall calls, sync_sends (fst (run_set supported calls)) = false.
Proof.
  intros calls.
  assert (Hs : Forall (fun p => In p supported) supported) by (apply Forall_forall; auto).
  pose proof (advertised_always_supported calls supported Hs) as H.
  induction (fst (run_set supported calls)) as [|[n d] l IH]; [reflexivity|].
  inversion H as [|? ? Hin Hl]; subst. specialize (IH Hl).
  unfold sync_sends in *. cbn [has_extension].
  destruct (has_extension l n_fsync) as [d'|] eqn:E; [exact IH|].
  destruct Hin as [Hp|[Hp|[Hp|[]]]]; inversion Hp; subst; vm_compute; reflexivity.
Qed.
