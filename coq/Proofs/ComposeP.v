From Coq Require Import List NArith Bool Arith Lia Permutation Strings.Byte.
From Sftp Require Import Base.GoSem Lin.Linearize Lin.Compose Proofs.LinearizeP.
Import ListNotations.

(* ---------- association lists ---------- *)
Lemma has_key_iff {A} : forall k (l : list (nat * A)), has_key k l = true <-> In k (map fst l).
Proof.
  intros k l. unfold has_key. rewrite existsb_exists. split.
  - intros [e [He Hk]]. apply Nat.eqb_eq in Hk. subst k. apply in_map. exact He.
  - intros H. apply in_map_iff in H. destruct H as [e [Hk He]]. exists e. split; [exact He | apply Nat.eqb_eq; exact Hk].
Qed.

Lemma has_key_false {A} : forall k (l : list (nat * A)), has_key k l = false <-> ~ In k (map fst l).
Proof. intros k l. rewrite <- has_key_iff. destruct (has_key k l); split; intros H; congruence. Qed.

Lemma assoc_some_in {A} : forall k (l : list (nat * A)) v, assoc k l = Some v -> In (k, v) l.
Proof.
  intros k. induction l as [|[k' v'] t IH]; intros v H; [discriminate|]. cbn [assoc] in H.
  destruct (Nat.eqb_spec k' k) as [->|Hn]; [inversion H; left; reflexivity | right; apply IH; exact H].
Qed.

Lemma assoc_in {A} : forall k (l : list (nat * A)) v, NoDup (map fst l) -> In (k, v) l -> assoc k l = Some v.
Proof.
  intros k. induction l as [|[k' v'] t IH]; intros v Hnd Hin; [destruct Hin|]. cbn [map fst] in Hnd. inversion Hnd as [|? ? Hni Ht]; subst.
  cbn [assoc]. destruct Hin as [E|Hin].
  - inversion E; subst. rewrite Nat.eqb_refl. reflexivity.
  - destruct (Nat.eqb_spec k' k) as [->|Hn]; [exfalso; apply Hni; apply in_map_iff; exists (k, v); split; [reflexivity | exact Hin]|].
    apply IH; assumption.
Qed.

Lemma assoc_app_r {A} : forall k (l1 l2 : list (nat * A)), ~ In k (map fst l1) -> assoc k (l1 ++ l2) = assoc k l2.
Proof.
  intros k. induction l1 as [|[k' v'] t IH]; intros l2 H; [reflexivity|]. cbn [app assoc].
  destruct (Nat.eqb_spec k' k) as [->|Hn]; [exfalso; apply H; left; reflexivity|]. apply IH. intros Hin. apply H. right. exact Hin.
Qed.

Lemma assoc_app_l {A} : forall k (l1 l2 : list (nat * A)) v, assoc k l1 = Some v -> assoc k (l1 ++ l2) = Some v.
Proof.
  intros k. induction l1 as [|[k' v'] t IH]; intros l2 v H; [discriminate|]. cbn [app assoc] in *.
  destruct (k' =? k); [exact H | apply IH; exact H].
Qed.

Lemma in_del_key {A} : forall k e (l : list (nat * A)), In e (del_key k l) <-> In e l /\ fst e <> k.
Proof.
  intros k e l. unfold del_key. rewrite filter_In. split; intros [H1 H2]; split; try assumption.
  - apply negb_true_iff, Nat.eqb_neq in H2. exact H2.
  - apply negb_true_iff, Nat.eqb_neq. exact H2.
Qed.

Lemma nodup_del_key {A} : forall k (l : list (nat * A)), NoDup (map fst l) -> NoDup (map fst (del_key k l)).
Proof.
  intros k. induction l as [|[k' v'] t IH]; intros H; [constructor|]. cbn [map fst] in H. inversion H as [|? ? Hni Ht]; subst.
  unfold del_key. cbn [filter fst]. destruct (k' =? k); cbn [negb]; [apply IH; exact Ht|].
  cbn [map fst]. constructor; [|apply IH; exact Ht]. intros Hin. apply Hni. apply in_map_iff in Hin. destruct Hin as [e [He Hin]].
  apply in_del_key in Hin. apply in_map_iff. exists e. split; [exact He | apply Hin].
Qed.

Lemma nodup_snoc_key {A} : forall (l : list (nat * A)) k v, NoDup (map fst l) -> ~ In k (map fst l) -> NoDup (map fst (l ++ [(k, v)])).
Proof.
  intros l k v Hnd Hni. rewrite map_app. cbn [map fst]. induction (map fst l) as [|x t IH]; cbn [app]; [constructor; [intros []|constructor]|].
  inversion Hnd as [|? ? Hx Ht]; subst. constructor.
  - intros Hin. apply in_app_or in Hin. destruct Hin as [Hin|[<-|[]]]; [exact (Hx Hin) | apply Hni; left; reflexivity].
  - apply IH; [exact Ht | intros H; apply Hni; right; exact H].
Qed.

(* ---------- the sequential specification over kinds ---------- *)
Fixpoint fin (f : bytes) (ks : list opk) : bytes :=
  match ks with [] => f | k :: rest => fin (fst (seq_step f k)) rest end.
Fixpoint legal_k (f : bytes) (ks : list opk) : bool :=
  match ks with [] => true | k :: rest => snd (seq_step f k) && legal_k (fst (seq_step f k)) rest end.

Lemma legal_seq_kinds : forall os f, legal_seq f os = legal_k f (map o_kind os).
Proof.
  induction os as [|o os IH]; intros f; [reflexivity|]. cbn [legal_seq map legal_k].
  destruct (seq_step f (o_kind o)) as [f' ok]. cbn [fst snd]. rewrite IH. reflexivity.
Qed.

Lemma fin_snoc : forall ks f k, fin f (ks ++ [k]) = fst (seq_step (fin f ks) k).
Proof. induction ks as [|x ks IH]; intros f k; cbn [app fin]; [reflexivity | apply IH]. Qed.

Lemma legal_k_snoc : forall ks f k, legal_k f (ks ++ [k]) = legal_k f ks && snd (seq_step (fin f ks) k).
Proof.
  induction ks as [|x ks IH]; intros f k; cbn [app legal_k fin]; [rewrite andb_true_r; reflexivity|].
  rewrite IH, andb_assoc. reflexivity.
Qed.

Lemma bytes_eqb_refl : forall b, bytes_eqb b b = true.
Proof.
  intros b. unfold bytes_eqb. rewrite Nat.eqb_refl. cbn [andb]. induction b as [|x b IH]; [reflexivity|].
  cbn [combine forallb]. rewrite IH, andb_true_r. apply Byte.byte_dec_lb. reflexivity.
Qed.

(* the Store step computes exactly what the sequential specification accepts *)
Lemma apply_is_spec : forall f r f' res, apply f r = (f', res) -> seq_step f res = (f', true).
Proof.
  intros f r f' res H. destruct r as [off len|off d|]; cbn [apply] in H; inversion H; subst; cbn [seq_step].
  - rewrite bytes_eqb_refl. reflexivity.
  - reflexivity.
  - rewrite Nat.eqb_refl. reflexivity.
Qed.

(* ---------- the invariant ---------- *)
Definition ctime (e : nat * (nat * nat * opk)) : nat := fst (fst (snd e)).
Definition stime (e : nat * (nat * nat * opk)) : nat := snd (fst (snd e)).
Definition eres (e : nat * (nat * nat * opk)) : opk := snd (snd e).

Definition sinv (f0 : bytes) (s : sys) : Prop :=
  NoDup (map fst (pend s)) /\ NoDup (map fst (slog s)) /\ NoDup (map fst (rets s)) /\
  (forall id, In id (map fst (pend s)) -> ~ In id (map fst (slog s))) /\
  (forall id, In id (map fst (rets s)) -> In id (map fst (slog s))) /\
  (forall e, In e (pend s) -> fst (snd e) < clock s) /\
  (forall e, In e (slog s) -> ctime e < stime e /\ stime e < clock s) /\
  (forall id rt, In (id, rt) (rets s) -> rt < clock s /\ exists e, In e (slog s) /\ fst e = id /\ stime e < rt) /\
  ForallOrdPairs (fun e1 e2 => stime e1 < stime e2) (slog s) /\
  fin f0 (map eres (slog s)) = store s /\ legal_k f0 (map eres (slog s)) = true.

Lemma FOP_snoc {A} : forall (R : A -> A -> Prop) l y,
  ForallOrdPairs R l -> Forall (fun x => R x y) l -> ForallOrdPairs R (l ++ [y]).
Proof.
  intros R l y H. induction H as [|a l Ha Hl IH]; intros Hy; cbn [app].
  - constructor; constructor.
  - inversion Hy as [|? ? Hay Hly]; subst. constructor; [|apply IH; exact Hly].
    apply Forall_app. split; [exact Ha | constructor; [exact Hay | constructor]].
Qed.

Lemma sinv_init : forall f0, sinv f0 (sys0 f0).
Proof.
  intros f0. unfold sinv, sys0. cbn. repeat split; try constructor; try (intros; contradiction); intros ? [].
Qed.

Lemma sinv_step : forall f0 s l s', sinv f0 s -> sstep s l = Some s' -> sinv f0 s'.
Proof.
  intros f0 s l s' [Np [Nl [Nr [Dpl [Srl [Tp [Tl [Tr [Ord [Hfin Hleg]]]]]]]]]] Hs.
  destruct l as [id r|id|id]; cbn [sstep] in Hs.
  - (* Call *)
    destruct (has_key id (pend s)) eqn:K1; [discriminate|]. destruct (has_key id (slog s)) eqn:K2; [discriminate|]. cbn [orb] in Hs.
    inversion Hs; subst s'. clear Hs. apply has_key_false in K1. apply has_key_false in K2.
    unfold sinv. cbn [pend slog rets clock store].
    split; [apply nodup_snoc_key; assumption|]. split; [exact Nl|]. split; [exact Nr|].
    split. { intros i Hi. rewrite map_app in Hi. apply in_app_or in Hi. destruct Hi as [Hi|[<-|[]]]; [apply Dpl; exact Hi | exact K2]. }
    split; [exact Srl|].
    split. { intros e He. apply in_app_or in He. destruct He as [He|[<-|[]]]; [specialize (Tp e He); lia | cbn; lia]. }
    split. { intros e He. destruct (Tl e He). split; lia. }
    split. { intros i rt Hi. destruct (Tr i rt Hi) as [H1 H2]. split; [lia | exact H2]. }
    split; [exact Ord|]. split; assumption.
  - (* Store *)
    destruct (assoc id (pend s)) as [[ct r]|] eqn:Ea; [|discriminate].
    destruct (apply (store s) r) as [f' res] eqn:Eap. inversion Hs; subst s'. clear Hs.
    apply assoc_some_in in Ea.
    assert (Hidp : In id (map fst (pend s))) by (apply in_map_iff; exists (id, (ct, r)); split; [reflexivity | exact Ea]).
    pose proof (Dpl id Hidp) as Hnl.
    unfold sinv. cbn [pend slog rets clock store].
    split; [apply nodup_del_key; exact Np|]. split; [apply nodup_snoc_key; assumption|]. split; [exact Nr|].
    split. { intros i Hi Hl. apply in_map_iff in Hi. destruct Hi as [e [Hfe He]]. apply in_del_key in He. destruct He as [He Hne].
             rewrite map_app in Hl. apply in_app_or in Hl. destruct Hl as [Hl|[Hl|[]]].
             - apply (Dpl i); [apply in_map_iff; exists e; split; assumption | exact Hl].
             - cbn [fst] in Hl. congruence. }
    split. { intros i Hi. rewrite map_app. apply in_or_app. left. apply Srl. exact Hi. }
    split. { intros e He. apply in_del_key in He. destruct He as [He _]. specialize (Tp e He). lia. }
    split. { intros e He. apply in_app_or in He. destruct He as [He|[<-|[]]].
             - destruct (Tl e He). split; lia.
             - unfold ctime, stime. cbn [fst snd]. specialize (Tp _ Ea). cbn [fst snd] in Tp. split; lia. }
    split. { intros i rt Hi. destruct (Tr i rt Hi) as [H1 [e [He [Hfe Hst]]]]. split; [lia|]. exists e. split; [apply in_or_app; left; exact He | split; assumption]. }
    split. { apply FOP_snoc; [exact Ord|]. apply Forall_forall. intros e He. destruct (Tl e He) as [_ H]. unfold stime at 2. cbn [fst snd]. exact H. }
    rewrite map_app. cbn [map]. change (eres (id, (ct, clock s, res))) with res.
    rewrite fin_snoc, legal_k_snoc, Hfin, Hleg, (apply_is_spec _ _ _ _ Eap). cbn [fst snd andb]. split; reflexivity.
  - (* Ret *)
    destruct (has_key id (slog s)) eqn:K1; [|discriminate]. destruct (has_key id (rets s)) eqn:K2; [discriminate|]. cbn [negb andb] in Hs.
    inversion Hs; subst s'. clear Hs. apply has_key_iff in K1. apply has_key_false in K2.
    unfold sinv. cbn [pend slog rets clock store].
    split; [exact Np|]. split; [exact Nl|]. split; [apply nodup_snoc_key; assumption|].
    split; [exact Dpl|].
    split. { intros i Hi. rewrite map_app in Hi. apply in_app_or in Hi. destruct Hi as [Hi|[<-|[]]]; [apply Srl; exact Hi | exact K1]. }
    split. { intros e He. specialize (Tp e He). lia. }
    split. { intros e He. destruct (Tl e He). split; lia. }
    split. { intros i rt Hi. apply in_app_or in Hi. destruct Hi as [Hi|[Hi|[]]].
             - destruct (Tr i rt Hi) as [H1 H2]. split; [lia | exact H2].
             - inversion Hi; subst i rt. split; [lia|]. apply in_map_iff in K1. destruct K1 as [e [Hfe He]].
               exists e. split; [exact He|]. split; [exact Hfe|]. destruct (Tl e He). assumption. }
    split; [exact Ord|]. split; assumption.
Qed.

Lemma sinv_run : forall f0 tr s0 s, sinv f0 s0 -> srun s0 tr = Some s -> sinv f0 s.
Proof.
  intros f0. induction tr as [|l tr IH]; intros s0 s H Hr; cbn [srun] in Hr; [inversion Hr; subst; exact H|].
  destruct (sstep s0 l) as [s1|] eqn:E; [|discriminate]. eapply IH; [eapply sinv_step; eassumption | exact Hr].
Qed.

(* ---------- a permutation with distinct ids is a rearrangement in the checker's sense ---------- *)
Lemma op_eqb_refl : forall o, op_eqb o o = true.
Proof.
  intros [i c r k]. unfold op_eqb. cbn [o_id o_call o_ret o_kind]. rewrite !Nat.eqb_refl. cbn [andb].
  destruct k as [off len got|off d|got]; rewrite ?Nat.eqb_refl, ?bytes_eqb_refl; reflexivity.
Qed.

Lemma find_id_unique : forall (h : list op) o, NoDup (map o_id h) -> In o h ->
  find (fun x => o_id x =? o_id o) h = Some o.
Proof.
  induction h as [|x h IH]; intros o Hnd Hin; [destruct Hin|]. cbn [map] in Hnd. inversion Hnd as [|? ? Hni Ht]; subst.
  cbn [find]. destruct (Nat.eqb_spec (o_id x) (o_id o)) as [E|Hn].
  - destruct Hin as [->|Hin]; [reflexivity|]. exfalso. apply Hni. rewrite E. apply in_map. exact Hin.
  - destruct Hin as [->|Hin]; [congruence|]. apply IH; assumption.
Qed.

Lemma remove_id_perm : forall (h : list op) o, NoDup (map o_id h) -> In o h ->
  exists h', remove_id (o_id o) h = Some h' /\ Permutation h (o :: h').
Proof.
  induction h as [|x h IH]; intros o Hnd Hin; [destruct Hin|]. cbn [map] in Hnd. inversion Hnd as [|? ? Hni Ht]; subst.
  cbn [remove_id]. destruct (Nat.eqb_spec (o_id x) (o_id o)) as [E|Hn].
  - destruct Hin as [->|Hin]; [exists h; split; [reflexivity | apply Permutation_refl]|].
    exfalso. apply Hni. rewrite E. apply in_map. exact Hin.
  - destruct Hin as [->|Hin]; [congruence|]. destruct (IH o Ht Hin) as [h' [Hr Hp]]. rewrite Hr. exists (x :: h'). split; [reflexivity|].
    eapply Permutation_trans; [apply perm_skip; exact Hp | apply perm_swap].
Qed.

Lemma rearr_perm : forall order h, NoDup (map o_id order) -> Permutation h order -> is_rearrangement h order = true.
Proof.
  induction order as [|o rest IH]; intros h Hnd Hp.
  - apply Permutation_sym, Permutation_nil in Hp. subst. reflexivity.
  - cbn [is_rearrangement].
    assert (Hndh : NoDup (map o_id h)) by (eapply Permutation_NoDup; [apply Permutation_sym, Permutation_map; exact Hp | exact Hnd]).
    assert (Hin : In o h) by (eapply Permutation_in; [apply Permutation_sym; exact Hp | left; reflexivity]).
    rewrite (find_id_unique h o Hndh Hin), op_eqb_refl. cbn [andb].
    destruct (remove_id_perm h o Hndh Hin) as [h' [Hr Hp']]. rewrite Hr.
    cbn [map] in Hnd. inversion Hnd; subst. apply IH; [assumption|].
    eapply Permutation_cons_inv. eapply Permutation_trans; [apply Permutation_sym; exact Hp' | exact Hp].
Qed.

(* ---------- real-time order from pairwise facts ---------- *)
Lemma respects_rt_intro : forall order,
  ForallOrdPairs (fun a b => o_call a <= o_ret b) order -> respects_rt order = true.
Proof.
  intros order H. induction H as [|a l Ha Hl IH]; [reflexivity|]. cbn [respects_rt]. rewrite IH, andb_true_r.
  apply forallb_forall. intros b Hb. rewrite Forall_forall in Ha. specialize (Ha b Hb).
  apply negb_true_iff. apply Nat.ltb_ge. exact Ha.
Qed.

Lemma FOP_map {A B} : forall (g : A -> B) (R : B -> B -> Prop) l,
  ForallOrdPairs (fun x y => R (g x) (g y)) l -> ForallOrdPairs R (map g l).
Proof.
  intros g R l H. induction H as [|a l Ha Hl IH]; cbn [map]; constructor; [|exact IH].
  apply Forall_forall. intros y Hy. apply in_map_iff in Hy. destruct Hy as [x [<- Hx]]. rewrite Forall_forall in Ha. exact (Ha x Hx).
Qed.

Lemma FOP_impl_in {A} : forall (P Q : A -> A -> Prop) l,
  ForallOrdPairs P l -> (forall x y, In x l -> In y l -> P x y -> Q x y) -> ForallOrdPairs Q l.
Proof.
  intros P Q l H. induction H as [|a l Ha Hl IH]; intros Himp; constructor.
  - apply Forall_forall. intros y Hy. rewrite Forall_forall in Ha. apply Himp; [left; reflexivity | right; exact Hy | exact (Ha y Hy)].
  - apply IH. intros x y Hx Hy. apply Himp; right; assumption.
Qed.

(* ---------- the composition theorem ---------- *)
(* For every initial content, every set of operations and every interleaving of their Call, Store and Ret steps: once
   every operation has returned, the history the callers observed is linearizable, and a linearization is the order of
   the Store steps. *)
Theorem store_order_linearizes : forall f0 tr s,
  srun (sys0 f0) tr = Some s -> all_returned s = true ->
  valid_witness f0 (history s) (store_order s) = true.
Proof.
  intros f0 tr s Hr Hq. pose proof (sinv_run f0 tr _ s (sinv_init f0) Hr) as Hinv.
  destruct Hinv as [Np [Nl [Nr [Dpl [Srl [Tp [Tl [Tr [Ord [Hfin Hleg]]]]]]]]]].
  unfold all_returned in Hq. destruct (pend s) eqn:Ep; [|discriminate]. apply Nat.eqb_eq in Hq.
  (* the returned ids are exactly the stored ids *)
  assert (Hperm : Permutation (map fst (rets s)) (map fst (slog s))).
  { apply NoDup_Permutation_bis; [exact Nr | rewrite !map_length; lia | intros x Hx; apply Srl; exact Hx]. }
  (* facts about op_of on stored ids *)
  assert (Hop : forall e, In e (slog s) -> exists rt, In (fst e, rt) (rets s) /\ op_of s (fst e) = mkOp (fst e) (ctime e) rt (eres e)).
  { intros [i [[ct st] res]] He. cbn [fst].
    assert (Hi : In i (map fst (rets s))).
    { eapply Permutation_in; [apply Permutation_sym; exact Hperm | apply in_map_iff; exists (i, (ct, st, res)); split; [reflexivity | exact He]]. }
    apply in_map_iff in Hi. destruct Hi as [[i' rt] [Hfi Hri]]. cbn [fst] in Hfi. subst i'.
    exists rt. split; [exact Hri|]. unfold op_of. rewrite (assoc_in _ _ _ Nl He), (assoc_in _ _ _ Nr Hri). reflexivity. }
  unfold valid_witness. apply andb_true_iff. split; [apply andb_true_iff; split|].
  - (* rearrangement *)
    unfold history, store_order. apply rearr_perm.
    + rewrite map_map. assert (E : map (fun x => o_id (op_of s x)) (map fst (slog s)) = map fst (slog s)).
      { rewrite map_map. apply map_ext_in. intros e He. destruct (Hop e He) as [rt [_ E]]. rewrite E. reflexivity. }
      rewrite E. exact Nl.
    + apply Permutation_map. exact Hperm.
  - (* real-time order *)
    unfold store_order. rewrite map_map. apply respects_rt_intro. apply FOP_map.
    eapply FOP_impl_in; [exact Ord|]. intros e1 e2 H1 H2 Hlt. cbn beta.
    destruct (Hop e1 H1) as [rt1 [_ E1]]. destruct (Hop e2 H2) as [rt2 [Hr2 E2]]. rewrite E1, E2. cbn [o_call o_ret].
    destruct (Tl e1 H1) as [Hc1 _]. destruct (Tr _ _ Hr2) as [_ [e2' [He2' [Hf2 Hst2]]]].
    assert (e2' = e2).
    { destruct e2 as [i2 v2], e2' as [i2' v2']. cbn [fst] in Hf2. subst i2'. f_equal.
      pose proof (assoc_in _ _ _ Nl H2) as A1. pose proof (assoc_in _ _ _ Nl He2') as A2. congruence. }
    subst e2'. cbn beta in Hlt. lia.
  - (* legality *)
    rewrite legal_seq_kinds. unfold store_order. rewrite !map_map.
    assert (E : map (fun x => o_kind (op_of s (fst x))) (slog s) = map eres (slog s)).
    { apply map_ext_in. intros e He. destruct (Hop e He) as [rt [_ E]]. rewrite E. reflexivity. }
    rewrite E. exact Hleg.
Qed.

Corollary composed_history_linearizable : forall f0 tr s,
  srun (sys0 f0) tr = Some s -> all_returned s = true -> linearizable f0 (history s).
Proof. intros f0 tr s Hr Hq. exists (store_order s). eapply store_order_linearizes; eassumption. Qed.
