From Coq Require Import List Bool Arith Lia.
From Sftp Require Import Xfer.FileLock.
Import ListNotations.

Module FileLockP.
Import FileLock.

Lemma thr_of_in : forall c l t, thr_of c l = Some t -> In (c, t) l.
Proof.
  intros c. induction l as [|[c' t'] r IH]; intros t H; [discriminate|]. cbn [thr_of] in H.
  destruct (c' =? c) eqn:E; [apply Nat.eqb_eq in E; inversion H; subst; left; reflexivity | right; apply IH; exact H].
Qed.

Lemma map_fst_set : forall c t l, map fst (set_thr c t l) = map fst l.
Proof. intros c t l. unfold set_thr. rewrite map_map. apply map_ext. intros [a b]. cbn [fst]. destruct (a =? c); reflexivity. Qed.

Lemma thr_of_set : forall c t l d, thr_of d (set_thr c t l) = if d =? c then (match thr_of c l with Some _ => Some t | None => None end) else thr_of d l.
Proof.
  intros c t. induction l as [|[a b] r IH]; intros d; cbn [set_thr map thr_of fst].
  - destruct (d =? c); reflexivity.
  - destruct (a =? c) eqn:Eac; cbn [thr_of fst].
    + apply Nat.eqb_eq in Eac. subst a. destruct (d =? c) eqn:Edc.
      * apply Nat.eqb_eq in Edc. subst d. rewrite Nat.eqb_refl. reflexivity.
      * rewrite Nat.eqb_sym, Edc. fold (set_thr c t r). rewrite IH, Edc. reflexivity.
    + destruct (a =? d) eqn:Ead.
      * apply Nat.eqb_eq in Ead. subst d. rewrite Eac. reflexivity.
      * fold (set_thr c t r). rewrite IH. destruct (d =? c); reflexivity.
Qed.

Lemma existsb_thr_false : forall (P : nat * thr -> bool) l, existsb P l = false -> forall c t, thr_of c l = Some t -> P (c, t) = false.
Proof.
  intros P l H c t Ht. apply thr_of_in in Ht. destruct (P (c, t)) eqn:E; [|reflexivity].
  assert (existsb P l = true) by (apply existsb_exists; exists (c, t); split; assumption). congruence.
Qed.

Definition noclose (w : list wev) : Prop := existsb is_close w = false.

Record J (s : fst8) : Prop := mkJ {
  j_excl : forall c d tc td, thr_of c (threads s) = Some tc -> thr_of d (threads s) = Some td ->
           held tc = true -> held td = true -> is_shared tc = false -> c = d;
  j_open : closed s = false -> noclose (wire s) /\ forall c t n, thr_of c (threads s) = Some t -> kind t = MClose -> st t <> SSend n;
  j_nosend : closed s = true -> forall c t n, thr_of c (threads s) = Some t -> st t = SSend n -> kind t = MClose /\ n <= 1;
  j_wire : closed s = true ->
           (noclose (wire s) /\ exists c t, thr_of c (threads s) = Some t /\ kind t = MClose /\ st t = SSend 1) \/
           ((forall c t, thr_of c (threads s) = Some t -> kind t = MClose -> st t <> SSend 1) /\
            exists pre c, wire s = pre ++ [WClose c] /\ noclose pre)
}.

Lemma finit_thr : forall calls c t, thr_of c (threads (finit calls)) = Some t -> st t = SIdle.
Proof.
  intros calls c t H. apply thr_of_in in H. unfold finit in H. cbn [threads] in H.
  apply in_combine_r in H. apply in_map_iff in H. destruct H as [kn [Hk _]]. subst t. reflexivity.
Qed.

Lemma J_init : forall calls, J (finit calls).
Proof.
  intros calls. constructor.
  - intros c d tc td Hc _ Hh. assert (H : st tc = SIdle) by (apply (finit_thr calls c); exact Hc).
    unfold held in Hh. rewrite H in Hh. discriminate.
  - intros _. split; [reflexivity|]. intros c t n Ht _ Hs. rewrite (finit_thr calls c t Ht) in Hs. discriminate.
  - intros H. discriminate.
  - intros H. discriminate.
Qed.

Lemma thr_of_set' : forall c t0 t l d, thr_of c l = Some t0 -> thr_of d (set_thr c t l) = if d =? c then Some t else thr_of d l.
Proof. intros c t0 t l d H. rewrite thr_of_set, H. reflexivity. Qed.

Lemma noclose_app : forall w e, noclose w -> is_close e = false -> noclose (w ++ [e]).
Proof. intros w e Hw He. unfold noclose in *. rewrite existsb_app, Hw. cbn [existsb]. rewrite He. reflexivity. Qed.

(* the holder set does not grow and kinds do not change: exclusivity is kept *)
Lemma excl_kept : forall l c t t',
  thr_of c l = Some t -> kind t' = kind t -> (held t' = true -> held t = true) ->
  (forall a b ta tb, thr_of a l = Some ta -> thr_of b l = Some tb -> held ta = true -> held tb = true -> is_shared ta = false -> a = b) ->
  forall a b ta tb, thr_of a (set_thr c t' l) = Some ta -> thr_of b (set_thr c t' l) = Some tb ->
    held ta = true -> held tb = true -> is_shared ta = false -> a = b.
Proof.
  intros l c t t' Ht Hk Hh Hold a b ta tb Ha Hb Hha Hhb Hs.
  rewrite (thr_of_set' c t t' l a Ht) in Ha. rewrite (thr_of_set' c t t' l b Ht) in Hb.
  destruct (a =? c) eqn:Ea; destruct (b =? c) eqn:Eb.
  - apply Nat.eqb_eq in Ea, Eb. congruence.
  - apply Nat.eqb_eq in Ea. subst a. inversion Ha; subst ta. apply (Hold c b t tb Ht Hb (Hh Hha) Hhb).
    unfold is_shared in *. rewrite <- Hk. exact Hs.
  - apply Nat.eqb_eq in Eb. subst b. inversion Hb; subst tb. apply (Hold a c ta t Ha Ht Hha (Hh Hhb) Hs).
  - apply (Hold a b ta tb Ha Hb Hha Hhb Hs).
Qed.

Lemma J_step : forall s l s', J s -> fstep s l = Some s' -> J s'.
Proof.
  intros s l s' HJ H. destruct HJ as [J1 J2 J3 J4]. destruct l as [c|c|c|c]; cbn [fstep] in H;
    destruct (thr_of c (threads s)) as [t|] eqn:Ht; try discriminate.
  - (* Acq *)
    destruct (st t) eqn:Est; try discriminate.
    match type of H with (if ?b then _ else _) = _ => destruct b eqn:Efree end; [|discriminate].
    inversion H; subst s'. clear H. constructor; cbn [closed wire threads].
    + intros a b ta tb Ha Hb Hha Hhb Hs.
      rewrite (thr_of_set' c t _ _ a Ht) in Ha. rewrite (thr_of_set' c t _ _ b Ht) in Hb.
      destruct (a =? c) eqn:Ea; destruct (b =? c) eqn:Eb.
      * apply Nat.eqb_eq in Ea, Eb. congruence.
      * exfalso. inversion Ha; subst ta. unfold is_shared in Hs. cbn [with_stage kind] in Hs. unfold is_shared in Efree.
        destruct (kind t); [discriminate| |]; apply negb_true_iff in Efree;
          pose proof (existsb_thr_false _ _ Efree b tb Hb) as Hf; cbn [snd] in Hf; congruence.
      * exfalso. inversion Hb; subst tb. unfold is_shared in Efree. destruct (kind t) eqn:Ek; apply negb_true_iff in Efree;
          pose proof (existsb_thr_false _ _ Efree a ta Ha) as Hf; cbn [snd] in Hf.
        -- rewrite Hha in Hf. unfold is_shared in Hf, Hs. cbn [andb] in Hf. apply negb_false_iff in Hf. congruence.
        -- congruence.
        -- congruence.
      * apply (J1 a b ta tb Ha Hb Hha Hhb Hs).
    + intros Hc. destruct (J2 Hc) as [Hw Hn]. split; [exact Hw|]. intros a ta n Ha Hk.
      rewrite (thr_of_set' c t _ _ a Ht) in Ha. destruct (a =? c); [inversion Ha; subst ta; discriminate | apply (Hn a ta n Ha Hk)].
    + intros Hc a ta n Ha Hst. rewrite (thr_of_set' c t _ _ a Ht) in Ha.
      destruct (a =? c); [inversion Ha; subst ta; discriminate | apply (J3 Hc a ta n Ha Hst)].
    + intros Hc. destruct (J4 Hc) as [[Hw [c0 [t0 [H0 [Hk0 Hs0]]]]]|[Hn Hpre]].
      * left. split; [exact Hw|]. exists c0, t0. split; [|split; assumption]. rewrite (thr_of_set' c t _ _ c0 Ht).
        destruct (c0 =? c) eqn:E; [apply Nat.eqb_eq in E; subst c0; rewrite Ht in H0; inversion H0; subst t0; congruence | exact H0].
      * right. split; [|exact Hpre]. intros a ta Ha Hk. rewrite (thr_of_set' c t _ _ a Ht) in Ha.
        destruct (a =? c); [inversion Ha; subst ta; discriminate | apply (Hn a ta Ha Hk)].
  - (* Chk *)
    destruct (st t) eqn:Est; try discriminate.
    assert (Hheld : held t = true) by (unfold held; rewrite Est; reflexivity).
    destruct (closed s) eqn:Ecl.
    + (* handle gone *)
      inversion H; subst s'. clear H. constructor; cbn [closed wire threads].
      * apply (excl_kept (threads s) c t _ Ht); [reflexivity | intros _; exact Hheld | exact J1].
      * discriminate.
      * intros _ a ta n Ha Hst. rewrite (thr_of_set' c t _ _ a Ht) in Ha.
        destruct (a =? c); [inversion Ha; subst ta; discriminate | apply (J3 eq_refl a ta n Ha Hst)].
      * intros _. destruct (J4 eq_refl) as [[Hw [c0 [t0 [H0 [Hk0 Hs0]]]]]|[Hn Hpre]].
        -- left. split; [exact Hw|]. exists c0, t0. split; [|split; assumption]. rewrite (thr_of_set' c t _ _ c0 Ht).
           destruct (c0 =? c) eqn:E; [apply Nat.eqb_eq in E; subst c0; rewrite Ht in H0; inversion H0; subst t0; congruence | exact H0].
        -- right. split; [|exact Hpre]. intros a ta Ha Hk. rewrite (thr_of_set' c t _ _ a Ht) in Ha.
           destruct (a =? c); [inversion Ha; subst ta; discriminate | apply (Hn a ta Ha Hk)].
    + destruct (J2 eq_refl) as [Hw Hn]. destruct (kind t) eqn:Ek.
      * (* shared method goes on *)
        inversion H; subst s'. clear H. constructor; cbn [closed wire threads]; try (intros Hx; discriminate Hx).
        -- apply (excl_kept (threads s) c t _ Ht); [reflexivity | intros _; exact Hheld | exact J1].
        -- intros _. split; [exact Hw|]. intros a ta n Ha Hk. rewrite (thr_of_set' c t _ _ a Ht) in Ha.
           destruct (a =? c); [inversion Ha; subst ta; cbn [with_stage kind] in Hk; congruence | apply (Hn a ta n Ha Hk)].
      * inversion H; subst s'. clear H. constructor; cbn [closed wire threads]; try (intros Hx; discriminate Hx).
        -- apply (excl_kept (threads s) c t _ Ht); [reflexivity | intros _; exact Hheld | exact J1].
        -- intros _. split; [exact Hw|]. intros a ta n Ha Hk. rewrite (thr_of_set' c t _ _ a Ht) in Ha.
           destruct (a =? c); [inversion Ha; subst ta; cbn [with_stage kind] in Hk; congruence | apply (Hn a ta n Ha Hk)].
      * (* Close clears the handle *)
        inversion H; subst s'. clear H. constructor; cbn [closed wire threads]; try (intros Hx; discriminate Hx).
        -- apply (excl_kept (threads s) c t _ Ht); [reflexivity | intros _; exact Hheld | exact J1].
        -- intros _ a ta n Ha Hst. rewrite (thr_of_set' c t _ _ a Ht) in Ha. destruct (a =? c) eqn:Ea.
           ++ inversion Ha; subst ta. cbn [with_stage st kind] in *. inversion Hst; subst n. split; [exact Ek | lia].
           ++ exfalso. apply Nat.eqb_neq in Ea. apply Ea. symmetry.
              apply (J1 c a t ta Ht Ha Hheld); [unfold held; rewrite Hst; reflexivity | unfold is_shared; rewrite Ek; reflexivity].
        -- intros _. left. split; [exact Hw|]. exists c, (with_stage t (SSend 1)). split; [|split; [exact Ek | reflexivity]].
           rewrite (thr_of_set' c t _ _ c Ht), Nat.eqb_refl. reflexivity.
  - (* Snd *)
    destruct (st t) as [| |[|n]| |] eqn:Est; try discriminate.
    assert (Hheld : held t = true) by (unfold held; rewrite Est; reflexivity).
    inversion H; subst s'. clear H.
    assert (Hexcl : forall a b ta tb, thr_of a (set_thr c (with_stage t (SSend n)) (threads s)) = Some ta ->
              thr_of b (set_thr c (with_stage t (SSend n)) (threads s)) = Some tb -> held ta = true -> held tb = true -> is_shared ta = false -> a = b)
      by (apply (excl_kept (threads s) c t _ Ht); [reflexivity | intros _; exact Hheld | exact J1]).
    destruct (closed s) eqn:Ecl.
    + (* only Close can still be sending *)
      destruct (J3 eq_refl c t (S n) Ht Est) as [Ek Hn1]. assert (n = 0) by lia. subst n. rewrite Ek.
      destruct (J4 eq_refl) as [[Hw _]|[Hno _]]; [|exfalso; apply (Hno c t Ht Ek); exact Est].
      constructor; cbn [closed wire threads]; try (intros Hx; discriminate Hx).
      * exact Hexcl.
      * intros _ a ta m Ha Hst. rewrite (thr_of_set' c t _ _ a Ht) in Ha. destruct (a =? c) eqn:Ea.
        -- inversion Ha; subst ta. cbn [with_stage st kind] in *. inversion Hst; subst m. split; [exact Ek | lia].
        -- apply (J3 eq_refl a ta m Ha Hst).
      * intros _. right. split.
        -- intros a ta Ha Hk Hst. rewrite (thr_of_set' c t _ _ a Ht) in Ha. destruct (a =? c) eqn:Ea.
           ++ inversion Ha; subst ta. cbn [with_stage st] in Hst. discriminate.
           ++ apply Nat.eqb_neq in Ea. apply Ea. symmetry.
              apply (J1 c a t ta Ht Ha Hheld); [unfold held; rewrite Hst; reflexivity | unfold is_shared; rewrite Ek; reflexivity].
        -- exists (wire s), c. split; [reflexivity | exact Hw].
    + destruct (J2 eq_refl) as [Hw Hn]. assert (Ek : kind t <> MClose) by (intros Ek; apply (Hn c t (S n) Ht Ek); exact Est).
      constructor; cbn [closed wire threads]; try (intros Hx; discriminate Hx).
      * exact Hexcl.
      * intros _. split.
        -- apply noclose_app; [exact Hw|]. destruct (kind t); [reflexivity | reflexivity | contradiction Ek; reflexivity].
        -- intros a ta m Ha Hk. rewrite (thr_of_set' c t _ _ a Ht) in Ha.
           destruct (a =? c); [inversion Ha; subst ta; cbn [with_stage kind] in Hk; contradiction | apply (Hn a ta m Ha Hk)].
  - (* Rel *)
    assert (Hrel : exists b, s' = mkF (closed s) (wire s) (set_thr c (with_stage t (SDone b)) (threads s)) /\ held t = true /\ (forall n, st t = SSend n -> n = 0)).
    { destruct (st t) as [| |[|n]|b|] eqn:Est; try discriminate; inversion H; subst s'.
      - exists false. split; [reflexivity|]. split; [unfold held; rewrite Est; reflexivity | intros n Hn; inversion Hn; reflexivity].
      - exists b. split; [reflexivity|]. split; [unfold held; rewrite Est; reflexivity | intros n Hn; discriminate]. }
    destruct Hrel as [b [-> [Hheld Hs0]]]. clear H. constructor; cbn [closed wire threads].
    + apply (excl_kept (threads s) c t _ Ht); [reflexivity | intros Hh; unfold held in Hh; cbn in Hh; discriminate | exact J1].
    + intros Hc. destruct (J2 Hc) as [Hw Hn]. split; [exact Hw|]. intros a ta n Ha Hk. rewrite (thr_of_set' c t _ _ a Ht) in Ha.
      destruct (a =? c); [inversion Ha; subst ta; discriminate | apply (Hn a ta n Ha Hk)].
    + intros Hc a ta n Ha Hst. rewrite (thr_of_set' c t _ _ a Ht) in Ha.
      destruct (a =? c); [inversion Ha; subst ta; discriminate | apply (J3 Hc a ta n Ha Hst)].
    + intros Hc. destruct (J4 Hc) as [[Hw [c0 [t0 [H0 [Hk0 Hs0']]]]]|[Hn Hpre]].
      * left. split; [exact Hw|]. exists c0, t0. split; [|split; assumption]. rewrite (thr_of_set' c t _ _ c0 Ht).
        destruct (c0 =? c) eqn:E; [|exact H0]. apply Nat.eqb_eq in E. subst c0. rewrite Ht in H0. inversion H0; subst t0.
        specialize (Hs0 1 Hs0'). discriminate.
      * right. split; [|exact Hpre]. intros a ta Ha Hk. rewrite (thr_of_set' c t _ _ a Ht) in Ha.
        destruct (a =? c); [inversion Ha; subst ta; discriminate | apply (Hn a ta Ha Hk)].
Qed.

Lemma J_run : forall tr s s', J s -> frun8 s tr = Some s' -> J s'.
Proof.
  induction tr as [|l tr IH]; intros s s' HJ H; cbn [frun8] in H; [inversion H; subst; exact HJ|].
  destruct (fstep s l) as [s1|] eqn:E; [|discriminate]. apply (IH s1 s' (J_step s l s1 HJ E) H).
Qed.

Lemma scan_noclose : forall w, noclose w -> wire_scan w false = true.
Proof.
  induction w as [|[c|c] w IH]; intros H; cbn [wire_scan]; [reflexivity | | unfold noclose in H; cbn in H; discriminate].
  apply IH. unfold noclose in *. cbn [existsb is_close orb] in H. exact H.
Qed.

Lemma scan_one_close : forall pre c, noclose pre -> wire_scan (pre ++ [WClose c]) false = true.
Proof.
  induction pre as [|[d|d] pre IH]; intros c H; cbn [app wire_scan]; [reflexivity | | unfold noclose in H; cbn in H; discriminate].
  apply IH. unfold noclose in *. cbn [existsb is_close orb] in H. exact H.
Qed.

(* for every set of concurrent calls on one File (any mix of shared-lock methods, exclusive-lock methods and Close calls, any
   number of requests each) and every interleaving of their steps: at most one CLOSE is written, and no request carrying
   the handle is written after it *)
Theorem no_request_after_close : forall calls tr s, frun8 (finit calls) tr = Some s ->
  wire_scan (wire s) false = true /\
  exists pre, noclose pre /\ (wire s = pre \/ exists c, wire s = pre ++ [WClose c]).
Proof.
  intros calls tr s H. pose proof (J_run tr _ _ (J_init calls) H) as [_ J2 _ J4].
  destruct (closed s) eqn:Ecl.
  - destruct (J4 eq_refl) as [[Hw _]|[_ [pre [c [Hwire Hpre]]]]].
    + split; [apply scan_noclose; exact Hw | exists (wire s); split; [exact Hw | left; reflexivity]].
    + split; [rewrite Hwire; apply scan_one_close; exact Hpre | exists pre; split; [exact Hpre | right; exists c; exact Hwire]].
  - destruct (J2 eq_refl) as [Hw _]. split; [apply scan_noclose; exact Hw | exists (wire s); split; [exact Hw | left; reflexivity]].
Qed.

(* once the handle is gone it stays gone, and every method that looks at it from then on returns os.ErrClosed *)
Theorem closed_stays : forall s l s', fstep s l = Some s' -> closed s = true -> closed s' = true.
Proof.
  intros s l s' H Hc. destruct l as [c|c|c|c]; cbn [fstep] in H; destruct (thr_of c (threads s)) as [t|]; try discriminate;
    destruct (st t) as [| |[|n]|b|]; try discriminate.
  - match type of H with (if ?b then _ else _) = _ => destruct b end; inversion H; subst; exact Hc.
  - rewrite Hc in H. inversion H; subst; reflexivity.
  - inversion H; subst; exact Hc.
  - inversion H; subst; exact Hc.
  - inversion H; subst; exact Hc.
Qed.

Theorem check_after_close_is_errclosed : forall s c s', closed s = true -> fstep s (Chk c) = Some s' ->
  exists t', thr_of c (threads s') = Some t' /\ st t' = SRel true.
Proof.
  intros s c s' Hc H. cbn [fstep] in H. destruct (thr_of c (threads s)) as [t|] eqn:Ht; [|discriminate].
  destruct (st t); try discriminate. rewrite Hc in H. inversion H; subst s'. cbn [threads].
  exists (with_stage t (SRel true)). split; [|reflexivity]. rewrite (thr_of_set' c t _ _ c Ht), Nat.eqb_refl. reflexivity.
Qed.

Theorem released_result_is_returned : forall s c s' t b, thr_of c (threads s) = Some t -> st t = SRel b -> fstep s (Rel c) = Some s' ->
  exists t', thr_of c (threads s') = Some t' /\ st t' = SDone b.
Proof.
  intros s c s' t b Ht Hst H. cbn [fstep] in H. rewrite Ht, Hst in H. inversion H; subst s'. cbn [threads].
  exists (with_stage t (SDone b)). split; [|reflexivity]. rewrite (thr_of_set' c t _ _ c Ht), Nat.eqb_refl. reflexivity.
Qed.

(* no deadlock: while some call has not returned, some thread can take a step *)
Lemma in_thr_of : forall l c t, NoDup (map fst l) -> In (c, t) l -> thr_of c l = Some t.
Proof.
  induction l as [|[a b] r IH]; intros c t Hnd Hin; [destruct Hin|]. cbn [map fst] in Hnd. inversion Hnd as [|? ? Hni Hnd']; subst.
  cbn [thr_of]. destruct Hin as [Heq|Hin].
  - inversion Heq; subst. rewrite Nat.eqb_refl. reflexivity.
  - destruct (a =? c) eqn:E; [|apply IH; assumption]. apply Nat.eqb_eq in E. subst a. exfalso. apply Hni.
    apply in_map_iff. exists (c, t). split; [reflexivity | exact Hin].
Qed.

Theorem lock_progress : forall s, NoDup (map fst (threads s)) ->
  (exists c t, In (c, t) (threads s) /\ forall b, st t <> SDone b) -> exists l s', fstep s l = Some s'.
Proof.
  intros s Hnd [c [t [Hin Hnd2]]].
  destruct (existsb (fun e => held (snd e)) (threads s)) eqn:Eh.
  - apply existsb_exists in Eh. destruct Eh as [[d td] [Hd Hh]]. cbn [snd] in Hh.
    pose proof (in_thr_of _ d td Hnd Hd) as Htd. unfold held in Hh. destruct (st td) as [| |[|n]|b|] eqn:Es; try discriminate.
    + exists (Chk d). cbn [fstep]. rewrite Htd, Es. destruct (closed s); [eexists; reflexivity|]. destruct (kind td); eexists; reflexivity.
    + exists (Rel d). cbn [fstep]. rewrite Htd, Es. eexists; reflexivity.
    + exists (Snd d). cbn [fstep]. rewrite Htd, Es. eexists; reflexivity.
    + exists (Rel d). cbn [fstep]. rewrite Htd, Es. eexists; reflexivity.
  - pose proof (in_thr_of _ c t Hnd Hin) as Ht.
    assert (Hst : st t = SIdle).
    { pose proof (existsb_thr_false _ _ Eh c t Ht) as Hf. cbn [snd] in Hf. unfold held in Hf.
      destruct (st t) as [| |n|b|b] eqn:Es; try discriminate; [reflexivity | exfalso; apply (Hnd2 b); reflexivity]. }
    exists (Acq c). cbn [fstep]. rewrite Ht, Hst.
    assert (Hex : existsb (fun e => held (snd e) && negb (is_shared (snd e))) (threads s) = false).
    { destruct (existsb (fun e => held (snd e) && negb (is_shared (snd e))) (threads s)) eqn:E2; [|reflexivity].
      apply existsb_exists in E2. destruct E2 as [e [He Hp]]. apply andb_true_iff in Hp. destruct Hp as [Hp _].
      assert (existsb (fun e => held (snd e)) (threads s) = true) by (apply existsb_exists; exists e; split; assumption). congruence. }
    rewrite Eh, Hex. destruct (is_shared t); eexists; reflexivity.
Qed.

Lemma fstep_ids : forall s l s', fstep s l = Some s' -> map fst (threads s') = map fst (threads s).
Proof.
  intros s l s' H. destruct l as [c|c|c|c]; cbn [fstep] in H; destruct (thr_of c (threads s)) as [t|]; try discriminate;
    destruct (st t) as [| |[|n]|b|]; try discriminate.
  - match type of H with (if ?b then _ else _) = _ => destruct b end; inversion H; subst; apply map_fst_set.
  - destruct (closed s); [inversion H; subst; apply map_fst_set|]. destruct (kind t); inversion H; subst; apply map_fst_set.
  - inversion H; subst; apply map_fst_set.
  - inversion H; subst; apply map_fst_set.
  - inversion H; subst; apply map_fst_set.
Qed.

Lemma combine_fst_my {A B} : forall (l : list A) (m : list B), length l = length m -> map fst (combine l m) = l.
Proof.
  induction l as [|a l IH]; intros [|b m] H; cbn [combine map fst]; try reflexivity; try discriminate.
  f_equal. apply IH. cbn [length] in H. lia.
Qed.

Theorem no_deadlock : forall calls tr s, frun8 (finit calls) tr = Some s ->
  (exists c t, In (c, t) (threads s) /\ forall b, st t <> SDone b) -> exists l s', fstep s l = Some s'.
Proof.
  intros calls tr s H Hex. apply lock_progress; [|exact Hex].
  assert (G : forall tr s0 s1, frun8 s0 tr = Some s1 -> map fst (threads s1) = map fst (threads s0)).
  { induction tr0 as [|l tr0 IH]; intros s0 s1 Hr; cbn [frun8] in Hr; [inversion Hr; reflexivity|].
    destruct (fstep s0 l) as [s2|] eqn:E; [|discriminate]. rewrite (IH s2 s1 Hr). apply (fstep_ids s0 l s2 E). }
  rewrite (G tr _ _ H). unfold finit. cbn [threads]. rewrite combine_fst_my by (rewrite seq_length, map_length; reflexivity).
  apply seq_NoDup.
Qed.

(* a Close call that has got as far as its unlock (or has returned) with success has its CLOSE request on the wire; with
   no_request_after_close: exactly one CLOSE, and it is the last request *)
Definition close_sent (s : fst8) : Prop :=
  (forall c t, thr_of c (threads s) = Some t -> st t <> SRel false) /\
  (forall c t, thr_of c (threads s) = Some t -> kind t = MClose -> (st t = SSend 0 \/ st t = SDone false) ->
     existsb is_close (wire s) = true).

Lemma close_sent_init : forall calls, close_sent (finit calls).
Proof.
  intros calls. split.
  - intros c t Ht H. rewrite (finit_thr calls c t Ht) in H. discriminate.
  - intros c t Ht _ [H|H]; rewrite (finit_thr calls c t Ht) in H; discriminate.
Qed.

Lemma close_sent_step : forall s l s', close_sent s -> fstep s l = Some s' -> close_sent s'.
Proof.
  intros s l s' [Hnr Hcs] H. destruct l as [c|c|c|c]; cbn [fstep] in H;
    destruct (thr_of c (threads s)) as [t|] eqn:Ht; try discriminate.
  - destruct (st t) eqn:Est; try discriminate.
    match type of H with (if ?b then _ else _) = _ => destruct b end; [|discriminate]. inversion H; subst s'. clear H.
    split; intros a ta Ha; cbn [threads wire] in *; rewrite (thr_of_set' c t _ _ a Ht) in Ha; destruct (a =? c).
    + inversion Ha; subst ta. discriminate.
    + apply (Hnr a ta Ha).
    + inversion Ha; subst ta. intros _ [Hs|Hs]; discriminate.
    + apply (Hcs a ta Ha).
  - destruct (st t) eqn:Est; try discriminate. destruct (closed s).
    + inversion H; subst s'. clear H.
      split; intros a ta Ha; cbn [threads wire] in *; rewrite (thr_of_set' c t _ _ a Ht) in Ha; destruct (a =? c).
      * inversion Ha; subst ta. discriminate.
      * apply (Hnr a ta Ha).
      * inversion Ha; subst ta. intros _ [Hs|Hs]; discriminate.
      * apply (Hcs a ta Ha).
    + destruct (kind t) eqn:Ek; inversion H; subst s'; clear H;
        (split; intros a ta Ha; cbn [threads wire] in *; rewrite (thr_of_set' c t _ _ a Ht) in Ha; destruct (a =? c);
         [inversion Ha; subst ta; discriminate | apply (Hnr a ta Ha) | inversion Ha; subst ta; cbn [with_stage st kind] | apply (Hcs a ta Ha)]).
      * intros Hk. congruence.
      * intros Hk. congruence.
      * intros _ [Hs|Hs]; discriminate.
  - destruct (st t) as [| |[|n]| |] eqn:Est; try discriminate. inversion H; subst s'. clear H.
    split; intros a ta Ha; cbn [threads wire] in *; rewrite (thr_of_set' c t _ _ a Ht) in Ha; destruct (a =? c) eqn:Ea.
    + inversion Ha; subst ta. discriminate.
    + apply (Hnr a ta Ha).
    + inversion Ha; subst ta. cbn [with_stage st kind]. intros Hk _. rewrite Hk. rewrite existsb_app. cbn [existsb is_close]. apply orb_true_r.
    + intros Hk Hs. rewrite existsb_app. rewrite (Hcs a ta Ha Hk Hs). reflexivity.
  - assert (Hrel : exists b, s' = mkF (closed s) (wire s) (set_thr c (with_stage t (SDone b)) (threads s)) /\ (b = false -> st t = SSend 0)).
    { destruct (st t) as [| |[|n]|b|] eqn:Est; try discriminate; inversion H; subst s'.
      - exists false. split; [reflexivity | intros _; reflexivity].
      - exists b. split; [reflexivity|]. intros ->. exfalso. apply (Hnr c t Ht). exact Est. }
    destruct Hrel as [b [-> Hb]]. clear H.
    split; intros a ta Ha; cbn [threads wire] in *; rewrite (thr_of_set' c t _ _ a Ht) in Ha; destruct (a =? c) eqn:Ea.
    + inversion Ha; subst ta. discriminate.
    + apply (Hnr a ta Ha).
    + inversion Ha; subst ta. cbn [with_stage st kind]. intros Hk [Hs|Hs]; [discriminate|]. inversion Hs; subst b.
      apply (Hcs c t Ht Hk). left. apply Hb. reflexivity.
    + apply (Hcs a ta Ha).
Qed.

(* exactly one close request: a Close call that returned without error has written its CLOSE, no other CLOSE was written,
   and nothing was written after it *)
Theorem successful_close_sent_exactly_one : forall calls tr s c t, frun8 (finit calls) tr = Some s ->
  thr_of c (threads s) = Some t -> kind t = MClose -> st t = SDone false ->
  exists pre c', wire s = pre ++ [WClose c'] /\ noclose pre.
Proof.
  intros calls tr s c t H Ht Hk Hs.
  assert (Hcs : close_sent s).
  { clear Ht Hk Hs. revert H. generalize (close_sent_init calls). generalize (finit calls).
    induction tr as [|l tr IH]; intros s0 H0 Hr; cbn [frun8] in Hr; [inversion Hr; subst; exact H0|].
    destruct (fstep s0 l) as [s1|] eqn:E; [|discriminate]. apply (IH s1 (close_sent_step s0 l s1 H0 E) Hr). }
  destruct Hcs as [_ Hcs]. pose proof (Hcs c t Ht Hk (or_intror Hs)) as Hex.
  destruct (no_request_after_close calls tr s H) as [_ [pre [Hpre [Hw|[c' Hw]]]]].
  - rewrite Hw in Hex. unfold noclose in Hpre. congruence.
  - exists pre, c'. split; assumption.
Qed.

End FileLockP.
