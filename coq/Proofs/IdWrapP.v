From Coq Require Import List ZArith NArith Arith Lia ZifyN ZifyNat.
From Sftp Require Import Conn.IdWrap Conn.ClientConn Proofs.ClientConnP.
Import ListNotations.
Ltac Zify.zify_post_hook ::= Z.div_mod_to_equations.

Lemma idmod_pos : (0 < idmod)%N. Proof. reflexivity. Qed.

Lemma ids_from_nth : forall k c0, (c0 < idmod)%N -> ids_from c0 k = map (fun i => wire_id c0 (S i)) (seq 0 k).
Proof.
  induction k as [|k IH]; intros c0 Hc; [reflexivity|]. cbn [ids_from seq map].
  assert (Hhd : next_id c0 = wire_id c0 1) by (unfold next_id, wire_id; change (N.of_nat 1) with 1%N; reflexivity).
  rewrite Hhd. apply f_equal. rewrite <- Hhd.
  rewrite IH by (unfold next_id; apply N.mod_lt; discriminate). rewrite <- seq_shift, map_map. apply map_ext. intros i.
  unfold wire_id, next_id. unfold idmod in *. rewrite !Nnat.Nat2N.inj_succ. lia.
Qed.

(* two issue numbers less than 2^32 apart never share a wire id *)
Lemma wire_id_inj : forall c0 i j, i < j -> (N.of_nat j < N.of_nat i + idmod)%N -> wire_id c0 i <> wire_id c0 j.
Proof. intros c0 i j Hij Hw. unfold wire_id, idmod in *. lia. Qed.

(* any 2^32 consecutive calls get pairwise distinct ids, wherever the counter stands (across the wrap as well) *)
Theorem ids_from_nodup : forall k c0, (c0 < idmod)%N -> (N.of_nat k <= idmod)%N -> NoDup (ids_from c0 k).
Proof.
  intros k c0 Hc Hk. rewrite ids_from_nth by exact Hc.
  assert (G : forall n a, (N.of_nat (a + n) <= idmod)%N -> a + n <= k -> NoDup (map (fun i => wire_id c0 (S i)) (seq a n))).
  { induction n as [|n IH]; intros a Ha Hak; cbn [seq map]; constructor.
    - intros Hin. apply in_map_iff in Hin. destruct Hin as [j [Hj Hin]]. apply in_seq in Hin.
      symmetry in Hj. revert Hj. apply wire_id_inj; [lia|]. unfold idmod in *. lia.
    - apply IH; [unfold idmod in *; lia | lia]. }
  apply (G k 0); [exact Hk | lia].
Qed.

(* carrying the LTS's distinctness over to the wire: issue numbers that are pairwise distinct and span less than 2^32 have
   pairwise distinct wire ids *)
Theorem window_distinct : forall c0 (l : list nat), NoDup l ->
  (forall a b, In a l -> In b l -> (N.of_nat a < N.of_nat b + idmod)%N) ->
  NoDup (map (wire_id c0) l).
Proof.
  intros c0. induction l as [|x t IH]; intros Hnd Hw; cbn [map]; constructor.
  - intros Hin. apply in_map_iff in Hin. destruct Hin as [y [Hy Hin]]. inversion Hnd as [|? ? Hni _]; subst.
    assert (Hne : x <> y) by (intros ->; exact (Hni Hin)).
    destruct (Nat.lt_ge_cases x y) as [Hlt|Hge].
    + symmetry in Hy. revert Hy. apply wire_id_inj; [exact Hlt|]. apply Hw; [right; exact Hin | left; reflexivity].
    + revert Hy. apply wire_id_inj; [lia|]. apply Hw; [left; reflexivity | right; exact Hin].
  - inversion Hnd; subst. apply IH; [assumption|]. intros a b Ha Hb. apply Hw; right; assumption.
Qed.

(* ... and beyond that window the clause cannot hold: issue numbers exactly 2^32 apart share their id (a request that
   stays outstanding while 2^32 others are issued on the same connection meets its own id again) *)
Theorem window_is_needed : forall c0 i j, (N.of_nat j = N.of_nat i + idmod)%N -> wire_id c0 i = wire_id c0 j.
Proof. intros c0 i j H. unfold wire_id, idmod in *. lia. Qed.

(* the LTS numbers requests without a bound; on the wire a request carries its number modulo 2^32. For every reachable
   state of the client-connection LTS whose outstanding requests span less than 2^32 issue numbers, the 32-bit ids in
   `inflight` are pairwise distinct, whatever the counter started at *)
Theorem inflight_wire_ids_distinct : forall n tr s c0, crun (cinit n) tr = Some s ->
  (forall a b, In a (map fst (inflight s)) -> In b (map fst (inflight s)) -> (N.of_nat a < N.of_nat b + idmod)%N) ->
  NoDup (map (wire_id c0) (map fst (inflight s))).
Proof. intros n tr s c0 H Hw. apply window_distinct; [exact (inflight_ids_distinct n tr s H) | exact Hw]. Qed.

(* and two callers never hold the same 32-bit id, under the same proviso *)
Theorem caller_wire_ids_distinct : forall n tr s c1 c2 st1 st2 i1 i2 c0, crun (cinit n) tr = Some s ->
  cstate_of c1 (callers s) = Some st1 -> cstate_of c2 (callers s) = Some st2 -> has_id st1 i1 -> has_id st2 i2 ->
  c1 <> c2 -> (N.of_nat i1 < N.of_nat i2 + idmod)%N -> (N.of_nat i2 < N.of_nat i1 + idmod)%N ->
  wire_id c0 i1 <> wire_id c0 i2.
Proof.
  intros n tr s c1 c2 st1 st2 i1 i2 c0 H H1 H2 Hi1 Hi2 Hne Hw1 Hw2.
  assert (Hd : i1 <> i2) by (intros ->; apply Hne; exact (caller_ids_distinct n tr s c1 c2 st1 st2 i2 H H1 H2 Hi1 Hi2)).
  destruct (Nat.lt_ge_cases i1 i2) as [Hlt|Hge].
  - apply wire_id_inj; assumption.
  - intros E. symmetry in E. revert E. apply wire_id_inj; [lia | assumption].
Qed.
