From Coq Require Import List NArith Bool Lia.
From Sftp Require Import Err.Status.
Import ListNotations.
Open Scope N_scope.

Ltac cases_eqb :=
  repeat match goal with
  | |- context [?a =? ?b] => let E := fresh "E" in destruct (a =? b) eqn:E; [apply N.eqb_eq in E; subst | apply N.eqb_neq in E]
  end.

(* the outcome category survives server-side encoding and client-side decoding, for every error value in scope *)
Theorem category_rt : forall w b, in_scope w b = true ->
  cat_of_cerr (normalise (status_code true w b)) = cat_of w b.
Proof.
  intros w b H. unfold in_scope in H. apply andb_true_iff in H. destruct H as [Hw Hb].
  destruct w; try discriminate Hw; destruct b; try reflexivity;
  unfold status_code, is_not_exist, is_permission, translate_syscall, translate_errno, normalise, cat_of, cat_of_cerr,
         os_wrapper, enoent, eperm, eacces in *; cbn [andb orb negb] in *;
  cases_eqb; try reflexivity; try lia; try discriminate; cbn [andb orb negb] in *; cases_eqb; try reflexivity; try lia; try discriminate.
Qed.

(* the pinned tree (F5): permission errors other than a bare Errno / PathError{Errno} arrived as plain failures *)
Theorem category_pinned_refuted :
  cat_of_cerr (normalise (status_code false WBare BPermission)) <> cat_of WBare BPermission /\
  cat_of_cerr (normalise (status_code false WLink (BErrno eperm))) <> cat_of WLink (BErrno eperm) /\
  cat_of_cerr (normalise (status_code false WPath BPermission)) <> cat_of WPath BPermission.
Proof. vm_compute. repeat split; discriminate. Qed.

(* SFTP status codes given by a handler arrive as given *)
Theorem fx_codes_as_given : forall w c, status_code true w (BFx c) = c.
Proof. intros w c. destruct w; reflexivity. Qed.

(* EOF is recognised through every wrapper, including %w *)
Theorem eof_through_any_wrapper : forall w, status_code true w BEOF = 1.
Proof. intros w. destruct w; reflexivity. Qed.

(* anything else is a failure (code 4) *)
Theorem other_is_failure : forall w, status_code true w BOther = 4.
Proof. intros w. destruct w; reflexivity. Qed.
