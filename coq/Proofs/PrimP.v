From Coq Require Import List NArith Lia ZArith ZifyN ZifyNat Strings.Byte.
From Sftp Require Import Base.GoSem Wire.Prim.
Import ListNotations.
Open Scope N_scope.
Ltac Zify.zify_post_hook ::= Z.div_mod_to_equations.

Lemma to_N_byte_of_N n : Byte.to_N (byte_of_N n) = n mod 256.
Proof.
  unfold byte_of_N. destruct (Byte.of_N (n mod 256)) eqn:E.
  - apply Byte.to_of_N in E. exact E.
  - apply Byte.of_N_None_iff in E. pose proof (N.mod_lt n 256). lia.
Qed.

Lemma byte_of_to_N b : byte_of_N (Byte.to_N b) = b.
Proof.
  unfold byte_of_N. pose proof (Byte.to_N_bounded b) as Hb.
  rewrite N.mod_small by lia. rewrite Byte.of_to_N. reflexivity.
Qed.

Lemma u32_of4_enc v : v < p32 ->
  u32_of4 (byte_of_N (v / 16777216)) (byte_of_N (v / 65536)) (byte_of_N (v / 256)) (byte_of_N v) = v.
Proof.
  intros H. unfold u32_of4. rewrite !to_N_byte_of_N. unfold p32 in H. lia.
Qed.

Lemma u32_of4_bound b0 b1 b2 b3 : u32_of4 b0 b1 b2 b3 < p32.
Proof.
  unfold u32_of4, p32.
  pose proof (Byte.to_N_bounded b0). pose proof (Byte.to_N_bounded b1).
  pose proof (Byte.to_N_bounded b2). pose proof (Byte.to_N_bounded b3). lia.
Qed.

Lemma u32_enc_length v : length (u32_enc v) = 4%nat.
Proof. reflexivity. Qed.

Lemma u64_enc_length v : length (u64_enc v) = 8%nat.
Proof. reflexivity. Qed.

Lemma u32_dec_safe_enc v rest : u32_dec_safe (u32_enc v ++ rest) = Ok (v mod p32, rest).
Proof.
  unfold u32_enc. cbn [app u32_dec_safe]. rewrite u32_of4_enc; [reflexivity|].
  apply N.mod_lt. unfold p32. lia.
Qed.

Lemma u32_dec_enc v rest : u32_dec (u32_enc v ++ rest) = Ok (v mod p32, rest).
Proof.
  unfold u32_enc. cbn [app u32_dec]. rewrite u32_of4_enc; [reflexivity|].
  apply N.mod_lt. unfold p32. lia.
Qed.

Lemma u64_dec_enc v rest : u64_dec (u64_enc v ++ rest) = Ok (v mod p64, rest).
Proof.
  unfold u64_dec, u64_enc. rewrite <- app_assoc. rewrite u32_dec_enc. cbn [bind].
  rewrite u32_dec_enc. cbn [bind]. f_equal. f_equal.
  assert (p64 = p32 * p32) by reflexivity.
  pose proof (N.mod_lt v p64). unfold p64, p32 in *. lia.
Qed.

Lemma u64_dec_safe_enc v rest : u64_dec_safe (u64_enc v ++ rest) = Ok (v mod p64, rest).
Proof.
  unfold u64_dec_safe. rewrite app_length, u64_enc_length.
  replace (Nat.ltb (8 + length rest) 8) with false by (symmetry; apply PeanoNat.Nat.ltb_ge; lia).
  apply u64_dec_enc.
Qed.

Lemma str_dec_safe_enc s rest : is_str s = true -> str_dec_safe (str_enc s ++ rest) = Ok (s, rest).
Proof.
  intros H. unfold is_str in H. apply N.ltb_lt in H.
  unfold str_dec_safe, str_enc. rewrite <- app_assoc, u32_dec_safe_enc. cbn [bind].
  rewrite N.mod_small by exact H.
  unfold len32 at 1. rewrite app_length.
  replace (N.of_nat (length s + length rest) <? len32 s) with false
    by (symmetry; apply N.ltb_ge; unfold len32; lia).
  unfold len32. rewrite Nat2N.id, firstn_app, skipn_app, PeanoNat.Nat.sub_diag, firstn_all, skipn_all.
  cbn [firstn skipn app]. rewrite app_nil_r. reflexivity.
Qed.

Lemma str_dec_enc s rest : is_str s = true -> str_dec (str_enc s ++ rest) = Ok (s, rest).
Proof.
  intros H. unfold is_str in H. apply N.ltb_lt in H.
  unfold str_dec, str_enc. rewrite <- app_assoc, u32_dec_enc. cbn [bind].
  rewrite N.mod_small by exact H.
  unfold len32 at 1. rewrite app_length.
  replace (N.of_nat (length s + length rest) <? len32 s) with false
    by (symmetry; apply N.ltb_ge; unfold len32; lia).
  unfold len32. rewrite Nat2N.id, firstn_app, skipn_app, PeanoNat.Nat.sub_diag, firstn_all, skipn_all.
  cbn [firstn skipn app]. rewrite app_nil_r. reflexivity.
Qed.

Lemma u8_dec_safe_enc v rest : u8_dec_safe (u8_enc v ++ rest) = Ok (v mod 256, rest).
Proof. unfold u8_dec_safe, u8_enc. cbn [app]. rewrite to_N_byte_of_N. reflexivity. Qed.

(* the safe decoders never panic, on any input *)
Lemma u32_dec_safe_nopanic b : u32_dec_safe b <> Panic.
Proof. destruct b as [|? [|? [|? [|? ?]]]]; discriminate. Qed.

Lemma u32_dec_total4 b : (4 <= length b)%nat -> exists v r, u32_dec b = Ok (v, r) /\ length r = (length b - 4)%nat /\ v < p32.
Proof.
  destruct b as [|b0 [|b1 [|b2 [|b3 r]]]]; cbn [length]; intros H; try lia.
  exists (u32_of4 b0 b1 b2 b3), r. split; [reflexivity|]. split; [lia|]. apply u32_of4_bound.
Qed.

Lemma u32_dec_safe_spec b :
  (exists v r, u32_dec_safe b = Ok (v, r) /\ b = firstn 4 b ++ r /\ length b = (4 + length r)%nat /\ v < p32)
  \/ (u32_dec_safe b = Err EShort /\ (length b < 4)%nat).
Proof.
  destruct b as [|b0 [|b1 [|b2 [|b3 r]]]]; cbn [length]; try (right; split; [reflexivity|lia]).
  left. exists (u32_of4 b0 b1 b2 b3), r. repeat split; try reflexivity. apply u32_of4_bound.
Qed.

Lemma u64_dec_safe_nopanic b : u64_dec_safe b <> Panic.
Proof.
  unfold u64_dec_safe. destruct (Nat.ltb (length b) 8) eqn:E; [discriminate|].
  apply PeanoNat.Nat.ltb_ge in E.
  destruct b as [|b0 [|b1 [|b2 [|b3 [|b4 [|b5 [|b6 [|b7 r]]]]]]]]; cbn [length] in E; try lia.
  discriminate.
Qed.

Lemma u64_dec_safe_len b v r : u64_dec_safe b = Ok (v, r) -> length b = (8 + length r)%nat /\ v < p64.
Proof.
  unfold u64_dec_safe. destruct (Nat.ltb (length b) 8) eqn:E; [discriminate|].
  destruct b as [|b0 [|b1 [|b2 [|b3 [|b4 [|b5 [|b6 [|b7 r']]]]]]]]; try discriminate.
  unfold u64_dec. cbn [u32_dec bind]. intros H. inversion H; subst. split; [reflexivity|].
  pose proof (u32_of4_bound b0 b1 b2 b3). pose proof (u32_of4_bound b4 b5 b6 b7). unfold p64, p32 in *. lia.
Qed.

Lemma str_dec_safe_nopanic b : str_dec_safe b <> Panic.
Proof.
  unfold str_dec_safe. destruct (u32_dec_safe b) as [[n r]| |] eqn:E; cbn [bind]; try discriminate.
  - destruct (len32 r <? n); discriminate.
  - exfalso. exact (u32_dec_safe_nopanic b E).
Qed.

Lemma str_dec_safe_len b s r : str_dec_safe b = Ok (s, r) -> length b = (4 + length s + length r)%nat /\ is_str s = true.
Proof.
  unfold str_dec_safe. destruct (u32_dec_safe_spec b) as [[v [r' [E [_ [Hl Hv]]]]]|[E _]]; rewrite E; cbn [bind]; [|discriminate].
  destruct (len32 r' <? v) eqn:Hc; [discriminate|]. intros H. inversion H; subst. clear H.
  apply N.ltb_ge in Hc. unfold len32 in Hc.
  rewrite firstn_length, skipn_length. split; [lia|].
  unfold is_str, len32. apply N.ltb_lt. rewrite firstn_length. lia.
Qed.

Lemma u8_dec_safe_nopanic b : u8_dec_safe b <> Panic.
Proof. destruct b; discriminate. Qed.
