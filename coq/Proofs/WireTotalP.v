(* Totality: no decoding entry point of either codec can panic, on any byte string. *)
From Coq Require Import List NArith Bool Lia Strings.Byte.
From Sftp Require Import Base.GoSem Wire.Prim Wire.Packets Mode.FileMode Proofs.PrimP.
Import ListNotations.
Open Scope N_scope.

Lemma bind_nopanic {A B} (m : res A) (k : A -> res B) :
  m <> Panic -> (forall a, k a <> Panic) -> bind m k <> Panic.
Proof. intros Hm Hk. destruct m; cbn [bind]; [apply Hk | discriminate | congruence]. Qed.

Ltac np_step :=
  match goal with
  | |- Ok _ <> Panic => discriminate
  | |- Err _ <> Panic => discriminate
  | |- u32_dec_safe _ <> Panic => apply u32_dec_safe_nopanic
  | |- u64_dec_safe _ <> Panic => apply u64_dec_safe_nopanic
  | |- u8_dec_safe _ <> Panic => apply u8_dec_safe_nopanic
  | |- str_dec_safe _ <> Panic => apply str_dec_safe_nopanic
  | |- bind _ _ <> Panic => apply bind_nopanic
  | |- forall _, _ => intro
  | |- (if ?c then _ else _) <> Panic => destruct c
  | |- (let '(_, _) := ?x in _) <> Panic => destruct x
  | |- (match ?x with _ => _ end) <> Panic => destruct x
  end.
Ltac np := repeat np_step.

Lemma pairs_dec_nopanic : forall fuel count b, pairs_dec fuel count b <> Panic.
Proof.
  induction fuel as [|f IH]; intros count b; cbn [pairs_dec]; destruct (count =? 0); try discriminate.
  np. apply IH.
Qed.

Lemma filestat_dec_nopanic g flags b : filestat_dec g flags b <> Panic.
Proof. unfold filestat_dec. np; try apply pairs_dec_nopanic. Qed.

Lemma attrs_dec_nopanic g b : attrs_dec g b <> Panic.
Proof. unfold attrs_dec. np. apply filestat_dec_nopanic. Qed.

Lemma names_dec_nopanic : forall fuel g count b, names_dec fuel g count b <> Panic.
Proof.
  induction fuel as [|f IH]; intros g count b; cbn [names_dec]; destruct (count =? 0); try discriminate.
  np; try apply attrs_dec_nopanic. apply IH.
Qed.

Lemma pairs_all_dec_nopanic : forall fuel b, pairs_all_dec fuel b <> Panic.
Proof.
  induction fuel as [|f IH]; intros b; destruct b; cbn [pairs_all_dec]; try discriminate.
  np. apply IH.
Qed.

Lemma parse_fld_nopanic k b : parse_fld k b <> Panic.
Proof.
  destruct k; cbn [parse_fld]; np;
    try apply attrs_dec_nopanic; try apply pairs_all_dec_nopanic; try apply names_dec_nopanic.
Qed.

Lemma parse_nopanic : forall ks b, parse ks b <> Panic.
Proof.
  induction ks as [|k ks IH]; intros b; cbn [parse]; [discriminate|].
  np; [apply parse_fld_nopanic | apply IH].
Qed.

Ltac np_parse := repeat first [apply parse_nopanic | np_step].

Lemma dec_ext_A_nopanic b : dec_ext_A b <> Panic.
Proof. unfold dec_ext_A. np_parse. Qed.

Lemma decA_nopanic ty b : decA ty b <> Panic.
Proof.
  unfold decA. cbv zeta.
  repeat match goal with
  | |- (if ?c then _ else _) <> Panic => destruct c
  end; try apply dec_ext_A_nopanic; np_parse.
Qed.

Lemma decB_request_nopanic b : decB_request b <> Panic.
Proof. unfold decB_request. cbv zeta. np_parse. Qed.

Lemma decB_response_nopanic b : decB_response b <> Panic.
Proof. unfold decB_response. np_parse. Qed.
