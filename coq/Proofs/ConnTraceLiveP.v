(* C04: in every candidate explanation of an accepted connection trace, a caller that is owed a result has it or still has
   its entry; once the trace contains the broadcast, every owed caller has its result. *)
From Coq Require Import List Bool Arith Lia.
From Sftp Require Import Conn.ClientConn Conn.ConnTrace Proofs.ClientConnP Proofs.ClientConnLiveP Proofs.ConnTraceP.
Import ListNotations.

Theorem accepted_conn_trace_owed : forall n tr cs, caccept_trace n tr = inl cs ->
  Forall (fun c : cand =>
    (forall k st i, cstate_of k (callers (fst c)) = Some st -> owed st i ->
       In k (map fst (bufs (fst c))) \/ In (i, Some k) (inflight (fst c))) /\
    (closed (fst c) = true -> forall k st i, cstate_of k (callers (fst c)) = Some st -> owed st i ->
       In k (map fst (bufs (fst c))))) cs.
Proof.
  intros n tr cs H. destruct (accepted_conn_trace n tr cs H) as [_ Hall].
  eapply Forall_impl; [|exact Hall]. cbn beta. intros c [[t Ht] _]. split.
  - intros k st i Hst Ho. exact (linv_run n t _ Ht k st i Hst Ho).
  - intros Hcl k st i Hst Ho. exact (after_loss_all_notified n t _ Ht Hcl k st i Hst Ho).
Qed.
