From Coq Require Import List NArith Bool Arith Lia Permutation Strings.Byte.
From Sftp Require Import Base.GoSem Lin.Linearize.
Import ListNotations.

(* a positive answer of the checker is a proof of linearizability (the witness was validated against the definition) *)
Theorem lin_check_sound : forall f0 h, lin_check f0 h = true -> linearizable f0 h.
Proof.
  intros f0 h H. unfold lin_check in H. destruct (search (S (length h)) f0 h) as [order|]; [|discriminate].
  exists order. exact H.
Qed.

(* what a valid witness means, component by component *)
Lemma respects_rt_spec : forall order, respects_rt order = true ->
  forall pre a mid b post, order = pre ++ a :: mid ++ b :: post -> ~ (o_ret b < o_call a).
Proof.
  induction order as [|x t IH]; intros H pre a mid b post Heq; [destruct pre; discriminate|].
  cbn [respects_rt] in H. apply andb_true_iff in H. destruct H as [Hx Ht].
  destruct pre as [|p pre'].
  - cbn [app] in Heq. inversion Heq; subst. rewrite forallb_forall in Hx.
    assert (Hin : In b (mid ++ b :: post)) by (apply in_or_app; right; left; reflexivity).
    specialize (Hx b Hin). apply negb_true_iff in Hx. apply Nat.ltb_ge in Hx. lia.
  - cbn [app] in Heq. inversion Heq; subst. eapply IH; [exact Ht | reflexivity].
Qed.

Lemma remove_id_length : forall i l l', remove_id i l = Some l' -> length l = S (length l').
Proof.
  intros i. induction l as [|o t IH]; intros l' H; [discriminate|]. cbn [remove_id] in H.
  destruct (o_id o =? i); [inversion H; reflexivity|].
  destruct (remove_id i t) as [t'|] eqn:E; [|discriminate]. inversion H; subst. cbn [length]. rewrite (IH t' eq_refl). reflexivity.
Qed.

Lemma is_rearrangement_length : forall order h, is_rearrangement h order = true -> length h = length order.
Proof.
  induction order as [|o rest IH]; intros h H; cbn [is_rearrangement] in H.
  - destruct h; [reflexivity | discriminate].
  - destruct (find (fun x => o_id x =? o_id o) h) as [x|]; [|discriminate].
    apply andb_true_iff in H. destruct H as [_ H]. destruct (remove_id (o_id o) h) as [h'|] eqn:E; [|discriminate].
    rewrite (remove_id_length _ _ _ E). cbn [length]. f_equal. apply IH. exact H.
Qed.

(* the sequential specification is a plain file: a read returns what the last writes left, sizes never change *)
Lemma overwrite_length : forall f off d, off + length d <= length f -> length (overwrite f off d) = length f.
Proof.
  intros f off d H. unfold overwrite. rewrite !app_length, firstn_length, skipn_length. lia.
Qed.

Theorem legal_seq_sizes_constant : forall order f,
  Forall (fun o => match o_kind o with OWrite off d => off + length d <= length f | _ => True end) order ->
  legal_seq f order = true ->
  Forall (fun o => match o_kind o with OSize got => got = length f | _ => True end) order.
Proof.
  induction order as [|o rest IH]; intros f Hw H; [constructor|].
  cbn [legal_seq] in H. inversion Hw as [|? ? Ho Hrest]; subst.
  destruct (o_kind o) as [off len got|off d|got] eqn:Ek; cbn [seq_step] in H.
  - apply andb_true_iff in H. destruct H as [_ H]. constructor; [rewrite Ek; exact I | apply IH; assumption].
  - cbn [andb] in H. constructor; [rewrite Ek; exact I|].
    assert (Hl : length (overwrite f off d) = length f) by (apply overwrite_length; exact Ho).
    specialize (IH (overwrite f off d)). rewrite Hl in IH. apply IH; [exact Hrest | exact H].
  - apply andb_true_iff in H. destruct H as [Hs H]. apply Nat.eqb_eq in Hs. constructor; [rewrite Ek; exact Hs | apply IH; assumption].
Qed.

(* a history that no order can explain: a read that returns bytes nobody ever wrote *)
Example not_linearizable_example :
  let f0 := [x00; x00]%byte in
  let h := [mkOp 1 1 2 (OWrite 0 [x41]%byte); mkOp 2 3 4 (ORead 0 1 [x42]%byte)] in
  lin_check f0 h = false.
Proof. vm_compute. reflexivity. Qed.

(* overlapping write and read: both outcomes of the read are accepted, a stale read after the write returned is not *)
Example linearizable_examples :
  let f0 := [x00; x00]%byte in
  lin_check f0 [mkOp 1 1 4 (OWrite 0 [x41]%byte); mkOp 2 2 3 (ORead 0 1 [x00]%byte)] = true /\
  lin_check f0 [mkOp 1 1 4 (OWrite 0 [x41]%byte); mkOp 2 2 3 (ORead 0 1 [x41]%byte)] = true /\
  lin_check f0 [mkOp 1 1 2 (OWrite 0 [x41]%byte); mkOp 2 3 4 (ORead 0 1 [x00]%byte)] = false.
Proof. vm_compute. repeat split; reflexivity. Qed.
