(* C04, the "at least once" half at the level of the LTS: every caller that is owed a result either already has it in its
   channel or still has its entry in `inflight` (which a reply, a failed send or the broadcast will serve); hence, once
   the receiver has failed, every owed caller HAS its result, every caller can always take its next step, and every call
   finishes after at most four steps of its own. *)
From Coq Require Import List Bool Arith Lia.
From Sftp Require Import Conn.ClientConn Proofs.ClientConnP.
Import ListNotations.

Definition linv (s : cst) : Prop :=
  forall c st i, cstate_of c (callers s) = Some st -> owed st i ->
    In c (map fst (bufs s)) \/ In (i, Some c) (inflight s).

Lemma take_buf_other : forall c l r rest, take_buf c l = Some (r, rest) ->
  forall e, In e l -> fst e <> c -> In e rest.
Proof.
  intros c. induction l as [|[c' r'] t IH]; intros r rest H e He Hne; [discriminate|]. cbn [take_buf] in H.
  destruct (c' =? c) eqn:E.
  - apply Nat.eqb_eq in E. inversion H; subst. destruct He as [<-|He]; [cbn [fst] in Hne; congruence | exact He].
  - destruct (take_buf c t) as [[r2 t2]|] eqn:Et; [|discriminate]. inversion H; subst.
    destruct He as [<-|He]; [left; reflexivity | right; eapply IH; [reflexivity | exact He | exact Hne]].
Qed.

Lemma take_buf_some : forall c l, In c (map fst l) -> exists r rest, take_buf c l = Some (r, rest).
Proof.
  intros c. induction l as [|[c' r'] t IH]; intros Hin; [destruct Hin|]. cbn [take_buf].
  destruct (c' =? c) eqn:E; [eexists; eexists; reflexivity|].
  destruct Hin as [Heq|Hin]; [cbn [fst] in Heq; subst; rewrite Nat.eqb_refl in E; discriminate|].
  destruct (IH Hin) as [r [rest Ht]]. rewrite Ht. eexists; eexists; reflexivity.
Qed.

Lemma in_map_fst_app {A B} : forall (l1 l2 : list (A * B)) x, In x (map fst l1) -> In x (map fst (l1 ++ l2)).
Proof. intros. rewrite map_app. apply in_or_app. left. assumption. Qed.

Lemma lookup_if_none : forall id l, lookup_if id l = None -> forall v, ~ In (id, v) l.
Proof.
  intros id. induction l as [|[i w] t IH]; intros H v Hin; [destruct Hin|]. cbn [lookup_if] in H.
  destruct (i =? id) eqn:E; [discriminate|]. destruct Hin as [Heq|Hin]; [inversion Heq; subst; rewrite Nat.eqb_refl in E; discriminate|].
  exact (IH H v Hin).
Qed.

Lemma deliver_mono : forall v r b x, In x (map fst b) -> In x (map fst (deliver_to v r b)).
Proof. intros [c|] r b x H; cbn [deliver_to]; [apply in_map_fst_app; exact H | exact H]. Qed.

Lemma deliver_self : forall c r b, In c (map fst (deliver_to (Some c) r b)).
Proof. intros c r b. cbn [deliver_to]. rewrite map_app. apply in_or_app. right. left. reflexivity. Qed.

Lemma linv_step : forall s l s', cinv s -> linv s -> cstep s l = Some s' -> linv s'.
Proof.
  intros s l s' Hcinv Hl Hs. unpack Hcinv. destruct l as [c|c|c|c|k0| |c]; cbn [cstep] in Hs.
  - (* NextID *)
    destruct (cstate_of c (callers s)) as [[| | | |]|] eqn:Ec; try discriminate. inversion Hs; subst s'. clear Hs.
    intros c2 st i Hst Ho. cbn [callers bufs inflight] in *.
    destruct (cstate_set_cases _ _ _ _ _ (cstate_of_in _ _ _ Ec) Hst) as [[-> ->]|[Hne Hst2]]; [owed_cases Ho | exact (Hl _ _ _ Hst2 Ho)].
  - (* Put *)
    destruct (cstate_of c (callers s)) as [[|k0| | |]|] eqn:Ec; try discriminate.
    destruct (closed s) eqn:Ecl; inversion Hs; subst s'; clear Hs; intros c2 st i Hst Ho; cbn [callers bufs inflight] in *;
      destruct (cstate_set_cases _ _ _ _ _ (cstate_of_in _ _ _ Ec) Hst) as [[-> ->]|[Hne Hst2]].
    + left. rewrite map_app. apply in_or_app. right. left. reflexivity.
    + destruct (Hl _ _ _ Hst2 Ho) as [H|H]; [left; apply in_map_fst_app; exact H | right; exact H].
    + right. owed_cases Ho. inversion Ho as [Hik]. rewrite <- Hik. left. reflexivity.
    + destruct (Hl _ _ _ Hst2 Ho) as [H|H]; [left; exact H|]. right. unfold put_if. right. apply in_remove_if. split; [exact H|].
      cbn [fst]. intros ->. destruct (HI _ _ H) as [st2 [Hst3 Ho3]]. rewrite Hst2 in Hst3. inversion Hst3; subst st2.
      apply Hne. eapply (Hdist c2 c st (CHasId k0) k0); [exact Hst2 | exact Ec | apply owed_has_id; exact Ho | left; reflexivity].
  - (* SendOK *)
    destruct (cstate_of c (callers s)) as [[| |k0| |]|] eqn:Ec; try discriminate. inversion Hs; subst s'. clear Hs.
    intros c2 st i Hst Ho. cbn [callers bufs inflight] in *.
    destruct (cstate_set_cases _ _ _ _ _ (cstate_of_in _ _ _ Ec) Hst) as [[-> ->]|[Hne Hst2]]; [|exact (Hl _ _ _ Hst2 Ho)].
    owed_cases Ho. inversion Ho as [Hik]. rewrite <- Hik. apply (Hl c (CRegistered k0) k0 Ec). left. reflexivity.
  - (* SendFail *)
    destruct (cstate_of c (callers s)) as [[| |k0| |]|] eqn:Ec; try discriminate.
    destruct (lookup_if k0 (inflight s)) as [v|] eqn:El; inversion Hs; subst s'; clear Hs; intros c2 st i Hst Ho; cbn [callers bufs inflight] in *;
      destruct (cstate_set_cases _ _ _ _ _ (cstate_of_in _ _ _ Ec) Hst) as [[-> ->]|[Hne Hst2]].
    + owed_cases Ho. inversion Ho as [Hik]. clear Hik. left.
      destruct (Hl c (CRegistered k0) k0 Ec (or_introl eq_refl)) as [H|H]; [apply deliver_mono; exact H|].
      assert (v = Some c) by (eapply nodup_fst_unique; [exact Hi | apply lookup_if_in; exact El | exact H]). subst v. apply deliver_self.
    + destruct (Hl _ _ _ Hst2 Ho) as [H|H]; [left; apply deliver_mono; exact H|].
      destruct (Nat.eq_dec i k0) as [->|Hni].
      * left. assert (v = Some c2) by (eapply nodup_fst_unique; [exact Hi | apply lookup_if_in; exact El | exact H]). subst v. apply deliver_self.
      * right. apply in_remove_if. split; [exact H | exact Hni].
    + owed_cases Ho. inversion Ho as [Hik]. clear Hik.
      destruct (Hl c (CRegistered k0) k0 Ec (or_introl eq_refl)) as [H|H]; [left; exact H|].
      exfalso. exact (lookup_if_none _ _ El _ H).
    + exact (Hl _ _ _ Hst2 Ho).
  - (* Deliver *)
    destruct (closed s); [discriminate|]. destruct (lookup_if k0 (inflight s)) as [v|] eqn:El; [|discriminate].
    inversion Hs; subst s'. clear Hs. intros c2 st i Hst Ho. cbn [callers bufs inflight] in *.
    destruct (Hl _ _ _ Hst Ho) as [H|H]; [left; apply deliver_mono; exact H|].
    destruct (Nat.eq_dec i k0) as [->|Hni].
    + left. assert (v = Some c2) by (eapply nodup_fst_unique; [exact Hi | apply lookup_if_in; exact El | exact H]). subst v. apply deliver_self.
    + right. apply in_remove_if. split; [exact H | exact Hni].
  - (* RecvFail *)
    destruct (closed s); [discriminate|]. inversion Hs; subst s'. clear Hs. intros c2 st i Hst Ho. cbn [callers bufs inflight] in *.
    left. rewrite map_app. apply in_or_app.
    destruct (Hl _ _ _ Hst Ho) as [H|H]; [left; exact H|]. right.
    apply in_map_iff. exists (c2, RConnLost). split; [reflexivity|]. apply in_flat_map. exists (i, Some c2). split; [exact H | left; reflexivity].
  - (* Take *)
    destruct (cstate_of c (callers s)) as [[| | |k0|]|] eqn:Ec; try discriminate.
    destruct (take_buf c (bufs s)) as [[r rest]|] eqn:Et; [|discriminate]. inversion Hs; subst s'. clear Hs.
    intros c2 st i Hst Ho. cbn [callers bufs inflight] in *.
    destruct (cstate_set_cases _ _ _ _ _ (cstate_of_in _ _ _ Ec) Hst) as [[-> ->]|[Hne Hst2]]; [owed_cases Ho|].
    destruct (Hl _ _ _ Hst2 Ho) as [H|H]; [|right; exact H]. left.
    apply in_map_iff in H. destruct H as [[c3 r3] [E3 H3]]. cbn [fst] in E3. subst c3.
    apply in_map_iff. exists (c2, r3). split; [reflexivity|]. eapply take_buf_other; [exact Et | exact H3 | cbn [fst]; exact Hne].
Qed.

Lemma linv_init : forall n, linv (cinit n).
Proof.
  intros n c st i Hst Ho. exfalso. unfold cinit in Hst. cbn [callers] in Hst.
  assert (st = CIdle).
  { revert Hst. induction (seq 0 n) as [|x t IH]; cbn [map cstate_of]; [discriminate|]. destruct (x =? c); [intros H; inversion H; reflexivity | exact IH]. }
  subst st. owed_cases Ho.
Qed.

Theorem linv_run : forall n tr s, crun (cinit n) tr = Some s -> linv s.
Proof.
  intros n tr. assert (G : forall s0, cinv s0 -> linv s0 -> forall s, crun s0 tr = Some s -> linv s).
  { induction tr as [|l tr IH]; intros s0 Hc Hl s Hr; cbn [crun] in Hr; [inversion Hr; subst; exact Hl|].
    destruct (cstep s0 l) as [s1|] eqn:E; [|discriminate].
    eapply IH; [eapply cinv_step; eassumption | eapply linv_step; eassumption | exact Hr]. }
  intros s Hr. exact (G _ (cinv_init n) (linv_init n) s Hr).
Qed.

(* once the receiver has failed, every caller that is owed a result has it waiting in its channel *)
Theorem after_loss_all_notified : forall n tr s, crun (cinit n) tr = Some s -> closed s = true ->
  forall c st i, cstate_of c (callers s) = Some st -> owed st i -> In c (map fst (bufs s)).
Proof.
  intros n tr s Hr Hcl c st i Hst Ho. destruct (linv_run n tr s Hr c st i Hst Ho) as [H|H]; [exact H|].
  exfalso. exact (after_loss_no_live_entry n tr s Hr Hcl i c H).
Qed.

(* ... so after the loss no call hangs: every caller that has not finished can take its own next step *)
Theorem after_loss_every_caller_can_step : forall n tr s, crun (cinit n) tr = Some s -> closed s = true ->
  forall c st, cstate_of c (callers s) = Some st ->
    (exists k0 r, st = CDone k0 r) \/
    exists l s', In l [NextID c; Put c; SendOK c; Take c] /\ cstep s l = Some s'.
Proof.
  intros n tr s Hr Hcl c st Hst. destruct st as [|k0|k0|k0|k0 r].
  - right. exists (NextID c). eexists. split; [left; reflexivity|]. cbn [cstep]. rewrite Hst. reflexivity.
  - right. exists (Put c). eexists. split; [right; left; reflexivity|]. cbn [cstep]. rewrite Hst, Hcl. reflexivity.
  - right. exists (SendOK c). eexists. split; [right; right; left; reflexivity|]. cbn [cstep]. rewrite Hst. reflexivity.
  - right. exists (Take c).
    pose proof (after_loss_all_notified n tr s Hr Hcl c (CWaiting k0) k0 Hst (or_intror eq_refl)) as Hin.
    destruct (take_buf_some _ _ Hin) as [r [rest Ht]]. eexists. split; [right; right; right; left; reflexivity|].
    cbn [cstep]. rewrite Hst, Ht. reflexivity.
  - left. exists k0, r. reflexivity.
Qed.

(* and it ends with an error: after the loss, a caller that registers is refused with ErrSSHFxConnectionLost on its own
   channel, and what a waiting caller takes is never a fresh reply (no Deliver is possible any more) *)
Theorem after_loss_no_delivery : forall s k0, closed s = true -> cstep s (Deliver k0) = None.
Proof. intros s k0 H. cbn [cstep]. rewrite H. reflexivity. Qed.
