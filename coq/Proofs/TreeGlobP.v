(* Client.Glob's shortcuts are sound: it returns what expanding the pattern component by component returns (Fs/Tree.v c_glob /
   spec_glob), as sets of paths, and is outside the model exactly when the expansion is. *)
From Coq Require Import List Bool Arith Lia.
From Sftp Require Import Fs.Tree Proofs.TreeP.
Import ListNotations.
Import FsTree FsTreeP.

Definition eqv (a b : option (list path)) : Prop :=
  match a, b with
  | None, None => True
  | Some l1, Some l2 => forall x, In x l1 <-> In x l2
  | _, _ => False
  end.

Lemma eqv_refl : forall a, eqv a a.
Proof. intros [l|]; cbn; [intros x; reflexivity | exact I]. Qed.
Lemma eqv_sym : forall a b, eqv a b -> eqv b a.
Proof. intros [l1|] [l2|] H; cbn in *; try exact H; intros x; symmetry; apply H. Qed.
Lemma eqv_trans : forall a b c, eqv a b -> eqv b c -> eqv a c.
Proof. intros [l1|] [l2|] [l3|] H1 H2; cbn in *; try contradiction; try exact I. intros x. rewrite H1. apply H2. Qed.

Definition bind_each (t : tree) (c : cpat) (a : option (list path)) : option (list path) :=
  match a with Some m => glob_each t c m | None => None end.

Lemma glob_each_some : forall t c m l, glob_each t c m = Some l ->
  (forall d, In d m -> exists a, glob1 t d c = Some a) /\
  (forall x, In x l <-> exists d a, In d m /\ glob1 t d c = Some a /\ In x a).
Proof.
  intros t c. induction m as [|d m IH]; intros l H; cbn [glob_each] in H.
  - inversion H; subst. split; [intros d []|]. intros x. split; [intros [] | intros (d & a & [] & _)].
  - destruct (glob1 t d c) as [a|] eqn:Ea; [|discriminate]. destruct (glob_each t c m) as [b|] eqn:Eb; [|discriminate].
    inversion H; subst. destruct (IH b eq_refl) as [Hall Hin]. split.
    + intros d' [<-|Hd]; [exists a; exact Ea | apply Hall; exact Hd].
    + intros x. rewrite in_app_iff, Hin. split.
      * intros [Hx | (d' & a' & Hd & Ha & Hx)]; [exists d, a; repeat split; [left; reflexivity | exact Ea | exact Hx] | exists d', a'; repeat split; [right; exact Hd | exact Ha | exact Hx]].
      * intros (d' & a' & [<-|Hd] & Ha & Hx); [left; rewrite Ea in Ha; inversion Ha; subst; exact Hx | right; exists d', a'; repeat split; assumption].
Qed.

Lemma glob_each_none : forall t c m, glob_each t c m = None <-> exists d, In d m /\ glob1 t d c = None.
Proof.
  intros t c. induction m as [|d m IH]; cbn [glob_each].
  - split; [discriminate | intros (d & [] & _)].
  - destruct (glob1 t d c) as [a|] eqn:Ea.
    + destruct (glob_each t c m) as [b|] eqn:Eb.
      * split; [discriminate|]. intros (d' & [<-|Hd] & Hn); [congruence|].
        assert (H : (None : option (list path)) = None) by reflexivity. destruct IH as [_ IH2]. discriminate (IH2 (ex_intro _ d' (conj Hd Hn))).
      * split; [|reflexivity]. intros _. destruct IH as [IH1 _]. destruct (IH1 eq_refl) as (d' & Hd & Hn). exists d'. split; [right; exact Hd | exact Hn].
    + split; [|reflexivity]. intros _. exists d. split; [left; reflexivity | exact Ea].
Qed.

Lemma glob_each_eqv : forall t c m1 m2, (forall x, In x m1 <-> In x m2) -> eqv (glob_each t c m1) (glob_each t c m2).
Proof.
  intros t c m1 m2 Hm.
  destruct (glob_each t c m1) as [l1|] eqn:E1; destruct (glob_each t c m2) as [l2|] eqn:E2; cbn.
  - destruct (glob_each_some t c m1 l1 E1) as [_ H1]. destruct (glob_each_some t c m2 l2 E2) as [_ H2].
    intros x. rewrite H1, H2. split; intros (d & a & Hd & Ha & Hx); exists d, a; repeat split; try assumption; apply Hm; exact Hd.
  - apply glob_each_none in E2. destruct E2 as (d & Hd & Hn). destruct (glob_each_some t c m1 l1 E1) as [Hall _].
    destruct (Hall d (proj2 (Hm d) Hd)) as [a Ha]. congruence.
  - apply glob_each_none in E1. destruct E1 as (d & Hd & Hn). destruct (glob_each_some t c m2 l2 E2) as [Hall _].
    destruct (Hall d (proj1 (Hm d) Hd)) as [a Ha]. congruence.
  - exact I.
Qed.

Lemma bind_each_eqv : forall t c a b, eqv a b -> eqv (bind_each t c a) (bind_each t c b).
Proof. intros t c [m1|] [m2|] H; cbn in *; try contradiction; [apply glob_each_eqv; exact H | exact I]. Qed.

Lemma glob_each_one : forall t c d, eqv (glob_each t c [d]) (glob1 t d c).
Proof.
  intros t c d. cbn [glob_each]. destruct (glob1 t d c) as [a|]; cbn; [|exact I]. intros x. rewrite app_nil_r. reflexivity.
Qed.

Lemma glob_each_empty : forall t c m, (forall x, ~ In x m) -> glob_each t c m = Some [].
Proof. intros t c [|d m] H; [reflexivity|]. exfalso. apply (H d). left. reflexivity. Qed.

(* a component without magic characters matches its own name and nothing else *)
Definition lit_ok (c : cpat) : Prop := cp_meta c = false -> cp_all c = false /\ cp_names c = [lit_name c].
Definition pat_ok (rp : list cpat) : Prop := forall c, In c rp -> lit_ok c.

Lemma cmatch_lit : forall c n, cp_all c = false -> cp_names c = [lit_name c] -> cmatch c n = (n =? lit_name c).
Proof. intros c n Ha Hn. unfold cmatch. rewrite Ha, Hn. cbn. rewrite orb_false_r. reflexivity. Qed.

Lemma last_snoc {A} : forall (l : list A) x d, last (l ++ [x]) d = x.
Proof. induction l as [|a l IH]; intros x d; [reflexivity|]. cbn [app]. destruct (l ++ [x]) eqn:E; [destruct l; discriminate|]. rewrite <- E. cbn [last]. rewrite E. rewrite <- E. apply IH. Qed.

(* the entries a literal component picks in a directory: the one of that name, if it is there *)
Lemma glob1_literal : forall t q c, wf t -> cp_all c = false -> cp_names c = [lit_name c] -> stat t q = LKind KDir ->
  exists l, glob1 t q c = Some l /\ forall x, In x l <-> x = q ++ [lit_name c] /\ kind_at t x <> None.
Proof.
  intros t q c Hwf Ha Hn Hs. unfold glob1. rewrite Hs. eexists. split; [reflexivity|]. intros x. rewrite in_map_iff. split.
  - intros [[p k] [Hx Hin]]. cbn [fst] in Hx. subst p. apply filter_In in Hin. destruct Hin as [Hin Hm]. cbn [fst] in Hm.
    apply in_children in Hin. destruct Hin as [Hin [n Hq]]. cbn [fst] in Hq. subst x.
    rewrite last_snoc, (cmatch_lit c n Ha Hn) in Hm. apply Nat.eqb_eq in Hm. subst n. split; [reflexivity|].
    rewrite kind_at_cons by apply snoc_ne. rewrite (in_assoc t _ k (proj1 Hwf) Hin). discriminate.
  - intros [-> Hk]. destruct (kind_at t (q ++ [lit_name c])) as [k|] eqn:Ek; [|congruence].
    exists (q ++ [lit_name c], k). split; [reflexivity|]. apply filter_In. split.
    + apply in_children. split; [apply assoc_in; rewrite <- kind_at_cons by apply snoc_ne; exact Ek | exists (lit_name c); reflexivity].
    + cbn [fst]. rewrite last_snoc, (cmatch_lit c _ Ha Hn). apply Nat.eqb_refl.
Qed.

Definition lit_path (rps : list cpat) : path := map lit_name (rev rps).
Definition of_lstat (t : tree) (p : path) : option (list path) :=
  match lstat t p with LKind _ => Some [p] | LUndef => None | _ => Some [] end.

(* a pattern without magic characters expands to itself if it is there - what the single LSTAT finds *)
Lemma spec_literal : forall t rps, wf t -> pat_ok rps -> has_meta rps = false -> eqv (spec_glob t rps) (of_lstat t (lit_path rps)).
Proof.
  intros t. induction rps as [|c rps IH]; intros Hwf Hok Hm.
  - unfold of_lstat, lit_path. cbn. intros x. reflexivity.
  - cbn [has_meta existsb] in Hm. apply orb_false_iff in Hm. destruct Hm as [Hc Hm].
    assert (Hok' : pat_ok rps) by (intros c' Hc'; apply Hok; right; exact Hc').
    destruct (Hok c (or_introl eq_refl) Hc) as [Ha Hn].
    specialize (IH Hwf Hok' Hm). cbn [spec_glob]. change (match spec_glob t rps with Some m => glob_each t c m | None => None end) with (bind_each t c (spec_glob t rps)).
    eapply eqv_trans; [apply bind_each_eqv; exact IH|]. clear IH.
    set (q := lit_path rps). assert (Hl : lit_path (c :: rps) = q ++ [lit_name c]).
    { unfold lit_path, q. cbn [rev]. rewrite map_app. reflexivity. }
    rewrite Hl. unfold of_lstat at 2. rewrite lstat_snoc. unfold of_lstat.
    destruct (lstat t q) as [[| |]| | |] eqn:El; cbn [bind_each].
    + (* a directory: the child of that name *)
      assert (Hs : stat t q = LKind KDir) by (rewrite stat_of_lstat, El; reflexivity).
      eapply eqv_trans; [apply glob_each_one|].
      destruct (glob1_literal t q c Hwf Ha Hn Hs) as [l [Hg Hin]]. rewrite Hg.
      destruct (kind_at t (q ++ [lit_name c])) as [k|] eqn:Ek; cbn.
      * intros x. rewrite Hin. split; [intros [-> _]; left; reflexivity | intros [<-|[]]; split; [reflexivity | congruence]].
      * intros x. rewrite Hin. split; [intros [-> Hk]; congruence | intros []].
    + (* a file where a directory is needed *)
      eapply eqv_trans; [apply glob_each_one|]. unfold glob1. rewrite stat_of_lstat, El. cbn. intros x. reflexivity.
    + (* a link: the kernel would follow it *)
      cbn [glob_each]. unfold glob1. rewrite stat_of_lstat, El. exact I.
    + cbn. intros x. reflexivity.
    + cbn. intros x. reflexivity.
    + exact I.
Qed.

Lemma lit_path_cons : forall c rps, lit_path (c :: rps) = lit_path rps ++ [lit_name c].
Proof. intros. unfold lit_path. cbn [rev]. rewrite map_app. reflexivity. Qed.

Theorem glob_refines_expansion : forall t rp, wf t -> pat_ok rp -> eqv (c_glob t rp) (spec_glob t rp).
Proof.
  intros t. induction rp as [|c rps IH]; intros Hwf Hok; [apply eqv_refl|].
  assert (Hok' : pat_ok rps) by (intros c' Hc'; apply Hok; right; exact Hc').
  cbn [c_glob]. fold (lit_path rps).
  destruct (has_meta (c :: rps)) eqn:Hm; cbn [negb].
  - destruct (has_meta rps) eqn:Hm'; cbn [negb].
    + (* magic characters in the directory part: Glob(dir), then glob(d, file) for each *)
      cbn [spec_glob]. change (eqv (bind_each t c (c_glob t rps)) (bind_each t c (spec_glob t rps))).
      apply bind_each_eqv. apply IH; assumption.
    + (* none in the directory part: glob(dir, file) directly *)
      cbn [spec_glob]. change (eqv (glob1 t (lit_path rps) c) (bind_each t c (spec_glob t rps))).
      apply eqv_sym. eapply eqv_trans; [apply bind_each_eqv; apply (spec_literal t rps Hwf Hok' Hm')|].
      unfold of_lstat. destruct (lstat t (lit_path rps)) as [k| | |] eqn:El; cbn [bind_each].
      * apply glob_each_one.
      * cbn [glob_each]. unfold glob1. rewrite stat_of_lstat, El. cbn. intros x. reflexivity.
      * cbn [glob_each]. unfold glob1. rewrite stat_of_lstat, El. cbn. intros x. reflexivity.
      * unfold glob1. rewrite stat_of_lstat, El. exact I.
  - (* no magic character at all: one LSTAT *)
    rewrite <- lit_path_cons. apply eqv_sym. apply (spec_literal t (c :: rps) Hwf Hok Hm).
Qed.
