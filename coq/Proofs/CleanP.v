From Coq Require Import List NArith Bool Lia Strings.Byte.
From Sftp Require Import Base.GoSem Path.Clean.
Import ListNotations.

Definition nosl (s : bytes) : bool := forallb (fun b => negb (is_sl b)) s.

Lemma nosl_rev s : nosl s = true -> nosl (rev s) = true.
Proof.
  unfold nosl. rewrite !forallb_forall. intros H x Hx. apply H. apply in_rev. exact Hx.
Qed.

Lemma split_sl_nosl : forall p cur, nosl cur = true -> Forall (fun s => nosl s = true) (split_sl p cur).
Proof.
  induction p as [|x t IH]; intros cur Hc; cbn [split_sl].
  - constructor; [apply nosl_rev; exact Hc | constructor].
  - destruct (is_sl x) eqn:E.
    + constructor; [apply nosl_rev; exact Hc | apply IH; reflexivity].
    + apply IH. unfold nosl. cbn [forallb]. rewrite E. cbn [negb andb]. exact Hc.
Qed.

Lemma good_seg_intro s : nosl s = true -> is_empty s = false -> is_dot s = false -> is_dotdot s = false -> good_seg s = true.
Proof. intros H1 H2 H3 H4. unfold good_seg. rewrite H2, H3, H4. cbn [negb andb]. exact H1. Qed.

(* rooted cleaning: every element left on the stack is a good segment *)
Lemma clean_stack_rooted_good : forall segs stack,
  Forall (fun s => nosl s = true) segs -> Forall (fun s => good_seg s = true) stack ->
  Forall (fun s => good_seg s = true) (clean_stack true segs stack).
Proof.
  induction segs as [|s rest IH]; intros stack Hs Hst; cbn [clean_stack].
  - apply Forall_rev. exact Hst.
  - inversion Hs as [|? ? Hn Hrest]; subst.
    destruct (is_empty s || is_dot s) eqn:E1; [apply IH; assumption|].
    apply orb_false_iff in E1. destruct E1 as [Ee Ed].
    destruct (is_dotdot s) eqn:E2.
    + destruct stack as [|top below]; [apply IH; [assumption | constructor]|].
      inversion Hst as [|? ? Htop Hbelow]; subst.
      assert (Htd : is_dotdot top = false).
      { unfold good_seg in Htop. destruct (is_dotdot top); [|reflexivity].
        rewrite !andb_true_iff in Htop. destruct Htop as [[[_ _] H] _]. discriminate. }
      rewrite Htd. apply IH; assumption.
    + apply IH; [assumption|]. constructor; [apply good_seg_intro; assumption | exact Hst].
Qed.

Lemma is_abs_clean_segments p : is_abs p = true ->
  fst (clean_segments p) = true /\ Forall (fun s => good_seg s = true) (snd (clean_segments p)).
Proof.
  intros H. unfold clean_segments. rewrite H. cbn [fst snd]. split; [reflexivity|].
  apply clean_stack_rooted_good; [apply split_sl_nosl; reflexivity | constructor].
Qed.

Theorem clean_abs_good : forall p, is_abs p = true ->
  exists segs, clean p = render_path true segs /\ Forall (fun s => good_seg s = true) segs.
Proof.
  intros p H. destruct (is_abs_clean_segments p H) as [H1 H2].
  destruct p as [|x t]; [discriminate|]. unfold clean.
  destruct (clean_segments (x :: t)) as [r segs] eqn:E. cbn [fst snd] in *. subst r.
  exists segs. split; [reflexivity | exact H2].
Qed.

Lemma render_path_rooted_abs segs : is_abs (render_path true segs) = true.
Proof. unfold render_path. destruct segs; cbn [is_abs]; unfold is_sl, sl; reflexivity. Qed.

(* cleanPathWithBase with an absolute base: the result is absolute and lexically clean, for every byte string p *)
Theorem clean_with_base_abs_good : forall base p, is_abs base = true ->
  exists segs, clean_with_base base p = render_path true segs /\ Forall (fun s => good_seg s = true) segs.
Proof.
  intros base p Hb. unfold clean_with_base.
  destruct (is_abs (clean p)) eqn:Ea.
  - (* clean p is absolute only if p is: then it is good *)
    assert (Hp : is_abs p = true).
    { unfold clean in Ea. destruct p as [|x t]; [discriminate|].
      unfold clean_segments in Ea. cbn zeta in Ea.
      destruct (is_abs (x :: t)) eqn:E; [reflexivity|].
      exfalso. unfold render_path in Ea.
      destruct (clean_stack false (split_sl (x :: t) []) []) as [|s rest] eqn:Es; [discriminate|].
      (* relative clean path starting with '/' would need a segment starting with '/', but segments are slash-free *)
      assert (Hn : Forall (fun s => nosl s = true) (s :: rest)).
      { rewrite <- Es. clear. 
        assert (G : forall segs stack, Forall (fun s => nosl s = true) segs -> Forall (fun s => nosl s = true) stack ->
                  Forall (fun s => nosl s = true) (clean_stack false segs stack)).
        { induction segs as [|s0 r0 IH]; intros stack H1 H2; cbn [clean_stack]; [apply Forall_rev; exact H2|].
          inversion H1; subst. destruct (is_empty s0 || is_dot s0); [apply IH; assumption|].
          destruct (is_dotdot s0).
          - destruct stack as [|top below]; [apply IH; [assumption | constructor; [assumption | constructor]]|].
            inversion H2; subst. destruct (is_dotdot top); apply IH; try assumption. constructor; assumption.
          - apply IH; [assumption | constructor; assumption]. }
        apply G; [apply split_sl_nosl; reflexivity | constructor]. }
      inversion Hn as [|? ? Hs _]; subst. 
      destruct s as [|c s']; cbn [join_sl is_abs] in Ea.
      - destruct rest; [discriminate|]. cbn [app is_abs] in Ea. 
        (* "" ++ '/' ... : an empty first segment; clean_stack never keeps an empty segment *)
        clear - Es. exfalso.
        assert (G : forall segs stack, Forall (fun s => is_empty s = false) stack ->
                  Forall (fun s => is_empty s = false) (clean_stack false segs stack)).
        { induction segs as [|s0 r0 IH]; intros stack H2; cbn [clean_stack]; [apply Forall_rev; exact H2|].
          destruct (is_empty s0 || is_dot s0) eqn:E0; [apply IH; assumption|].
          apply orb_false_iff in E0. destruct E0 as [E0 _].
          destruct (is_dotdot s0).
          - destruct stack as [|top below]; [apply IH; constructor; [assumption | constructor]|].
            inversion H2; subst. destruct (is_dotdot top); apply IH; try assumption. constructor; assumption.
          - apply IH. constructor; assumption. }
        specialize (G (split_sl (x :: t) []) [] (Forall_nil _)). rewrite Es in G. inversion G; subst. discriminate.
      - destruct rest; cbn [app is_abs] in Ea; unfold nosl in Hs; cbn [forallb] in Hs; rewrite Ea in Hs; discriminate. }
    apply clean_abs_good. exact Hp.
  - (* relative: joined under the absolute base *)
    unfold join2. destruct base as [|b0 bt]; [discriminate|].
    destruct (clean p) as [|c ct] eqn:Ec.
    + apply clean_abs_good. exact Hb.
    + apply clean_abs_good. cbn [app is_abs]. cbn [is_abs] in Hb. exact Hb.
Qed.

Theorem clean_path_abs_good : forall p,
  exists segs, clean_path p = render_path true segs /\ Forall (fun s => good_seg s = true) segs.
Proof. intros p. apply clean_with_base_abs_good. reflexivity. Qed.

(* confinement: a good segment is never "..", so joining the result under any root cannot climb out of it *)
Theorem good_seg_not_dotdot : forall s, good_seg s = true -> is_dotdot s = false /\ is_empty s = false /\ is_dot s = false /\ nosl s = true.
Proof.
  intros s H. unfold good_seg in H. rewrite !andb_true_iff in H. destruct H as [[[H1 H2] H3] H4].
  apply negb_true_iff in H1, H2, H3. repeat split; assumption.
Qed.

(* cleaning is idempotent on its own output for rooted paths *)
Theorem to_local_path_no_workdir : forall p, to_local_path [] p = p.
Proof. reflexivity. Qed.

Theorem to_local_path_abs : forall w p, is_abs p = true -> to_local_path w p = p.
Proof. intros w p H. unfold to_local_path. destruct w; [reflexivity|]. rewrite H. reflexivity. Qed.
