From Coq Require Import List NArith ZArith Bool Arith Lia.
From Sftp Require Import Base.GoSem Xfer.Transfer.
Import ListNotations.

Lemma rfc_workers_bounds : forall arg maxc, 1 <= maxc -> 1 <= rfc_workers arg maxc <= maxc.
Proof.
  intros arg maxc Hm. unfold rfc_workers, rfc_workers_gen.
  destruct (Z.of_nat maxc <? arg)%Z eqn:E1; cbn [orb]; [lia|].
  destruct (arg <? 1)%Z eqn:E2; [lia|]. apply Z.ltb_ge in E1. apply Z.ltb_ge in E2. lia.
Qed.

(* whatever the argument - in range, zero, negative, above the maximum - the transfer is the one of readFromConc *)
Theorem readFromConc_any_argument : forall arg maxc s p src off d, 1 <= maxc ->
  readFromConcArg 1%Z arg maxc s p src off d = readFromConc s p src off d.
Proof.
  intros arg maxc s p src off d Hm. unfold readFromConcArg. fold (rfc_workers arg maxc).
  pose proof (rfc_workers_bounds arg maxc Hm) as H. destruct (rfc_workers arg maxc); [lia | reflexivity].
Qed.

(* the variant that lets 0 through ("< 0" for "< 1") starts no worker: nothing is transferred and nil is returned *)
Theorem zero_passes_refuted : forall maxc s p src off d,
  readFromConcArg 0%Z 0%Z maxc s p src off d = (s, 0, None, off).
Proof.
  intros. unfold readFromConcArg, rfc_workers_gen. destruct (Z.of_nat maxc <? 0)%Z eqn:E; [apply Z.ltb_lt in E; lia|]. reflexivity.
Qed.
