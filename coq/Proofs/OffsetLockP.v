From Coq Require Import List Bool Arith Lia.
From Sftp Require Import Xfer.OffsetLock.
Import ListNotations.
Import OffsetLock.

Lemma stage_of_set_same : forall c s l, In c (map fst l) -> stage_of c (set_stage c s l) = Some s.
Proof.
  intros c s. induction l as [|[c' s'] t IH]; intros H; [destruct H|]. cbn [set_stage map fst stage_of].
  destruct (c' =? c) eqn:E; cbn [fst stage_of]; rewrite E; [reflexivity|].
  apply IH. destruct H as [H|H]; [cbn in H; subst; rewrite Nat.eqb_refl in E; discriminate | exact H].
Qed.

Lemma stage_of_set_other : forall c c2 s l, c2 <> c -> stage_of c2 (set_stage c s l) = stage_of c2 l.
Proof.
  intros c c2 s. induction l as [|[c' s'] t IH]; intros H; [reflexivity|]. cbn [set_stage map fst stage_of].
  destruct (c' =? c) eqn:E; cbn [fst stage_of].
  - apply Nat.eqb_eq in E. subst c'. destruct (c =? c2) eqn:E2; [apply Nat.eqb_eq in E2; congruence | apply IH; exact H].
  - destruct (c' =? c2); [reflexivity | apply IH; exact H].
Qed.

Lemma stage_of_in : forall c s l, stage_of c l = Some s -> In c (map fst l).
Proof.
  intros c s. induction l as [|[c' s'] t IH]; intros H; [discriminate|]. cbn [stage_of] in H. cbn [map fst].
  destruct (c' =? c) eqn:E; [left; apply Nat.eqb_eq; exact E | right; apply IH; exact H].
Qed.

Lemma map_fst_set_stage : forall c s l, map fst (set_stage c s l) = map fst l.
Proof. intros c s l. unfold set_stage. rewrite map_map. apply map_ext. intros [a b]. cbn. destruct (a =? c); reflexivity. Qed.

Definition midway (st : ostage) : bool := match st with OHeld | OLoaded _ | OSent _ | OStored => true | _ => false end.
Definition wrote (st : ostage) : bool := match st with OSent _ | OStored | ODone => true | _ => false end.

Definition oinv (s : ost) : Prop :=
  (forall c st, stage_of c (stages s) = Some st -> midway st = true -> holders s = [c]) /\
  (forall h, In h (holders s) -> exists st, stage_of h (stages s) = Some st /\ midway st = true) /\
  map fst (cells s) = seq 0 (length (cells s)) /\
  NoDup (map snd (cells s)) /\
  (forall c, In c (map snd (cells s)) <-> exists st, stage_of c (stages s) = Some st /\ wrote st = true) /\
  match holders s with
  | [] => off s = length (cells s)
  | h :: _ => match stage_of h (stages s) with
              | Some OHeld | Some OStored => off s = length (cells s)
              | Some (OLoaded o) => o = off s /\ off s = length (cells s)
              | Some (OSent o) => S o = length (cells s)
              | _ => False
              end
  end.

Lemma oinv_init : forall n, oinv (o0 n).
Proof.
  intros n. unfold oinv, o0. cbn [holders off cells stages map length seq].
  assert (Hidle : forall c st, stage_of c (map (fun c0 => (c0, OIdle)) (seq 0 n)) = Some st -> st = OIdle).
  { intros c st. induction (seq 0 n) as [|x t IH]; cbn [map stage_of]; [discriminate|].
    destruct (x =? c); [intros H; inversion H; reflexivity | exact IH]. }
  split; [|split; [|split; [|split; [|split]]]].
  - intros c st Hs Hm. apply Hidle in Hs. subst. discriminate Hm.
  - intros h [].
  - reflexivity.
  - constructor.
  - intros c. split; [intros [] | intros [st [Hs Hw]]; apply Hidle in Hs; subst; discriminate Hw].
  - reflexivity.
Qed.

Lemma nodup_snoc : forall (l : list nat) x, NoDup l -> ~ In x l -> NoDup (l ++ [x]).
Proof.
  induction l as [|y l IH]; intros x Hn Hx; cbn [app]; [constructor; [intros []|constructor]|].
  inversion Hn as [|? ? Hy Hl]; subst. constructor.
  - intros Hin. apply in_app_or in Hin. destruct Hin as [Hin|[Hin|[]]]; [exact (Hy Hin) | subst; apply Hx; left; reflexivity].
  - apply IH; [exact Hl | intros Hin; apply Hx; right; exact Hin].
Qed.

Ltac six := split; [|split; [|split; [|split; [|split]]]].

Lemma oinv_step : forall s l s', oinv s -> ostep true s l = Some s' -> oinv s'.
Proof.
  intros s l s' [H1 [H2 [H3 [H4 [H5 H6]]]]] H.
  destruct l as [c|c|c|c|c]; cbn [ostep] in H; destruct (stage_of c (stages s)) as [st|] eqn:Es; try discriminate H;
    destruct st as [| |o|o| |]; try discriminate H; pose proof (stage_of_in _ _ _ Es) as Hin.
  - (* OAcq *)
    destruct (holders s) as [|h0 hs] eqn:Eh; cbn [andb negb] in H; [|discriminate H].
    inversion H; clear H. unfold oinv; cbn [holders off cells stages]. six.
    + intros c2 st2 Hs Hm. destruct (Nat.eq_dec c2 c) as [->|Hne]; [reflexivity|].
      rewrite stage_of_set_other in Hs by exact Hne. specialize (H1 c2 st2 Hs Hm). discriminate H1.
    + intros h [<-|[]]. exists OHeld. split; [apply stage_of_set_same; exact Hin | reflexivity].
    + exact H3.
    + exact H4.
    + intros c2. destruct (Nat.eq_dec c2 c) as [->|Hne].
      * rewrite stage_of_set_same by exact Hin. split.
        -- intros Hw. apply H5 in Hw. destruct Hw as [st [Hs Hw]]. rewrite Es in Hs. inversion Hs; subst. discriminate Hw.
        -- intros [st [Hs Hw]]. inversion Hs; subst. discriminate Hw.
      * rewrite stage_of_set_other by exact Hne. apply H5.
    + rewrite stage_of_set_same by exact Hin. exact H6.
  - (* OLoad *)
    pose proof (H1 c OHeld Es eq_refl) as Hh. inversion H; clear H. unfold oinv; cbn [holders off cells stages]. six.
    + intros c2 st2 Hs Hm. destruct (Nat.eq_dec c2 c) as [->|Hne]; [exact Hh|].
      rewrite stage_of_set_other in Hs by exact Hne. exact (H1 c2 st2 Hs Hm).
    + intros h Hh2. rewrite Hh in Hh2. destruct Hh2 as [<-|[]]. exists (OLoaded (off s)). split; [apply stage_of_set_same; exact Hin | reflexivity].
    + exact H3.
    + exact H4.
    + intros c2. destruct (Nat.eq_dec c2 c) as [->|Hne].
      * rewrite stage_of_set_same by exact Hin. split.
        -- intros Hw. apply H5 in Hw. destruct Hw as [st [Hs Hw]]. rewrite Es in Hs. inversion Hs; subst. discriminate Hw.
        -- intros [st [Hs Hw]]. inversion Hs; subst. discriminate Hw.
      * rewrite stage_of_set_other by exact Hne. apply H5.
    + rewrite Hh in *. rewrite Es in H6. rewrite stage_of_set_same by exact Hin. split; [reflexivity | exact H6].
  - (* OSend *)
    pose proof (H1 c (OLoaded o) Es eq_refl) as Hh. rewrite Hh, Es in H6. destruct H6 as [Ho Hoff].
    assert (Hnw : ~ In c (map snd (cells s))).
    { intros Hw. apply H5 in Hw. destruct Hw as [st [Hs Hw]]. rewrite Es in Hs. inversion Hs; subst. discriminate Hw. }
    inversion H; clear H. unfold oinv; cbn [holders off cells stages]. six.
    + intros c2 st2 Hs Hm. destruct (Nat.eq_dec c2 c) as [->|Hne]; [exact Hh|].
      rewrite stage_of_set_other in Hs by exact Hne. exact (H1 c2 st2 Hs Hm).
    + intros h Hh2. rewrite Hh in Hh2. destruct Hh2 as [<-|[]]. exists (OSent o). split; [apply stage_of_set_same; exact Hin | reflexivity].
    + rewrite map_app, app_length. cbn [map fst length]. rewrite Nat.add_1_r, seq_S, H3. cbn [plus]. f_equal. f_equal. lia.
    + rewrite map_app. cbn [map snd]. apply nodup_snoc; assumption.
    + intros c2. rewrite map_app, in_app_iff. cbn [map snd In]. destruct (Nat.eq_dec c2 c) as [->|Hne].
      * rewrite stage_of_set_same by exact Hin. split; [intros _; exists (OSent o); split; reflexivity | intros _; right; left; reflexivity].
      * rewrite stage_of_set_other by exact Hne. rewrite <- H5. split; [intros [Hw|[Hw|[]]]; [exact Hw | congruence] | intros Hw; left; exact Hw].
    + rewrite Hh. rewrite stage_of_set_same by exact Hin. rewrite app_length. cbn [length]. lia.
  - (* OStore *)
    pose proof (H1 c (OSent o) Es eq_refl) as Hh. rewrite Hh, Es in H6.
    inversion H; clear H. unfold oinv; cbn [holders off cells stages]. six.
    + intros c2 st2 Hs Hm. destruct (Nat.eq_dec c2 c) as [->|Hne]; [exact Hh|].
      rewrite stage_of_set_other in Hs by exact Hne. exact (H1 c2 st2 Hs Hm).
    + intros h Hh2. rewrite Hh in Hh2. destruct Hh2 as [<-|[]]. exists OStored. split; [apply stage_of_set_same; exact Hin | reflexivity].
    + exact H3.
    + exact H4.
    + intros c2. destruct (Nat.eq_dec c2 c) as [->|Hne].
      * rewrite stage_of_set_same by exact Hin. split; [intros _; exists OStored; split; reflexivity|].
        intros _. apply H5. exists (OSent o). split; [exact Es | reflexivity].
      * rewrite stage_of_set_other by exact Hne. apply H5.
    + rewrite Hh. rewrite stage_of_set_same by exact Hin. exact H6.
  - (* ORel *)
    pose proof (H1 c OStored Es eq_refl) as Hh. rewrite Hh, Es in H6.
    inversion H; clear H. unfold oinv; cbn [holders off cells stages]. rewrite Hh. cbn [filter]. rewrite Nat.eqb_refl. cbn [negb]. six.
    + intros c2 st2 Hs Hm. destruct (Nat.eq_dec c2 c) as [->|Hne].
      * rewrite stage_of_set_same in Hs by exact Hin. inversion Hs; subst. discriminate Hm.
      * rewrite stage_of_set_other in Hs by exact Hne. specialize (H1 c2 st2 Hs Hm). rewrite Hh in H1. inversion H1; subst. congruence.
    + intros h [].
    + exact H3.
    + exact H4.
    + intros c2. destruct (Nat.eq_dec c2 c) as [->|Hne].
      * rewrite stage_of_set_same by exact Hin. split; [intros _; exists ODone; split; reflexivity|].
        intros _. apply H5. exists OStored. split; [exact Es | reflexivity].
      * rewrite stage_of_set_other by exact Hne. apply H5.
    + exact H6.
Qed.

Lemma ostep_dom : forall e s l s', ostep e s l = Some s' -> map fst (stages s') = map fst (stages s).
Proof.
  intros e s l s' H. destruct l as [c|c|c|c|c]; cbn [ostep] in H; destruct (stage_of c (stages s)) as [st|]; try discriminate H;
    destruct st; try discriminate H.
  - destruct (e && negb match holders s with [] => true | _ :: _ => false end); [discriminate H|].
    inversion H; cbn [stages]. apply map_fst_set_stage.
  - inversion H; cbn [stages]. apply map_fst_set_stage.
  - inversion H; cbn [stages]. apply map_fst_set_stage.
  - inversion H; cbn [stages]. apply map_fst_set_stage.
  - inversion H; cbn [stages]. apply map_fst_set_stage.
Qed.

Lemma orun_inv : forall tr s s', oinv s -> orun true s tr = Some s' -> oinv s' /\ map fst (stages s') = map fst (stages s).
Proof.
  induction tr as [|l tr IH]; intros s s' Hi H; cbn [orun] in H; [inversion H; subst; split; [exact Hi | reflexivity]|].
  destruct (ostep true s l) as [s1|] eqn:E; [|discriminate H].
  destruct (IH s1 s' (oinv_step _ _ _ Hi E) H) as [Hi' Hd]. split; [exact Hi'|]. rewrite Hd. eapply ostep_dom; exact E.
Qed.

Lemma stage_of_pair : forall c st l, stage_of c l = Some st -> In (c, st) l.
Proof.
  intros c st. induction l as [|[c' s'] t IH]; intros H; [discriminate|]. cbn [stage_of] in H.
  destruct (c' =? c) eqn:E; [apply Nat.eqb_eq in E; inversion H; subst; left; reflexivity | right; apply IH; exact H].
Qed.

Lemma stage_of_some : forall c l, In c (map fst l) -> exists st, stage_of c l = Some st.
Proof.
  intros c. induction l as [|[c' s'] t IH]; intros H; [destruct H|]. cbn [stage_of]. destruct (c' =? c) eqn:E; [eexists; reflexivity|].
  apply IH. destruct H as [H|H]; [cbn in H; subst; rewrite Nat.eqb_refl in E; discriminate | exact H].
Qed.

Lemma count_one : forall x l, NoDup l -> In x l -> count_occ_nat x l = 1.
Proof.
  intros x. induction l as [|y l IH]; intros Hn Hin; [destruct Hin|]. inversion Hn as [|? ? Hy Hl]; subst. cbn [count_occ_nat].
  destruct (y =? x) eqn:E.
  - apply Nat.eqb_eq in E. subst y. assert (Hz : count_occ_nat x l = 0).
    { clear IH Hn Hl Hin. induction l as [|z l IHl]; [reflexivity|]. cbn [count_occ_nat]. destruct (z =? x) eqn:Ez.
      - exfalso. apply Hy. left. apply Nat.eqb_eq. exact Ez.
      - apply IHl. intros H. apply Hy. right. exact H. }
    rewrite Hz. reflexivity.
  - destruct Hin as [Hin|Hin]; [subst; rewrite Nat.eqb_refl in E; discriminate|]. rewrite (IH Hl Hin). reflexivity.
Qed.

(* for every number of Write calls and every interleaving of their steps: when all have returned, the blocks lie at positions
   0..n-1, every call's block exactly once, and the offset stands behind the last *)
Theorem writes_serialize : forall n tr s, orun true (o0 n) tr = Some s -> all_done s = true ->
  off s = n /\ map fst (cells s) = seq 0 n /\ NoDup (map snd (cells s)) /\ (forall c, c < n -> In c (map snd (cells s))) /\
  layout_ok n (map snd (cells s)) = true.
Proof.
  intros n tr s Hr Hd. destruct (orun_inv tr _ _ (oinv_init n) Hr) as [[H1 [H2 [H3 [H4 [H5 H6]]]]] Hdom].
  assert (Hdom0 : map fst (stages s) = seq 0 n).
  { rewrite Hdom. unfold o0. cbn [stages]. rewrite map_map. cbn [fst]. apply map_id. }
  assert (Hall : forall c st, stage_of c (stages s) = Some st -> st = ODone).
  { intros c st Hs. apply stage_of_pair in Hs. unfold all_done in Hd. rewrite forallb_forall in Hd. specialize (Hd _ Hs). cbn [snd] in Hd.
    destruct st; try discriminate Hd. reflexivity. }
  assert (Hin : forall c, c < n -> In c (map snd (cells s))).
  { intros c Hc. apply H5. destruct (stage_of_some c (stages s)) as [st Hs]; [rewrite Hdom0; apply in_seq; lia|].
    exists st. split; [exact Hs|]. rewrite (Hall _ _ Hs). reflexivity. }
  assert (Hsub : incl (map snd (cells s)) (seq 0 n)).
  { intros c Hc. apply H5 in Hc. destruct Hc as [st [Hs _]]. apply stage_of_in in Hs. rewrite Hdom0 in Hs. exact Hs. }
  assert (Hsup : incl (seq 0 n) (map snd (cells s))).
  { intros c Hc. apply in_seq in Hc. apply Hin. lia. }
  assert (Hlen : length (cells s) = n).
  { pose proof (NoDup_incl_length H4 Hsub) as A. pose proof (NoDup_incl_length (seq_NoDup n 0) Hsup) as B.
    rewrite map_length in A, B. rewrite seq_length in A, B. lia. }
  assert (Hh : holders s = []).
  { destruct (holders s) as [|h hs] eqn:Eh; [reflexivity|]. exfalso. destruct (H2 h) as [st [Hs Hm]]; [left; reflexivity|].
    rewrite (Hall _ _ Hs) in Hm. discriminate Hm. }
  rewrite Hh in H6. split; [lia|]. split; [rewrite H3, Hlen; reflexivity|]. split; [exact H4|]. split; [exact Hin|].
  unfold layout_ok. rewrite map_length, Hlen, Nat.eqb_refl. cbn [andb]. apply forallb_forall. intros c Hc. apply in_seq in Hc.
  apply Nat.eqb_eq. apply count_one; [exact H4 | apply Hin; lia].
Qed.

(* with the shared lock two calls read the same offset: one block replaces the other, both calls report success, and the offset
   stands one short *)
Theorem shared_lock_loses_a_write :
  exists tr s, orun false (o0 2) tr = Some s /\ all_done s = true /\ off s = 1 /\ holder_of 0 (cells s) = Some 1 /\ holder_of 1 (cells s) = None
               /\ layout_ok 2 (map snd (filter (fun e => match holder_of (fst e) (cells s) with Some w => w =? snd e | None => false end) (cells s))) = false.
Proof.
  exists [OAcq 0; OAcq 1; OLoad 0; OLoad 1; OSend 0; OSend 1; OStore 0; OStore 1; ORel 0; ORel 1]. eexists.
  split; [vm_compute; reflexivity|]. vm_compute. split; [reflexivity|]. split; [reflexivity|]. split; [reflexivity|]. split; reflexivity.
Qed.

Example writes_nonvacuous : exists s, orun true (o0 3) [OAcq 1; OLoad 1; OSend 1; OStore 1; ORel 1; OAcq 0; OLoad 0; OSend 0; OStore 0; ORel 0;
                                                      OAcq 2; OLoad 2; OSend 2; OStore 2; ORel 2] = Some s
                                 /\ all_done s = true /\ map snd (cells s) = [1; 0; 2] /\ off s = 3.
Proof. eexists. split; [vm_compute; reflexivity|]. vm_compute. split; [reflexivity|]. split; reflexivity. Qed.
