From Coq Require Import List Bool Arith Lia.
From Sftp Require Import Sched.PktMgr.
Import ListNotations.

(* ---------- C02: responses leave in arrival order, each once ---------- *)
Definition inv1 (s : st) : Prop :=
  exists n m,
    let E := length (emitted s) in
    emitted s = seq 1 E /\ incoming s = seq (S E) n /\ reqq s = seq (S E + n) m /\
    map fst (pending s) = seq (S E + n + m) (length (pending s)) /\
    arrived s = E + n + m + length (pending s).

Lemma insert_sorted_seq_end : forall a n, insert_sorted (a + n) (seq a n) = seq a (S n).
Proof.
  intros a n. revert a. induction n as [|n IH]; intros a; [cbn; f_equal; lia|].
  cbn [seq insert_sorted]. replace (a + S n <=? a) with false by (symmetry; apply Nat.leb_gt; lia).
  f_equal. replace (a + S n) with (S a + n) by lia. rewrite IH. reflexivity.
Qed.

(* one emission step keeps "emitted is an initial segment, incoming is the next segment" *)
Lemma maybe_send_inv : forall fuel E n out inc' out' em',
  maybe_send fuel (seq (S E) n) out (seq 1 E) = (inc', out', em') ->
  exists k, k <= n /\ em' = seq 1 (E + k) /\ inc' = seq (S (E + k)) (n - k).
Proof.
  induction fuel as [|f IH]; intros E n out inc' out' em' H; cbn [maybe_send] in H.
  - inversion H; subst. exists 0. rewrite Nat.add_0_r, Nat.sub_0_r. repeat split; lia.
  - destruct n as [|n]; cbn [seq] in H.
    + inversion H; subst. exists 0. rewrite Nat.add_0_r. repeat split; lia.
    + destruct out as [|o out1]; [inversion H; subst; exists 0; rewrite Nat.add_0_r, Nat.sub_0_r; repeat split; lia|].
      destruct (S E =? o) eqn:Eo.
      * apply Nat.eqb_eq in Eo. subst o.
        replace (seq 1 E ++ [S E]) with (seq 1 (S E)) in H by (rewrite seq_S; reflexivity).
        apply IH in H. destruct H as [k [Hk [He Hi]]]. exists (S k). split; [lia|].
        split; [rewrite He; f_equal; lia | rewrite Hi; f_equal; lia].
      * inversion H; subst. exists 0. rewrite Nat.add_0_r, Nat.sub_0_r. repeat split; lia.
Qed.

Lemma inv1_step : forall s l s', inv1 s -> step s l = Some s' -> inv1 s'.
Proof.
  intros s l s' [n [m [He [Hi [Hr [Hp Ha]]]]]] Hs. cbn zeta in *.
  set (E := length (emitted s)) in *.
  destruct l; cbn [step] in Hs.
  - (* Arrive *) inversion Hs; subst s'. exists n, m. cbn [emitted incoming reqq pending arrived]. fold E.
    repeat split; try assumption.
    + rewrite map_app, Hp, app_length. cbn [map fst length]. rewrite Nat.add_1_r, seq_S. f_equal. f_equal. lia.
    + rewrite app_length. cbn [length]. lia.
  - (* Dispatch *)
    destruct (pending s) as [|[oid k] rest] eqn:Ep; [discriminate|].
    destruct (kind_eqb k KClose && negb (working s =? 0)); [discriminate|]. inversion Hs; subst s'.
    cbn [map fst length seq] in Hp. inversion Hp as [[Ho Hrest]].
    exists n, (S m). cbn [emitted incoming reqq pending arrived]. fold E.
    repeat split; try assumption.
    + rewrite Hr, seq_S. f_equal.
    + rewrite Hrest. f_equal. lia.
    + cbn [length] in Ha. lia.
  - (* FinishRW *) destruct (existsb (Nat.eqb oid) (rw_run s)); [|discriminate]. inversion Hs; subst s'.
    exists n, m. cbn [emitted incoming reqq pending arrived]. fold E. repeat split; assumption.
  - (* FinishCmd *) destruct (cmd_q s) as [|[oid k] rest]; [discriminate|]. inversion Hs; subst s'.
    exists n, m. cbn [emitted incoming reqq pending arrived]. fold E. repeat split; assumption.
  - (* CtlReq *)
    destruct (reqq s) as [|oid rest] eqn:Eq; [discriminate|].
    destruct m as [|m']; [cbn [seq] in Hr; discriminate|]. cbn [seq] in Hr. injection Hr as Ho Hrest.
    assert (Hins : insert_sorted oid (seq (S E) n) = seq (S E) (S n)) by (rewrite Ho; exact (insert_sorted_seq_end (S E) n)).
    rewrite Hi, Hins in Hs. rewrite He in Hs.
    destruct (maybe_send (S (length (seq (S E) (S n)))) (seq (S E) (S n)) (outgoing s) (seq 1 E)) as [[inc' out'] em'] eqn:Em.
    inversion Hs; subst s'. apply maybe_send_inv in Em. destruct Em as [k [Hk [Hem Hinc]]].
    exists (S n - k), m'. cbn [emitted incoming reqq pending arrived].
    assert (Hl : length em' = E + k) by (rewrite Hem, seq_length; reflexivity).
    rewrite Hl. repeat split.
    + exact Hem.
    + exact Hinc.
    + rewrite Hrest. f_equal. lia.
    + rewrite Hp. f_equal. lia.
    + lia.
  - (* CtlResp *)
    destruct (respq s) as [|oid rest]; [discriminate|].
    rewrite Hi, He in Hs.
    destruct (maybe_send (S (length (insert_sorted oid (outgoing s)))) (seq (S E) n) (insert_sorted oid (outgoing s)) (seq 1 E))
      as [[inc' out'] em'] eqn:Em.
    inversion Hs; subst s'. apply maybe_send_inv in Em. destruct Em as [k [Hk [Hem Hinc]]].
    exists (n - k), m. cbn [emitted incoming reqq pending arrived].
    assert (Hl : length em' = E + k) by (rewrite Hem, seq_length; reflexivity).
    rewrite Hl. repeat split.
    + exact Hem.
    + exact Hinc.
    + rewrite Hr. f_equal. lia.
    + rewrite Hp. f_equal. lia.
    + lia.
Qed.

Lemma inv1_init : inv1 init.
Proof. exists 0, 0. cbn. repeat split. Qed.

Lemma inv_run : forall (P : st -> Prop), (forall s l s', P s -> step s l = Some s' -> P s') ->
  forall tr s s', P s -> run s tr = Some s' -> P s'.
Proof.
  intros P Hstep. induction tr as [|l tr IH]; intros s s' Hp Hr; cbn [run] in Hr.
  - inversion Hr; subst. exact Hp.
  - destruct (step s l) as [s1|] eqn:Es; [|discriminate]. eapply IH; [eapply Hstep; eassumption | exact Hr].
Qed.

(* for every request program and every schedule of dispatcher, pool workers, command worker and controller:
   the responses written so far are those of the first requests, in arrival order, each exactly once *)
Theorem emitted_prefix : forall tr s, run init tr = Some s ->
  emitted s = seq 1 (length (emitted s)) /\ length (emitted s) <= arrived s /\ NoDup (emitted s).
Proof.
  intros tr s H. pose proof (inv_run inv1 inv1_step tr init s inv1_init H) as [n [m [He [_ [_ [_ Ha]]]]]].
  cbn zeta in *. split; [exact He|]. split; [lia|]. rewrite He. apply seq_NoDup.
Qed.

(* ---------- C14: the CLOSE barrier ---------- *)
Definition dispatched (s : st) : nat := arrived s - length (pending s).

Definition inv2 (s : st) : Prop :=
  inv1 s /\
  working s = length (rw_run s) + length (cmd_q s) /\
  NoDup (rw_run s) /\
  Forall (fun r => r <= dispatched s) (rw_run s) /\
  Forall (fun c => fst c <= dispatched s) (cmd_q s) /\
  (* the barrier: a CLOSE that has been handed to the command worker has no earlier READ/WRITE still in the pool *)
  Forall (fun c => snd c = KClose -> Forall (fun r => fst c < r) (rw_run s)) (cmd_q s).

Lemma nodup_snoc {A} : forall (l : list A) x, NoDup l -> ~ In x l -> NoDup (l ++ [x]).
Proof.
  induction l as [|y t IH]; intros x Hnd Hni; cbn [app]; [constructor; [intros []|constructor]|].
  inversion Hnd as [|? ? Hy Ht]; subst. constructor.
  - intros Hin. apply in_app_or in Hin. destruct Hin as [Hin|[<-|[]]]; [apply Hy; exact Hin | apply Hni; left; reflexivity].
  - apply IH; [exact Ht | intros H; apply Hni; right; exact H].
Qed.

Lemma remove_nat_length : forall x l, NoDup l -> In x l -> S (length (remove_nat x l)) = length l.
Proof.
  intros x l. induction l as [|y t IH]; intros Hnd Hin; [destruct Hin|].
  inversion Hnd as [|? ? Hni Hnd']; subst. cbn [remove_nat filter].
  destruct (y =? x) eqn:E.
  - apply Nat.eqb_eq in E. subst y. cbn [negb]. fold (remove_nat x t).
    assert (Hid : remove_nat x t = t).
    { clear - Hni. induction t as [|z t IH]; [reflexivity|]. cbn [remove_nat filter].
      destruct (z =? x) eqn:Ez; [apply Nat.eqb_eq in Ez; subst; exfalso; apply Hni; left; reflexivity|].
      cbn [negb]. f_equal. apply IH. intros H. apply Hni. right. exact H. }
    rewrite Hid. reflexivity.
  - cbn [negb length]. fold (remove_nat x t). destruct Hin as [->|Hin]; [rewrite Nat.eqb_refl in E; discriminate|].
    rewrite (IH Hnd' Hin). reflexivity.
Qed.

Lemma remove_nat_sub : forall x l P, Forall P l -> Forall P (remove_nat x l).
Proof. intros x l P H. unfold remove_nat. apply Forall_forall. intros y Hy. apply filter_In in Hy. rewrite Forall_forall in H. apply H. apply Hy. Qed.

Lemma remove_nat_nodup : forall x l, NoDup l -> NoDup (remove_nat x l).
Proof. intros. apply NoDup_filter. assumption. Qed.

Lemma inv1_dispatched : forall s, inv1 s -> map fst (pending s) = seq (S (dispatched s)) (length (pending s)).
Proof.
  intros s [n [m [_ [_ [_ [Hp Ha]]]]]]. cbn zeta in *. unfold dispatched. rewrite Hp. f_equal. lia.
Qed.

Lemma inv2_step : forall s l s', inv2 s -> step s l = Some s' -> inv2 s'.
Proof.
  intros s l s' [H1 [Hw [Hnd [Hrw [Hcq Hbar]]]]] Hs.
  assert (H1' : inv1 s') by (eapply inv1_step; eassumption).
  split; [exact H1'|].
  pose proof (inv1_dispatched s H1) as Hpd.
  destruct l; cbn [step] in Hs.
  - (* Arrive: dispatched unchanged *) inversion Hs; subst s'. unfold dispatched in *. cbn [working rw_run cmd_q arrived pending] in *.
    rewrite app_length. cbn [length]. replace (S (arrived s) - (length (pending s) + 1)) with (arrived s - length (pending s)).
    2:{ destruct H1 as [n [m [_ [_ [_ [_ Ha]]]]]]. cbn zeta in Ha. lia. }
    repeat split; assumption.
  - (* Dispatch *)
    destruct (pending s) as [|[oid k] rest] eqn:Ep; [discriminate|].
    destruct (kind_eqb k KClose && negb (working s =? 0)) eqn:Eb; [discriminate|]. inversion Hs; subst s'.
    cbn [map fst length seq] in Hpd. injection Hpd as Ho Hrest.
    assert (Hds : dispatched s = oid - 1 /\ 1 <= oid).
    { split; lia. }
    destruct Hds as [Hds Hpos]. rewrite Hds in Hrw, Hcq.
    unfold dispatched. cbn [working rw_run cmd_q arrived pending].
    assert (Hd' : arrived s - length rest = oid).
    { unfold dispatched in Ho. rewrite Ep in Ho. cbn [length] in Ho.
      destruct H1 as [n [m [_ [_ [_ [_ Ha]]]]]]. cbn zeta in Ha. rewrite Ep in Ha. cbn [length] in Ha. lia. }
    rewrite Hd'.
    assert (Hlt : forall r, In r (rw_run s) -> r < oid) by (intros r Hr; rewrite Forall_forall in Hrw; specialize (Hrw r Hr); lia).
    assert (Hltc : forall c, In c (cmd_q s) -> fst c < oid) by (intros c Hc; rewrite Forall_forall in Hcq; specialize (Hcq c Hc); lia).
    destruct k; cbn [kind_eqb andb] in *.
    + (* RW *) repeat split.
      * rewrite app_length. cbn [length]. lia.
      * apply nodup_snoc; [exact Hnd | intros Hi; specialize (Hlt oid Hi); lia].
      * apply Forall_app. split; [eapply Forall_impl; [|exact Hrw]; cbn beta; intros; lia | constructor; [lia | constructor]].
      * eapply Forall_impl; [|exact Hcq]. cbn beta. intros; lia.
      * rewrite Forall_forall in *. intros c Hc Hk. apply Forall_app. split; [apply Hbar; assumption|].
        constructor; [apply Hltc; exact Hc | constructor].
    + (* Close: working = 0, so nothing is running *)
      assert (Hz : working s = 0) by (destruct (working s =? 0) eqn:Ez; [apply Nat.eqb_eq in Ez; exact Ez | discriminate]).
      assert (Hr0 : rw_run s = []) by (destruct (rw_run s); [reflexivity | cbn [length] in Hw; lia]).
      assert (Hc0 : cmd_q s = []) by (destruct (cmd_q s); [reflexivity | rewrite Hr0 in Hw; cbn [length] in Hw; lia]).
      rewrite Hr0, Hc0. cbn [app length]. repeat split; try lia.
      all: repeat constructor; cbn [fst snd]; try lia.
    + (* Cmd *) repeat split.
      * rewrite app_length. cbn [length]. lia.
      * exact Hnd.
      * eapply Forall_impl; [|exact Hrw]. cbn beta. intros; lia.
      * apply Forall_app. split; [eapply Forall_impl; [|exact Hcq]; cbn beta; intros; lia | constructor; [cbn [fst]; lia | constructor]].
      * apply Forall_app. split; [exact Hbar | constructor; [cbn [snd]; discriminate | constructor]].
  - (* FinishRW *)
    destruct (existsb (Nat.eqb oid) (rw_run s)) eqn:Ex; [|discriminate]. inversion Hs; subst s'.
    apply existsb_exists in Ex. destruct Ex as [y [Hy Ey]]. apply Nat.eqb_eq in Ey. subst y.
    unfold dispatched in *. cbn [working rw_run cmd_q arrived pending] in *.
    pose proof (remove_nat_length oid (rw_run s) Hnd Hy) as Hl.
    repeat split.
    + lia.
    + apply remove_nat_nodup. exact Hnd.
    + apply remove_nat_sub. exact Hrw.
    + exact Hcq.
    + eapply Forall_impl; [|exact Hbar]. cbn beta. intros c Hc Hk. apply remove_nat_sub. apply Hc. exact Hk.
  - (* FinishCmd *)
    destruct (cmd_q s) as [|[oid k] rest] eqn:Ec; [discriminate|]. inversion Hs; subst s'.
    unfold dispatched in *. cbn [working rw_run cmd_q arrived pending] in *. cbn [length] in Hw.
    inversion Hcq; subst. inversion Hbar; subst. repeat split; try assumption. lia.
  - (* CtlReq *)
    destruct (reqq s) as [|oid rest]; [discriminate|].
    destruct (maybe_send _ _ _ _) as [[inc' out'] em'] in Hs. inversion Hs; subst s'.
    unfold dispatched in *. cbn [working rw_run cmd_q arrived pending] in *. repeat split; assumption.
  - (* CtlResp *)
    destruct (respq s) as [|oid rest]; [discriminate|].
    destruct (maybe_send _ _ _ _) as [[inc' out'] em'] in Hs. inversion Hs; subst s'.
    unfold dispatched in *. cbn [working rw_run cmd_q arrived pending] in *. repeat split; assumption.
Qed.

Lemma inv2_init : inv2 init.
Proof. split; [exact inv1_init|]. cbn. repeat split; constructor. Qed.

(* for every pipeline and every relative speed of pool workers and command worker: while a CLOSE is with the command
   worker (queued or being handled), no READ/WRITE that arrived before it is still in the pool; and the WaitGroup
   counts exactly the requests handed to workers and not yet answered *)
Theorem close_barrier : forall tr s, run init tr = Some s ->
  working s = length (rw_run s) + length (cmd_q s) /\
  Forall (fun c => snd c = KClose -> Forall (fun r => fst c < r) (rw_run s)) (cmd_q s).
Proof.
  intros tr s H. pose proof (inv_run inv2 inv2_step tr init s inv2_init H) as [_ [Hw [_ [_ [_ Hb]]]]].
  split; assumption.
Qed.

(* a CLOSE is handed to the command worker only when nothing at all is in flight *)
Theorem close_dispatch_needs_idle : forall s oid rest s',
  pending s = (oid, KClose) :: rest -> step s Dispatch = Some s' -> working s = 0.
Proof.
  intros s oid rest s' Hp Hs. cbn [step] in Hs. rewrite Hp in Hs. cbn [kind_eqb andb] in Hs.
  destruct (working s =? 0) eqn:E; [apply Nat.eqb_eq in E; exact E | discriminate].
Qed.

(* "with its id": the packet manager orders by arrival, not by the id the peer chose. Whatever id each request carries - the
   assignment need not be injective: a peer may reuse an id while an earlier request with the same id is still in flight -
   the ids on the wire are the ids of requests 1..k in arrival order. *)
Theorem emitted_ids_any_assignment : forall (A : Type) (rid : nat -> A) tr s, run init tr = Some s ->
  map rid (emitted s) = map rid (seq 1 (length (emitted s))).
Proof.
  intros A rid tr s H. f_equal. exact (proj1 (emitted_prefix tr s H)).
Qed.
