(* Client.Walk visits what filepath.Walk's specification names (Fs/Tree.v c_walk / spec_walk). *)
From Coq Require Import List Bool Arith Lia.
From Sftp Require Import Fs.Tree Proofs.TreeP.
Import ListNotations.
Import FsTree FsTreeP.

Lemma child_kind : forall t p e, wf t -> In e (children t p) -> kind_at t (fst e) = Some (snd e) /\ exists c, fst e = p ++ [c].
Proof.
  intros t p [q kq] Hwf Hin. apply in_children in Hin. destruct Hin as [Hin [c Hc]]. cbn [fst snd] in *. split; [|exists c; exact Hc].
  subst q. rewrite kind_at_cons by apply snoc_ne. apply in_assoc; [apply Hwf | exact Hin].
Qed.

Lemma under_snoc_ne : forall p c x, under (p ++ [c]) x = true -> x <> p.
Proof. intros p c x H ->. rewrite under_snoc_self in H. discriminate. Qed.

(* the traversal returns exactly the root and the entries strictly below it *)
Theorem walk_visits : forall fuel t p k, wf t -> p <> [] -> kind_at t p = Some k -> cnt t p < fuel ->
  forall x kx, In (x, kx) (c_walk fuel t p k) <-> (x = p /\ kx = k) \/ (In (x, kx) t /\ under p x = true /\ x <> p).
Proof.
  induction fuel as [|f IH]; intros t p k Hwf Hp Hk Hf x kx; [lia|].
  assert (Hin_p : In (p, k) t) by (apply assoc_in; rewrite <- kind_at_cons by exact Hp; exact Hk).
  cbn [c_walk]. split.
  - intros [Heq | Hin]; [inversion Heq; subst; left; split; reflexivity|]. right.
    destruct k; try destruct Hin.
    apply in_flat_map in Hin. destruct Hin as [[q kq] [Hq Hx]]. cbn [fst snd] in Hx.
    destruct (child_kind t p (q, kq) Hwf Hq) as [Hkq [c Hc]]. cbn [fst snd] in Hkq, Hc. subst q.
    assert (Hcnt : cnt t (p ++ [c]) < f) by (pose proof (cnt_child_lt t p c KDir Hin_p); lia).
    apply (IH t (p ++ [c]) kq Hwf (snoc_ne p c) Hkq Hcnt) in Hx.
    destruct Hx as [[-> ->] | (Hin & Hu & Hne)].
    + split; [|split; [apply under_app | apply (under_snoc_ne p c); apply under_refl]].
      apply in_children in Hq. apply Hq.
    + split; [exact Hin|]. split; [eapply under_trans; [apply under_app | exact Hu] | apply (under_snoc_ne p c); exact Hu].
  - intros [[-> ->] | (Hin & Hu & Hne)]; [left; reflexivity|]. right.
    destruct (under_split t p (x, kx) Hwf Hin Hu) as [Heq | [[q kq] [Hq Huq]]]; [cbn [fst] in Heq; congruence|]. cbn [fst] in Huq.
    (* p has something below it: it is a directory *)
    assert (Hdir : k = KDir).
    { apply under_iff in Hu. destruct Hu as [r ->]. destruct r as [|c r]; [rewrite app_nil_r in Hne; congruence|].
      assert (Hx : kind_at t (p ++ c :: r) = Some kx).
      { rewrite kind_at_cons by (destruct p; discriminate). apply in_assoc; [apply Hwf | exact Hin]. }
      rewrite (wf_ancestor t p (c :: r) kx Hwf Hx) in Hk by discriminate. inversion Hk. reflexivity. }
    subst k. apply in_flat_map. exists (q, kq). split; [exact Hq|]. cbn [fst snd].
    destruct (child_kind t p (q, kq) Hwf Hq) as [Hkq [c Hc]]. cbn [fst snd] in Hkq, Hc. subst q.
    assert (Hcnt : cnt t (p ++ [c]) < f) by (pose proof (cnt_child_lt t p c KDir Hin_p); lia).
    apply (IH t (p ++ [c]) kq Hwf (snoc_ne p c) Hkq Hcnt).
    destruct (list_eq_dec Nat.eq_dec x (p ++ [c])) as [->|Hxq].
    + left. split; [reflexivity|]. rewrite kind_at_cons in Hkq by apply snoc_ne.
      assert (Some kx = Some kq); [|congruence]. rewrite <- Hkq. symmetry. apply in_assoc; [apply Hwf | exact Hin].
    + right. split; [exact Hin|]. split; [exact Huq | exact Hxq].
Qed.

(* ... which is filepath.Walk's specification, entry for entry *)
Theorem walk_refines_spec : forall t p k, wf t -> p <> [] -> kind_at t p = Some k ->
  forall e, In e (c_walk (S (cnt t p)) t p k) <-> In e (spec_walk t p k).
Proof.
  intros t p k Hwf Hp Hk [x kx]. rewrite (walk_visits (S (cnt t p)) t p k Hwf Hp Hk (Nat.lt_succ_diag_r _) x kx).
  unfold spec_walk. cbn [In]. rewrite filter_In. cbn [fst].
  split.
  - intros [[-> ->] | (Hin & Hu & Hne)]; [left; reflexivity|]. right. split; [exact Hin|].
    rewrite Hu. cbn [andb]. rewrite (path_eqb_neq x p Hne). reflexivity.
  - intros [Heq | [Hin Hc]]; [inversion Heq; left; split; reflexivity|]. right.
    apply andb_true_iff in Hc. destruct Hc as [Hu Hn]. split; [exact Hin|]. split; [exact Hu|].
    intros ->. rewrite path_eqb_refl in Hn. discriminate.
Qed.

(* ---- each exactly once ---- *)
Lemma nodup_app {A} : forall (l1 l2 : list A), NoDup l1 -> NoDup l2 -> (forall x, In x l1 -> ~ In x l2) -> NoDup (l1 ++ l2).
Proof.
  induction l1 as [|a l1 IH]; intros l2 H1 H2 Hd; cbn [app]; [exact H2|].
  inversion H1 as [|? ? Hni H1']; subst. constructor.
  - intros Hin. apply in_app_or in Hin. destruct Hin as [Hin|Hin]; [exact (Hni Hin) | exact (Hd a (or_introl eq_refl) Hin)].
  - apply IH; [exact H1' | exact H2 | intros x Hx; apply Hd; right; exact Hx].
Qed.

Lemma nodup_flat_map {A B} : forall (f : A -> list B) (l : list A), NoDup l ->
  (forall a, In a l -> NoDup (f a)) ->
  (forall a b x, In a l -> In b l -> a <> b -> In x (f a) -> ~ In x (f b)) ->
  NoDup (flat_map f l).
Proof.
  intros f. induction l as [|a l IH]; intros Hnd Hf Hdis; cbn [flat_map]; [constructor|].
  inversion Hnd as [|? ? Hni Hnd']; subst. apply nodup_app.
  - apply Hf. left. reflexivity.
  - apply IH; [exact Hnd' | intros b Hb; apply Hf; right; exact Hb |].
    intros b c x Hb Hc Hbc. apply Hdis; [right; exact Hb | right; exact Hc | exact Hbc].
  - intros x Hx Hin. apply in_flat_map in Hin. destruct Hin as [b [Hb Hxb]].
    apply (Hdis a b x (or_introl eq_refl) (or_intror Hb)); [intros ->; exact (Hni Hb) | exact Hx | exact Hxb].
Qed.

Lemma nodup_of_fst {A B} : forall (l : list (A * B)), NoDup (map fst l) -> NoDup l.
Proof.
  induction l as [|e l IH]; intros H; [constructor|]. cbn [map] in H. inversion H as [|? ? Hni Hnd]; subst. constructor.
  - intros Hin. apply Hni. apply in_map. exact Hin.
  - apply IH. exact Hnd.
Qed.

Lemma under_both : forall (a b z : path), under a z = true -> under b z = true -> under a b = true \/ under b a = true.
Proof.
  induction a as [|x a IH]; intros b z Ha Hb; [left; reflexivity|].
  destruct b as [|y b]; [right; reflexivity|]. destruct z as [|w z]; [discriminate|].
  cbn [under] in *. apply andb_true_iff in Ha. apply andb_true_iff in Hb. destruct Ha as [Hxw Ha], Hb as [Hyw Hb].
  apply Nat.eqb_eq in Hxw. apply Nat.eqb_eq in Hyw. subst. rewrite Nat.eqb_refl. cbn [andb]. apply (IH b z Ha Hb).
Qed.

Theorem walk_once : forall fuel t p k, wf t -> p <> [] -> kind_at t p = Some k -> cnt t p < fuel ->
  NoDup (map fst (c_walk fuel t p k)).
Proof.
  induction fuel as [|f IH]; intros t p k Hwf Hp Hk Hf; [lia|].
  assert (Hin_p : In (p, k) t) by (apply assoc_in; rewrite <- kind_at_cons by exact Hp; exact Hk).
  pose proof (walk_visits (S f) t p k Hwf Hp Hk Hf) as Hvis.
  cbn [c_walk map fst] in *. constructor.
  - (* the root is not met again below *)
    intros Hin. apply in_map_iff in Hin. destruct Hin as [[x kx] [Hx Hin]]. cbn [fst] in Hx. subst x.
    assert (H : In (p, kx) ((p, k) :: match k with KDir => flat_map (fun e => c_walk f t (fst e) (snd e)) (children t p) | _ => [] end))
      by (right; exact Hin).
    (* an element of the tail is strictly below p *)
    destruct k; try destruct Hin.
    apply in_flat_map in Hin. destruct Hin as [[q kq] [Hq Hx]]. cbn [fst snd] in Hx.
    destruct (child_kind t p (q, kq) Hwf Hq) as [Hkq [c Hc]]. cbn [fst snd] in Hkq, Hc. subst q.
    assert (Hcnt : cnt t (p ++ [c]) < f) by (pose proof (cnt_child_lt t p c KDir Hin_p); lia).
    apply (walk_visits f t (p ++ [c]) kq Hwf (snoc_ne p c) Hkq Hcnt) in Hx.
    destruct Hx as [[Heq _] | (_ & Hu & _)].
    + apply (f_equal (@length name)) in Heq. rewrite app_length in Heq. cbn in Heq. lia.
    + rewrite under_snoc_self in Hu. discriminate.
  - destruct k; try constructor.
    rewrite flat_map_concat_map, concat_map, map_map, <- flat_map_concat_map.
    apply nodup_flat_map.
    + apply nodup_of_fst. unfold children. apply nodup_map_filter. apply Hwf.
    + intros [q kq] Hq. cbn [fst snd].
      destruct (child_kind t p (q, kq) Hwf Hq) as [Hkq [c Hc]]. cbn [fst snd] in Hkq, Hc. subst q.
      apply IH; [exact Hwf | apply snoc_ne | exact Hkq | pose proof (cnt_child_lt t p c KDir Hin_p); lia].
    + intros [q1 k1] [q2 k2] x H1 H2 Hne Hx1 Hx2. cbn [fst snd] in *.
      destruct (child_kind t p (q1, k1) Hwf H1) as [Hk1 [c1 Hc1]]. destruct (child_kind t p (q2, k2) Hwf H2) as [Hk2 [c2 Hc2]].
      cbn [fst snd] in *. subst q1 q2.
      assert (Hc : c1 <> c2).
      { intros ->. apply Hne. f_equal. rewrite Hk1 in Hk2. inversion Hk2. reflexivity. }
      assert (Hcnt1 : cnt t (p ++ [c1]) < f) by (pose proof (cnt_child_lt t p c1 KDir Hin_p); lia).
      assert (Hcnt2 : cnt t (p ++ [c2]) < f) by (pose proof (cnt_child_lt t p c2 KDir Hin_p); lia).
      apply in_map_iff in Hx1. destruct Hx1 as [[x1 kx1] [E1 Hx1]]. apply in_map_iff in Hx2. destruct Hx2 as [[x2 kx2] [E2 Hx2]].
      cbn [fst] in E1, E2. subst x1 x2.
      apply (walk_visits f t (p ++ [c1]) k1 Hwf (snoc_ne p c1) Hk1 Hcnt1) in Hx1.
      apply (walk_visits f t (p ++ [c2]) k2 Hwf (snoc_ne p c2) Hk2 Hcnt2) in Hx2.
      assert (U1 : under (p ++ [c1]) x = true) by (destruct Hx1 as [[-> _] | (_ & Hu & _)]; [apply under_refl | exact Hu]).
      assert (U2 : under (p ++ [c2]) x = true) by (destruct Hx2 as [[-> _] | (_ & Hu & _)]; [apply under_refl | exact Hu]).
      destruct (under_both _ _ _ U1 U2) as [H | H]; rewrite under_sibling in H by congruence; discriminate.
Qed.
