(* C02: an accepted trace that ends with nothing in flight has an emission for every arrival: the "nothing is lost" half
   carried over from the LTS to the recorded runs of packet-manager.go. *)
From Coq Require Import List Bool Arith Lia.
From Sftp Require Import Sched.PktMgr Sched.PktTrace Proofs.PktMgrP Proofs.PktMgrLiveP Proofs.PktTraceP.
Import ListNotations.

Lemma cnt_front : forall oid l x, cnt l oid = 1 -> cnt (oid :: remove_nat oid l) x = cnt l x.
Proof.
  intros oid l x H. rewrite cnt_cons, cnt_remove_nat. destruct (Nat.eqb_spec oid x) as [->|Hn]; cbn [ind]; lia.
Qed.

Lemma inv3_set_respq : forall s oid, inv3 s -> existsb (Nat.eqb oid) (respq s) = true ->
  inv3 (set_respq s (oid :: remove_nat oid (respq s))).
Proof.
  intros s oid [H1 [Hc [Hso Hh]]] Hex. split; [exact H1|]. split; [|split; assumption].
  assert (Hone : cnt (respq s) oid = 1).
  { pose proof (existsb_cnt _ _ Hex) as Hpos. pose proof (Hc oid) as Ho. rewrite cnt_stages in Ho.
    pose proof (ind_le1 ((length (emitted s) <? oid) && (oid <=? dispatched s))) as Hi. lia. }
  intros x. specialize (Hc x). rewrite cnt_stages in *. unfold dispatched in *.
  cbn [set_respq rw_run cmd_q respq outgoing arrived pending emitted].
  rewrite (cnt_front oid (respq s) x Hone). exact Hc.
Qed.

Lemma accept_step_inv3 : forall c e c', inv3 (fst c) -> accept_step c e = Some c' -> inv3 (fst c').
Proof.
  intros [s owed] e c' H3 H. cbn [fst] in H3. unfold accept_step in H.
  destruct e as [oid k|oid k|oid|oid|oid|oid].
  - destruct (step s (Arrive k)) as [s'|] eqn:Hs; [|discriminate]. destruct (arrived s' =? oid); [|discriminate].
    inversion H; subst c'. cbn [fst]. eapply inv3_step; eassumption.
  - destruct (pending s) as [|[o k'] rest] eqn:Ep; [discriminate|]. destruct (_ && _); [|discriminate].
    destruct (step s Dispatch) as [s'|] eqn:Hs; [|discriminate]. inversion H; subst c'. cbn [fst]. eapply inv3_step; eassumption.
  - destruct (existsb (Nat.eqb oid) (rw_run s)).
    + destruct (step s (FinishRW oid)) as [s'|] eqn:Hs; [|discriminate]. inversion H; subst c'. cbn [fst]. eapply inv3_step; eassumption.
    + destruct (head_is oid (map fst (cmd_q s))); [|discriminate].
      destruct (step s FinishCmd) as [s'|] eqn:Hs; [|discriminate]. inversion H; subst c'. cbn [fst]. eapply inv3_step; eassumption.
  - destruct owed; [|discriminate]. destruct (head_is oid (reqq s)); [|discriminate].
    destruct (step s CtlReq) as [s'|] eqn:Hs; [|discriminate]. inversion H; subst c'. cbn [fst]. eapply inv3_step; eassumption.
  - destruct owed; [|discriminate]. destruct (existsb (Nat.eqb oid) (respq s)) eqn:Hex; [|discriminate].
    destruct (step (set_respq s (oid :: remove_nat oid (respq s))) CtlResp) as [s'|] eqn:Hs; [|discriminate].
    inversion H; subst c'. cbn [fst]. eapply inv3_step; [apply inv3_set_respq; eassumption | exact Hs].
  - destruct owed as [|o rest]; [discriminate|]. destruct (o =? oid); [|discriminate]. inversion H; subst c'. exact H3.
Qed.

Lemma accept_inv3 : forall tr c i c', inv3 (fst c) -> accept c tr i = inl c' -> inv3 (fst c').
Proof.
  induction tr as [|e tr IH]; intros c i c' H3 H; cbn [accept] in H; [inversion H; subst; exact H3|].
  destruct (accept_step c e) as [c1|] eqn:Hs; [|discriminate]. eapply IH; [eapply accept_step_inv3; eassumption | exact H].
Qed.

(* the argument of quiescent_complete needs only inv3 *)
Lemma inv3_quiescent_complete : forall s, inv3 s -> quiescent s = true -> emitted s = seq 1 (arrived s).
Proof.
  intros s [H1 [Hc [Hso Hh]]] Hq.
  destruct H1 as [n [m [He [Hi [Hr [Hp Ha]]]]]]. cbn zeta in *.
  unfold quiescent in Hq.
  destruct (pending s) eqn:E1; [|discriminate]. destruct (reqq s) eqn:E2; [|discriminate].
  destruct (rw_run s) eqn:E3; [|discriminate]. destruct (cmd_q s) eqn:E4; [|discriminate].
  destruct (respq s) eqn:E5; [|discriminate]. clear Hq.
  destruct m; [|discriminate]. cbn [length] in Ha.
  destruct n as [|n]; [rewrite He at 1; f_equal; lia|].
  exfalso. set (E := length (emitted s)) in *.
  pose proof (Hc (S E)) as H1. rewrite cnt_stages, E3, E4, E5 in H1. cbn [map] in H1. rewrite !cnt_nil in H1.
  unfold dispatched in H1. rewrite E1 in H1. cbn [length] in H1.
  replace ((E <? S E) && (S E <=? arrived s - 0)) with true in H1
    by (symmetry; apply andb_true_iff; split; [apply Nat.ltb_lt | apply Nat.leb_le]; lia).
  cbn [ind] in H1. rewrite Hi in Hh. cbn [seq] in Hh.
  destruct (outgoing s) as [|o out] eqn:Eo; [rewrite cnt_nil in H1; lia|].
  cbn [heads_differ] in Hh. destruct Hso as [Hlt _].
  rewrite cnt_cons in H1. destruct (Nat.eqb_spec o (S E)) as [->|Hne]; [apply Hh; reflexivity|].
  cbn [ind] in H1. assert (Hin : In (S E) out) by (apply cnt_in; lia).
  rewrite Forall_forall in Hlt. specialize (Hlt _ Hin).
  pose proof (Hc o) as H2. rewrite cnt_stages, E3, E4, E5, Eo in H2. cbn [map] in H2.
  rewrite !cnt_nil, cnt_cons, Nat.eqb_refl in H2. cbn [ind] in H2.
  destruct ((E <? o) && (o <=? dispatched s)) eqn:B; cbn [ind] in H2; [|lia].
  apply andb_true_iff in B. destruct B as [B _]. apply Nat.ltb_lt in B. lia.
Qed.

(* every recorded run the model accepts and that ends with nothing in flight answered every request exactly once: the
   E events of the trace, followed by the emissions its last controller step still owes, are 1 .. (number of arrivals) *)
Theorem accepted_quiescent_complete : forall tr s owed,
  accept_trace tr = inl (s, owed) -> quiescent s = true ->
  es_of tr ++ owed = seq 1 (arrived s).
Proof.
  intros tr s owed H Hq. unfold accept_trace in H.
  pose proof (accept_inv3 tr (init, []) 0 (s, owed) inv3_init H) as H3. cbn [fst] in H3.
  destruct (accepted_trace_in_order tr s owed H) as [_ [Hsplit _]].
  rewrite <- Hsplit. apply inv3_quiescent_complete; assumption.
Qed.

(* the form the check uses (arrival kinds filled in from the dispatch events) *)
Theorem accepted_raw_quiescent_complete : forall tr s owed,
  accept_raw tr = inl (s, owed) -> quiescent s = true ->
  es_of tr ++ owed = seq 1 (arrived s).
Proof.
  intros tr s owed H Hq. unfold accept_raw in H. rewrite <- (es_of_annotate tr). apply accepted_quiescent_complete; assumption.
Qed.
