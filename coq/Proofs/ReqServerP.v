From Coq Require Import List NArith Bool Strings.Byte.
From Sftp Require Import Base.GoSem Wire.Prim Wire.Packets Path.Clean Srv.ReqServer Proofs.CleanP.
Import ListNotations.

Definition abs_clean (p : bytes) : Prop :=
  exists segs, p = render_path true segs /\ Forall (fun s => good_seg s = true) segs.

(* every path handed to a handler is absolute and lexically clean relative to the start directory, for every request,
   every path string (any bytes) and every combination of optional interfaces; only a symlink's target text and the
   argument of a custom real-path resolver are verbatim *)
Theorem dispatch_paths_clean : forall start ifc p c,
  is_abs start = true -> dispatch start ifc p = Some c ->
  (verbatim_path c = false -> abs_clean (c_path c)) /\ (c_target c = [] \/ abs_clean (c_target c)).
Proof.
  intros start ifc p c Hs H.
  assert (G : forall q, abs_clean (clean_with_base start q)) by (intros q; apply clean_with_base_abs_good; exact Hs).
  destruct p; cbn [dispatch] in H; try discriminate;
  repeat match type of H with
  | (if ?b then _ else _) = Some _ => destruct b
  end; try discriminate; inversion H; subst; cbn [c_path c_target verbatim_path c_entry c_meth];
  (split; [intros Hv; try discriminate; apply G | first [left; reflexivity | right; apply G]]).
Qed.

Theorem realpath_default_clean : forall start path, is_abs start = true -> abs_clean (realpath_default start path).
Proof. intros. apply clean_with_base_abs_good. assumption. Qed.
