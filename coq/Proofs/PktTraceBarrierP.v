(* C14 on the recorded runs: in every trace of packet-manager.go that the model accepts, the dispatch of a CLOSE comes after
   the "finished" event of every request dispatched before it. *)
From Coq Require Import List Bool Arith Lia.
From Sftp Require Import Sched.PktMgr Sched.PktTrace.
Import ListNotations.

Definition tinv (done : list ev) (s : st) : Prop :=
  length (rw_run s) + length (cmd_q s) <= working s /\
  forall o k, In (EvD o k) done -> In (EvF o) done \/ In o (rw_run s) \/ In o (map fst (cmd_q s)).

Lemma remove_nat_keeps : forall x o l, In o l -> o <> x -> In o (remove_nat x l).
Proof.
  intros x o l Hin Hne. unfold remove_nat. apply filter_In. split; [exact Hin|].
  apply negb_true_iff. apply Nat.eqb_neq. exact Hne.
Qed.

Lemma flen_le : forall (f : nat -> bool) l, length (filter f l) <= length l.
Proof. intros f. induction l as [|y t IH]; cbn [filter length]; [lia|]. destruct (f y); cbn [length]; lia. Qed.

Lemma remove_nat_shorter : forall x l, existsb (Nat.eqb x) l = true -> S (length (remove_nat x l)) <= length l.
Proof.
  intros x. induction l as [|y t IH]; intros H; [discriminate|]. cbn [existsb] in H. unfold remove_nat in *. cbn [filter length].
  destruct (y =? x) eqn:E; cbn [negb].
  - pose proof (flen_le (fun y0 => negb (y0 =? x)) t). lia.
  - cbn [length]. rewrite Nat.eqb_sym in E. rewrite E in H. cbn [orb] in H. specialize (IH H). lia.
Qed.

Lemma existsb_in : forall x l, existsb (Nat.eqb x) l = true -> In x l.
Proof. intros x l H. apply existsb_exists in H. destruct H as [y [Hin Hy]]. apply Nat.eqb_eq in Hy. subst. exact Hin. Qed.

Lemma in_snoc {A} : forall (x e : A) l, In x (l ++ [e]) <-> In x l \/ x = e.
Proof. intros. rewrite in_app_iff. cbn [In]. intuition congruence. Qed.

Lemma tinv_step : forall done s owed e s' owed',
  tinv done s -> accept_step (s, owed) e = Some (s', owed') -> tinv (done ++ [e]) s'.
Proof.
  intros done s owed e s' owed' [Hw Hd] H. unfold accept_step in H.
  destruct e as [oid k|oid k|oid|oid|oid|oid].
  - (* A *)
    cbn [step] in H. match type of H with (if ?b then _ else _) = _ => destruct b end; [|discriminate].
    inversion H; subst s' owed'. split; cbn [rw_run cmd_q working]; [exact Hw|].
    intros o k0 Hin. apply in_snoc in Hin. destruct Hin as [Hin|Heq]; [|discriminate].
    destruct (Hd o k0 Hin) as [Hf|Hr]; [left; apply in_snoc; left; exact Hf | right; exact Hr].
  - (* D *)
    destruct (pending s) as [|[o0 k0] rest] eqn:Ep; [discriminate|].
    destruct ((o0 =? oid) && kind_eqb k k0) eqn:Eb; [|discriminate]. apply andb_true_iff in Eb. destruct Eb as [Eo Ek].
    apply Nat.eqb_eq in Eo. subst o0. cbn [step] in H. rewrite Ep in H.
    destruct (kind_eqb k0 KClose && negb (working s =? 0)); [discriminate|]. inversion H; subst s' owed'. clear H.
    split; cbn [rw_run cmd_q working].
    + destruct (kind_eqb k0 KRW); rewrite app_length; cbn [length]; lia.
    + intros o k1 Hin. apply in_snoc in Hin. destruct Hin as [Hin|Heq].
      * destruct (Hd o k1 Hin) as [Hf|[Hr|Hc]]; [left; apply in_snoc; left; exact Hf | |].
        -- right; left. destruct (kind_eqb k0 KRW); [apply in_or_app; left|]; exact Hr.
        -- right; right. destruct (kind_eqb k0 KRW); [exact Hc|]. rewrite map_app. apply in_or_app. left. exact Hc.
      * inversion Heq; subst o k1. right. destruct (kind_eqb k0 KRW).
        -- left. apply in_or_app. right. left. reflexivity.
        -- right. rewrite map_app. apply in_or_app. right. left. reflexivity.
  - (* F *)
    destruct (existsb (Nat.eqb oid) (rw_run s)) eqn:Ex.
    + cbn [step] in H. rewrite Ex in H. inversion H; subst s' owed'. clear H. split; cbn [rw_run cmd_q working].
      * pose proof (remove_nat_shorter _ _ Ex). lia.
      * intros o k Hin. apply in_snoc in Hin. destruct Hin as [Hin|Heq]; [|discriminate].
        destruct (Nat.eq_dec o oid) as [->|Hne]; [left; apply in_snoc; right; reflexivity|].
        destruct (Hd o k Hin) as [Hf|[Hr|Hc]]; [left; apply in_snoc; left; exact Hf | | right; right; exact Hc].
        right; left. apply remove_nat_keeps; assumption.
    + destruct (cmd_q s) as [|[o0 k0] rest] eqn:Ec; cbn [map fst head_is] in H; [discriminate|].
      destruct (oid =? o0) eqn:Eo; [|discriminate]. apply Nat.eqb_eq in Eo. subst o0.
      cbn [step] in H. rewrite Ec in H. inversion H; subst s' owed'. clear H. split; cbn [rw_run cmd_q working].
      * cbn [length] in Hw. lia.
      * intros o k Hin. apply in_snoc in Hin. destruct Hin as [Hin|Heq]; [|discriminate].
        destruct (Nat.eq_dec o oid) as [->|Hne]; [left; apply in_snoc; right; reflexivity|].
        destruct (Hd o k Hin) as [Hf|[Hr|Hc]]; [left; apply in_snoc; left; exact Hf | right; left; exact Hr |].
        right; right. cbn [map fst In] in Hc. destruct Hc as [Heq|Hc]; [congruence | exact Hc].
  - (* Q *)
    destruct owed; [|discriminate]. destruct (head_is oid (reqq s)); [|discriminate].
    cbn [step] in H. destruct (reqq s) as [|q rest]; [discriminate|].
    destruct (maybe_send _ _ _ _) as [[inc' out'] em']. inversion H; subst s' owed'. clear H. split; cbn [rw_run cmd_q working]; [exact Hw|].
    intros o k Hin. apply in_snoc in Hin. destruct Hin as [Hin|Heq]; [|discriminate].
    destruct (Hd o k Hin) as [Hf|Hr]; [left; apply in_snoc; left; exact Hf | right; exact Hr].
  - (* R *)
    destruct owed; [|discriminate]. destruct (existsb (Nat.eqb oid) (respq s)); [|discriminate].
    cbn [step set_respq respq] in H.
    destruct (maybe_send _ _ _ _) as [[inc' out'] em']. inversion H; subst s' owed'. clear H. split; cbn [rw_run cmd_q working]; [exact Hw|].
    intros o k Hin. apply in_snoc in Hin. destruct Hin as [Hin|Heq]; [|discriminate].
    destruct (Hd o k Hin) as [Hf|Hr]; [left; apply in_snoc; left; exact Hf | right; exact Hr].
  - (* E *)
    destruct owed as [|o0 rest]; [discriminate|]. destruct (o0 =? oid); [|discriminate]. inversion H; subst s' owed'. clear H.
    split; [exact Hw|]. intros o k Hin. apply in_snoc in Hin. destruct Hin as [Hin|Heq]; [|discriminate].
    destruct (Hd o k Hin) as [Hf|Hr]; [left; apply in_snoc; left; exact Hf | right; exact Hr].
Qed.

(* the replay of `pre ++ e :: post` passes through the state after `pre` *)
Lemma accept_split : forall pre c i e post c', accept c (pre ++ e :: post) i = inl c' ->
  forall done, tinv done (fst c) ->
  exists cm cm', tinv (done ++ pre) (fst cm) /\ accept_step cm e = Some cm'.
Proof.
  induction pre as [|x pre IH]; intros c i e post c' H done Hi; cbn [app accept] in H.
  - destruct (accept_step c e) as [cm'|] eqn:E; [|discriminate]. exists c, cm'. rewrite app_nil_r. split; [exact Hi | exact E].
  - destruct (accept_step c x) as [c1|] eqn:E; [|discriminate]. destruct c as [s owed]. destruct c1 as [s1 owed1].
    cbn [fst] in Hi. pose proof (tinv_step done s owed x s1 owed1 Hi E) as Hi1.
    destruct (IH (s1, owed1) (S i) e post c' H (done ++ [x]) Hi1) as [cm [cm' [Ht Hs]]].
    exists cm, cm'. rewrite <- app_assoc in Ht. cbn [app] in Ht. split; assumption.
Qed.

Lemma tinv_init : tinv [] init.
Proof. split; [cbn; lia|]. intros o k []. Qed.

(* for every recorded run the model accepts: when the dispatcher hands a CLOSE to the command worker, every request it
   handed out before (READ, WRITE or command, whatever the workers' relative speed) has reported that it is finished *)
Theorem accepted_close_after_finished : forall pre oid post c,
  accept_trace (pre ++ EvD oid KClose :: post) = inl c ->
  forall o k, In (EvD o k) pre -> In (EvF o) pre.
Proof.
  intros pre oid post c H o k Hin. unfold accept_trace in H.
  destruct (accept_split pre (init, []) 0 (EvD oid KClose) post c H [] tinv_init) as [[s owed] [cm' [[Hw Hd] Hs]]].
  cbn [app fst] in Hw, Hd. unfold accept_step in Hs.
  destruct (pending s) as [|[o0 k0] rest] eqn:Ep; [discriminate|].
  destruct ((o0 =? oid) && kind_eqb KClose k0) eqn:Eb; [|discriminate]. apply andb_true_iff in Eb. destruct Eb as [_ Ek].
  destruct k0; try discriminate. cbn [step] in Hs. rewrite Ep in Hs. cbn [kind_eqb andb] in Hs.
  destruct (working s =? 0) eqn:Ez; [|discriminate]. apply Nat.eqb_eq in Ez.
  destruct (Hd o k Hin) as [Hf|[Hr|Hc]]; [exact Hf | |].
  - destruct (rw_run s); [destruct Hr | cbn [length] in Hw; lia].
  - destruct (cmd_q s); [destruct Hc | cbn [length] in Hw; lia].
Qed.

(* the form the check uses: arrival kinds filled in from the dispatch events *)
Theorem accepted_raw_close_after_finished : forall pre oid post c,
  accept_raw (pre ++ EvD oid KClose :: post) = inl c ->
  forall o k, In (EvD o k) pre -> In (EvF o) pre.
Proof.
  intros pre oid post c H o k Hin. unfold accept_raw, annotate in H. rewrite map_app in H. cbn [map] in H.
  set (g := fun e => match e with EvA oid0 _ => EvA oid0 (kind_in (pre ++ EvD oid KClose :: post) oid0) | _ => e end) in *.
  assert (Hin' : In (EvD o k) (map g pre)) by (apply in_map_iff; exists (EvD o k); split; [reflexivity | exact Hin]).
  pose proof (accepted_close_after_finished (map g pre) oid (map g post) c H o k Hin') as Hf.
  apply in_map_iff in Hf. destruct Hf as [e [He Hi]]. destruct e; cbn in He; try discriminate. inversion He; subst. exact Hi.
Qed.
