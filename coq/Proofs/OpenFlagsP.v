(* Client.OpenFile's flags survive the wire: for EVERY os flag word, what the server hands to os.OpenFile is the word's
   access mode and its CREATE/TRUNC/EXCL bits (and EINVAL for the impossible access mode 3). *)
From Coq Require Import List NArith Bool Lia.
From Sftp Require Import Base.Bits Mode.FileMode Srv.ReadOnly Srv.OpenFlags Proofs.ReadOnlyP.
Import ListNotations.
Open Scope N_scope.

Definition flags_ok (w : N) : bool :=
  match open_osflags (toPflags w), served_osflags w with
  | Some a, Some b => a =? b
  | None, None => true
  | _, _ => false
  end.

Lemma flags_ok_sweep : forallb flags_ok (bits 11) = true.
Proof. vm_compute. reflexivity. Qed.

Lemma toPflags_low f : toPflags f = toPflags (f mod 2 ^ N.of_nat 11).
Proof.
  unfold toPflags.
  rewrite (land_low f o_accmode 11), (land_low f o_append 11), (land_low f o_creat 11), (land_low f o_trunc 11), (land_low f o_excl 11)
    by (vm_compute; reflexivity).
  reflexivity.
Qed.

Lemma served_low f : served_osflags f = served_osflags (f mod 2 ^ N.of_nat 11).
Proof.
  unfold served_osflags.
  rewrite (land_low f o_accmode 11), (land_low f (N.lor o_accmode (N.lor o_creat (N.lor o_trunc o_excl))) 11) by (vm_compute; reflexivity).
  reflexivity.
Qed.

Theorem openfile_flags_survive : forall f, open_osflags (toPflags f) = served_osflags f.
Proof.
  intros f. rewrite toPflags_low, served_low.
  assert (Hw : f mod 2 ^ N.of_nat 11 < 2 ^ N.of_nat 11) by (apply N.mod_lt; vm_compute; discriminate).
  pose proof (forallb_bits flags_ok 11 flags_ok_sweep _ Hw) as H. unfold flags_ok in H.
  destruct (open_osflags (toPflags (f mod 2 ^ N.of_nat 11))) as [a|], (served_osflags (f mod 2 ^ N.of_nat 11)) as [b|]; try discriminate; [|reflexivity].
  apply N.eqb_eq in H. subst. reflexivity.
Qed.

