(* C02, second half: nothing is lost. Every dispatched request that has not been emitted sits in exactly one response
   stage (pool, command worker, responses channel, controller's outgoing list), exactly once; the controller never
   stops with matching heads; hence a quiescent system has emitted every request that arrived. *)
From Coq Require Import List Bool Arith Lia.
From Sftp Require Import Sched.PktMgr Proofs.PktMgrP.
Import ListNotations.

Definition cnt (l : list nat) (x : nat) : nat := count_occ Nat.eq_dec l x.
Definition ind (b : bool) : nat := if b then 1 else 0.

Definition stages (s : st) : list nat := rw_run s ++ map fst (cmd_q s) ++ respq s ++ outgoing s.

Fixpoint ssorted (l : list nat) : Prop :=
  match l with [] => True | x :: t => Forall (fun y => x < y) t /\ ssorted t end.

Definition heads_differ (inc out : list nat) : Prop :=
  match inc, out with i :: _, o :: _ => i <> o | _, _ => True end.

Definition inv3 (s : st) : Prop :=
  inv1 s /\
  (forall x, cnt (stages s) x = ind ((length (emitted s) <? x) && (x <=? dispatched s))) /\
  ssorted (outgoing s) /\
  heads_differ (incoming s) (outgoing s).

(* ---- counting lemmas ---- *)
Lemma cnt_app : forall l1 l2 x, cnt (l1 ++ l2) x = cnt l1 x + cnt l2 x.
Proof. intros. apply count_occ_app. Qed.

Lemma cnt_cons : forall y l x, cnt (y :: l) x = ind (y =? x) + cnt l x.
Proof.
  intros y l x. unfold cnt. cbn [count_occ]. destruct (Nat.eq_dec y x) as [->|Hn].
  - rewrite Nat.eqb_refl. reflexivity.
  - apply Nat.eqb_neq in Hn. rewrite Hn. reflexivity.
Qed.

Lemma cnt_nil : forall x, cnt [] x = 0. Proof. reflexivity. Qed.

Lemma cnt_in : forall l x, In x l <-> 0 < cnt l x.
Proof. intros. unfold cnt. rewrite (count_occ_In Nat.eq_dec). unfold gt. reflexivity. Qed.

Lemma cnt_seq : forall k a x, cnt (seq a k) x = ind ((a <=? x) && (x <? a + k)).
Proof.
  induction k as [|k IH]; intros a x; cbn [seq].
  - rewrite cnt_nil. destruct (a <=? x) eqn:E1; cbn [andb ind]; [|reflexivity].
    apply Nat.leb_le in E1. replace (x <? a + 0) with false by (symmetry; apply Nat.ltb_ge; lia). reflexivity.
  - rewrite cnt_cons, IH. destruct (Nat.eqb_spec a x) as [->|Hn].
    + replace (x <=? x) with true by (symmetry; apply Nat.leb_le; lia).
      replace (S x <=? x) with false by (symmetry; apply Nat.leb_gt; lia).
      replace (x <? x + S k) with true by (symmetry; apply Nat.ltb_lt; lia). reflexivity.
    + destruct (a <=? x) eqn:E1.
      * apply Nat.leb_le in E1. replace (S a <=? x) with true by (symmetry; apply Nat.leb_le; lia).
        cbn [andb ind]. destruct (x <? S a + k) eqn:E2.
        -- apply Nat.ltb_lt in E2. replace (x <? a + S k) with true by (symmetry; apply Nat.ltb_lt; lia). reflexivity.
        -- apply Nat.ltb_ge in E2. replace (x <? a + S k) with false by (symmetry; apply Nat.ltb_ge; lia). reflexivity.
      * apply Nat.leb_gt in E1. replace (S a <=? x) with false by (symmetry; apply Nat.leb_gt; lia). reflexivity.
Qed.

Lemma cnt_insert_sorted : forall y l x, cnt (insert_sorted y l) x = ind (y =? x) + cnt l x.
Proof.
  intros y l x. induction l as [|z t IH]; cbn [insert_sorted]; [apply cnt_cons|].
  destruct (y <=? z); [apply cnt_cons|]. rewrite !cnt_cons, IH. lia.
Qed.

Lemma cnt_remove_nat : forall y l x, cnt (remove_nat y l) x = if y =? x then 0 else cnt l x.
Proof.
  intros y l x. unfold remove_nat. induction l as [|z t IH]; cbn [filter]; [rewrite cnt_nil; destruct (y =? x); reflexivity|].
  destruct (Nat.eqb_spec z y) as [->|Hzy]; cbn [negb].
  - rewrite IH, cnt_cons. destruct (Nat.eqb_spec y x); cbn [ind]; lia.
  - rewrite !cnt_cons, IH. destruct (Nat.eqb_spec y x) as [->|Hyx]; [|reflexivity].
    apply Nat.eqb_neq in Hzy. rewrite Hzy. reflexivity.
Qed.

Lemma existsb_cnt : forall y l, existsb (Nat.eqb y) l = true -> 0 < cnt l y.
Proof.
  intros y l H. apply cnt_in. apply existsb_exists in H. destruct H as [z [Hz Hyz]].
  apply Nat.eqb_eq in Hyz. subst z. exact Hz.
Qed.

(* ---- strictly sorted lists ---- *)
Lemma insert_sorted_in : forall x y l, In y (insert_sorted x l) <-> y = x \/ In y l.
Proof.
  intros x y l. rewrite !cnt_in, cnt_insert_sorted. destruct (Nat.eqb_spec x y) as [->|Hn]; cbn [ind]; split; intros H; lia.
Qed.

Lemma insert_sorted_ssorted : forall x l, ssorted l -> ~ In x l -> ssorted (insert_sorted x l).
Proof.
  intros x. induction l as [|z t IH]; intros Hs Hni; cbn [insert_sorted]; [split; [constructor | exact I]|].
  destruct Hs as [Hz Ht]. destruct (x <=? z) eqn:E.
  - apply Nat.leb_le in E. assert (x <> z) by (intros ->; apply Hni; left; reflexivity).
    split; [|split; assumption].
    constructor; [lia|]. eapply Forall_impl; [|exact Hz]. cbn beta. intros; lia.
  - apply Nat.leb_gt in E. split; [|apply IH; [exact Ht | intros H; apply Hni; right; exact H]].
    apply Forall_forall. intros y Hy. apply insert_sorted_in in Hy. destruct Hy as [->|Hy]; [lia|].
    rewrite Forall_forall in Hz. apply Hz. exact Hy.
Qed.

(* maybe_send started with incoming = the next segment: it pops k equal heads; afterwards the heads differ (or one
   list is empty); what is left of outgoing is still strictly sorted and lies above E+k *)
Lemma maybe_send_post : forall fuel E n out inc' out' em',
  length out < fuel \/ n < fuel ->
  ssorted out -> Forall (fun x => E < x) out ->
  maybe_send fuel (seq (S E) n) out (seq 1 E) = (inc', out', em') ->
  exists k, k <= n /\ em' = seq 1 (E + k) /\ inc' = seq (S (E + k)) (n - k) /\
            out = seq (S E) k ++ out' /\ heads_differ inc' out' /\ ssorted out' /\
            Forall (fun x => E + k < x) out'.
Proof.
  induction fuel as [|f IH]; intros E n out inc' out' em' Hfuel Hs Hgt H; [lia|].
  cbn [maybe_send] in H. destruct n as [|n]; cbn [seq] in H.
  - inversion H; subst. exists 0. rewrite Nat.add_0_r. cbn [seq app]. repeat split; try assumption; try lia.
  - destruct out as [|o out1].
    + inversion H; subst. exists 0. rewrite Nat.add_0_r, Nat.sub_0_r. cbn [seq app heads_differ].
      repeat split; try assumption; try lia.
    + destruct (S E =? o) eqn:Eo.
      * apply Nat.eqb_eq in Eo. subst o.
        replace (seq 1 E ++ [S E]) with (seq 1 (S E)) in H by (rewrite seq_S; reflexivity).
        destruct Hs as [Hlt Hs1].
        destruct (IH (S E) n out1 inc' out' em') as [k [Hk [Hem [Hinc [Hout [Hh [Hs' Hgt']]]]]]];
          [cbn [length] in Hfuel; lia | exact Hs1 | exact Hlt | exact H |].
        exists (S k). split; [lia|]. split; [rewrite Hem; f_equal; lia|]. split; [rewrite Hinc; f_equal; lia|].
        split; [cbn [seq app]; f_equal; exact Hout|]. repeat split; try assumption.
        eapply Forall_impl; [|exact Hgt']. cbn beta. intros; lia.
      * apply Nat.eqb_neq in Eo. inversion H; subst. exists 0. rewrite Nat.add_0_r, Nat.sub_0_r. cbn [seq app].
        split; [lia|]. split; [reflexivity|]. split; [reflexivity|]. split; [reflexivity|].
        split; [exact Eo|]. split; [exact Hs|]. eapply Forall_impl; [|exact Hgt]. cbn beta. intros; lia.
Qed.

Lemma cnt_stages : forall s x,
  cnt (stages s) x = cnt (rw_run s) x + cnt (map fst (cmd_q s)) x + cnt (respq s) x + cnt (outgoing s) x.
Proof. intros. unfold stages. rewrite !cnt_app. lia. Qed.

Lemma ind_le1 : forall b, ind b <= 1. Proof. destruct b; cbn; lia. Qed.

Ltac bool_lia :=
  repeat match goal with
  | |- context[?a <? ?b] => destruct (Nat.ltb_spec a b)
  | |- context[?a <=? ?b] => destruct (Nat.leb_spec a b)
  | |- context[?a =? ?b] => destruct (Nat.eqb_spec a b)
  | H : context[?a <? ?b] |- _ => destruct (Nat.ltb_spec a b)
  | H : context[?a <=? ?b] |- _ => destruct (Nat.leb_spec a b)
  | H : context[?a =? ?b] |- _ => destruct (Nat.eqb_spec a b)
  end; cbn [andb ind] in *; try lia.

Lemma inv3_step : forall s l s', inv3 s -> step s l = Some s' -> inv3 s'.
Proof.
  intros s l s' [H1 [Hc [Hso Hh]]] Hs.
  pose proof (inv1_step s l s' H1 Hs) as H1'.
  destruct H1 as [n [m [He [Hi [Hr [Hp Ha]]]]]]. cbn zeta in *.
  set (E := length (emitted s)) in *.
  assert (HD : dispatched s = E + n + m) by (unfold dispatched; rewrite Ha; lia).
  assert (Hrange : forall x, 0 < cnt (stages s) x -> E < x <= dispatched s).
  { intros x Hx. rewrite Hc in Hx. bool_lia. }
  split; [exact H1'|]. clear H1'.
  destruct l; cbn [step] in Hs.
  - (* Arrive *) inversion Hs; subst s'. cbn [incoming outgoing emitted]. fold E.
    split; [|split; assumption]. intros x. specialize (Hc x). rewrite cnt_stages in *.
    unfold dispatched in *. cbn [rw_run cmd_q respq outgoing arrived pending] in *. rewrite app_length. cbn [length].
    replace (S (arrived s) - (length (pending s) + 1)) with (arrived s - length (pending s)) by lia. exact Hc.
  - (* Dispatch *)
    destruct (pending s) as [|[oid k] rest] eqn:Ep; [discriminate|].
    destruct (kind_eqb k KClose && negb (working s =? 0)); [discriminate|]. inversion Hs; subst s'.
    cbn [map fst length seq] in Hp. inversion Hp as [[Ho Hrest]]. cbn [length] in Ha.
    cbn [incoming outgoing emitted]. fold E. split; [|split; assumption].
    intros x. specialize (Hc x). rewrite cnt_stages in *.
    unfold dispatched in *. cbn [rw_run cmd_q respq outgoing arrived pending length] in *.
    destruct (kind_eqb k KRW).
    + rewrite cnt_app, cnt_cons, cnt_nil. bool_lia.
    + rewrite map_app, cnt_app. cbn [map fst]. rewrite cnt_cons, cnt_nil. bool_lia.
  - (* FinishRW *)
    destruct (existsb (Nat.eqb oid) (rw_run s)) eqn:Eex; [|discriminate]. inversion Hs; subst s'.
    apply existsb_cnt in Eex.
    cbn [incoming outgoing emitted]. fold E. split; [|split; assumption].
    intros x. specialize (Hc x). rewrite cnt_stages in *.
    unfold dispatched in *. cbn [rw_run cmd_q respq outgoing arrived pending] in *.
    rewrite cnt_remove_nat, cnt_app, cnt_cons, cnt_nil.
    pose proof (ind_le1 ((E <? x) && (x <=? arrived s - length (pending s)))) as Hle.
    destruct (Nat.eqb_spec oid x) as [->|Hn]; cbn [ind]; lia.
  - (* FinishCmd *)
    destruct (cmd_q s) as [|[oid k] rest] eqn:Ec; [discriminate|]. inversion Hs; subst s'.
    cbn [incoming outgoing emitted]. fold E. split; [|split; assumption].
    intros x. specialize (Hc x). rewrite cnt_stages in *.
    unfold dispatched in *. cbn [rw_run cmd_q respq outgoing arrived pending map fst] in *.
    rewrite Ec in Hc. cbn [map fst] in Hc. rewrite cnt_cons in Hc. rewrite cnt_app, cnt_cons, cnt_nil. lia.
  - (* CtlReq *)
    destruct (reqq s) as [|oid rest] eqn:Eq; [discriminate|].
    destruct m as [|m]; [discriminate|]. cbn [seq] in Hr. inversion Hr as [[Ho Hrest]].
    rewrite Hi in Hs. replace oid with (S E + n) in Hs by lia. rewrite insert_sorted_seq_end in Hs.
    rewrite He in Hs.
    destruct (maybe_send _ _ _ _) as [[inc' out'] em'] eqn:Ems. inversion Hs; subst s'.
    assert (Hgt : Forall (fun y => E < y) (outgoing s)).
    { apply Forall_forall. intros y Hy. apply cnt_in in Hy. apply Hrange. rewrite cnt_stages. lia. }
    apply maybe_send_post in Ems; [|right; rewrite seq_length; lia | exact Hso | exact Hgt].
    destruct Ems as [k [Hk [Hem [Hinc [Hout [Hh' [Hs' Hgt']]]]]]].
    cbn [incoming outgoing emitted]. split; [|split; assumption].
    intros x. specialize (Hc x). rewrite cnt_stages in *.
    unfold dispatched in *. cbn [rw_run cmd_q respq outgoing arrived pending] in *.
    rewrite Hem, seq_length. rewrite Hout, cnt_app, cnt_seq in Hc. bool_lia.
  - (* CtlResp *)
    destruct (respq s) as [|oid rest] eqn:Eq; [discriminate|].
    rewrite Hi, He in Hs.
    destruct (maybe_send _ _ _ _) as [[inc' out'] em'] eqn:Ems. inversion Hs; subst s'.
    assert (Hoid : cnt (outgoing s) oid = 0).
    { pose proof (Hc oid) as Ho. rewrite cnt_stages, Eq, cnt_cons, Nat.eqb_refl in Ho. cbn [ind] in Ho.
      pose proof (ind_le1 ((E <? oid) && (oid <=? dispatched s))). lia. }
    assert (Hgt : Forall (fun y => E < y) (insert_sorted oid (outgoing s))).
    { apply Forall_forall. intros y Hy. apply insert_sorted_in in Hy. apply Hrange. rewrite cnt_stages.
      destruct Hy as [->|Hy]; [rewrite Eq, cnt_cons, Nat.eqb_refl; cbn [ind]; lia | apply cnt_in in Hy; lia]. }
    apply maybe_send_post in Ems;
      [|left; lia | apply insert_sorted_ssorted; [exact Hso | rewrite cnt_in; lia] | exact Hgt].
    destruct Ems as [k [Hk [Hem [Hinc [Hout [Hh' [Hs' Hgt']]]]]]].
    cbn [incoming outgoing emitted]. split; [|split; assumption].
    intros x. specialize (Hc x). rewrite cnt_stages in *.
    unfold dispatched in *. cbn [rw_run cmd_q respq outgoing arrived pending] in *.
    rewrite Hem, seq_length.
    assert (Hx : ind (oid =? x) + cnt (outgoing s) x = cnt (seq (S E) k) x + cnt out' x)
      by (rewrite <- cnt_insert_sorted, Hout, cnt_app; reflexivity).
    rewrite cnt_seq in Hx. rewrite Eq, cnt_cons in Hc. bool_lia.
Qed.

Lemma inv3_init : inv3 init.
Proof.
  split; [exact inv1_init|]. split; [|split; exact I]. intros x. cbn. destruct x; reflexivity.
Qed.

(* C02: exactly one response for every request: when nothing is in flight any more, the responses written are exactly
   those of the requests that arrived, in arrival order, each once. *)
Theorem quiescent_complete : forall tr s, run init tr = Some s -> quiescent s = true ->
  emitted s = seq 1 (arrived s).
Proof.
  intros tr s H Hq. pose proof (inv_run inv3 inv3_step tr init s inv3_init H) as [H1 [Hc [Hso Hh]]].
  destruct H1 as [n [m [He [Hi [Hr [Hp Ha]]]]]]. cbn zeta in *.
  unfold quiescent in Hq.
  destruct (pending s) eqn:E1; [|discriminate]. destruct (reqq s) eqn:E2; [|discriminate].
  destruct (rw_run s) eqn:E3; [|discriminate]. destruct (cmd_q s) eqn:E4; [|discriminate].
  destruct (respq s) eqn:E5; [|discriminate]. clear Hq.
  destruct m; [|discriminate]. cbn [length] in Ha.
  destruct n as [|n]; [rewrite He at 1; f_equal; lia|].
  exfalso. set (E := length (emitted s)) in *.
  pose proof (Hc (S E)) as H1. rewrite cnt_stages, E3, E4, E5 in H1. cbn [map] in H1. rewrite !cnt_nil in H1.
  unfold dispatched in H1. rewrite E1 in H1. cbn [length] in H1.
  replace ((E <? S E) && (S E <=? arrived s - 0)) with true in H1
    by (symmetry; apply andb_true_iff; split; [apply Nat.ltb_lt | apply Nat.leb_le]; lia).
  cbn [ind] in H1. rewrite Hi in Hh. cbn [seq] in Hh.
  destruct (outgoing s) as [|o out] eqn:Eo; [rewrite cnt_nil in H1; lia|].
  cbn [heads_differ] in Hh. destruct Hso as [Hlt _].
  assert (Ho : E < o).
  { pose proof (Hc o) as H2. rewrite cnt_stages, E3, E4, E5, Eo in H2. cbn [map] in H2.
    rewrite !cnt_nil, cnt_cons, Nat.eqb_refl in H2. cbn [ind] in H2. bool_lia. }
  rewrite cnt_cons in H1. destruct (Nat.eqb_spec o (S E)) as [->|Hne]; [apply Hh; reflexivity|].
  cbn [ind] in H1. assert (Hin : In (S E) out) by (apply cnt_in; lia).
  rewrite Forall_forall in Hlt. specialize (Hlt _ Hin). lia.
Qed.

(* and conversely nothing is emitted that did not arrive, while the system runs: emitted_prefix (PktMgrP). *)

(* ---------- no wedge: a reachable state that is not quiescent can always take an internal step, and every internal
   step strictly decreases a measure; so every maximal run of the server goroutines after the last arrival ends in a
   quiescent state (where quiescent_complete applies) ---------- *)
Definition internal (l : label) : bool := match l with Arrive _ => false | _ => true end.

Definition measure (s : st) : nat :=
  4 * length (pending s) + 2 * (length (rw_run s) + length (cmd_q s)) + length (respq s) + length (reqq s).

Lemma filter_len_le : forall (f : nat -> bool) l, length (filter f l) <= length l.
Proof. intros f l. induction l as [|y t IH]; cbn [filter length]; [lia|]. destruct (f y); cbn [length]; lia. Qed.

Lemma remove_nat_shorter : forall x l, In x l -> length (remove_nat x l) < length l.
Proof.
  intros x l. unfold remove_nat. induction l as [|y t IH]; intros Hin; [destruct Hin|].
  cbn [filter]. destruct (Nat.eqb_spec y x) as [->|Hn]; cbn [negb length].
  - pose proof (filter_len_le (fun y => negb (y =? x)) t). lia.
  - destruct Hin as [->|Hin]; [congruence|]. specialize (IH Hin). lia.
Qed.

Theorem internal_step_decreases : forall s l s', step s l = Some s' -> internal l = true -> measure s' < measure s.
Proof.
  intros s l s' Hs Hi. destruct l; [discriminate| | | | |]; cbn [step] in Hs.
  - destruct (pending s) as [|[oid k] rest] eqn:Ep; [discriminate|].
    destruct (kind_eqb k KClose && negb (working s =? 0)); [discriminate|]. inversion Hs; subst s'.
    unfold measure. cbn [pending rw_run cmd_q respq reqq]. rewrite Ep. cbn [length].
    destruct (kind_eqb k KRW); rewrite !app_length; cbn [length]; lia.
  - destruct (existsb (Nat.eqb oid) (rw_run s)) eqn:Eex; [|discriminate]. inversion Hs; subst s'.
    apply existsb_exists in Eex. destruct Eex as [z [Hz Hyz]]. apply Nat.eqb_eq in Hyz. subst z.
    apply remove_nat_shorter in Hz.
    unfold measure. cbn [pending rw_run cmd_q respq reqq]. rewrite app_length. cbn [length]. lia.
  - destruct (cmd_q s) as [|[oid k] rest] eqn:Ec; [discriminate|]. inversion Hs; subst s'.
    unfold measure. cbn [pending rw_run cmd_q respq reqq]. rewrite Ec, app_length. cbn [length]. lia.
  - destruct (reqq s) as [|oid rest] eqn:Eq; [discriminate|].
    destruct (maybe_send _ _ _ _) as [[inc' out'] em']. inversion Hs; subst s'.
    unfold measure. cbn [pending rw_run cmd_q respq reqq]. rewrite Eq. cbn [length]. lia.
  - destruct (respq s) as [|oid rest] eqn:Eq; [discriminate|].
    destruct (maybe_send _ _ _ _) as [[inc' out'] em']. inversion Hs; subst s'.
    unfold measure. cbn [pending rw_run cmd_q respq reqq]. rewrite Eq. cbn [length]. lia.
Qed.

Theorem progress : forall tr s, run init tr = Some s -> quiescent s = false ->
  exists l s', internal l = true /\ step s l = Some s'.
Proof.
  intros tr s H Hq. pose proof (close_barrier tr s H) as [Hw _].
  destruct (reqq s) as [|r rq] eqn:E2.
  2:{ exists CtlReq. cbn [step]. rewrite E2. destruct (maybe_send _ _ _ _) as [[a b] c]. eexists. split; reflexivity. }
  destruct (respq s) as [|r rq] eqn:E5.
  2:{ exists CtlResp. cbn [step]. rewrite E5. destruct (maybe_send _ _ _ _) as [[a b] c]. eexists. split; reflexivity. }
  destruct (cmd_q s) as [|[c k] cq] eqn:E4.
  2:{ exists FinishCmd. cbn [step]. rewrite E4. eexists. split; reflexivity. }
  destruct (rw_run s) as [|r rq] eqn:E3.
  2:{ exists (FinishRW r). cbn [step]. rewrite E3. cbn [existsb]. rewrite Nat.eqb_refl. cbn [orb]. eexists. split; reflexivity. }
  cbn [length] in Hw.
  destruct (pending s) as [|[oid k] rest] eqn:E1.
  - unfold quiescent in Hq. rewrite E1, E2, E3, E4, E5 in Hq. discriminate.
  - exists Dispatch. cbn [step]. rewrite E1, Hw. cbn [Nat.eqb negb]. rewrite andb_false_r. eexists. split; reflexivity.
Qed.

Lemma run_app : forall tr1 tr2 s s1, run s tr1 = Some s1 -> run s (tr1 ++ tr2) = run s1 tr2.
Proof.
  induction tr1 as [|l tr1 IH]; intros tr2 s s1 H; cbn [run app] in *; [inversion H; reflexivity|].
  destruct (step s l) as [s2|]; [|discriminate]. apply IH. exact H.
Qed.

Lemma internal_keeps_arrived : forall s l s', step s l = Some s' -> internal l = true -> arrived s' = arrived s.
Proof.
  intros s l s' Hs Hi. destruct l; [discriminate| | | | |]; cbn [step] in Hs.
  - destruct (pending s) as [|[oid k] rest]; [discriminate|].
    destruct (kind_eqb k KClose && negb (working s =? 0)); [discriminate|]. inversion Hs; reflexivity.
  - destruct (existsb (Nat.eqb oid) (rw_run s)); [|discriminate]. inversion Hs; reflexivity.
  - destruct (cmd_q s) as [|[oid k] rest]; [discriminate|]. inversion Hs; reflexivity.
  - destruct (reqq s) as [|oid rest]; [discriminate|].
    destruct (maybe_send _ _ _ _) as [[inc' out'] em']. inversion Hs; reflexivity.
  - destruct (respq s) as [|oid rest]; [discriminate|].
    destruct (maybe_send _ _ _ _) as [[inc' out'] em']. inversion Hs; reflexivity.
Qed.

(* whatever has happened so far (any pipeline, any interleaving): the goroutines can always finish the work, by internal
   steps only, and when they have, exactly the requests that arrived have been answered, in order, each once *)
Theorem drains : forall tr s, run init tr = Some s ->
  exists tr' s', forallb internal tr' = true /\ run s tr' = Some s' /\ quiescent s' = true /\
                 arrived s' = arrived s /\ emitted s' = seq 1 (arrived s).
Proof.
  intros tr s. remember (measure s) as k eqn:Hk. revert tr s Hk.
  induction k as [k IH] using lt_wf_ind. intros tr s Hk H.
  destruct (quiescent s) eqn:Hq.
  - exists [], s. cbn [forallb run]. repeat split; try reflexivity; [exact Hq|]. eapply quiescent_complete; eassumption.
  - destruct (progress tr s H Hq) as [l [s1 [Hi Hs]]].
    pose proof (internal_step_decreases s l s1 Hs Hi) as Hlt.
    assert (H1 : run init (tr ++ [l]) = Some s1).
    { rewrite (run_app tr [l] init s H). cbn [run]. rewrite Hs. reflexivity. }
    destruct (IH (measure s1) ltac:(lia) (tr ++ [l]) s1 eq_refl H1) as [tr' [s' [Hf [Hr [Hq' [Ha He]]]]]].
    pose proof (internal_keeps_arrived s l s1 Hs Hi) as Ha1.
    exists (l :: tr'), s'. cbn [forallb run]. rewrite Hi, Hs. cbn [andb].
    repeat split; try assumption; congruence.
Qed.

(* and it cannot go on forever: an internal-only continuation is never longer than the measure *)
Theorem internal_runs_bounded : forall tr' s s', forallb internal tr' = true -> run s tr' = Some s' ->
  length tr' + measure s' <= measure s.
Proof.
  induction tr' as [|l tr' IH]; intros s s' Hf Hr; cbn [run forallb length] in *; [inversion Hr; lia|].
  apply andb_true_iff in Hf. destruct Hf as [Hi Hf].
  destruct (step s l) as [s1|] eqn:Hs; [|discriminate].
  pose proof (internal_step_decreases s l s1 Hs Hi). specialize (IH s1 s' Hf Hr). lia.
Qed.

(* the same for the ids on the wire, whatever (possibly repeating) ids the requests carry *)
Theorem quiescent_ids_any_assignment : forall (A : Type) (rid : nat -> A) tr s, run init tr = Some s -> quiescent s = true ->
  map rid (emitted s) = map rid (seq 1 (arrived s)).
Proof.
  intros A rid tr s H Hq. f_equal. exact (quiescent_complete tr s H Hq).
Qed.
