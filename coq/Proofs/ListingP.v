From Coq Require Import List Bool Arith Lia Strings.Byte.
From Sftp Require Import Base.GoSem Wire.ClientParse Srv.Listing.
Import ListNotations.

Lemma firstn_add' {A} : forall a c (x : list A), firstn (a + c) x = firstn a x ++ firstn c (skipn a x).
Proof. induction a as [|a IH]; intros c x; [reflexivity|]. destruct x; cbn [Nat.add firstn skipn app]; [rewrite firstn_nil; reflexivity | rewrite IH; reflexivity]. Qed.

(* the client obtains every entry exactly once, in order, without "." and "..", and the loop ends, for every directory
   size, batch size and legal lister behaviour; it needs at most |dir| + 1 - off requests *)
Theorem listing_exact : forall fuel dir beh B off acc reqs,
  1 <= B -> legal (length dir) B beh -> off <= length dir -> length dir + 2 <= fuel + off ->
  exists r, client_list fuel dir beh B off acc reqs = (acc ++ filter not_dot (skipn off dir), r, true) /\
            r <= reqs + (length dir - off) + 1.
Proof.
  induction fuel as [|f IH]; intros dir beh B off acc reqs HB Hl Hoff Hf; [lia|].
  cbn [client_list]. unfold filelist_step.
  destruct (Hl off) as [Hlt Hge].
  destruct (Nat.lt_ge_cases off (length dir)) as [Hin|Hout].
  - destruct (Hlt Hin) as [Hn He]. destruct (beh off B) as [n eof] eqn:Eb. cbn [fst snd] in *.
    replace (eof && (n =? 0)) with false by (symmetry; apply andb_false_iff; right; apply Nat.eqb_neq; lia).
    destruct (IH dir beh B (off + n) (acc ++ filter not_dot (firstn n (skipn off dir))) (S reqs) HB Hl ltac:(lia) ltac:(lia))
      as [r [Hr Hb]].
    exists r. split; [|lia]. rewrite Hr. f_equal. f_equal. rewrite <- app_assoc. f_equal.
    rewrite <- filter_app. f_equal.
    rewrite <- (firstn_skipn n (skipn off dir)) at 2. f_equal.
    clear. revert dir. induction off as [|o IHo]; intros dir; [reflexivity|]. destruct dir; cbn [Nat.add skipn]; [destruct n; reflexivity | apply IHo].
  - rewrite (Hge Hout). cbn [andb Nat.eqb]. exists (S reqs). split; [|lia].
    rewrite skipn_all2 by lia. cbn [filter]. rewrite app_nil_r. reflexivity.
Qed.

Corollary listing_from_start : forall dir beh B, 1 <= B -> legal (length dir) B beh ->
  exists r, client_list (length dir + 2) dir beh B 0 [] 0 = (filter not_dot dir, r, true) /\ r <= length dir + 1.
Proof.
  intros dir beh B HB Hl.
  destruct (listing_exact (length dir + 2) dir beh B 0 [] 0 HB Hl ltac:(lia) ltac:(lia)) as [r [Hr Hb]].
  exists r. cbn [app skipn] in Hr. split; [exact Hr | lia].
Qed.

(* every scripted lister of the harness is legal *)
Theorem scripted_legal : forall L B style k, 1 <= B -> legal L B (scripted L style k).
Proof.
  intros L B style k HB off. unfold scripted. split.
  - intros Hlt. replace (L <=? off) with false by (symmetry; apply Nat.leb_gt; exact Hlt). cbn [fst snd].
    set (want := if k =? 0 then B else 1 + (off * 7 + k) mod B).
    assert (Hw : 1 <= want) by (unfold want; destruct (k =? 0); lia).
    split; [lia|]. intros H. apply andb_true_iff in H. destruct H as [_ H]. apply Nat.eqb_eq in H. exact H.
  - intros Hge. replace (L <=? off) with true by (symmetry; apply Nat.leb_le; exact Hge). reflexivity.
Qed.

(* a lister that reports neither progress nor EOF is outside the contract: the loop then never ends *)
Theorem illegal_lister_spins : forall fuel dir reqs acc,
  snd (client_list fuel dir (fun _ _ => (0, false)) 3 0 acc reqs) = false.
Proof. induction fuel as [|f IH]; intros; [reflexivity|]. cbn [client_list filelist_step andb]. cbn [firstn filter app]. rewrite app_nil_r. apply IH. Qed.

Theorem paged_legal : forall L B P style, 1 <= B -> 1 <= P -> legal L B (paged L P style).
Proof.
  intros L B P style HB HP off. unfold paged. split.
  - intros Hlt. replace (L <=? off) with false by (symmetry; apply Nat.leb_gt; exact Hlt). cbn [fst snd].
    split; [lia|]. intros H. apply andb_true_iff in H. destruct H as [_ H]. apply Nat.eqb_eq in H. exact H.
  - intros Hge. replace (L <=? off) with true by (symmetry; apply Nat.leb_le; exact Hge). reflexivity.
Qed.

(* so a paginated lister is listed exactly, whatever its page size *)
Corollary paged_listing_exact : forall dir B P style, 1 <= B -> 1 <= P ->
  exists r, client_list (length dir + 2) dir (paged (length dir) P style) B 0 [] 0 = (filter not_dot dir, r, true) /\ r <= length dir + 1.
Proof. intros dir B P style HB HP. apply listing_from_start; [exact HB | apply paged_legal; assumption]. Qed.
