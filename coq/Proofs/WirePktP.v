(* Per-packet theorems: codec A round trip, codec B = codec A bytes, codec B decodes codec A bytes, frames. *)
From Coq Require Import List NArith Bool Lia ZArith ZifyN ZifyNat ZifyBool Strings.Byte.
From Sftp Require Import Base.GoSem Wire.Prim Wire.Packets Mode.FileMode Proofs.PrimP Proofs.WireRtP.
Import ListNotations.
Open Scope N_scope.

Lemma parse_render_nil g fs :
  forallb wf_fld fs = true -> greedy_last fs = true -> parse (map (kind_of g) fs) (render fs) = Ok (fs, []).
Proof.
  intros Hwf Hg. rewrite <- (app_nil_r (render fs)). apply parse_render; auto.
Qed.

Lemma parse_render_rest g fs rest :
  forallb wf_fld fs = true -> greedy_last fs = true -> ends_greedy fs = false ->
  parse (map (kind_of g) fs) (render fs ++ rest) = Ok (fs, rest).
Proof.
  intros Hwf Hg He. apply parse_render; auto. intros H. rewrite H in He. discriminate.
Qed.

(* an "other" extended request must not carry one of the names the server decodes specially *)
Definition ext_name_free (p : packet) : bool :=
  match p with
  | PExtOther _ name _ => negb (bytes_eqb name n_statvfs) && negb (bytes_eqb name n_posix_rename) && negb (bytes_eqb name n_hardlink)
  | _ => true
  end.

Lemma bytes_eqb_refl : forall a, bytes_eqb a a = true.
Proof.
  intros a. unfold bytes_eqb. rewrite PeanoNat.Nat.eqb_refl. cbn [andb].
  induction a as [|x a IH]; [reflexivity|]. cbn [combine forallb]. rewrite IH, andb_true_r.
  destruct (Byte.eqb x x) eqn:E; [reflexivity|]. pose proof (@Byte.byte_dec_lb x x eq_refl) as H. rewrite H in E. discriminate.
Qed.

Lemma skipn_str_hdr id name pl :
  is_str name = true ->
  skipn (8 + length name) (u32_enc id ++ str_enc name ++ pl) = pl.
Proof.
  intros _. unfold str_enc, u32_enc. cbn [app Nat.add skipn].
  rewrite skipn_app, skipn_all, PeanoNat.Nat.sub_diag. reflexivity.
Qed.

Ltac split_wf H :=
  unfold wf_packet in H; cbn [fieldsA forallb wf_fld] in H;
  repeat match goal with
  | H : _ && _ = true |- _ => apply andb_true_iff in H; destruct H
  end.

Ltac solve_wf := cbn [forallb wf_fld]; repeat (apply andb_true_iff; split); try assumption; try reflexivity.

Ltac rt fs :=
  match goal with |- context [parse ?ks (render fs)] =>
    change (parse ks (render fs)) with (parse (map (kind_of true) fs) (render fs));
    rewrite (parse_render_nil true fs) by solve_wf; cbn [bind] end.
Ltac rtr fs :=
  match goal with |- context [parse ?ks (render fs ++ ?rest)] =>
    change (parse ks (render fs ++ rest)) with (parse (map (kind_of true) fs) (render fs ++ rest));
    rewrite (parse_render_rest true fs) by solve_wf; cbn [bind] end.

Theorem decA_encA : forall p,
  wf_packet p = true -> is_request p = true -> ext_name_free p = true ->
  decA (ptype p) (render (fieldsA p)) = Ok (rawify p).
Proof.
  intros p Hwf Hreq Hext.
  destruct p; try discriminate Hreq; split_wf Hwf; cbn [ptype fieldsA rawify];
  unfold decA, dec_ext_A;
  repeat match goal with
  | |- context [?a =? ?b] => 
      match a with t_init => idtac | t_version => idtac | t_open => idtac | t_close => idtac | t_read => idtac | t_write => idtac
      | t_lstat => idtac | t_fstat => idtac | t_setstat => idtac | t_fsetstat => idtac | t_opendir => idtac | t_readdir => idtac
      | t_remove => idtac | t_mkdir => idtac | t_rmdir => idtac | t_realpath => idtac | t_stat => idtac | t_rename => idtac
      | t_readlink => idtac | t_symlink => idtac | t_extended => idtac end;
      let v := eval vm_compute in (a =? b) in change (a =? b) with v
  end; cbn [orb andb id_str].
  (* PInit *)
  - rt ([FU32 ver; FPairs exts]). reflexivity.
  (* POpen *)
  - rt ([FU32 id; FStr path; FU32 pflags; FU32 flags; FRaw (abody_encA flags ab)]). reflexivity.
  - rt ([FU32 id; FStr h]). reflexivity.
  - rt ([FU32 id; FStr h; FU64 off; FU32 len]). reflexivity.
  - rt ([FU32 id; FStr h; FU64 off; FStr data]). reflexivity.
  - rt ([FU32 id; FStr p]). reflexivity.
  - rt ([FU32 id; FStr h]). reflexivity.
  - rt ([FU32 id; FStr p; FU32 flags; FRaw (abody_encA flags ab)]). reflexivity.
  - rt ([FU32 id; FStr h; FU32 flags; FRaw (abody_encA flags ab)]). reflexivity.
  - rt ([FU32 id; FStr p]). reflexivity.
  - rt ([FU32 id; FStr h]). reflexivity.
  - rt ([FU32 id; FStr p]). reflexivity.
  - rt ([FU32 id; FStr p; FU32 flags]). reflexivity.
  - rt ([FU32 id; FStr p]). reflexivity.
  - rt ([FU32 id; FStr p]). reflexivity.
  - rt ([FU32 id; FStr p]). reflexivity.
  - rt ([FU32 id; FStr o; FStr n]). reflexivity.
  - rt ([FU32 id; FStr p]). reflexivity.
  - rt ([FU32 id; FStr target; FStr link]). reflexivity.
  (* statvfs *)
  - change (render [FU32 id; FStr n_statvfs; FStr p]) with (render [FU32 id; FStr n_statvfs] ++ render [FStr p]).
    rtr ([FU32 id; FStr n_statvfs]).
    rewrite bytes_eqb_refl.
    change (render [FU32 id; FStr n_statvfs] ++ render [FStr p]) with (render [FU32 id; FStr n_statvfs; FStr p]).
    rt ([FU32 id; FStr n_statvfs; FStr p]). reflexivity.
  - change (render [FU32 id; FStr n_posix_rename; FStr o; FStr n]) with (render [FU32 id; FStr n_posix_rename] ++ render [FStr o; FStr n]).
    rtr ([FU32 id; FStr n_posix_rename]).
    replace (bytes_eqb n_posix_rename n_statvfs) with false by (vm_compute; reflexivity). rewrite bytes_eqb_refl.
    change (render [FU32 id; FStr n_posix_rename] ++ render [FStr o; FStr n]) with (render [FU32 id; FStr n_posix_rename; FStr o; FStr n]).
    rt ([FU32 id; FStr n_posix_rename; FStr o; FStr n]). reflexivity.
  - change (render [FU32 id; FStr n_hardlink; FStr o; FStr n]) with (render [FU32 id; FStr n_hardlink] ++ render [FStr o; FStr n]).
    rtr ([FU32 id; FStr n_hardlink]).
    replace (bytes_eqb n_hardlink n_statvfs) with false by (vm_compute; reflexivity).
    replace (bytes_eqb n_hardlink n_posix_rename) with false by (vm_compute; reflexivity). rewrite bytes_eqb_refl.
    change (render [FU32 id; FStr n_hardlink] ++ render [FStr o; FStr n]) with (render [FU32 id; FStr n_hardlink; FStr o; FStr n]).
    rt ([FU32 id; FStr n_hardlink; FStr o; FStr n]). reflexivity.
  - (* fsync: not a name the server decodes: unknown-extension packet *)
    change (render [FU32 id; FStr n_fsync; FStr h]) with (render [FU32 id; FStr n_fsync] ++ render [FStr h]).
    rtr ([FU32 id; FStr n_fsync]).
    replace (bytes_eqb n_fsync n_statvfs) with false by (vm_compute; reflexivity).
    replace (bytes_eqb n_fsync n_posix_rename) with false by (vm_compute; reflexivity).
    replace (bytes_eqb n_fsync n_hardlink) with false by (vm_compute; reflexivity).
    f_equal. f_equal. cbn [render flat_map render_fld]. rewrite !app_nil_r, <- !app_assoc.
    apply skipn_str_hdr. reflexivity.
  - (* other extension *)
    replace (render [FU32 id; FStr name; FRaw payload]) with (render [FU32 id; FStr name] ++ payload)
      by (cbn [render flat_map render_fld]; rewrite ?app_nil_r, <- ?app_assoc; reflexivity).
    rtr ([FU32 id; FStr name]).
    cbn [ext_name_free] in Hext. apply andb_true_iff in Hext. destruct Hext as [Hext H3]. apply andb_true_iff in Hext. destruct Hext as [H1' H2'].
    apply negb_true_iff in H1'. apply negb_true_iff in H2'. apply negb_true_iff in H3. rewrite H1', H2', H3.
    f_equal. f_equal. cbn [render flat_map render_fld]. rewrite ?app_nil_r, <- ?app_assoc.
    apply skipn_str_hdr. assumption.
Qed.

(* ---------- the two codecs produce identical bytes on their common domain ---------- *)
(* codec A's MKDIR carries no attribute body: the codecs agree exactly when codec B's attribute block is empty *)
Definition mkdir_plain (p : packet) : bool :=
  match p with
  | PMkdir _ _ fl (AStat a) => match filestat_enc fl a with [] => true | _ => false end
  | _ => true
  end.

Lemma render_attrs_split pre a :
  render (pre ++ [FAttrs a]) = render (pre ++ [FU32 (a_flags a); FRaw (filestat_enc (a_flags a) a)]).
Proof.
  unfold render. rewrite !flat_map_app. f_equal.
Qed.

Theorem encB_eq_encA : forall p b, encB p = Some b -> mkdir_plain p = true -> b = encA p.
Proof.
  intros p b H Hm. unfold encB in H. destruct (fieldsB p) as [fs|] eqn:E; [|discriminate].
  inversion H; subst b; clear H. unfold encA, bodyA. f_equal. f_equal.
  destruct p; cbn [fieldsB fieldsA] in *; try (inversion E; subst fs; reflexivity);
  destruct ab as [r|a]; cbn [abody_attrs] in E; try discriminate;
  destruct (a_flags a =? flags) eqn:Ef; try discriminate; apply N.eqb_eq in Ef; subst flags;
  inversion E; subst fs; cbn [abody_encA].
  - unfold u8_enc; cbn [app]; f_equal; try exact (render_attrs_split [FU32 id; FStr path; FU32 pflags] a).
  - unfold u8_enc; cbn [app]; f_equal; try exact (render_attrs_split [FU32 id; FStr p] a).
  - unfold u8_enc; cbn [app]; f_equal; try exact (render_attrs_split [FU32 id; FStr h] a).
  - cbn [mkdir_plain] in Hm. destruct (filestat_enc (a_flags a) a) eqn:Efs; [|discriminate].
    unfold u8_enc; cbn [app]; f_equal;
    change [FU32 id; FStr p; FAttrs a] with ([FU32 id; FStr p] ++ [FAttrs a]).
    rewrite (render_attrs_split [FU32 id; FStr p] a). rewrite Efs.
    cbn [app render flat_map render_fld]. rewrite !app_nil_r. reflexivity.
Qed.

(* ---------- framing ---------- *)
Lemma len32_app a b : len32 (a ++ b) = len32 a + len32 b.
Proof. unfold len32. rewrite app_length. lia. Qed.

Theorem frame_prefix_is_length : forall body,
  len32 body < p32 ->
  u32_dec_safe (frame body) = Ok (len32 body, body) /\ length (frame body) = (4 + length body)%nat.
Proof.
  intros body H. unfold frame. rewrite u32_dec_safe_enc, (N.mod_small _ _ H), app_length, u32_enc_length. split; reflexivity.
Qed.

Theorem recv_frame_nopanic : forall input, f_res (recv_frame input) <> Panic.
Proof.
  intros input. unfold recv_frame. destruct input as [|x xs]; [discriminate|].
  destruct (u32_dec_safe_spec (x :: xs)) as [[v [r [E [_ [Hl Hv]]]]]|[E _]]; rewrite E; [|discriminate].
  destruct (max_msg_length <? v) eqn:E1; [discriminate|].
  destruct (v =? 0) eqn:E2; [discriminate|].
  destruct (len32 r <? v) eqn:E3; [discriminate|].
  apply N.eqb_neq in E2. apply N.ltb_ge in E3. unfold len32 in E3.
  destruct r as [|t r']; [cbn [length] in E3; lia|].
  destruct (N.to_nat v) eqn:Ev; [lia|]. cbn [firstn]. discriminate.
Qed.

Theorem frame_long_refused : forall input len rest,
  u32_dec_safe input = Ok (len, rest) -> max_msg_length < len ->
  recv_frame input = {| f_res := Err ELong; f_consumed := 4 |}.
Proof.
  intros input len rest E H. unfold recv_frame. destruct input; [discriminate|]. rewrite E.
  apply N.ltb_lt in H. rewrite H. reflexivity.
Qed.

Theorem frame_zero_refused : forall input rest,
  u32_dec_safe input = Ok (0, rest) ->
  recv_frame input = {| f_res := Err EShort; f_consumed := 4 |}.
Proof.
  intros input rest E. unfold recv_frame. destruct input; [discriminate|]. rewrite E. reflexivity.
Qed.

Theorem frame_short_is_error : forall input len rest,
  u32_dec_safe input = Ok (len, rest) -> len <= max_msg_length -> len <> 0 -> len32 rest < len ->
  recv_frame input = {| f_res := Err EUnexpectedEOF; f_consumed := length input |}.
Proof.
  intros input len rest E H1 H2 H3. unfold recv_frame. destruct input; [discriminate|]. rewrite E.
  replace (max_msg_length <? len) with false by (symmetry; apply N.ltb_ge; exact H1).
  replace (len =? 0) with false by (symmetry; apply N.eqb_neq; exact H2).
  apply N.ltb_lt in H3. rewrite H3. reflexivity.
Qed.

(* a frame is delivered only whole: type byte and payload are exactly the declared number of bytes *)
Theorem frame_ok_exact : forall input t payload,
  f_res (recv_frame input) = Ok (t, payload) ->
  exists len rest tb, u32_dec_safe input = Ok (len, rest) /\ 0 < len <= max_msg_length /\
    firstn (N.to_nat len) rest = tb :: payload /\ t = Byte.to_N tb /\
    N.of_nat (length payload) + 1 = len /\ f_consumed (recv_frame input) = (4 + N.to_nat len)%nat.
Proof.
  intros input t payload H. unfold recv_frame in *. destruct input as [|x xs]; [discriminate|].
  destruct (u32_dec_safe (x :: xs)) as [[v r]| |] eqn:E; try discriminate.
  destruct (max_msg_length <? v) eqn:E1; [discriminate|].
  destruct (v =? 0) eqn:E2; [discriminate|].
  destruct (len32 r <? v) eqn:E3; [discriminate|].
  destruct (firstn (N.to_nat v) r) as [|tb pl] eqn:E4; [discriminate|].
  cbn [f_res f_consumed] in *. inversion H; subst. exists v, r, tb.
  apply N.ltb_ge in E1. apply N.eqb_neq in E2. apply N.ltb_ge in E3. unfold len32 in E3.
  repeat split; try assumption; try lia.
  assert (Hl : length (firstn (N.to_nat v) r) = N.to_nat v) by (apply firstn_length_le; lia).
  rewrite E4 in Hl. cbn [length] in Hl. lia.
Qed.

(* sending then receiving: the reader gets back type and payload, and consumes exactly the frame *)
Theorem recv_frame_encA : forall p rest,
  len32 (bodyA p) <= max_msg_length ->
  recv_frame (encA p ++ rest) =
    {| f_res := Ok (ptype p mod 256, render (fieldsA p)); f_consumed := length (encA p) |}.
Proof.
  intros p rest H. unfold encA, frame. rewrite <- app_assoc.
  unfold recv_frame. 
  destruct (u32_enc (len32 (bodyA p)) ++ bodyA p ++ rest) eqn:Ed; [unfold u32_enc in Ed; discriminate|].
  rewrite <- Ed. clear Ed.
  rewrite u32_dec_safe_enc. unfold max_msg_length in *.
  rewrite N.mod_small by (unfold p32; lia).
  replace (262144 <? len32 (bodyA p)) with false by (symmetry; apply N.ltb_ge; exact H).
  assert (Hb : bodyA p = byte_of_N (ptype p) :: render (fieldsA p)) by reflexivity.
  replace (len32 (bodyA p) =? 0) with false by (symmetry; apply N.eqb_neq; rewrite Hb; unfold len32; cbn [length]; lia).
  replace (len32 (bodyA p ++ rest) <? len32 (bodyA p)) with false
    by (symmetry; apply N.ltb_ge; rewrite len32_app; lia).
  unfold len32 at 1. rewrite Nat2N.id, firstn_app, PeanoNat.Nat.sub_diag, firstn_all. cbn [firstn]. rewrite app_nil_r.
  rewrite Hb. rewrite to_N_byte_of_N. f_equal.
  rewrite app_length, u32_enc_length. unfold len32. rewrite Nat2N.id. rewrite <- Hb. reflexivity.
Qed.

(* ---------- allocation by declared count is bounded by the input ---------- *)
Lemma u32_ok_len b v r : u32_dec_safe b = Ok (v, r) -> length b = (4 + length r)%nat.
Proof. destruct (u32_dec_safe_spec b) as [[v' [r' [E [_ [Hl _]]]]]|[E _]]; rewrite E; intros H; inversion H; subst; exact Hl. Qed.

Ltac alloc_step :=
  match goal with
  | |- context [bind (if ?c then _ else _) _] => destruct c; cbn [bind]
  | |- context [bind (u64_dec_safe ?x) _] =>
      let E := fresh "E" in destruct (u64_dec_safe x) as [[? ?]| |] eqn:E; cbn [bind]; [apply u64_dec_safe_len in E; destruct E as [E _] | |]
  | |- context [bind (u32_dec_safe ?x) _] =>
      let E := fresh "E" in destruct (u32_dec_safe x) as [[? ?]| |] eqn:E; cbn [bind]; [apply u32_ok_len in E | |]
  | |- context [if ?c then _ else _] => let E := fresh "E" in destruct c eqn:E
  end.

Theorem filestat_alloc_linear : forall flags b,
  8 * filestat_alloc_cells true flags b <= N.of_nat (length b).
Proof.
  intros flags b. unfold filestat_alloc_cells. cbn [andb].
  repeat alloc_step; try lia.
Qed.

Theorem attrs_alloc_linear : forall b, 8 * attrs_alloc_cells true b <= N.of_nat (length b).
Proof.
  intros b. unfold attrs_alloc_cells. destruct (u32_dec_safe b) as [[flags r]| |] eqn:E; try lia.
  apply u32_ok_len in E. pose proof (filestat_alloc_linear flags r). lia.
Qed.

Theorem name_alloc_linear : guardB = true -> forall b, 12 * decB_name_alloc_cells b <= N.of_nat (length b).
Proof.
  intros Hg b. unfold decB_name_alloc_cells. rewrite Hg. cbn [andb].
  destruct (u32_dec_safe b) as [[count r]| |] eqn:E; try lia.
  apply u32_ok_len in E. destruct (N.of_nat (length r) / 12 <? count) eqn:E2; lia.
Qed.

(* why the guard matters (finding F3, repaired): without it 8 input bytes declare 2^32-1 cells *)
Theorem attrs_alloc_unguarded_refuted :
  exists b, length b = 8%nat /\ attrs_alloc_cells false b = 4294967295.
Proof.
  exists [x80; x00; x00; x00; xff; xff; xff; xff]%byte. split; vm_compute; reflexivity.
Qed.

(* ---------- the specification tables ---------- *)
From Sftp Require Import Wire.Spec.

Theorem encB_is_spec : forall p, spec_layout p = fieldsB p.
Proof.
  intros p. destruct p; cbn [spec_layout fieldsB]; try reflexivity;
  destruct ab as [r|a]; cbn [abody_attrs]; try reflexivity; destruct (a_flags a =? flags); reflexivity.
Qed.

Theorem encA_is_spec : forall p b, spec_bytes p = Some b -> mkdir_plain p = true -> encA p = b.
Proof.
  intros p b H Hm. unfold spec_bytes in H. rewrite encB_is_spec in H.
  symmetry. apply encB_eq_encA; [|exact Hm]. unfold encB. exact H.
Qed.
