(* C03, the contiguity clause: with every Write under the connection mutex, the wire is a sequence of whole packets for
   every number of senders and every interleaving; without the mutex for one-part packets it is not. *)
From Coq Require Import List Bool Arith Lia.
From Sftp Require Import Conn.WireMutex.
Import ListNotations.

Lemma scan_app : forall l1 l2 o, scan (l1 ++ l2) o = match scan l1 o with Some o' => scan l2 o' | None => None end.
Proof.
  induction l1 as [|[c p] l1 IH]; intros l2 o; cbn [app scan]; [reflexivity|].
  destruct p, o as [h|]; try reflexivity; try apply IH. destruct (h =? c); [apply IH | reflexivity].
Qed.

Lemma stage_of_set_same : forall c s l, In c (map fst l) -> stage_of c (set_stage c s l) = Some s.
Proof.
  intros c s. induction l as [|[c' s'] t IH]; intros Hin; [destruct Hin|].
  cbn [set_stage map fst stage_of]. destruct (c' =? c) eqn:E; cbn [fst stage_of]; rewrite E; [reflexivity|].
  apply IH. destruct Hin as [Heq|Hin]; [cbn [fst] in Heq; subst; rewrite Nat.eqb_refl in E; discriminate | exact Hin].
Qed.

Lemma stage_of_set_other : forall c c2 s l, c2 <> c -> stage_of c2 (set_stage c s l) = stage_of c2 l.
Proof.
  intros c c2 s. induction l as [|[c' s'] t IH]; intros Hne; [reflexivity|].
  cbn [set_stage map fst stage_of]. destruct (c' =? c) eqn:E; cbn [fst stage_of].
  - apply Nat.eqb_eq in E. subst c'. replace (c =? c2) with false by (symmetry; apply Nat.eqb_neq; congruence). apply IH. exact Hne.
  - destruct (c' =? c2); [reflexivity | apply IH; exact Hne].
Qed.

Lemma stage_of_in : forall c s l, stage_of c l = Some s -> In c (map fst l).
Proof.
  intros c s. induction l as [|[c' s'] t IH]; intros H; [discriminate|]. cbn [stage_of] in H. cbn [map fst].
  destruct (c' =? c) eqn:E; [left; apply Nat.eqb_eq; exact E | right; apply IH; exact H].
Qed.

Definition midway (s : stage) : bool := match s with SLocked | SHdrDone | SWritten => true | _ => false end.

Definition winv (w : wst) : Prop :=
  (* only the holder of the mutex is between its Lock and its Unlock *)
  (forall c s, stage_of c (stages w) = Some s -> midway s = true -> holder w = Some c) /\
  (forall c, holder w = Some c -> exists s, stage_of c (stages w) = Some s /\ midway s = true) /\
  (* the wire: whole packets, then the holder's header iff the holder has written only that *)
  scan (wire w) None =
    Some (match holder w with
          | Some h => match stage_of h (stages w) with Some SHdrDone => Some h | _ => None end
          | None => None
          end).

Lemma winv_init : forall n, winv (w0 n).
Proof.
  intros n. unfold winv, w0. cbn [holder wire stages scan]. split; [|split; [intros c H; discriminate | reflexivity]].
  intros c s Hs Hm. exfalso. revert Hs. induction (seq 0 n) as [|x t IH]; cbn [map stage_of]; [discriminate|].
  destruct (x =? c); [intros H; inversion H; subst; discriminate | exact IH].
Qed.

Lemma holds_eq : forall w c, holds w c = true -> holder w = Some c.
Proof. intros w c H. unfold holds in H. destruct (holder w) as [h|]; [|discriminate]. apply Nat.eqb_eq in H. subst. reflexivity. Qed.

Lemma winv_step : forall w l w', winv w -> wstep true w l = Some w' -> winv w'.
Proof.
  intros w l w' [Hmid [Hhold Hscan]] H. destruct l as [c|c|c|c|c]; cbn [wstep] in H.
  - (* Lock *)
    destruct (holder w) as [h|] eqn:Eh; [discriminate|]. destruct (stage_of c (stages w)) as [[| | | |]|] eqn:Es; try discriminate.
    inversion H; subst w'. clear H. pose proof (stage_of_in _ _ _ Es) as Hin. unfold winv. cbn [holder wire stages].
    split; [|split].
    + intros c2 s Hs Hm. destruct (Nat.eq_dec c2 c) as [->|Hne]; [reflexivity|].
      rewrite stage_of_set_other in Hs by exact Hne. specialize (Hmid c2 s Hs Hm). discriminate.
    + intros c2 Hc. inversion Hc; subst c2. exists SLocked. split; [apply stage_of_set_same; exact Hin | reflexivity].
    + rewrite Hscan. rewrite stage_of_set_same by exact Hin. reflexivity.
  - (* One, under the mutex *)
    destruct (stage_of c (stages w)) as [[| | | |]|] eqn:Es; try discriminate.
    destruct (holds w c) eqn:Eh; [|discriminate]. apply holds_eq in Eh. inversion H; subst w'. clear H.
    pose proof (stage_of_in _ _ _ Es) as Hin. unfold winv. cbn [holder wire stages]. rewrite Eh in *.
    split; [|split].
    + intros c2 s Hs Hm. destruct (Nat.eq_dec c2 c) as [->|Hne]; [reflexivity|].
      rewrite stage_of_set_other in Hs by exact Hne. exact (Hmid c2 s Hs Hm).
    + intros c2 Hc. inversion Hc; subst c2. exists SWritten. split; [apply stage_of_set_same; exact Hin | reflexivity].
    + rewrite scan_app, Hscan, Es. cbn [scan]. rewrite stage_of_set_same by exact Hin. reflexivity.
  - (* Hdr *)
    destruct (stage_of c (stages w)) as [[| | | |]|] eqn:Es; try discriminate.
    destruct (holds w c) eqn:Eh; [|discriminate]. apply holds_eq in Eh. inversion H; subst w'. clear H.
    pose proof (stage_of_in _ _ _ Es) as Hin. unfold winv. cbn [holder wire stages]. rewrite Eh in *.
    split; [|split].
    + intros c2 s Hs Hm. destruct (Nat.eq_dec c2 c) as [->|Hne]; [reflexivity|].
      rewrite stage_of_set_other in Hs by exact Hne. exact (Hmid c2 s Hs Hm).
    + intros c2 Hc. inversion Hc; subst c2. exists SHdrDone. split; [apply stage_of_set_same; exact Hin | reflexivity].
    + rewrite scan_app, Hscan, Es. cbn [scan]. rewrite stage_of_set_same by exact Hin. reflexivity.
  - (* Pay *)
    destruct (stage_of c (stages w)) as [[| | | |]|] eqn:Es; try discriminate.
    destruct (holds w c) eqn:Eh; [|discriminate]. apply holds_eq in Eh. inversion H; subst w'. clear H.
    pose proof (stage_of_in _ _ _ Es) as Hin. unfold winv. cbn [holder wire stages]. rewrite Eh in *.
    split; [|split].
    + intros c2 s Hs Hm. destruct (Nat.eq_dec c2 c) as [->|Hne]; [reflexivity|].
      rewrite stage_of_set_other in Hs by exact Hne. exact (Hmid c2 s Hs Hm).
    + intros c2 Hc. inversion Hc; subst c2. exists SWritten. split; [apply stage_of_set_same; exact Hin | reflexivity].
    + rewrite scan_app, Hscan, Es. cbn [scan]. rewrite Nat.eqb_refl. rewrite stage_of_set_same by exact Hin. reflexivity.
  - (* Unlock *)
    destruct (stage_of c (stages w)) as [[| | | |]|] eqn:Es; try discriminate.
    destruct (holds w c) eqn:Eh; [|discriminate]. apply holds_eq in Eh. inversion H; subst w'. clear H.
    pose proof (stage_of_in _ _ _ Es) as Hin. unfold winv. cbn [holder wire stages]. rewrite Eh in *.
    split; [|split].
    + intros c2 s Hs Hm. exfalso. destruct (Nat.eq_dec c2 c) as [->|Hne].
      * rewrite stage_of_set_same in Hs by exact Hin. inversion Hs; subst s. discriminate.
      * rewrite stage_of_set_other in Hs by exact Hne. specialize (Hmid c2 s Hs Hm). congruence.
    + intros c2 Hc. discriminate.
    + rewrite Hscan, Es. reflexivity.
Qed.

(* for every number of senders and every interleaving of their lock / write / unlock steps: nothing that does not belong
   there is ever inside a packet, and whenever the mutex is free the wire consists of whole packets *)
Theorem wire_is_whole_packets : forall n tr w, wrun true (w0 n) tr = Some w ->
  exists p, scan (wire w) None = Some p /\ (holder w = None -> p = None).
Proof.
  intros n tr. assert (G : forall w0' w, winv w0' -> wrun true w0' tr = Some w -> winv w).
  { induction tr as [|l tr IH]; intros w0' w Hi Hr; cbn [wrun] in Hr; [inversion Hr; subst; exact Hi|].
    destruct (wstep true w0' l) as [w1|] eqn:E; [|discriminate]. eapply IH; [eapply winv_step; eassumption | exact Hr]. }
  intros w Hr. destruct (G _ _ (winv_init n) Hr) as [_ [_ Hs]]. eexists. split; [exact Hs|]. intros Hh. rewrite Hh. reflexivity.
Qed.

(* the variant that writes one-part packets without the mutex lets a foreign Write into a two-part packet *)
Theorem unlocked_one_part_refuted :
  exists tr w, wrun false (w0 2) tr = Some w /\ scan (wire w) None = None.
Proof. exists [WLock 0; WHdr 0; WOne 1; WPay 0; WUnlock 0]. eexists. split; vm_compute; reflexivity. Qed.

(* ---- the writer is closed between packets, never inside one ---- *)
Lemma crun_closed_stuck : forall lc w tr s, crun lc (w, true) tr = Some s -> tr = [] /\ s = (w, true).
Proof.
  intros lc w tr s H. destruct tr as [|l tr]; cbn [crun] in H; [inversion H; split; reflexivity|].
  cbn [cstep] in H. discriminate H.
Qed.

Lemma crun_close_inv : forall tr w0' w, winv w0' -> crun true (w0', false) tr = Some (w, true) -> winv w /\ holder w = None.
Proof.
  induction tr as [|l tr IH]; intros w0' w Hi H; cbn [crun] in H; [inversion H|].
  cbn [cstep] in H. destruct l as [l|].
  - destruct (wstep true w0' l) as [w1|] eqn:E; [|discriminate H].
    eapply IH; [eapply winv_step; eassumption | exact H].
  - destruct (holder w0') as [h|] eqn:Eh; [discriminate H|].
    apply crun_closed_stuck in H. destruct H as [_ H]. inversion H; subst. split; [exact Hi | exact Eh].
Qed.

(* for every number of senders and every interleaving of their steps with the close: when the writer is closed, what has been
   written consists of whole packets - a request whose header is on the wire has its payload there too *)
Theorem close_finds_whole_packets : forall n tr w, crun true (w0 n, false) tr = Some (w, true) ->
  scan (wire w) None = Some None.
Proof.
  intros n tr w H. destruct (crun_close_inv tr (w0 n) w (winv_init n) H) as [[_ [_ Hs]] Hh].
  rewrite Hs, Hh. reflexivity.
Qed.

(* the variant that closes the transport without the mutex can cut a two-part packet after its header *)
Theorem unlocked_close_refuted :
  exists tr w, crun false (w0 1, false) tr = Some (w, true) /\ scan (wire w) None = Some (Some 0).
Proof. exists [CW (WLock 0); CW (WHdr 0); CClose]. eexists. split; vm_compute; reflexivity. Qed.

Example close_nonvacuous :
  exists w, crun true (w0 2, false) [CW (WLock 0); CW (WHdr 0); CW (WPay 0); CW (WUnlock 0); CW (WLock 1); CW (WOne 1); CW (WUnlock 1); CClose] = Some (w, true)
            /\ wire w = [(0, PHdr); (0, PPay); (1, POne)].
Proof. eexists. split; vm_compute; reflexivity. Qed.
