From Coq Require Import List Bool Arith Lia.
From Sftp Require Import Srv.Shutdown.
Import ListNotations.
Import Shutdown.

Definition shinv (n : nat) (s : sst) : Prop :=
  wg s = spawned s + running s /\
  spawned s + running s + exited s = n /\
  (0 < exited s -> queue s = 0 /\ recv_open s = false) /\
  (swept s = true -> spawned s + running s = 0 /\ recv_open s = false /\ opened s = 0) /\
  late s = 0 /\ leaked s = 0.

Lemma shinv_init : forall n, shinv n (sh0 true n).
Proof.
  intros n. unfold shinv, sh0; cbn. split; [|split; [|split; [|split; [|split]]]]; try reflexivity; try lia;
    intros H; try lia; discriminate H.
Qed.

Ltac six := split; [|split; [|split; [|split; [|split]]]].

Lemma shinv_step : forall n s l s', shinv n s -> shstep true s l = Some s' -> shinv n s'.
Proof.
  intros n s l s' [Hwg [Hn [Hex [Hsw [Hl Hk]]]]] H. destruct l as [| | |o| |]; cbn [shstep] in H.
  - (* LRecv *)
    destruct (recv_open s) eqn:Er; [|discriminate H]. inversion H; clear H. unfold shinv; cbn.
    six; intuition (try congruence; try lia).
  - (* LEnd *)
    destruct (recv_open s) eqn:Er; [|discriminate H]. inversion H; clear H. unfold shinv; cbn.
    six; intuition (try congruence; try lia).
  - (* LStart *)
    destruct (spawned s) as [|k] eqn:Es; [discriminate H|]. inversion H; clear H. unfold shinv; cbn.
    six; intuition (try congruence; try lia).
  - (* LServe *)
    destruct (running s) as [|r] eqn:Er; [discriminate H|]. destruct (queue s) as [|q] eqn:Eq; [discriminate H|].
    destruct (swept s) eqn:Esw.
    + exfalso. destruct (Hsw eq_refl) as [Ha _]. lia.
    + inversion H; clear H. unfold shinv; cbn. rewrite ?Er.
      six; intuition (try congruence; try lia).
  - (* LExit *)
    destruct (running s) as [|r] eqn:Er; [discriminate H|]. destruct (queue s) as [|q] eqn:Eq; [|discriminate H].
    destruct (recv_open s) eqn:Eo; [discriminate H|]. inversion H; clear H. unfold shinv; cbn.
    six; intuition (try congruence; try lia).
  - (* LSweep *)
    destruct (negb (recv_open s) && (wg s =? 0) && negb (swept s)) eqn:Ec; [|discriminate H].
    apply andb_prop in Ec. destruct Ec as [Ec Ens]. apply andb_prop in Ec. destruct Ec as [Eo Ew].
    apply Nat.eqb_eq in Ew. apply negb_true_iff in Eo. inversion H; clear H. unfold shinv; cbn.
    six; intuition (try congruence; try lia).
Qed.

Lemma shinv_run : forall n tr s s', shinv n s -> shrun true s tr = Some s' -> shinv n s'.
Proof.
  intros n tr. induction tr as [|l tr IH]; intros s s' Hi H; cbn [shrun] in H; [inversion H; subst; exact Hi|].
  destruct (shstep true s l) as [s1|] eqn:E; [|discriminate H]. eapply IH; [eapply shinv_step; eassumption | exact H].
Qed.

(* for every number of workers, every number of requests and every interleaving of the receive loop, the workers and Serve's
   epilogue: no request is served after the sweep and no handle is opened after it; once the sweep has run every worker has
   left, every request that was received has been served (n > 0) and no handle is open *)
Theorem nothing_after_the_sweep : forall n tr s, shrun true (sh0 true n) tr = Some s ->
  late s = 0 /\ leaked s = 0 /\
  (swept s = true -> spawned s + running s = 0 /\ opened s = 0 /\ (0 < n -> queue s = 0)).
Proof.
  intros n tr s H. destruct (shinv_run n tr _ _ (shinv_init n) H) as [Hwg [Hn [Hex [Hsw [Hl Hk]]]]].
  split; [exact Hl|]. split; [exact Hk|]. intros Hs. destruct (Hsw Hs) as [Ha [_ Ho]].
  split; [exact Ha|]. split; [exact Ho|]. intros Hpos. apply Hex. lia.
Qed.

Corollary observer_sees_nothing : forall n tr s, shrun true (sh0 true n) tr = Some s -> swept s = true -> after_return s = (0, 0).
Proof.
  intros n tr s H Hs. destruct (nothing_after_the_sweep n tr s H) as [Hl [Hk Hsw]]. destruct (Hsw Hs) as [_ [Ho _]].
  unfold after_return. rewrite Hl, Hk, Hs, Ho. reflexivity.
Qed.

(* the variant that calls wg.Add inside the goroutine: Serve can sweep before a worker has run; the worker then serves a queued
   OPEN after the cleanup and its handle is never closed *)
Theorem add_inside_goroutine_refuted :
  exists tr s, shrun false (sh0 false 1) tr = Some s /\ swept s = true /\ after_return s = (1, 1).
Proof. exists [LRecv; LEnd; LSweep; LStart; LServe 1]. eexists. split; [|split]; vm_compute; reflexivity. Qed.

(* the schedule the correspondence evaluates is a run of the system, and ends swept *)
Lemma eager_schedule_runs : exists s, shrun true (sh0 true 3) (eager_schedule 3 4 2) = Some s /\ swept s = true /\ after_return s = (0, 0).
Proof. eexists. split; [|split]; vm_compute; reflexivity. Qed.
