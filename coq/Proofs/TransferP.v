From Coq Require Import List NArith ZArith Bool Arith Lia Permutation Strings.Byte.
From Sftp Require Import Base.GoSem Xfer.Transfer.
Import ListNotations.

(* ---------- the chunk list ---------- *)
Lemma chunks_spec : forall fuel off n p, 1 <= p -> n <= fuel ->
  let cs := chunks fuel off n p in
  fold_right (fun c a => snd c + a) 0 cs = n /\
  Forall (fun c => 1 <= snd c <= p) cs /\
  (forall pre c post, cs = pre ++ c :: post -> fst c = off + fold_right (fun c a => snd c + a) 0 pre).
Proof.
  induction fuel as [|f IH]; intros off n p Hp Hf; cbn zeta.
  - assert (n = 0) by lia. subst. cbn [chunks]. repeat split; [constructor | intros pre c post H; destruct pre; discriminate].
  - destruct n as [|n']; cbn [chunks].
    + repeat split; [constructor | intros pre c post H; destruct pre; discriminate].
    + set (l := Nat.min (S n') p). assert (Hl : 1 <= l <= p) by (unfold l; lia).
      assert (Hl2 : l <= S n') by (unfold l; lia).
      destruct (IH (off + l) (S n' - l) p Hp ltac:(lia)) as [Hs [Hall Hoff]].
      repeat split.
      * cbn [fold_right snd]. rewrite Hs. lia.
      * constructor; [cbn [snd]; exact Hl | exact Hall].
      * intros pre c post H. destruct pre as [|c0 pre].
        -- cbn [app] in H. inversion H; subst. cbn [fst fold_right]. lia.
        -- cbn [app] in H. inversion H; subst c0. specialize (Hoff pre c post H2).
           rewrite Hoff. cbn [fold_right snd]. lia.
Qed.

(* the payload slices of the chunks, in offset order, concatenate to the buffer *)
Lemma firstn_add {A} : forall a c (x : list A), firstn (a + c) x = firstn a x ++ firstn c (skipn a x).
Proof. induction a as [|a IH]; intros c x; [reflexivity|]. destruct x; cbn [Nat.add firstn skipn app]; [rewrite firstn_nil; reflexivity | rewrite IH; reflexivity]. Qed.

Lemma skipn_skipn {A} : forall a b (l : list A), skipn a (skipn b l) = skipn (b + a) l.
Proof. intros a b; revert a. induction b as [|b IH]; intros a l; [reflexivity|]. destruct l; cbn [Nat.add skipn]; [destruct a; reflexivity | apply IH]. Qed.

Lemma firstn_min_len {A} : forall k (x : list A), firstn (Nat.min k (length x)) x = firstn k x.
Proof. intros k x. destruct (le_lt_dec k (length x)); [rewrite Nat.min_l by lia; reflexivity|]. rewrite Nat.min_r by lia. rewrite firstn_all, firstn_all2 by lia. reflexivity. Qed.

Fixpoint slices (cs : list (nat * nat)) (b : bytes) (boff : nat) : bytes :=
  match cs with [] => [] | (_, l) :: rest => firstn l (skipn boff b) ++ slices rest b (boff + l) end.

Lemma chunks_cover : forall fuel n p (b : bytes) boff off, 1 <= p -> n <= fuel ->
  slices (chunks fuel off n p) b boff = firstn n (skipn boff b).
Proof.
  induction fuel as [|f IH]; intros n p b boff off Hp Hf.
  - assert (n = 0) by lia. subst. reflexivity.
  - destruct n as [|n']; cbn [chunks]; [reflexivity|].
    set (l := Nat.min (S n') p). assert (Hl : 1 <= l <= S n') by (unfold l; lia).
    cbn [slices]. rewrite (IH (S n' - l) p b (boff + l) (off + l) Hp ltac:(lia)).
    replace (S n') with (l + (S n' - l)) at 2 by lia. rewrite firstn_add, skipn_skipn.
    reflexivity.
Qed.

(* ---------- the reduce step picks the lowest offset, in any arrival order ---------- *)
Definition is_min (l : list (nat * xerr)) (e : nat * xerr) : Prop :=
  In e l /\ forall e', In e' l -> fst e <= fst e'.

Lemma reduce_fold_spec : forall l acc,
  match fold_left reduce_step l acc with
  | None => acc = None /\ l = []
  | Some e =>
    (In e l \/ acc = Some e) /\ (forall e', In e' l -> fst e <= fst e') /\
    (forall a, acc = Some a -> fst e <= fst a)
  end.
Proof.
  induction l as [|x l IH]; intros acc; cbn [fold_left].
  - destruct acc as [a|]; [|split; reflexivity].
    split; [right; reflexivity|]. split; [intros e' []|]. intros a0 H. inversion H. lia.
  - specialize (IH (reduce_step acc x)).
    destruct (fold_left reduce_step l (reduce_step acc x)) as [e|] eqn:E.
    + destruct IH as [Hin [Hmin Hacc]].
      assert (Hx : fst e <= fst x /\ forall a, acc = Some a -> fst e <= fst a).
      { unfold reduce_step in Hacc. destruct acc as [[o xx]|].
        - destruct (fst x <=? o) eqn:C.
          + apply Nat.leb_le in C. specialize (Hacc x eq_refl). split; [exact Hacc|].
            intros a Ha. inversion Ha; subst. cbn [fst]. lia.
          + apply Nat.leb_gt in C. specialize (Hacc (o, xx) eq_refl). cbn [fst] in Hacc. split; [lia|].
            intros a Ha. inversion Ha; subst. cbn [fst]. exact Hacc.
        - specialize (Hacc x eq_refl). split; [exact Hacc | intros a Ha; discriminate]. }
      destruct Hx as [Hx1 Hx2]. split; [|split].
      * destruct Hin as [Hin|Hin]; [left; right; exact Hin|].
        unfold reduce_step in Hin. destruct acc as [[o xx]|].
        -- destruct (fst x <=? o); inversion Hin; subst; [left; left; reflexivity | right; reflexivity].
        -- inversion Hin; subst. left; left; reflexivity.
      * intros e' [<-|He']; [exact Hx1 | apply Hmin; exact He'].
      * exact Hx2.
    + destruct IH as [Hr _]. unfold reduce_step in Hr. destruct acc as [[o xx]|]; [destruct (fst x <=? o)|]; discriminate.
Qed.

Theorem reduce_is_min : forall l e, reduce_first_err l = Some e -> is_min l e.
Proof.
  intros l e H. unfold reduce_first_err in H. pose proof (reduce_fold_spec l None) as S. rewrite H in S.
  destruct S as [[Hin|Hn] [Hmin _]]; [|discriminate]. split; assumption.
Qed.

Theorem reduce_none_iff : forall l, reduce_first_err l = None <-> l = [].
Proof.
  intros l. unfold reduce_first_err. pose proof (reduce_fold_spec l None) as S.
  destruct (fold_left reduce_step l None) as [e|].
  - split; [discriminate|]. intros ->. destruct S as [[[]|H] _]. discriminate.
  - destruct S as [_ Hl]. split; [intros _; exact Hl | reflexivity].
Qed.

(* with pairwise distinct offsets (which distinct chunks have) the result does not depend on the arrival order *)
Theorem reduce_perm : forall l l', Permutation l l' -> NoDup (map fst l) ->
  reduce_first_err l = reduce_first_err l'.
Proof.
  intros l l' Hp Hnd.
  destruct (reduce_first_err l) as [e|] eqn:E1; destruct (reduce_first_err l') as [e'|] eqn:E2.
  - apply reduce_is_min in E1. apply reduce_is_min in E2. destruct E1 as [Hin1 Hmin1], E2 as [Hin2 Hmin2].
    assert (Hin2' : In e' l) by (eapply Permutation_in; [apply Permutation_sym; exact Hp | exact Hin2]).
    assert (Hin1' : In e l') by (eapply Permutation_in; [exact Hp | exact Hin1]).
    assert (Hf : fst e = fst e') by (pose proof (Hmin1 e' Hin2'); pose proof (Hmin2 e Hin1'); lia).
    f_equal. clear - Hin1 Hin2' Hf Hnd.
    induction l as [|x l IH]; [destruct Hin1|].
    cbn [map] in Hnd. inversion Hnd as [|? ? Hni Hnd']; subst.
    destruct Hin1 as [->|H1], Hin2' as [->|H2]; try reflexivity.
    + exfalso. apply Hni. rewrite Hf. apply in_map. exact H2.
    + exfalso. apply Hni. rewrite <- Hf. apply in_map. exact H1.
    + apply IH; assumption.
  - apply reduce_none_iff in E2. subst l'. apply Permutation_sym, Permutation_nil in Hp. subst l. discriminate.
  - apply reduce_none_iff in E1. subst l. apply Permutation_nil in Hp. subst l'. discriminate.
  - reflexivity.
Qed.

(* ---------- reading one chunk without failures: exactly the file's bytes ---------- *)
Definition no_rfail (s : srv) : Prop := forall o, rfail s o = None.

Lemma firstn_skipn_len (l : bytes) o n : length (firstn n (skipn o l)) = Nat.min n (length l - o).
Proof. rewrite firstn_length, skipn_length. reflexivity. Qed.

Theorem readChunkAt_exact : forall fuel s off want acc,
  no_rfail s -> 1 <= maxTx s -> want <= fuel ->
  readChunkAt fuel s off want acc =
    (acc ++ firstn want (skipn off (file s)),
     if want <=? length (file s) - off then None else Some xeof).
Proof.
  induction fuel as [|f IH]; intros s off want acc Hnf Hm Hf.
  - assert (want = 0) by lia. subst. cbn [readChunkAt firstn]. rewrite app_nil_r. reflexivity.
  - destruct want as [|w]; [cbn [readChunkAt firstn]; rewrite app_nil_r; reflexivity|].
    cbn [readChunkAt]. unfold srv_read. rewrite (Hnf off).
    destruct (length (file s) <=? off) eqn:E.
    + apply Nat.leb_le in E. rewrite skipn_all2 by exact E. rewrite firstn_nil, app_nil_r.
      replace (S w <=? length (file s) - off) with false by (symmetry; apply Nat.leb_gt; lia). reflexivity.
    + apply Nat.leb_gt in E.
      set (d := firstn (S w) (firstn (Nat.min (S w) (maxTx s)) (skipn off (file s)))).
      assert (Hd : d = firstn (Nat.min (S w) (maxTx s)) (skipn off (file s))).
      { unfold d. rewrite firstn_firstn. f_equal. lia. }
      assert (Hlen : length d = Nat.min (Nat.min (S w) (maxTx s)) (length (file s) - off)).
      { rewrite Hd. apply firstn_skipn_len. }
      assert (Hpos : 1 <= length d <= S w) by lia.
      destruct d as [|x d'] eqn:Ed; [cbn [length] in Hpos; lia|]. rewrite <- Ed in *. clear Ed.
      rewrite (IH s (off + length d) (S w - length d) (acc ++ d) Hnf Hm ltac:(lia)).
      f_equal.
      * rewrite <- app_assoc. f_equal. rewrite Hd at 1.
        set (k := Nat.min (S w) (maxTx s)) in *.
        assert (Hk : length d = Nat.min k (length (file s) - off)) by exact Hlen.
        replace (S w) with (length d + (S w - length d)) at 2 by lia.
        rewrite firstn_add, skipn_skipn. f_equal.
        -- rewrite Hd. rewrite firstn_length. fold k. rewrite firstn_min_len. reflexivity.
      * destruct (S w - length d <=? length (file s) - (off + length d)) eqn:C1;
        destruct (S w <=? length (file s) - off) eqn:C2; try reflexivity;
        [apply Nat.leb_le in C1; apply Nat.leb_gt in C2 | apply Nat.leb_gt in C1; apply Nat.leb_le in C2]; lia.
Qed.

(* ---------- Seek ---------- *)
Theorem seek_spec : forall cur size w delta,
  (snd (seek cur size w delta) = true -> fst (seek cur size w delta) = cur) /\
  (snd (seek cur size w delta) = false ->
     match w with
     | SeekStart => Z.of_nat (fst (seek cur size w delta)) = delta
     | SeekCurrent => Z.of_nat (fst (seek cur size w delta)) = (Z.of_nat cur + delta)%Z
     | SeekEnd => Z.of_nat (fst (seek cur size w delta)) = (Z.of_nat size + delta)%Z
     | SeekBad => False
     end).
Proof.
  intros cur size w delta. unfold seek.
  destruct w; cbn zeta iota.
  1-3: match goal with |- context [(?t <? 0)%Z] => destruct (t <? 0)%Z eqn:E end; cbn [fst snd];
       (split; intros H; [try discriminate; try reflexivity | try discriminate]);
       apply Z.ltb_ge in E; rewrite Z2Nat.id by lia; reflexivity.
  cbn [fst snd]. split; intros H; [reflexivity | discriminate].
Qed.

Theorem seek_negative_rejected : forall cur size w delta t,
  match w with SeekStart => t = delta | SeekCurrent => t = (Z.of_nat cur + delta)%Z
             | SeekEnd => t = (Z.of_nat size + delta)%Z | SeekBad => True end ->
  (t < 0)%Z -> seek cur size w delta = (cur, true).
Proof.
  intros cur size w delta t Ht Hneg. unfold seek. destruct w; subst; try reflexivity;
  match goal with |- context [(?t <? 0)%Z] => replace (t <? 0)%Z with true by (symmetry; apply Z.ltb_lt; lia) end; reflexivity.
Qed.

(* ---------- API-level corollaries ---------- *)
(* a read that fits in one packet: exactly the file's bytes, nil iff the whole request was transferred, else EOF *)
Theorem readAt_single_exact : forall o s off len arrival,
  no_rfail s -> 1 <= maxTx s -> len <= maxPacket o ->
  readAt o s off len arrival =
    (Nat.min len (length (file s) - off),
     (if len <=? length (file s) - off then None else Some xeof),
     firstn len (skipn off (file s))).
Proof.
  intros o s off len arrival Hnf Hm Hl. unfold readAt.
  replace (len <=? maxPacket o) with true by (symmetry; apply Nat.leb_le; exact Hl).
  rewrite (readChunkAt_exact len s off len [] Hnf Hm (le_n _)). cbn [app].
  rewrite firstn_skipn_len. reflexivity.
Qed.

(* concurrent read: the error and count returned are those of the lowest error offset among the workers' reports *)
Theorem readConc_lowest_error_wins : forall s off len p arrival n e buf,
  readConc s off len p arrival = (n, Some e, buf) ->
  exists eo, is_min (errs_of (map (conc_chunk s) arrival)) (eo, e) /\ n = eo - off.
Proof.
  intros s off len p arrival n e buf H. unfold readConc in H.
  destruct (reduce_first_err (errs_of (map (conc_chunk s) arrival))) as [[eo x]|] eqn:E; [|inversion H].
  inversion H; subst. exists eo. split; [apply reduce_is_min; exact E | reflexivity].
Qed.

Theorem readConc_order_irrelevant : forall s off len p arrival arrival',
  Permutation (errs_of (map (conc_chunk s) arrival)) (errs_of (map (conc_chunk s) arrival')) ->
  NoDup (map fst (errs_of (map (conc_chunk s) arrival))) ->
  readConc s off len p arrival = readConc s off len p arrival'.
Proof.
  intros s off len p a a' Hp Hnd. unfold readConc. rewrite (reduce_perm _ _ Hp Hnd). reflexivity.
Qed.

Lemma errs_of_perm : forall (f : nat * nat -> bytes * option (nat * xerr)) l l',
  Permutation l l' -> Permutation (errs_of (map f l)) (errs_of (map f l')).
Proof.
  intros f l l' H. unfold errs_of. induction H; cbn [map flat_map].
  - constructor.
  - apply Permutation_app_head. exact IHPermutation.
  - rewrite !app_assoc. apply Permutation_app_tail. apply Permutation_app_comm.
  - eapply Permutation_trans; eassumption.
Qed.

(* a worker's error offset lies inside its own chunk, so distinct chunks never tie *)
Lemma conc_chunk_err_in_chunk : forall s o l d eo e, conc_chunk s (o, l) = (d, Some (eo, e)) -> o <= eo /\ (eo < o + l \/ eo = o).
Proof.
  intros s o l d eo e H. unfold conc_chunk in H. destruct (srv_read s o l) as [dd|c].
  - destruct (length (firstn l dd) <? l) eqn:C; inversion H; subst. apply Nat.ltb_lt in C. lia.
  - inversion H; subst. lia.
Qed.

(* sequential ReadFrom (repaired): a nil error means every byte of the source was written and the offset moved past it *)
Theorem readFromSeq_nil_means_all : forall fuel s p src off read s' n foff,
  1 <= p -> length src <= fuel ->
  readFromSeq fuel true s p src off read = (s', n, None, foff) ->
  n = read + length src /\ foff = off + length src.
Proof.
  induction fuel as [|f IH]; intros s p src off read s' n foff Hp Hf H.
  - destruct src; [|cbn [length] in Hf; lia]. cbn [readFromSeq] in H. inversion H; subst. cbn [length]. lia.
  - destruct src as [|x src']; [cbn [readFromSeq] in H; inversion H; subst; cbn [length]; lia|].
    cbn [readFromSeq] in H. set (src := x :: src') in *.
    destruct (srv_write s off (firstn p src)) as [s1 e1] eqn:Ew.
    assert (Hlen : length (firstn p src) = Nat.min p (length src)) by apply firstn_length.
    destruct e1 as [c|].
    + destruct (length (firstn p src) =? p); inversion H.
    + destruct (length (firstn p src) =? p) eqn:Efull.
      * apply Nat.eqb_eq in Efull.
        apply IH in H; [|exact Hp | rewrite skipn_length; unfold src in *; cbn [length] in *; lia].
        destruct H as [H1 H2]. rewrite skipn_length in H1, H2. rewrite Efull in *. lia.
      * apply Nat.eqb_neq in Efull. inversion H; subst. lia.
Qed.

(* the pinned tree (F13): the final short chunk fails and the call still returns nil *)
Theorem readFromSeq_pinned_refuted :
  exists s p src, 
    (exists s' n foff, readFromSeq 10 false s p src 0 0 = (s', n, None, foff) /\ n = 3 /\ foff = 2 /\ length (file s') = 2) /\
    (exists s' n foff c, readFromSeq 10 true s p src 0 0 = (s', n, Some (XStatus c), foff) /\ foff = 2).
Proof.
  exists (mkSrv [] 100 (fun _ => None) (fun o => if o =? 2 then Some 4%N else None)), 2, [x61; x62; x63]%byte.
  split; [eexists _, _, _; vm_compute; repeat split | eexists _, _, _, _; vm_compute; repeat split].
Qed.

(* the pinned tree (F9): concurrent WriteTo of a 10-byte file with 4-byte packets leaves the offset at 12 *)
Theorem writeToConc_pinned_refuted :
  let s := mkSrv (pattern 0 10) 100 (fun _ => None) (fun _ => None) in
  snd (writeToConc 12 false s 4 0 [] 0) = 12 /\ snd (writeToConc 12 true s 4 0 [] 0) = 10 /\
  fst (fst (writeToConc 12 true s 4 0 [] 0)) = pattern 0 10.
Proof. vm_compute. repeat split; reflexivity. Qed.

(* why the side condition "client packet size <= server max payload" is needed: with maxTx < p the concurrent reader
   reports a false EOF *)
Theorem maxTx_needed_refuted :
  let s := mkSrv (pattern 0 10) 2 (fun _ => None) (fun _ => None) in
  fst (fst (readConc s 0 8 4 (chunks 8 0 8 4))) = 2 /\ snd (fst (readConc s 0 8 4 (chunks 8 0 8 4))) = Some xeof.
Proof. vm_compute. split; reflexivity. Qed.
