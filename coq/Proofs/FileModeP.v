From Coq Require Import List NArith Bool Lia Sorted.
From Sftp Require Import Base.Bits Mode.FileMode.
Import ListNotations.
Open Scope N_scope.

(* ---------- wire -> os -> wire, all 2^16 words ---------- *)
Lemma from_to_all : forall w, w < 2 ^ 16 -> fromFileMode (toFileMode w) = wire_normal w.
Proof.
  intros w Hw.
  assert (H : forallb (fun w => fromFileMode (toFileMode w) =? wire_normal w) (bits 16) = true)
    by (vm_compute; reflexivity).
  apply N.eqb_eq. exact (forallb_bits _ 16%nat H w Hw).
Qed.

Lemma from_to_valid : forall w, w < 2 ^ 16 -> valid_wire_type w = true -> fromFileMode (toFileMode w) = w.
Proof. intros w Hw Hv. rewrite from_to_all by exact Hw. unfold wire_normal. rewrite Hv. reflexivity. Qed.

(* ---------- os -> wire -> os, all 7 x 512 x 8 modes ---------- *)
Definition os_domain_ok (f : N -> bool) : bool :=
  forallb (fun ty => forallb (fun p => forallb (fun s => f (os_mode ty p s)) (bits 3)) (bits 9)) os_types.

Lemma os_domain_lift : forall f, os_domain_ok f = true ->
  forall ty p s, In ty os_types -> p < 512 -> s < 8 -> f (os_mode ty p s) = true.
Proof.
  intros f H ty p s Hty Hp Hs. unfold os_domain_ok in H.
  rewrite forallb_forall in H. specialize (H ty Hty).
  pose proof (forallb_bits _ 9%nat H p Hp) as H2. cbv beta in H2.
  exact (forallb_bits _ 3%nat H2 s Hs).
Qed.

Lemma to_from_all : forall ty p s, In ty os_types -> p < 512 -> s < 8 ->
  toFileMode (fromFileMode (os_mode ty p s)) = os_mode ty p s.
Proof.
  intros ty p s Hty Hp Hs.
  assert (H : os_domain_ok (fun m => toFileMode (fromFileMode m) =? m) = true) by (vm_compute; reflexivity).
  apply N.eqb_eq. exact (os_domain_lift _ H ty p s Hty Hp Hs).
Qed.

(* wire word of an os mode fits in 16 bits and has a valid type: the two conversions are mutually inverse bijections
   between the 28672 os modes and the 7 * 4096 valid wire words *)
Lemma from_range : forall ty p s, In ty os_types -> p < 512 -> s < 8 ->
  fromFileMode (os_mode ty p s) < 2 ^ 16 /\ valid_wire_type (fromFileMode (os_mode ty p s)) = true.
Proof.
  intros ty p s Hty Hp Hs.
  assert (H : os_domain_ok (fun m => (fromFileMode m <? 65536) && valid_wire_type (fromFileMode m)) = true)
    by (vm_compute; reflexivity).
  pose proof (os_domain_lift _ H ty p s Hty Hp Hs) as H2. cbv beta in H2.
  apply andb_true_iff in H2. destruct H2 as [Ha Hb]. apply N.ltb_lt in Ha. split; [exact Ha | exact Hb].
Qed.

(* toChmodPerm keeps exactly permission + special bits, in POSIX positions *)
Lemma chmod_perm_all : forall ty p s, In ty os_types -> p < 512 -> s < 8 ->
  toChmodPerm (os_mode ty p s) = p + 512 * s.
Proof.
  intros ty p s Hty Hp Hs.
  assert (H : forallb (fun ty => forallb (fun p => forallb (fun s => toChmodPerm (os_mode ty p s) =? p + 512 * s)
                 (bits 3)) (bits 9)) os_types = true) by (vm_compute; reflexivity).
  rewrite forallb_forall in H. specialize (H ty Hty).
  pose proof (forallb_bits _ 9%nat H p Hp) as H2. cbv beta in H2.
  pose proof (forallb_bits _ 3%nat H2 s Hs) as H3. cbv beta in H3. apply N.eqb_eq. exact H3.
Qed.

Lemma chmod_perm_is_low12 : forall ty p s, In ty os_types -> p < 512 -> s < 8 ->
  toChmodPerm (os_mode ty p s) = N.land (fromFileMode (os_mode ty p s)) 4095.
Proof.
  intros ty p s Hty Hp Hs.
  assert (H : os_domain_ok (fun m => toChmodPerm m =? N.land (fromFileMode m) 4095) = true) by (vm_compute; reflexivity).
  apply N.eqb_eq. exact (os_domain_lift _ H ty p s Hty Hp Hs).
Qed.

(* isRegular agrees with os.FileMode.IsRegular after conversion, for valid words *)
Lemma isRegular_agrees : forall w, w < 2 ^ 16 -> valid_wire_type w = true ->
  isRegular w = (N.land (toFileMode w) o_type =? 0).
Proof.
  intros w Hw Hv.
  assert (H : forallb (fun w => implb (valid_wire_type w) (Bool.eqb (isRegular w) (N.land (toFileMode w) o_type =? 0)))
                (bits 16) = true) by (vm_compute; reflexivity).
  pose proof (forallb_bits _ 16%nat H w Hw) as H2. cbv beta in H2. rewrite Hv in H2. simpl in H2.
  apply Bool.eqb_prop in H2. exact H2.
Qed.

(* the ls-style mode column determines the wire word and vice versa *)
Definition optN_eqb (a b : option N) : bool :=
  match a, b with Some x, Some y => x =? y | None, None => true | _, _ => false end.
Lemma optN_eqb_eq : forall a b, optN_eqb a b = true -> a = b.
Proof. intros [a|] [b|]; simpl; intro H; try discriminate; try reflexivity. apply N.eqb_eq in H. congruence. Qed.

Lemma mode_string_parse : forall w, w < 2 ^ 16 ->
  parse_mode_string (mode_string w) = if valid_wire_type w then Some w else None.
Proof.
  intros w Hw.
  assert (H : forallb (fun w => optN_eqb (parse_mode_string (mode_string w)) (if valid_wire_type w then Some w else None))
                (bits 16) = true) by (vm_compute; reflexivity).
  apply optN_eqb_eq. exact (forallb_bits _ 16%nat H w Hw).
Qed.

Lemma mode_string_len : forall w, w < 2 ^ 16 -> length (mode_string w) = 10%nat.
Proof.
  intros w Hw.
  assert (H : forallb (fun w => Nat.eqb (length (mode_string w)) 10) (bits 16) = true) by (vm_compute; reflexivity).
  apply PeanoNat.Nat.eqb_eq. exact (forallb_bits _ 16%nat H w Hw).
Qed.

(* ---------- SETSTAT: exactly the flagged attributes, in the fixed order ---------- *)
Definition op_kind (o : setop) : N :=
  match o with OpTruncate _ => fl_size | OpChmod _ => fl_perm | OpChown _ _ => fl_uidgid | OpChtimes _ _ => fl_acmod end.
Definition op_rank (o : setop) : nat :=
  match o with OpTruncate _ => 0 | OpChmod _ => 1 | OpChown _ _ => 2 | OpChtimes _ _ => 3 end.

Lemma setstat_ops_exact : forall flags fs o,
  In o (setstat_ops flags fs) <->
  (has flags (op_kind o) = true /\
   o = match o with
       | OpTruncate _ => OpTruncate (st_size fs)
       | OpChmod _ => OpChmod (toFileMode (st_mode fs))
       | OpChown _ _ => OpChown (st_uid fs) (st_gid fs)
       | OpChtimes _ _ => OpChtimes (st_atime fs) (st_mtime fs)
       end).
Proof.
  intros flags fs o. unfold setstat_ops. rewrite !in_app_iff.
  destruct (has flags fl_size) eqn:H1, (has flags fl_perm) eqn:H2,
           (has flags fl_uidgid) eqn:H3, (has flags fl_acmod) eqn:H4;
  split; intro H;
  repeat match goal with
  | H : _ \/ _ |- _ => destruct H
  | H : In _ [] |- _ => destruct H
  | H : In _ [_] |- _ => destruct H as [<-|[]]
  | H : _ /\ _ |- _ => destruct H
  end; try (split; [assumption|reflexivity]);
  destruct o; simpl in *; try congruence;
  match goal with H : _ = _ |- _ => rewrite H end; simpl; auto 6.
Qed.

Lemma setstat_ops_ordered : forall flags fs, 
  Sorted.StronglySorted (fun a b => (op_rank a < op_rank b)%nat) (setstat_ops flags fs).
Proof.
  intros flags fs. unfold setstat_ops.
  destruct (has flags fl_size), (has flags fl_perm), (has flags fl_uidgid), (has flags fl_acmod); simpl;
  repeat (constructor; simpl; try lia).
Qed.

Lemma run_until_fail_prefix : forall ops fails,
  exists rest, ops = fst (run_until_fail ops fails) ++ rest /\
  (snd (run_until_fail ops fails) = true -> rest = [] /\ Forall (fun o => fails o = false) ops) /\
  (snd (run_until_fail ops fails) = false ->
     exists pre o, fst (run_until_fail ops fails) = pre ++ [o] /\ fails o = true /\ Forall (fun o => fails o = false) pre).
Proof.
  induction ops as [|o ops IH]; intros fails; simpl.
  - exists []. repeat split; auto; discriminate.
  - destruct (fails o) eqn:Hf; simpl.
    + exists ops. split; [reflexivity|]. split; [discriminate|]. intros _. exists [], o. auto.
    + destruct (IH fails) as [rest [He [Ht Hff]]].
      destruct (run_until_fail ops fails) as [done ok]; simpl in *.
      exists rest. split; [f_equal; exact He|]. split.
      * intros Hok. destruct (Ht Hok) as [-> Hall]. split; [reflexivity|]. constructor; assumption.
      * intros Hok. destruct (Hff Hok) as [pre [o' [Hd [Hfo Hall]]]].
        exists (o :: pre), o'. subst done. repeat split; auto.
Qed.

(* ---------- owner of a listed / stat'ed entry ---------- *)
Lemma owner_from_interface : forall hs stat_ids iface_ids, fileStat_owner hs true stat_ids iface_ids = iface_ids.
Proof. reflexivity. Qed.

Lemma owner_from_stat_t : forall stat_ids iface_ids, fileStat_owner true false stat_ids iface_ids = stat_ids.
Proof. reflexivity. Qed.

Lemma owner_flag_set : forall hs hi n he, (hs || hi = true)%bool -> has (fileStat_flags hs hi n he) fl_uidgid = true.
Proof. intros hs hi n he H. destruct hs, hi, he, n; try discriminate; vm_compute; reflexivity. Qed.

Lemma longname_owner_agrees : forall hs hi stat_ids iface_ids,
  ls_owner hs hi stat_ids iface_ids = fileStat_owner hs hi stat_ids iface_ids.
Proof. reflexivity. Qed.

Lemma listed_owner_is_the_reported_one : forall (hs : bool) stat_ids iface_ids,
  fileStat_owner hs true stat_ids iface_ids = iface_ids /\ fileStat_owner true false stat_ids iface_ids = stat_ids.
Proof. intros hs s i. split; [apply owner_from_interface | apply owner_from_stat_t]. Qed.
