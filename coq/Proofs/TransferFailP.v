(* C13: partial failure. With an ARBITRARY failure plan on the server (any set of failing READ offsets with any status
   codes, any payload limit): whatever a read path returns is an intact, contiguous prefix of the requested window of
   the file; a nil error means the window was filled; io.EOF is reported only at the true end of the file (unless the
   server itself injects status EOF). *)
From Coq Require Import List NArith ZArith Bool Arith Lia Permutation Strings.Byte.
From Sftp Require Import Base.GoSem Xfer.Transfer Proofs.TransferP.
Import ListNotations.

Definition prefix_of_window (d : bytes) (s : srv) (off : nat) : Prop := d = firstn (length d) (skipn off (file s)).

Definition no_injected_eof (s : srv) : Prop := forall o, rfail s o <> Some code_eof.

Lemma prefix_extend : forall (d1 d2 : bytes) s off,
  prefix_of_window d1 s off -> prefix_of_window d2 s (off + length d1) -> prefix_of_window (d1 ++ d2) s off.
Proof.
  unfold prefix_of_window. intros d1 d2 s off H1 H2. rewrite app_length, firstn_add, skipn_skipn, <- H1, <- H2. reflexivity.
Qed.

Theorem readChunkAt_prefix : forall fuel s off want acc d' e,
  readChunkAt fuel s off want acc = (d', e) ->
  exists d, d' = acc ++ d /\ prefix_of_window d s off /\ length d <= want /\ (e = None -> length d = want) /\
            (e = Some xeof -> no_injected_eof s -> length (file s) <= off + length d).
Proof.
  induction fuel as [|f IH]; intros s off want acc d' e H.
  - destruct want; cbn [readChunkAt] in H; inversion H; subst; exists []; rewrite app_nil_r;
      (split; [reflexivity|]; split; [reflexivity|]; split; [cbn; lia|]; split; [intros; try discriminate; reflexivity | intros; discriminate]).
  - destruct want as [|w].
    + cbn [readChunkAt] in H. inversion H; subst. exists []. rewrite app_nil_r.
      split; [reflexivity|]. split; [reflexivity|]. split; [cbn; lia|]. split; [reflexivity | intros; discriminate].
    + cbn [readChunkAt] in H. unfold srv_read in H. destruct (rfail s off) as [c|] eqn:Er.
      * inversion H; subst. exists []. rewrite app_nil_r. split; [reflexivity|]. split; [reflexivity|]. split; [cbn; lia|].
        split; [intros; discriminate|]. intros He Hn. exfalso. apply (Hn off). rewrite Er. inversion He. reflexivity.
      * destruct (length (file s) <=? off) eqn:El.
        -- inversion H; subst. exists []. rewrite app_nil_r. split; [reflexivity|]. split; [reflexivity|]. split; [cbn; lia|].
           split; [intros; discriminate|]. intros _ _. apply Nat.leb_le in El. cbn [length]. lia.
        -- set (d1 := firstn (S w) (firstn (Nat.min (S w) (maxTx s)) (skipn off (file s)))) in *.
           assert (Hd1 : prefix_of_window d1 s off).
           { unfold prefix_of_window, d1. rewrite firstn_firstn. rewrite firstn_length, skipn_length.
             set (k := Nat.min (S w) (Nat.min (S w) (maxTx s))). rewrite <- skipn_length. rewrite firstn_min_len. reflexivity. }
           assert (Hl1 : length d1 <= S w) by (unfold d1; rewrite firstn_length; lia).
           destruct d1 as [|x d1t] eqn:Ed.
           ++ inversion H; subst. exists []. rewrite app_nil_r. split; [reflexivity|]. split; [reflexivity|]. split; [cbn; lia|].
              split; intros; discriminate.
           ++ rewrite <- Ed in *. clear Ed.
              destruct (IH _ _ _ _ _ _ H) as [d2 [E2 [P2 [L2 [N2 F2]]]]].
              exists (d1 ++ d2). split; [rewrite E2, app_assoc; reflexivity|].
              split; [apply prefix_extend; assumption|]. rewrite app_length. clearbody d1.
              split; [lia|]. split; [intros He; specialize (N2 He); lia|].
              intros He Hn. specialize (F2 He Hn). lia.
Qed.

(* sequential multi-chunk read: an intact prefix of the window; nil only when the window was filled; EOF only at the end *)
Theorem readSeq_prefix : forall fuel s off n p acc d' e,
  1 <= p -> n <= fuel ->
  readSeq (chunks fuel off n p) s acc = (d', e) ->
  exists d, d' = acc ++ d /\ prefix_of_window d s off /\ length d <= n /\ (e = None -> length d = n) /\
            (e = Some xeof -> no_injected_eof s -> length (file s) <= off + length d).
Proof.
  induction fuel as [|f IH]; intros s off n p acc d' e Hp Hf H.
  - assert (n = 0) by lia. subst. cbn [chunks readSeq] in H. inversion H; subst. exists []. rewrite app_nil_r.
    split; [reflexivity|]. split; [reflexivity|]. split; [cbn; lia|]. split; [reflexivity | intros; discriminate].
  - destruct n as [|n'].
    + cbn [chunks readSeq] in H. inversion H; subst. exists []. rewrite app_nil_r.
      split; [reflexivity|]. split; [reflexivity|]. split; [cbn; lia|]. split; [reflexivity | intros; discriminate].
    + cbn [chunks] in H. set (l := Nat.min (S n') p) in *. assert (Hl : 1 <= l <= S n') by (unfold l; lia).
      cbn [readSeq] in H. destruct (readChunkAt l s off l []) as [d1 e1] eqn:R1.
      destruct (readChunkAt_prefix _ _ _ _ _ _ _ R1) as [d1' [E1 [P1 [L1 [N1 F1]]]]]. cbn [app] in E1. subst d1'.
      destruct e1 as [e1|].
      * inversion H; subst. exists d1. split; [reflexivity|]. split; [exact P1|]. split; [lia|].
        split; [intros; discriminate | exact F1].
      * specialize (N1 eq_refl).
        destruct (IH s (off + l) (S n' - l) p (acc ++ d1) d' e Hp ltac:(lia) H) as [d2 [E2 [P2 [L2 [N2 F2]]]]].
        exists (d1 ++ d2). split; [rewrite E2, app_assoc; reflexivity|].
        split; [apply prefix_extend; [exact P1 | rewrite N1; exact P2]|]. rewrite app_length. clearbody l.
        split; [lia|]. split; [intros He; specialize (N2 He); lia|].
        intros He Hn. specialize (F2 He Hn). lia.
Qed.

(* ---------- concurrent ReadAt under an arbitrary failure plan ---------- *)
Definition sum_len (cs : list (nat * nat)) : nat := fold_right (fun c a => snd c + a) 0 cs.

Lemma sum_len_app : forall a b, sum_len (a ++ b) = sum_len a + sum_len b.
Proof. induction a as [|c a IH]; intros b; cbn [app sum_len fold_right]; [reflexivity|]. fold (sum_len (a ++ b)). fold (sum_len a). rewrite IH. lia. Qed.

(* what one worker contributes: an intact prefix of its own chunk; complete iff it reports no error; an error sits
   exactly behind the bytes it did get *)
Lemma cc_shape : forall s o l d eopt, 1 <= l <= maxTx s ->
  conc_chunk s (o, l) = (d, eopt) ->
  prefix_of_window d s o /\ length d <= l /\ (eopt = None -> length d = l) /\
  (forall x e, eopt = Some (x, e) -> x = o + length d /\ length d < l).
Proof.
  intros s o l d eopt Hl H. unfold conc_chunk, srv_read in H.
  destruct (rfail s o) as [c|].
  - inversion H; subst. split; [reflexivity|]. split; [cbn [length]; lia|]. split; [discriminate|].
    intros x0 e0 He. inversion He; subst. cbn [length]. lia.
  - destruct (length (file s) <=? o).
    + inversion H; subst. split; [reflexivity|]. split; [cbn [length]; lia|]. split; [discriminate|].
      intros x0 e0 He. inversion He; subst. cbn [length]. lia.
    + rewrite firstn_firstn in H. replace (Nat.min l (Nat.min l (maxTx s))) with l in H by lia.
      assert (Hp : prefix_of_window (firstn l (skipn o (file s))) s o).
      { unfold prefix_of_window. rewrite firstn_length, firstn_min_len. reflexivity. }
      assert (Hle : length (firstn l (skipn o (file s))) <= l) by (rewrite firstn_length; lia).
      destruct (length (firstn l (skipn o (file s))) <? l) eqn:C; inversion H; subst.
      * apply Nat.ltb_lt in C. split; [exact Hp|]. split; [exact Hle|]. split; [discriminate|].
        intros x0 e0 He. inversion He; subst. split; [reflexivity | exact C].
      * apply Nat.ltb_ge in C. split; [exact Hp|]. split; [exact Hle|]. split; [intros _; lia|]. intros; discriminate.
Qed.

Definition bufof (s : srv) (cs : list (nat * nat)) : bytes :=
  flat_map (fun '(c, r) => fst r ++ zeros (snd c - length (fst r))) (combine cs (map (conc_chunk s) cs)).

Lemma bufof_cons : forall s c cs,
  bufof s (c :: cs) = (fst (conc_chunk s c) ++ zeros (snd c - length (fst (conc_chunk s c)))) ++ bufof s cs.
Proof. reflexivity. Qed.

Lemma errs_in : forall s (l : list (nat * nat)) xe,
  In xe (errs_of (map (conc_chunk s) l)) <-> exists c, In c l /\ snd (conc_chunk s c) = Some xe.
Proof.
  intros s l xe. unfold errs_of. rewrite in_flat_map. split.
  - intros [r [Hr Hin]]. apply in_map_iff in Hr. destruct Hr as [c [<- Hc]]. exists c. split; [exact Hc|].
    destruct (snd (conc_chunk s c)) as [y|]; [destruct Hin as [<-|[]]; reflexivity | destruct Hin].
  - intros [c [Hc He]]. exists (conc_chunk s c). split; [apply in_map; exact Hc|]. rewrite He. left; reflexivity.
Qed.

(* below the lowest error offset the buffer the workers filled is the file *)
Lemma buf_prefix : forall fuel s off n p eo,
  1 <= p <= maxTx s -> n <= fuel -> off <= eo <= off + n ->
  (forall c x e, In c (chunks fuel off n p) -> snd (conc_chunk s c) = Some (x, e) -> eo <= x) ->
  firstn (eo - off) (bufof s (chunks fuel off n p)) = firstn (eo - off) (skipn off (file s)) /\
  length (firstn (eo - off) (skipn off (file s))) = eo - off.
Proof.
  induction fuel as [|f IH]; intros s off n p eo Hp Hf Heo G.
  - assert (n = 0) by lia. subst. replace (eo - off) with 0 by lia. split; reflexivity.
  - destruct n as [|n']; [replace (eo - off) with 0 by lia; split; reflexivity|].
    cbn [chunks] in *. set (l := Nat.min (S n') p) in *. assert (Hl : 1 <= l <= S n') by (unfold l; lia).
    assert (Hlp : 1 <= l <= maxTx s) by (unfold l; lia).
    rewrite bufof_cons. cbn [snd].
    destruct (conc_chunk s (off, l)) as [d eopt] eqn:Ecc. cbn [fst].
    destruct (cc_shape _ _ _ _ _ Hlp Ecc) as [Pd [Ld [Nd Xd]]].
    assert (G0 : forall x e, eopt = Some (x, e) -> eo <= x).
    { intros x e He. apply (G (off, l) x e); [left; reflexivity | rewrite Ecc; exact He]. }
    destruct (le_lt_dec (off + l) eo) as [Hge|Hlt].
    + (* the first chunk lies entirely below eo: it cannot have reported an error *)
      assert (Hnone : eopt = None).
      { destruct eopt as [[x e]|]; [|reflexivity]. destruct (Xd x e eq_refl) as [Hx Hlen]. specialize (G0 x e eq_refl). lia. }
      specialize (Nd Hnone). replace (l - length d) with 0 by lia. cbn [zeros repeat]. rewrite app_nil_r.
      destruct (IH s (off + l) (S n' - l) p eo Hp ltac:(lia) ltac:(lia)) as [IH1 IH2].
      { intros c x e Hc He. apply (G c x e); [right; exact Hc | exact He]. }
      clearbody l.
      replace (eo - off) with (length d + (eo - (off + l))) by lia.
      rewrite firstn_app_2, IH1. split.
      * rewrite firstn_add. f_equal; [rewrite Pd at 1; rewrite Nd; reflexivity|]. rewrite skipn_skipn, Nd. reflexivity.
      * rewrite firstn_length, skipn_length in *. unfold prefix_of_window in Pd. apply (f_equal (@length byte)) in Pd.
        rewrite firstn_length, skipn_length in Pd. lia.
    + (* eo lies inside the first chunk *)
      assert (Hd : eo - off <= length d).
      { destruct eopt as [[x e]|]; [destruct (Xd x e eq_refl) as [Hx _]; specialize (G0 x e eq_refl); lia | specialize (Nd eq_refl); lia]. }
      clearbody l. rewrite <- app_assoc. rewrite firstn_app. replace (eo - off - length d) with 0 by lia. cbn [firstn]. rewrite app_nil_r.
      unfold prefix_of_window in Pd. split.
      * rewrite Pd. rewrite firstn_firstn. f_equal. lia.
      * apply (f_equal (@length byte)) in Pd. rewrite firstn_length, skipn_length in *. lia.
Qed.

Lemma chunks_pos : forall fuel off n p pre c post, 1 <= p -> n <= fuel ->
  chunks fuel off n p = pre ++ c :: post ->
  fst c = off + sum_len pre /\ fst c + snd c + sum_len post = off + n.
Proof.
  intros fuel off n p pre c post Hp Hf E.
  destruct (chunks_spec fuel off n p Hp Hf) as [Hs [_ Ho]]. cbn zeta in *.
  specialize (Ho pre c post E). split; [exact Ho|].
  rewrite E in Hs. fold (sum_len (pre ++ c :: post)) in Hs. rewrite sum_len_app in Hs. cbn [sum_len fold_right] in Hs.
  fold (sum_len post) in Hs. fold (sum_len pre) in Ho. lia.
Qed.

(* Concurrent ReadAt, any failure plan, any number k of chunks dispatched before the cancellation took effect, any order
   in which those k workers report: if an error is returned, it is the error with the lowest offset among those reported
   (C13_readConc_lowest_error_wins), the count is that offset minus the start, and the count bytes returned are exactly
   the file's - intact and contiguous. *)
Theorem readConc_prefix : forall s off len p k arrival n e b,
  1 <= p <= maxTx s ->
  Permutation arrival (firstn k (chunks len off len p)) ->
  readConc s off len p arrival = (n, Some e, b) ->
  prefix_of_window b s off /\ length b = n /\ n <= len.
Proof.
  intros s off len p k arrival n e b Hp Hperm H. unfold readConc in H. fold (bufof s (chunks len off len p)) in H.
  set (cs := chunks len off len p) in *.
  destruct (reduce_first_err (errs_of (map (conc_chunk s) arrival))) as [[eo x]|] eqn:R; [|inversion H].
  inversion H; subst n x b. clear H.
  apply reduce_is_min in R. destruct R as [Hin Hmin].
  apply errs_in in Hin. destruct Hin as [c0 [Hc0 He0]].
  assert (Hc0k : In c0 (firstn k cs)) by (eapply Permutation_in; eassumption).
  apply in_split in Hc0k. destruct Hc0k as [a [b0 Ek]].
  assert (Ecs : cs = a ++ c0 :: (b0 ++ skipn k cs)).
  { rewrite <- (firstn_skipn k cs) at 1. rewrite Ek, <- app_assoc. reflexivity. }
  destruct (chunks_pos len off len p _ _ _ ltac:(lia) (le_n _) Ecs) as [Hpos0 Hend0].
  destruct c0 as [o0 l0]. cbn [fst snd] in *.
  assert (Hl0 : 1 <= l0 <= maxTx s).
  { destruct (chunks_spec len off len p ltac:(lia) (le_n _)) as [_ [Hall _]]. cbn zeta in Hall. fold cs in Hall.
    rewrite Forall_forall in Hall. assert (In (o0, l0) cs) by (rewrite Ecs; apply in_or_app; right; left; reflexivity).
    specialize (Hall _ H). cbn [snd] in Hall. lia. }
  destruct (conc_chunk s (o0, l0)) as [d0 eopt0] eqn:Ecc0. cbn [snd] in He0. subst eopt0.
  destruct (cc_shape _ _ _ _ _ Hl0 Ecc0) as [_ [Ld0 [_ Xd0]]]. destruct (Xd0 eo e eq_refl) as [Heo Hlt0].
  assert (Hrange : off <= eo <= off + len) by lia.
  assert (G : forall c x e', In c cs -> snd (conc_chunk s c) = Some (x, e') -> eo <= x).
  { intros c x e' Hc Hx. rewrite <- (firstn_skipn k cs) in Hc. apply in_app_or in Hc. destruct Hc as [Hc|Hc].
    - assert (Hin : In (x, e') (errs_of (map (conc_chunk s) arrival))).
      { apply errs_in. exists c. split; [eapply Permutation_in; [apply Permutation_sym; exact Hperm | exact Hc] | exact Hx]. }
      apply (Hmin _ Hin).
    - apply in_split in Hc. destruct Hc as [a' [b' Es]].
      assert (Ecs2 : cs = (a ++ (o0, l0) :: b0 ++ a') ++ c :: b').
      { rewrite Ecs, Es. rewrite <- !app_assoc. cbn [app]. rewrite <- !app_assoc. reflexivity. }
      destruct (chunks_pos len off len p _ _ _ ltac:(lia) (le_n _) Ecs2) as [Hposc _].
      rewrite sum_len_app in Hposc. cbn [sum_len fold_right snd] in Hposc.
      destruct c as [oc lc]. cbn [fst] in Hposc.
      assert (Hlc : 1 <= lc <= maxTx s).
      { destruct (chunks_spec len off len p ltac:(lia) (le_n _)) as [_ [Hall _]]. cbn zeta in Hall. fold cs in Hall.
        rewrite Forall_forall in Hall. assert (In (oc, lc) cs) by (rewrite Ecs2; apply in_or_app; right; left; reflexivity).
        specialize (Hall _ H). cbn [snd] in Hall. lia. }
      destruct (conc_chunk s (oc, lc)) as [dc eoptc] eqn:Eccc. cbn [snd] in Hx. subst eoptc.
      destruct (cc_shape _ _ _ _ _ Hlc Eccc) as [_ [_ [_ Xdc]]]. destruct (Xdc x e' eq_refl) as [Hxc _]. lia. }
  destruct (buf_prefix len s off len p eo Hp (le_n _) Hrange G) as [B1 B2]. fold cs in B1.
  split; [|split].
  - unfold prefix_of_window. rewrite B1. rewrite B2. reflexivity.
  - rewrite B1. exact B2.
  - lia.
Qed.

Lemma bufof_length : forall fuel s off n p, 1 <= p <= maxTx s -> n <= fuel ->
  length (bufof s (chunks fuel off n p)) = n.
Proof.
  induction fuel as [|f IH]; intros s off n p Hp Hf; [assert (n = 0) by lia; subst; reflexivity|].
  destruct n as [|n']; [reflexivity|]. cbn [chunks]. rewrite bufof_cons, !app_length. cbn [snd].
  unfold zeros. rewrite repeat_length.
  set (l := Nat.min (S n') p). assert (Hl : 1 <= l <= S n') by (unfold l; lia).
  assert (Hlp : 1 <= l <= maxTx s) by (unfold l; lia).
  destruct (conc_chunk s (off, l)) as [d eopt] eqn:Ecc. cbn [fst].
  destruct (cc_shape _ _ _ _ _ Hlp Ecc) as [_ [Ld _]].
  rewrite (IH s (off + l) (S n' - l) p Hp) by lia. clearbody l. lia.
Qed.

(* and when no error is returned (all chunks dispatched and reported): the whole window, exactly *)
Theorem readConc_nil_means_all : forall s off len p arrival n b,
  1 <= p <= maxTx s ->
  Permutation arrival (chunks len off len p) ->
  readConc s off len p arrival = (n, None, b) ->
  n = len /\ b = firstn len (skipn off (file s)) /\ length b = len.
Proof.
  intros s off len p arrival n b Hp Hperm H. unfold readConc in H. fold (bufof s (chunks len off len p)) in H.
  set (cs := chunks len off len p) in *.
  destruct (reduce_first_err (errs_of (map (conc_chunk s) arrival))) as [[eo x]|] eqn:R; [inversion H|].
  inversion H; subst n b. clear H. apply reduce_none_iff in R.
  assert (G : forall c x e', In c cs -> snd (conc_chunk s c) = Some (x, e') -> off + len <= x).
  { intros c x e' Hc Hx. exfalso.
    assert (Hin : In (x, e') (errs_of (map (conc_chunk s) arrival))).
    { apply errs_in. exists c. split; [eapply Permutation_in; [apply Permutation_sym; exact Hperm | exact Hc] | exact Hx]. }
    rewrite R in Hin. destruct Hin. }
  destruct (buf_prefix len s off len p (off + len) Hp (le_n _) ltac:(lia) G) as [B1 B2]. fold cs in B1.
  replace (off + len - off) with len in * by lia.
  assert (Hlen : length (bufof s cs) = len) by (apply bufof_length; [exact Hp | apply le_n]).
  split; [reflexivity|]. split.
  - rewrite <- B1. rewrite firstn_all2 by lia. reflexivity.
  - exact Hlen.
Qed.

(* ---------- sequential WriteAt under an arbitrary failure plan ---------- *)
From Sftp Require Import Proofs.TransferE2EP.

(* whatever chunks the server rejects: the count returned names exactly the bytes that were stored, contiguously from the
   offset; a nil error means everything was stored; the loop stops at the first rejected chunk *)
Theorem writeSeq_prefix : forall fuel s off n p b boff w s' w' e,
  1 <= p -> n <= fuel -> n <= length b - boff ->
  writeSeq (chunks fuel off n p) s b boff w = (s', w', e) ->
  exists m, m <= n /\ w' = w + m /\ s' = with_file s (splice (file s) off (firstn m (skipn boff b))) /\
            (e = None -> m = n) /\ (forall c, e = Some (XStatus c) -> wfail s (off + m) = Some c).
Proof.
  induction fuel as [|f IH]; intros s off n p b boff w s' w' e Hp Hf Hb H.
  - assert (n = 0) by lia. subst. cbn [chunks writeSeq] in H. inversion H; subst. exists 0.
    cbn [firstn splice]. rewrite with_file_id, Nat.add_0_r. repeat split; try lia; try reflexivity; intros; discriminate.
  - destruct n as [|n'].
    + cbn [chunks writeSeq] in H. inversion H; subst. exists 0.
      cbn [firstn splice]. rewrite with_file_id, Nat.add_0_r. repeat split; try lia; try reflexivity; intros; discriminate.
    + cbn [chunks] in H. set (l := Nat.min (S n') p) in *. assert (Hl : 1 <= l <= S n') by (unfold l; lia).
      cbn [writeSeq] in H. unfold srv_write in H. destruct (wfail s off) as [c|] eqn:Ew.
      * inversion H; subst. exists 0. cbn [firstn splice]. rewrite with_file_id, !Nat.add_0_r.
        split; [lia|]. split; [reflexivity|]. split; [reflexivity|]. split; [intros; discriminate|].
        intros c0 He. inversion He; subst. exact Ew.
      * set (d1 := firstn l (skipn boff b)) in *.
        assert (Hd1 : length d1 = l) by (unfold d1; rewrite firstn_length, skipn_length; lia).
        fold (with_file s (splice (file s) off d1)) in H.
        destruct (IH (with_file s (splice (file s) off d1)) (off + l) (S n' - l) p b (boff + l) (w + l) s' w' e Hp ltac:(lia) ltac:(lia) H)
          as [m [Hm [Hw [Hs [Hn Hc]]]]].
        exists (l + m). clearbody l. split; [lia|]. split; [lia|]. split; [|split].
        -- rewrite Hs. unfold with_file. cbn [file maxTx rfail wfail]. f_equal.
           rewrite <- Hd1 at 1. rewrite splice_app. f_equal. unfold d1. rewrite firstn_add, skipn_skipn. reflexivity.
        -- intros He. specialize (Hn He). lia.
        -- intros c He. specialize (Hc c He). cbn [wfail with_file] in Hc. rewrite Nat.add_assoc. exact Hc.
Qed.
