(* Every candidate state of an accepted client-connection trace is reachable in the LTS from cinit: the theorems of
   ClientConnP (own reply, at most one result, no live entry after the loss, ...) hold for what the real connection did. *)
From Coq Require Import List Bool Arith Lia.
From Sftp Require Import Conn.ClientConn Conn.ConnTrace Proofs.ClientConnP.
Import ListNotations.

Definition reach (n : nat) (s : cst) : Prop := exists tr, crun (cinit n) tr = Some s.

Lemma crun_app : forall tr1 tr2 s s1, crun s tr1 = Some s1 -> crun s (tr1 ++ tr2) = crun s1 tr2.
Proof.
  induction tr1 as [|l tr1 IH]; intros tr2 s s1 H; cbn [crun app] in *; [inversion H; reflexivity|].
  destruct (cstep s l) as [s2|]; [|discriminate]. apply IH. exact H.
Qed.

Lemma reach_step : forall n s l s', reach n s -> cstep s l = Some s' -> reach n s'.
Proof.
  intros n s l s' [tr H] Hs. exists (tr ++ [l]). rewrite (crun_app tr [l] _ _ H). cbn [crun]. rewrite Hs. reflexivity.
Qed.

Lemma reach_ensure : forall n fuel s sid, reach n s -> reach n (ensure_ids fuel s sid).
Proof.
  induction fuel as [|f IH]; intros s sid H; cbn [ensure_ids]; [exact H|].
  destruct (nid s <? sid); [|exact H].
  destruct (cstep s (NextID (nid s))) as [s'|] eqn:Hs; [|exact H].
  apply IH. eapply reach_step; eassumption.
Qed.

Lemma reach_opt : forall n s l (sf : list nat) c,
  reach n s -> In c (map (fun s' => (s', sf)) (opt_list (cstep s l))) -> reach n (fst c).
Proof.
  intros n s l sf c H Hin. destruct (cstep s l) as [s'|] eqn:Hs; cbn [opt_list map] in Hin; [|destruct Hin].
  destruct Hin as [<-|[]]. cbn [fst]. eapply reach_step; eassumption.
Qed.

Lemma cstep1_reach : forall n c e c', reach n (fst c) -> In c' (cstep1 c e) -> reach n (fst c').
Proof.
  intros n [s sf] e c' H Hin. cbn [fst] in H. unfold cstep1 in Hin.
  destruct e as [sid ok|sid ok|sid found| |sid k].
  - set (s1 := ensure_ids sid s sid) in *. assert (H1 : reach n s1) by (apply reach_ensure; exact H).
    destruct (cstep s1 (Put (sid - 1))) as [s'|] eqn:Hs; [|destruct Hin].
    destruct (Bool.eqb ok (negb (closed s1))); [|destruct Hin]. destruct Hin as [<-|[]]. cbn [fst].
    eapply reach_step; eassumption.
  - destruct ok; [eapply reach_opt; eassumption|]. destruct Hin as [<-|[]]. exact H.
  - apply in_app_or in Hin. destruct Hin as [Hin|Hin].
    + destruct (mem sid sf); [|destruct Hin]. destruct (Bool.eqb found _); [|destruct Hin]. eapply reach_opt; eassumption.
    + destruct found; [eapply reach_opt; eassumption|].
      destruct (_ && _); [|destruct Hin]. destruct Hin as [<-|[]]. exact H.
  - eapply reach_opt; eassumption.
  - set (s0 := match cstate_of (sid - 1) (callers s) with
               | Some (CRegistered _) => match cstep s (SendOK (sid - 1)) with Some s1 => s1 | None => s end
               | _ => s end) in *.
    assert (H0 : reach n s0).
    { unfold s0. destruct (cstate_of (sid - 1) (callers s)) as [[| | | |]|]; try exact H.
      destruct (cstep s (SendOK (sid - 1))) as [s1|] eqn:Hs1; [eapply reach_step; eassumption | exact H]. }
    clearbody s0. clear H. rename H0 into H. rename s0 into s00.
    destruct (cstep s00 (Take (sid - 1))) as [s'|] eqn:Hs; [|destruct Hin].
    destruct (cstate_of (sid - 1) (callers s')) as [[| | | |id r]|]; try destruct Hin.
    destruct (_ && _); [|destruct Hin]. destruct Hin as [<-|[]]. cbn [fst]. eapply reach_step; eassumption.
Qed.

Lemma caccept_reach : forall n tr cs i cs',
  Forall (fun c => reach n (fst c)) cs -> caccept cs tr i = inl cs' -> Forall (fun c => reach n (fst c)) cs'.
Proof.
  induction tr as [|e tr IH]; intros cs i cs' H Ha; cbn [caccept] in Ha; [inversion Ha; subst; exact H|].
  destruct (flat_map (fun c => cstep1 c e) cs) as [|c1 cs1] eqn:Ef; [discriminate|].
  eapply IH; [|exact Ha].
  rewrite <- Ef. apply Forall_forall. intros c' Hin. apply in_flat_map in Hin. destruct Hin as [c [Hc Hin]].
  rewrite Forall_forall in H. eapply cstep1_reach; [apply H; exact Hc | exact Hin].
Qed.

(* an accepted trace: every candidate explanation is a state the LTS reaches from n idle callers; hence the connection
   invariant holds there, and with it everything ClientConnP derives from it *)
Theorem accepted_conn_trace : forall n tr cs, caccept_trace n tr = inl cs ->
  cs <> [] /\ Forall (fun c => reach n (fst c) /\ cinv (fst c)) cs.
Proof.
  intros n tr cs H. unfold caccept_trace in H.
  assert (H0 : Forall (fun c : cand => reach n (fst c)) [(cinit n, [])]).
  { constructor; [exists []; reflexivity | constructor]. }
  pose proof (caccept_reach n tr _ _ _ H0 H) as Hr. split.
  - clear Hr H0. assert (Hne : [(cinit n, @nil nat)] <> []) by discriminate.
    revert H Hne. generalize 0. generalize [(cinit n, @nil nat)] as c0.
    induction tr as [|e tr IH]; intros c0 i Ha Hne; cbn [caccept] in Ha.
    + inversion Ha; subst. exact Hne.
    + destruct (flat_map (fun c => cstep1 c e) c0) as [|c1 cs1] eqn:Ef; [discriminate|]. eapply IH; [exact Ha | discriminate].
  - eapply Forall_impl; [|exact Hr]. cbn beta. intros c [t Ht]. split; [exists t; exact Ht|]. eapply cinv_run; exact Ht.
Qed.
