From Coq Require Import List Arith Bool NArith Lia.
From Sftp Require Import Srv.Reply.
Import ListNotations.

Module ReplyP.
Import Reply.

(* data as given: whatever the handler read is sent, all of it, unless it reported a failure; the end-of-file status is sent
   only when nothing was read *)
Theorem read_data_as_given : forall n e, (e = HNil \/ (e = HEOF /\ 0 < n)) <-> read_reply n e = RData n.
Proof.
  intros n e. split.
  - intros [->|[-> Hn]]; cbn [read_reply]; [reflexivity|]. destruct n; [lia | reflexivity].
  - destruct e as [| |c]; cbn [read_reply]; intros H; [left; reflexivity | | discriminate].
    destruct n; cbn in H; [discriminate | right; split; [reflexivity | lia]].
Qed.

Theorem read_eof_only_when_empty : forall n e, read_reply n e = RStatus 1 -> (e = HEOF /\ n = 0) \/ e = HErr 1%N.
Proof.
  intros n e H. destruct e as [| |c]; cbn [read_reply] in H; [discriminate | | right; inversion H; reflexivity].
  destruct n; cbn in H; [left; split; reflexivity | discriminate].
Qed.

(* errors as given: a failure of the handler reaches the client with its own status code, whatever was read before it *)
Theorem errors_as_given : forall n c,
  read_reply n (HErr c) = RStatus c /\ list_reply n (HErr c) = RStatus c /\ stat_reply n (HErr c) = RStatus c /\
  readlink_reply n (HErr c) = RStatus c /\ write_reply (HErr c) = RStatus c.
Proof. intros n c. repeat split. Qed.

(* listings as given: a batch is sent whole; the end-of-listing status only for an empty batch that came with io.EOF; an empty
   batch without io.EOF is an empty NAME packet, not the end *)
Theorem list_as_given : forall n e, (e = HNil \/ (e = HEOF /\ 0 < n)) <-> list_reply n e = RNames n.
Proof.
  intros n e. split.
  - intros [->|[-> Hn]]; cbn [list_reply]; [reflexivity|]. destruct n; [lia | reflexivity].
  - destruct e as [| |c]; cbn [list_reply]; intros H; [left; reflexivity | | discriminate].
    destruct n; cbn in H; [discriminate | right; split; [reflexivity | lia]].
Qed.

Theorem empty_batch_is_not_the_end : list_reply 0 HNil = RNames 0.
Proof. reflexivity. Qed.

(* attributes as given: one entry from the lister is an ATTRS reply whether or not io.EOF came with it *)
Theorem stat_as_given : forall n e, 0 < n -> (e = HNil \/ e = HEOF) -> stat_reply n e = RAttrs /\ readlink_reply n e = RName1.
Proof. intros n e Hn [->| ->]; destruct n; try lia; split; reflexivity. Qed.

Theorem stat_nothing_is_noent : forall e, (e = HNil \/ e = HEOF) -> stat_reply 0 e = RStatus 2 /\ readlink_reply 0 e = RStatus 2.
Proof. intros e [->| ->]; split; reflexivity. Qed.

End ReplyP.
