(* C06: codec B decodes its own encoding (and therefore codec A's, by encB_eq_encA) back to the packet. *)
From Coq Require Import List NArith Bool Lia ZArith ZifyN ZifyNat ZifyBool Strings.Byte.
From Sftp Require Import Base.GoSem Wire.Prim Wire.Packets Mode.FileMode Proofs.PrimP Proofs.WireRtP Proofs.WirePktP.
Import ListNotations.
Open Scope N_scope.

Definition is_reply5 (p : packet) : bool :=
  match p with PStatus _ _ _ _ | PHandle _ _ | PData _ _ | PName _ _ | PAttrs _ _ => true | _ => false end.

Lemma render_cons_u32 id fs : render (FU32 id :: fs) = u32_enc id ++ render fs.
Proof. reflexivity. Qed.

Ltac hdr :=
  rewrite u8_dec_safe_enc; cbn [bind];
  rewrite render_cons_u32, u32_dec_safe_enc; cbn [bind].

Ltac solve_wf2 := cbn [forallb wf_fld]; repeat (first [assumption | reflexivity | (apply andb_true_iff; split)]).

Ltac rtb fs :=
  match goal with |- context [parse ?ks (render fs)] =>
    change (parse ks (render fs)) with (parse (map (kind_of guardB) fs) (render fs));
    rewrite (parse_render_nil guardB fs) by solve_wf2; cbn [bind] end.

Ltac fixid := match goal with Hid : is_u32 ?i = true |- context [?i mod p32] => rewrite (mod_small32 i Hid) end.

Theorem decB_response_encB : forall p fs,
  fieldsB p = Some fs -> forallb wf_fld fs = true -> is_reply5 p = true ->
  decB_response (u8_enc (ptype p) ++ render fs) = Ok p.
Proof.
  intros p fs Hf Hwf Hr. destruct p; try discriminate Hr; cbn [fieldsB] in Hf; inversion Hf; subst fs; clear Hf;
    cbn [forallb wf_fld] in Hwf;
    repeat match goal with H : _ && _ = true |- _ => apply andb_true_iff in H; destruct H end;
    unfold decB_response; cbn [ptype]; hdr;
    repeat match goal with
    | |- context [?a mod 256 =? ?b] => let v := eval vm_compute in (a mod 256 =? b) in change (a mod 256 =? b) with v
    end; cbn [orb andb].
  - rtb ([FU32 code; FStr msg; FStr lang]). fixid. reflexivity.
  - rtb ([FStr h]). fixid. reflexivity.
  - rtb ([FStr data]). fixid. reflexivity.
  - rtb ([FNames entries]). fixid. reflexivity.
  - rtb ([FAttrs a]). fixid. reflexivity.
Qed.

(* what codec B's request decoder holds after decoding: attribute blocks structured, every extended request generic *)
Definition normB (p : packet) : packet :=
  match p with
  | PExtStatvfs id q => PExtOther id n_statvfs (str_enc q)
  | PExtPosixRename id o n => PExtOther id n_posix_rename (str_enc o ++ str_enc n)
  | PExtHardlink id o n => PExtOther id n_hardlink (str_enc o ++ str_enc n)
  | PExtFsync id h => PExtOther id n_fsync (str_enc h)
  | p => p
  end.

Definition not_init (p : packet) : bool := match p with PInit _ _ => false | _ => true end.

Lemma abody_attrs_some fl ab a : abody_attrs fl ab = Some a -> ab = AStat a /\ a_flags a = fl.
Proof.
  destruct ab as [x|x]; cbn [abody_attrs]; try discriminate.
  destruct (a_flags x =? fl) eqn:E; [|discriminate].
  intros H. inversion H; subst. apply N.eqb_eq in E. split; [reflexivity | exact E].
Qed.

Ltac known_ty :=
  repeat match goal with
  | |- context [existsb (N.eqb (?a mod 256)) ?l] => let v := eval vm_compute in (existsb (N.eqb (a mod 256)) l) in change (existsb (N.eqb (a mod 256)) l) with v
  | |- context [?a mod 256 =? ?b] => let v := eval vm_compute in (a mod 256 =? b) in change (a mod 256 =? b) with v
  end; cbn [orb andb negb].

Theorem decB_request_encB : forall p fs,
  fieldsB p = Some fs -> forallb wf_fld fs = true -> is_request p = true -> not_init p = true ->
  decB_request (u8_enc (ptype p) ++ render fs) = Ok (normB p).
Proof.
  intros p fs Hf Hwf Hr Hi. destruct p; try discriminate Hr; try discriminate Hi; cbn [fieldsB] in Hf;
    try (destruct (abody_attrs flags ab) as [a|] eqn:Eab; [apply abody_attrs_some in Eab; destruct Eab as [-> <-] | discriminate]);
    inversion Hf; subst fs; clear Hf; cbn [forallb wf_fld] in Hwf;
    repeat match goal with H : _ && _ = true |- _ => apply andb_true_iff in H; destruct H end;
    unfold decB_request; cbn [ptype normB]; rewrite u8_dec_safe_enc; cbn [bind]; known_ty;
    rewrite render_cons_u32, u32_dec_safe_enc; cbn [bind].
  - rtb ([FStr path; FU32 pflags; FAttrs a]). fixid. reflexivity.
  - rtb ([FStr h]). fixid. reflexivity.
  - rtb ([FStr h; FU64 off; FU32 len]). fixid. reflexivity.
  - rtb ([FStr h; FU64 off; FStr data]). fixid. reflexivity.
  - rtb ([FStr p]). fixid. reflexivity.
  - rtb ([FStr h]). fixid. reflexivity.
  - rtb ([FStr p; FAttrs a]). fixid. reflexivity.
  - rtb ([FStr h; FAttrs a]). fixid. reflexivity.
  - rtb ([FStr p]). fixid. reflexivity.
  - rtb ([FStr h]). fixid. reflexivity.
  - rtb ([FStr p]). fixid. reflexivity.
  - rtb ([FStr p; FAttrs a]). fixid. reflexivity.
  - rtb ([FStr p]). fixid. reflexivity.
  - rtb ([FStr p]). fixid. reflexivity.
  - rtb ([FStr p]). fixid. reflexivity.
  - rtb ([FStr o; FStr n]). fixid. reflexivity.
  - rtb ([FStr p]). fixid. reflexivity.
  - rtb ([FStr target; FStr link]). fixid. reflexivity.
  - change (render [FStr n_statvfs; FStr p]) with (render [FStr n_statvfs; FRaw (str_enc p)]).
    rtb ([FStr n_statvfs; FRaw (str_enc p)]). fixid. reflexivity.
  - replace (render [FStr n_posix_rename; FStr o; FStr n]) with (render [FStr n_posix_rename; FRaw (str_enc o ++ str_enc n)])
      by (cbn [render flat_map render_fld]; rewrite ?app_nil_r, <- ?app_assoc; reflexivity).
    rtb ([FStr n_posix_rename; FRaw (str_enc o ++ str_enc n)]). fixid. reflexivity.
  - replace (render [FStr n_hardlink; FStr o; FStr n]) with (render [FStr n_hardlink; FRaw (str_enc o ++ str_enc n)])
      by (cbn [render flat_map render_fld]; rewrite ?app_nil_r, <- ?app_assoc; reflexivity).
    rtb ([FStr n_hardlink; FRaw (str_enc o ++ str_enc n)]). fixid. reflexivity.
  - change (render [FStr n_fsync; FStr h]) with (render [FStr n_fsync; FRaw (str_enc h)]).
    rtb ([FStr n_fsync; FRaw (str_enc h)]). fixid. reflexivity.
  - rtb ([FStr name; FRaw payload]). fixid. reflexivity.
Qed.

(* INIT and VERSION: codec B's own decoders give back the packet codec A (and codec B) encoded, every extension pair in place *)
Theorem decB_initversion_enc : forall p, wf_packet p = true ->
  match p with PInit _ _ | PVersion _ _ => True | _ => False end ->
  decB_initversion (u8_enc (ptype p) ++ render (fieldsA p)) = Ok p.
Proof.
  intros p Hwf Hk. destruct p; try destruct Hk; split_wf Hwf; unfold decB_initversion; cbn [ptype fieldsA];
    rewrite u8_dec_safe_enc; cbn [bind]; known_ty.
  - rt ([FU32 ver; FPairs exts]). reflexivity.
  - rt ([FU32 ver; FPairs exts]). reflexivity.
Qed.
