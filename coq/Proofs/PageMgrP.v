(* C18: with the allocator on, for every interleaving of receiving, handling and sending of any number of requests, every
   worker sees exactly the request bytes that were received for its request, and every response is sent with exactly the
   payload its worker produced - which is what happens without the allocator, where every buffer is private. *)
From Coq Require Import List Bool Arith Lia Permutation Strings.Byte.
From Sftp Require Import Base.GoSem Sched.Alloc Sched.PageMgr Proofs.AllocP.
Import ListNotations.

Lemma alookup_in {A} : forall k (l : list (nat * A)) v, alookup k l = Some v -> In (k, v) l.
Proof.
  intros k. induction l as [|[k' v'] t IH]; intros v H; [discriminate|]. cbn [alookup] in H.
  destruct (Nat.eqb_spec k' k) as [->|Hn]; [inversion H; left; reflexivity | right; apply IH; exact H].
Qed.

Lemma akey_iff {A} : forall k (l : list (nat * A)), akey k l = true <-> In k (map fst l).
Proof.
  intros k l. unfold akey. rewrite existsb_exists. split.
  - intros [e [He Hk]]. apply Nat.eqb_eq in Hk. subst k. apply in_map. exact He.
  - intros H. apply in_map_iff in H. destruct H as [e [Hk He]]. exists e. split; [exact He | apply Nat.eqb_eq; exact Hk].
Qed.

Lemma pages_sub_used : forall oid u p, In p (pages_of oid u) -> In p (flat_map snd u).
Proof.
  intros oid. induction u as [|[o ps] t IH]; intros p H; cbn [pages_of flat_map snd] in *; [destruct H|].
  destruct (o =? oid); [apply in_app_or in H; apply in_or_app; destruct H as [H|H]; [left; exact H | right; apply IH; exact H]
                       | apply in_or_app; right; apply IH; exact H].
Qed.

Lemma add_used_in : forall oid p u, In p (pages_of oid (add_used oid p u)).
Proof.
  intros oid p. induction u as [|[o ps] t IH]; cbn [add_used pages_of].
  - rewrite Nat.eqb_refl. left. reflexivity.
  - destruct (o =? oid) eqn:E; cbn [pages_of]; rewrite E; [apply in_or_app; left; apply in_or_app; right; left; reflexivity | exact IH].
Qed.

Lemma get_page_in : forall a oid, In (snd (get_page a oid)) (pages_of oid (used (fst (get_page a oid)))).
Proof.
  intros a oid. unfold get_page. destruct (rev (available a)) as [|p rr]; cbn [fst snd used]; apply add_used_in.
Qed.

Definition pinv (s : pst) : Prop :=
  ainv (pa s) /\
  (forall oid p b, In (oid, (p, b)) (preqs s) -> ~ In oid (psent s) ->
     In p (pages_of oid (used (pa s))) /\ pmem s p = b) /\
  (forall oid q d seen b, In (oid, (Some q, d, seen, b)) (pworks s) -> ~ In oid (psent s) ->
     In q (pages_of oid (used (pa s))) /\ pmem s q = d) /\
  (forall oid qopt d seen b, In (oid, (qopt, d, seen, b)) (pworks s) -> seen = b) /\
  (forall oid, In oid (psent s) -> In oid (map fst (pworks s))) /\
  (forall oid b seen d out, In (oid, (b, seen, d, out)) (pouts s) -> seen = b /\ out = d).

Lemma pinv_init : pinv p0.
Proof.
  unfold pinv, p0. cbn. split; [split; constructor|]. repeat split; intros; contradiction.
Qed.

(* a fresh page handed out for oid0 does not disturb what is lent and stored for anybody *)
Lemma get_page_keeps : forall a oid0 (m : nat -> bytes) x oid p b,
  ainv a -> In p (pages_of oid (used a)) -> m p = b ->
  In p (pages_of oid (used (fst (get_page a oid0)))) /\ upd m (snd (get_page a oid0)) x p = b.
Proof.
  intros a oid0 m x oid p b Ha Hin Hm. split.
  - apply (pages_stay_until_release a oid (AGet oid0) p Hin); discriminate.
  - unfold upd. destruct (Nat.eqb_spec p (snd (get_page a oid0))) as [E|_]; [|exact Hm].
    exfalso. apply (get_page_not_in_use a oid0 Ha). rewrite <- E. unfold all_used. eapply pages_sub_used. exact Hin.
Qed.

Lemma pinv_step : forall s l s', pinv s -> pstep s l = Some s' -> pinv s'.
Proof.
  intros s l s' [Ha [Hr [Hw [Hs [Hsent Ho]]]]] Hst. destruct l as [oid b|oid d paged|oid]; cbn [pstep] in Hst.
  - (* Recv *)
    destruct (akey oid (preqs s)) eqn:K; [discriminate|].
    destruct (get_page (pa s) oid) as [a' p] eqn:G. inversion Hst; subst s'. clear Hst.
    assert (Ea : a' = fst (get_page (pa s) oid)) by (rewrite G; reflexivity).
    assert (Ep : p = snd (get_page (pa s) oid)) by (rewrite G; reflexivity).
    unfold pinv. cbn [pa pmem preqs pworks psent pouts].
    split; [rewrite Ea; apply (ainv_step (pa s) (AGet oid)); exact Ha|].
    split. { intros o p' b' [E|Hin] Hns.
             - inversion E; subst o p' b'. split; [rewrite Ea, Ep; apply get_page_in | unfold upd; rewrite Nat.eqb_refl; reflexivity].
             - destruct (Hr o p' b' Hin Hns) as [H1 H2]. rewrite Ea, Ep. apply get_page_keeps; assumption. }
    split. { intros o q d seen b' Hin Hns. destruct (Hw o q d seen b' Hin Hns) as [H1 H2]. rewrite Ea, Ep. apply get_page_keeps; assumption. }
    split; [exact Hs|]. split; [exact Hsent | exact Ho].
  - (* Work *)
    destruct (alookup oid (preqs s)) as [[p b]|] eqn:L; [|discriminate]. apply alookup_in in L.
    destruct (akey oid (pworks s)) eqn:K; [discriminate|].
    assert (Hns : ~ In oid (psent s)).
    { intros Hin. apply Hsent in Hin. apply akey_iff in Hin. congruence. }
    destruct (Hr oid p b L Hns) as [Hp Hseen].
    destruct paged.
    + destruct (get_page (pa s) oid) as [a' q] eqn:G. inversion Hst; subst s'. clear Hst.
      assert (Ea : a' = fst (get_page (pa s) oid)) by (rewrite G; reflexivity).
      assert (Eq : q = snd (get_page (pa s) oid)) by (rewrite G; reflexivity).
      unfold pinv. cbn [pa pmem preqs pworks psent pouts].
      split; [rewrite Ea; apply (ainv_step (pa s) (AGet oid)); exact Ha|].
      split. { intros o p' b' Hin Hn. destruct (Hr o p' b' Hin Hn) as [H1 H2]. rewrite Ea, Eq. apply get_page_keeps; assumption. }
      split. { intros o q' d' seen' b' [E|Hin] Hn.
               - inversion E; subst o q' d' seen' b'. split; [rewrite Ea, Eq; apply get_page_in | unfold upd; rewrite Nat.eqb_refl; reflexivity].
               - destruct (Hw o q' d' seen' b' Hin Hn) as [H1 H2]. rewrite Ea, Eq. apply get_page_keeps; assumption. }
      split. { intros o qo d' seen' b' [E|Hin]; [inversion E; subst; first [reflexivity | exact Hseen] | eapply Hs; exact Hin]. }
      split. { intros o Hin. cbn [map fst]. right. apply Hsent. exact Hin. }
      exact Ho.
    + inversion Hst; subst s'. clear Hst. unfold pinv. cbn [pa pmem preqs pworks psent pouts].
      split; [exact Ha|]. split; [exact Hr|].
      split. { intros o q' d' seen' b' [E|Hin] Hn; [inversion E | exact (Hw o q' d' seen' b' Hin Hn)]. }
      split. { intros o qo d' seen' b' [E|Hin]; [inversion E; subst; first [reflexivity | exact Hseen] | eapply Hs; exact Hin]. }
      split. { intros o Hin. cbn [map fst]. right. apply Hsent. exact Hin. }
      exact Ho.
  - (* Send *)
    destruct (alookup oid (pworks s)) as [[[[qopt d] seen] b]|] eqn:L; [|discriminate]. apply alookup_in in L.
    destruct (existsb (Nat.eqb oid) (psent s)) eqn:E; [discriminate|].
    assert (Hns : ~ In oid (psent s)).
    { intros Hin. assert (existsb (Nat.eqb oid) (psent s) = true) by (apply existsb_exists; exists oid; split; [exact Hin | apply Nat.eqb_refl]). congruence. }
    inversion Hst; subst s'. clear Hst. unfold pinv. cbn [pa pmem preqs pworks psent pouts].
    split; [apply (ainv_step (pa s) (ARelease oid)); exact Ha|].
    split. { intros o p' b' Hin Hn. assert (Hno : o <> oid) by (intros ->; apply Hn; left; reflexivity).
             destruct (Hr o p' b' Hin (fun H => Hn (or_intror H))) as [H1 H2]. split; [|exact H2].
             apply (pages_stay_until_release (pa s) o (ARelease oid) p' H1); [intros Heq; inversion Heq; congruence | discriminate]. }
    split. { intros o q' d' seen' b' Hin Hn. assert (Hno : o <> oid) by (intros ->; apply Hn; left; reflexivity).
             destruct (Hw o q' d' seen' b' Hin (fun H => Hn (or_intror H))) as [H1 H2]. split; [|exact H2].
             apply (pages_stay_until_release (pa s) o (ARelease oid) q' H1); [intros Heq; inversion Heq; congruence | discriminate]. }
    split; [exact Hs|].
    split. { intros o [<-|Hin]; [apply in_map_iff; eexists; split; [|exact L]; reflexivity | apply Hsent; exact Hin]. }
    intros o b' seen' d' out' [E'|Hin]; [|exact (Ho o b' seen' d' out' Hin)].
    inversion E'; subst. split; [eapply Hs; exact L|].
    destruct qopt as [q|]; [|reflexivity]. destruct (Hw _ _ _ _ _ L Hns) as [_ H2]. exact H2.
Qed.

Lemma pinv_run : forall tr s0 s, pinv s0 -> prun s0 tr = Some s -> pinv s.
Proof.
  induction tr as [|l tr IH]; intros s0 s H Hr; cbn [prun] in Hr; [inversion Hr; subst; exact H|].
  destruct (pstep s0 l) as [s1|] eqn:E; [|discriminate]. eapply IH; [eapply pinv_step; eassumption | exact Hr].
Qed.

(* the allocator is invisible: whatever else happens between a request's receive, handling and send - any number of other
   requests being received, handled and sent, pages being handed out and released - its worker sees the bytes that were
   received for it and its response goes out with the payload its worker produced *)
Theorem allocator_invisible : forall tr s oid b seen d out,
  prun p0 tr = Some s -> In (oid, (b, seen, d, out)) (pouts s) -> seen = b /\ out = d.
Proof.
  intros tr s oid b seen d out Hr Hin. destruct (pinv_run tr p0 s pinv_init Hr) as [_ [_ [_ [_ [_ Ho]]]]].
  exact (Ho oid b seen d out Hin).
Qed.

(* and while a response is still to be sent, its pages stay lent to it and keep their content *)
Theorem pages_hold_until_sent : forall tr s oid q d seen b,
  prun p0 tr = Some s -> In (oid, (Some q, d, seen, b)) (pworks s) -> ~ In oid (psent s) ->
  In q (pages_of oid (used (pa s))) /\ pmem s q = d.
Proof.
  intros tr s oid q d seen b Hr Hin Hn. destruct (pinv_run tr p0 s pinv_init Hr) as [_ [_ [Hw _]]]. exact (Hw oid q d seen b Hin Hn).
Qed.
