(* Round trips: decoding an encoding gives back the value (and the rest of the input). *)
From Coq Require Import List NArith Bool Lia ZArith ZifyN ZifyNat ZifyBool Strings.Byte.
From Sftp Require Import Base.GoSem Wire.Prim Wire.Packets Mode.FileMode Proofs.PrimP.
Import ListNotations.
Open Scope N_scope.
Ltac Zify.zify_post_hook ::= Z.div_mod_to_equations.

Lemma str_enc_length s : length (str_enc s) = (4 + length s)%nat.
Proof. unfold str_enc. rewrite app_length. reflexivity. Qed.

Lemma pair_enc_length p : length (pair_enc p) = (8 + length (fst p) + length (snd p))%nat.
Proof. unfold pair_enc. rewrite app_length, !str_enc_length. lia. Qed.

Lemma pairs_enc_length_ge l : (8 * length l <= length (pairs_enc l))%nat.
Proof.
  induction l as [|p l IH]; cbn [pairs_enc flat_map length]; [lia|].
  rewrite app_length, pair_enc_length. fold (pairs_enc l). lia.
Qed.

Lemma mod_small32 v : is_u32 v = true -> v mod p32 = v.
Proof. unfold is_u32. intros H. apply N.ltb_lt in H. apply N.mod_small. exact H. Qed.
Lemma mod_small64 v : is_u64 v = true -> v mod p64 = v.
Proof. unfold is_u64. intros H. apply N.ltb_lt in H. apply N.mod_small. exact H. Qed.

Lemma pairs_dec_enc : forall l fuel rest,
  forallb wf_pair l = true -> (length l <= fuel)%nat ->
  pairs_dec fuel (N.of_nat (length l)) (pairs_enc l ++ rest) = Ok (l, rest).
Proof.
  induction l as [|[t d] l IH]; intros fuel rest Hwf Hf.
  - destruct fuel; reflexivity.
  - cbn [forallb] in Hwf. apply andb_true_iff in Hwf. destruct Hwf as [Hp Hl].
    unfold wf_pair in Hp. cbn [fst snd] in Hp. apply andb_true_iff in Hp. destruct Hp as [Ht Hd].
    cbn [length] in *. destruct fuel as [|f]; [lia|].
    cbn [pairs_dec]. replace (N.of_nat (S (length l)) =? 0) with false by (symmetry; apply N.eqb_neq; lia).
    cbn [pairs_enc flat_map]. fold (pairs_enc l). unfold pair_enc. cbn [fst snd].
    rewrite <- !app_assoc. rewrite str_dec_safe_enc by exact Ht. cbn [bind].
    rewrite str_dec_safe_enc by exact Hd. cbn [bind].
    replace (N.of_nat (S (length l)) - 1) with (N.of_nat (length l)) by lia.
    rewrite IH by (try assumption; lia). reflexivity.
Qed.

Lemma wf_attrs_flags a : wf_attrs a = true -> is_u32 (a_flags a) = true.
Proof. unfold wf_attrs. intros H. repeat (apply andb_true_iff in H; destruct H as [H ?]). exact H. Qed.

Lemma filestat_dec_enc g a rest : wf_attrs a = true ->
  filestat_dec g (a_flags a) (filestat_enc (a_flags a) a ++ rest) = Ok (a, rest).
Proof.
  intros Hwf. unfold wf_attrs in Hwf.
  repeat (apply andb_true_iff in Hwf; destruct Hwf as [Hwf ?]).
  destruct a as [flags size uid gid perm atime mtime ext]. cbn [a_flags a_size a_uid a_gid a_perm a_atime a_mtime a_ext] in *.
  unfold filestat_dec, filestat_enc. cbn [a_flags a_size a_uid a_gid a_perm a_atime a_mtime a_ext].
  destruct (has flags fl_size) eqn:E1; destruct (has flags fl_uidgid) eqn:E2;
  destruct (has flags fl_perm) eqn:E3; destruct (has flags fl_acmod) eqn:E4;
  destruct (has flags fl_ext) eqn:E5;
  repeat match goal with
  | H : _ && _ = true |- _ => apply andb_true_iff in H; destruct H
  | H : (_ =? 0) = true |- _ => apply N.eqb_eq in H; subst
  end;
  cbn [app]; rewrite <- ?app_assoc;
  repeat first
  [ rewrite u64_dec_safe_enc; cbn [bind]; rewrite mod_small64 by assumption
  | rewrite u32_dec_safe_enc; cbn [bind]; rewrite mod_small32 by assumption
  | progress cbn [bind] ];
  try reflexivity;
  try (destruct ext; [reflexivity | discriminate]).
  all: match goal with H : forallb wf_pair ?ext = true |- _ =>
    pose proof (pairs_enc_length_ge ext) as Hlen;
    replace (g && (N.of_nat (length (pairs_enc ext ++ rest)) / 8 <? N.of_nat (length ext))) with false
      by (symmetry; apply andb_false_iff; right; apply N.ltb_ge; rewrite app_length; lia);
    rewrite pairs_dec_enc by (try assumption; rewrite app_length; lia); reflexivity end.
Qed.

Lemma attrs_dec_enc g a rest : wf_attrs a = true -> attrs_dec g (attrs_enc a ++ rest) = Ok (a, rest).
Proof.
  intros Hwf. unfold attrs_dec, attrs_enc. rewrite <- app_assoc, u32_dec_safe_enc. cbn [bind].
  rewrite mod_small32 by (apply wf_attrs_flags; exact Hwf). apply filestat_dec_enc. exact Hwf.
Qed.

Lemma name_enc_length_ge e : (12 <= length (name_enc e))%nat.
Proof.
  destruct e as [[n l] a]. unfold name_enc, attrs_enc. rewrite !app_length, !str_enc_length, u32_enc_length. lia.
Qed.

Lemma names_enc_length_ge l : (12 * length l <= length (names_enc l))%nat.
Proof.
  induction l as [|e l IH]; cbn [names_enc flat_map length]; [lia|].
  rewrite app_length. fold (names_enc l). pose proof (name_enc_length_ge e). lia.
Qed.

Lemma names_dec_enc g : forall l fuel rest,
  forallb wf_nentry l = true -> (length l <= fuel)%nat ->
  names_dec fuel g (N.of_nat (length l)) (names_enc l ++ rest) = Ok (l, rest).
Proof.
  induction l as [|[[n lg] a] l IH]; intros fuel rest Hwf Hf.
  - destruct fuel; reflexivity.
  - cbn [forallb] in Hwf. apply andb_true_iff in Hwf. destruct Hwf as [Hp Hl].
    unfold wf_nentry in Hp. apply andb_true_iff in Hp. destruct Hp as [Hp Ha].
    apply andb_true_iff in Hp. destruct Hp as [Hn Hlg].
    cbn [length] in *. destruct fuel as [|f]; [lia|].
    cbn [names_dec]. replace (N.of_nat (S (length l)) =? 0) with false by (symmetry; apply N.eqb_neq; lia).
    cbn [names_enc flat_map]. fold (names_enc l). unfold name_enc.
    rewrite <- !app_assoc. rewrite str_dec_safe_enc by exact Hn. cbn [bind].
    rewrite str_dec_safe_enc by exact Hlg. cbn [bind].
    rewrite attrs_dec_enc by exact Ha. cbn [bind].
    replace (N.of_nat (S (length l)) - 1) with (N.of_nat (length l)) by lia.
    rewrite IH by (try assumption; lia). reflexivity.
Qed.

Lemma pair_enc_nonempty p rest : pair_enc p ++ rest <> [].
Proof. unfold pair_enc, str_enc, u32_enc. cbn [app]. discriminate. Qed.

Lemma pairs_all_dec_enc : forall l fuel,
  forallb wf_pair l = true -> (length l <= fuel)%nat -> pairs_all_dec fuel (pairs_enc l) = Ok l.
Proof.
  induction l as [|[t d] l IH]; intros fuel Hwf Hf.
  - destruct fuel; reflexivity.
  - cbn [forallb] in Hwf. apply andb_true_iff in Hwf. destruct Hwf as [Hp Hl].
    unfold wf_pair in Hp. cbn [fst snd] in Hp. apply andb_true_iff in Hp. destruct Hp as [Ht Hd].
    cbn [length] in Hf. destruct fuel as [|f]; [lia|].
    cbn [pairs_enc flat_map]. fold (pairs_enc l).
    destruct (pair_enc (t, d) ++ pairs_enc l) eqn:E; [exfalso; exact (pair_enc_nonempty _ _ E)|].
    rewrite <- E. clear E. cbn [pairs_all_dec].
    unfold pair_enc. cbn [fst snd]. rewrite <- !app_assoc.
    destruct (str_enc t ++ str_enc d ++ pairs_enc l) eqn:E2.
    { exfalso. unfold str_enc, u32_enc in E2. cbn [app] in E2. discriminate. }
    rewrite <- E2. clear E2.
    rewrite str_dec_safe_enc by exact Ht. cbn [bind].
    rewrite str_dec_safe_enc by exact Hd. cbn [bind].
    rewrite IH by (try assumption; lia). reflexivity.
Qed.

(* ---------- generic fields ---------- *)
Lemma parse_fld_render g f rest :
  wf_fld f = true -> (greedy f = true -> rest = []) ->
  parse_fld (kind_of g f) (render_fld f ++ rest) = Ok (f, rest).
Proof.
  intros Hwf Hg. destruct f; cbn [kind_of parse_fld render_fld wf_fld greedy] in *.
  - rewrite u8_dec_safe_enc. cbn [bind]. unfold is_u8 in Hwf. apply N.ltb_lt in Hwf. rewrite N.mod_small by exact Hwf. reflexivity.
  - rewrite u32_dec_safe_enc. cbn [bind]. rewrite mod_small32 by exact Hwf. reflexivity.
  - rewrite u64_dec_safe_enc. cbn [bind]. rewrite mod_small64 by exact Hwf. reflexivity.
  - rewrite str_dec_safe_enc by exact Hwf. reflexivity.
  - rewrite (Hg eq_refl), app_nil_r. reflexivity.
  - rewrite attrs_dec_enc by exact Hwf. reflexivity.
  - rewrite (Hg eq_refl), app_nil_r.
    rewrite pairs_all_dec_enc; [reflexivity | exact Hwf | pose proof (pairs_enc_length_ge l); lia].
  - apply andb_true_iff in Hwf. destruct Hwf as [Hc Hl]. apply N.ltb_lt in Hc.
    rewrite <- app_assoc, u32_dec_safe_enc. cbn [bind]. rewrite (N.mod_small _ _ Hc).
    pose proof (names_enc_length_ge l) as Hlen.
    replace (g && (N.of_nat (length (names_enc l ++ rest)) / 12 <? N.of_nat (length l))) with false
      by (symmetry; apply andb_false_iff; right; apply N.ltb_ge; rewrite app_length; lia).
    rewrite names_dec_enc by (try assumption; rewrite app_length; lia). reflexivity.
Qed.

(* greedy fields (raw tail, pairs-until-end) may only come last *)
Fixpoint greedy_last (fs : list fld) : bool :=
  match fs with
  | [] => true
  | [f] => true
  | f :: rest => negb (greedy f) && greedy_last rest
  end.

Definition ends_greedy (fs : list fld) : bool :=
  match rev fs with f :: _ => greedy f | [] => false end.

Lemma parse_render g : forall fs rest,
  forallb wf_fld fs = true -> greedy_last fs = true -> (ends_greedy fs = true -> rest = []) ->
  parse (map (kind_of g) fs) (render fs ++ rest) = Ok (fs, rest).
Proof.
  induction fs as [|f fs IH]; intros rest Hwf Hgl Heg.
  - reflexivity.
  - cbn [forallb] in Hwf. apply andb_true_iff in Hwf. destruct Hwf as [Hf Hfs].
    cbn [map parse render flat_map]. fold (render fs). rewrite <- app_assoc.
    destruct fs as [|f2 fs'].
    + cbn [render flat_map app map parse]. 
      rewrite parse_fld_render; [reflexivity | exact Hf |].
      intros Hgr. apply Heg. unfold ends_greedy. cbn [rev app]. exact Hgr.
    + cbn [greedy_last] in Hgl. apply andb_true_iff in Hgl. destruct Hgl as [Hng Hgl].
      rewrite parse_fld_render; [| exact Hf | intros Hgr; rewrite Hgr in Hng; discriminate].
      cbn [bind]. rewrite IH; [reflexivity | exact Hfs | exact Hgl |].
      intros He. apply Heg. unfold ends_greedy in *. cbn [rev] in *.
      destruct (rev fs' ++ [f2]) eqn:E; [destruct (rev fs'); discriminate|].
      cbn [app]. exact He.
Qed.
