(* C01/C13: the order in which the server applies the chunk writes of one concurrent transfer does not matter. The model
   of writeAtConcurrent / ReadFromWithConcurrency (Xfer/Transfer.v writeAll) applies the dispatched chunks in chunk order;
   here: applying the same chunk writes in ANY order - with any subset of them rejected - leaves the same file. *)
From Coq Require Import List NArith ZArith Bool Arith Lia Permutation Strings.Byte.
From Sftp Require Import Base.GoSem Xfer.Transfer Proofs.TransferP Proofs.TransferE2EP Proofs.TransferFailP Proofs.TransferWFailP.
Import ListNotations.

Definition get (l : bytes) (i : nat) : byte := nth i l x00.

Lemma list_ext_get : forall a b : bytes, length a = length b -> (forall i, i < length a -> get a i = get b i) -> a = b.
Proof. intros a b Hl Hg. apply (nth_ext a b x00 x00 Hl). exact Hg. Qed.

Lemma get_beyond : forall l i, length l <= i -> get l i = x00.
Proof. intros l i H. unfold get. apply nth_overflow. exact H. Qed.

Lemma get_zeros : forall n i, get (zeros n) i = x00.
Proof. intros n i. unfold get, zeros. destruct (le_lt_dec n i); [apply nth_overflow; rewrite repeat_length; lia | apply nth_repeat]. Qed.

Lemma nth_skipn_my {A} : forall n (l : list A) i d, nth i (skipn n l) d = nth (n + i) l d.
Proof.
  induction n as [|n IH]; intros l i d; [reflexivity|]. destruct l as [|x l]; cbn [skipn Nat.add nth]; [destruct i; reflexivity | apply IH].
Qed.

Lemma nth_firstn_my {A} : forall n (l : list A) i d, i < n -> nth i (firstn n l) d = nth i l d.
Proof.
  induction n as [|n IH]; intros l i d H; [lia|]. destruct l as [|x l]; cbn [firstn]; [reflexivity|].
  destruct i as [|i]; cbn [nth]; [reflexivity | apply IH; lia].
Qed.

(* what a write does, byte by byte: the written range comes from the data, everything else from the old file, and
   positions beyond the old end read as zero *)
Lemma splice_get : forall f o d i, d <> [] ->
  get (splice f o d) i = if (o <=? i) && (i <? o + length d) then get d (i - o) else get f i.
Proof.
  intros f o d i Hd. destruct d as [|x d']; [congruence|]. cbn [splice]. set (d := x :: d') in *.
  set (f' := f ++ zeros (o - length f)).
  assert (Hf' : o <= length f') by (unfold f', zeros; rewrite app_length, repeat_length; lia).
  assert (HA : length (firstn o f') = o) by (rewrite firstn_length; lia).
  assert (Gf' : forall j, get f' j = get f j).
  { intros j. unfold f', get. destruct (le_lt_dec (length f) j) as [H|H].
    - rewrite app_nth2 by lia. rewrite (nth_overflow f) by lia. apply get_zeros.
    - rewrite app_nth1 by lia. reflexivity. }
  unfold get at 1. destruct (le_lt_dec o i) as [Hoi|Hoi].
  - rewrite app_nth2 by lia. rewrite HA. destruct (le_lt_dec (o + length d) i) as [Hi|Hi].
    + replace ((o <=? i) && (i <? o + length d)) with false
        by (symmetry; apply andb_false_iff; right; apply Nat.ltb_ge; lia).
      rewrite app_nth2 by lia. change (nth (i - o - length d) (skipn (o + length d) f') x00) with (get (skipn (o + length d) f') (i - o - length d)).
      unfold get. rewrite nth_skipn_my. replace (o + length d + (i - o - length d)) with i by lia. apply Gf'.
    + replace ((o <=? i) && (i <? o + length d)) with true
        by (symmetry; apply andb_true_iff; split; [apply Nat.leb_le | apply Nat.ltb_lt]; lia).
      rewrite app_nth1 by lia. reflexivity.
  - replace ((o <=? i) && (i <? o + length d)) with false
      by (symmetry; apply andb_false_iff; left; apply Nat.leb_gt; lia).
    rewrite app_nth1 by lia. change (nth i (firstn o f') x00) with (get (firstn o f') i).
    unfold get. rewrite nth_firstn_my by lia. apply Gf'.
Qed.

(* two writes to disjoint ranges commute *)
Lemma splice_commute : forall f o1 d1 o2 d2, d1 <> [] -> d2 <> [] ->
  o1 + length d1 <= o2 \/ o2 + length d2 <= o1 ->
  splice (splice f o1 d1) o2 d2 = splice (splice f o2 d2) o1 d1.
Proof.
  intros f o1 d1 o2 d2 H1 H2 Hdis. apply list_ext_get.
  - rewrite !splice_length_ne by assumption. lia.
  - intros i _. rewrite !splice_get by assumption.
    destruct (Nat.leb_spec o2 i), (Nat.ltb_spec i (o2 + length d2)), (Nat.leb_spec o1 i), (Nat.ltb_spec i (o1 + length d1));
      cbn [andb]; try reflexivity; lia.
Qed.

(* ---------- a set of chunk writes applied in any order ---------- *)
Definition wop := (nat * bytes)%type.

Definition wstep (wf : nat -> option N) (f : bytes) (w : wop) : bytes :=
  match wf (fst w) with Some _ => f | None => splice f (fst w) (snd w) end.

Definition disjoint (a b : wop) : Prop :=
  fst a + length (snd a) <= fst b \/ fst b + length (snd b) <= fst a.

Definition compatible (l : list wop) : Prop :=
  Forall (fun w => snd w <> []) l /\ forall a b, In a l -> In b l -> a = b \/ disjoint a b.

Lemma wstep_commute : forall wf f a b, snd a <> [] -> snd b <> [] -> a = b \/ disjoint a b ->
  wstep wf (wstep wf f a) b = wstep wf (wstep wf f b) a.
Proof.
  intros wf f a b Ha Hb [->|Hd]; [reflexivity|]. unfold wstep, wop, bytes in *.
  generalize (wf (fst a)) (wf (fst b)). intros ra rb. destruct ra, rb; try reflexivity. apply splice_commute; assumption.
Qed.

Lemma compatible_tail : forall x l, compatible (x :: l) -> compatible l.
Proof. intros x l [H1 H2]. split; [inversion H1; assumption | intros a b Ha Hb; apply H2; right; assumption]. Qed.

Lemma compatible_perm : forall l l', Permutation l l' -> compatible l -> compatible l'.
Proof.
  intros l l' Hp [H1 H2]. split; [eapply Permutation_Forall; eassumption|].
  intros a b Ha Hb. apply H2; eapply Permutation_in; try (apply Permutation_sym; exact Hp); assumption.
Qed.

Theorem writes_order_irrelevant : forall wf l l', Permutation l l' -> compatible l ->
  forall f, fold_left (wstep wf) l f = fold_left (wstep wf) l' f.
Proof.
  intros wf l l' Hp. induction Hp as [|x l l' Hp IH|x y l|l l' l'' Hp1 IH1 Hp2 IH2]; intros Hc f.
  - reflexivity.
  - cbn [fold_left]. apply IH. eapply compatible_tail; exact Hc.
  - cbn [fold_left]. f_equal. destruct Hc as [H1 H2]. inversion H1 as [|? ? Hy H1']; subst. inversion H1' as [|? ? Hx _]; subst.
    apply wstep_commute; [exact Hy | exact Hx | apply H2; [left; reflexivity | right; left; reflexivity]].
  - rewrite IH1 by exact Hc. apply IH2. eapply compatible_perm; eassumption.
Qed.

(* ---------- the chunk writes of one transfer ---------- *)
Fixpoint ops_of (cs : list (nat * nat)) (b : bytes) (boff : nat) : list wop :=
  match cs with [] => [] | (o, l) :: rest => (o, firstn l (skipn boff b)) :: ops_of rest b (boff + l) end.

Lemma writeAll_is_fold : forall cs s b boff errs s' errs',
  writeAll cs s b boff errs = (s', errs') ->
  file s' = fold_left (wstep (wfail s)) (ops_of cs b boff) (file s) /\ wfail s' = wfail s.
Proof.
  induction cs as [|[o l] cs IH]; intros s b boff errs s' errs' H; cbn [writeAll ops_of fold_left] in *.
  - inversion H; subst. split; reflexivity.
  - unfold srv_write in H. unfold wstep at 2. cbn [fst snd]. destruct (wfail s o) as [c|] eqn:E.
    + apply IH in H. exact H.
    + apply IH in H. cbn [file wfail] in H. exact H.
Qed.

Lemma ops_of_chunks_compatible : forall fuel off n p b boff, 1 <= p -> n <= fuel -> n <= length b - boff ->
  compatible (ops_of (chunks fuel off n p) b boff) /\
  Forall (fun w => off <= fst w /\ fst w + length (snd w) <= off + n) (ops_of (chunks fuel off n p) b boff).
Proof.
  induction fuel as [|f IH]; intros off n p b boff Hp Hf Hb.
  - assert (n = 0) by lia. subst. cbn. split; [split; [constructor | intros a b0 []] | constructor].
  - destruct n as [|n']; [cbn; split; [split; [constructor | intros a b0 []] | constructor]|].
    cbn [chunks ops_of]. set (l := Nat.min (S n') p). assert (Hl : 1 <= l <= S n') by (unfold l; lia).
    destruct (IH (off + l) (S n' - l) p b (boff + l) Hp ltac:(lia) ltac:(lia)) as [[Hne Hdis] Hrange].
    assert (Hd1 : length (firstn l (skipn boff b)) = l) by (rewrite firstn_length, skipn_length; lia).
    clearbody l. split; [split|].
    + constructor; [cbn [snd]; intros E; rewrite E in Hd1; cbn [length] in Hd1; lia | exact Hne].
    + intros a b0 [<-|Ha] [<-|Hb0].
      * left; reflexivity.
      * right. left. cbn [fst snd]. rewrite Hd1. rewrite Forall_forall in Hrange. destruct (Hrange b0 Hb0) as [H _]. exact H.
      * right. right. cbn [fst snd]. rewrite Hd1. rewrite Forall_forall in Hrange. destruct (Hrange a Ha) as [H _]. exact H.
      * apply Hdis; assumption.
    + unfold wop, bytes in *. constructor; [cbn [fst snd]; rewrite Hd1; lia|]. eapply Forall_impl; [|exact Hrange]. cbn beta. intros w [H1 H2]. lia.
Qed.

(* whatever subset of the chunks the server rejects and in whatever order it applies the others: the file ends up as the
   in-order model (writeAll) says *)
Theorem concurrent_writes_any_order : forall fuel s off n p b boff errs s' errs' order,
  1 <= p -> n <= fuel -> n <= length b - boff ->
  writeAll (chunks fuel off n p) s b boff errs = (s', errs') ->
  Permutation order (ops_of (chunks fuel off n p) b boff) ->
  fold_left (wstep (wfail s)) order (file s) = file s'.
Proof.
  intros fuel s off n p b boff errs s' errs' order Hp Hf Hb H Hperm.
  destruct (writeAll_is_fold _ _ _ _ _ _ _ H) as [Hfile _]. rewrite Hfile.
  destruct (ops_of_chunks_compatible fuel off n p b boff Hp Hf Hb) as [Hc _].
  symmetry. apply writes_order_irrelevant; [apply Permutation_sym; exact Hperm | exact Hc].
Qed.
