From Coq Require Import List Bool Arith Lia Permutation.
From Sftp Require Import Sched.Alloc.
Import ListNotations.

Definition ainv (a : alloc) : Prop := NoDup (all_pages a) /\ Forall (fun p => p < fresh a) (all_pages a).

Lemma all_used_add : forall oid p u, Permutation (flat_map snd (add_used oid p u)) (p :: flat_map snd u).
Proof.
  intros oid p. induction u as [|[o ps] t IH]; cbn [add_used flat_map snd].
  - cbn. reflexivity.
  - destruct (o =? oid); cbn [flat_map snd].
    + rewrite <- app_assoc. cbn [app]. apply Permutation_sym. apply Permutation_middle.
    + eapply Permutation_trans; [apply Permutation_app_head; exact IH|]. apply Permutation_sym. apply Permutation_middle.
Qed.

Lemma pages_drop_perm : forall oid u, Permutation (flat_map snd u) (pages_of oid u ++ flat_map snd (drop_oid oid u)).
Proof.
  intros oid. induction u as [|[o ps] t IH]; cbn [flat_map snd pages_of drop_oid filter fst]; [reflexivity|].
  destruct (o =? oid); cbn [negb].
  - rewrite <- app_assoc. apply Permutation_app_head. exact IH.
  - cbn [flat_map snd]. eapply Permutation_trans; [apply Permutation_app_head; exact IH|].
    rewrite !app_assoc. apply Permutation_app_tail. apply Permutation_app_comm.
Qed.

Lemma ainv_step : forall a o, ainv a -> ainv (astep a o).
Proof.
  intros a o [Hnd Hlt]. destruct o as [oid|oid|]; cbn [astep].
  - (* GetPage *) unfold get_page. destruct (rev (available a)) as [|p rr] eqn:Er; cbn [fst].
    + assert (Ha : available a = []) by (destruct (available a) as [|x t]; [reflexivity | cbn [rev] in Er; destruct (rev t); discriminate]).
      unfold ainv, all_pages, all_used in *. cbn [available used fresh]. rewrite Ha in *. cbn [app] in *.
      split.
      * eapply Permutation_NoDup; [apply Permutation_sym; apply all_used_add|]. constructor; [|exact Hnd].
        intros Hin. rewrite Forall_forall in Hlt. specialize (Hlt _ Hin). lia.
      * eapply Permutation_Forall; [apply Permutation_sym; apply all_used_add|]. constructor; [lia|].
        eapply Forall_impl; [|exact Hlt]. cbn beta. intros; lia.
    + assert (Ha : available a = rev rr ++ [p]) by (rewrite <- (rev_involutive (available a)), Er; reflexivity).
      unfold ainv, all_pages, all_used in *. cbn [available used fresh]. rewrite Ha in *.
      assert (Hp : Permutation (rev rr ++ flat_map snd (add_used oid p (used a))) ((rev rr ++ [p]) ++ flat_map snd (used a))).
      { rewrite <- app_assoc. apply Permutation_app_head. cbn [app]. apply all_used_add. }
      split; [eapply Permutation_NoDup; [apply Permutation_sym; exact Hp | exact Hnd]
             | eapply Permutation_Forall; [apply Permutation_sym; exact Hp | exact Hlt]].
  - (* ReleasePages *) unfold ainv, all_pages, all_used, release_pages in *. cbn [available used fresh].
    assert (Hp : Permutation ((available a ++ pages_of oid (used a)) ++ flat_map snd (drop_oid oid (used a)))
                             (available a ++ flat_map snd (used a))).
    { rewrite <- app_assoc. apply Permutation_app_head. apply Permutation_sym. apply pages_drop_perm. }
    split; [eapply Permutation_NoDup; [apply Permutation_sym; exact Hp | exact Hnd]
           | eapply Permutation_Forall; [apply Permutation_sym; exact Hp | exact Hlt]].
  - (* Free *) unfold ainv, all_pages, all_used, free_all. cbn. split; constructor.
Qed.

(* for every sequence of GetPage / ReleasePages / Free: no page is ever in two places (lent twice, or lent and available) *)
Theorem no_double_lend : forall ops, ainv (fold_left astep ops alloc0).
Proof.
  intros ops. assert (H : ainv alloc0) by (split; constructor).
  revert H. generalize alloc0. induction ops as [|o ops IH]; intros a H; cbn [fold_left]; [exact H|].
  apply IH. apply ainv_step. exact H.
Qed.

(* the page GetPage hands out was not lent to anybody at that moment *)
Theorem get_page_not_in_use : forall a oid, ainv a -> ~ In (snd (get_page a oid)) (all_used a).
Proof.
  intros a oid [Hnd Hlt]. unfold get_page. destruct (rev (available a)) as [|p rr] eqn:Er; cbn [snd].
  - intros Hin. rewrite Forall_forall in Hlt. assert (Hi : In (fresh a) (all_pages a)) by (unfold all_pages; apply in_or_app; right; exact Hin).
    specialize (Hlt _ Hi). lia.
  - assert (Ha : available a = rev rr ++ [p]) by (rewrite <- (rev_involutive (available a)), Er; reflexivity).
    unfold all_pages in Hnd. rewrite Ha in Hnd. intros Hin.
    rewrite <- app_assoc in Hnd. apply NoDup_remove_2 in Hnd. apply Hnd. apply in_or_app. right. exact Hin.
Qed.

(* pages lent for an order id stay lent until that id is released: other ids' releases and gets do not touch them *)
Theorem pages_stay_until_release : forall a oid o p, In p (pages_of oid (used a)) -> o <> ARelease oid -> o <> AFree ->
  In p (pages_of oid (used (astep a o))).
Proof.
  intros a oid o p Hin Hne Hnf. destruct o as [o2|o2|]; cbn [astep]; [| |congruence].
  - unfold get_page. destruct (rev (available a)) as [|q rr]; cbn [fst used].
    all: induction (used a) as [|[o ps] t IH]; cbn [add_used pages_of] in *; [destruct Hin|];
      destruct (o =? o2) eqn:E1; cbn [pages_of]; destruct (o =? oid) eqn:E2; try assumption;
      try (apply in_app_or in Hin; destruct Hin as [Hin|Hin]; apply in_or_app; [left; try (apply in_or_app; left); exact Hin | right; try apply IH; exact Hin]);
      try (apply IH; exact Hin).
  - assert (Hd : o2 <> oid) by (intros ->; apply Hne; reflexivity).
    unfold release_pages. cbn [used]. induction (used a) as [|[o ps] t IH]; cbn [drop_oid filter fst pages_of] in *; [destruct Hin|].
    destruct (o =? o2) eqn:E1; destruct (o =? oid) eqn:E2; cbn [negb pages_of].
    + apply Nat.eqb_eq in E1, E2. subst. congruence.
    + apply IH. exact Hin.
    + rewrite E2. apply in_app_or in Hin. apply in_or_app. destruct Hin as [Hin|Hin]; [left; exact Hin | right; apply IH; exact Hin].
    + rewrite E2. apply IH. exact Hin.
Qed.

(* after every response has been sent (every id released) nothing is marked in use *)
Theorem released_means_unused : forall a oid, pages_of oid (used (release_pages a oid)) = [].
Proof.
  intros a oid. unfold release_pages. cbn [used]. induction (used a) as [|[o ps] t IH]; cbn [drop_oid filter fst pages_of]; [reflexivity|].
  destruct (o =? oid) eqn:E; cbn [negb]; [exact IH | cbn [pages_of]; rewrite E; exact IH].
Qed.
