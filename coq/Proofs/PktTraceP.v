(* What an accepted trace means: the replay only ever takes steps of the LTS (after re-ordering the responses channel,
   which no invariant of C02 mentions), so the order invariant holds in the state it ends in, and the E events of the
   trace are exactly the model's emissions: order ids 1, 2, 3, ... without gap or repetition. *)
From Coq Require Import List Bool Arith Lia.
From Sftp Require Import Sched.PktMgr Sched.PktTrace Proofs.PktMgrP.
Import ListNotations.

Lemma inv1_set_respq : forall s r, inv1 s -> inv1 (set_respq s r).
Proof. intros s r H. exact H. Qed.

Definition es_of (tr : list ev) : list nat :=
  flat_map (fun e => match e with EvE o => [o] | _ => [] end) tr.

(* replay invariant: the model's emissions = what the trace has shown so far ++ what is still owed *)
Definition rinv (shown : list nat) (c : st * list nat) : Prop :=
  inv1 (fst c) /\ emitted (fst c) = shown ++ snd c.

Lemma skipn_seq_pre : forall E a d, skipn E (seq a (E + d)) = seq (a + E) d.
Proof.
  induction E as [|E IH]; intros a d; cbn [Nat.add seq skipn]; [rewrite Nat.add_0_r; reflexivity|].
  rewrite IH. f_equal. lia.
Qed.

Lemma step_emitted_grows : forall s l s', inv1 s -> step s l = Some s' ->
  emitted s' = emitted s ++ skipn (length (emitted s)) (emitted s').
Proof.
  intros s l s' H1 Hs. pose proof (inv1_step s l s' H1 Hs) as H1'.
  destruct H1 as [n [m [He _]]]. destruct H1' as [n' [m' [He' _]]]. cbn zeta in *.
  assert (Hle : length (emitted s) <= length (emitted s')).
  { destruct l; cbn [step] in Hs.
    - inversion Hs; subst; cbn; lia.
    - destruct (pending s) as [|[o k] r]; [discriminate|]. destruct (_ && _); [discriminate|]. inversion Hs; subst; cbn; lia.
    - destruct (existsb _ _); [|discriminate]. inversion Hs; subst; cbn; lia.
    - destruct (cmd_q s) as [|[o k] r]; [discriminate|]. inversion Hs; subst; cbn; lia.
    - destruct (reqq s) as [|o r] eqn:Eq; [discriminate|]. 
      destruct (maybe_send _ _ _ _) as [[a b] c] eqn:Ems. inversion Hs; subst. cbn [emitted].
      clear - Ems. revert Ems. generalize (S (length (insert_sorted o (incoming s)))). intros fuel.
      generalize (insert_sorted o (incoming s)) (outgoing s) (emitted s). induction fuel as [|f IH]; intros i0 o0 e0 H; cbn [maybe_send] in H.
      + inversion H; lia.
      + destruct i0; [inversion H; lia|]. destruct o0; [inversion H; lia|]. destruct (_ =? _); [|inversion H; lia].
        apply IH in H. rewrite app_length in H. cbn [length] in H. lia.
    - destruct (respq s) as [|o r] eqn:Eq; [discriminate|].
      destruct (maybe_send _ _ _ _) as [[a b] c] eqn:Ems. inversion Hs; subst. cbn [emitted].
      clear - Ems. revert Ems. generalize (S (length (insert_sorted o (outgoing s)))). intros fuel.
      generalize (incoming s) (insert_sorted o (outgoing s)) (emitted s). induction fuel as [|f IH]; intros i0 o0 e0 H; cbn [maybe_send] in H.
      + inversion H; lia.
      + destruct i0; [inversion H; lia|]. destruct o0; [inversion H; lia|]. destruct (_ =? _); [|inversion H; lia].
        apply IH in H. rewrite app_length in H. cbn [length] in H. lia. }
  set (E := length (emitted s)) in *. set (E' := length (emitted s')) in *.
  rewrite He', He. replace E' with (E + (E' - E)) by lia.
  rewrite skipn_seq_pre, seq_app. reflexivity.
Qed.

Lemma step_noctl_emitted : forall s l s', step s l = Some s' ->
  match l with CtlReq | CtlResp => True | _ => emitted s' = emitted s end.
Proof.
  intros s l s' Hs. destruct l; cbn [step] in Hs; try exact I.
  - inversion Hs; reflexivity.
  - destruct (pending s) as [|[o k] r]; [discriminate|]. destruct (_ && _); [discriminate|]. inversion Hs; reflexivity.
  - destruct (existsb _ _); [|discriminate]. inversion Hs; reflexivity.
  - destruct (cmd_q s) as [|[o k] r]; [discriminate|]. inversion Hs; reflexivity.
Qed.

Lemma accept_step_rinv : forall shown c e c',
  rinv shown c -> accept_step c e = Some c' -> rinv (shown ++ es_of [e]) c'.
Proof.
  intros shown [s owed] e c' [H1 Hem] H. cbn [fst snd] in *. unfold accept_step in H.
  destruct e as [oid k|oid k|oid|oid|oid|oid]; cbn [es_of flat_map app]; rewrite ?app_nil_r.
  - destruct (step s (Arrive k)) as [s'|] eqn:Hs; [|discriminate]. destruct (arrived s' =? oid); [|discriminate].
    inversion H; subst c'. split; cbn [fst snd]; [eapply inv1_step; eassumption|].
    pose proof (step_noctl_emitted _ _ _ Hs) as He. cbn in He. rewrite He. exact Hem.
  - destruct (pending s) as [|[o k'] rest] eqn:Ep; [discriminate|]. destruct (_ && _); [|discriminate].
    destruct (step s Dispatch) as [s'|] eqn:Hs; [|discriminate].
    inversion H; subst c'. split; cbn [fst snd]; [eapply inv1_step; eassumption|].
    pose proof (step_noctl_emitted _ _ _ Hs) as He. cbn in He. rewrite He. exact Hem.
  - destruct (existsb (Nat.eqb oid) (rw_run s)).
    + destruct (step s (FinishRW oid)) as [s'|] eqn:Hs; [|discriminate].
      inversion H; subst c'. split; cbn [fst snd]; [eapply inv1_step; eassumption|].
      pose proof (step_noctl_emitted _ _ _ Hs) as He. cbn in He. rewrite He. exact Hem.
    + destruct (head_is oid (map fst (cmd_q s))); [|discriminate].
      destruct (step s FinishCmd) as [s'|] eqn:Hs; [|discriminate].
      inversion H; subst c'. split; cbn [fst snd]; [eapply inv1_step; eassumption|].
      pose proof (step_noctl_emitted _ _ _ Hs) as He. cbn in He. rewrite He. exact Hem.
  - destruct owed; [|discriminate]. destruct (head_is oid (reqq s)); [|discriminate].
    destruct (step s CtlReq) as [s'|] eqn:Hs; [|discriminate].
    inversion H; subst c'. split; cbn [fst snd]; [eapply inv1_step; eassumption|].
    rewrite app_nil_r in Hem. rewrite <- Hem. exact (step_emitted_grows _ _ _ H1 Hs).
  - destruct owed; [|discriminate]. destruct (existsb (Nat.eqb oid) (respq s)); [|discriminate].
    set (s1 := set_respq s (oid :: remove_nat oid (respq s))) in *.
    destruct (step s1 CtlResp) as [s'|] eqn:Hs; [|discriminate].
    inversion H; subst c'. split; cbn [fst snd]; [eapply inv1_step; [|eassumption]; apply inv1_set_respq; exact H1|].
    rewrite app_nil_r in Hem. rewrite <- Hem. exact (step_emitted_grows s1 _ _ (inv1_set_respq _ _ H1) Hs).
  - destruct owed as [|o rest]; [discriminate|]. destruct (Nat.eqb_spec o oid) as [->|]; [|discriminate].
    inversion H; subst c'. split; cbn [fst snd]; [exact H1|]. rewrite Hem, <- app_assoc. reflexivity.
Qed.

Lemma es_of_app : forall a b, es_of (a ++ b) = es_of a ++ es_of b.
Proof. intros. unfold es_of. apply flat_map_app. Qed.

Lemma accept_rinv : forall tr shown c i c',
  rinv shown c -> accept c tr i = inl c' -> rinv (shown ++ es_of tr) c'.
Proof.
  induction tr as [|e tr IH]; intros shown c i c' Hr H; cbn [accept] in H.
  - inversion H; subst. cbn. rewrite app_nil_r. exact Hr.
  - destruct (accept_step c e) as [c1|] eqn:Hs; [|discriminate].
    pose proof (accept_step_rinv _ _ _ _ Hr Hs) as Hr1.
    specialize (IH _ _ _ _ Hr1 H). change (e :: tr) with ([e] ++ tr). rewrite es_of_app, app_assoc. exact IH.
Qed.

Lemma seq_prefix : forall (l r : list nat) n, l ++ r = seq 1 n -> l = seq 1 (length l).
Proof.
  intros l r n H. assert (Hl : l = firstn (length l) (seq 1 n)) by (rewrite <- H, firstn_app, Nat.sub_diag, firstn_all; cbn; rewrite app_nil_r; reflexivity).
  assert (Hn : length l <= n) by (apply (f_equal (@length nat)) in H; rewrite app_length, seq_length in H; lia).
  rewrite Hl at 1. replace n with (length l + (n - length l)) by lia. rewrite seq_app, firstn_app, seq_length, Nat.sub_diag.
  cbn [firstn]. rewrite app_nil_r. rewrite firstn_all2 by (rewrite seq_length; lia). reflexivity.
Qed.

(* an accepted trace: its E events are 1, 2, 3, ... (every response once, in arrival order), it ends in a state that
   satisfies the order invariant, and the model's emissions are exactly the trace's plus those still owed *)
Theorem accepted_trace_in_order : forall tr s owed,
  accept_trace tr = inl (s, owed) ->
  inv1 s /\ emitted s = es_of tr ++ owed /\ es_of tr = seq 1 (length (es_of tr)).
Proof.
  intros tr s owed H. unfold accept_trace in H.
  assert (H0 : rinv [] (init, [])) by (split; [exact inv1_init | reflexivity]).
  pose proof (accept_rinv tr [] _ _ _ H0 H) as [H1 Hem]. cbn [fst snd app] in *.
  split; [exact H1|]. split; [exact Hem|].
  destruct H1 as [n [m [He _]]]. cbn zeta in He. rewrite He in Hem. symmetry in Hem.
  eapply seq_prefix. exact Hem.
Qed.

Lemma es_of_annotate : forall tr, es_of (annotate tr) = es_of tr.
Proof.
  intros tr. unfold annotate. generalize (kind_in tr). intros f. induction tr as [|e tr IH]; [reflexivity|].
  cbn [map]. change (e :: tr) with ([e] ++ tr). rewrite es_of_app.
  change ((match e with EvA oid _ => EvA oid (f oid) | _ => e end) :: map (fun e0 => match e0 with EvA oid _ => EvA oid (f oid) | _ => e0 end) tr)
    with ([match e with EvA oid _ => EvA oid (f oid) | _ => e end] ++ map (fun e0 => match e0 with EvA oid _ => EvA oid (f oid) | _ => e0 end) tr).
  rewrite es_of_app, IH. f_equal. destruct e; reflexivity.
Qed.

(* the form the check uses: kinds of arrivals filled in from the dispatch events of the same trace *)
Theorem accepted_raw_in_order : forall tr s owed,
  accept_raw tr = inl (s, owed) ->
  inv1 s /\ emitted s = es_of tr ++ owed /\ es_of tr = seq 1 (length (es_of tr)).
Proof.
  intros tr s owed H. unfold accept_raw in H. apply accepted_trace_in_order in H. rewrite es_of_annotate in H. exact H.
Qed.
