(* Lemmas about rename / link / symlink of Fs/Tree.v (never imported by a model file). *)
From Coq Require Import List Bool Arith Lia.
From Sftp Require Import Fs.Tree Proofs.TreeP.
Import ListNotations.
Import FsTree FsTreeP.

Lemma parent_dir : forall t p, parent_look t p = LKind KDir -> kind_at t (removelast p) = Some KDir.
Proof.
  intros t p H. unfold parent_look in H. rewrite stat_of_lstat in H.
  destruct (lstat t (removelast p)) as [[| |]| | |] eqn:E; try discriminate. apply lstat_kind. exact E.
Qed.

(* ---- a failing operation changes nothing ---- *)
Lemma sys_rename_fail_same : forall t s d c t', sys_rename t s d = Some (c, t') -> c <> TOk -> t' = t.
Proof.
  intros t s d c t' H Hc. unfold sys_rename in H.
  destruct s as [|s0 s]; [discriminate|]. destruct d as [|d0 d]; [discriminate|].
  destruct (parent_look t (s0 :: s)) as [[| |]| | |]; try discriminate; try (inversion H; subst; reflexivity).
  destruct (parent_look t (d0 :: d)) as [[| |]| | |]; try discriminate; try (inversion H; subst; reflexivity).
  destruct (kind_at t (s0 :: s)) as [ks|]; [|inversion H; subst; reflexivity].
  destruct (path_eqb (s0 :: s) (d0 :: d)); [inversion H; subst; reflexivity|].
  destruct (under (s0 :: s) (d0 :: d)); [inversion H; subst; reflexivity|].
  destruct (kind_at t (d0 :: d)) as [kd|]; [|inversion H; subst; congruence].
  destruct ks, kd; try (inversion H; subst; first [reflexivity | congruence]).
  destruct (children t (d0 :: d)); inversion H; subst; first [reflexivity | congruence].
Qed.

Theorem rename_fail_same : forall t s d c t', p_rename t s d = Some (c, t') -> c <> TOk -> t' = t.
Proof.
  intros t s d c t' H Hc. unfold p_rename in H.
  destruct s as [|s0 s]; [discriminate|]. destruct d as [|d0 d]; [discriminate|].
  destruct (lstat t (d0 :: d)) as [[| |]| | |]; try discriminate;
    try (apply (sys_rename_fail_same t (s0 :: s) (d0 :: d) c t' H Hc)).
  destruct (lstat t (s0 :: s)); try discriminate; inversion H; subst; reflexivity.
Qed.

Theorem link_fail_same : forall t s d c t', p_link t s d = Some (c, t') -> c <> TOk -> t' = t.
Proof.
  intros t s d c t' H Hc. unfold p_link in H.
  destruct s as [|s0 s]; [discriminate|]. destruct d as [|d0 d]; [discriminate|].
  destruct (parent_look t (s0 :: s)) as [[| |]| | |]; try discriminate; try (inversion H; subst; reflexivity).
  destruct (kind_at t (s0 :: s)) as [[| |]|]; try discriminate; try (inversion H; subst; reflexivity);
  (destruct (parent_look t (d0 :: d)) as [[| |]| | |]; try discriminate; try (inversion H; subst; reflexivity);
   destruct (kind_at t (d0 :: d)); inversion H; subst; first [reflexivity | congruence]).
Qed.

Theorem symlink_fail_same : forall e t l c t', p_symlink e t l = Some (c, t') -> c <> TOk -> t' = t.
Proof.
  intros e t l c t' H Hc. unfold p_symlink in H. destruct e; [inversion H; subst; reflexivity|].
  destruct l as [|l0 l]; [inversion H; subst; reflexivity|].
  destruct (parent_look t (l0 :: l)) as [[| |]| | |]; try discriminate; try (inversion H; subst; reflexivity).
  destruct (kind_at t (l0 :: l)); inversion H; subst; first [reflexivity | congruence].
Qed.

(* ---- link and symlink add exactly one entry, and the tree stays well formed ---- *)
Theorem link_ok : forall t s d t', wf t -> p_link t s d = Some (TOk, t') ->
  exists k, kind_at t s = Some k /\ k <> KDir /\ kind_at t d = None /\ t' = t ++ [(d, k)] /\ wf t'.
Proof.
  intros t s d t' Hwf H. unfold p_link in H.
  destruct s as [|s0 s]; [discriminate|]. destruct d as [|d0 d]; [discriminate|].
  destruct (parent_look t (s0 :: s)) as [[| |]| | |]; try discriminate.
  destruct (kind_at t (s0 :: s)) as [[| |]|] eqn:Es; try discriminate;
  (destruct (parent_look t (d0 :: d)) as [[| |]| | |] eqn:Ep; try discriminate;
   destruct (kind_at t (d0 :: d)) eqn:Ed; [discriminate|]; inversion H; subst;
   eexists; split; [reflexivity|]; split; [discriminate|]; split; [reflexivity|]; split; [reflexivity|];
   apply wf_snoc; [exact Hwf | discriminate | exact Ed | apply parent_dir; exact Ep]).
Qed.

Theorem symlink_ok : forall e t l t', wf t -> p_symlink e t l = Some (TOk, t') ->
  e = false /\ kind_at t l = None /\ t' = t ++ [(l, KLink)] /\ wf t'.
Proof.
  intros e t l t' Hwf H. unfold p_symlink in H. destruct e; [discriminate|].
  destruct l as [|l0 l]; [discriminate|].
  destruct (parent_look t (l0 :: l)) as [[| |]| | |] eqn:Ep; try discriminate.
  destruct (kind_at t (l0 :: l)) eqn:Ed; [discriminate|]. inversion H; subst.
  split; [reflexivity|]. split; [reflexivity|]. split; [reflexivity|].
  apply wf_snoc; [exact Hwf | discriminate | exact Ed | apply parent_dir; exact Ep].
Qed.

(* ---- rename keeps the tree well formed and moves the subtree ---- *)
Lemma strip_some : forall s p r, strip s p = Some r <-> p = s ++ r.
Proof.
  induction s as [|x s IH]; intros p r; cbn [strip app].
  - split; [intros H; inversion H; reflexivity | intros ->; reflexivity].
  - destruct p as [|y p]; [split; [discriminate | discriminate]|].
    destruct (x =? y) eqn:E.
    + apply Nat.eqb_eq in E. subst y. rewrite IH. split; [intros ->; reflexivity | intros H; inversion H; reflexivity].
    + apply Nat.eqb_neq in E. split; [discriminate | intros H; inversion H; congruence].
Qed.

Lemma strip_none : forall s p, strip s p = None <-> under s p = false.
Proof.
  induction s as [|x s IH]; intros p; cbn [strip under].
  - split; discriminate.
  - destruct p as [|y p]; [split; reflexivity|].
    destruct (x =? y); cbn [andb]; [apply IH | split; reflexivity].
Qed.

Definition mv (s d p : path) : path := match strip s p with Some r => d ++ r | None => p end.

Lemma move_entry_mv : forall s d e, move_entry s d e = (mv s d (fst e), snd e).
Proof. intros s d [p k]. unfold move_entry, mv. cbn [fst snd]. destruct (strip s p); reflexivity. Qed.

(* mv is injective on paths that are not under d (d itself included) *)
Lemma mv_inj : forall s d p q, under d p = false -> under d q = false -> mv s d p = mv s d q -> p = q.
Proof.
  intros s d p q Hp Hq H. unfold mv in H.
  destruct (strip s p) as [r1|] eqn:E1; destruct (strip s q) as [r2|] eqn:E2.
  - apply strip_some in E1. apply strip_some in E2. apply app_inv_head in H. subst. reflexivity.
  - subst q. rewrite under_app in Hq. discriminate.
  - subst p. rewrite under_app in Hp. discriminate.
  - exact H.
Qed.

Lemma nodup_map_inj_on {A B} : forall (f : A -> B) (l : list A),
  (forall x y, In x l -> In y l -> f x = f y -> x = y) -> NoDup l -> NoDup (map f l).
Proof.
  intros f. induction l as [|a l IH]; intros Hinj Hnd; cbn [map]; [constructor|].
  inversion Hnd as [|? ? Hni Hnd']; subst. constructor.
  - intros Hin. apply in_map_iff in Hin. destruct Hin as [x [Hx Hin]]. apply Hni.
    rewrite <- (Hinj x a (or_intror Hin) (or_introl eq_refl) Hx). exact Hin.
  - apply IH; [|exact Hnd']. intros x y Hx Hy. apply Hinj; right; assumption.
Qed.

Lemma assoc_map_mv : forall s d t0 q, (forall e, In e t0 -> under d (fst e) = false) -> under d q = false ->
  assoc (map (move_entry s d) t0) (mv s d q) = assoc t0 q.
Proof.
  intros s d. induction t0 as [|[p k] t0 IH]; intros q Hall Hq; cbn [map assoc]; [reflexivity|].
  rewrite move_entry_mv. cbn [fst snd assoc].
  assert (Hp : under d p = false) by (apply (Hall (p, k)); left; reflexivity).
  destruct (path_eqb p q) eqn:E.
  - apply path_eqb_eq in E. subst q. rewrite path_eqb_refl. reflexivity.
  - assert (E' : path_eqb (mv s d p) (mv s d q) = false).
    { apply path_eqb_neq. intros H. apply mv_inj in H; [|assumption|assumption]. subst q. rewrite path_eqb_refl in E. discriminate. }
    rewrite E'. apply IH; [|exact Hq]. intros e He. apply Hall. right. exact He.
Qed.

Lemma mv_ne : forall s d p, d <> [] -> p <> [] -> mv s d p <> [].
Proof.
  intros s d p Hd Hp. unfold mv. destruct (strip s p); [|exact Hp]. intros H. apply app_eq_nil in H. destruct H. congruence.
Qed.

Lemma kind_at_map_mv : forall s d t0 q, d <> [] -> (forall e, In e t0 -> under d (fst e) = false) -> under d q = false -> q <> [] ->
  kind_at (map (move_entry s d) t0) (mv s d q) = kind_at t0 q.
Proof.
  intros s d t0 q Hd Hall Hq Hne. rewrite kind_at_cons by (apply mv_ne; assumption). rewrite kind_at_cons by exact Hne.
  apply assoc_map_mv; assumption.
Qed.

Lemma under_self_removelast : forall d, d <> [] -> under d (removelast d) = false.
Proof.
  intros d Hd. destruct (snoc_cases d) as [->|[d' [x ->]]]; [congruence|]. rewrite removelast_snoc. apply under_snoc_self.
Qed.

(* the general statement about re-prefixing a subtree: t0 has nothing at or below d, s is there, d's parent is a directory that
   is not inside s; then moving s to d keeps the tree well formed and every path's kind follows it *)
Lemma move_wf : forall t0 s d ks, wf t0 -> s <> [] -> d <> [] ->
  (forall e, In e t0 -> under d (fst e) = false) ->
  kind_at t0 s = Some ks -> under s d = false ->
  kind_at t0 (removelast d) = Some KDir ->
  wf (map (move_entry s d) t0).
Proof.
  intros t0 s d ks [Hnd Hpar] Hs Hd Hall Hks Hsd Hpd.
  assert (Hwf0 : wf t0) by (split; assumption).
  split.
  - rewrite map_map. rewrite (map_ext _ (fun e => mv s d (fst e))) by (intros e; rewrite move_entry_mv; reflexivity).
    rewrite <- (map_map fst (mv s d)). apply nodup_map_inj_on; [|exact Hnd].
    intros x y Hx Hy. apply in_map_iff in Hx. destruct Hx as [ex [<- Hex]]. apply in_map_iff in Hy. destruct Hy as [ey [<- Hey]].
    apply mv_inj; apply Hall; assumption.
  - intros p' k Hin. apply in_map_iff in Hin. destruct Hin as [[p k0] [Heq Hin]]. rewrite move_entry_mv in Heq. cbn [fst snd] in Heq.
    inversion Heq; subst p' k0. destruct (Hpar p k Hin) as [Hp Hk]. split; [apply mv_ne; assumption|].
    assert (Hpd' : under d p = false) by (apply (Hall (p, k)); exact Hin).
    unfold mv. destruct (strip s p) as [r|] eqn:Es.
    + apply strip_some in Es. subst p.
      destruct (snoc_cases r) as [->|[r' [c ->]]].
      * (* the moved root: its new parent is d's parent, which stays where it is *)
        rewrite app_nil_r. destruct (removelast d) as [|x q] eqn:Er; [reflexivity|].
        assert (Hu : under d (x :: q) = false) by (rewrite <- Er; apply under_self_removelast; exact Hd).
        assert (Hns : strip s (x :: q) = None).
        { apply strip_none. destruct (under s (x :: q)) eqn:E; [|reflexivity]. rewrite <- Er in E. apply under_removelast in E. congruence. }
        assert (Hmv : mv s d (x :: q) = x :: q) by (unfold mv; rewrite Hns; reflexivity).
        rewrite <- Hmv. rewrite kind_at_map_mv; [exact Hpd | exact Hd | exact Hall | exact Hu | discriminate].
      * (* below the moved root: the parent moves along *)
        rewrite !app_assoc, removelast_snoc. rewrite app_assoc, removelast_snoc in Hk.
        assert (Hne : s ++ r' <> []) by (destruct s; [congruence | discriminate]).
        assert (Hin' : In (s ++ r', KDir) t0) by (apply assoc_in; rewrite <- kind_at_cons by exact Hne; exact Hk).
        assert (Hu : under d (s ++ r') = false) by (apply (Hall (s ++ r', KDir)); exact Hin').
        assert (Hmv : mv s d (s ++ r') = d ++ r').
        { unfold mv. destruct (strip s (s ++ r')) as [r2|] eqn:E2; [apply strip_some in E2; apply app_inv_head in E2; subst; reflexivity|].
          apply strip_none in E2. rewrite under_app in E2. discriminate. }
        rewrite <- Hmv. rewrite kind_at_map_mv; [exact Hk | exact Hd | exact Hall | exact Hu | exact Hne].
    + (* an entry outside s stays, and so does its parent *)
      apply strip_none in Es. destruct (removelast p) as [|x q] eqn:Er; [reflexivity|].
      assert (Hin' : In (x :: q, KDir) t0) by (apply assoc_in; exact Hk).
      assert (Hu : under d (x :: q) = false) by (apply (Hall (x :: q, KDir)); exact Hin').
      assert (Hns : strip s (x :: q) = None).
      { apply strip_none. destruct (under s (x :: q)) eqn:E; [|reflexivity]. rewrite <- Er in E. apply under_removelast in E. congruence. }
      assert (Hmv : mv s d (x :: q) = x :: q) by (unfold mv; rewrite Hns; reflexivity).
      rewrite <- Hmv. rewrite kind_at_map_mv; [exact Hk | exact Hd | exact Hall | exact Hu | discriminate].
Qed.

Lemma remove_entry_nondir : forall t d, wf t -> d <> [] -> kind_at t d <> Some KDir -> remove_entry t d = filter (notunder d) t.
Proof.
  intros t d Hwf Hd Hk. destruct (kind_at t d) as [k|] eqn:E.
  - apply (remove_entry_is_filter t d k Hwf E). congruence.
  - unfold remove_entry, notunder. apply filter_ext_in. intros [q l] Hin. cbn [fst]. f_equal.
    destruct (under d q) eqn:Eu.
    + exfalso. apply under_iff in Eu. destruct Eu as [r ->].
      assert (Hq : kind_at t (d ++ r) = Some l).
      { rewrite kind_at_cons by (destruct d; [congruence | discriminate]). apply in_assoc; [apply Hwf | exact Hin]. }
      destruct r as [|x r]; [rewrite app_nil_r in Hq; congruence|].
      rewrite (wf_ancestor t d (x :: r) l Hwf Hq) in E by discriminate. discriminate.
    + apply path_eqb_neq. intros ->. rewrite under_refl in Eu. discriminate.
Qed.

Lemma app_eq_prefix : forall (a b r1 r2 : path), a ++ r1 = b ++ r2 -> under a b = true \/ under b a = true.
Proof.
  induction a as [|x a IH]; intros b r1 r2 E; [left; reflexivity|].
  destruct b as [|y b]; [right; reflexivity|]. cbn [app] in E. inversion E; subst. cbn [under]. rewrite Nat.eqb_refl. cbn [andb].
  apply (IH b r1 r2). assumption.
Qed.

(* what a successful os.Rename of s to another name d does *)
Theorem rename_ok : forall t s d t', wf t -> p_rename t s d = Some (TOk, t') -> s <> d ->
  wf t' /\
  (forall r, kind_at t' (d ++ r) = kind_at t (s ++ r)) /\
  (forall q, under s q = false -> under d q = false -> kind_at t' q = kind_at t q).
Proof.
  intros t s d t' Hwf H Hsd. unfold p_rename in H.
  destruct s as [|s0 s]; [discriminate|]. destruct d as [|d0 d]; [discriminate|].
  set (S := s0 :: s) in *. set (D := d0 :: d) in *.
  assert (HS : S <> []) by discriminate. assert (HD : D <> []) by discriminate.
  assert (Hnd : kind_at t D <> Some KDir /\ sys_rename t S D = Some (TOk, t')).
  { destruct (lstat t D) as [[| |]| | |] eqn:El; try discriminate.
    - destruct (lstat t S); discriminate.
    - split; [|exact H]. intros Hk. rewrite (lstat_exists t D KDir Hwf Hk) in El. discriminate.
    - split; [|exact H]. intros Hk. rewrite (lstat_exists t D KDir Hwf Hk) in El. discriminate.
    - split; [|exact H]. intros Hk. rewrite (lstat_exists t D KDir Hwf Hk) in El. discriminate.
    - split; [|exact H]. intros Hk. rewrite (lstat_exists t D KDir Hwf Hk) in El. discriminate. }
  destruct Hnd as [HkD Hsys]. clear H. unfold sys_rename in Hsys. fold S D in Hsys.
  change (match S with [] => None | _ :: _ => match D with [] => None | _ :: _ => ?x end end) with x in Hsys.
  destruct (parent_look t S) as [[| |]| | |] eqn:EpS; try discriminate.
  destruct (parent_look t D) as [[| |]| | |] eqn:EpD; try discriminate.
  destruct (kind_at t S) as [ks|] eqn:EkS; [|discriminate].
  destruct (path_eqb S D) eqn:Eeq; [apply path_eqb_eq in Eeq; congruence|].
  destruct (under S D) eqn:EuSD; [discriminate|].
  assert (Ht' : t' = map (move_entry S D) (remove_entry t D)).
  { destruct (kind_at t D) as [kd|] eqn:EkD; [|inversion Hsys; reflexivity].
    destruct ks, kd; try discriminate; try congruence; inversion Hsys; reflexivity. }
  clear Hsys. rewrite (remove_entry_nondir t D Hwf HD HkD) in Ht'.
  set (t0 := filter (notunder D) t) in *.
  assert (Hwf0 : wf t0) by (apply wf_filter_notunder; assumption).
  assert (Hall : forall e, In e t0 -> under D (fst e) = false).
  { intros e He. apply filter_In in He. destruct He as [_ He]. unfold notunder in He. apply negb_true_iff in He. exact He. }
  assert (HuDS : under D S = false).
  { destruct (under D S) eqn:E; [|reflexivity]. exfalso. apply under_iff in E. destruct E as [r Er].
    destruct r as [|x r]; [rewrite app_nil_r in Er; congruence|].
    rewrite Er in EkS. rewrite (wf_ancestor t D (x :: r) ks Hwf EkS) in HkD by discriminate. congruence. }
  assert (Hk0 : forall q, under D q = false -> kind_at t0 q = kind_at t q).
  { intros q Hq. apply kind_at_filter_notunder; assumption. }
  assert (HpD : kind_at t0 (removelast D) = Some KDir).
  { rewrite Hk0 by (apply under_self_removelast; exact HD). apply parent_dir. exact EpD. }
  subst t'. split; [|split].
  - apply (move_wf t0 S D ks Hwf0 HS HD Hall); [rewrite Hk0 by exact HuDS; exact EkS | exact EuSD | exact HpD].
  - intros r.
    assert (Hu : under D (S ++ r) = false).
    { destruct (under D (S ++ r)) eqn:E; [|reflexivity]. exfalso.
      (* D at or above S ++ r while neither of S, D is above the other: D would have to lie strictly inside S's subtree... *)
      apply under_iff in E. destruct E as [r2 E].
      (* S ++ r = D ++ r2: one of S, D is a prefix of the other *)
      assert (Hpre : under S D = true \/ under D S = true) by (apply (app_eq_prefix S D r r2 E)).
      destruct Hpre; congruence. }
    assert (Hmv : mv S D (S ++ r) = D ++ r).
    { unfold mv. destruct (strip S (S ++ r)) as [r2|] eqn:E2; [apply strip_some in E2; apply app_inv_head in E2; subst; reflexivity|].
      apply strip_none in E2. rewrite under_app in E2. discriminate. }
    rewrite <- Hmv. rewrite kind_at_map_mv; [apply Hk0; exact Hu | exact HD | exact Hall | exact Hu | destruct S; [congruence | discriminate]].
  - intros q HqS HqD. destruct q as [|x q]; [reflexivity|].
    assert (Hmv : mv S D (x :: q) = x :: q).
    { unfold mv. destruct (strip S (x :: q)) eqn:E2; [|reflexivity]. apply strip_some in E2. rewrite E2, under_app in HqS. discriminate. }
    rewrite <- Hmv at 1. rewrite kind_at_map_mv; [apply Hk0; exact HqD | exact HD | exact Hall | exact HqD | discriminate].
Qed.

(* ... and nothing is left at or below the old name *)
Lemma moved_source_gone : forall t0 s d r, s <> [] ->
  (forall e, In e t0 -> under d (fst e) = false) -> under s d = false -> under d s = false ->
  kind_at (map (move_entry s d) t0) (s ++ r) = None.
Proof.
  intros t0 s d r Hs Hall Hsd Hds. rewrite kind_at_cons by (destruct s; [congruence | discriminate]).
  destruct (assoc (map (move_entry s d) t0) (s ++ r)) as [k|] eqn:E; [|reflexivity]. exfalso.
  apply assoc_in in E. apply in_map_iff in E. destruct E as [[p k0] [Heq Hin]]. rewrite move_entry_mv in Heq. cbn [fst snd] in Heq.
  inversion Heq as [[Hp Hk]]. clear Heq. unfold mv in Hp. destruct (strip s p) as [r'|] eqn:Es.
  - symmetry in Hp. destruct (app_eq_prefix s d r r' Hp); congruence.
  - apply strip_none in Es. subst p. rewrite under_app in Es. discriminate.
Qed.

Theorem rename_source_gone : forall t s d t', wf t -> p_rename t s d = Some (TOk, t') -> s <> d ->
  forall r, kind_at t' (s ++ r) = None.
Proof.
  intros t s d t' Hwf H Hsd r. unfold p_rename in H.
  destruct s as [|s0 s]; [discriminate|]. destruct d as [|d0 d]; [discriminate|].
  set (S := s0 :: s) in *. set (D := d0 :: d) in *.
  assert (HD : D <> []) by discriminate.
  assert (Hnd : kind_at t D <> Some KDir /\ sys_rename t S D = Some (TOk, t')).
  { destruct (lstat t D) as [[| |]| | |] eqn:El; try discriminate.
    - destruct (lstat t S); discriminate.
    - split; [|exact H]. intros Hk. rewrite (lstat_exists t D KDir Hwf Hk) in El. discriminate.
    - split; [|exact H]. intros Hk. rewrite (lstat_exists t D KDir Hwf Hk) in El. discriminate.
    - split; [|exact H]. intros Hk. rewrite (lstat_exists t D KDir Hwf Hk) in El. discriminate.
    - split; [|exact H]. intros Hk. rewrite (lstat_exists t D KDir Hwf Hk) in El. discriminate. }
  destruct Hnd as [HkD Hsys]. clear H. unfold sys_rename in Hsys. fold S D in Hsys.
  change (match S with [] => None | _ :: _ => match D with [] => None | _ :: _ => ?x end end) with x in Hsys.
  destruct (parent_look t S) as [[| |]| | |]; try discriminate.
  destruct (parent_look t D) as [[| |]| | |]; try discriminate.
  destruct (kind_at t S) as [ks|] eqn:EkS; [|discriminate].
  destruct (path_eqb S D) eqn:Eeq; [apply path_eqb_eq in Eeq; congruence|].
  destruct (under S D) eqn:EuSD; [discriminate|].
  assert (Ht' : t' = map (move_entry S D) (remove_entry t D)).
  { destruct (kind_at t D) as [kd|] eqn:EkD; [|inversion Hsys; reflexivity].
    destruct ks, kd; try discriminate; try congruence; inversion Hsys; reflexivity. }
  rewrite (remove_entry_nondir t D Hwf HD HkD) in Ht'. subst t'.
  assert (HuDS : under D S = false).
  { destruct (under D S) eqn:E; [|reflexivity]. exfalso. apply under_iff in E. destruct E as [r2 Er].
    destruct r2 as [|x r2]; [rewrite app_nil_r in Er; congruence|].
    rewrite Er in EkS. rewrite (wf_ancestor t D (x :: r2) ks Hwf EkS) in HkD by discriminate. congruence. }
  apply moved_source_gone; [discriminate | | exact EuSD | exact HuDS].
  intros e He. apply filter_In in He. destruct He as [_ He]. unfold notunder in He. apply negb_true_iff in He. exact He.
Qed.

Theorem rename_wf : forall t s d c t', wf t -> p_rename t s d = Some (c, t') -> wf t'.
Proof.
  intros t s d c t' Hwf H. destruct c.
  - destruct (list_eq_dec Nat.eq_dec s d) as [->|Hne].
    + (* onto itself: nothing happens *)
      assert (t' = t); [|subst; exact Hwf].
      unfold p_rename in H. destruct d as [|d0 d]; [discriminate|].
      destruct (lstat t (d0 :: d)) as [[| |]| | |]; try discriminate; try (destruct (lstat t (d0 :: d)); discriminate);
        unfold sys_rename in H;
        destruct (parent_look t (d0 :: d)) as [[| |]| | |]; try discriminate;
        destruct (kind_at t (d0 :: d)); try discriminate; rewrite path_eqb_refl in H; inversion H; reflexivity.
    + apply (rename_ok t s d t' Hwf H Hne).
  - rewrite (rename_fail_same t s d TNotExist t' H) by discriminate. exact Hwf.
  - rewrite (rename_fail_same t s d TOther t' H) by discriminate. exact Hwf.
Qed.

Lemma link_wf : forall t s d c t', wf t -> p_link t s d = Some (c, t') -> wf t'.
Proof.
  intros t s d c t' Hwf H. destruct c.
  - destruct (link_ok t s d t' Hwf H) as (k & _ & _ & _ & _ & Hw). exact Hw.
  - rewrite (link_fail_same t s d TNotExist t' H) by discriminate. exact Hwf.
  - rewrite (link_fail_same t s d TOther t' H) by discriminate. exact Hwf.
Qed.

Lemma symlink_wf : forall e t l c t', wf t -> p_symlink e t l = Some (c, t') -> wf t'.
Proof.
  intros e t l c t' Hwf H. destruct c.
  - destruct (symlink_ok e t l t' Hwf H) as (_ & _ & _ & Hw). exact Hw.
  - rewrite (symlink_fail_same e t l TNotExist t' H) by discriminate. exact Hwf.
  - rewrite (symlink_fail_same e t l TOther t' H) by discriminate. exact Hwf.
Qed.

(* ---- OPEN / Create on the name space ---- *)
Theorem open_effect : forall creat excl wr t p c t', wf t -> p_open creat excl wr t p = Some (c, t') ->
  wf t' /\ (c <> TOk -> t' = t) /\
  (t' = t \/ (c = TOk /\ creat = true /\ kind_at t p = None /\ t' = t ++ [(p, KFile)])).
Proof.
  intros creat excl wr t p c t' Hwf H. unfold p_open in H. destruct p as [|p0 p]; [discriminate|].
  destruct (parent_look t (p0 :: p)) as [[| |]| | |] eqn:Ep; try discriminate;
    try (inversion H; subst; split; [exact Hwf | split; [reflexivity | left; reflexivity]]).
  destruct (kind_at t (p0 :: p)) as [[| |]|] eqn:Ek; try discriminate.
  - destruct (wr || creat); inversion H; subst; (split; [exact Hwf | split; [reflexivity | left; reflexivity]]).
  - destruct (creat && excl); inversion H; subst; (split; [exact Hwf | split; [reflexivity | left; reflexivity]]).
  - destruct creat; inversion H; subst.
    + split; [apply wf_snoc; [exact Hwf | discriminate | exact Ek | apply parent_dir; exact Ep]|].
      split; [congruence|]. right. repeat split; reflexivity.
    + split; [exact Hwf | split; [reflexivity | left; reflexivity]].
Qed.

(* ---- sequences over the whole set of modelled operations ---- *)
Inductive fsop2 :=
| OBase (o : fsop)
| ORename (s d : path) | OPosixRename (s d : path)     (* two requests, one os call on this server *)
| OLink (s d : path) | OSymlink (empty_target : bool) (l : path)
| OOpen (creat excl wr : bool) (p : path).            (* OpenFile with any flags; Create is OOpen true false true *)

Definition os_op2 (t : tree) (o : fsop2) : option (cat * tree) :=
  match o with
  | OBase o => os_op t o
  | ORename s d | OPosixRename s d => p_rename t s d
  | OLink s d => p_link t s d
  | OSymlink e l => p_symlink e t l
  | OOpen cr ex wr p => p_open cr ex wr t p
  end.

Definition client_op2 (t : tree) (o : fsop2) : option (cat * tree) :=
  match o with
  | OBase o => client_op t o
  | ORename s d | OPosixRename s d => p_rename t s d
  | OLink s d => p_link t s d
  | OSymlink e l => p_symlink e t l
  | OOpen cr ex wr p => p_open cr ex wr t p
  end.

Fixpoint run_ops2 (step : tree -> fsop2 -> option (cat * tree)) (t : tree) (ops : list fsop2) : option (list cat * tree) :=
  match ops with
  | [] => Some ([], t)
  | o :: rest =>
      match step t o with
      | Some (c, t1) => match run_ops2 step t1 rest with Some (cs, t2) => Some (c :: cs, t2) | None => None end
      | None => None
      end
  end.

Lemma os_op2_wf : forall t o c t', wf t -> os_op2 t o = Some (c, t') -> wf t'.
Proof.
  intros t o c t' Hwf H. destruct o as [o|s d|s d|s d|e l|cr ex wr p]; cbn [os_op2] in H.
  - exact (os_op_wf t o c t' Hwf H).
  - exact (rename_wf t s d c t' Hwf H).
  - exact (rename_wf t s d c t' Hwf H).
  - exact (link_wf t s d c t' Hwf H).
  - exact (symlink_wf e t l c t' Hwf H).
  - exact (proj1 (open_effect cr ex wr t p c t' Hwf H)).
Qed.

Lemma client_op2_refines : forall t o r, wf t -> os_op2 t o = Some r -> client_op2 t o = Some r.
Proof.
  intros t o r Hwf H. destruct o as [o|s d|s d|s d|e l|cr ex wr p]; cbn [os_op2 client_op2] in *; try exact H.
  apply client_op_refines; assumption.
Qed.

Theorem run_ops2_wf : forall ops t cs t', wf t -> run_ops2 os_op2 t ops = Some (cs, t') -> wf t'.
Proof.
  induction ops as [|o ops IH]; intros t cs t' Hwf H; cbn [run_ops2] in H; [inversion H; subst; exact Hwf|].
  destruct (os_op2 t o) as [[c t1]|] eqn:E; [|discriminate].
  destruct (run_ops2 os_op2 t1 ops) as [[cs1 t2]|] eqn:E2; [|discriminate]. inversion H; subst.
  apply (IH t1 cs1 t' (os_op2_wf t o c t1 Hwf E) E2).
Qed.

Theorem client_sequences2_refine_os : forall ops t r, wf t -> run_ops2 os_op2 t ops = Some r -> run_ops2 client_op2 t ops = Some r.
Proof.
  induction ops as [|o ops IH]; intros t r Hwf H; cbn [run_ops2] in *; [exact H|].
  destruct (os_op2 t o) as [[c t1]|] eqn:E; [|discriminate].
  rewrite (client_op2_refines t o (c, t1) Hwf E).
  destruct (run_ops2 os_op2 t1 ops) as [[cs1 t2]|] eqn:E2; [|discriminate].
  rewrite (IH t1 (cs1, t2) (os_op2_wf t o c t1 Hwf E) E2). exact H.
Qed.

(* os.Rename never replaces a directory, not even an empty one (rename(2) would): the refutation of the plain system call as
   a model of what the server does *)
Theorem rename_onto_empty_dir_refuted : exists t s d,
  wf t /\ sys_rename t s d = Some (TOk, [(d, KDir)]) /\ p_rename t s d = Some (TOther, t).
Proof.
  exists [([1], KDir); ([2], KDir)], [1], [2]. split; [|split; reflexivity].
  split; [repeat constructor; cbn; intuition discriminate|].
  intros p k [H|[H|[]]]; inversion H; subst; split; try discriminate; reflexivity.
Qed.

