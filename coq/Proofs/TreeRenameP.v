(* Lemmas about rename / link / symlink of Fs/Tree.v (never imported by a model file). *)
From Coq Require Import List Bool Arith Lia.
From Sftp Require Import Fs.Tree Proofs.TreeP.
Import ListNotations.
Import FsTree FsTreeP.

Lemma parent_dir : forall t p, parent_look t p = LKind KDir -> kind_at t (removelast p) = Some KDir.
Proof.
  intros t p H. unfold parent_look in H. rewrite stat_of_lstat in H.
  destruct (lstat t (removelast p)) as [[| |]| | |] eqn:E; try discriminate. apply lstat_kind. exact E.
Qed.

(* ---- a failing operation changes nothing ---- *)
Lemma sys_rename_fail_same : forall t s d c t', sys_rename t s d = Some (c, t') -> c <> TOk -> t' = t.
Proof.
  intros t s d c t' H Hc. unfold sys_rename in H.
  destruct s as [|s0 s]; [discriminate|]. destruct d as [|d0 d]; [discriminate|].
  destruct (parent_look t (s0 :: s)) as [[| |]| | |]; try discriminate; try (inversion H; subst; reflexivity).
  destruct (parent_look t (d0 :: d)) as [[| |]| | |]; try discriminate; try (inversion H; subst; reflexivity).
  destruct (kind_at t (s0 :: s)) as [ks|]; [|inversion H; subst; reflexivity].
  destruct (path_eqb (s0 :: s) (d0 :: d)); [inversion H; subst; reflexivity|].
  destruct (under (s0 :: s) (d0 :: d)); [inversion H; subst; reflexivity|].
  destruct (kind_at t (d0 :: d)) as [kd|]; [|inversion H; subst; congruence].
  destruct ks, kd; try (inversion H; subst; first [reflexivity | congruence]).
  destruct (children t (d0 :: d)); inversion H; subst; first [reflexivity | congruence].
Qed.

Theorem rename_fail_same : forall t s d c t', p_rename t s d = Some (c, t') -> c <> TOk -> t' = t.
Proof.
  intros t s d c t' H Hc. unfold p_rename in H.
  destruct s as [|s0 s]; [discriminate|]. destruct d as [|d0 d]; [discriminate|].
  destruct (lstat t (d0 :: d)) as [[| |]| | |]; try discriminate;
    try (apply (sys_rename_fail_same t (s0 :: s) (d0 :: d) c t' H Hc)).
  destruct (lstat t (s0 :: s)); try discriminate; inversion H; subst; reflexivity.
Qed.

Theorem link_fail_same : forall t s d c t', p_link t s d = Some (c, t') -> c <> TOk -> t' = t.
Proof.
  intros t s d c t' H Hc. unfold p_link in H.
  destruct s as [|s0 s]; [discriminate|]. destruct d as [|d0 d]; [discriminate|].
  destruct (parent_look t (s0 :: s)) as [[| |]| | |]; try discriminate; try (inversion H; subst; reflexivity).
  destruct (kind_at t (s0 :: s)) as [[| |]|]; try discriminate; try (inversion H; subst; reflexivity);
  (destruct (parent_look t (d0 :: d)) as [[| |]| | |]; try discriminate; try (inversion H; subst; reflexivity);
   destruct (kind_at t (d0 :: d)); inversion H; subst; first [reflexivity | congruence]).
Qed.

Theorem symlink_fail_same : forall e t l c t', p_symlink e t l = Some (c, t') -> c <> TOk -> t' = t.
Proof.
  intros e t l c t' H Hc. unfold p_symlink in H. destruct e; [inversion H; subst; reflexivity|].
  destruct l as [|l0 l]; [inversion H; subst; reflexivity|].
  destruct (parent_look t (l0 :: l)) as [[| |]| | |]; try discriminate; try (inversion H; subst; reflexivity).
  destruct (kind_at t (l0 :: l)); inversion H; subst; first [reflexivity | congruence].
Qed.

(* ---- link and symlink add exactly one entry, and the tree stays well formed ---- *)
Theorem link_ok : forall t s d t', wf t -> p_link t s d = Some (TOk, t') ->
  exists k, kind_at t s = Some k /\ k <> KDir /\ kind_at t d = None /\ t' = t ++ [(d, k)] /\ wf t'.
Proof.
  intros t s d t' Hwf H. unfold p_link in H.
  destruct s as [|s0 s]; [discriminate|]. destruct d as [|d0 d]; [discriminate|].
  destruct (parent_look t (s0 :: s)) as [[| |]| | |]; try discriminate.
  destruct (kind_at t (s0 :: s)) as [[| |]|] eqn:Es; try discriminate;
  (destruct (parent_look t (d0 :: d)) as [[| |]| | |] eqn:Ep; try discriminate;
   destruct (kind_at t (d0 :: d)) eqn:Ed; [discriminate|]; inversion H; subst;
   eexists; split; [reflexivity|]; split; [discriminate|]; split; [reflexivity|]; split; [reflexivity|];
   apply wf_snoc; [exact Hwf | discriminate | exact Ed | apply parent_dir; exact Ep]).
Qed.

Theorem symlink_ok : forall e t l t', wf t -> p_symlink e t l = Some (TOk, t') ->
  e = false /\ kind_at t l = None /\ t' = t ++ [(l, KLink)] /\ wf t'.
Proof.
  intros e t l t' Hwf H. unfold p_symlink in H. destruct e; [discriminate|].
  destruct l as [|l0 l]; [discriminate|].
  destruct (parent_look t (l0 :: l)) as [[| |]| | |] eqn:Ep; try discriminate.
  destruct (kind_at t (l0 :: l)) eqn:Ed; [discriminate|]. inversion H; subst.
  split; [reflexivity|]. split; [reflexivity|]. split; [reflexivity|].
  apply wf_snoc; [exact Hwf | discriminate | exact Ed | apply parent_dir; exact Ep].
Qed.
