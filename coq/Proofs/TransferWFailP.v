(* C13, concurrent writes under an arbitrary failure plan: every dispatched chunk the server accepts is stored, the lowest
   rejected offset decides count and error, and the bytes below it are in the file, intact and contiguous. *)
From Coq Require Import List NArith ZArith Bool Arith Lia Permutation Strings.Byte.
From Sftp Require Import Base.GoSem Xfer.Transfer Proofs.TransferP Proofs.TransferE2EP Proofs.TransferFailP.
Import ListNotations.

Lemma splice_length_ge : forall f o d, length f <= length (splice f o d).
Proof.
  intros f o d. destruct d as [|x d']; [cbn [splice]; lia|]. cbn [splice]. set (d := x :: d').
  rewrite !app_length, firstn_length, skipn_length, app_length. unfold zeros. rewrite repeat_length. lia.
Qed.

Lemma splice_length_ne : forall f o d, d <> [] -> length (splice f o d) = Nat.max (length f) (o + length d).
Proof.
  intros f o d Hd. destruct d as [|x d']; [congruence|]. cbn [splice]. set (d := x :: d').
  rewrite !app_length, firstn_length, skipn_length, app_length. unfold zeros. rewrite repeat_length. lia.
Qed.

Lemma splice_window : forall f o d, firstn (length d) (skipn o (splice f o d)) = d.
Proof.
  intros f o d. destruct d as [|x d']; [reflexivity|]. cbn [splice]. set (d := x :: d').
  set (f' := f ++ zeros (o - length f)).
  assert (Hf' : o <= length f') by (unfold f', zeros; rewrite app_length, repeat_length; lia).
  assert (HA : length (firstn o f') = o) by (rewrite firstn_length; lia).
  rewrite skipn_app, HA, Nat.sub_diag. cbn [skipn]. rewrite skipn_all2 by lia. cbn [app].
  rewrite firstn_app, Nat.sub_diag. cbn [firstn]. rewrite app_nil_r. apply firstn_all.
Qed.

Lemma splice_preserves_prefix : forall f o d k, k <= o -> k <= length f -> firstn k (splice f o d) = firstn k f.
Proof.
  intros f o d k Hko Hkf. destruct d as [|x d']; [reflexivity|]. cbn [splice]. set (d := x :: d').
  set (f' := f ++ zeros (o - length f)).
  assert (Hl : o <= length f') by (unfold f', zeros; rewrite app_length, repeat_length; lia).
  rewrite firstn_app. rewrite firstn_length. replace (k - Nat.min o (length f')) with 0 by lia. cbn [firstn]. rewrite app_nil_r.
  rewrite firstn_firstn. replace (Nat.min k o) with k by lia. unfold f'. rewrite firstn_app. replace (k - length f) with 0 by lia.
  cbn [firstn]. rewrite app_nil_r. reflexivity.
Qed.

Lemma chunks_off_ge : forall fuel off n p, Forall (fun c => off <= fst c) (chunks fuel off n p).
Proof.
  induction fuel as [|f IH]; intros off n p; destruct n as [|n']; cbn [chunks]; try constructor; [cbn; lia|].
  eapply Forall_impl; [|apply IH]. cbn beta. intros; lia.
Qed.

(* writes at or above k do not touch the first k bytes of a file that already has them *)
Lemma writeAll_keeps_prefix : forall cs s b boff errs s' errs' k,
  Forall (fun c => k <= fst c) cs -> k <= length (file s) ->
  writeAll cs s b boff errs = (s', errs') ->
  firstn k (file s') = firstn k (file s) /\ k <= length (file s') /\ wfail s' = wfail s.
Proof.
  induction cs as [|[o l] cs IH]; intros s b boff errs s' errs' k Hall Hk H; cbn [writeAll] in H.
  - inversion H; subst. repeat split; [lia].
  - inversion Hall as [|? ? Ho Hrest]; subst. cbn [fst] in Ho. unfold srv_write in H. destruct (wfail s o) as [c|].
    + apply (IH _ _ _ _ _ _ k Hrest Hk H).
    + set (s1 := mkSrv (splice (file s) o (firstn l (skipn boff b))) (maxTx s) (rfail s) (wfail s)) in *.
      assert (Hk1 : k <= length (file s1)) by (unfold s1; cbn [file]; pose proof (splice_length_ge (file s) o (firstn l (skipn boff b))); lia).
      destruct (IH _ _ _ _ _ _ k Hrest Hk1 H) as [H1 [H2 H3]]. split; [|split; [exact H2 | exact H3]].
      rewrite H1. unfold s1. cbn [file]. apply splice_preserves_prefix; assumption.
Qed.

(* the errors writeAll collects, in chunk order; below the first one everything was stored *)
Theorem writeAll_prefix : forall fuel s off n p b boff errs s' errs',
  1 <= p -> n <= fuel -> n <= length b - boff ->
  writeAll (chunks fuel off n p) s b boff errs = (s', errs') ->
  exists E, errs' = errs ++ E /\ Forall (fun x => off <= fst x) E /\
    (E = [] -> file s' = splice (file s) off (firstn n (skipn boff b))) /\
    (forall eo e rest, E = (eo, e) :: rest ->
       eo < off + n /\ (exists c, e = XStatus c /\ wfail s eo = Some c) /\ Forall (fun x => eo < fst x) rest /\
       firstn (eo - off) (skipn off (file s')) = firstn (eo - off) (skipn boff b) /\
       (off < eo -> eo <= length (file s'))).
Proof.
  induction fuel as [|f IH]; intros s off n p b boff errs s' errs' Hp Hf Hb H.
  - assert (n = 0) by lia. subst. cbn [chunks writeAll] in H. inversion H; subst. exists []. rewrite app_nil_r.
    split; [reflexivity|]. split; [constructor|]. split; [reflexivity | intros; discriminate].
  - destruct n as [|n'].
    + cbn [chunks writeAll] in H. inversion H; subst. exists []. rewrite app_nil_r.
      split; [reflexivity|]. split; [constructor|]. split; [reflexivity | intros; discriminate].
    + cbn [chunks] in H. set (l := Nat.min (S n') p) in *. assert (Hl : 1 <= l <= S n') by (unfold l; lia).
      cbn [writeAll] in H. unfold srv_write in H. destruct (wfail s off) as [c|] eqn:Ew.
      * (* the first chunk is rejected *)
        destruct (IH s (off + l) (S n' - l) p b (boff + l) _ s' errs' Hp ltac:(lia) ltac:(lia) H) as [E2 [He [Hge _]]].
        exists ((off, XStatus c) :: E2). split; [rewrite He, <- app_assoc; reflexivity|].
        split; [constructor; [cbn; lia|]; eapply Forall_impl; [|exact Hge]; cbn beta; intros; lia|].
        split; [intros; discriminate|]. intros eo e rest Heq. inversion Heq; subst eo e rest. clearbody l.
        split; [lia|]. split; [exists c; split; [reflexivity | exact Ew]|].
        split; [eapply Forall_impl; [|exact Hge]; cbn beta; intros; lia|].
        split; [rewrite Nat.sub_diag; reflexivity | intros; lia].
      * (* the first chunk is stored *)
        set (d1 := firstn l (skipn boff b)) in *.
        assert (Hd1 : length d1 = l) by (unfold d1; rewrite firstn_length, skipn_length; lia).
        set (s1 := mkSrv (splice (file s) off d1) (maxTx s) (rfail s) (wfail s)) in *.
        destruct (IH s1 (off + l) (S n' - l) p b (boff + l) errs s' errs' Hp ltac:(lia) ltac:(lia) H) as [E [He [Hge [Hnil Hcons]]]].
        exists E. split; [exact He|]. split; [eapply Forall_impl; [|exact Hge]; cbn beta; intros; lia|].
        assert (Hlen1 : off + l <= length (file s1)).
        { unfold s1. cbn [file]. rewrite splice_length_ne by (intros E0; rewrite E0 in Hd1; cbn [length] in Hd1; lia). lia. }
        destruct (writeAll_keeps_prefix _ _ _ _ _ _ _ (off + l) (chunks_off_ge f (off + l) (S n' - l) p) Hlen1 H) as [Hpre [Hlen' _]].
        split.
        -- intros HE. rewrite (Hnil HE). unfold s1. cbn [file]. rewrite <- Hd1 at 1. rewrite splice_app. f_equal. unfold d1.
           replace (firstn (S n') (skipn boff b)) with (firstn (l + (S n' - l)) (skipn boff b)) by (f_equal; lia).
           rewrite firstn_add, skipn_skipn. reflexivity.
        -- intros eo e rest Heq. destruct (Hcons eo e rest Heq) as [H1 [H2 [H3 [H4 H5]]]].
           assert (Heo : off + l <= eo) by (rewrite Heq in Hge; inversion Hge; assumption).
           split; [lia|]. split; [exact H2|]. split; [exact H3|]. split; [|intros _; lia].
           (* the window [off, eo) = chunk 1 (kept by the later writes) ++ the rest (induction) *)
           replace (eo - off) with (l + (eo - (off + l))) by lia. rewrite !firstn_add, !skipn_skipn. f_equal; [|exact H4].
           assert (Hw1 : firstn l (skipn off (file s1)) = d1).
           { unfold s1. cbn [file]. rewrite <- Hd1. apply splice_window. }
           change (firstn l (skipn boff b)) with d1. rewrite <- Hw1.
           (* firstn l (skipn off X) depends only on firstn (off + l) X *)
           assert (Hdep : forall X Y : bytes, firstn (off + l) X = firstn (off + l) Y -> firstn l (skipn off X) = firstn l (skipn off Y)).
           { intros X Y HXY. rewrite (firstn_skipn_comm l off X), (firstn_skipn_comm l off Y). rewrite HXY. reflexivity. }
           apply Hdep. exact Hpre.
Qed.

Lemma firstn_chunks : forall k fuel off n p, 1 <= p -> n <= fuel ->
  firstn k (chunks fuel off n p) = chunks fuel off (Nat.min n (k * p)) p.
Proof.
  induction k as [|k IH]; intros fuel off n p Hp Hf.
  - cbn [firstn Nat.mul]. rewrite Nat.min_0_r. destruct fuel; reflexivity.
  - destruct n as [|n']; [cbn [Nat.min]; destruct fuel; reflexivity|].
    destruct fuel as [|f]; [lia|]. cbn [chunks firstn].
    set (l := Nat.min (S n') p).
    assert (Hpos : exists m, Nat.min (S n') (S k * p) = S m) by (exists (Nat.min (S n') (S k * p) - 1); cbn [Nat.mul]; lia).
    destruct Hpos as [m Hm]. rewrite Hm. cbn [chunks].
    assert (Hl : Nat.min (S m) p = l) by (unfold l; rewrite <- Hm; cbn [Nat.mul]; lia).
    rewrite Hl. f_equal. rewrite (IH f (off + l) (S n' - l) p Hp ltac:(unfold l; lia)). f_equal.
    unfold l in *. cbn [Nat.mul] in Hm. lia.
Qed.

Lemma reduce_head_of_increasing : forall eo e rest,
  Forall (fun x : nat * xerr => eo < fst x) rest -> reduce_first_err ((eo, e) :: rest) = Some (eo, e).
Proof.
  intros eo e rest Hall. destruct (reduce_first_err ((eo, e) :: rest)) as [x|] eqn:R.
  - apply reduce_is_min in R. destruct R as [Hin Hmin]. destruct Hin as [<-|Hin]; [reflexivity|].
    exfalso. rewrite Forall_forall in Hall. specialize (Hall x Hin). specialize (Hmin (eo, e) (or_introl eq_refl)). cbn [fst] in Hmin. lia.
  - apply reduce_none_iff in R. discriminate.
Qed.

(* writeAtConcurrent with k chunks dispatched before the cancellation took effect, any set of rejected chunks *)
Theorem writeConc_prefix : forall s off b p k s' cnt eopt,
  1 <= p -> writeConc s off b p k = (s', cnt, eopt) ->
  match eopt with
  | Some e => cnt <= length b /\ firstn cnt (skipn off (file s')) = firstn cnt b /\
              exists c, e = XStatus c /\ wfail s (off + cnt) = Some c
  | None => cnt = length b /\ (length b <= k * p -> file s' = splice (file s) off b)
  end.
Proof.
  intros s off b p k s' cnt eopt Hp H. unfold writeConc in H.
  rewrite (firstn_chunks k (length b) off (length b) p Hp (le_n _)) in H.
  set (n := Nat.min (length b) (k * p)) in *.
  destruct (writeAll (chunks (length b) off n p) s b 0 []) as [s1 errs] eqn:W.
  destruct (writeAll_prefix (length b) s off n p b 0 [] s1 errs Hp ltac:(unfold n; lia) ltac:(unfold n; lia) W) as [E [He [Hge [Hnil Hcons]]]].
  cbn [app] in He. subst errs. destruct E as [|[eo e] rest].
  - cbn [reduce_first_err fold_left] in H. inversion H; subst. split; [reflexivity|]. intros Hk.
    rewrite (Hnil eq_refl). cbn [skipn]. unfold n. replace (Nat.min (length b) (k * p)) with (length b) by lia. rewrite firstn_all. reflexivity.
  - destruct (Hcons eo e rest eq_refl) as [H1 [[c [Hc Hw]] [H3 [H4 _]]]].
    rewrite (reduce_head_of_increasing eo e rest H3) in H. inversion H; subst s' cnt eopt.
    pose proof (Forall_inv Hge) as Hoff. cbn [fst] in Hoff. cbn [skipn] in H4.
    split; [unfold n in H1; lia|]. split; [exact H4|]. exists c. split; [exact Hc|]. replace (off + (eo - off)) with eo by lia. exact Hw.
Qed.

(* ReadFromWithConcurrency: the File offset marks the end of the intact prefix *)
Theorem readFromConc_prefix : forall s p src off k s' n eopt foff,
  1 <= p -> readFromConc s p src off k = (s', n, eopt, foff) ->
  match eopt with
  | Some e => off <= foff /\ foff - off <= length src /\
              firstn (foff - off) (skipn off (file s')) = firstn (foff - off) src /\
              exists c, e = XStatus c /\ wfail s foff = Some c
  | None => foff = off + n /\ (length src <= k * p -> n = length src /\ file s' = splice (file s) off src)
  end.
Proof.
  intros s p src off k s' n eopt foff Hp H. unfold readFromConc in H.
  rewrite (firstn_chunks k (length src) off (length src) p Hp (le_n _)) in H.
  set (m := Nat.min (length src) (k * p)) in *.
  destruct (writeAll (chunks (length src) off m p) s src 0 []) as [s1 errs] eqn:W.
  destruct (writeAll_prefix (length src) s off m p src 0 [] s1 errs Hp ltac:(unfold m; lia) ltac:(unfold m; lia) W) as [E [He [Hge [Hnil Hcons]]]].
  cbn [app] in He. subst errs. rewrite fold_add_snd in H.
  destruct (chunks_spec (length src) off m p Hp ltac:(unfold m; lia)) as [Hsum _]. cbn zeta in Hsum. rewrite Hsum in H. cbn [Nat.add] in H.
  destruct E as [|[eo e] rest].
  - cbn [reduce_first_err fold_left] in H. inversion H; subst. split; [reflexivity|]. intros Hk.
    assert (Hm : m = length src) by (unfold m; lia). split; [exact Hm|].
    rewrite (Hnil eq_refl). cbn [skipn]. rewrite Hm, firstn_all. reflexivity.
  - destruct (Hcons eo e rest eq_refl) as [H1 [[c [Hc Hw]] [H3 [H4 _]]]].
    rewrite (reduce_head_of_increasing eo e rest H3) in H. inversion H; subst s' n eopt foff.
    pose proof (Forall_inv Hge) as Hoff. cbn [fst] in Hoff. cbn [skipn] in H4.
    split; [exact Hoff|]. split; [unfold m in H1; lia|]. split; [exact H4|]. exists c. split; assumption.
Qed.
