From Coq Require Import List NArith Bool Lia.
From Sftp Require Import Base.GoSem Base.Bits Wire.Prim Wire.Packets Mode.FileMode Srv.ReadOnly.
Import ListNotations.
Open Scope N_scope.

(* only the low six bits of pflags matter for every predicate involved *)
Lemma has_low (v bit : N) k : bit < 2 ^ N.of_nat k -> has v bit = has (v mod 2 ^ N.of_nat k) bit.
Proof.
  intros Hb. unfold has. f_equal. f_equal.
  apply N.bits_inj. intros n. rewrite !N.land_spec.
  destruct (N.ltb_spec n (N.of_nat k)) as [Hn|Hn].
  - rewrite N.mod_pow2_bits_low by exact Hn. reflexivity.
  - assert (Hz : N.testbit bit n = false).
    { destruct (N.eq_dec bit 0) as [->|Hnz]; [apply N.bits_0|].
      apply N.bits_above_log2. apply N.log2_lt_pow2; [lia|].
      eapply N.lt_le_trans; [exact Hb|]. apply N.pow_le_mono_r; lia. }
    rewrite Hz, !andb_false_r. reflexivity.
Qed.

Lemma land_low (v m : N) k : m < 2 ^ N.of_nat k -> N.land v m = N.land (v mod 2 ^ N.of_nat k) m.
Proof.
  intros Hb. apply N.bits_inj. intros n. rewrite !N.land_spec.
  destruct (N.ltb_spec n (N.of_nat k)) as [Hn|Hn].
  - rewrite N.mod_pow2_bits_low by exact Hn. reflexivity.
  - assert (Hz : N.testbit m n = false).
    { destruct (N.eq_dec m 0) as [->|Hnz]; [apply N.bits_0|].
      apply N.bits_above_log2. apply N.log2_lt_pow2; [lia|].
      eapply N.lt_le_trans; [exact Hb|]. apply N.pow_le_mono_r; lia. }
    rewrite Hz, !andb_false_r. reflexivity.
Qed.

Definition open_ok (fixed : bool) (pf : N) : bool :=
  implb (open_readonly fixed pf)
        (negb (existsb mutating (match open_osflags pf with Some f => [OOpenFile f] | None => [] end))).

Lemma open_ok_low fixed pf : open_ok fixed pf = open_ok fixed (pf mod 64).
Proof.
  unfold open_ok, open_readonly, open_osflags.
  change 64 with (2 ^ N.of_nat 6).
  rewrite (has_low pf pf_read 6), (has_low pf pf_write 6), (has_low pf pf_creat 6),
          (has_low pf pf_trunc 6), (has_low pf pf_excl 6) by (vm_compute; reflexivity).
  rewrite (land_low pf (N.lor pf_write (N.lor pf_creat pf_trunc)) 6) by (vm_compute; reflexivity).
  reflexivity.
Qed.

(* all 64 open-flag sets, lifted to every 32-bit (indeed every) pflags word *)
Lemma open_gate_sound : forall pf, open_ok true pf = true.
Proof.
  intros pf. rewrite open_ok_low.
  assert (H : forallb (open_ok true) (bits 6) = true) by (vm_compute; reflexivity).
  apply (forallb_bits _ 6%nat H). apply N.mod_lt. discriminate.
Qed.

Lemma setstat_effects_mutating fl : forallb mutating
  ((if has fl fl_size then [OTruncate] else []) ++ (if has fl fl_perm then [OChmod] else []) ++
   (if has fl fl_uidgid then [OChown] else []) ++ (if has fl fl_acmod then [OChtimes] else [])) = true.
Proof. destruct (has fl fl_size), (has fl fl_perm), (has fl fl_uidgid), (has fl fl_acmod); reflexivity. Qed.

Theorem ro_never_mutates : forall p, gate true p = true -> may_mutate p = false.
Proof.
  intros p H. unfold may_mutate.
  destruct p; cbn [gate not_read_only_marker ext_readonly negb] in H; try discriminate; cbn [effects existsb mutating orb]; try reflexivity.
  (* POpen *)
  pose proof (open_gate_sound pflags) as Ho. unfold open_ok in Ho. rewrite H in Ho. cbn [implb] in Ho.
  apply negb_true_iff in Ho. exact Ho.
Qed.

Theorem ro_denied_is_perm : forall fixed p, gate fixed p = false -> ro_serve fixed p = (Some 3, []).
Proof. intros fixed p H. unfold ro_serve. rewrite H. reflexivity. Qed.

Theorem ro_allowed_unchanged : forall fixed p, gate fixed p = true -> ro_serve fixed p = (None, effects p).
Proof. intros fixed p H. unfold ro_serve. rewrite H. reflexivity. Qed.

Theorem ro_reads_work : forall p, reading_request p = true -> gate true p = true.
Proof.
  intros p H. destruct p; cbn [reading_request] in H; try discriminate; try reflexivity.
  cbn [gate not_read_only_marker open_readonly].
  repeat (apply orb_true_iff in H; destruct H as [H|H]); apply N.eqb_eq in H; subst; reflexivity.
Qed.

(* every request that can reach a modifying call is refused, whatever came before it: sequences *)
Theorem ro_sequence_never_mutates : forall ps,
  Forall (fun o => mutating o = false) (flat_map (fun p => snd (ro_serve true p)) ps).
Proof.
  induction ps as [|p ps IH]; cbn [flat_map]; [constructor|].
  apply Forall_app. split; [|exact IH].
  unfold ro_serve. destruct (gate true p) eqn:G; cbn [snd]; [|constructor].
  pose proof (ro_never_mutates p G) as Hm. unfold may_mutate in Hm.
  apply Forall_forall. intros o Ho. destruct (mutating o) eqn:E; [|reflexivity].
  exfalso. assert (existsb mutating (effects p) = true) by (apply existsb_exists; exists o; split; assumption). congruence.
Qed.

(* the pinned tree (finding F2): three requests pass the gate and modify *)
Theorem ro_pinned_refuted :
  (gate false (PExtHardlink 1 [] []) = true /\ may_mutate (PExtHardlink 1 [] []) = true) /\
  (gate false (POpen 1 [] 9 0 (ARaw [])) = true /\ may_mutate (POpen 1 [] 9 0 (ARaw [])) = true) /\
  (gate false (POpen 1 [] 17 0 (ARaw [])) = true /\ may_mutate (POpen 1 [] 17 0 (ARaw [])) = true).
Proof. vm_compute. repeat split; reflexivity. Qed.

(* ---- which EXTENDED requests can modify anything: decided by the extension name, byte for byte ---- *)
Lemma bytes_eqb_true : forall a b, bytes_eqb a b = true -> a = b.
Proof.
  unfold bytes_eqb. intros a. induction a as [|x a IH]; intros [|y b] H; cbn in H; try discriminate H; [reflexivity|].
  apply andb_prop in H. destruct H as [Hlen H]. apply andb_prop in H. destruct H as [Hxy Hrest].
  apply Byte.byte_dec_bl in Hxy. subst y. f_equal. apply IH. rewrite Hlen. exact Hrest.
Qed.

(* the name the request carries, as the decoder reads it: the string after the request id *)
Definition ext_name (payload : bytes) : option bytes :=
  match parse [KU32; KStr] payload with
  | Ok ([FU32 _; FStr name], _) => Some name
  | _ => None
  end.

Theorem ext_modifying_only_exact_names : forall payload p,
  dec_ext_A payload = Ok p -> may_mutate p = true ->
  ext_name payload = Some n_posix_rename \/ ext_name payload = Some n_hardlink.
Proof.
  intros payload p. unfold dec_ext_A, ext_name, bind.
  destruct (parse [KU32; KStr] payload) as [[fs rest]|e|]; [|intros H; discriminate H|intros H; discriminate H].
  destruct fs as [|f1 fs]; [intros H; discriminate H|].
  destruct f1; try (intros H; discriminate H).
  destruct fs as [|f2 fs]; [intros H; discriminate H|].
  destruct f2; try (intros H; discriminate H).
  destruct fs as [|f3 fs]; [|intros H; discriminate H].
  destruct (bytes_eqb _ n_statvfs) eqn:E1.
  - destruct (parse [KU32; KStr; KStr] payload) as [[fs2 r2]|e2|]; [|intros H; discriminate H|intros H; discriminate H].
    intros H Hm. exfalso. revert H Hm.
    repeat (match goal with |- context [match ?x with _ => _ end] => destruct x end; try (intros H; discriminate H)).
    intros H; inversion H; subst; cbn; intros Hm; discriminate Hm.
  - destruct (bytes_eqb _ n_posix_rename) eqn:E2.
    + intros _ _. left. apply bytes_eqb_true in E2. rewrite E2. reflexivity.
    + destruct (bytes_eqb _ n_hardlink) eqn:E3.
      * intros _ _. right. apply bytes_eqb_true in E3. rewrite E3. reflexivity.
      * intros H Hm. inversion H; subst. cbn in Hm. discriminate Hm.
Qed.
