(* Lemmas about Mode/LongName.v (never imported by a model file). *)
From Coq Require Import List NArith ZArith Lia Bool Strings.Byte ZifyBool ZifyN ZifyNat.
From Sftp Require Import Base.Bits Mode.FileMode Mode.LongName.
Import ListNotations.
Ltac Zify.zify_post_hook ::= Z.div_mod_to_equations.

(* ================= decimal columns ================= *)
Open Scope N_scope.

Lemma dval_digit : forall d, d < 10 -> dval (digit d) = Some d.
Proof.
  intros d Hd.
  assert (H : d = 0 \/ d = 1 \/ d = 2 \/ d = 3 \/ d = 4 \/ d = 5 \/ d = 6 \/ d = 7 \/ d = 8 \/ d = 9) by lia.
  repeat (destruct H as [-> | H]; [reflexivity|]). subst d. reflexivity.
Qed.

Lemma digit_no_sp : forall d, is_sp (digit d) = false.
Proof.
  intros d. unfold digit.
  destruct d as [|p]; [reflexivity|].
  do 4 (destruct p as [p|p|]; try reflexivity).
Qed.

(* what a digit string denotes when read after an accumulator *)
Lemma dec_val_aux_app : forall s t acc,
  dec_val_aux (s ++ t) acc = match dec_val_aux s acc with Some a => dec_val_aux t a | None => None end.
Proof.
  induction s as [|c s IH]; intros t acc; cbn [app dec_val_aux]; [reflexivity|].
  destruct (dval c); [apply IH | reflexivity].
Qed.

(* simpler, sufficient statement: digits of n, most significant first *)
Fixpoint digits_fuel (fuel : nat) (n : N) : list byte :=
  match fuel with
  | O => []
  | S f => if n / 10 =? 0 then [digit (n mod 10)] else digits_fuel f (n / 10) ++ [digit (n mod 10)]
  end.

Lemma dec_fuel_digits : forall fuel n acc, dec_fuel fuel n acc = digits_fuel fuel n ++ acc.
Proof.
  induction fuel as [|f IH]; intros n acc; cbn [dec_fuel digits_fuel]; [reflexivity|].
  destruct (n / 10 =? 0); [reflexivity|]. rewrite IH, <- app_assoc. reflexivity.
Qed.

Lemma digits_fuel_val : forall fuel n, n < 2 ^ N.of_nat fuel -> (fuel <> 0)%nat ->
  dec_val_aux (digits_fuel fuel n) 0 = Some n /\ digits_fuel fuel n <> [] /\ no_sp (digits_fuel fuel n) = true.
Proof.
  induction fuel as [|f IH]; intros n Hn Hf; [congruence|].
  cbn [digits_fuel].
  assert (Hmod : n mod 10 < 10) by (apply N.mod_lt; lia).
  destruct (n / 10 =? 0) eqn:E.
  - apply N.eqb_eq in E. cbn [dec_val_aux]. rewrite dval_digit by exact Hmod.
    split; [f_equal; pose proof (N.div_mod n 10); lia|]. split; [discriminate|].
    cbn [no_sp forallb]. rewrite digit_no_sp. reflexivity.
  - apply N.eqb_neq in E.
    assert (Hf' : (f <> 0)%nat).
    { intros ->. change (2 ^ N.of_nat 1) with 2 in Hn. apply E. apply N.div_small. lia. }
    assert (Hn' : n / 10 < 2 ^ N.of_nat f).
    { rewrite Nat2N.inj_succ, N.pow_succ_r' in Hn. apply N.div_lt_upper_bound; lia. }
    destruct (IH (n / 10) Hn' Hf') as (Hv & Hne & Hsp).
    split; [|split].
    + rewrite dec_val_aux_app, Hv. cbn [dec_val_aux]. rewrite dval_digit by exact Hmod.
      f_equal. pose proof (N.div_mod n 10). lia.
    + destruct (digits_fuel f (n / 10)); [congruence | discriminate].
    + unfold no_sp in *. rewrite forallb_app, Hsp. cbn [forallb]. rewrite digit_no_sp. reflexivity.
Qed.

Lemma dec_spec : forall n, dec_val (dec n) = Some n /\ col_ok (dec n) = true.
Proof.
  intros n. unfold dec. rewrite dec_fuel_digits, app_nil_r.
  assert (Hn : n < 2 ^ N.of_nat (S (N.to_nat (N.size n)))).
  { rewrite Nat2N.inj_succ, N2Nat.id, N.pow_succ_r'. pose proof (N.size_gt n). lia. }
  destruct (digits_fuel_val _ n Hn ltac:(discriminate)) as (Hv & Hne & Hsp).
  unfold dec_val, col_ok. destruct (digits_fuel _ n) eqn:E; [congruence|]. split; assumption.
Qed.

(* the digits never start with '-' *)
Lemma dec_head_digit : forall n, exists c r, dec n = c :: r /\ Byte.eqb c "-"%byte = false.
Proof.
  intros n. destruct (dec_spec n) as [Hv _]. unfold dec_val in Hv.
  destruct (dec n) as [|c r]; [discriminate|]. exists c, r. split; [reflexivity|].
  cbn [dec_val_aux] in Hv. destruct (Byte.eqb c "-"%byte) eqn:E; [|reflexivity].
  apply Byte.byte_dec_bl in E. subst c. discriminate.
Qed.

Lemma sdec_spec : forall z, sdec_val (sdec z) = Some z /\ col_ok (sdec z) = true.
Proof.
  intros z. destruct z as [|p|p]; cbn [sdec].
  - vm_compute. split; reflexivity.
  - destruct (dec_spec (Z.to_N (Z.pos p))) as [Hv Hc]. destruct (dec_head_digit (Z.to_N (Z.pos p))) as (c & r & E & Hm).
    split; [|exact Hc]. unfold sdec_val. rewrite E, Hm, <- E, Hv. reflexivity.
  - destruct (dec_spec (N.pos p)) as [Hv Hc]. split.
    + unfold sdec_val. change (Byte.eqb "-"%byte "-"%byte) with true. cbn iota. rewrite Hv. reflexivity.
    + unfold col_ok in *. destruct (dec (N.pos p)); [discriminate|]. cbn [no_sp forallb] in *. exact Hc.
Qed.
Close Scope N_scope.

(* ================= columns ================= *)
Lemma no_sp_app : forall a b, no_sp (a ++ b) = no_sp a && no_sp b.
Proof. intros a b. unfold no_sp. apply forallb_app. Qed.

Lemma no_sp_repeat : forall c n, is_sp c = false -> no_sp (repeat c n) = true.
Proof. intros c n Hc. induction n as [|n IH]; [reflexivity|]. cbn [repeat no_sp forallb]. rewrite Hc. exact IH. Qed.

Lemma col_ok_app_l : forall a b, col_ok a = true -> no_sp b = true -> col_ok (a ++ b) = true.
Proof.
  intros a b Ha Hb. destruct a as [|c a]; [discriminate|]. cbn [app col_ok] in *.
  change (c :: a ++ b) with ((c :: a) ++ b). rewrite no_sp_app, Ha, Hb. reflexivity.
Qed.

Lemma col_ok_app_r : forall a b, no_sp a = true -> col_ok b = true -> col_ok (a ++ b) = true.
Proof.
  intros a b Ha Hb. assert (Hn : no_sp b = true) by (destruct b; [discriminate | exact Hb]).
  destruct a as [|c a]; [exact Hb|]. cbn [app col_ok]. change (c :: a ++ b) with ((c :: a) ++ b).
  rewrite no_sp_app, Ha, Hn. reflexivity.
Qed.

Lemma col_ok_no_sp : forall a, col_ok a = true -> no_sp a = true.
Proof. intros [|c a] H; [discriminate | exact H]. Qed.

Lemma padl0_col : forall w s, col_ok s = true -> col_ok (padl0 w s) = true.
Proof. intros w s H. unfold padl0. apply col_ok_app_r; [apply no_sp_repeat; reflexivity | exact H]. Qed.

Lemma month_col : forall m, col_ok (month_name m) = true.
Proof.
  intros m. unfold month_name.
  destruct m as [|p|p]; try reflexivity.
  do 4 (destruct p as [p|p|]; try reflexivity).
Qed.

Lemma fmt_hhmm_col : forall s, col_ok (fmt_hhmm s) = true.
Proof.
  intros s. unfold fmt_hhmm. apply col_ok_app_l; [apply padl0_col, dec_spec|].
  rewrite no_sp_app. cbn [no_sp forallb]. change (negb (is_sp ":"%byte)) with true. cbn [andb].
  apply col_ok_no_sp, padl0_col, dec_spec.
Qed.

Lemma fmt_year_col : forall s, col_ok (fmt_year s) = true.
Proof. intros s. unfold fmt_year. destruct (civil_from_days (s / 86400)) as [[y m] d]. apply padl0_col, dec_spec. Qed.

Lemma year_or_time_col : forall mt now, col_ok (year_or_time mt now) = true.
Proof. intros mt now. unfold year_or_time. destruct (shows_year mt now); [apply fmt_year_col | apply fmt_hhmm_col]. Qed.

Lemma no_sp_subst_at : forall i l f, no_sp l = true -> (forall c, is_sp (f c) = false) -> no_sp (subst_at i l f) = true.
Proof.
  intros i l f Hl Hf. unfold subst_at. rewrite !no_sp_app.
  assert (H1 : no_sp (firstn i l) = true).
  { unfold no_sp in *. rewrite forallb_forall in *. intros x Hx. apply Hl.
    rewrite <- (firstn_skipn i l). apply in_or_app. left. exact Hx. }
  assert (H2 : no_sp (skipn (S i) l) = true).
  { unfold no_sp in *. rewrite forallb_forall in *. intros x Hx. apply Hl.
    rewrite <- (firstn_skipn (S i) l). apply in_or_app. right. exact Hx. }
  rewrite H1, H2. destruct (nth_error l i); cbn [no_sp forallb]; [rewrite Hf|]; reflexivity.
Qed.

Lemma mode_string_col : forall m, col_ok (mode_string m) = true.
Proof.
  intros m. unfold mode_string.
  set (c0 := if (N.land m w_type =? w_reg)%N then _ else _).
  assert (Hc0 : is_sp c0 = false).
  { subst c0. repeat match goal with |- context [if ?b then _ else _] => destruct b end; reflexivity. }
  assert (Hp : no_sp (perm_chars m) = true).
  { unfold perm_chars, no_sp. rewrite forallb_forall. intros x Hx. apply in_map_iff in Hx. destruct Hx as [i [<- _]].
    destruct (N.testbit m (N.of_nat (8 - i))); [|reflexivity].
    unfold rwx_char. destruct (Nat.modulo i 3) as [|[|k]]; reflexivity. }
  assert (Hb : no_sp (c0 :: perm_chars m) = true).
  { cbn [no_sp forallb]. rewrite Hc0. exact Hp. }
  assert (Hne : forall i l f, l <> [] -> subst_at i l f <> []).
  { intros i l f Hl E. unfold subst_at in E. apply app_eq_nil in E. destruct E as [E1 E2].
    apply app_eq_nil in E2. destruct E2 as [E2 E3].
    destruct i as [|i]; destruct l as [|a l]; try congruence; cbn in E1, E2; discriminate. }
  assert (Hf1 : forall c, is_sp (if is_x c then "s"%byte else "S"%byte) = false) by (intros c; destruct (is_x c); reflexivity).
  assert (Hf2 : forall c, is_sp (if is_x c then "t"%byte else "T"%byte) = false) by (intros c; destruct (is_x c); reflexivity).
  set (b0 := c0 :: perm_chars m) in *.
  assert (H0 : b0 <> []) by (subst b0; discriminate).
  set (b1 := if has m w_setuid then _ else b0).
  assert (H1 : no_sp b1 = true /\ b1 <> []).
  { subst b1. destruct (has m w_setuid); [split; [apply no_sp_subst_at; assumption | apply Hne; assumption] | split; assumption]. }
  set (b2 := if has m w_setgid then _ else b1).
  assert (H2 : no_sp b2 = true /\ b2 <> []).
  { subst b2. destruct H1. destruct (has m w_setgid); [split; [apply no_sp_subst_at; assumption | apply Hne; assumption] | split; assumption]. }
  set (b3 := if has m w_sticky then _ else b2).
  assert (H3 : no_sp b3 = true /\ b3 <> []).
  { subst b3. destruct H2. destruct (has m w_sticky); [split; [apply no_sp_subst_at; assumption | apply Hne; assumption] | split; assumption]. }
  destruct H3 as [Hn Hne3]. destruct b3; [congruence | exact Hn].
Qed.

(* ---- reading one column ---- *)
Definition colfmt (a : nat) (w : list byte) (b : nat) (rest : list byte) : list byte :=
  repeat sp a ++ w ++ repeat sp b ++ sp :: rest.

Lemma skip_sp_repeat : forall a x, skip_sp (repeat sp a ++ x) = skip_sp x.
Proof. induction a as [|a IH]; intros x; [reflexivity|]. cbn [repeat app skip_sp]. change (is_sp sp) with true. apply IH. Qed.

Lemma take_word_col : forall w x, no_sp w = true -> take_word (w ++ sp :: x) = (w, sp :: x).
Proof.
  induction w as [|c w IH]; intros x Hw.
  - cbn [app take_word]. change (is_sp sp) with true. reflexivity.
  - cbn [no_sp forallb] in Hw. apply andb_true_iff in Hw. destruct Hw as [Hc Hw].
    cbn [app take_word]. destruct (is_sp c); [discriminate|]. rewrite (IH x Hw). reflexivity.
Qed.

Lemma repeat_sp_cons : forall b x, repeat sp b ++ sp :: x = sp :: repeat sp b ++ x.
Proof. induction b as [|b IH]; intros x; [reflexivity|]. cbn [repeat app]. rewrite IH. reflexivity. Qed.

Lemma next_col_colfmt : forall a w b rest, col_ok w = true -> next_col (colfmt a w b rest) = (w, repeat sp b ++ rest).
Proof.
  intros a w b rest Hw. unfold colfmt, next_col. rewrite skip_sp_repeat.
  destruct w as [|c w]; [discriminate|]. cbn [col_ok] in Hw.
  assert (Hs : skip_sp ((c :: w) ++ repeat sp b ++ sp :: rest) = (c :: w) ++ repeat sp b ++ sp :: rest).
  { cbn [app skip_sp]. cbn [no_sp forallb] in Hw. apply andb_true_iff in Hw. destruct Hw as [Hc _].
    destruct (is_sp c); [discriminate | reflexivity]. }
  rewrite Hs, repeat_sp_cons. rewrite (take_word_col (c :: w) (repeat sp b ++ rest) Hw). reflexivity.
Qed.

Lemma colfmt_pad : forall k a w b rest, repeat sp k ++ colfmt a w b rest = colfmt (k + a) w b rest.
Proof. intros. unfold colfmt. rewrite repeat_app, <- app_assoc. reflexivity. Qed.

Lemma run_ls_cols : forall now e,
  let '(_, m, d) := civil_from_days (le_mtime e / 86400)%Z in
  let yt := year_or_time (le_mtime e) now in
  run_ls now e =
  colfmt 0 (mode_string (le_mode e)) 0
   (colfmt (4 - length (dec (le_links e))) (dec (le_links e)) 0
    (colfmt 0 (le_uid e) (8 - length (le_uid e))
     (colfmt 0 (le_gid e) (8 - length (le_gid e))
      (colfmt (8 - length (sdec (le_size e))) (sdec (le_size e)) 0
       (colfmt 0 (month_name m) 0
        (colfmt 0 (dec (Z.to_N d)) 0
         (colfmt (5 - length yt) yt 0 (le_name e)))))))).
Proof.
  intros now e. unfold run_ls, fmt_date.
  destruct (civil_from_days (le_mtime e / 86400)%Z) as [[y m] d]. cbv zeta.
  unfold colfmt, padl, padr. cbn [repeat app]. repeat rewrite <- app_assoc. cbn [app]. reflexivity.
Qed.

(* the long name reads back, column by column, as the entry's attributes: for every mode word, link count, size (negative
   included), time, name (blanks included) and every owner / group text that is one non-empty word *)
Theorem run_ls_parses : forall now e,
  col_ok (le_uid e) = true -> col_ok (le_gid e) = true ->
  let p := parse_ls (run_ls now e) in
  let '(_, m, d) := civil_from_days (le_mtime e / 86400)%Z in
  lp_mode p = mode_string (le_mode e) /\ lp_links p = Some (le_links e) /\ lp_uid p = le_uid e /\ lp_gid p = le_gid e /\
  lp_size p = Some (le_size e) /\ lp_month p = month_name m /\ lp_day p = Some (Z.to_N d) /\
  lp_yt p = year_or_time (le_mtime e) now /\ lp_name p = le_name e.
Proof.
  intros now e Hu Hg. pose proof (run_ls_cols now e) as Hc.
  destruct (civil_from_days (le_mtime e / 86400)%Z) as [[y m] d]. cbv zeta in Hc. cbv zeta.
  unfold parse_ls. rewrite Hc.
  rewrite next_col_colfmt by apply mode_string_col. cbn [repeat app].
  rewrite next_col_colfmt by apply dec_spec. cbn [repeat app].
  rewrite next_col_colfmt by exact Hu. rewrite colfmt_pad.
  rewrite next_col_colfmt by exact Hg. rewrite colfmt_pad.
  rewrite next_col_colfmt by apply sdec_spec. cbn [repeat app].
  rewrite next_col_colfmt by apply month_col. cbn [repeat app].
  rewrite next_col_colfmt by apply dec_spec. cbn [repeat app].
  rewrite next_col_colfmt by apply year_or_time_col. cbn [repeat app].
  cbn [lp_mode lp_links lp_uid lp_gid lp_size lp_month lp_day lp_yt lp_name].
  repeat split; try reflexivity; try apply dec_spec; apply sdec_spec.
Qed.
