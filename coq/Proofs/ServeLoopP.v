From Coq Require Import List NArith Bool Lia Strings.Byte.
From Sftp Require Import Base.GoSem Wire.Prim Wire.Packets Srv.ServeLoop Proofs.PrimP Proofs.WireRtP Proofs.WirePktP.
Import ListNotations.
Open Scope N_scope.

Definition good_request (p : packet) : Prop :=
  wf_packet p = true /\ is_request p = true /\ ext_name_free p = true /\ len32 (bodyA p) <= max_msg_length.

Lemma ptype_small p : ptype p mod 256 = ptype p.
Proof. destruct p; reflexivity. Qed.

Lemma skipn_app_exact {A} (a b : list A) : skipn (length a) (a ++ b) = b.
Proof. rewrite skipn_app, skipn_all, PeanoNat.Nat.sub_diag. reflexivity. Qed.

(* one well-formed request at the head of the stream is received, decoded and handed on; the loop continues with the rest *)
Lemma serve_good_head : forall f fixed p tail, good_request p ->
  serve (S f) fixed (encA p ++ tail) =
    (let '(evs, e) := serve f fixed tail in (Dispatched (rawify p) :: evs, e)).
Proof.
  intros f fixed p tail [Hwf [Hreq [Hext Hlen]]]. cbn [serve].
  rewrite (recv_frame_encA p tail Hlen). cbn [f_res f_consumed]. rewrite ptype_small.
  rewrite (decA_encA p Hwf Hreq Hext). rewrite skipn_app_exact. reflexivity.
Qed.

(* a whole well-formed session followed by anything: the requests of the session are dispatched, in order, and what
   happens afterwards is what the loop does on the remaining bytes *)
Theorem serve_good_prefix : forall ps fixed tail f, Forall good_request ps ->
  serve (length ps + f) fixed (flat_map encA ps ++ tail) =
    (let '(evs, e) := serve f fixed tail in (map (fun p => Dispatched (rawify p)) ps ++ evs, e)).
Proof.
  induction ps as [|p ps IH]; intros fixed tail f Hall; cbn [flat_map length map app Nat.add].
  - destruct (serve f fixed tail); reflexivity.
  - inversion Hall as [|? ? Hp Hps]; subst. rewrite <- app_assoc. rewrite (serve_good_head _ fixed p _ Hp).
    rewrite (IH fixed tail f Hps). destruct (serve f fixed tail) as [evs e]. reflexivity.
Qed.

(* a frame that is received but fails to decode *)
Definition malformed_head (bad : bytes) : Prop :=
  exists ty payload e, f_res (recv_frame bad) = Ok (ty, payload) /\ decA ty payload = Err e.

(* repaired servers: a malformed packet is never acted upon - exactly the requests before it are dispatched, nothing
   else, whatever follows it in the stream *)
Theorem malformed_inert : forall ps bad f, Forall good_request ps -> malformed_head bad ->
  dispatched_packets (fst (serve (length ps + S f) true (flat_map encA ps ++ bad))) = map rawify ps /\
  any_bad (fst (serve (length ps + S f) true (flat_map encA ps ++ bad))) = false.
Proof.
  intros ps bad f Hall [ty [payload [e [Hr Hd]]]].
  rewrite (serve_good_prefix ps true bad (S f) Hall). cbn [serve]. rewrite Hr, Hd. cbn [fst].
  rewrite app_nil_r. split.
  - unfold dispatched_packets. rewrite flat_map_concat_map, map_map. cbn beta iota.
    induction ps as [|p t IH]; [reflexivity|]. cbn [map concat app]. f_equal. apply IH. inversion Hall; assumption.
  - unfold any_bad. induction ps as [|p t IH]; [reflexivity|]. cbn [map existsb orb]. apply IH. inversion Hall; assumption.
Qed.

(* the stream may also simply stop, or stop inside a frame: again exactly the complete requests are dispatched *)
Theorem cut_stream_prefix : forall ps tail f, Forall good_request ps ->
  (exists e, f_res (recv_frame tail) = Err e) ->
  dispatched_packets (fst (serve (length ps + S f) true (flat_map encA ps ++ tail))) = map rawify ps.
Proof.
  intros ps tail f Hall [e He].
  rewrite (serve_good_prefix ps true tail (S f) Hall). cbn [serve]. rewrite He.
  assert (Hnil : fst (match e with EEOF => ([], EndEOF) | _ => ([], EndRecv e) end : list sevent * sending) = [])
    by (destruct e; reflexivity).
  destruct e; cbn [fst]; rewrite app_nil_r;
  unfold dispatched_packets; rewrite flat_map_concat_map, map_map; cbn beta iota;
  clear; induction ps as [|p t IH]; try reflexivity; cbn [map concat app]; f_equal; apply IH.
Qed.

(* the pinned os-backed server dispatched the packet that failed to decode (finding F1): a MKDIR without its flags word *)
Theorem pinned_dispatches_malformed :
  let bad := [x00; x00; x00; x0a; x0e; x00; x00; x00; x01; x00; x00; x00; x01; x64]%byte in
  any_bad (fst (serve 3 false bad)) = true /\ any_bad (fst (serve 3 true bad)) = false /\
  snd (serve 3 true bad) = EndMalformed EShort.
Proof. vm_compute. repeat split; reflexivity. Qed.

(* an unknown type byte: the pinned server handed a nil packet to the packet manager *)
Theorem pinned_dispatches_unknown_type :
  let bad := [x00; x00; x00; x05; x63; x00; x00; x00; x01]%byte in
  fst (serve 3 false bad) = [DispatchedBad 99 EUnhandledType] /\ fst (serve 3 true bad) = [].
Proof. vm_compute. split; reflexivity. Qed.
