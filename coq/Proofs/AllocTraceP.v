(* An accepted allocator trace is a run of the model: the theorems of AllocP apply to what the real allocator did. *)
From Coq Require Import List Bool Arith Lia.
From Sftp Require Import Sched.Alloc Sched.AllocTrace Proofs.AllocP.
Import ListNotations.

Definition aop_of (e : aev) : aop := match e with AEvG oid _ => AGet oid | AEvL oid => ARelease oid | AEvX => AFree end.

Lemma areplay_run : forall tr a i a', areplay a tr i = inl a' -> a' = fold_left astep (map aop_of tr) a.
Proof.
  induction tr as [|e tr IH]; intros a i a' H; cbn [areplay map fold_left] in *; [inversion H; reflexivity|].
  destruct e as [oid p|oid|]; cbn [aop_of astep].
  - destruct (get_page a oid) as [a1 p1] eqn:G. destruct (p1 =? p); [|discriminate]. cbn [fst]. apply (IH _ _ _ H).
  - apply (IH _ _ _ H).
  - apply (IH _ _ _ H).
Qed.

Lemma fold_astep_app : forall l1 l2 a, fold_left astep (l1 ++ l2) a = fold_left astep l2 (fold_left astep l1 a).
Proof. intros. apply fold_left_app. Qed.

Theorem accepted_alloc_trace : forall tr a, areplay_trace tr = inl a ->
  a = fold_left astep (map aop_of tr) alloc0 /\ NoDup (all_pages a).
Proof.
  intros tr a H. pose proof (areplay_run _ _ _ _ H) as E. split; [exact E|]. subst a. apply no_double_lend.
Qed.

Lemma areplay_app_inv : forall pre post a i a', areplay a (pre ++ post) i = inl a' ->
  exists am, areplay a pre i = inl am /\ areplay am post (i + length pre) = inl a'.
Proof.
  induction pre as [|e pre IH]; intros post a i a' H; cbn [app areplay length] in *.
  - exists a. rewrite Nat.add_0_r. split; [reflexivity | exact H].
  - destruct e as [oid p|oid|].
    + destruct (get_page a oid) as [a1 p1]. destruct (p1 =? p); [|discriminate].
      destruct (IH _ _ _ _ H) as [am [H1 H2]]. exists am. split; [exact H1|]. replace (i + S (length pre)) with (S i + length pre) by lia. exact H2.
    + destruct (IH _ _ _ _ H) as [am [H1 H2]]. exists am. split; [exact H1|]. replace (i + S (length pre)) with (S i + length pre) by lia. exact H2.
    + destruct (IH _ _ _ _ H) as [am [H1 H2]]. exists am. split; [exact H1|]. replace (i + S (length pre)) with (S i + length pre) by lia. exact H2.
Qed.

(* in an accepted trace, the page a GetPage event handed out was lent to nobody at that moment *)
Theorem accepted_get_not_in_use : forall pre oid p post a,
  areplay_trace (pre ++ AEvG oid p :: post) = inl a ->
  ~ In p (all_used (fold_left astep (map aop_of pre) alloc0)).
Proof.
  intros pre oid p post a H. unfold areplay_trace in H.
  destruct (areplay_app_inv _ _ _ _ _ H) as [am [H1 H2]].
  pose proof (areplay_run _ _ _ _ H1) as E. rewrite <- E.
  cbn [areplay] in H2. destruct (get_page am oid) as [a1 p1] eqn:G. destruct (Nat.eqb_spec p1 p) as [->|]; [|discriminate].
  replace p with (snd (get_page am oid)) by (rewrite G; reflexivity).
  apply get_page_not_in_use. subst am. apply no_double_lend.
Qed.
