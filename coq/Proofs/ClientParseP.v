(* C20: the client's reply decoders are total (repaired tree) and were not (pinned tree). *)
From Coq Require Import List NArith Bool Lia ZArith ZifyN ZifyNat ZifyBool Strings.Byte.
From Sftp Require Import Base.GoSem Wire.Prim Wire.Packets Wire.ClientParse Proofs.PrimP Proofs.WireTotalP.
Import ListNotations.
Open Scope N_scope.

Lemma u32d_safe_nopanic b : u32d true b <> Panic.
Proof. apply u32_dec_safe_nopanic. Qed.
Lemma strd_safe_nopanic b : strd true b <> Panic.
Proof. apply str_dec_safe_nopanic. Qed.

Lemma u32_dec_ge4 b : (4 <= length b)%nat -> exists v r, u32_dec b = Ok (v, r).
Proof. intros H. destruct (u32_dec_total4 b H) as [v [r [E _]]]. exists v, r. exact E. Qed.

Lemma status_parse_nopanic id data : (4 <= length data)%nat -> status_parse true id data <> Panic.
Proof.
  intros H. unfold status_parse. np; try apply u32d_safe_nopanic.
Qed.

Lemma status_value_nopanic id data : (4 <= length data)%nat -> status_value true id data <> Panic.
Proof.
  intros H. unfold status_value. pose proof (status_parse_nopanic id data H) as Hs.
  destruct (status_parse true id data) as [[[]|]| |]; try discriminate; congruence.
Qed.

Ltac hd4 data H :=
  destruct (u32_dec_ge4 data H) as [?sid [?d ?E]]; rewrite E; cbn [bind].

Theorem parse_status_only_total id typ data : (4 <= length data)%nat -> parse_status_only true id typ data <> Panic.
Proof.
  intros H. unfold parse_status_only, unimplemented. destruct (typ =? t_status); [apply status_parse_nopanic; exact H | discriminate].
Qed.

Theorem parse_handle_total id typ data : (4 <= length data)%nat -> parse_handle true id typ data <> Panic.
Proof.
  intros H. unfold parse_handle, unimplemented. destruct (typ =? t_handle).
  - hd4 data H. destruct (negb (sid =? id)); [discriminate|].
    pose proof (strd_safe_nopanic d) as Hs. destruct (strd true d) as [[? ?]| |]; try discriminate. congruence.
  - destruct (typ =? t_status); [apply status_value_nopanic; exact H | discriminate].
Qed.

Theorem parse_attrs_total id typ data : (4 <= length data)%nat -> parse_attrs true id typ data <> Panic.
Proof.
  intros H. unfold parse_attrs, unimplemented. destruct (typ =? t_attrs).
  - hd4 data H. destruct (negb (sid =? id)); [discriminate|].
    pose proof (attrs_dec_nopanic true d) as Hs. destruct (attrs_dec true d) as [[? ?]| |]; try discriminate. congruence.
  - destruct (typ =? t_status); [apply status_value_nopanic; exact H | discriminate].
Qed.

Theorem parse_name1_total id typ data : (4 <= length data)%nat -> parse_name1 true id typ data <> Panic.
Proof.
  intros H. unfold parse_name1, unimplemented. destruct (typ =? t_name).
  - hd4 data H. destruct (negb (sid =? id)); [discriminate|].
    pose proof (u32d_safe_nopanic d) as Hu. destruct (u32d true d) as [[count d']| |]; try discriminate; [|congruence].
    destruct (negb (count =? 1)); [discriminate|].
    pose proof (strd_safe_nopanic d') as Hs. destruct (strd true d') as [[? ?]| |]; try discriminate. congruence.
  - destruct (typ =? t_status); [apply status_value_nopanic; exact H | discriminate].
Qed.

Lemma readdir_entries_nopanic : forall fuel count d, readdir_entries fuel true count d <> Panic.
Proof.
  induction fuel as [|f IH]; intros count d; cbn [readdir_entries]; destruct (count =? 0); try discriminate.
  pose proof (strd_safe_nopanic d) as H1. destruct (strd true d) as [[name d1]| |]; try discriminate; [|congruence].
  pose proof (strd_safe_nopanic d1) as H2. destruct (strd true d1) as [[lg d2]| |]; try discriminate; [|congruence].
  pose proof (attrs_dec_nopanic true d2) as H3. destruct (attrs_dec true d2) as [[a d3]| |]; try discriminate; [|congruence].
  pose proof (IH (count - 1) d3) as H4.
  destruct (readdir_entries f true (count - 1) d3) as [[[]|]| |]; try discriminate; congruence.
Qed.

Theorem parse_readdir_total id typ data : (4 <= length data)%nat -> parse_readdir true id typ data <> Panic.
Proof.
  intros H. unfold parse_readdir, unimplemented. destruct (typ =? t_name).
  - hd4 data H. destruct (negb (sid =? id)); [discriminate|].
    pose proof (u32d_safe_nopanic d) as Hu. destruct (u32d true d) as [[count d']| |]; try discriminate; [|congruence].
    apply readdir_entries_nopanic.
  - destruct (typ =? t_status); [apply status_parse_nopanic; exact H | discriminate].
Qed.

Theorem parse_statvfs_total id typ data : (4 <= length data)%nat -> parse_statvfs true id typ data <> Panic.
Proof.
  intros H. unfold parse_statvfs, unimplemented. destruct (typ =? t_extreply).
  - destruct (Nat.ltb (length data) 92); discriminate.
  - destruct (typ =? t_status); [apply status_value_nopanic; exact H | discriminate].
Qed.

Theorem parse_data_total id typ data want cap : (4 <= length data)%nat -> parse_data true id typ data want cap <> Panic.
Proof.
  intros H. unfold parse_data, unimplemented. destruct (typ =? t_data).
  - hd4 data H. destruct (negb (sid =? id)); [discriminate|].
    pose proof (u32d_safe_nopanic d) as Hu. destruct (u32d true d) as [[l d']| |]; try discriminate; [|congruence].
    destruct (len32 d' <? l); [discriminate|]. destruct cap as [c|]; [destruct (N.of_nat c <? l)|]; discriminate.
  - destruct (typ =? t_status); [apply status_parse_nopanic; exact H | discriminate].
Qed.

(* the bytes a DATA reply contributes never exceed what was asked for nor what was received *)
Theorem parse_data_bounded safe id typ data want cap d :
  parse_data safe id typ data want cap = Ok (CVal (VData d)) -> (length d <= want /\ length d <= length data)%nat.
Proof.
  unfold parse_data, unimplemented. destruct (typ =? t_data).
  - destruct (u32_dec data) as [[sid d0]| |] eqn:E0; cbn [bind]; try discriminate.
    destruct (negb (sid =? id)); [discriminate|].
    assert (Hl0 : (length d0 <= length data)%nat).
    { destruct data as [|? [|? [|? [|? ?]]]]; try discriminate. inversion E0; subst. cbn [length]. lia. }
    destruct (u32d safe d0) as [[l d1]| |] eqn:E1; try discriminate.
    assert (Hl1 : (length d1 <= length d0)%nat).
    { unfold u32d in E1. destruct safe; destruct d0 as [|? [|? [|? [|? ?]]]]; try discriminate; inversion E1; subst; cbn [length]; lia. }
    destruct (len32 d1 <? l); [destruct safe; discriminate|].
    destruct cap as [c|]; [destruct (N.of_nat c <? l); [destruct safe; discriminate|]|];
    intros H; inversion H; subst; rewrite firstn_length; lia.
  - destruct (typ =? t_status); [|discriminate]. intros H. exfalso.
    unfold status_parse in H. destruct (u32d safe data) as [[? ?]| |]; cbn [bind] in H; try discriminate.
    destruct (negb (n =? id)); try discriminate.
    destruct (u32d safe b) as [[? ?]| |]; cbn [bind] in H; try discriminate. destruct (n0 =? 0); discriminate.
Qed.

(* readChunkAt ends: with at most `want` requests it has an answer (every DATA reply either carries a byte or ends it) *)
Theorem read_chunk_returns : forall fuel replies want id acc,
  (want <= fuel)%nat -> read_chunk fuel true id replies want acc <> Err EOutOfFuel.
Proof.
  induction fuel as [|f IH]; intros replies want id acc Hf.
  - destruct want; [discriminate | lia].
  - destruct want as [|w]; [discriminate|]. cbn [read_chunk].
    destruct replies as [|[typ data] rest]; [discriminate|].
    destruct (parse_data true id typ data (S w) None) as [[[]|]| |] eqn:E; try discriminate.
    destruct d as [|x d']; [discriminate|].
    apply IH. cbn [length]. lia.
Qed.

Theorem read_chunk_nopanic : forall fuel replies want id acc,
  Forall (fun r => (4 <= length (snd r))%nat) replies -> read_chunk fuel true id replies want acc <> Panic.
Proof.
  induction fuel as [|f IH]; intros replies want id acc Hall.
  - destruct want; discriminate.
  - destruct want as [|w]; [discriminate|]. cbn [read_chunk].
    destruct replies as [|[typ data] rest]; [discriminate|].
    inversion Hall as [|? ? H1 H2]; subst. cbn [snd] in H1.
    pose proof (parse_data_total id typ data (S w) None H1) as Hp.
    destruct (parse_data true id typ data (S w) None) as [[[]|]| |] eqn:E; try discriminate; try congruence.
    destruct d as [|x d']; [discriminate|]. apply IH. exact H2.
Qed.

(* ---------- the pinned tree (safe = false): witnesses, each a reply of at least 4 bytes ---------- *)
Definition id7 : bytes := [x00; x00; x00; x07]%byte.

Theorem unsafe_status_panics : status_parse false 7 id7 = Panic.            (* STATUS carrying only its id *)
Proof. reflexivity. Qed.
Theorem unsafe_handle_panics : parse_handle false 7 t_handle id7 = Panic.    (* HANDLE without its string *)
Proof. reflexivity. Qed.
Theorem unsafe_name_panics : parse_readdir false 7 t_name (id7 ++ [x00; x00; x00; x01]%byte) = Panic.  (* count 1, no entry *)
Proof. reflexivity. Qed.
Theorem unsafe_data_panics : parse_data false 7 t_data (id7 ++ [x00; x00; x00; x09; x41]%byte) 8 None = Panic.  (* l > len *)
Proof. reflexivity. Qed.
Theorem unsafe_ok_status_is_nil_value : parse_handle false 7 t_status (id7 ++ [x00; x00; x00; x00]%byte) = Ok (CVal VOk).
Proof. reflexivity. Qed.

Definition empty_data : N * bytes := (t_data, id7 ++ [x00; x00; x00; x00]%byte).

(* a peer that always answers an empty DATA: the pinned readChunkAt needs more requests than any bound *)
Theorem unsafe_read_chunk_spins : forall n acc, read_chunk n false 7 (repeat empty_data n) 8 acc = Err EOutOfFuel.
Proof.
  induction n as [|n IH]; intros acc; [reflexivity|].
  cbn [repeat]. change (read_chunk (S n) false 7 (empty_data :: repeat empty_data n) 8 acc)
    with (read_chunk n false 7 (repeat empty_data n) 8 acc). apply IH.
Qed.

Theorem safe_read_chunk_stops : forall n acc, read_chunk (S n) true 7 (repeat empty_data (S n)) 8 acc = Ok (acc, Some ENoProgress).
Proof. intros n acc. reflexivity. Qed.
