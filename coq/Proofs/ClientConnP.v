From Coq Require Import List Bool Arith Lia.
From Sftp Require Import Conn.ClientConn.
Import ListNotations.

(* ---------- helpers ---------- *)
Lemma cstate_of_set_same : forall c st l, In c (map fst l) -> cstate_of c (set_state c st l) = Some st.
Proof.
  intros c st. induction l as [|[c' s'] t IH]; intros Hin; [destruct Hin|].
  cbn [set_state map fst cstate_of]. destruct (c' =? c) eqn:E; cbn [fst cstate_of]; rewrite E; [reflexivity|].
  apply IH. destruct Hin as [Heq|Hin]; [cbn [fst] in Heq; subst; rewrite Nat.eqb_refl in E; discriminate | exact Hin].
Qed.

Lemma cstate_of_set_other : forall c c2 st l, c2 <> c -> cstate_of c2 (set_state c st l) = cstate_of c2 l.
Proof.
  intros c c2 st. induction l as [|[c' s'] t IH]; intros Hne; [reflexivity|].
  cbn [set_state map fst cstate_of]. destruct (c' =? c) eqn:E; cbn [fst cstate_of].
  - apply Nat.eqb_eq in E. subst c'. replace (c =? c2) with false by (symmetry; apply Nat.eqb_neq; congruence). apply IH. exact Hne.
  - destruct (c' =? c2); [reflexivity | apply IH; exact Hne].
Qed.

Lemma cstate_of_in : forall c st l, cstate_of c l = Some st -> In c (map fst l).
Proof.
  intros c st. induction l as [|[c' s'] t IH]; intros H; [discriminate|]. cbn [cstate_of] in H. cbn [map fst].
  destruct (c' =? c) eqn:E; [left; apply Nat.eqb_eq; exact E | right; apply IH; exact H].
Qed.

Lemma in_remove_if : forall id e l, In e (remove_if id l) <-> In e l /\ fst e <> id.
Proof.
  intros id e l. unfold remove_if. rewrite filter_In. split; intros [H1 H2]; split; try assumption.
  - apply negb_true_iff in H2. apply Nat.eqb_neq in H2. exact H2.
  - apply negb_true_iff. apply Nat.eqb_neq. exact H2.
Qed.

Lemma lookup_if_in : forall id v l, lookup_if id l = Some v -> In (id, v) l.
Proof.
  intros id v. induction l as [|[i w] t IH]; intros H; [discriminate|]. cbn [lookup_if] in H.
  destruct (i =? id) eqn:E; [apply Nat.eqb_eq in E; inversion H; subst; left; reflexivity | right; apply IH; exact H].
Qed.

Lemma nodup_map_fst_remove_if : forall id l, NoDup (map fst l) -> NoDup (map fst (remove_if id l)).
Proof.
  intros id. induction l as [|[i w] t IH]; intros H; [constructor|]. cbn [map fst] in H. inversion H as [|? ? Hni Ht]; subst.
  unfold remove_if. cbn [filter fst]. destruct (i =? id); cbn [negb]; [apply IH; exact Ht|].
  cbn [map fst]. constructor; [|apply IH; exact Ht].
  intros Hin. apply Hni. apply in_map_iff in Hin. destruct Hin as [e [He Hin]]. apply in_remove_if in Hin.
  apply in_map_iff. exists e. split; [exact He | apply Hin].
Qed.

Lemma nodup_fst_unique {A B} : forall (l : list (A * B)) a b1 b2, NoDup (map fst l) -> In (a, b1) l -> In (a, b2) l -> b1 = b2.
Proof.
  induction l as [|[x y] t IH]; intros a b1 b2 Hnd H1 H2; [destruct H1|]. cbn [map fst] in Hnd. inversion Hnd as [|? ? Hni Ht]; subst.
  destruct H1 as [E1|H1], H2 as [E2|H2].
  - congruence.
  - inversion E1; subst. exfalso. apply Hni. apply in_map_iff. exists (a, b2). split; [reflexivity | exact H2].
  - inversion E2; subst. exfalso. apply Hni. apply in_map_iff. exists (a, b1). split; [reflexivity | exact H1].
  - eapply IH; eassumption.
Qed.

Lemma take_buf_spec : forall c l r rest, take_buf c l = Some (r, rest) ->
  In (c, r) l /\ (forall e, In e rest -> In e l) /\ (NoDup (map fst l) -> ~ In c (map fst rest) /\ NoDup (map fst rest)).
Proof.
  intros c. induction l as [|[c' r'] t IH]; intros r rest H; [discriminate|]. cbn [take_buf] in H.
  destruct (c' =? c) eqn:E.
  - apply Nat.eqb_eq in E. inversion H; subst. split; [left; reflexivity|]. split; [intros e He; right; exact He|].
    intros Hnd. cbn [map fst] in Hnd. inversion Hnd; subst. split; assumption.
  - destruct (take_buf c t) as [[r2 t2]|] eqn:Et; [|discriminate]. inversion H; subst.
    destruct (IH r t2 eq_refl) as [H1 [H2 H3]]. split; [right; exact H1|].
    split; [intros e [He|He]; [left; exact He | right; apply H2; exact He]|].
    intros Hnd. cbn [map fst] in Hnd. inversion Hnd as [|? ? Hni Ht]; subst. destruct (H3 Ht) as [H4 H5]. cbn [map fst]. split.
    + intros [Heq|Hin]; [apply Nat.eqb_neq in E; congruence | exact (H4 Hin)].
    + constructor; [|exact H5]. intros Hin. apply Hni. apply in_map_iff in Hin. destruct Hin as [e [He Hin]].
      apply in_map_iff. exists e. split; [exact He | apply H2; exact Hin].
Qed.

(* ---------- the invariant ---------- *)
Definition has_id (st : cstate) (i : nat) : Prop :=
  st = CHasId i \/ st = CRegistered i \/ st = CWaiting i \/ exists r, st = CDone i r.
Definition owed (st : cstate) (i : nat) : Prop := st = CRegistered i \/ st = CWaiting i.

Definition cinv (s : cst) : Prop :=
  NoDup (map fst (callers s)) /\
  NoDup (map fst (inflight s)) /\
  NoDup (map fst (bufs s)) /\
  (* an entry that still points at a caller belongs to a caller that is owed a result, under that caller's own id *)
  (forall i c, In (i, Some c) (inflight s) -> exists st, cstate_of c (callers s) = Some st /\ owed st i) /\
  (* a buffered result belongs to a caller that is owed one; a reply carries that caller's id; and no entry points at it *)
  (forall c r, In (c, r) (bufs s) ->
     (exists st i, cstate_of c (callers s) = Some st /\ owed st i /\ (forall j, r = ROk j -> j = i)) /\
     (forall i, ~ In (i, Some c) (inflight s))) /\
  (* ids come from the counter and no two callers share one *)
  (forall c st i, cstate_of c (callers s) = Some st -> has_id st i -> i <= nid s) /\
  (forall c1 c2 st1 st2 i, cstate_of c1 (callers s) = Some st1 -> cstate_of c2 (callers s) = Some st2 ->
     has_id st1 i -> has_id st2 i -> c1 = c2) /\
  (closed s = true -> forall i c, ~ In (i, Some c) (inflight s)).

Lemma cinv_init : forall n, cinv (cinit n).
Proof.
  intros n. unfold cinv, cinit. cbn [callers inflight bufs nid closed].
  assert (Hs : forall c st, cstate_of c (map (fun c => (c, CIdle)) (seq 0 n)) = Some st -> st = CIdle).
  { intros c st. induction (seq 0 n) as [|x t IH]; cbn [map cstate_of]; [discriminate|]. destruct (x =? c); [intros H; inversion H; reflexivity | exact IH]. }
  repeat split; try constructor; try (intros; contradiction).
  - rewrite map_map. cbn [fst]. rewrite map_id. apply seq_NoDup.
  - intros c st i H Hid. apply Hs in H. subst. destruct Hid as [H|[H|[H|[r H]]]]; discriminate.
  - intros c1 c2 st1 st2 i H1 _ Hid _. apply Hs in H1. subst. destruct Hid as [H|[H|[H|[r H]]]]; discriminate.
  - discriminate.
Qed.

Ltac owed_cases H := destruct H as [H|H]; try discriminate.

Lemma owed_has_id st i : owed st i -> has_id st i.
Proof. intros [H|H]; subst; unfold has_id; auto. Qed.

(* after changing only caller c's state from st0 to st1, facts about other callers carry over *)
Lemma cstate_set_cases : forall c st1 l c2 st,
  In c (map fst l) -> cstate_of c2 (set_state c st1 l) = Some st ->
  (c2 = c /\ st = st1) \/ (c2 <> c /\ cstate_of c2 l = Some st).
Proof.
  intros c st1 l c2 st Hin H. destruct (Nat.eq_dec c2 c) as [->|Hne].
  - left. rewrite cstate_of_set_same in H by exact Hin. inversion H. split; reflexivity.
  - right. rewrite cstate_of_set_other in H by exact Hne. split; assumption.
Qed.

Lemma map_fst_set_state : forall c st l, map fst (set_state c st l) = map fst l.
Proof. intros c st l. unfold set_state. rewrite map_map. apply map_ext. intros [a b]. cbn [fst]. destruct (a =? c); reflexivity. Qed.

Lemma nodup_snoc_c {A} : forall (l : list A) x, NoDup l -> ~ In x l -> NoDup (l ++ [x]).
Proof.
  induction l as [|y t IH]; intros x Hnd Hni; cbn [app]; [constructor; [intros []|constructor]|].
  inversion Hnd as [|? ? Hy Ht]; subst. constructor.
  - intros Hin. apply in_app_or in Hin. destruct Hin as [Hin|[<-|[]]]; [apply Hy; exact Hin | apply Hni; left; reflexivity].
  - apply IH; [exact Ht | intros H; apply Hni; right; exact H].
Qed.

Lemma NoDup_app_intro_c {A} : forall (l1 l2 : list A), NoDup l1 -> NoDup l2 -> (forall x, In x l1 -> In x l2 -> False) -> NoDup (l1 ++ l2).
Proof.
  induction l1 as [|x t IH]; intros l2 H1 H2 Hd; cbn [app]; [exact H2|].
  inversion H1 as [|? ? Hni Ht]; subst. constructor.
  - intros Hin. apply in_app_or in Hin. destruct Hin as [Hin|Hin]; [exact (Hni Hin) | exact (Hd x (or_introl eq_refl) Hin)].
  - apply IH; [exact Ht | exact H2 | intros y Hy1 Hy2; exact (Hd y (or_intror Hy1) Hy2)].
Qed.

(* changing caller c from a state that has id i to another state that has at most the same id keeps the id facts *)
Lemma ids_preserved : forall (cs : list (nat * cstate)) n c st0 st1,
  cstate_of c cs = Some st0 -> (forall j, has_id st1 j -> has_id st0 j) ->
  (forall c st i, cstate_of c cs = Some st -> has_id st i -> i <= n) ->
  (forall c1 c2 st1 st2 i, cstate_of c1 cs = Some st1 -> cstate_of c2 cs = Some st2 -> has_id st1 i -> has_id st2 i -> c1 = c2) ->
  (forall c2 st i, cstate_of c2 (set_state c st1 cs) = Some st -> has_id st i -> i <= n) /\
  (forall c1 c2 sa sb i, cstate_of c1 (set_state c st1 cs) = Some sa -> cstate_of c2 (set_state c st1 cs) = Some sb ->
     has_id sa i -> has_id sb i -> c1 = c2).
Proof.
  intros cs n c st0 st1 Ec Hsub Hid Hdist. pose proof (cstate_of_in _ _ _ Ec) as Hinc. split.
  - intros c2 st i H Hh. destruct (cstate_set_cases _ _ _ _ _ Hinc H) as [[-> ->]|[Hne H2]].
    + exact (Hid c st0 i Ec (Hsub i Hh)).
    + exact (Hid c2 st i H2 Hh).
  - intros c1 c2 sa sb i H1 H2 Hh1 Hh2.
    destruct (cstate_set_cases _ _ _ _ _ Hinc H1) as [[-> ->]|[Hn1 H1']];
    destruct (cstate_set_cases _ _ _ _ _ Hinc H2) as [[-> ->]|[Hn2 H2']]; try reflexivity.
    + symmetry. exact (Hdist c2 c sb st0 i H2' Ec Hh2 (Hsub i Hh1)).
    + exact (Hdist c1 c sa st0 i H1' Ec Hh1 (Hsub i Hh2)).
    + exact (Hdist c1 c2 sa sb i H1' H2' Hh1 Hh2).
Qed.

Lemma has_id_sub_same : forall i (P : cstate -> Prop) st1, (forall j, has_id st1 j -> j = i) -> forall st0, has_id st0 i -> forall j, has_id st1 j -> has_id st0 j.
Proof. intros i P st1 H st0 H0 j Hj. rewrite (H j Hj). exact H0. Qed.

Lemma hid_waiting i j : has_id (CWaiting i) j -> j = i.
Proof. intros [H|[H|[H|[r H]]]]; inversion H; reflexivity. Qed.
Lemma hid_registered i j : has_id (CRegistered i) j -> j = i.
Proof. intros [H|[H|[H|[r H]]]]; inversion H; reflexivity. Qed.
Lemma hid_done i r j : has_id (CDone i r) j -> j = i.
Proof. intros [H|[H|[H|[r' H]]]]; inversion H; reflexivity. Qed.

Definition owed_other_ok (s : cst) (c : nat) (cs' : list (nat * cstate)) : Prop :=
  forall c2, c2 <> c -> cstate_of c2 cs' = cstate_of c2 (callers s).

Ltac unpack H := destruct H as [Hc [Hi [Hb [HI [HB [Hid [Hdist Hcl]]]]]]].

Lemma step_NextID : forall s c s', cinv s -> cstep s (NextID c) = Some s' -> cinv s'.
Proof.
  intros s c s' H Hs. unpack H. cbn [cstep] in Hs.
  destruct (cstate_of c (callers s)) as [[| | | |]|] eqn:Ec; try discriminate. inversion Hs; subst s'. clear Hs.
  pose proof (cstate_of_in _ _ _ Ec) as Hinc.
  assert (Hnot : forall st i, cstate_of c (callers s) = Some st -> owed st i -> False)
    by (intros st i Hst Ho; rewrite Ec in Hst; inversion Hst; subst; owed_cases Ho).
  unfold cinv. cbn [callers inflight bufs nid closed]. rewrite map_fst_set_state.
  split; [exact Hc|]. split; [exact Hi|]. split; [exact Hb|]. split; [|split; [|split; [|split; [|exact Hcl]]]].
  - intros i c2 Hin. destruct (HI i c2 Hin) as [st [Hst Ho]].
    assert (c2 <> c) by (intros ->; exact (Hnot st i Hst Ho)).
    exists st. rewrite cstate_of_set_other by assumption. split; assumption.
  - intros c0 r Hin. destruct (HB c0 r Hin) as [[st [i [Hst [Ho Hr]]]] Hno]. split; [|exact Hno].
    assert (c0 <> c) by (intros ->; exact (Hnot st i Hst Ho)).
    exists st, i. rewrite cstate_of_set_other by assumption. repeat split; assumption.
  - intros c2 st i H Hh. destruct (cstate_set_cases _ _ _ _ _ Hinc H) as [[-> ->]|[Hne H2]].
    + destruct Hh as [Hh|[Hh|[Hh|[r Hh]]]]; inversion Hh. lia.
    + specialize (Hid c2 st i H2 Hh). lia.
  - intros c1 c2 st1 st2 i H1 H2 Hh1 Hh2.
    destruct (cstate_set_cases _ _ _ _ _ Hinc H1) as [[-> ->]|[Hn1 H1']];
    destruct (cstate_set_cases _ _ _ _ _ Hinc H2) as [[-> ->]|[Hn2 H2']]; try reflexivity.
    + destruct Hh1 as [Hh|[Hh|[Hh|[r Hh]]]]; inversion Hh; subst. specialize (Hid c2 st2 _ H2' Hh2). lia.
    + destruct Hh2 as [Hh|[Hh|[Hh|[r Hh]]]]; inversion Hh; subst. specialize (Hid c1 st1 _ H1' Hh1). lia.
    + eapply Hdist; eassumption.
Qed.

Lemma step_Put : forall s c s', cinv s -> cstep s (Put c) = Some s' -> cinv s'.
Proof.
  intros s c s' H Hs. unpack H. cbn [cstep] in Hs.
  destruct (cstate_of c (callers s)) as [[|id| | |]|] eqn:Ec; try discriminate.
  pose proof (cstate_of_in _ _ _ Ec) as Hinc.
  assert (Hnoentry : forall i, ~ In (i, Some c) (inflight s)).
  { intros i Hin. destruct (HI i c Hin) as [st [Hst Ho]]. rewrite Ec in Hst. inversion Hst; subst. owed_cases Ho. }
  assert (Hnobuf : ~ In c (map fst (bufs s))).
  { intros Hin. apply in_map_iff in Hin. destruct Hin as [[c0 r] [Hf Hin]]. cbn [fst] in Hf. subst c0.
    destruct (HB c r Hin) as [[st [i [Hst [Ho _]]]] _]. rewrite Ec in Hst. inversion Hst; subst. owed_cases Ho. }
  destruct (closed s) eqn:Ecl; inversion Hs; subst s'; clear Hs; unfold cinv; cbn [callers inflight bufs nid closed]; rewrite map_fst_set_state.
  - destruct (ids_preserved (callers s) (nid s) c (CHasId id) (CWaiting id) Ec) as [Hid' Hdist']; try assumption.
    { intros j Hj. rewrite (hid_waiting _ _ Hj). left. reflexivity. }
    split; [exact Hc|]. split; [exact Hi|]. split; [rewrite map_app; cbn [map fst]; apply nodup_snoc_c; assumption|].
    split; [|split; [|split; [exact Hid'|split; [exact Hdist'|intros _; exact (Hcl eq_refl)]]]].
    + intros i c2 Hin. exfalso. exact (Hcl eq_refl i c2 Hin).
    + intros c0 r Hin. split; [|intros i Hin2; exact (Hcl eq_refl i c0 Hin2)].
      apply in_app_or in Hin. destruct Hin as [Hin|[Hin|[]]].
      * destruct (HB c0 r Hin) as [[st [i [Hst [Ho Hr]]]] _].
        assert (c0 <> c) by (intros ->; rewrite Ec in Hst; inversion Hst; subst; owed_cases Ho).
        exists st, i. rewrite cstate_of_set_other by assumption. repeat split; assumption.
      * inversion Hin; subst. exists (CWaiting id), id. rewrite cstate_of_set_same by exact Hinc.
        repeat split; [right; reflexivity | intros j Hj; discriminate].
  - destruct (ids_preserved (callers s) (nid s) c (CHasId id) (CRegistered id) Ec) as [Hid' Hdist']; try assumption.
    { intros j Hj. rewrite (hid_registered _ _ Hj). left. reflexivity. }
    split; [exact Hc|]. split.
    { unfold put_if. cbn [map fst]. constructor; [|apply nodup_map_fst_remove_if; exact Hi].
      intros Hin. apply in_map_iff in Hin. destruct Hin as [e [He Hin]]. apply in_remove_if in Hin. destruct Hin as [_ Hne]. congruence. }
    split; [exact Hb|]. split; [|split; [|split; [exact Hid'|split; [exact Hdist'|discriminate]]]].
    + intros i c2 Hin. unfold put_if in Hin. destruct Hin as [Heq|Hin].
      * inversion Heq; subst. exists (CRegistered i). rewrite cstate_of_set_same by exact Hinc. split; [reflexivity | left; reflexivity].
      * apply in_remove_if in Hin. destruct Hin as [Hin _]. destruct (HI i c2 Hin) as [st [Hst Ho]].
        assert (c2 <> c) by (intros ->; exact (Hnoentry i Hin)).
        exists st. rewrite cstate_of_set_other by assumption. split; assumption.
    + intros c0 r Hin.
      assert (c0 <> c) by (intros ->; apply Hnobuf; apply in_map_iff; exists (c, r); split; [reflexivity | exact Hin]).
      destruct (HB c0 r Hin) as [[st [i [Hst [Ho Hr]]]] Hno]. split.
      * exists st, i. rewrite cstate_of_set_other by assumption. repeat split; assumption.
      * intros i2 Hin2. unfold put_if in Hin2. destruct Hin2 as [Heq|Hin2]; [inversion Heq; congruence|].
        apply in_remove_if in Hin2. exact (Hno i2 (proj1 Hin2)).
Qed.

Lemma step_SendOK : forall s c s', cinv s -> cstep s (SendOK c) = Some s' -> cinv s'.
Proof.
  intros s c s' H Hs. unpack H. cbn [cstep] in Hs.
  destruct (cstate_of c (callers s)) as [[| |id| |]|] eqn:Ec; try discriminate. inversion Hs; subst s'. clear Hs.
  pose proof (cstate_of_in _ _ _ Ec) as Hinc.
  destruct (ids_preserved (callers s) (nid s) c (CRegistered id) (CWaiting id) Ec) as [Hid' Hdist']; try assumption.
  { intros j Hj. rewrite (hid_waiting _ _ Hj). right. left. reflexivity. }
  unfold cinv. cbn [callers inflight bufs nid closed]. rewrite map_fst_set_state.
  split; [exact Hc|]. split; [exact Hi|]. split; [exact Hb|]. split; [|split; [|split; [exact Hid'|split; [exact Hdist'|exact Hcl]]]].
  - intros i c2 Hin. destruct (HI i c2 Hin) as [st [Hst Ho]]. destruct (Nat.eq_dec c2 c) as [->|Hne].
    + rewrite Ec in Hst. inversion Hst; subst. exists (CWaiting id). rewrite cstate_of_set_same by exact Hinc.
      split; [reflexivity|]. destruct Ho as [Ho|Ho]; inversion Ho; subst. right. reflexivity.
    + exists st. rewrite cstate_of_set_other by assumption. split; assumption.
  - intros c0 r Hin. destruct (HB c0 r Hin) as [[st [i [Hst [Ho Hr]]]] Hno]. split; [|exact Hno].
    destruct (Nat.eq_dec c0 c) as [->|Hne].
    + rewrite Ec in Hst. inversion Hst; subst. exists (CWaiting id), id. rewrite cstate_of_set_same by exact Hinc.
      destruct Ho as [Ho|Ho]; inversion Ho; subst. repeat split; [right; reflexivity | exact Hr].
    + exists st, i. rewrite cstate_of_set_other by assumption. repeat split; assumption.
Qed.

(* delivering a result r to whatever the entry of `id` points at (used by SendFail and Deliver) *)
Lemma step_deliver_generic : forall s id v r (cs' : list (nat * cstate)) c,
  cinv s ->
  In (id, v) (inflight s) ->
  (* cs' = callers with c possibly moved Registered->Waiting (SendFail) or unchanged (Deliver) *)
  (cs' = callers s \/ exists i0, cstate_of c (callers s) = Some (CRegistered i0) /\ cs' = set_state c (CWaiting i0) (callers s)) ->
  (forall c' , v = Some c' -> forall j, r = ROk j -> j = id) ->
  cinv (mkC (nid s) (remove_if id (inflight s)) (deliver_to v r (bufs s)) (closed s) (wire s) cs').
Proof.
  intros s id v r cs' c H Hin Hcs Hrid. unpack H.
  (* facts about callers in cs' *)
  assert (Hkeys : map fst cs' = map fst (callers s)) by (destruct Hcs as [->|[i0 [_ ->]]]; [reflexivity | apply map_fst_set_state]).
  assert (Howed : forall c2 st i, cstate_of c2 (callers s) = Some st -> owed st i -> exists st', cstate_of c2 cs' = Some st' /\ owed st' i).
  { intros c2 st i Hst Ho. destruct Hcs as [->|[i0 [Ec ->]]]; [exists st; split; assumption|].
    destruct (Nat.eq_dec c2 c) as [->|Hne].
    - rewrite Ec in Hst. inversion Hst; subst. exists (CWaiting i0). rewrite cstate_of_set_same by (eapply cstate_of_in; exact Ec).
      split; [reflexivity|]. destruct Ho as [Ho|Ho]; inversion Ho; subst. right. reflexivity.
    - exists st. rewrite cstate_of_set_other by assumption. split; assumption. }
  assert (Hids : (forall c2 st i, cstate_of c2 cs' = Some st -> has_id st i -> i <= nid s) /\
                 (forall c1 c2 sa sb i, cstate_of c1 cs' = Some sa -> cstate_of c2 cs' = Some sb -> has_id sa i -> has_id sb i -> c1 = c2)).
  { destruct Hcs as [->|[i0 [Ec ->]]]; [split; assumption|].
    apply (ids_preserved (callers s) (nid s) c (CRegistered i0) (CWaiting i0) Ec); try assumption.
    intros j Hj. rewrite (hid_waiting _ _ Hj). right. left. reflexivity. }
  destruct Hids as [Hid' Hdist'].
  unfold cinv. cbn [callers inflight bufs nid closed]. rewrite Hkeys.
  split; [exact Hc|]. split; [apply nodup_map_fst_remove_if; exact Hi|].
  (* the entry (id, v) is the only one with this id *)
  assert (Huniq : forall w, In (id, w) (inflight s) -> w = v) by (intros w Hw; exact (nodup_fst_unique _ _ _ _ Hi Hw Hin)).
  destruct v as [c'|]; cbn [deliver_to].
  - (* a real caller c' gets the result *)
    destruct (HI id c' Hin) as [st [Hst Ho]].
    assert (Hnobuf : ~ In c' (map fst (bufs s))).
    { intros Hb2. apply in_map_iff in Hb2. destruct Hb2 as [[c0 r0] [Hf Hb2]]. cbn [fst] in Hf. subst c0.
      exact (proj2 (HB c' r0 Hb2) id Hin). }
    (* c' has no other entry: any entry (i, Some c') has i = id (same caller, ids agree) hence is this one *)
    assert (Honly : forall i, In (i, Some c') (inflight s) -> i = id).
    { intros i Hin2. destruct (HI i c' Hin2) as [st2 [Hst2 Ho2]]. rewrite Hst in Hst2. inversion Hst2; subst st2.
      destruct Ho as [Ho|Ho], Ho2 as [Ho2|Ho2]; subst; inversion Ho2; reflexivity. }
    split; [rewrite map_app; cbn [map fst]; apply nodup_snoc_c; assumption|].
    split; [|split; [|split; [exact Hid'|split; [exact Hdist'|]]]].
    + intros i c2 Hin2. apply in_remove_if in Hin2. destruct Hin2 as [Hin2 _].
      destruct (HI i c2 Hin2) as [st2 [Hst2 Ho2]]. exact (Howed c2 st2 i Hst2 Ho2).
    + intros c0 r0 Hin2. apply in_app_or in Hin2. destruct Hin2 as [Hin2|[Hin2|[]]].
      * destruct (HB c0 r0 Hin2) as [[st2 [i [Hst2 [Ho2 Hr]]]] Hno]. split.
        -- destruct (Howed c0 st2 i Hst2 Ho2) as [st' [Hst' Ho']]. exists st', i. repeat split; assumption.
        -- intros i2 Hin3. apply in_remove_if in Hin3. exact (Hno i2 (proj1 Hin3)).
      * inversion Hin2; subst c0 r0. split.
        -- destruct (Howed c' st id Hst Ho) as [st' [Hst' Ho']]. exists st', id. repeat split; try assumption. exact (Hrid c' eq_refl).
        -- intros i2 Hin3. apply in_remove_if in Hin3. destruct Hin3 as [Hin3 Hne]. cbn [fst] in Hne. apply Hne. exact (Honly i2 Hin3).
    + intros Hclosed i c2 Hin2. apply in_remove_if in Hin2. exact (Hcl Hclosed i c2 (proj1 Hin2)).
  - (* hijacked entry: the result goes to a channel nobody reads *)
    split; [exact Hb|]. split; [|split; [|split; [exact Hid'|split; [exact Hdist'|]]]].
    + intros i c2 Hin2. apply in_remove_if in Hin2. destruct Hin2 as [Hin2 _].
      destruct (HI i c2 Hin2) as [st2 [Hst2 Ho2]]. exact (Howed c2 st2 i Hst2 Ho2).
    + intros c0 r0 Hin2. destruct (HB c0 r0 Hin2) as [[st2 [i [Hst2 [Ho2 Hr]]]] Hno]. split.
      * destruct (Howed c0 st2 i Hst2 Ho2) as [st' [Hst' Ho']]. exists st', i. repeat split; assumption.
      * intros i2 Hin3. apply in_remove_if in Hin3. exact (Hno i2 (proj1 Hin3)).
    + intros Hclosed i c2 Hin2. apply in_remove_if in Hin2. exact (Hcl Hclosed i c2 (proj1 Hin2)).
Qed.

Lemma step_SendFail : forall s c s', cinv s -> cstep s (SendFail c) = Some s' -> cinv s'.
Proof.
  intros s c s' H Hs. cbn [cstep] in Hs.
  destruct (cstate_of c (callers s)) as [[| |id| |]|] eqn:Ec; try discriminate.
  destruct (lookup_if id (inflight s)) as [v|] eqn:El; inversion Hs; subst s'; clear Hs.
  - apply (step_deliver_generic s id v RSendErr _ c H (lookup_if_in _ _ _ El)).
    + right. exists id. split; [exact Ec | reflexivity].
    + intros c' _ j Hj. discriminate.
  - (* the entry is already gone (a reply or the broadcast took it): only the caller's own state changes *)
    unpack H. pose proof (cstate_of_in _ _ _ Ec) as Hinc.
    destruct (ids_preserved (callers s) (nid s) c (CRegistered id) (CWaiting id) Ec) as [Hid' Hdist']; try assumption.
    { intros j Hj. rewrite (hid_waiting _ _ Hj). right. left. reflexivity. }
    unfold cinv. cbn [callers inflight bufs nid closed]. rewrite map_fst_set_state.
    split; [exact Hc|]. split; [exact Hi|]. split; [exact Hb|]. split; [|split; [|split; [exact Hid'|split; [exact Hdist'|exact Hcl]]]].
    + intros i c2 Hin. destruct (HI i c2 Hin) as [st [Hst Ho]]. destruct (Nat.eq_dec c2 c) as [->|Hne].
      * rewrite Ec in Hst. inversion Hst; subst. exists (CWaiting id). rewrite cstate_of_set_same by exact Hinc.
        split; [reflexivity|]. destruct Ho as [Ho|Ho]; inversion Ho; subst. right. reflexivity.
      * exists st. rewrite cstate_of_set_other by assumption. split; assumption.
    + intros c0 r Hin. destruct (HB c0 r Hin) as [[st [i [Hst [Ho Hr]]]] Hno]. split; [|exact Hno].
      destruct (Nat.eq_dec c0 c) as [->|Hne].
      * rewrite Ec in Hst. inversion Hst; subst. exists (CWaiting id), id. rewrite cstate_of_set_same by exact Hinc.
        destruct Ho as [Ho|Ho]; inversion Ho; subst. repeat split; [right; reflexivity | exact Hr].
      * exists st, i. rewrite cstate_of_set_other by assumption. repeat split; assumption.
Qed.

Lemma step_Deliver : forall s id s', cinv s -> cstep s (Deliver id) = Some s' -> cinv s'.
Proof.
  intros s id s' H Hs. cbn [cstep] in Hs. destruct (closed s) eqn:Ecl; [discriminate|].
  destruct (lookup_if id (inflight s)) as [v|] eqn:El; inversion Hs; subst s'; clear Hs.
  rewrite <- Ecl.
  apply (step_deliver_generic s id v (ROk id) (callers s) 0 H (lookup_if_in _ _ _ El)).
  - left. reflexivity.
  - intros c' _ j Hj. inversion Hj. reflexivity.
Qed.

Lemma step_RecvFail : forall s s', cinv s -> cstep s RecvFail = Some s' -> cinv s'.
Proof.
  intros s s' H Hs. unpack H. cbn [cstep] in Hs. destruct (closed s) eqn:Ecl; [discriminate|]. inversion Hs; subst s'. clear Hs.
  set (added := flat_map (fun e => match snd e with Some c => [(c, RConnLost)] | None => [] end) (inflight s)).
  assert (Hadd : forall c r, In (c, r) added <-> r = RConnLost /\ exists i, In (i, Some c) (inflight s)).
  { intros c r. unfold added. rewrite in_flat_map. split.
    - intros [[i [c'|]] [Hin Hx]]; cbn [snd] in Hx; [|destruct Hx]. destruct Hx as [Hx|[]]. inversion Hx; subst. split; [reflexivity | exists i; exact Hin].
    - intros [-> [i Hin]]. exists (i, Some c). split; [exact Hin | left; reflexivity]. }
  (* the callers that get the broadcast are pairwise distinct: one entry per caller *)
  assert (Hnd_added : NoDup (map fst added)).
  { unfold added. clear Hadd. revert HI Hi. generalize (inflight s) as l. induction l as [|[i [c|]] t IH]; intros HI Hi; cbn [flat_map snd app map fst].
    - constructor.
    - cbn [map fst] in Hi. inversion Hi as [|? ? Hni Ht]; subst. constructor.
      + intros Hin. apply in_map_iff in Hin. destruct Hin as [[c0 r0] [Hf Hin]]. cbn [fst] in Hf. subst c0.
        apply in_flat_map in Hin. destruct Hin as [[i2 [c2|]] [Hin2 Hx]]; cbn [snd] in Hx; [|destruct Hx]. destruct Hx as [Hx|[]]. inversion Hx; subst c2.
        destruct (HI i c (or_introl eq_refl)) as [st [Hst Ho]]. destruct (HI i2 c (or_intror Hin2)) as [st2 [Hst2 Ho2]].
        rewrite Hst in Hst2. inversion Hst2; subst st2.
        assert (i2 = i) by (destruct Ho as [Ho|Ho], Ho2 as [Ho2|Ho2]; subst; inversion Ho2; reflexivity). subst i2.
        apply Hni. apply in_map_iff. exists (i, Some c). split; [reflexivity | exact Hin2].
      + apply IH; [intros i2 c2 Hin2; exact (HI i2 c2 (or_intror Hin2)) | exact Ht].
    - cbn [map fst] in Hi. inversion Hi; subst. apply IH; [intros i2 c2 Hin2; exact (HI i2 c2 (or_intror Hin2)) | assumption]. }
  unfold cinv. cbn [callers inflight bufs nid closed].
  assert (Hnone : forall i c, ~ In (i, Some c) (map (fun e => (fst e, @None nat)) (inflight s))).
  { intros i c Hin. apply in_map_iff in Hin. destruct Hin as [e [He _]]. inversion He. }
  split; [exact Hc|]. split; [rewrite map_map; cbn [fst]; exact Hi|].
  split.
  { rewrite map_app. apply NoDup_app_intro_c; [exact Hb | exact Hnd_added|].
    intros c Hin1 Hin2. apply in_map_iff in Hin1. destruct Hin1 as [[c1 r1] [Hf1 Hin1]]. cbn [fst] in Hf1. subst c1.
    apply in_map_iff in Hin2. destruct Hin2 as [[c2 r2] [Hf2 Hin2]]. cbn [fst] in Hf2. subst c2.
    apply Hadd in Hin2. destruct Hin2 as [_ [i Hin2]]. exact (proj2 (HB c r1 Hin1) i Hin2). }
  split; [intros i c Hin; exfalso; exact (Hnone i c Hin)|].
  split.
  { intros c r Hin. split; [|intros i; apply Hnone]. apply in_app_or in Hin. destruct Hin as [Hin|Hin].
    - exact (proj1 (HB c r Hin)).
    - apply Hadd in Hin. destruct Hin as [-> [i Hin]]. destruct (HI i c Hin) as [st [Hst Ho]].
      exists st, i. repeat split; try assumption. intros j Hj. discriminate. }
  split; [exact Hid|]. split; [exact Hdist|]. intros _. apply Hnone.
Qed.

Lemma step_Take : forall s c s', cinv s -> cstep s (Take c) = Some s' -> cinv s'.
Proof.
  intros s c s' H Hs. unpack H. cbn [cstep] in Hs.
  destruct (cstate_of c (callers s)) as [[| | |id|]|] eqn:Ec; try discriminate.
  destruct (take_buf c (bufs s)) as [[r rest]|] eqn:Et; [|discriminate]. inversion Hs; subst s'. clear Hs.
  pose proof (cstate_of_in _ _ _ Ec) as Hinc.
  destruct (take_buf_spec _ _ _ _ Et) as [Hin [Hsub Hnd]]. destruct (Hnd Hb) as [Hnotin Hnd'].
  destruct (ids_preserved (callers s) (nid s) c (CWaiting id) (CDone id r) Ec) as [Hid' Hdist']; try assumption.
  { intros j Hj. rewrite (hid_done _ _ _ Hj). right. right. left. reflexivity. }
  assert (Hnoentry : forall i, ~ In (i, Some c) (inflight s)) by (intros i; exact (proj2 (HB c r Hin) i)).
  unfold cinv. cbn [callers inflight bufs nid closed]. rewrite map_fst_set_state.
  split; [exact Hc|]. split; [exact Hi|]. split; [exact Hnd'|]. split; [|split; [|split; [exact Hid'|split; [exact Hdist'|exact Hcl]]]].
  - intros i c2 Hin2. destruct (HI i c2 Hin2) as [st [Hst Ho]].
    assert (c2 <> c) by (intros ->; exact (Hnoentry i Hin2)).
    exists st. rewrite cstate_of_set_other by assumption. split; assumption.
  - intros c0 r0 Hin2. specialize (Hsub _ Hin2). destruct (HB c0 r0 Hsub) as [[st [i [Hst [Ho Hr]]]] Hno]. split; [|exact Hno].
    assert (c0 <> c) by (intros ->; apply Hnotin; apply in_map_iff; exists (c, r0); split; [reflexivity | exact Hin2]).
    exists st, i. rewrite cstate_of_set_other by assumption. repeat split; assumption.
Qed.

Theorem cinv_step : forall s l s', cinv s -> cstep s l = Some s' -> cinv s'.
Proof.
  intros s l s' H Hs. destruct l.
  - eapply step_NextID; eassumption.
  - eapply step_Put; eassumption.
  - eapply step_SendOK; eassumption.
  - eapply step_SendFail; eassumption.
  - eapply step_Deliver; eassumption.
  - eapply step_RecvFail; eassumption.
  - eapply step_Take; eassumption.
Qed.

Theorem cinv_run : forall n tr s, crun (cinit n) tr = Some s -> cinv s.
Proof.
  intros n tr. assert (H : cinv (cinit n)) by apply cinv_init. revert H. generalize (cinit n).
  induction tr as [|l tr IH]; intros s0 H s Hr; cbn [crun] in Hr; [inversion Hr; subst; exact H|].
  destruct (cstep s0 l) as [s1|] eqn:E; [|discriminate]. eapply IH; [eapply cinv_step; eassumption | exact Hr].
Qed.

(* ---------- C03: a caller that takes a reply takes the reply to its own request ---------- *)
Theorem own_reply_at_take : forall n tr s c s' id r,
  crun (cinit n) tr = Some s -> cstep s (Take c) = Some s' ->
  cstate_of c (callers s') = Some (CDone id r) -> forall j, r = ROk j -> j = id.
Proof.
  intros n tr s c s' id r Hrun Hs Hst j Hj. pose proof (cinv_run n tr s Hrun) as H. unpack H.
  cbn [cstep] in Hs. destruct (cstate_of c (callers s)) as [[| | |id0|]|] eqn:Ec; try discriminate.
  destruct (take_buf c (bufs s)) as [[r0 rest]|] eqn:Et; [|discriminate]. inversion Hs; subst s'. clear Hs.
  cbn [callers] in Hst. rewrite cstate_of_set_same in Hst by (eapply cstate_of_in; exact Ec). inversion Hst; subst id0 r0.
  destruct (take_buf_spec _ _ _ _ Et) as [Hin _]. destruct (HB c r Hin) as [[st [i [Hst2 [Ho Hr]]]] _].
  rewrite Ec in Hst2. inversion Hst2; subst st. destruct Ho as [Ho|Ho]; inversion Ho; subst i. exact (Hr j Hj).
Qed.

(* ids in flight are pairwise distinct, and every id in flight was issued by the counter *)
Theorem inflight_ids_distinct : forall n tr s, crun (cinit n) tr = Some s -> NoDup (map fst (inflight s)).
Proof. intros n tr s H. pose proof (cinv_run n tr s H) as Hc. unpack Hc. exact Hi. Qed.

Theorem caller_ids_distinct : forall n tr s c1 c2 st1 st2 i, crun (cinit n) tr = Some s ->
  cstate_of c1 (callers s) = Some st1 -> cstate_of c2 (callers s) = Some st2 -> has_id st1 i -> has_id st2 i -> c1 = c2.
Proof. intros n tr s c1 c2 st1 st2 i H. pose proof (cinv_run n tr s H) as Hc. unpack Hc. apply Hdist. Qed.

(* ---------- C04: every waiting caller is notified at most once; nothing is ever sent to a caller that is not waiting ---------- *)
Theorem at_most_one_result : forall n tr s, crun (cinit n) tr = Some s ->
  NoDup (map fst (bufs s)) /\
  (forall c r, In (c, r) (bufs s) -> (exists st i, cstate_of c (callers s) = Some st /\ owed st i) /\ forall i, ~ In (i, Some c) (inflight s)) /\
  (forall i c, In (i, Some c) (inflight s) -> exists st, cstate_of c (callers s) = Some st /\ owed st i).
Proof.
  intros n tr s H. pose proof (cinv_run n tr s H) as Hc. unpack Hc. split; [exact Hb|]. split; [|exact HI].
  intros c r Hin. destruct (HB c r Hin) as [[st [i [Hst [Ho _]]]] Hno]. split; [exists st, i; split; assumption | exact Hno].
Qed.

(* once the receiver has failed, no entry points at a caller any more: every later send error or stray reply goes to a
   channel nobody waits on, and new callers are refused at registration with the error on their own channel *)
Theorem after_loss_no_live_entry : forall n tr s, crun (cinit n) tr = Some s -> closed s = true ->
  forall i c, ~ In (i, Some c) (inflight s).
Proof. intros n tr s H Hclosed. pose proof (cinv_run n tr s H) as Hc0. unpack Hc0. exact (Hcl Hclosed). Qed.
