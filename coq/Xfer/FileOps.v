(* client.go File methods that use the implicit offset (Read, Write, Seek, WriteTo, ReadFrom) and those that do not
   (ReadAt, WriteAt, Truncate, Stat), as one step function over (served file, File.offset), built on the transfer paths of
   Xfer/Transfer.v; and the specification: an os.File on a plain byte string. *)
From Coq Require Import List NArith ZArith Bool Arith Lia Strings.Byte.
From Sftp Require Import Base.GoSem Xfer.Transfer.
Import ListNotations.

Inductive fop :=
| FRead (n : nat)
| FWrite (b : bytes)
| FReadAt (off n : nat)
| FWriteAt (off : nat) (b : bytes)
| FSeek (w : whence) (d : Z)
| FWriteTo
| FReadFrom (src : bytes) (known : bool)   (* known: the source reveals its length (Len/Size/Stat/LimitedReader) *)
| FTruncate (size : nat)
| FStat.

(* what a call returns, as far as the property goes: count (or position / size), whether the error is non-nil, data *)
Record fout := mkOut { r_n : nat; r_err : bool; r_data : bytes }.

Definition is_some_x {A} (o : option A) : bool := match o with Some _ => true | None => false end.

Definition set_file (s : srv) (f : bytes) : srv := mkSrv f (maxTx s) (rfail s) (wfail s).

Definition truncate_to (f : bytes) (size : nat) : bytes := firstn size f ++ zeros (size - length f).

(* ---------- the implementation ---------- *)
Definition fstep (o : copts) (st : srv * nat) (op : fop) : (srv * nat) * fout :=
  let '(s, off) := st in
  match op with
  | FRead n =>
      let '(cnt, e, d) := readAt o s off n (chunks n off n (maxPacket o)) in
      ((s, off + cnt), mkOut cnt (is_some_x e) d)
  | FWrite b =>
      let '(s', w, e) := writeAt o s off b (length b) in
      ((s', off + w), mkOut w (is_some_x e) [])
  | FReadAt a n =>
      let '(cnt, e, d) := readAt o s a n (chunks n a n (maxPacket o)) in
      ((s, off), mkOut cnt (is_some_x e) d)
  | FWriteAt a b =>
      let '(s', w, e) := writeAt o s a b (length b) in
      ((s', off), mkOut w (is_some_x e) [])
  | FSeek w d =>
      let '(pos, bad) := seek off (length (file s)) w d in
      ((s, pos), mkOut (if bad then 0 else pos) bad [])
  | FWriteTo =>
      let '(d, e, off') := writeTo o s true off in
      ((s, off'), mkOut (length d) (is_some_x e) d)
  | FReadFrom src known =>
      let '(s', n, e, off') :=
        if readFrom_uses_conc o (if known then Some (length src) else None)
        then readFromConc s (maxPacket o) src off (length src)
        else readFromSeq (S (length src)) readfrom_fixed s (maxPacket o) src off 0 in
      ((s', off'), mkOut n (is_some_x e) [])
  | FTruncate size => ((set_file s (truncate_to (file s) size), off), mkOut 0 false [])
  | FStat => ((s, off), mkOut (length (file s)) false [])
  end.

Fixpoint frun (o : copts) (st : srv * nat) (ops : list fop) : (srv * nat) * list fout :=
  match ops with
  | [] => (st, [])
  | op :: rest => let '(st', r) := fstep o st op in let '(st'', rs) := frun o st' rest in (st'', r :: rs)
  end.

(* ---------- the specification: an os.File on a byte string ---------- *)
Definition ostep (st : bytes * nat) (op : fop) : (bytes * nat) * fout :=
  let '(f, off) := st in
  match op with
  | FRead n => let d := firstn n (skipn off f) in ((f, off + length d), mkOut (length d) (length d <? n) d)
  | FWrite b => ((splice f off b, off + length b), mkOut (length b) false [])
  | FReadAt a n => let d := firstn n (skipn a f) in ((f, off), mkOut (length d) (length d <? n) d)
  | FWriteAt a b => ((splice f a b, off), mkOut (length b) false [])
  | FSeek w d => let '(pos, bad) := seek off (length f) w d in ((f, pos), mkOut (if bad then 0 else pos) bad [])
  | FWriteTo => let d := skipn off f in ((f, Nat.max off (length f)), mkOut (length d) false d)
  | FReadFrom src _ => ((splice f off src, off + length src), mkOut (length src) false [])
  | FTruncate size => ((truncate_to f size, off), mkOut 0 false [])
  | FStat => ((f, off), mkOut (length f) false [])
  end.

Fixpoint orun (st : bytes * nat) (ops : list fop) : (bytes * nat) * list fout :=
  match ops with
  | [] => (st, [])
  | op :: rest => let '(st', r) := ostep st op in let '(st'', rs) := orun st' rest in (st'', r :: rs)
  end.
