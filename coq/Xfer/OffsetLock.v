(* client.go File.Write (and Read): the method takes f.mu EXCLUSIVELY, reads f.offset, sends its request at that position,
   stores the advanced offset and unlocks. One block per call here (a Write that fits in one packet), positions count blocks.
     OAcq c     c acquires the lock (excl = true: only when nobody holds it; false: the variant that takes the shared lock)
     OLoad c    c reads f.offset
     OSend c    c's WRITE lands in the file at the position it read (a later write to the same position replaces it)
     OStore c   c stores position + 1 into f.offset
     ORel c     c unlocks and returns *)
From Coq Require Import List Bool Arith.
Import ListNotations.

Module OffsetLock.

Inductive ostage := OIdle | OHeld | OLoaded (o : nat) | OSent (o : nat) | OStored | ODone.
Record ost := mkO { holders : list nat; off : nat; cells : list (nat * nat); stages : list (nat * ostage) }.

Definition o0 (n : nat) : ost := mkO [] 0 [] (map (fun c => (c, OIdle)) (seq 0 n)).

Inductive olabel := OAcq (c : nat) | OLoad (c : nat) | OSend (c : nat) | OStore (c : nat) | ORel (c : nat).

Fixpoint stage_of (c : nat) (l : list (nat * ostage)) : option ostage :=
  match l with [] => None | (c', s) :: t => if c' =? c then Some s else stage_of c t end.
Definition set_stage (c : nat) (s : ostage) (l : list (nat * ostage)) : list (nat * ostage) :=
  map (fun e => if fst e =? c then (fst e, s) else e) l.

Definition ostep (excl : bool) (s : ost) (l : olabel) : option ost :=
  match l with
  | OAcq c =>
      match stage_of c (stages s) with
      | Some OIdle =>
          if excl && negb (match holders s with [] => true | _ => false end) then None
          else Some (mkO (c :: holders s) (off s) (cells s) (set_stage c OHeld (stages s)))
      | _ => None
      end
  | OLoad c =>
      match stage_of c (stages s) with
      | Some OHeld => Some (mkO (holders s) (off s) (cells s) (set_stage c (OLoaded (off s)) (stages s)))
      | _ => None
      end
  | OSend c =>
      match stage_of c (stages s) with
      | Some (OLoaded o) => Some (mkO (holders s) (off s) (cells s ++ [(o, c)]) (set_stage c (OSent o) (stages s)))
      | _ => None
      end
  | OStore c =>
      match stage_of c (stages s) with
      | Some (OSent o) => Some (mkO (holders s) (S o) (cells s) (set_stage c OStored (stages s)))
      | _ => None
      end
  | ORel c =>
      match stage_of c (stages s) with
      | Some OStored => Some (mkO (filter (fun h => negb (h =? c)) (holders s)) (off s) (cells s) (set_stage c ODone (stages s)))
      | _ => None
      end
  end.

Fixpoint orun (excl : bool) (s : ost) (tr : list olabel) : option ost :=
  match tr with [] => Some s | l :: rest => match ostep excl s l with Some s' => orun excl s' rest | None => None end end.

Definition all_done (s : ost) : bool := forallb (fun e => match snd e with ODone => true | _ => false end) (stages s).

(* what the file holds at a position: the block of the last write that landed there *)
Definition holder_of (p : nat) (cs : list (nat * nat)) : option nat :=
  fold_left (fun acc e => if fst e =? p then Some (snd e) else acc) cs None.

(* the correspondence reads an observed layout (writer of each position, in position order) with this: every thread exactly
   once, positions 0..n-1 *)
Fixpoint count_occ_nat (x : nat) (l : list nat) : nat :=
  match l with [] => 0 | y :: t => (if y =? x then 1 else 0) + count_occ_nat x t end.
Definition layout_ok (n : nat) (layout : list nat) : bool :=
  (length layout =? n) && forallb (fun c => count_occ_nat c layout =? 1) (seq 0 n).

End OffsetLock.
