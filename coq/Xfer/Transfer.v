(* Transfers through a remote File: client.go readChunkAt / readAtSequential / readAt (concurrent map-reduce) /
   Read / writeToSequential / WriteTo (concurrent, ordered chain) / writeChunkAt / writeAt / writeAtConcurrent /
   Write / ReadFrom / readFromWithConcurrency / Seek, over an abstract file server with a failure plan.
   Offsets and lengths are nat (the properties are not about 2^63 wrap-around; the harness keeps sizes small). *)
From Coq Require Import List NArith ZArith Bool Arith Lia Strings.Byte.
From Sftp Require Import Base.GoSem.
Import ListNotations.

(* ---------- the served file ---------- *)
Record srv := mkSrv {
  file : bytes;
  maxTx : nat;                      (* largest DATA payload of the server *)
  rfail : nat -> option N;          (* READ at this offset fails with this status code *)
  wfail : nat -> option N           (* WRITE at this offset fails with this status code *)
}.

Inductive rreply := RData (d : bytes) | RStatus (code : N).
Definition code_eof : N := 1%N.

(* server.go / request.go READ: status EOF at or beyond the end, else up to min(len, maxTx) bytes *)
Definition srv_read (s : srv) (off len : nat) : rreply :=
  match rfail s off with
  | Some c => RStatus c
  | None => if length (file s) <=? off then RStatus code_eof
            else RData (firstn (Nat.min len (maxTx s)) (skipn off (file s)))
  end.

(* WRITE: zero padding up to the offset, then splice *)
Definition zeros (n : nat) : bytes := repeat x00 n.
Definition splice (f : bytes) (off : nat) (d : bytes) : bytes :=
  match d with
  | [] => f                          (* a zero-length write does not extend the file *)
  | _ => let f' := f ++ zeros (off - length f) in
         firstn off f' ++ d ++ skipn (off + length d) f'
  end.

Definition srv_write (s : srv) (off : nat) (d : bytes) : srv * option N :=
  match wfail s off with
  | Some c => (s, Some c)
  | None => (mkSrv (splice (file s) off d) (maxTx s) (rfail s) (wfail s), None)
  end.

(* ---------- client options ---------- *)
Record copts := mkOpts {
  maxPacket : nat;                  (* >= 1 *)
  maxConc : nat;                    (* >= 1 *)
  concReads : bool;                 (* !disableConcurrentReads *)
  concWrites : bool;
  useFstat : bool
}.

(* errors a transfer can return: a status code (1 = io.EOF), or no-progress *)
Inductive xerr := XStatus (c : N) | XNoProgress.
Definition xeof : xerr := XStatus code_eof.

(* ---------- reads ---------- *)
(* readChunkAt(b, off) with len(b) = want: refill until full or status. fuel = want suffices (>= 1 byte per round). *)
Fixpoint readChunkAt (fuel : nat) (s : srv) (off want : nat) (acc : bytes) : bytes * option xerr :=
  match want with
  | O => (acc, None)
  | _ =>
    match fuel with
    | O => (acc, Some XNoProgress)
    | S f =>
      match srv_read s off want with
      | RStatus c => (acc, Some (XStatus c))
      | RData d =>
        let d := firstn want d in
        match d with
        | [] => (acc, Some XNoProgress)
        | _ => readChunkAt f s (off + length d) (want - length d) (acc ++ d)
        end
      end
    end
  end.

(* the chunk list all slicers compute: (offset, length) with every length in 1..p *)
Fixpoint chunks (fuel : nat) (off n p : nat) : list (nat * nat) :=
  match n with
  | O => []
  | _ =>
    match fuel with
    | O => []
    | S f => let l := Nat.min n p in (off, l) :: chunks f (off + l) (n - l) p
    end
  end.

(* readAtSequential *)
Fixpoint readSeq (cs : list (nat * nat)) (s : srv) (acc : bytes) : bytes * option xerr :=
  match cs with
  | [] => (acc, None)
  | (o, l) :: rest =>
    let '(d, e) := readChunkAt l s o l [] in
    match e with
    | Some e => (acc ++ d, Some e)
    | None => readSeq rest s (acc ++ d)
    end
  end.

(* the concurrent worker's view of one chunk: bytes copied into its slot and, possibly, an error at an offset *)
Definition conc_chunk (s : srv) (c : nat * nat) : bytes * option (nat * xerr) :=
  let '(o, l) := c in
  match srv_read s o l with
  | RStatus c => ([], Some (o, XStatus c))
  | RData d => let d := firstn l d in
               (d, if length d <? l then Some (o + length d, xeof) else None)
  end.

(* the reduce step: keep the error with the smallest offset (`off <= firstErr.off`, so a later arrival wins ties) *)
Definition reduce_step (acc : option (nat * xerr)) (e : nat * xerr) : option (nat * xerr) :=
  match acc with
  | None => Some e
  | Some (o, x) => if fst e <=? o then Some e else Some (o, x)
  end.
Definition reduce_first_err (errs : list (nat * xerr)) : option (nat * xerr) := fold_left reduce_step errs None.

Definition errs_of (rs : list (bytes * option (nat * xerr))) : list (nat * xerr) :=
  flat_map (fun r => match snd r with Some e => [e] | None => [] end) rs.

(* concurrent readAt: `arrival` is the order in which the workers report (any permutation of the dispatched chunks);
   returns the count, the error, and the buffer prefix of that count *)
Definition readConc (s : srv) (off len p : nat) (arrival : list (nat * nat)) : nat * option xerr * bytes :=
  let cs := chunks len off len p in
  let slots := map (conc_chunk s) cs in
  let buf := flat_map (fun '(c, r) => fst r ++ zeros (snd c - length (fst r))) (combine cs slots) in
  match reduce_first_err (errs_of (map (conc_chunk s) arrival)) with
  | Some (eo, e) => (eo - off, Some e, firstn (eo - off) buf)
  | None => (len, None, buf)
  end.

(* File.readAt *)
Definition readAt (o : copts) (s : srv) (off len : nat) (arrival : list (nat * nat)) : nat * option xerr * bytes :=
  if len <=? maxPacket o then
    let '(d, e) := readChunkAt len s off len [] in (length d, e, d)
  else if negb (concReads o) then
    let '(d, e) := readSeq (chunks len off len (maxPacket o)) s [] in (length d, e, d)
  else readConc s off len (maxPacket o) arrival.

(* writeToSequential: chunks of maxPacket from the offset until EOF; returns the bytes given to the writer,
   the error (EOF becomes nil) and the new offset. fuel bounds the number of rounds (|F| + 2 suffices). *)
Fixpoint writeToSeq (fuel : nat) (s : srv) (p off : nat) (acc : bytes) : bytes * option xerr * nat :=
  match fuel with
  | O => (acc, Some XNoProgress, off)
  | S f =>
    let '(d, e) := readChunkAt p s off p [] in
    match e with
    | Some (XStatus 1%N) => (acc ++ d, None, off + length d)
    | Some e => (acc ++ d, Some e, off + length d)
    | None => writeToSeq f s p (off + length d) (acc ++ d)
    end
  end.

(* concurrent WriteTo: chunk k is READ(off + k*p, p); results are consumed strictly by index until the first
   status. `fixed` = the offset is advanced only by data (repaired F9); the pinned code also moved it to the
   offset of the terminating packet. *)
Fixpoint writeToConc (fuel : nat) (fixed : bool) (s : srv) (p off : nat) (acc : bytes) (cur : nat) : bytes * option xerr * nat :=
  match fuel with
  | O => (acc, Some XNoProgress, cur)
  | S f =>
    match srv_read s off p with
    | RStatus c =>
        let cur' := if fixed then cur else off in
        (acc, (if N.eqb c code_eof then None else Some (XStatus c)), cur')
    | RData d => let d := firstn p d in writeToConc f fixed s p (off + p) (acc ++ d) (off + length d)
    end
  end.

Definition writeto_fixed : bool := true.

(* File.WriteTo: sequential when concurrent reads are off, when the size is at most one packet, or when not regular *)
Definition writeTo (o : copts) (s : srv) (regular : bool) (off : nat) : bytes * option xerr * nat :=
  let fuel := S (S (length (file s))) in
  if negb (concReads o) then writeToSeq fuel s (maxPacket o) off []
  else if (length (file s) <=? maxPacket o) || negb regular then writeToSeq fuel s (maxPacket o) off []
  else writeToConc fuel writeto_fixed s (maxPacket o) off [] off.

(* the same with the size that STAT / FSTAT reports as a parameter of its own: it decides only which path is taken, and a server
   may report 0 (or anything else) for a file that has content - /proc files, generated content, a handler without sizes *)
Definition writeToS (o : copts) (s : srv) (regular : bool) (statsize : nat) (off : nat) : bytes * option xerr * nat :=
  let fuel := S (S (length (file s))) in
  if negb (concReads o) then writeToSeq fuel s (maxPacket o) off []
  else if (statsize <=? maxPacket o) || negb regular then writeToSeq fuel s (maxPacket o) off []
  else writeToConc fuel writeto_fixed s (maxPacket o) off [] off.

(* ---------- writes ---------- *)
(* writeAt, sequential: stop at the first failing chunk *)
Fixpoint writeSeq (cs : list (nat * nat)) (s : srv) (b : bytes) (boff : nat) (written : nat) : srv * nat * option xerr :=
  match cs with
  | [] => (s, written, None)
  | (o, l) :: rest =>
    let '(s', e) := srv_write s o (firstn l (skipn boff b)) in
    match e with
    | Some c => (s', written, Some (XStatus c))
    | None => writeSeq rest s' b (boff + l) (written + l)
    end
  end.

(* writeAtConcurrent: `dispatched` chunks are sent (all of them unless an error cancelled the slicer early);
   every dispatched chunk that does not fail is stored; the lowest failing offset decides count and error *)
Fixpoint writeAll (cs : list (nat * nat)) (s : srv) (b : bytes) (boff : nat) (errs : list (nat * xerr)) : srv * list (nat * xerr) :=
  match cs with
  | [] => (s, errs)
  | (o, l) :: rest =>
    let '(s', e) := srv_write s o (firstn l (skipn boff b)) in
    writeAll rest s' b (boff + l) (match e with Some c => errs ++ [(o, XStatus c)] | None => errs end)
  end.

Definition writeConc (s : srv) (off : nat) (b : bytes) (p : nat) (dispatched : nat) : srv * nat * option xerr :=
  let cs := firstn dispatched (chunks (length b) off (length b) p) in
  let '(s', errs) := writeAll cs s b 0 [] in
  match reduce_first_err errs with
  | Some (eo, e) => (s', eo - off, Some e)
  | None => (s', length b, None)
  end.

Definition writeAt (o : copts) (s : srv) (off : nat) (b : bytes) (dispatched : nat) : srv * nat * option xerr :=
  if length b <=? maxPacket o then
    let '(s', e) := srv_write s off b in
    match e with Some c => (s', 0, Some (XStatus c)) | None => (s', length b, None) end
  else if concWrites o then writeConc s off b (maxPacket o) dispatched
  else writeSeq (chunks (length b) off (length b) (maxPacket o)) s b 0 0.

(* ReadFrom, sequential (default): the source delivers `src` through io.ReadFull in chunks of maxPacket.
   `fixed` = a failing write of the final short chunk is reported (repaired F13); the pinned code returned nil.
   Returns the server, the count (bytes consumed from the source), the error and the new File offset. *)
Fixpoint readFromSeq (fuel : nat) (fixed : bool) (s : srv) (p : nat) (src : bytes) (off : nat) (read : nat) : srv * nat * option xerr * nat :=
  match src with
  | [] => (s, read, None, off)
  | _ =>
    match fuel with
    | O => (s, read, Some XNoProgress, off)
    | S f =>
      let chunk := firstn p src in
      let rest := skipn p src in
      let full := length chunk =? p in           (* io.ReadFull: nil when the buffer was filled, ErrUnexpectedEOF otherwise *)
      let '(s', e) := srv_write s off chunk in
      let read' := read + length chunk in
      match e with
      | Some c =>
          if full then (s', read', Some (XStatus c), off)
          else if fixed then (s', read', Some (XStatus c), off)
          else (s', read', None, off)               (* err == ErrUnexpectedEOF masks err2, then "return read, nil" *)
      | None =>
          if full then readFromSeq f fixed s' p rest (off + length chunk) read'
          else (s', read', None, off + length chunk)
      end
    end
  end.

Definition readfrom_fixed : bool := true.

(* readFromWithConcurrency: every chunk read from the source is dispatched (until an error cancels the reader:
   `dispatched` chunks); count = bytes consumed from the source; on error the offset is that of the lowest failing chunk *)
Definition readFromConc (s : srv) (p : nat) (src : bytes) (off : nat) (dispatched : nat) : srv * nat * option xerr * nat :=
  let cs := firstn dispatched (chunks (length src) off (length src) p) in
  let consumed := fold_left (fun a c => a + snd c) cs 0 in
  let '(s', errs) := writeAll cs s src 0 [] in
  match reduce_first_err errs with
  | Some (eo, e) => (s', consumed, Some e, eo)
  | None => (s', consumed, None, off + consumed)
  end.

(* the concurrency ARGUMENT of ReadFromWithConcurrency: above the client's maximum, or below `lower`, means the maximum
   (lower = 1 is the code and its doc comment; the number of workers started is the result) *)
Definition rfc_workers_gen (lower : Z) (arg : Z) (maxc : nat) : nat :=
  if (Z.of_nat maxc <? arg)%Z || (arg <? lower)%Z then maxc else Z.to_nat arg.
Definition rfc_workers := rfc_workers_gen 1%Z.

(* with no worker nobody ever takes a chunk from the feeder: the call returns at once with nothing transferred and no error *)
Definition readFromConcArg (lower arg : Z) (maxc : nat) (s : srv) (p : nat) (src : bytes) (off : nat) (dispatched : nat)
  : srv * nat * option xerr * nat :=
  match rfc_workers_gen lower arg maxc with
  | O => (s, 0, None, off)
  | S _ => readFromConc s p src off dispatched
  end.

(* which path File.ReadFrom takes: remain = what the source kind reveals (None = opaque) *)
Definition readFrom_uses_conc (o : copts) (remain : option nat) : bool :=
  concWrites o && match remain with Some r => maxPacket o <? r | None => false end.

(* ---------- Seek ---------- *)
Inductive whence := SeekStart | SeekCurrent | SeekEnd | SeekBad.
(* returns the new offset and whether the call failed; a failing Seek does not move *)
Definition seek (cur : nat) (size : nat) (w : whence) (delta : Z) : nat * bool :=
  let target : option Z :=
    match w with
    | SeekStart => Some delta
    | SeekCurrent => Some (Z.of_nat cur + delta)%Z
    | SeekEnd => Some (Z.of_nat size + delta)%Z
    | SeekBad => None
    end in
  match target with
  | None => (cur, true)
  | Some t => if (t <? 0)%Z then (cur, true) else (Z.to_nat t, false)
  end.

(* the deterministic content used by the correspondence harness: byte i = (7 i + 3) mod 251 *)
Definition pattern_byte (i : nat) : byte :=
  match Byte.of_N (N.of_nat ((7 * i + 3) mod 251)) with Some b => b | None => x00 end.
Definition pattern (start n : nat) : bytes := map pattern_byte (seq start n).
