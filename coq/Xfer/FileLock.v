(* client.go File: every method takes f.mu - shared (RLock: ReadAt, WriteAt, Stat, Truncate, Chmod, Chown, Sync, the chunk
   workers) or exclusive (Lock: Read, Write, Seek, ReadFrom, WriteTo, Close) - checks that the handle is still there, sends its
   requests carrying the handle, and unlocks. Close clears the handle and sends CLOSE, all under the exclusive lock.
   Threads are numbered; the RWMutex is modelled by what it guarantees: a shared acquisition succeeds when nobody holds the
   lock exclusively, an exclusive one when nobody holds it at all (writer preference / fairness is not modelled).
     Acq c   c acquires the lock its method kind asks for
     Chk c   c reads the handle: gone -> its result is os.ErrClosed; there -> it goes on (Close clears the handle here)
     Snd c   c writes one request carrying the handle (Close: the CLOSE request)
     Rel c   c unlocks and returns *)
From Coq Require Import List Bool Arith.
Import ListNotations.

Module FileLock.

Inductive mkind := MShared | MExcl | MClose.
Inductive stage := SIdle | SHeld | SSend (n : nat) | SRel (errclosed : bool) | SDone (errclosed : bool).
Record thr := mkT { kind : mkind; nreq : nat; st : stage }.
Inductive wev := WReq (c : nat) | WClose (c : nat).
Record fst8 := mkF { closed : bool; wire : list wev; threads : list (nat * thr) }.

Inductive flabel := Acq (c : nat) | Chk (c : nat) | Snd (c : nat) | Rel (c : nat).

Definition held (t : thr) : bool := match st t with SHeld | SSend _ | SRel _ => true | _ => false end.
Definition is_shared (t : thr) : bool := match kind t with MShared => true | _ => false end.

Fixpoint thr_of (c : nat) (l : list (nat * thr)) : option thr :=
  match l with [] => None | (c', t) :: r => if c' =? c then Some t else thr_of c r end.
Definition set_thr (c : nat) (t : thr) (l : list (nat * thr)) : list (nat * thr) :=
  map (fun e => if fst e =? c then (fst e, t) else e) l.
Definition with_stage (t : thr) (s : stage) : thr := mkT (kind t) (nreq t) s.

Definition fstep (s : fst8) (l : flabel) : option fst8 :=
  match l with
  | Acq c =>
      match thr_of c (threads s) with
      | Some t =>
          match st t with
          | SIdle =>
              let free := if is_shared t then negb (existsb (fun e => held (snd e) && negb (is_shared (snd e))) (threads s))
                          else negb (existsb (fun e => held (snd e)) (threads s)) in
              if free then Some (mkF (closed s) (wire s) (set_thr c (with_stage t SHeld) (threads s))) else None
          | _ => None
          end
      | None => None
      end
  | Chk c =>
      match thr_of c (threads s) with
      | Some t =>
          match st t with
          | SHeld =>
              if closed s then Some (mkF true (wire s) (set_thr c (with_stage t (SRel true)) (threads s)))
              else match kind t with
                   | MClose => Some (mkF true (wire s) (set_thr c (with_stage t (SSend 1)) (threads s)))
                   | _ => Some (mkF false (wire s) (set_thr c (with_stage t (SSend (nreq t))) (threads s)))
                   end
          | _ => None
          end
      | None => None
      end
  | Snd c =>
      match thr_of c (threads s) with
      | Some t =>
          match st t with
          | SSend (S n) =>
              let ev := match kind t with MClose => WClose c | _ => WReq c end in
              Some (mkF (closed s) (wire s ++ [ev]) (set_thr c (with_stage t (SSend n)) (threads s)))
          | _ => None
          end
      | None => None
      end
  | Rel c =>
      match thr_of c (threads s) with
      | Some t =>
          match st t with
          | SSend O => Some (mkF (closed s) (wire s) (set_thr c (with_stage t (SDone false)) (threads s)))
          | SRel b => Some (mkF (closed s) (wire s) (set_thr c (with_stage t (SDone b)) (threads s)))
          | _ => None
          end
      | None => None
      end
  end.

Fixpoint frun8 (s : fst8) (tr : list flabel) : option fst8 :=
  match tr with [] => Some s | l :: r => match fstep s l with Some s' => frun8 s' r | None => None end end.

(* the calls: thread i runs a method of kind k that needs n requests *)
Definition finit (calls : list (mkind * nat)) : fst8 :=
  mkF false [] (combine (seq 0 (length calls)) (map (fun kn => mkT (fst kn) (snd kn) SIdle) calls)).

Definition is_close (e : wev) : bool := match e with WClose _ => true | _ => false end.

(* the wire: at most one CLOSE, and nothing after it. 0 = no CLOSE so far, 1 = ends with the one CLOSE, None = violated *)
Fixpoint wire_scan (w : list wev) (seen : bool) : bool :=
  match w with
  | [] => true
  | WReq _ :: r => if seen then false else wire_scan r false
  | WClose _ :: r => if seen then false else wire_scan r true
  end.

End FileLock.
