(* server.go statusFromError / errno_posix.go translateErrno / request-errors.go fxerr / client.go normaliseError
   over a universe of error values a handler or package os can produce. *)
From Coq Require Import List NArith Bool.
Import ListNotations.
Open Scope N_scope.

(* how the base error is wrapped: bare, in os's own wrappers, or by fmt.Errorf("%w") *)
Inductive wrap := WBare | WPath | WLink | WSyscall | WFmt.

Inductive base :=
| BNil
| BNotExist            (* os.ErrNotExist *)
| BPermission          (* os.ErrPermission *)
| BEOF                 (* io.EOF *)
| BErrno (e : N)       (* syscall.Errno *)
| BFx (code : N)       (* sftp.ErrSSHFx* (fxerr) *)
| BOther.              (* errors.New(text) *)

Definition enoent : N := 2. Definition eperm : N := 1. Definition eacces : N := 13.

Definition os_wrapper (w : wrap) : bool := match w with WFmt => false | _ => true end.

(* os.IsNotExist / os.IsPermission look through *PathError, *LinkError, *SyscallError only (not through %w) *)
Definition is_not_exist (w : wrap) (b : base) : bool :=
  os_wrapper w && match b with BNotExist => true | BErrno e => e =? enoent | _ => false end.
Definition is_permission (w : wrap) (b : base) : bool :=
  os_wrapper w && match b with BPermission => true | BErrno e => (e =? eperm) || (e =? eacces) | _ => false end.

Definition translate_errno (e : N) : N :=
  if e =? 0 then 0 else if e =? enoent then 2 else if (e =? eacces) || (e =? eperm) then 3 else 4.

(* translateSyscallError: a bare Errno, or an Errno directly inside *os.PathError *)
Definition translate_syscall (w : wrap) (b : base) : option N :=
  match w, b with
  | WBare, BErrno e => Some (translate_errno e)
  | WPath, BErrno e => Some (translate_errno e)
  | _, _ => None
  end.

(* `perm_fixed` = os.IsPermission is consulted (repaired F5) *)
Definition perm_fixed : bool := true.

(* the status code statusFromError puts on the wire *)
Definition status_code (fixed : bool) (w : wrap) (b : base) : N :=
  match b with
  | BNil => 0
  | _ =>
    if is_not_exist w b then 2
    else if fixed && is_permission w b then 3
    else match translate_syscall w b with
         | Some c => c
         | None =>
           match b with
           | BEOF => 1                 (* errors.Is(err, io.EOF): through every wrapper *)
           | BFx c => c                (* errors.As(err, &fxerr): through every wrapper *)
           | _ => 4
           end
         end
  end.

(* what the client hands to the caller: normaliseError *)
Inductive cerr := CNil | CEOF | CNotExist | CPermission | CStatus (code : N).
Definition normalise (code : N) : cerr :=
  if code =? 0 then CNil else if code =? 1 then CEOF else if code =? 2 then CNotExist
  else if code =? 3 then CPermission else CStatus code.

(* the category of the original error *)
Inductive cat := KOk | KEOF | KNotExist | KPermission | KFailure (code : N).
Definition cat_of (w : wrap) (b : base) : cat :=
  match b with
  | BNil => KOk
  | BNotExist => KNotExist
  | BPermission => KPermission
  | BEOF => KEOF
  | BErrno e => if e =? enoent then KNotExist else if (e =? eperm) || (e =? eacces) then KPermission
                else if e =? 0 then KOk else KFailure 4
  | BFx c => if c =? 0 then KOk else if c =? 1 then KEOF else if c =? 2 then KNotExist else if c =? 3 then KPermission else KFailure c
  | BOther => KFailure 4
  end.
Definition cat_of_cerr (c : cerr) : cat :=
  match c with CNil => KOk | CEOF => KEOF | CNotExist => KNotExist | CPermission => KPermission | CStatus c => KFailure c end.

(* errors whose category the property promises to preserve: bare or inside os's own wrappers; an Errno inside
   *LinkError / *SyscallError other than not-exist / permission is a plain failure *)
Definition in_scope (w : wrap) (b : base) : bool :=
  os_wrapper w && match b with BErrno e => negb (e =? 0) | _ => true end.
