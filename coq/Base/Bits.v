(* Finite-domain enumeration used to lift vm_compute sweeps to universally quantified theorems. *)
From Coq Require Import List NArith Lia Bool.
Import ListNotations.
Open Scope N_scope.

(* all N below 2^k, by doubling: never a nat numeral above k *)
Fixpoint bits (k : nat) : list N :=
  match k with
  | O => [0]
  | S k' => flat_map (fun x => [2 * x; 2 * x + 1]) (bits k')
  end.

Lemma bits_complete : forall k w, w < 2 ^ N.of_nat k -> In w (bits k).
Proof.
  induction k as [|k IH]; intros w Hw.
  - simpl in *. left. lia.
  - cbn [bits]. apply in_flat_map.
    exists (N.div2 w). split.
    + apply IH. rewrite Nat2N.inj_succ, N.pow_succ_r' in Hw.
      rewrite N.div2_div. apply N.div_lt_upper_bound; lia.
    + pose proof (N.div2_odd w) as H.
      destruct (N.odd w); cbn [N.b2n] in H; [right; left | left]; lia.
Qed.

Lemma forallb_bits : forall (f : N -> bool) k,
  forallb f (bits k) = true -> forall w, w < 2 ^ N.of_nat k -> f w = true.
Proof.
  intros f k H w Hw. rewrite forallb_forall in H. apply H. apply bits_complete; exact Hw.
Qed.

Lemma bits_sound : forall k w, In w (bits k) -> w < 2 ^ N.of_nat k.
Proof.
  induction k as [|k IH]; intros w Hw.
  - simpl in *. destruct Hw as [<-|[]]. lia.
  - cbn [bits] in Hw. apply in_flat_map in Hw. destruct Hw as [x [Hx Hin]].
    apply IH in Hx. rewrite Nat2N.inj_succ, N.pow_succ_r'.
    destruct Hin as [<-|[<-|[]]]; lia.
Qed.
