(* Results of Go functions: a value, an error of some kind, or a run-time panic.
   Every place where the Go code would panic is an explicit Panic in the models, never a default value. *)
From Coq Require Import List NArith Strings.Byte.
Import ListNotations.

Definition bytes := list byte.

Inductive err :=
| EShort           (* errShortPacket / ErrShortPacket *)
| ELong            (* errLongPacket / ErrLongPacket *)
| EUnexpectedEOF   (* io.ErrUnexpectedEOF (wrapped) *)
| EEOF             (* io.EOF *)
| EUnknownExt      (* errUnknownExtendedPacket *)
| EUnhandledType   (* "unhandled packet type" / "unexpected request packet type" *)
| EIdMismatch      (* unexpectedIDErr *)
| EUnexpectedType  (* unexpectedPacketErr *)
| EVersion         (* unexpectedVersionErr *)
| EStatus (code : N)  (* a StatusError with this code *)
| EClosed
| EConnLost
| ENoProgress
| EOutOfFuel
| EOther.

Inductive res (A : Type) := Ok (a : A) | Err (e : err) | Panic.
Arguments Ok {A} a.
Arguments Err {A} e.
Arguments Panic {A}.

Definition bind {A B} (m : res A) (k : A -> res B) : res B :=
  match m with Ok a => k a | Err e => Err e | Panic => Panic end.
Notation "x <- m ;; k" := (bind m (fun x => k)) (at level 61, m at next level, right associativity).
Notation "' pat <- m ;; k" := (bind m (fun x => match x with pat => k end))
  (at level 61, pat pattern, m at next level, right associativity).

Definition is_panic {A} (r : res A) : bool := match r with Panic => true | _ => false end.
Definition is_ok {A} (r : res A) : bool := match r with Ok _ => true | _ => false end.
