# /verif build: proofs (full .vo), extraction, OCaml driver. The Go harness is rebuilt by bin/check on every run.
SHELL := /bin/bash
COQDIR := coq
.PHONY: setup proofs extract driver clean

setup: proofs extract driver

proofs:
	cd $(COQDIR) && coq_makefile -f _CoqProject -o Makefile.coq >/dev/null
	cd $(COQDIR) && set -o pipefail && timeout 3000 $(MAKE) -f Makefile.coq -j16 2>&1 | tee -a build.log | grep -v '^Closed under\|^COQ\|^$$' ; true
	cd $(COQDIR) && timeout 3000 $(MAKE) -f Makefile.coq -j16 >/dev/null 2>&1
	cd $(COQDIR) && for f in Props/C*.v; do o=$${f%.v}.out; if [ ! -f $$o ] || [ $$o -ot $${f%.v}.vo ]; then echo $$f; fi; done | \
	  xargs -r -P16 -I{} sh -c 'f={}; o=$${f%.v}.out; timeout 900 coqc -Q . Sftp $$f > $$o.tmp 2>&1 || echo "COQC-FAILED" >> $$o.tmp; touch -r $${f%.v}.vo $$o.tmp; mv -f $$o.tmp $$o'

# (both steps only when their inputs are newer than their outputs, and the driver is replaced atomically: checks may run side by side)
extract: proofs
	cd ocaml && if [ ! -f model.ml ] || [ model.ml -ot ../coq/Extract/Extract.v ] || [ -n "$$(find ../coq -name '*.vo' -newer model.ml -not -path '*/Props/*' -not -path '*/Proofs/*' | head -1)" ] || [ -n "$$(find ../coq/Proofs -name 'TreeP.vo' -newer model.ml | head -1)" ]; then \
	  timeout 600 coqc -Q ../coq Sftp ../coq/Extract/Extract.v >/dev/null && rm -f model.mli && touch model.ml; fi

driver: extract
	cd ocaml && stale=0; for f in model.ml conv.ml drv_*.ml driver.ml; do if [ ! -f driver ] || [ driver -ot $$f ]; then stale=1; fi; done; \
	  if [ $$stale = 1 ]; then ocamlfind ocamlopt -O3 -w -a model.ml conv.ml drv_mode.ml drv_wire.ml drv_client.ml drv_srv.ml drv_xfer.ml drv_req.ml drv_trace.ml drv_fs.ml $(DRV_EXTRA) driver.ml -o driver.new && mv -f driver.new driver; fi

clean:
	cd $(COQDIR) && [ -f Makefile.coq ] && $(MAKE) -f Makefile.coq clean; rm -f $(COQDIR)/Makefile.coq* $(COQDIR)/build.log
	rm -f ocaml/model.ml ocaml/*.cm* ocaml/*.o ocaml/driver
