# /verif build: proofs (full .vo), extraction, OCaml driver. The Go harness is rebuilt by bin/check on every run.
SHELL := /bin/bash
COQDIR := coq
.PHONY: setup proofs extract driver clean

setup: proofs extract driver

proofs:
	cd $(COQDIR) && coq_makefile -f _CoqProject -o Makefile.coq >/dev/null
	cd $(COQDIR) && set -o pipefail && timeout 3000 $(MAKE) -f Makefile.coq -j16 2>&1 | tee -a build.log | grep -v '^Closed under\|^COQ\|^$$' ; true
	cd $(COQDIR) && timeout 3000 $(MAKE) -f Makefile.coq -j16 >/dev/null 2>&1
	cd $(COQDIR) && for f in Props/C*.v; do o=$${f%.v}.out; if [ ! -f $$o ] || [ $$o -ot $${f%.v}.vo ]; then echo $$f; fi; done | \
	  xargs -r -P16 -I{} sh -c 'f={}; timeout 900 coqc -Q . Sftp $$f > $${f%.v}.out 2>&1 || echo "COQC-FAILED" >> $${f%.v}.out'

extract: proofs
	cd ocaml && timeout 600 coqc -Q ../coq Sftp ../coq/Extract/Extract.v >/dev/null && rm -f model.mli

driver: extract
	cd ocaml && ocamlfind ocamlopt -O3 -w -a model.ml conv.ml drv_mode.ml drv_wire.ml drv_client.ml drv_srv.ml drv_xfer.ml drv_req.ml drv_trace.ml drv_fs.ml $(DRV_EXTRA) driver.ml -o driver

clean:
	cd $(COQDIR) && [ -f Makefile.coq ] && $(MAKE) -f Makefile.coq clean; rm -f $(COQDIR)/Makefile.coq* $(COQDIR)/build.log
	rm -f ocaml/model.ml ocaml/*.cm* ocaml/*.o ocaml/driver
