"""Per-property configuration of bin/check and of MANIFEST.json (bin/genmanifest)."""

COMMON_TRUSTED = [
    "Coq 8.16.1 kernel (coqc; full .vo build, no -vos/-vok); vm_compute is used for finite-domain sweeps and witnesses; native_compute is not used",
    "no Axiom/Parameter/Conjecture/Admitted/admit in the development (static scan on every run); Print Assumptions of every property theorem must print 'Closed under the global context' unless an axiom is named below",
    "extraction: Require Extraction + ExtrOcamlBasic only (Extract Inductive bool/option/unit/list/prod/sumbool/sumor as that file defines them; no Extract Constant); N, positive, nat, Z and Init.Byte.byte stay extracted inductives; OCaml 4.13.1 ocamlopt",
    "OCaml driver /verif/ocaml (conv.ml, drv_*.ml, driver.ml: parsing of case lines, hex conversion, printing) - not verified",
    "Go harness /verif/harness (generators, scripted peers, proxies, canonicalisation, oracles) and the add-only hook file /repo/zz_verif_hooks.go (build tag verif) - not verified",
    "the hand-written Gallina model is tied to the code only by this run's correspondence (cases counted in coverage); code not exercised by a case is modelled, not verified",
]

PROPS = {
    "C17": {
        "title": "File attributes and modes survive every conversion",
        "props_files": ["C17"],
        "families": ["c17"],
        "engine": "wire",
        "exhaustive": True,
        "design_ref": "DESIGN.md section 3, C17",
        "model_functions": "Mode/FileMode.v: toFileMode fromFileMode toChmodPerm isRegular mode_string setstat_ops",
        "go_entry_points": "stat.go toFileMode/fromFileMode/isRegular, client.go toChmodPerm, filexfer/permissions.go FileMode.String, ls_formatting.go runLs, server.go SETSTAT/FSETSTAT respond",
        "technique": "Coq proof (finite domains swept by vm_compute and lifted with forallb_forall; structural proof for SETSTAT) + exhaustive differential of the extracted model against the Go functions",
        "level_text": "All 2^16 wire mode words and all 28672 os modes are covered by kernel-checked theorems (finite sweeps lifted to universally quantified statements) about the Gallina model of toFileMode/fromFileMode/toChmodPerm/isRegular/FileMode.String; the model is tied to the Go functions on the complete domain on every run (exhaustive differential through build-tagged hooks), so for these functions the tie is total. SETSTAT flag handling is proved structurally (exactly the flagged operations, fixed order, stop at first failure) and tied by all 16 flag subsets x 2 value sets x {path, handle} on real files.",
        "level_note": "Trusted: Coq kernel + vm_compute; extraction (ExtrOcamlBasic only); OCaml driver; Go harness and hook file. Observed, not proved: what the host file system reports for real files (Stat/Lstat/ReadDir vs os.Lstat: regular, dir, symlink, fifo, socket, char and block device when mknod is permitted), the clock-dependent date column of the long name (excluded), chown clearing setuid (kernel).",
        "trusted": ["package os / the host file system for the real-file cases (observed)"],
        "assumptions": ["the date/time column of runLs depends on the clock and is excluded", "uid/gid columns are compared numerically (no name lookup)"],
    },
}
