(* C10: path cleaning, error mapping, request-server dispatch *)
open Model
open Conv
open Drv_wire

let bytes_of_string s = List.init (String.length s) (fun i -> byte_of_int (Char.code s.[i]))

let entry_s = function
  | EFileread -> "Fileread" | EFilewrite -> "Filewrite" | EOpenFile -> "OpenFile" | EFilecmd -> "Filecmd"
  | EFilelist -> "Filelist" | ELstat -> "Lstat" | EReadlink -> "Readlink" | ERealPath -> "RealPath"
  | EPosixRename -> "PosixRename" | EStatVFS -> "StatVFS"
let meth_s = function
  | MGet -> "Get" | MPut -> "Put" | MOpen -> "Open" | MSetstat -> "Setstat" | MRename -> "Rename" | MRmdir -> "Rmdir"
  | MMkdir -> "Mkdir" | MLink -> "Link" | MSymlink -> "Symlink" | MRemove -> "Remove" | MPosixRename -> "PosixRename"
  | MStatVFS -> "StatVFS" | MList -> "List" | MStat -> "Stat" | MLstat -> "Lstat" | MReadlink -> "Readlink" | MNone -> ""

let install register get getn geti getb =
  ignore getb;
  register "clean" (fun kv -> "out=" ^ hex_of_bytes (clean (bytes_of_hex (get kv "p"))));
  register "cleanbase" (fun kv -> "out=" ^ hex_of_bytes (clean_with_base (bytes_of_hex (get kv "base")) (bytes_of_hex (get kv "p"))));
  register "tolocal" (fun kv -> "out=" ^ hex_of_bytes (to_local_path (bytes_of_hex (get kv "w")) (bytes_of_hex (get kv "p"))));
  register "status" (fun kv ->
    let w = (match get kv "wrap" with "bare" -> WBare | "path" -> WPath | "link" -> WLink | "syscall" -> WSyscall | _ -> WFmt) in
    let b = (match get kv "base" with
      | "nil" -> BNil | "notexist" -> BNotExist | "permission" -> BPermission | "eof" -> BEOF
      | "errno" -> BErrno (getn kv "errno") | "fx" -> BFx (getn kv "fx") | _ -> BOther) in
    let code = status_code perm_fixed w b in
    let cat = (match normalise code with
      | CNil -> "ok" | CEOF -> "eof" | CNotExist -> "notexist" | CPermission -> "permission" | CStatus c -> "failure:" ^ hex_of_n c) in
    Printf.sprintf "code=%s cat=%s" (hex_of_n code) cat);
  register "dispatch" (fun kv ->
    let start = bytes_of_hex (get kv "start") in
    (* WithStartDirectory stores cleanPath(start); the default is "/" *)
    let start = if start = [] then bytes_of_string "/" else clean_path start in
    let ii = geti kv "ifc" in
    let ifc = { i_openfile = ii land 1 <> 0; i_lstat = ii land 2 <> 0; i_readlink = ii land 4 <> 0; i_realpath = ii land 8 <> 0;
                i_posixrename = ii land 16 <> 0; i_statvfs = ii land 32 <> 0 } in
    let p = parse_packet (get kv "p") in
    (* the request decoder holds attribute bodies raw *)
    match dispatch start ifc p with
    | None -> "call=none"
    | Some c ->
      Printf.sprintf "call=%s:%s:%s:%s:%s:%s" (entry_s c.c_entry) (meth_s c.c_meth) (hex_of_bytes c.c_path) (hex_of_bytes c.c_target)
        (hex_of_n c.c_flags) (hex_of_bytes c.c_attrs))

let install_listing register get geti getb =
  register "listing" (fun kv ->
    let size = geti kv "n" and b = geti kv "b" and style = geti kv "style" and k = geti kv "k" in
    let dots = getb kv "dots" in
    let names = (if dots then ["."; ".."] else []) @ List.init size (fun i -> "e" ^ string_of_int i) in
    let dir = List.map bytes_of_string names in
    let l = List.length dir in
    let beh = scripted (nat_of_int l) (nat_of_int style) (nat_of_int k) in
    let ((acc, reqs), ended) = client_list (nat_of_int (l + 2)) dir beh (nat_of_int b) O [] O in
    Printf.sprintf "names=%s. reqs=%x ok=%s" (String.concat "," (List.map str_of_bytes acc)) (int_of_nat reqs) (bool_s ended));
  (* kind listpages (c10): a paginated handler lister against the same client_list (MaxFilelist = 100) *)
  register "listpages" (fun kv ->
    let e = geti kv "entries" and pg = geti kv "page" in
    let style = if getb kv "eofwith" then 0 else 1 in
    let dir = List.init e (fun i -> bytes_of_string (Printf.sprintf "e%04d" i)) in
    let beh = paged (nat_of_int e) (nat_of_int pg) (nat_of_int style) in
    let ((acc, reqs), ended) = client_list (nat_of_int (e + 2)) dir beh (nat_of_int 100) O [] O in
    Printf.sprintf "n=%x calls=%x ok=%s" (List.length acc) (int_of_nat reqs) (bool_s ended))

let install_lin register get =
  register "lin" (fun kv ->
    let f0 = bytes_of_hex (get kv "f0") in
    let hx s = int_of_string ("0x" ^ s) in
    let h = List.map (fun t -> match split ':' t with
      | [id; call; ret; "R"; off; len; got] ->
        { o_id = nat_of_int (hx id); o_call = nat_of_int (hx call); o_ret = nat_of_int (hx ret);
          o_kind = ORead (nat_of_int (hx off), nat_of_int (hx len), bytes_of_hex got) }
      | [id; call; ret; "W"; off; data] ->
        { o_id = nat_of_int (hx id); o_call = nat_of_int (hx call); o_ret = nat_of_int (hx ret);
          o_kind = OWrite (nat_of_int (hx off), bytes_of_hex data) }
      | [id; call; ret; "S"; sz] ->
        { o_id = nat_of_int (hx id); o_call = nat_of_int (hx call); o_ret = nat_of_int (hx ret); o_kind = OSize (nat_of_int (hx sz)) }
      | _ -> failwith "op") (split ',' (get kv "h")) in
    "lin=" ^ bool_s (lin_check f0 h))

let install_ties register get =
  register "servem" (fun kv ->
    let s = bytes_of_hex (get kv "s") in
    let dir = str_of_bytes (bytes_of_hex (get kv "dir")) in
    let (evs, ending) = serve (nat_of_int (List.length s + 2)) serve_fixed s in
    let made = List.filter_map (fun e -> match e with
      | Dispatched (PMkdir (_, p, _, _)) ->
        let ps = str_of_bytes p in
        let pl = String.length dir + 1 in
        if String.length ps > pl && String.sub ps 0 pl = dir ^ "/" then Some (String.sub ps pl (String.length ps - pl)) else None
      | _ -> None) evs in
    let made = List.sort_uniq compare made in
    Printf.sprintf "made=%s nil=%s" (if made = [] then "-" else String.concat "," made)
      (bool_s (match ending with EndEOF -> true | _ -> false)));
  register "handles" (fun kv ->
    let ops = split ',' (get kv "ops") in
    let num s = nat_of_int (int_of_string (String.sub s 1 (String.length s - 1))) in
    let step (st, fails) o =
      let op = (match o.[0] with 'o' -> OpenOk | 'f' -> OpenFail true | 'u' -> Use (num o) | _ -> CloseH (num o)) in
      let (st', failed) = hstep st op in (st', fails ^ bool_s failed) in
    let (st, fails) = List.fold_left step (h0, "") ops in
    let (fin, _) = hstep st EndSession in
    let issued = String.concat "," (List.map (fun h -> string_of_int (int_of_nat h)) st.issued) in
    (* objects = resources of successful opens, in creation order *)
    let objs = List.filter_map (fun (h, r) -> if List.mem h st.issued then Some (Printf.sprintf "%d:%d" (int_of_nat r.r_closed) (int_of_nat r.r_xfer)) else None) fin.res0 in
    Printf.sprintf "issued=%s fails=%s objs=%s" (if issued = "" then "-" else issued) fails (if objs = [] then "-" else String.concat "," objs))
