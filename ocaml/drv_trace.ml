(* Trace acceptance: the events recorded by the instrumented implementation (build tag verif) are replayed on the
   labelled-transition-system models. Events arrive as a comma-separated list in key "tr". *)
open Model
open Conv

let split_events s = if s = "-" || s = "" then [] else String.split_on_char ',' s

(* "A12r" -> ('A', 12, "r") *)
let parse_ev e =
  let n = String.length e in
  let i = ref 1 in
  while !i < n && e.[!i] >= '0' && e.[!i] <= '9' do incr i done;
  (e.[0], int_of_string (String.sub e 1 (!i - 1)), String.sub e !i (n - !i))

let ints l = String.concat "," (List.map (fun x -> string_of_int (int_of_nat x)) l)

let install register get =
  register "pmtrace" (fun kv ->
    let evs = List.map (fun e ->
      let (c, oid, suf) = parse_ev e in
      let oid = nat_of_int oid in
      match c with
      | 'A' -> EvA (oid, KCmd)   (* the kind is filled in by Model.annotate from the D event of the same id *)
      | 'D' -> EvD (oid, (match suf with "r" -> KRW | "c" -> KClose | _ -> KCmd)) | 'F' -> EvF oid | 'Q' -> EvQ oid | 'R' -> EvR oid | 'E' -> EvE oid
      | _ -> failwith ("bad event " ^ e)) (split_events (get kv "tr")) in
    match accept_raw evs with
    | Inl (s, owed) ->
      (* the emissions the trace has shown: the model's, without those the last controller step still owes *)
      let l = s.emitted in
      let shown = List.filteri (fun i _ -> i < List.length l - List.length owed) l in
      Printf.sprintf "accepted=1 emitted=%s" (if shown = [] then "-" else ints shown)
    | Inr i -> Printf.sprintf "accepted=0 at=%d" (int_of_nat i));
  register "cctrace" (fun kv ->
    let maxsid = ref 0 in
    let evs = List.map (fun e ->
      let (c, sid, suf) = parse_ev e in
      if sid > !maxsid then maxsid := sid;
      let sidn = nat_of_int sid in
      match c with
      | 'P' -> CEvP (sidn, suf = "+") | 'S' -> CEvS (sidn, suf = "+") | 'g' -> CEvG (sidn, suf = "+")
      | 'B' -> CEvB
      | 'T' -> CEvT (sidn, nat_of_int (match suf with "o" -> 0 | "l" -> 1 | _ -> 2))
      | _ -> failwith ("bad event " ^ e)) (split_events (get kv "tr")) in
    match caccept_trace (nat_of_int !maxsid) evs with
    | Inl _ -> "accepted=1"
    | Inr i -> Printf.sprintf "accepted=0 at=%d" (int_of_nat i));
  register "altrace" (fun kv ->
    let evs = List.map (fun e ->
      let (c, oid, suf) = parse_ev e in
      match c with
      | 'G' -> AEvG (nat_of_int oid, nat_of_int (int_of_string (String.sub suf 1 (String.length suf - 1))))
      | 'L' -> AEvL (nat_of_int oid) | 'X' -> AEvX
      | _ -> failwith ("bad event " ^ e)) (split_events (get kv "tr")) in
    match areplay_trace evs with
    | Inl a -> Printf.sprintf "accepted=1 used=%d avail=%d" (List.length (all_used a)) (List.length a.available)
    | Inr i -> Printf.sprintf "accepted=0 at=%d" (int_of_nat i))
