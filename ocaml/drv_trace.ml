(* Trace acceptance: the events recorded by the instrumented implementation (build tag verif) are replayed on the
   labelled-transition-system models. Events arrive as a comma-separated list in key "tr". *)
open Model
open Conv

let split_events s = if s = "-" || s = "" then [] else String.split_on_char ',' s

(* "A12r" -> ('A', 12, "r") *)
let parse_ev e =
  let n = String.length e in
  let i = ref 1 in
  while !i < n && e.[!i] >= '0' && e.[!i] <= '9' do incr i done;
  (e.[0], int_of_string (String.sub e 1 (!i - 1)), String.sub e !i (n - !i))

(* order ids, request ids and page numbers become Peano naturals in the model: a recorded number beyond this bound cannot come
   from a run of a few thousand requests, and converting it would not end; the trace is reported as not accepted *)
let max_num = 1_000_000
let first_huge evs =
  let rec go i = function
    | [] -> None
    | e :: rest ->
      let big = (try let (_, n, suf) = parse_ev e in
                     n > max_num || (String.length suf > 1 && suf.[0] = 'p' && int_of_string (String.sub suf 1 (String.length suf - 1)) > max_num)
                 with _ -> false) in
      if big then Some i else go (i + 1) rest in
  go 0 evs
let guarded get kv f =
  match first_huge (split_events (get kv "tr")) with
  | Some i -> Printf.sprintf "accepted=0 at=%d number-out-of-range" i
  | None -> f kv

let ints l = String.concat "," (List.map (fun x -> string_of_int (int_of_nat x)) l)

let install register get =
  register "pmtrace" (fun kv -> guarded get kv @@ fun kv ->
    let evs = List.map (fun e ->
      let (c, oid, suf) = parse_ev e in
      let oid = nat_of_int oid in
      match c with
      | 'A' -> EvA (oid, KCmd)   (* the kind is filled in by Model.annotate from the D event of the same id *)
      | 'D' -> EvD (oid, (match suf with "r" -> KRW | "c" -> KClose | _ -> KCmd)) | 'F' -> EvF oid | 'Q' -> EvQ oid | 'R' -> EvR oid | 'E' -> EvE oid
      | _ -> failwith ("bad event " ^ e)) (split_events (get kv "tr")) in
    match accept_raw evs with
    | Inl (s, owed) ->
      (* the emissions the trace has shown: the model's, without those the last controller step still owes *)
      let l = s.emitted in
      let shown = List.filteri (fun i _ -> i < List.length l - List.length owed) l in
      let settled = (try get kv "settled" with _ -> "0") = "1" in
      Printf.sprintf "accepted=1 emitted=%s%s" (if shown = [] then "-" else ints shown)
        (if settled then Printf.sprintf " quiescent=%d arrived=%d" (if quiescent s then 1 else 0) (int_of_nat s.arrived) else "")
    | Inr i -> Printf.sprintf "accepted=0 at=%d" (int_of_nat i));
  register "wirescan" (fun kv ->
    let parts = List.map (fun e ->
      if e = "x" then (O, PPay) else
      let (c, id, _) = parse_ev e in
      (* sender numbers only need to be distinct per request; 0 is kept for "x" *)
      (nat_of_int (id + 1), (match c with 'o' -> POne | 'h' -> PHdr | 'p' -> PPay | _ -> failwith ("bad part " ^ e)))) (split_events (get kv "wire")) in
    match scan parts None with
    | Some None -> "scan=whole"
    | Some (Some _) -> "scan=open"
    | None -> "scan=broken");
  register "idswrap" (fun kv ->
    (* the ids of k consecutive nextID calls from counter c0: count of zero ids, sum and xor of all of them *)
    let ids = ids_from (n_of_hex (get kv "c0")) (nat_of_int (int_of_string ("0x" ^ get kv "k"))) in
    let sum = List.fold_left (fun a x -> a + int_of_n x) 0 ids in
    let xr = List.fold_left (fun a x -> a lxor int_of_n x) 0 ids in
    let zeros = List.length (List.filter (fun x -> int_of_n x = 0) ids) in
    Printf.sprintf "n=%d sum=%d xor=%d zeros=%d" (List.length ids) sum xr zeros);
  register "cctrace" (fun kv -> guarded get kv @@ fun kv ->
    let maxsid = ref 0 in
    let evs = List.map (fun e ->
      let (c, sid, suf) = parse_ev e in
      if sid > !maxsid then maxsid := sid;
      let sidn = nat_of_int sid in
      match c with
      | 'P' -> CEvP (sidn, suf = "+") | 'S' -> CEvS (sidn, suf = "+") | 'g' -> CEvG (sidn, suf = "+")
      | 'B' -> CEvB
      | 'T' -> CEvT (sidn, nat_of_int (match suf with "o" -> 0 | "l" -> 1 | _ -> 2))
      | _ -> failwith ("bad event " ^ e)) (split_events (get kv "tr")) in
    match caccept_trace (nat_of_int !maxsid) evs with
    | Inl cands ->
      (* settled=1: every call of the run has returned (none was cancelled): in some explanation of the trace every caller that
         registered a request must have taken its result out of its channel *)
      if (try get kv "settled" with _ -> "0") = "1" then begin
        let unfinished (c, _) = List.length (List.filter (fun (_, st) -> match st with CDone (_, _) | CIdle -> false | _ -> true) c.callers) in
        let best = List.fold_left (fun a c -> Stdlib.min a (unfinished c)) Stdlib.max_int cands in
        Printf.sprintf "accepted=1 unfinished=%d" (if cands = [] then 0 else best)
      end else "accepted=1"
    | Inr i -> Printf.sprintf "accepted=0 at=%d" (int_of_nat i));
  register "altrace" (fun kv -> guarded get kv @@ fun kv ->
    let evs = List.map (fun e ->
      let (c, oid, suf) = parse_ev e in
      match c with
      | 'G' -> AEvG (nat_of_int oid, nat_of_int (int_of_string (String.sub suf 1 (String.length suf - 1))))
      | 'L' -> AEvL (nat_of_int oid) | 'X' -> AEvX
      | _ -> failwith ("bad event " ^ e)) (split_events (get kv "tr")) in
    match areplay_trace evs with
    | Inl a -> Printf.sprintf "accepted=1 used=%d avail=%d" (List.length (all_used a)) (List.length a.available)
    | Inr i -> Printf.sprintf "accepted=0 at=%d" (int_of_nat i))
