(* conversions between OCaml values and the extracted inductives; no extracted function is used here *)
open Model

let rec pos_of_int (i : int) : positive =
  if i = 1 then XH else if i land 1 = 1 then XI (pos_of_int (i lsr 1)) else XO (pos_of_int (i lsr 1))
let n_of_int (i : int) : n = if i = 0 then N0 else Npos (pos_of_int i)
let rec int_of_pos = function XH -> 1 | XO p -> 2 * int_of_pos p | XI p -> 2 * int_of_pos p + 1
let int_of_n = function N0 -> 0 | Npos p -> int_of_pos p
let rec nat_of_int i = if i <= 0 then O else S (nat_of_int (i - 1))
let rec int_of_nat = function O -> 0 | S n -> 1 + int_of_nat n

(* hex <-> N of any size *)
let hexval c = match c with
  | '0'..'9' -> Char.code c - 48 | 'a'..'f' -> Char.code c - 87 | 'A'..'F' -> Char.code c - 55
  | _ -> failwith "hexval"
let n_of_hex (s : string) : n =
  (* bits MSB first *)
  let bits = ref [] in
  String.iter (fun c -> let v = hexval c in
    bits := (v land 1 = 1) :: (v land 2 = 2) :: (v land 4 = 4) :: (v land 8 = 8) :: !bits) s;
  (* !bits is LSB first now *)
  let rec strip = function [] -> [] | l -> l in
  let lsb = strip !bits in
  (* build positive from LSB-first list, dropping leading zeros at the MSB end *)
  let rec build = function
    | [] -> None
    | b :: rest -> (match build rest with
        | None -> if b then Some XH else None
        | Some p -> Some (if b then XI p else XO p)) in
  match build lsb with None -> N0 | Some p -> Npos p
let hex_of_n (v : n) : string =
  match v with N0 -> "0" | Npos p ->
    let rec bits p = match p with XH -> [true] | XO q -> false :: bits q | XI q -> true :: bits q in
    let l = Array.of_list (bits p) in
    let nb = Array.length l in
    let nd = (nb + 3) / 4 in
    let b = Buffer.create nd in
    for d = nd - 1 downto 0 do
      let v = ref 0 in
      for k = 3 downto 0 do
        let i = d * 4 + k in
        v := !v * 2 + (if i < nb && l.(i) then 1 else 0)
      done;
      Buffer.add_char b "0123456789abcdef".[!v]
    done; Buffer.contents b

(* bytes: extracted Coq byte is a 256-constructor enum; Obj.magic on the constructor index is avoided, we go through bits *)
let byte_table : byte array Lazy.t = lazy (
  let rec all_bytes i acc = if i < 0 then acc else all_bytes (i - 1) (i :: acc) in
  ignore (all_bytes 0 []);
  Array.init 256 (fun i ->
    let b k = (i lsr k) land 1 = 1 in
    Model.of_bits (b 0, (b 1, (b 2, (b 3, (b 4, (b 5, (b 6, b 7)))))))))
let byte_of_int i = (Lazy.force byte_table).(i land 255)
let int_of_byte (x : byte) : int =
  let (b0, (b1, (b2, (b3, (b4, (b5, (b6, b7))))))) = Model.to_bits x in
  let v b k = if b then 1 lsl k else 0 in
  v b0 0 + v b1 1 + v b2 2 + v b3 3 + v b4 4 + v b5 5 + v b6 6 + v b7 7
let bytes_of_hex (s : string) : byte list =
  if s = "-" then [] else
  let n = String.length s / 2 in
  List.init n (fun i -> byte_of_int (hexval s.[2*i] * 16 + hexval s.[2*i+1]))
let hex_of_bytes (l : byte list) : string =
  if l = [] then "-" else begin
    let b = Buffer.create 64 in
    List.iter (fun x -> Buffer.add_string b (Printf.sprintf "%02x" (int_of_byte x))) l;
    Buffer.contents b end
let bool_s b = if b then "1" else "0"
