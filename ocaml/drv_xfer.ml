(* transfers: kind "xfer" (families c01, c13, c12) and "seek" *)
open Model
open Conv
open Drv_wire

let plan_of s : (int * n) list =
  if s = "-" then [] else List.map (fun t -> match split ':' t with
    | [o; c] -> (int_of_string ("0x" ^ o), n_of_hex c) | _ -> failwith "plan") (split ',' s)

let xerr_s = function
  | None -> "nil"
  | Some (XStatus c) -> (match int_of_n c with 1 -> "eof" | _ -> "status:" ^ hex_of_n c)
  | Some XNoProgress -> "noprogress"

(* the deterministic content the harness uses (byte i = (7 i + 3) mod 251), built natively: Model.pattern computes the same
   bytes on Peano naturals in quadratic time, which is too slow for the thorough tier's transfers of a few hundred KiB *)
let pattern_fast (start : int) (n : int) : byte list =
  List.init n (fun k -> byte_of_int ((7 * (start + k) + 3) mod 251))

let rec take n l = if n <= 0 then [] else match l with [] -> [] | x :: t -> x :: take (n - 1) t

let z_of_int (i : int) : z =
  if i = 0 then Z0 else if i > 0 then Zpos (pos_of_int i) else Zneg (pos_of_int (-i))

(* kind "fseqm" (family c12): a whole sequence of File method calls on the model of Xfer/FileOps.v *)
let install_fileseq register get geti getb =
  register "fseqm" (fun kv ->
    let p = geti kv "p" and conc = geti kv "conc" in
    let o = { maxPacket = nat_of_int p; maxConc = nat_of_int conc; concReads = getb kv "cr"; concWrites = getb kv "cw"; useFstat = getb kv "fstat" } in
    let plan k = (try plan_of (get kv k) with _ -> []) in
    let rplan = plan "rfail" and wplan = plan "wfail" in
    let lookup pl = fun (o : nat) -> List.assoc_opt (int_of_nat o) pl in
    let s = { file = bytes_of_hex (get kv "init"); maxTx = nat_of_int (geti kv "maxtx"); rfail = lookup rplan; wfail = lookup wplan } in
    let ops = List.map (fun t -> match split ':' t with
      | ["r"; n] -> FRead (nat_of_int (int_of_string n))
      | ["w"; h] -> FWrite (bytes_of_hex h)
      | ["ra"; a; n] -> FReadAt (nat_of_int (int_of_string a), nat_of_int (int_of_string n))
      | ["wa"; a; h] -> FWriteAt (nat_of_int (int_of_string a), bytes_of_hex h)
      | ["sk"; w; d] -> FSeek ((match w with "0" -> SeekStart | "1" -> SeekCurrent | "2" -> SeekEnd | _ -> SeekBad), z_of_int (int_of_string d))
      | ["wt"] -> FWriteTo
      | ["rf"; h] -> FReadFrom (bytes_of_hex h, true)
      | ["tr"; n] -> FTruncate (nat_of_int (int_of_string n))
      | ["st"] -> FStat
      | _ -> failwith ("bad op " ^ t)) (if get kv "ops" = "-" then [] else split ',' (get kv "ops")) in
    (* offsets after every step: replay prefix by prefix is quadratic; run step by step instead *)
    let rec go st ops acc = match ops with
      | [] -> (st, List.rev acc)
      | op :: rest ->
        let ((st', rs)) = frun o st [op] in
        let r = List.hd rs in
        let (_, off') = st' in
        go st' rest (Printf.sprintf "%d:%d:%d:%s" (int_of_nat r.r_n) (if r.r_err then 1 else 0) (int_of_nat off') (hex_of_bytes r.r_data) :: acc) in
    let ((s', _), outs) = go (s, O) ops [] in
    Printf.sprintf "res=%s final=%s" (if outs = [] then "-" else String.concat "," outs) (hex_of_bytes s'.file))

let install register get getn geti getb =
  ignore getn;
  register "xfer" (fun kv ->
    let api = get kv "api" in
    let p = geti kv "p" and conc = geti kv "conc" in
    let cr = getb kv "cr" and cw = getb kv "cw" and fst = getb kv "fstat" in
    let flen = geti kv "flen" and off = geti kv "off" and len = geti kv "len" and maxtx = geti kv "maxtx" in
    let rplan = plan_of (get kv "rfail") and wplan = plan_of (get kv "wfail") in
    let src = get kv "src" and regular = getb kv "regular" in
    let lookup plan = fun (o : nat) -> List.assoc_opt (int_of_nat o) plan in
    let s = { file = pattern_fast 0 flen; maxTx = nat_of_int maxtx; rfail = lookup rplan; wfail = lookup wplan } in
    let o = { maxPacket = nat_of_int p; maxConc = nat_of_int conc; concReads = cr; concWrites = cw; useFstat = fst } in
    let data = pattern_fast 1000 len in
    let noff = nat_of_int off and nlen = nat_of_int len in
    let failing = rplan <> [] || wplan <> [] in
    let all = nat_of_int (len + 2) in
    let out_write (s' : srv) (n : int) (e : xerr option) (foff : int) (show_n : bool) (pre : bool) (pre_end : int) =
      let base = Printf.sprintf "err=%s foff=%x" (xerr_s e) foff in
      let base = if show_n then base ^ Printf.sprintf " n=%x" n else base in
      let pre_end = if pre_end <= off && pre_end > flen then flen else pre_end in
      if pre then base ^ " filepre=" ^ hex_of_bytes (take pre_end s'.file)
      else base ^ " file=" ^ hex_of_bytes s'.file in
    match api with
    | "readat" | "read" ->
      let arrival = chunks nlen noff nlen (nat_of_int p) in
      let ((n, e), d) = readAt o s noff nlen arrival in
      let n = int_of_nat n in
      Printf.sprintf "err=%s foff=%x n=%x data=%s" (xerr_s e) (if api = "read" then off + n else 0) n (hex_of_bytes d)
    | "writeto" ->
      (* statsz: what STAT reports as the size (0 = the true size, k+1 = k) *)
      let statsz = (try geti kv "statsz" with _ -> 0) in
      let ((d, e), newoff) = if statsz = 0 then writeTo o s regular noff else writeToS o s regular (nat_of_int (statsz - 1)) noff in
      Printf.sprintf "err=%s foff=%x n=%x data=%s" (xerr_s e) (int_of_nat newoff) (List.length d) (hex_of_bytes d)
    | "writeat" | "write" ->
      let ((s', n), e) = writeAt o s noff data all in
      let n = int_of_nat n in
      let concw = cw && len > p in
      let foff = if api = "write" then off + n else 0 in
      out_write s' n e foff true (failing && concw) (off + n)
    | "readfrom" | "readfromc" ->
      let remain = (match src with "opaque" -> None | _ -> Some nlen) in
      let use_conc = api = "readfromc" || readFrom_uses_conc o remain in
      let (((s', n), e), foff) =
        if use_conc && api = "readfromc" then begin
          (* the concurrency argument the harness passed: the client's maximum itself, 0, -1 or maximum+7 *)
          let rec z_of_pos i = if i = 1 then XH else if i land 1 = 1 then XI (z_of_pos (i lsr 1)) else XO (z_of_pos (i lsr 1)) in
          let z i = if i = 0 then Z0 else if i < 0 then Zneg (z_of_pos (-i)) else Zpos (z_of_pos i) in
          let arg = (match (try get kv "rfc" with _ -> "0") with "1" -> 0 | "2" -> -1 | "3" -> conc + 7 | _ -> conc) in
          readFromConcArg (z 1) (z arg) (nat_of_int conc) s (nat_of_int p) data noff all
        end
        else if use_conc then readFromConc s (nat_of_int p) data noff all
        else readFromSeq (nat_of_int (len + 2)) readfrom_fixed s (nat_of_int p) data noff O in
      let show_n = not (api = "readfromc" && failing) && not (api = "readfrom" && failing && cw) in
      let pre = failing && (api = "readfromc" || (api = "readfrom" && cw)) in
      out_write s' (int_of_nat n) e (int_of_nat foff) show_n pre (int_of_nat foff)
    | _ -> "unknown-api");
  register "seek" (fun kv ->
    let cur = geti kv "cur" and size = geti kv "size" in
    let w = (match get kv "whence" with "0" -> SeekStart | "1" -> SeekCurrent | "2" -> SeekEnd | _ -> SeekBad) in
    let neg = getb kv "neg" in
    let mag = geti kv "delta" in
    let rec z_of_pos i = if i = 1 then XH else if i land 1 = 1 then XI (z_of_pos (i lsr 1)) else XO (z_of_pos (i lsr 1)) in
    let delta = if mag = 0 then Z0 else if neg then Zneg (z_of_pos mag) else Zpos (z_of_pos mag) in
    let (noff, failed) = seek (nat_of_int cur) (nat_of_int size) w delta in
    Printf.sprintf "off=%x fail=%s" (int_of_nat noff) (bool_s failed))
