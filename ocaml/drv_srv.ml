(* C19 negotiation, and other server-side table models *)
open Model
open Conv
open Drv_wire

let candidates = List.map (fun s -> List.init (String.length s) (fun i -> byte_of_int (Char.code s.[i])))
  ["hardlink@openssh.com"; "posix-rename@openssh.com"; "statvfs@openssh.com"; "fsync@openssh.com"; "x@example.com"; ""]

let cli_view exts =
  let parts = List.filter_map (fun n -> match has_extension exts n with
    | Some d -> Some (hex_of_bytes n ^ ":" ^ hex_of_bytes d) | None -> None) candidates in
  if parts = [] then "-" else String.concat "+" parts

let install register get getn geti getb =
  register "pflags" (fun kv -> "pf=" ^ hex_of_n (toPflags (getn kv "f")));
  ignore getn; ignore geti; ignore getb;
  register "setext" (fun kv ->
    let seq = get kv "seq" in
    let calls = List.map (fun c -> if c = "e" then [] else List.map bytes_of_hex (split ',' c)) (split ';' seq) in
    let (fin, oks) = run_set supported calls in
    Printf.sprintf "oks=%s adv=%s cli=%s" (String.concat "" (List.map bool_s oks)) (canon_pairs fin) (cli_view fin));
  register "hs" (fun kv ->
    match bytes_of_hex (get kv "reply") with
    | [] -> "accept=0 exts=-"
    | t :: payload ->
      (match recv_version (n_of_int (int_of_byte t)) payload with
       | Ok exts -> "accept=1 exts=" ^ cli_view exts
       | _ -> "accept=0 exts=-"));
  register "extreq" (fun kv ->
    let name = bytes_of_hex (get kv "name") in
    Printf.sprintf "unsupported=%s cont=1" (bool_s (match ext_reaction name with Some _ -> true | None -> false)))
