(* C20: client reply decoders *)
open Model
open Conv
open Drv_wire

let cerr_s e = match e with
  | EStatus c -> (match int_of_n c with 1 -> "eof" | _ -> "status:" ^ hex_of_n c)
  | e -> err_s e

let canon_cres (r : cres res) : string = match r with
  | Panic -> "crash"
  | Err e -> "err:" ^ cerr_s e
  | Ok (CErr e) -> "err:" ^ cerr_s e
  | Ok (CVal v) -> (match v with
    | VOk -> "val:ok"
    | VHandle h -> "val:h=" ^ hex_of_bytes h
    | VAttrs a -> "val:attrs=" ^ canon_attrs { a with a_flags = N0 }
    | VName s -> "val:name=" ^ hex_of_bytes s
    | VNames l -> if l = [] then "val:names=-" else
        "val:names=" ^ String.concat "|" (List.map (fun (n, a) -> hex_of_bytes n ^ "/" ^ canon_attrs { a with a_flags = N0 }) l)
    | VData d -> "val:data=" ^ hex_of_bytes d
    | VStatvfs raw -> "val:statvfs=" ^ hex_of_bytes (drop 4 raw))

let install register get getn geti getb =
  ignore getn; ignore geti; ignore getb;
  register "ro" (fun kv ->
    let p = parse_packet (get kv "p") in
    "denied=" ^ bool_s (not (gate ro_fixed p)));
  register "creply" (fun kv ->
    let op = get kv "op" and reply = bytes_of_hex (get kv "reply") in
    let safe = client_safe in
    (* the harness patches the request id into bytes 1..4 when the reply has at least 5 bytes; we use id 0x07070707 *)
    let id = n_of_int 0x07070707 in
    let lost = if op = "read8" then "res=n=0;data=-;err=connlost" else "res=err:connlost" in
    match reply with
    | [] -> lost
    | t :: data0 ->
      let typ = n_of_int (int_of_byte t) in
      if List.length data0 < 4 then lost else
      let idb = List.map byte_of_int [7; 7; 7; 7] in
      let data = idb @ (drop 4 data0) in
      let eof_status = (n_of_int 101, idb @ List.map byte_of_int [0;0;0;1; 0;0;0;3; 69;79;70; 0;0;0;0]) in
      (match op with
       | "stat" -> "res=" ^ canon_cres (Model.parse_attrs safe id typ data)
       | "open" -> "res=" ^ canon_cres (parse_handle safe id typ data)
       | "readlink" -> "res=" ^ canon_cres (parse_name1 safe id typ data)
       | "rename" -> "res=" ^ canon_cres (parse_status_only safe id typ data)
       | "statvfs" -> "res=" ^ canon_cres (parse_statvfs safe id typ data)
       | "readdir" ->
         (* the client keeps asking until a status arrives; the peer answers every later READDIR with EOF *)
         (match parse_readdir safe id typ data with
          | Ok (CErr (EStatus c)) when int_of_n c = 1 -> "res=val:names=-"
          | Ok (CVal VOk) -> "res=val:names=-"
          | r -> "res=" ^ canon_cres r)
       | "read8" ->
         (match read_chunk (nat_of_int 4) safe id [(typ, data); eof_status] (nat_of_int 8) [] with
          | Ok (acc, e) ->
            Printf.sprintf "res=n=%x;data=%s;err=%s" (List.length acc) (hex_of_bytes acc)
              (match e with None -> "nil" | Some e -> cerr_s e)
          | Err e -> "res=err:" ^ cerr_s e
          | Panic -> "res=crash")
       | _ -> "res=unknown-op"))
