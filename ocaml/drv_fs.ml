(* Name-space model of the served tree (coq/Fs/Tree.v): kinds fsop (the client's composite operations and the server's
   primitives, against what a Client did to a real tree) and fsspec (the specifications, against what package os did to
   the twin tree). Trees travel as "a/b:d;a/b/c:f;x:l" (d directory, f file, l symbolic link), paths as "a/b/c" ("" the root). *)
open Model
open Conv

let install register get =
  let run spec kv =
    let names : (string, int) Hashtbl.t = Hashtbl.create 16 in
    let back : (int, string) Hashtbl.t = Hashtbl.create 16 in
    let id s = match Hashtbl.find_opt names s with
      | Some i -> i
      | None -> let i = Hashtbl.length names + 1 in Hashtbl.replace names s i; Hashtbl.replace back i s; i in
    let path_of s = if s = "" || s = "-" then [] else List.map (fun c -> nat_of_int (id c)) (String.split_on_char '/' s) in
    let str_of (p : FsTree.path) = String.concat "/" (List.map (fun n -> Hashtbl.find back (int_of_nat n)) p) in
    let tree = if get kv "tree" = "-" then [] else
      List.map (fun e -> match String.split_on_char ':' e with
        | [p; "d"] -> (path_of p, FsTree.KDir) | [p; "f"] -> (path_of p, FsTree.KFile) | [p; "l"] -> (path_of p, FsTree.KLink)
        | _ -> failwith ("bad entry " ^ e)) (String.split_on_char ';' (get kv "tree")) in
    (* parents first, so that the list is a well-formed tree in the model's sense whatever order the snapshot came in *)
    let tree = List.stable_sort (fun (a, _) (b, _) -> compare (List.length a) (List.length b)) tree in
    let p = path_of (get kv "path") in
    let p2 = (try path_of (get kv "path2") with _ -> []) in
    let kletter = function FsTree.KDir -> "d" | FsTree.KFile -> "f" | FsTree.KLink -> "l" in
    let look_str (l : FsTree.look) (ok : FsTree.kind -> string) = match l with
      | FsTree.LKind k -> ok k | FsTree.LNoEnt -> "res=notexist" | FsTree.LNotDir -> "res=other" | FsTree.LUndef -> "skip" in
    match get kv "op" with
    | "lstat" -> look_str (FsTree.lstat tree p) (fun k -> "res=ok kind=" ^ kletter k)
    | "stat" -> look_str (FsTree.stat tree p) (fun k -> "res=ok kind=" ^ kletter k)
    | "glob" ->
      (* pat = components "meta:all:n1,n2" joined by "/": what path.Match says about each component is given by the harness *)
      let comps = List.map (fun cs -> match String.split_on_char ':' cs with
        | [m; a; ns] -> { FsTree.cp_meta = (m = "1"); FsTree.cp_all = (a = "1");
                          FsTree.cp_names = (if ns = "-" then [] else List.map (fun n -> nat_of_int (id n)) (String.split_on_char ',' ns)) }
        | _ -> failwith ("bad component " ^ cs)) (String.split_on_char '/' (get kv "pat")) in
      let r = if spec then FsTree.spec_glob tree (List.rev comps) else FsTree.c_glob tree (List.rev comps) in
      (match r with
       | None -> "skip"
       | Some l -> let ents = List.sort compare (List.map str_of l) in
                   "res=ok ents=" ^ (if ents = [] then "-" else String.concat ";" ents))
    | "walk" ->
      (* the client's traversal when the case is of kind fsop, filepath.Walk's specification when it is of kind fsspec *)
      (match p with [] -> "skip" | _ ->
       look_str (FsTree.lstat tree p) (fun k ->
        let l = if spec then FsTree.spec_walk tree p k else FsTree.c_walk (S (FsTreeP.cnt tree p)) tree p k in
        let ents = List.sort compare (List.map (fun (q, kq) -> str_of q ^ ":" ^ kletter kq) l) in
        "res=ok ents=" ^ String.concat ";" ents))
    | "readlink" -> look_str (FsTree.lstat tree p) (function FsTree.KLink -> "res=ok" | _ -> "res=other")
    | "readdir" -> look_str (FsTree.stat tree p) (function
        | FsTree.KDir ->
          let ents = List.sort compare (List.map (fun (q, k) ->
            (match List.rev q with c :: _ -> Hashtbl.find back (int_of_nat c) | [] -> "") ^ ":" ^ kletter k) (FsTree.children tree p)) in
          "res=ok ents=" ^ (if ents = [] then "-" else String.concat ";" ents)
        | _ -> "res=other")
    | _ ->
    let r = match get kv "op", spec with
      | "mkdirall", false -> FsTree.c_mkdirall (S (nat_of_int (List.length p))) tree p
      | "mkdirall", true -> FsTree.spec_mkdirall tree p
      | "removeall", false -> FsTree.c_removeall (S (FsTreeP.cnt tree p)) tree p
      | "removeall", true ->
        (* os.RemoveAll returns nil for a path that does not exist (Client.RemoveAll documents that it returns an error) *)
        (match FsTree.spec_removeall tree p with Some (FsTree.TNotExist, t) -> Some (FsTree.TOk, t) | r -> r)
      | "remove", false -> FsTree.c_remove tree p
      | "remove", true -> FsTree.p_remove tree p
      | "rmdir", false -> FsTree.p_remove tree p      (* RMDIR is answered with os.Remove *)
      | "rmdir", true -> FsTree.p_rmdir tree p        (* the twin uses rmdir(2) *)
      | "mkdir", _ -> FsTree.p_mkdir tree p
      | ("rename" | "posixrename"), _ -> FsTree.p_rename tree p p2   (* the server answers both with os.Rename *)
      | "link", _ -> FsTree.p_link tree p p2
      | "symlink", _ -> FsTree.p_symlink (get kv "target" = "empty") tree p
      | ("create" | "openfile"), _ ->
        (* flags as package os has them on Linux: O_WRONLY 1, O_RDWR 2, O_CREAT 0x40, O_EXCL 0x80, O_TRUNC 0x200 *)
        let fl = int_of_string ("0x" ^ get kv "flags") in
        FsTree.p_open (fl land 0x40 <> 0) (fl land 0x80 <> 0) (fl land 3 <> 0 || fl land 0x200 <> 0) tree p
      | o, _ -> failwith ("bad op " ^ o) in
    match r with
    | None -> "skip"
    | Some (c, t) ->
      let ents = List.sort compare (List.map (fun (q, k) ->
        str_of q ^ ":" ^ (match k with FsTree.KDir -> "d" | FsTree.KFile -> "f" | FsTree.KLink -> "l")) t) in
      Printf.sprintf "res=%s tree=%s" (match c with FsTree.TOk -> "ok" | FsTree.TNotExist -> "notexist" | FsTree.TOther -> "other")
        (if ents = [] then "-" else String.concat ";" ents) in
  (* kind prebuf (c11): Serve's epilogue (coq/Srv/Shutdown.v) on the schedule "everything received, input ended, then the
     workers": what an observer of the finished Serve sees - requests served after the cleanup, handles nobody closed *)
  register "prebuf" (fun kv ->
    let reqs = nat_of_int (int_of_string ("0x" ^ get kv "requests")) and opens = nat_of_int (int_of_string ("0x" ^ get kv "opens")) in
    let n = nat_of_int 9 in (* eight transfer workers and the command worker *)
    match Shutdown.shrun true (Shutdown.sh0 true n) (Shutdown.eager_schedule n reqs opens) with
    | Some s -> let (a, u) = Shutdown.after_return s in Printf.sprintf "after=%x unclosed=%x" (int_of_nat a) (int_of_nat u)
    | None -> "not-a-run");
  (* kind cwrite (c15): the writer of each position of the file after n concurrent Write calls on one File, read by the model's
     layout_ok (coq/Xfer/OffsetLock.v); the theorem then puts the offset at n *)
  register "cwrite" (fun kv ->
    let n = int_of_string ("0x" ^ get kv "calls") in
    let layout = List.map (fun t -> nat_of_int (int_of_string t)) (List.filter (fun t -> t <> "") (String.split_on_char ',' (get kv "layout"))) in
    if OffsetLock.layout_ok (nat_of_int n) layout then Printf.sprintf "off=%x" n else "layout-not-serial");
  register "replymap" (fun kv ->
    let n = nat_of_int (int_of_string (get kv "n")) in
    let e = match get kv "err" with
      | "nil" -> Reply.HNil | "eof" -> Reply.HEOF
      | s -> Reply.HErr (n_of_hex (String.sub s 5 (String.length s - 5))) (* code:<hex> *) in
    let r = match get kv "op" with
      | "read" | "readrw" -> Reply.read_reply n e
      | "write" -> Reply.write_reply e
      | "list" -> Reply.list_reply n e
      | "stat" | "lstat" -> Reply.stat_reply n e
      | "readlink" -> Reply.readlink_reply n e
      | o -> failwith ("bad op " ^ o) in
    (match r with
     | Reply.RData k -> Printf.sprintf "reply=data:%d" (int_of_nat k)
     | Reply.RNames k -> Printf.sprintf "reply=names:%d" (int_of_nat k)
     | Reply.RAttrs -> "reply=attrs" | Reply.RName1 -> "reply=name1"
     | Reply.RStatus c -> Printf.sprintf "reply=status:%d" (int_of_n c)));
  register "closewire" (fun kv ->
    let w = get kv "wire" in
    let evs = if w = "-" then [] else List.init (String.length w) (fun i ->
      match w.[i] with 'r' -> FileLock.WReq O | 'c' -> FileLock.WClose O | ch -> failwith (Printf.sprintf "bad wire event %c" ch)) in
    if FileLock.wire_scan evs false then "scan=ok" else "scan=violated");
  register "fsop" (run false);
  register "fsspec" (run true)
