(* Correspondence driver: reads `case <n> <kind> k=v ...` lines on stdin, runs the extracted model,
   prints `exp <n> k=v ...` lines. Numbers are hex, byte strings hex ("-" = empty). *)
open Model
open Conv

let kv_of tokens =
  List.filter_map (fun t -> match String.index_opt t '=' with
    | Some i -> Some (String.sub t 0 i, String.sub t (i+1) (String.length t - i - 1))
    | None -> None) tokens
let get kv k = try List.assoc k kv with Not_found -> failwith ("missing key " ^ k)
let getn kv k = n_of_hex (get kv k)
let geti kv k = int_of_string ("0x" ^ get kv k)
let getb kv k = get kv k = "1"

let handlers : (string, (string * string) list -> string) Hashtbl.t = Hashtbl.create 64
let register k f = Hashtbl.replace handlers k f

let () = Drv_mode.install register get getn geti getb
let () = Drv_wire.install register get getn geti getb
let () = Drv_client.install register get getn geti getb
let () = Drv_srv.install register get getn geti getb
let () = Drv_xfer.install register get getn geti getb
let () = Drv_xfer.install_fileseq register get geti getb
let () = Drv_req.install register get getn geti getb
let () = Drv_req.install_listing register get geti getb
let () = Drv_req.install_lin register get
let () = Drv_req.install_ties register get
let () = Drv_trace.install register get
let () = Drv_fs.install register get

let () =
  (try while true do
    let line = input_line stdin in
    match String.split_on_char ' ' line with
    | "case" :: n :: kind :: rest ->
      let kv = kv_of rest in
      let out = (match Hashtbl.find_opt handlers kind with
        | Some f -> (try f kv with e -> "DRIVER-ERROR " ^ Printexc.to_string e)
        | None -> "DRIVER-ERROR unknown-kind") in
      print_string ("exp " ^ n ^ " " ^ out ^ "\n")
    | _ -> ()
  done with End_of_file -> ())
