open Model
open Conv
let install register get getn geti getb =
  ignore geti; ignore getb; ignore get;
  register "mode_w" (fun kv ->
    let w = getn kv "w" in
    Printf.sprintf "to=%s fromto=%s reg=%s str=%s" (hex_of_n (toFileMode w)) (hex_of_n (fromFileMode (toFileMode w)))
      (bool_s (isRegular w)) (hex_of_bytes (mode_string w)));
  register "mode_os" (fun kv ->
    let m = getn kv "m" in
    Printf.sprintf "from=%s tofrom=%s chmod=%s lsmode=%s" (hex_of_n (fromFileMode m)) (hex_of_n (toFileMode (fromFileMode m)))
      (hex_of_n (toChmodPerm m)) (hex_of_bytes (mode_string (fromFileMode m))));
  register "statinfo" (fun kv ->
    let hs = getb kv "statt" and hi = getb kv "iface" and he = getb kv "extiface" in
    let sid = (getn kv "suid", getn kv "sgid") and iid = (getn kv "iuid", getn kv "igid") in
    let (u, g) = fileStat_owner hs hi sid iid and (lu, lg) = ls_owner hs hi sid iid in
    Printf.sprintf "flags=%s uid=%s gid=%s lsuid=%s lsgid=%s" (hex_of_n (fileStat_flags hs hi (nat_of_int (geti kv "next")) he))
      (hex_of_n u) (hex_of_n g) (hex_of_n lu) (hex_of_n lg));
  (* kind listowner (c16): the owner a listed entry carries, from the same fileStat_owner *)
  register "listowner" (fun kv ->
    let hs = getb kv "statt" and hi = getb kv "iface" in
    let (u, g) = fileStat_owner hs hi (getn kv "suid", getn kv "sgid") (getn kv "iuid", getn kv "igid") in
    Printf.sprintf "uid=%s gid=%s" (hex_of_n u) (hex_of_n g));
  register "setstat" (fun kv ->
    let flags = getn kv "flags" in
    let fs = { st_size = getn kv "size"; st_mode = getn kv "mode"; st_mtime = getn kv "mtime"; st_atime = getn kv "atime";
               st_uid = getn kv "uid"; st_gid = getn kv "gid" } in
    let ops = setstat_ops flags fs in
    let s = String.concat "," (List.map (function
      | OpTruncate sz -> "trunc:" ^ hex_of_n sz
      | OpChmod m -> "chmod:" ^ hex_of_n m
      | OpChown (u, g) -> "chown:" ^ hex_of_n u ^ ":" ^ hex_of_n g
      | OpChtimes (a, m) -> "chtimes:" ^ hex_of_n a ^ ":" ^ hex_of_n m) ops) in
    "ops=" ^ (if s = "" then "-" else s))
