open Model
open Conv
let install register get getn geti getb =
  ignore geti; ignore getb; ignore get;
  register "mode_w" (fun kv ->
    let w = getn kv "w" in
    Printf.sprintf "to=%s fromto=%s reg=%s str=%s" (hex_of_n (toFileMode w)) (hex_of_n (fromFileMode (toFileMode w)))
      (bool_s (isRegular w)) (hex_of_bytes (mode_string w)));
  register "mode_os" (fun kv ->
    let m = getn kv "m" in
    Printf.sprintf "from=%s tofrom=%s chmod=%s lsmode=%s" (hex_of_n (fromFileMode m)) (hex_of_n (toFileMode (fromFileMode m)))
      (hex_of_n (toChmodPerm m)) (hex_of_bytes (mode_string (fromFileMode m))));
  register "statinfo" (fun kv ->
    let hs = getb kv "statt" and hi = getb kv "iface" and he = getb kv "extiface" in
    let sid = (getn kv "suid", getn kv "sgid") and iid = (getn kv "iuid", getn kv "igid") in
    let (u, g) = fileStat_owner hs hi sid iid and (lu, lg) = ls_owner hs hi sid iid in
    Printf.sprintf "flags=%s uid=%s gid=%s lsuid=%s lsgid=%s" (hex_of_n (fileStat_flags hs hi (nat_of_int (geti kv "next")) he))
      (hex_of_n u) (hex_of_n g) (hex_of_n lu) (hex_of_n lg));
  (* kind listowner (c16): the owner a listed entry carries, from the same fileStat_owner *)
  register "listowner" (fun kv ->
    let hs = getb kv "statt" and hi = getb kv "iface" in
    let (u, g) = fileStat_owner hs hi (getn kv "suid", getn kv "sgid") (getn kv "iuid", getn kv "igid") in
    Printf.sprintf "uid=%s gid=%s" (hex_of_n u) (hex_of_n g));
  register "setstat" (fun kv ->
    let flags = getn kv "flags" in
    let fs = { st_size = getn kv "size"; st_mode = getn kv "mode"; st_mtime = getn kv "mtime"; st_atime = getn kv "atime";
               st_uid = getn kv "uid"; st_gid = getn kv "gid" } in
    let ops = setstat_ops flags fs in
    let s = String.concat "," (List.map (function
      | OpTruncate sz -> "trunc:" ^ hex_of_n sz
      | OpChmod m -> "chmod:" ^ hex_of_n m
      | OpChown (u, g) -> "chown:" ^ hex_of_n u ^ ":" ^ hex_of_n g
      | OpChtimes (a, m) -> "chtimes:" ^ hex_of_n a ^ ":" ^ hex_of_n m) ops) in
    "ops=" ^ (if s = "" then "-" else s));
  (* kind runls (c17): the whole long name of runLs, Mode/LongName.v. Z values come as sign + magnitude. The year-or-clock
     decision depends on the moment runLs read the clock: the harness gives the second before and the second after, and a case
     whose decision differs between the two is outside what can be compared (skip). *)
  register "runls" (fun kv ->
    let z neg mag = match getn kv mag with N0 -> Z0 | Npos p -> if getb kv neg then Zneg p else Zpos p in
    let e = { le_mode = getn kv "mode"; le_links = getn kv "links"; le_uid = bytes_of_hex (get kv "uid");
              le_gid = bytes_of_hex (get kv "gid"); le_size = z "sneg" "sabs"; le_mtime = z "mneg" "mabs";
              le_name = bytes_of_hex (get kv "name") } in
    (* a zone at a fixed offset east of UTC (seconds; absent = UTC): the line is that of the shifted clock - Format and AddDate
       both work on the zone's wall clock, and comparing two instants is comparing them shifted by the same amount *)
    let tz = (try z "tzneg" "tz" with _ -> Z0) in
    let e = { e with le_mtime = Z.add e.le_mtime tz } in
    let n0 = Z.add (z "nneg0" "now0") tz and n1 = Z.add (z "nneg1" "now1") tz in
    if shows_year e.le_mtime n0 <> shows_year e.le_mtime n1 then "skip"
    else "ls=" ^ hex_of_bytes (run_ls n0 e))
