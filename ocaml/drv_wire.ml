(* canonical text form of logical packets <-> extracted model packets; handlers for the wire families *)
open Model
open Conv

let split c s = String.split_on_char c s
let hexn = hex_of_n
let nhex = n_of_hex

let canon_pairs (l : (byte list * byte list) list) =
  if l = [] then "-" else String.concat "+" (List.map (fun (a, b) -> hex_of_bytes a ^ ":" ^ hex_of_bytes b) l)
let parse_pairs s =
  if s = "-" then [] else List.map (fun t -> match split ':' t with
    | [a; b] -> (bytes_of_hex a, bytes_of_hex b) | _ -> failwith "pair") (split '+' s)

let canon_attrs (a : attrs) =
  Printf.sprintf "%s.%s.%s.%s.%s.%s.%s.%s" (hexn a.a_flags) (hexn a.a_size) (hexn a.a_uid) (hexn a.a_gid)
    (hexn a.a_perm) (hexn a.a_atime) (hexn a.a_mtime) (canon_pairs a.a_ext)
let parse_attrs s = match split '.' s with
  | [f; sz; u; g; p; at; mt; ext] ->
    { a_flags = nhex f; a_size = nhex sz; a_uid = nhex u; a_gid = nhex g; a_perm = nhex p; a_atime = nhex at;
      a_mtime = nhex mt; a_ext = parse_pairs ext }
  | _ -> failwith "attrs"

let canon_abody = function ARaw b -> "r:" ^ hex_of_bytes b | AStat a -> "a:" ^ canon_attrs a
let parse_abody s =
  let v = String.sub s 2 (String.length s - 2) in
  if s.[0] = 'r' then ARaw (bytes_of_hex v) else AStat (parse_attrs v)

let canon_names l =
  if l = [] then "-" else
  String.concat "|" (List.map (fun ((n, lg), a) -> hex_of_bytes n ^ "/" ^ hex_of_bytes lg ^ "/" ^ canon_attrs a) l)
let parse_names s =
  if s = "-" then [] else List.map (fun t -> match split '/' t with
    | [n; l; a] -> ((bytes_of_hex n, bytes_of_hex l), parse_attrs a) | _ -> failwith "name") (split '|' s)

let str_of_bytes l = String.init (List.length l) (fun i -> Char.chr (int_of_byte (List.nth l i)))

let simple k id s = Printf.sprintf "%s;id=%s;s1=%s" k (hexn id) (hex_of_bytes s)
let two k id a b = Printf.sprintf "%s;id=%s;s1=%s;s2=%s" k (hexn id) (hex_of_bytes a) (hex_of_bytes b)

let canon (p : packet) : string = match p with
  | PInit (v, e) -> Printf.sprintf "init;ver=%s;pairs=%s" (hexn v) (canon_pairs e)
  | PVersion (v, e) -> Printf.sprintf "version;ver=%s;pairs=%s" (hexn v) (canon_pairs e)
  | POpen (id, path, pf, fl, ab) ->
    Printf.sprintf "open;id=%s;s1=%s;n1=%s;n2=%s;ab=%s" (hexn id) (hex_of_bytes path) (hexn pf) (hexn fl) (canon_abody ab)
  | PClose (id, s) -> simple "close" id s
  | PRead (id, h, off, len) -> Printf.sprintf "read;id=%s;s1=%s;n1=%s;n2=%s" (hexn id) (hex_of_bytes h) (hexn off) (hexn len)
  | PWrite (id, h, off, d) -> Printf.sprintf "write;id=%s;s1=%s;n1=%s;data=%s" (hexn id) (hex_of_bytes h) (hexn off) (hex_of_bytes d)
  | PLstat (id, s) -> simple "lstat" id s
  | PFstat (id, s) -> simple "fstat" id s
  | PSetstat (id, s, fl, ab) -> Printf.sprintf "setstat;id=%s;s1=%s;n2=%s;ab=%s" (hexn id) (hex_of_bytes s) (hexn fl) (canon_abody ab)
  | PFsetstat (id, s, fl, ab) -> Printf.sprintf "fsetstat;id=%s;s1=%s;n2=%s;ab=%s" (hexn id) (hex_of_bytes s) (hexn fl) (canon_abody ab)
  | POpendir (id, s) -> simple "opendir" id s
  | PReaddir (id, s) -> simple "readdir" id s
  | PRemove (id, s) -> simple "remove" id s
  | PMkdir (id, s, fl, ab) -> Printf.sprintf "mkdir;id=%s;s1=%s;n2=%s;ab=%s" (hexn id) (hex_of_bytes s) (hexn fl) (canon_abody ab)
  | PRmdir (id, s) -> simple "rmdir" id s
  | PRealpath (id, s) -> simple "realpath" id s
  | PStat (id, s) -> simple "stat" id s
  | PRename (id, a, b) -> two "rename" id a b
  | PReadlink (id, s) -> simple "readlink" id s
  | PSymlink (id, a, b) -> two "symlink" id a b
  | PExtStatvfs (id, s) -> simple "statvfs" id s
  | PExtPosixRename (id, a, b) -> two "posixrename" id a b
  | PExtHardlink (id, a, b) -> two "hardlink" id a b
  | PExtFsync (id, s) -> simple "fsync" id s
  | PExtOther (id, name, pl) -> Printf.sprintf "extother;id=%s;s1=%s;data=%s" (hexn id) (hex_of_bytes name) (hex_of_bytes pl)
  | PStatus (id, c, m, l) -> Printf.sprintf "status;id=%s;n1=%s;s1=%s;s2=%s" (hexn id) (hexn c) (hex_of_bytes m) (hex_of_bytes l)
  | PHandle (id, s) -> simple "handle" id s
  | PData (id, d) -> Printf.sprintf "data;id=%s;data=%s" (hexn id) (hex_of_bytes d)
  | PName (id, es) -> Printf.sprintf "name;id=%s;names=%s" (hexn id) (canon_names es)
  | PAttrs (id, a) -> Printf.sprintf "attrs;id=%s;ab=a:%s" (hexn id) (canon_attrs a)
  | PStatvfsReply (id, vs) -> Printf.sprintf "statvfsreply;id=%s;vals=%s" (hexn id) (String.concat "." (List.map hexn vs))
  | PExtReplyOther (id, d) -> Printf.sprintf "extreplyother;id=%s;data=%s" (hexn id) (hex_of_bytes d)

let parse_packet (s : string) : packet =
  match split ';' s with
  | [] -> failwith "empty packet"
  | kind :: fields ->
    let kv = List.map (fun t -> match String.index_opt t '=' with
      | Some i -> (String.sub t 0 i, String.sub t (i+1) (String.length t - i - 1)) | None -> (t, "")) fields in
    let g k = try List.assoc k kv with Not_found -> failwith ("packet field " ^ k) in
    let id () = nhex (g "id") in
    let s1 () = bytes_of_hex (g "s1") in
    let s2 () = bytes_of_hex (g "s2") in
    (match kind with
     | "init" -> PInit (nhex (g "ver"), parse_pairs (g "pairs"))
     | "version" -> PVersion (nhex (g "ver"), parse_pairs (g "pairs"))
     | "open" -> POpen (id (), s1 (), nhex (g "n1"), nhex (g "n2"), parse_abody (g "ab"))
     | "close" -> PClose (id (), s1 ()) | "lstat" -> PLstat (id (), s1 ()) | "fstat" -> PFstat (id (), s1 ())
     | "read" -> PRead (id (), s1 (), nhex (g "n1"), nhex (g "n2"))
     | "write" -> PWrite (id (), s1 (), nhex (g "n1"), bytes_of_hex (g "data"))
     | "setstat" -> PSetstat (id (), s1 (), nhex (g "n2"), parse_abody (g "ab"))
     | "fsetstat" -> PFsetstat (id (), s1 (), nhex (g "n2"), parse_abody (g "ab"))
     | "opendir" -> POpendir (id (), s1 ()) | "readdir" -> PReaddir (id (), s1 ()) | "remove" -> PRemove (id (), s1 ())
     | "mkdir" -> PMkdir (id (), s1 (), nhex (g "n2"), parse_abody (g "ab"))
     | "rmdir" -> PRmdir (id (), s1 ()) | "realpath" -> PRealpath (id (), s1 ()) | "stat" -> PStat (id (), s1 ())
     | "rename" -> PRename (id (), s1 (), s2 ()) | "readlink" -> PReadlink (id (), s1 ())
     | "symlink" -> PSymlink (id (), s1 (), s2 ())
     | "statvfs" -> PExtStatvfs (id (), s1 ()) | "posixrename" -> PExtPosixRename (id (), s1 (), s2 ())
     | "hardlink" -> PExtHardlink (id (), s1 (), s2 ()) | "fsync" -> PExtFsync (id (), s1 ())
     | "extother" -> PExtOther (id (), s1 (), bytes_of_hex (g "data"))
     | "status" -> PStatus (id (), nhex (g "n1"), s1 (), s2 ())
     | "handle" -> PHandle (id (), s1 ()) | "data" -> PData (id (), bytes_of_hex (g "data"))
     | "name" -> PName (id (), parse_names (g "names"))
     | "attrs" -> (match parse_abody (g "ab") with AStat a -> PAttrs (id (), a) | _ -> failwith "attrs raw")
     | "statvfsreply" -> PStatvfsReply (id (), List.map nhex (split '.' (g "vals")))
     | "extreplyother" -> PExtReplyOther (id (), bytes_of_hex (g "data"))
     | k -> failwith ("packet kind " ^ k))

let err_s = function
  | EShort -> "short" | ELong -> "long" | EUnexpectedEOF -> "unexpectedeof" | EEOF -> "eof"
  | EUnknownExt -> "unknownext" | EUnhandledType -> "unhandledtype" | EIdMismatch -> "idmismatch"
  | EUnexpectedType -> "unexpectedtype" | EVersion -> "version" | EStatus c -> "status:" ^ hexn c
  | EClosed -> "closed" | EConnLost -> "connlost" | ENoProgress -> "noprogress" | EOutOfFuel -> "outoffuel" | EOther -> "other"

let res_s f = function Ok a -> f a | Err e -> "err:" ^ err_s e | Panic -> "err:panic"

let rec drop n l = if n <= 0 then l else match l with [] -> [] | _ :: t -> drop (n - 1) t

let is_request_kind = function
  | PVersion _ | PStatus _ | PHandle _ | PData _ | PName _ | PAttrs _ | PStatvfsReply _ | PExtReplyOther _ -> false
  | _ -> true

let install register get getn geti getb =
  ignore getn; ignore getb; ignore geti;
  register "pkt" (fun kv ->
    let p = parse_packet (get kv "p") in
    let a_ok = (match p with PExtOther _ | PExtReplyOther _ -> false | _ -> true) in
    let ea = encA p in
    let out = ref [] in
    let add s = out := s :: !out in
    add (if a_ok then "encA=" ^ hex_of_bytes ea else "encA=none");
    add (match encB p with Some b -> "encB=" ^ hex_of_bytes b | None -> "encB=none");
    if a_ok && is_request_kind p then begin
      let ty = ptype p in
      add ("decA=" ^ res_s canon (decA ty (drop 5 ea)));
      (match p with PInit _ -> () | _ -> add ("decBreq=" ^ res_s canon (decB_request (drop 4 ea))))
    end;
    if a_ok && not (is_request_kind p) then
      (match p with PVersion _ -> () | _ -> add ("decBresp=" ^ res_s canon (decB_response (drop 4 ea))));
    (* INIT and VERSION through codec B's own decoders *)
    (match p with PInit _ | PVersion _ -> if a_ok then add ("decBiv=" ^ res_s canon (decB_initversion (drop 4 ea))) | _ -> ());
    String.concat " " (List.rev !out));
  (* arbitrary bytes into the decoding entry points *)
  register "decA" (fun kv ->
    let ty = getn kv "ty" and b = bytes_of_hex (get kv "b") in
    "res=" ^ res_s canon (decA ty b));
  register "decBreq" (fun kv -> "res=" ^ res_s canon (decB_request (bytes_of_hex (get kv "b"))));
  register "decBresp" (fun kv ->
    let b = bytes_of_hex (get kv "b") in
    "res=" ^ res_s canon (decB_response b));
  register "attrsA" (fun kv ->
    let b = bytes_of_hex (get kv "b") in
    Printf.sprintf "res=%s" (res_s (fun (a, r) -> canon_attrs a ^ "/" ^ hex_of_bytes r) (attrs_dec true b)));
  register "attrsB" (fun kv ->
    let b = bytes_of_hex (get kv "b") in
    let guard = guardB in
    Printf.sprintf "res=%s" (res_s (fun (a, r) -> canon_attrs a ^ "/" ^ hex_of_bytes r) (attrs_dec guard b)));
  register "frameAalloc" (fun kv ->
    let r = recv_frame (bytes_of_hex (get kv "b")) in
    Printf.sprintf "res=%s consumed=%x" (res_s (fun (t, pl) -> hexn t ^ "/" ^ hex_of_bytes pl) r.f_res) (int_of_nat r.f_consumed));
  register "frameA" (fun kv ->
    let r = recv_frame (bytes_of_hex (get kv "b")) in
    Printf.sprintf "res=%s consumed=%x" (res_s (fun (t, pl) -> hexn t ^ "/" ^ hex_of_bytes pl) r.f_res) (int_of_nat r.f_consumed));
  register "frameB" (fun kv ->
    let r = recv_frame_B (getn kv "max") (bytes_of_hex (get kv "b")) in
    Printf.sprintf "res=%s consumed=%x" (res_s (fun (t, pl) -> hexn t ^ "/" ^ hex_of_bytes pl) r.f_res) (int_of_nat r.f_consumed))
