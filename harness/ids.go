package main

// Family ids (C03, C15): request ids under contention. 16 goroutines issue Lstat calls on one Client as fast as they can
// (a barrier releases them together, and again every 500 calls) against a scripted peer that answers every LSTAT with
// a size computed from the PATH it carries. Every call must get the answer to its own path (a duplicated request id hands
// one caller the other's reply, or leaves a caller waiting for ever), and the peer must never see an id that is still
// outstanding. Every other round starts with the id counter moved to shortly before 2^32 (hook VerifSetNextID), so that
// the ids of the round run across the wrap; the ids the peer saw in a round are compared with coq/Conn/IdWrap.v ids_from
// (count, sum, xor, number of zero ids).

import (
	"encoding/binary"
	"fmt"
	"hash/fnv"
	"net"
	"sync"
	"sync/atomic"
	"time"

	"github.com/pkg/sftp"
)

func init() { register("ids", runIDs) }

func idsSize(path string) uint64 {
	h := fnv.New32a()
	h.Write([]byte(path))
	return uint64(h.Sum32())
}

func runIDs(c *Ctx) {
	c.Rule("16 goroutines x 6000 (thorough: 40000) Lstat calls on one Client, released together by a barrier every 500 calls, against a peer that answers with a size derived from the request's path and tracks outstanding ids; " +
		"oracle: every call returns the size of its own path, none hangs, the peer never sees an id that is still outstanding; one case per run of 16 x 500 calls; non-trivial = always")
	const G = 16
	per := 6000
	if c.Thorough() {
		per = 40000
	}
	c1, c2 := net.Pipe()
	var dupIDs int64
	var seenMu sync.Mutex
	var seenN, seenSum, seenXor, seenZero uint64 // ids of the current round, as the peer received them
	go func() {                                  // the peer
		defer c2.Close()
		fr, err := readFrame(c2)
		if err != nil || fr.Typ != fxpInit {
			return
		}
		c2.Write(frame((&rb{}).u8(fxpVersion).u32(3).b))
		outq := make(chan []byte, 1<<16)
		defer close(outq)
		var mu sync.Mutex
		outstanding := map[uint32]bool{}
		go func() {
			for b := range outq {
				id := binary.BigEndian.Uint32(b[5:])
				mu.Lock()
				delete(outstanding, id)
				mu.Unlock()
				if _, err := c2.Write(b); err != nil {
					for range outq {
					}
					return
				}
			}
		}()
		for {
			fr, err := readFrame(c2)
			if err != nil {
				return
			}
			mu.Lock()
			if outstanding[fr.ID] {
				atomic.AddInt64(&dupIDs, 1)
			}
			outstanding[fr.ID] = true
			mu.Unlock()
			seenMu.Lock()
			seenN++
			seenSum += uint64(fr.ID)
			seenXor ^= uint64(fr.ID)
			if fr.ID == 0 {
				seenZero++
			}
			seenMu.Unlock()
			path := ""
			if len(fr.Body) >= 4 {
				if l := binary.BigEndian.Uint32(fr.Body); int(l)+4 <= len(fr.Body) {
					path = string(fr.Body[4 : 4+l])
				}
			}
			outq <- frame(pkt(fxpAttrs, fr.ID).u32(1).u64(idsSize(path)).b)
		}
	}()
	cl, err := sftp.NewClientPipe(c1, c1)
	if err != nil {
		c.Diag("ids: client: %v", err)
		return
	}
	defer cl.Close()
	rounds := per / 500
	for r := 0; r < rounds; r++ {
		var wrong, failed int64
		if r%2 == 1 {
			// G*500 calls follow; start between 1 and G*500-1 ids before the wrap
			sftp.VerifSetNextID(cl, uint32(1<<32-1-uint64(c.Rng.Intn(G*500-1))))
		}
		c0 := sftp.VerifNextID(cl)
		seenMu.Lock()
		seenN, seenSum, seenXor, seenZero = 0, 0, 0, 0
		seenMu.Unlock()
		var firstWrong atomic.Value
		var wg sync.WaitGroup
		start := make(chan struct{})
		for g := 0; g < G; g++ {
			wg.Add(1)
			go func(g int) {
				defer wg.Done()
				<-start
				for k := 0; k < 500; k++ {
					p := fmt.Sprintf("/g%d/r%d/k%d", g, r, k)
					fi, err := cl.Lstat(p)
					if err != nil {
						atomic.AddInt64(&failed, 1)
						return
					}
					if uint64(fi.Size()) != idsSize(p) {
						atomic.AddInt64(&wrong, 1)
						firstWrong.CompareAndSwap(nil, p)
					}
				}
			}(g)
		}
		close(start)
		returned := cctWait(&wg, 20*time.Second)
		n := c.Case("idswrap", kvi("round", r), kvi("goroutines", G), kvi("calls", 500), kvx("c0", uint64(c0)), kvi("k", G*500))
		c.NT(n)
		if returned && atomic.LoadInt64(&failed) == 0 {
			seenMu.Lock()
			c.Obs(n, fmt.Sprintf("n=%d", seenN), fmt.Sprintf("sum=%d", seenSum), fmt.Sprintf("xor=%d", seenXor), fmt.Sprintf("zeros=%d", seenZero))
			seenMu.Unlock()
			if uint64(c0)+uint64(G*500) >= 1<<32 {
				c.Stat("ids_rounds_across_the_wrap")
			}
		}
		c.Stat("ids_rounds")
		switch {
		case !returned:
			c.Oracle(n, false, "call-hang: an Lstat on the shared Client did not return within 20 s (its reply went to another caller, or was never matched)")
			c.Diag("ids: stopped after a hanging round")
			c1.Close()
			return
		case atomic.LoadInt64(&wrong) > 0:
			fw, _ := firstWrong.Load().(string)
			c.Oracle(n, false, fmt.Sprintf("wrong-reply: %d calls returned the attributes the server produced for another path (first: %s)", wrong, fw))
		case atomic.LoadInt64(&failed) > 0:
			c.Oracle(n, false, fmt.Sprintf("%d calls failed although the server answered every request", failed))
		case atomic.LoadInt64(&dupIDs) > 0:
			c.Oracle(n, false, fmt.Sprintf("id-reuse: the server saw %d request ids that were still outstanding", dupIDs))
		default:
			c.Oracle(n, true, "")
		}
	}
}
