package main

// Family opf (C05): client.go toPflags on every 11-bit os flag word (access mode, O_CREAT, O_EXCL, O_TRUNC, O_APPEND and
// everything in between) and a sample of wider words, against the model of coq/Srv/OpenFlags.v; the model's theorem
// openfile_flags_survive then says what os.OpenFile the server calls for a Client.OpenFile with those flags.

import (
	"fmt"

	"github.com/pkg/sftp"
)

func init() { register("opf", runOPF) }

func runOPF(c *Ctx) {
	c.Rule("toPflags on all 2048 os flag words below 2^11 (exhaustive over the bits it inspects) and seeded wider words; obs = the pflags word; " +
		"non-trivial = a word with at least one of O_WRONLY/O_RDWR/O_CREAT/O_EXCL/O_TRUNC/O_APPEND set")
	do := func(f int) {
		n := c.Case("pflags", kvx("f", uint64(f)))
		c.Obs(n, fmt.Sprintf("pf=%x", sftp.VerifToPflags(f)))
		c.Oracle(n, true, "")
		if f&(1|2|64|128|512|1024) != 0 {
			c.NT(n)
		}
	}
	for f := 0; f < 2048; f++ {
		do(f)
	}
	k := 200
	if c.Thorough() {
		k = 5000
	}
	for i := 0; i < k; i++ {
		do(int(c.Rng.Int63() & 0x7fffffff))
	}
}
