package main

// C16 — a directory listing returns every entry exactly once.

import (
	"errors"
	"fmt"
	"io"
	"os"
	"path/filepath"
	"sort"
	"strings"
	"sync/atomic"
	"time"

	"github.com/pkg/sftp"
)

func init() { register("c16", runC16) }

type scriptedLister struct {
	names    []string
	style, k int
	calls    *int32
	failCall int32 // > 0: that call (1-based) returns no entry and an error that is not io.EOF (a backend fault)
	emptyAt  int32 // > 0: that call returns (0, nil): an empty batch, not the end
}

var errListerFault = errors.New("lister backend fault")

func (l scriptedLister) ListAt(out []os.FileInfo, off int64) (int, error) {
	call := atomic.AddInt32(l.calls, 1)
	if l.failCall > 0 && call == l.failCall {
		if call%2 == 0 {
			// what io.ReadFull or a JSON decoder gives when the backend's answer is cut short: a failure, not the end of the listing
			return 0, fmt.Errorf("lister backend: %w", io.ErrUnexpectedEOF)
		}
		return 0, errListerFault
	}
	if l.emptyAt > 0 && call == l.emptyAt && int64(len(l.names)) > off {
		return 0, nil
	}
	L, B := len(l.names), len(out)
	if int64(L) <= off {
		return 0, io.EOF
	}
	want := B
	if l.k != 0 {
		want = 1 + (int(off)*7+l.k)%B
	}
	n := want
	if n > B {
		n = B
	}
	if n > L-int(off) {
		n = L - int(off)
	}
	for i := 0; i < n; i++ {
		out[i] = memInfo{l.names[int(off)+i], int64(int(off) + i)}
	}
	if l.style == 0 && int(off)+n == L {
		return n, io.EOF
	}
	return n, nil
}

type listHandlers struct {
	nullHandlers
	l scriptedLister
}

func (h listHandlers) Filelist(r *sftp.Request) (sftp.ListerAt, error) {
	if r.Method == "List" {
		return h.l, nil
	}
	return oneLister{memInfo{"d", 0}}, nil
}

func runC16(c *Ctx) {
	c.Rule("request server with scripted listers: every directory size 0..2B+3 for batch sizes B in {1,2,3,7,22} (thorough: also 100), with and without '.'/'..' entries, both EOF styles (with the last entries / on the following call), " +
		"full and pseudo-randomly shortened batches; kind extlisting: entries implementing FileInfoExtendedData with 0, 1 or 2 extended pairs each (names, sizes and pairs must arrive as reported); os-backed server on real directories of 0..300 entries (crossing 128 and 256) and of 130..2100 entries with names of 90..255 bytes; non-trivial = listing that spans at least two batches")
	saved := sftp.MaxFilelist
	defer func() { sftp.MaxFilelist = saved }()
	bs := []int{1, 2, 3, 7, 22}
	if c.Thorough() {
		bs = append(bs, 100)
	}
	for _, B := range bs {
		sftp.MaxFilelist = int64(B)
		for size := 0; size <= 2*B+3; size++ {
			for _, dots := range []bool{false, true} {
				for style := 0; style < 2; style++ {
					for _, k := range []int{0, 1, 5} {
						if !c.Thorough() && B >= 7 && (size+style+k)%2 == 1 {
							continue
						}
						var names []string
						if dots {
							names = append(names, ".", "..")
						}
						for i := 0; i < size; i++ {
							names = append(names, fmt.Sprintf("e%d", i))
						}
						var calls int32
						h := listHandlers{l: scriptedLister{names: names, style: style, k: k, calls: &calls}}
						p, err := newPair(pairOpt{reqServer: true, handlers: sftp.Handlers{FileGet: h, FilePut: h, FileCmd: h, FileList: h}})
						if err != nil {
							c.Diag("pair: %v", err)
							continue
						}
						got, lerr := p.Client.ReadDir("/d")
						p.Close()
						n := c.Case("listing", kvi("n", size), kvb("dots", dots), kvi("b", B), kvi("style", style), kvi("k", k))
						if len(names) > B {
							c.NT(n)
						}
						var gn []string
						for _, fi := range got {
							gn = append(gn, fi.Name())
						}
						c.Obs(n, kvs("names", strings.Join(gn, ",")+"."), kvi("reqs", int(calls)), kvb("ok", lerr == nil))
						ok, why := true, ""
						if lerr != nil {
							ok, why = false, "ReadDir failed: "+lerr.Error()
						} else if len(gn) != size {
							ok, why = false, fmt.Sprintf("directory of %d entries (batch %d) listed as %d entries", size, B, len(gn))
						} else {
							for i, nme := range gn {
								if nme != fmt.Sprintf("e%d", i) || got[i].Size() != int64(i+map[bool]int{true: 2, false: 0}[dots]) {
									ok, why = false, fmt.Sprintf("entry %d is %q size %d", i, nme, got[i].Size())
									break
								}
							}
						}
						c.Oracle(n, ok, why)
						c.Stat(fmt.Sprintf("batch_%d", B))
					}
				}
			}
		}
	}
	// request server, big batches: the default batch of 100 entries (and one of 400) with names of 120..255 bytes, so that one
	// NAME reply is far larger than a DATA reply ever is (50-150 KiB): every entry still arrives, once
	for _, bc := range []struct{ batch, size, nameLen int }{{100, 100, 200}, {100, 250, 150}, {100, 99, 255}, {400, 400, 120}, {100, 201, 255}} {
		sftp.MaxFilelist = int64(bc.batch)
		for style := 0; style < 2; style++ {
			var names []string
			for i := 0; i < bc.size; i++ {
				nme := fmt.Sprintf("e%04d", i)
				names = append(names, nme+strings.Repeat("n", bc.nameLen-len(nme)))
			}
			var calls int32
			h := listHandlers{l: scriptedLister{names: names, style: style, k: 0, calls: &calls}}
			p, err := newPair(pairOpt{reqServer: true, handlers: sftp.Handlers{FileGet: h, FilePut: h, FileCmd: h, FileList: h}})
			if err != nil {
				c.Diag("pair: %v", err)
				continue
			}
			got, lerr := p.Client.ReadDir("/d")
			p.Close()
			n := c.Case("reqbiglisting", kvi("n", bc.size), kvi("b", bc.batch), kvi("namelen", bc.nameLen), kvi("style", style))
			c.NT(n)
			ok, why := true, ""
			if lerr != nil {
				ok, why = false, "ReadDir failed: "+lerr.Error()
			} else if len(got) != bc.size {
				ok, why = false, fmt.Sprintf("directory of %d entries with %d-byte names (batch %d) listed as %d entries", bc.size, bc.nameLen, bc.batch, len(got))
			} else {
				for i, fi := range got {
					if fi.Name() != names[i] || fi.Size() != int64(i) {
						ok, why = false, fmt.Sprintf("entry %d is %q size %d", i, fi.Name(), fi.Size())
						break
					}
				}
			}
			c.Oracle(n, ok, why)
			c.Stat("request_server_big_batches")
		}
	}
	sftp.MaxFilelist = saved
	c16ExtListings(c)
	c16OwnedListings(c)
	c16LstatFailures(c)
	// a lister that fails part-way (an error other than io.EOF on the j-th call): the listing is not complete, and ReadDir must
	// say so - never a shortened listing with a nil error. And a lister that hands back an empty batch without io.EOF in the
	// middle (allowed: "ListAt ... returns the number of entries copied and an io.EOF error if we made it to the end"): the
	// listing goes on after it.
	sftp.MaxFilelist = 3
	for size := 4; size <= 10; size += 3 {
		for j := int32(1); j <= 4; j++ {
			for _, empty := range []bool{false, true} {
				var names []string
				for i := 0; i < size; i++ {
					names = append(names, fmt.Sprintf("e%d", i))
				}
				var calls int32
				sl := scriptedLister{names: names, style: 1, calls: &calls}
				if empty {
					sl.emptyAt = j
				} else {
					sl.failCall = j
				}
				h := listHandlers{l: sl}
				p, err := newPair(pairOpt{reqServer: true, handlers: sftp.Handlers{FileGet: h, FilePut: h, FileCmd: h, FileList: h}})
				if err != nil {
					continue
				}
				done := make(chan struct{})
				var got []os.FileInfo
				var lerr error
				go func() { got, lerr = p.Client.ReadDir("/d"); close(done) }()
				hung := false
				select {
				case <-done:
				case <-time.After(10 * time.Second):
					hung = true
				}
				p.Close()
				n := c.Case("listerfault", kvi("n", size), kvi("call", int(j)), kvb("emptybatch", empty))
				c.NT(n)
				c.Stat("listerfault_cases")
				switch {
				case hung:
					c.Oracle(n, false, "ReadDir did not return within 10 s")
				case !empty && int(j) <= (size+2)/3 && lerr == nil:
					c.Oracle(n, false, fmt.Sprintf("listing-cut-short: the lister failed on call %d of a %d-entry directory; ReadDir returned %d entries and a nil error", j, size, len(got)))
				case empty && (lerr != nil || len(got) != size) && int(j) <= (size+2)/3:
					c.Oracle(n, false, fmt.Sprintf("listing-cut-short: an empty batch on call %d of a %d-entry directory: ReadDir returned %d entries, err=%v", j, size, len(got), lerr))
				default:
					c.Oracle(n, true, "")
				}
			}
		}
	}
	sftp.MaxFilelist = saved
	// os-backed server on real directories
	sizes := []int{0, 1, 2, 127, 128, 129, 255, 256, 257, 300}
	if c.Thorough() {
		sizes = nil
		for i := 0; i <= 300; i++ {
			sizes = append(sizes, i)
		}
	}
	type osCase struct{ size, nameLen int }
	var osCases []osCase
	for _, sz := range sizes {
		osCases = append(osCases, osCase{sz, 4})
	}
	// "all entry names": long names make a response batch large (a batch must stay below what a client accepts in one packet)
	osCases = append(osCases, osCase{130, 255}, osCase{300, 200}, osCase{700, 250}, osCase{1100, 120}, osCase{2100, 90})
	for _, alloc := range []bool{false, true} {
		for _, oc := range osCases {
			size := oc.size
			dir, err := os.MkdirTemp("", "vh-c16-")
			if err != nil {
				continue
			}
			want := map[string]int64{}
			for i := 0; i < size; i++ {
				nme := fmt.Sprintf("f%03d", i)
				if oc.nameLen > len(nme) {
					nme += strings.Repeat("n", oc.nameLen-len(nme))
				}
				os.WriteFile(filepath.Join(dir, nme), make([]byte, i%7), 0o644)
				want[nme] = int64(i % 7)
			}
			p, err := newPair(pairOpt{alloc: alloc})
			if err != nil {
				os.RemoveAll(dir)
				continue
			}
			got, lerr := p.Client.ReadDir(dir)
			p.Close()
			os.RemoveAll(dir)
			n := c.Case("oslisting", kvi("n", size), kvb("alloc", alloc), kvi("namelen", oc.nameLen))
			if oc.nameLen > 4 {
				c.Stat("os_listing_long_names")
			}
			if size > 128 {
				c.NT(n)
			}
			ok, why := true, ""
			var gn []string
			for _, fi := range got {
				gn = append(gn, fi.Name())
				if s, has := want[fi.Name()]; !has || s != fi.Size() {
					ok, why = false, fmt.Sprintf("entry %q size %d is not in the directory with that size", fi.Name(), fi.Size())
				}
			}
			sort.Strings(gn)
			for i := 1; i < len(gn); i++ {
				if gn[i] == gn[i-1] {
					ok, why = false, "duplicate entry "+gn[i]
				}
			}
			if lerr != nil {
				ok, why = false, "ReadDir failed: "+lerr.Error()
			} else if len(gn) != size {
				ok, why = false, fmt.Sprintf("directory of %d entries listed as %d entries", size, len(gn))
			}
			c.Oracle(n, ok, why)
			c.Stat("os_listing")
		}
	}
}
