package main

// C15 — concurrent single-packet operations are linearizable. Several goroutines over ONE Client issue ReadAt / WriteAt
// (within the file's fixed extent, each fitting in one packet) and Stat on one or two handles of the same file; a global
// atomic counter stamps call and return. The observed history is decided by the verified checker (Coq lin_check, via the
// driver) and independently by a brute-force search here.

import (
	"bytes"
	"fmt"
	"os"
	"path/filepath"
	"strings"
	"sync"
	"sync/atomic"
	"time"

	"github.com/pkg/sftp"
)

func init() { register("c15", runC15) }

type hop struct {
	id, call, ret int
	kind          byte // R W S
	off, ln       int
	data          []byte // written / read bytes
	size          int
}

func (h hop) enc() string {
	switch h.kind {
	case 'R':
		return fmt.Sprintf("%x:%x:%x:R:%x:%x:%s", h.id, h.call, h.ret, h.off, h.ln, hexs(h.data))
	case 'W':
		return fmt.Sprintf("%x:%x:%x:W:%x:%s", h.id, h.call, h.ret, h.off, hexs(h.data))
	}
	return fmt.Sprintf("%x:%x:%x:S:%x", h.id, h.call, h.ret, h.size)
}

// brute-force linearizability check (oracle side)
func linSearch(f []byte, rem []hop) bool {
	if len(rem) == 0 {
		return true
	}
	for i, o := range rem {
		minimal := true
		for j, b := range rem {
			if j != i && b.ret < o.call {
				minimal = false
				break
			}
		}
		if !minimal {
			continue
		}
		nf := f
		ok := true
		switch o.kind {
		case 'R':
			ok = bytes.Equal(o.data, f[o.off:o.off+o.ln])
		case 'W':
			nf = append([]byte(nil), f...)
			copy(nf[o.off:], o.data)
		case 'S':
			ok = o.size == len(f)
		}
		if !ok {
			continue
		}
		rest := append(append([]hop(nil), rem[:i]...), rem[i+1:]...)
		if linSearch(nf, rest) {
			return true
		}
	}
	return false
}

// linBytewise: every byte position, taken alone, has a linearizable history, and every size query saw the file's size
func linBytewise(f []byte, hist []hop) bool {
	for x := range f {
		var proj []hop
		for _, h := range hist {
			switch h.kind {
			case 'S':
				if h.size != len(f) {
					return false
				}
			case 'R', 'W':
				if h.off <= x && x < h.off+h.ln && x-h.off < len(h.data) {
					proj = append(proj, hop{id: h.id, call: h.call, ret: h.ret, kind: h.kind, off: 0, ln: 1, data: []byte{h.data[x-h.off]}})
				}
			}
		}
		if !linSearch([]byte{f[x]}, proj) {
			return false
		}
	}
	return true
}

func runC15(c *Ctx) {
	c.Rule("G in {2,3,4} goroutines x <= 4 single-packet operations each (ReadAt, WriteAt within the extent, Stat) on 1-2 handles of one 16-byte file, over one Client, against {Server, RequestServer} x {allocator on, off}; " +
		"call/return stamped by a global atomic counter; obs = the brute-force verdict (compared with the extracted verified checker); a history of an os-backed server that is not linearizable as a whole but is so byte by byte is counted as torn by the kernel (pread/pwrite are not atomic: the property's proviso), not as a failure; non-trivial = history with at least one write overlapping another operation in time")
	const size = 16
	n := 400
	if c.Thorough() {
		n = 12000
	}
	backends := []string{"os", "osalloc", "req", "reqalloc"}
	dir, err := os.MkdirTemp("", "vh-c15-")
	if err != nil {
		c.Diag("mktemp: %v", err)
		return
	}
	defer os.RemoveAll(dir)
	hangs := 0
	for it := 0; it < n; it++ {
		be := backends[it%4]
		initial := patternBytes(it, size)
		var pr *pair
		name := "/f"
		switch be {
		case "os", "osalloc":
			name = filepath.Join(dir, fmt.Sprintf("f%d", it))
			os.WriteFile(name, initial, 0o644)
			pr, err = newPair(pairOpt{alloc: be == "osalloc"})
		default:
			fs := newMemFS()
			fs.get("/f", true).data = append([]byte(nil), initial...)
			pr, err = newPair(pairOpt{reqServer: true, handlers: fs.handlers(), alloc: be == "reqalloc"})
		}
		if err != nil {
			c.Diag("pair: %v", err)
			continue
		}
		nh := 1 + it%2
		var files []*sftp.File
		for i := 0; i < nh; i++ {
			f, err := pr.Client.OpenFile(name, os.O_RDWR)
			if err != nil {
				c.Diag("open: %v", err)
				break
			}
			files = append(files, f)
		}
		if len(files) != nh {
			pr.Close()
			continue
		}
		g := 2 + it%3
		var clock int64
		var mu sync.Mutex
		var hist []hop
		var wg sync.WaitGroup
		start := make(chan struct{})
		type plan struct {
			kind    byte
			off, ln int
			data    []byte
			fh      int
		}
		plans := make([][]plan, g)
		for gi := 0; gi < g; gi++ {
			k := 1 + c.Rng.Intn(4)
			for j := 0; j < k; j++ {
				off := c.Rng.Intn(size)
				ln := 1 + c.Rng.Intn(size-off)
				p := plan{off: off, ln: ln, fh: c.Rng.Intn(nh)}
				switch c.Rng.Intn(5) {
				case 0, 1:
					p.kind = 'W'
					p.data = make([]byte, ln)
					for x := range p.data {
						p.data[x] = byte(0x80 + gi*16 + j*4 + x%4)
					}
				case 2, 3:
					p.kind = 'R'
				default:
					p.kind = 'S'
				}
				plans[gi] = append(plans[gi], p)
			}
		}
		failed := ""
		for gi := 0; gi < g; gi++ {
			wg.Add(1)
			go func(gi int) {
				defer wg.Done()
				<-start
				for j, p := range plans[gi] {
					f := files[p.fh]
					h := hop{id: gi*10 + j + 1, kind: p.kind, off: p.off, ln: p.ln}
					h.call = int(atomic.AddInt64(&clock, 1))
					var err error
					switch p.kind {
					case 'R':
						b := make([]byte, p.ln)
						var n int
						n, err = f.ReadAt(b, int64(p.off))
						h.data = b[:clampLen(n, len(b))]
						if n != p.ln {
							err = fmt.Errorf("short read %d of %d: %v", n, p.ln, err)
						}
					case 'W':
						_, err = f.WriteAt(p.data, int64(p.off))
						h.data = p.data
					case 'S':
						var fi os.FileInfo
						fi, err = f.Stat()
						if err == nil {
							h.size = int(fi.Size())
						}
					}
					h.ret = int(atomic.AddInt64(&clock, 1))
					mu.Lock()
					if err != nil {
						failed = err.Error()
					}
					hist = append(hist, h)
					mu.Unlock()
				}
			}(gi)
		}
		close(start)
		if !cctWait(&wg, 15*time.Second) {
			// an operation never returned: nothing about this history can be decided; the client and its goroutines are abandoned
			hangs++
			nn := c.Case("lin", kvh("f0", initial), kvs("h", "-"), kvs("be", be), kvi("g", g), kvi("nh", nh))
			c.NT(nn)
			c.Oracle(nn, false, "an operation on the shared Client did not return within 15 s")
			pr.cliConn.Close()
			pr.srvConn.Close()
			if hangs >= 3 {
				c.Diag("c15: stopped after %d hanging histories", hangs)
				return
			}
			continue
		}
		for _, f := range files {
			f.Close()
		}
		pr.Close()
		var parts []string
		overlap := false
		for i, h := range hist {
			parts = append(parts, h.enc())
			if h.kind == 'W' {
				for j, o := range hist {
					if i != j && !(o.ret < h.call || h.ret < o.call) {
						overlap = true
					}
				}
			}
		}
		nn := c.Case("lin", kvh("f0", initial), kvs("h", strings.Join(parts, ",")), kvs("be", be), kvi("g", g), kvi("nh", nh))
		if overlap {
			c.NT(nn)
		}
		// the tie: the verdict of the extracted verified checker on this history against the verdict of the brute-force search here
		lin := linSearch(initial, hist)
		c.Obs(nn, "lin="+map[bool]string{true: "1", false: "0"}[lin])
		ok, why := true, ""
		if failed != "" {
			ok, why = false, "an operation failed: "+failed
		} else if !lin {
			// The property holds "provided the backing store's own ReadAt/WriteAt are atomic". The request-server store of this
			// harness is (one mutex). Linux pread/pwrite on one regular file are not atomic with respect to each other: a read
			// may see part of a concurrent multi-byte write. For the os-backed servers a history that is not linearizable as a
			// whole is therefore re-examined byte by byte (single-byte accesses cannot be torn): if every byte position on its
			// own is linearizable and all sizes are right, the proviso failed, not the package.
			if (be == "os" || be == "osalloc") && linBytewise(initial, hist) {
				c.Stat("os_histories_torn_by_the_kernel")
			} else {
				ok, why = false, "no sequential order of the operations explains the observed results (history in the case line)"
			}
		}
		c.Oracle(nn, ok, why)
		c.Stat(fmt.Sprintf("ops_%d", len(hist)))
		c.Stat("be_" + be)
	}
}
