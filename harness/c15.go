package main

// C15 — concurrent single-packet operations are linearizable. Several goroutines over ONE Client issue ReadAt / WriteAt
// (within the file's fixed extent, each fitting in one packet) and Stat on one or two handles of the same file; a global
// atomic counter stamps call and return. The observed history is decided by the verified checker (Coq lin_check, via the
// driver) and independently by a brute-force search here.

import (
	"bytes"
	"fmt"
	"os"
	"path/filepath"
	"strings"
	"sync"
	"sync/atomic"
	"time"

	"github.com/pkg/sftp"
)

func init() { register("c15", runC15) }

type hop struct {
	id, call, ret int
	kind          byte // R W S
	off, ln       int
	data          []byte // written / read bytes
	size          int
}

func (h hop) enc() string {
	switch h.kind {
	case 'R':
		return fmt.Sprintf("%x:%x:%x:R:%x:%x:%s", h.id, h.call, h.ret, h.off, h.ln, hexs(h.data))
	case 'W':
		return fmt.Sprintf("%x:%x:%x:W:%x:%s", h.id, h.call, h.ret, h.off, hexs(h.data))
	}
	return fmt.Sprintf("%x:%x:%x:S:%x", h.id, h.call, h.ret, h.size)
}

// brute-force linearizability check (oracle side)
func linSearch(f []byte, rem []hop) bool {
	if len(rem) == 0 {
		return true
	}
	for i, o := range rem {
		minimal := true
		for j, b := range rem {
			if j != i && b.ret < o.call {
				minimal = false
				break
			}
		}
		if !minimal {
			continue
		}
		nf := f
		ok := true
		switch o.kind {
		case 'R':
			ok = bytes.Equal(o.data, f[o.off:o.off+o.ln])
		case 'W':
			nf = append([]byte(nil), f...)
			copy(nf[o.off:], o.data)
		case 'S':
			ok = o.size == len(f)
		}
		if !ok {
			continue
		}
		rest := append(append([]hop(nil), rem[:i]...), rem[i+1:]...)
		if linSearch(nf, rest) {
			return true
		}
	}
	return false
}

// linBytewise: every byte position, taken alone, has a linearizable history, and every size query saw the file's size
func linBytewise(f []byte, hist []hop) bool {
	for x := range f {
		var proj []hop
		for _, h := range hist {
			switch h.kind {
			case 'S':
				if h.size != len(f) {
					return false
				}
			case 'R', 'W':
				if h.off <= x && x < h.off+h.ln && x-h.off < len(h.data) {
					proj = append(proj, hop{id: h.id, call: h.call, ret: h.ret, kind: h.kind, off: 0, ln: 1, data: []byte{h.data[x-h.off]}})
				}
			}
		}
		if !linSearch([]byte{f[x]}, proj) {
			return false
		}
	}
	return true
}

func runC15(c *Ctx) {
	c.Rule("G in {2,3,4} goroutines x <= 4 single-packet operations each (ReadAt, WriteAt within the extent, Stat) on 1-2 handles of one 16-byte file, over one Client, against {Server, RequestServer} x {allocator on, off}; " +
		"call/return stamped by a global atomic counter; obs = the brute-force verdict (compared with the extracted verified checker); a history of an os-backed server that is not linearizable as a whole but is so byte by byte is counted as torn by the kernel (pread/pwrite are not atomic: the property's proviso), not as a failure; non-trivial = history with at least one write overlapping another operation in time")
	const size = 16
	n := 400
	if c.Thorough() {
		n = 12000
	}
	backends := []string{"os", "osalloc", "req", "reqalloc"}
	dir, err := os.MkdirTemp("", "vh-c15-")
	if err != nil {
		c.Diag("mktemp: %v", err)
		return
	}
	defer os.RemoveAll(dir)
	hangs := 0
	for it := 0; it < n; it++ {
		be := backends[it%4]
		initial := patternBytes(it, size)
		var pr *pair
		name := "/f"
		switch be {
		case "os", "osalloc":
			name = filepath.Join(dir, fmt.Sprintf("f%d", it))
			os.WriteFile(name, initial, 0o644)
			pr, err = newPair(pairOpt{alloc: be == "osalloc"})
		default:
			fs := newMemFS()
			fs.get("/f", true).data = append([]byte(nil), initial...)
			pr, err = newPair(pairOpt{reqServer: true, handlers: fs.handlers(), alloc: be == "reqalloc"})
		}
		if err != nil {
			c.Diag("pair: %v", err)
			continue
		}
		nh := 1 + it%2
		var files []*sftp.File
		for i := 0; i < nh; i++ {
			f, err := pr.Client.OpenFile(name, os.O_RDWR)
			if err != nil {
				c.Diag("open: %v", err)
				break
			}
			files = append(files, f)
		}
		if len(files) != nh {
			pr.Close()
			continue
		}
		g := 2 + it%3
		var clock int64
		var mu sync.Mutex
		var hist []hop
		var wg sync.WaitGroup
		start := make(chan struct{})
		type plan struct {
			kind    byte
			off, ln int
			data    []byte
			fh      int
		}
		plans := make([][]plan, g)
		for gi := 0; gi < g; gi++ {
			k := 1 + c.Rng.Intn(4)
			for j := 0; j < k; j++ {
				off := c.Rng.Intn(size)
				ln := 1 + c.Rng.Intn(size-off)
				p := plan{off: off, ln: ln, fh: c.Rng.Intn(nh)}
				switch c.Rng.Intn(5) {
				case 0, 1:
					p.kind = 'W'
					p.data = make([]byte, ln)
					for x := range p.data {
						p.data[x] = byte(0x80 + gi*16 + j*4 + x%4)
					}
				case 2, 3:
					p.kind = 'R'
				default:
					p.kind = 'S'
				}
				plans[gi] = append(plans[gi], p)
			}
		}
		failed := ""
		for gi := 0; gi < g; gi++ {
			wg.Add(1)
			go func(gi int) {
				defer wg.Done()
				<-start
				for j, p := range plans[gi] {
					f := files[p.fh]
					h := hop{id: gi*10 + j + 1, kind: p.kind, off: p.off, ln: p.ln}
					h.call = int(atomic.AddInt64(&clock, 1))
					var err error
					switch p.kind {
					case 'R':
						b := make([]byte, p.ln)
						var n int
						n, err = f.ReadAt(b, int64(p.off))
						h.data = b[:clampLen(n, len(b))]
						if n != p.ln {
							err = fmt.Errorf("short read %d of %d: %v", n, p.ln, err)
						}
					case 'W':
						_, err = f.WriteAt(p.data, int64(p.off))
						h.data = p.data
					case 'S':
						var fi os.FileInfo
						fi, err = f.Stat()
						if err == nil {
							h.size = int(fi.Size())
						}
					}
					h.ret = int(atomic.AddInt64(&clock, 1))
					mu.Lock()
					if err != nil {
						failed = err.Error()
					}
					hist = append(hist, h)
					mu.Unlock()
				}
			}(gi)
		}
		close(start)
		if !cctWait(&wg, 15*time.Second) {
			// an operation never returned: nothing about this history can be decided; the client and its goroutines are abandoned
			hangs++
			nn := c.Case("lin", kvh("f0", initial), kvs("h", "-"), kvs("be", be), kvi("g", g), kvi("nh", nh))
			c.NT(nn)
			c.Oracle(nn, false, "an operation on the shared Client did not return within 15 s")
			pr.cliConn.Close()
			pr.srvConn.Close()
			if hangs >= 3 {
				c.Diag("c15: stopped after %d hanging histories", hangs)
				return
			}
			continue
		}
		for _, f := range files {
			f.Close()
		}
		pr.Close()
		var parts []string
		overlap := false
		for i, h := range hist {
			parts = append(parts, h.enc())
			if h.kind == 'W' {
				for j, o := range hist {
					if i != j && !(o.ret < h.call || h.ret < o.call) {
						overlap = true
					}
				}
			}
		}
		nn := c.Case("lin", kvh("f0", initial), kvs("h", strings.Join(parts, ",")), kvs("be", be), kvi("g", g), kvi("nh", nh))
		if overlap {
			c.NT(nn)
		}
		// the tie: the verdict of the extracted verified checker on this history against the verdict of the brute-force search here
		lin := linSearch(initial, hist)
		c.Obs(nn, "lin="+map[bool]string{true: "1", false: "0"}[lin])
		ok, why := true, ""
		if failed != "" {
			ok, why = false, "an operation failed: "+failed
		} else if !lin {
			// The property holds "provided the backing store's own ReadAt/WriteAt are atomic". The request-server store of this
			// harness is (one mutex). Linux pread/pwrite on one regular file are not atomic with respect to each other: a read
			// may see part of a concurrent multi-byte write. For the os-backed servers a history that is not linearizable as a
			// whole is therefore re-examined byte by byte (single-byte accesses cannot be torn): if every byte position on its
			// own is linearizable and all sizes are right, the proviso failed, not the package.
			if (be == "os" || be == "osalloc") && linBytewise(initial, hist) {
				c.Stat("os_histories_torn_by_the_kernel")
			} else {
				ok, why = false, "no sequential order of the operations explains the observed results (history in the case line)"
			}
		}
		c.Oracle(nn, ok, why)
		c.Stat(fmt.Sprintf("ops_%d", len(hist)))
		c.Stat("be_" + be)
	}
	rounds := 8
	if c.Thorough() {
		rounds = 80
	}
	for r := 0; r < rounds; r++ {
		c15Soak(c, r, backends[r%4], dir, 0)
	}
	// the same with 40000-byte regions under a packet size of 65536 on both sides (MaxPacketUnchecked, MaxTxPacket): still one
	// packet per operation, so still atomic
	for r := 0; r < rounds/2; r++ {
		c15Soak(c, r, backends[r%4], dir, 1)
	}
	c15ConcurrentWrites(c, dir)
	c15Reopen(c, dir)
	// and with the largest packet a server can be configured for (262144) and regions that nearly fill it
	for r := 0; r < rounds/2; r++ {
		c15HugeReads(c, r, []string{"req", "reqalloc"}[r%2])
	}
}

// c15Soak (kind soak): 8 goroutines over one Client, each owning one 512-byte region of a file (every operation is one
// packet and lies within the extent): writer g rewrites its region 150 times with the pattern (g, i), reader goroutines read
// whole regions. Regions are disjoint, so linearizability per region says: every read returns one of the patterns written to
// that region (or the initial one), whole; a reader never sees an older pattern after a newer one; at the end every region
// holds the last pattern written. Many requests are in flight at once all the time (with the allocator on: pages are lent
// and returned continuously). Oracle only.
func c15Soak(c *Ctx, r int, be, dir string, variant int) {
	G, region, iters := 8, 512, 150
	var copts []sftp.ClientOption
	var maxTx uint32
	switch variant {
	case 1:
		G, region, iters = 4, 40000, 40
		copts, maxTx = []sftp.ClientOption{sftp.MaxPacketUnchecked(1 << 16)}, 1<<16
	}
	pat := func(g, i int) []byte {
		b := make([]byte, region)
		for x := range b {
			b[x] = byte(g*31 + i*7 + x*3 + 1)
		}
		b[0], b[1], b[2] = byte(g), byte(i), byte(i>>8)
		return b
	}
	initial := make([]byte, G*region)
	for g := 0; g < G; g++ {
		copy(initial[g*region:], pat(g, 0))
	}
	var pr *pair
	var err error
	name := "/f"
	var mf *memFile
	switch be {
	case "os", "osalloc":
		name = filepath.Join(dir, fmt.Sprintf("soak%d", r))
		os.WriteFile(name, initial, 0o644)
		pr, err = newPair(pairOpt{alloc: be == "osalloc", clientOpts: copts, maxTx: maxTx})
	default:
		fs := newMemFS()
		mf = fs.get("/f", true)
		mf.data = append([]byte(nil), initial...)
		pr, err = newPair(pairOpt{reqServer: true, handlers: fs.handlers(), alloc: be == "reqalloc", clientOpts: copts, maxTx: maxTx})
	}
	if err != nil {
		c.Diag("soak pair: %v", err)
		return
	}
	nn := c.Case("soak", kvi("round", r), kvs("be", be), kvi("g", G), kvi("iters", iters), kvi("region", region))
	c.NT(nn)
	c.Stat("soak_" + be)
	f, err := pr.Client.OpenFile(name, os.O_RDWR)
	if err != nil {
		c.Oracle(nn, false, "open: "+err.Error())
		pr.Close()
		return
	}
	var mu sync.Mutex
	bad := ""
	fail := func(s string) {
		mu.Lock()
		if bad == "" {
			bad = s
		}
		mu.Unlock()
	}
	var wg sync.WaitGroup
	var done int32
	for g := 0; g < G; g++ {
		wg.Add(2)
		go func(g int) { // the writer of region g
			defer wg.Done()
			for i := 1; i <= iters; i++ {
				if n, err := f.WriteAt(pat(g, i), int64(g*region)); err != nil || n != region {
					fail(fmt.Sprintf("WriteAt failed: n=%d err=%v", n, err))
					return
				}
			}
			atomic.AddInt32(&done, 1)
		}(g)
		go func(g int) { // a reader of region g
			defer wg.Done()
			last := 0
			b := make([]byte, region)
			for int(atomic.LoadInt32(&done)) < G {
				n, err := f.ReadAt(b, int64(g*region))
				if err != nil || n != region {
					fail(fmt.Sprintf("ReadAt failed: n=%d err=%v", n, err))
					return
				}
				i := int(b[1]) | int(b[2])<<8
				if int(b[0]) != g || i > iters || !bytes.Equal(b, pat(g, i)) {
					if (be == "os" || be == "osalloc") && int(b[0]) == g {
						// the kernel may tear a 512-byte pwrite under a concurrent pread (the property's proviso): every byte must
						// still come from a pattern written to this region
						torn := true
						for x := 3; x < region && torn; x++ {
							okb := false
							for j := last; j <= iters && !okb; j++ {
								okb = b[x] == byte(g*31+j*7+x*3+1) // pat(g, j)[x] for x >= 3
							}
							torn = okb
						}
						if torn {
							c.Stat("soak_reads_torn_by_the_kernel")
							continue
						}
					}
					fail(fmt.Sprintf("a read of region %d returned bytes that no write to that region produced (header %d/%d)", g, b[0], i))
					return
				}
				if i < last {
					fail(fmt.Sprintf("a read of region %d returned write %d after an earlier read had returned write %d", g, i, last))
					return
				}
				last = i
			}
		}(g)
	}
	if !cctWait(&wg, 60*time.Second) {
		c.Oracle(nn, false, "an operation on the shared Client did not return within 60 s")
		pr.cliConn.Close()
		pr.srvConn.Close()
		return
	}
	f.Close()
	pr.Close()
	var final []byte
	if mf != nil {
		final = mf.bytes()
	} else {
		final, _ = os.ReadFile(name)
	}
	if bad == "" {
		for g := 0; g < G; g++ {
			if len(final) < (g+1)*region || !bytes.Equal(final[g*region:(g+1)*region], pat(g, iters)) {
				bad = fmt.Sprintf("after all writes were acknowledged region %d does not hold the last pattern written to it", g)
				break
			}
		}
	}
	c.Oracle(nn, bad == "", bad)
}

// c15HugeReads (kind hugeread): single-packet reads of the largest size a server can be configured for. Packet size 262144 on
// both sides; two regions of 262131..262135 bytes; a writer per region rewrites the last 64 bytes (one small WRITE) 300 times
// with the pattern of its iteration; a reader per region reads the whole region with ONE ReadAt. One packet, one atomic step:
// the 64 tail bytes of every read belong to one iteration. Request server only (its store's ReadAt/WriteAt are atomic).
func c15HugeReads(c *Ctx, r int, be string) {
	const G, iters = 2, 300
	region := 262131 + r%5
	tail := func(g, i int) []byte {
		b := make([]byte, 64)
		for k := range b {
			b[k] = byte(i*5 + g*3 + k)
		}
		return b
	}
	initial := make([]byte, G*region)
	for g := 0; g < G; g++ {
		copy(initial[(g+1)*region-64:], tail(g, 0))
	}
	fs := newMemFS()
	mf := fs.get("/f", true)
	mf.data = initial
	pr, err := newPair(pairOpt{reqServer: true, handlers: fs.handlers(), alloc: be == "reqalloc", clientOpts: []sftp.ClientOption{sftp.MaxPacketUnchecked(1 << 18)}, maxTx: 1 << 18})
	if err != nil {
		c.Diag("hugeread pair: %v", err)
		return
	}
	nn := c.Case("hugeread", kvi("round", r), kvs("be", be), kvi("region", region))
	c.NT(nn)
	c.Stat("hugeread_" + be)
	f, err := pr.Client.OpenFile("/f", os.O_RDWR)
	if err != nil {
		c.Oracle(nn, false, "open: "+err.Error())
		pr.Close()
		return
	}
	var mu sync.Mutex
	bad := ""
	fail := func(s string) {
		mu.Lock()
		if bad == "" {
			bad = s
		}
		mu.Unlock()
	}
	var wg sync.WaitGroup
	var done int32
	for g := 0; g < G; g++ {
		wg.Add(2)
		go func(g int) {
			defer wg.Done()
			defer atomic.AddInt32(&done, 1)
			for i := 1; i <= iters; i++ {
				if n, err := f.WriteAt(tail(g, i), int64((g+1)*region-64)); err != nil || n != 64 {
					fail(fmt.Sprintf("WriteAt failed: n=%d err=%v", n, err))
					return
				}
			}
		}(g)
		go func(g int) {
			defer wg.Done()
			b := make([]byte, region)
			for int(atomic.LoadInt32(&done)) < G {
				n, err := f.ReadAt(b, int64(g*region))
				if err != nil || n != region {
					fail(fmt.Sprintf("ReadAt of %d bytes failed: n=%d err=%v", region, n, err))
					return
				}
				t := b[region-64:]
				for k := 1; k < 64; k++ {
					if t[k]-byte(k) != t[0] {
						fail(fmt.Sprintf("torn read: one ReadAt of %d bytes (one packet) returned a tail whose bytes %d.. come from another write than its first bytes", region, k))
						return
					}
				}
			}
		}(g)
	}
	if !cctWait(&wg, 60*time.Second) {
		c.Oracle(nn, false, "an operation on the shared Client did not return within 60 s")
		pr.cliConn.Close()
		pr.srvConn.Close()
		return
	}
	f.Close()
	pr.Close()
	c.Oracle(nn, bad == "", bad)
}
