package main

import (
	"io"
	"net"
	"os"

	"github.com/pkg/sftp"
)

func netListenUnix(p string) (net.Listener, error) { return net.Listen("unix", p) }

// nullHandlers: a request-server backend on which every operation fails with not-exist.
type nullHandlers struct{}

func (nullHandlers) Fileread(*sftp.Request) (io.ReaderAt, error)   { return nil, os.ErrNotExist }
func (nullHandlers) Filewrite(*sftp.Request) (io.WriterAt, error)  { return nil, os.ErrNotExist }
func (nullHandlers) Filecmd(*sftp.Request) error                   { return os.ErrNotExist }
func (nullHandlers) Filelist(*sftp.Request) (sftp.ListerAt, error) { return nil, os.ErrNotExist }

func nullHandlerSet() sftp.Handlers {
	h := nullHandlers{}
	return sftp.Handlers{FileGet: h, FilePut: h, FileCmd: h, FileList: h}
}
