package main

import "net"

func netListenUnix(p string) (net.Listener, error) { return net.Listen("unix", p) }
