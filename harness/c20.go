package main

// C20 — no server reply can crash the client. A scripted peer answers one chosen request with arbitrary bytes;
// every case runs inside a memory-limited child process (a panic in a transfer goroutine kills the process).

import (
	"bytes"
	"encoding/binary"
	"errors"
	"fmt"
	"io"
	"net"
	"os"
	"strings"
	"sync"
	"sync/atomic"
	"time"

	"github.com/pkg/sftp"
)

func init() {
	register("c20", runC20)
	childEntries["c20"] = func([]string) { childLoop(c20Handle) }
}

func cliErrKind(err error) string {
	switch {
	case err == nil:
		return "nil"
	case errors.Is(err, io.ErrNoProgress):
		return "noprogress"
	case errors.Is(err, os.ErrNotExist):
		return "status:2"
	case errors.Is(err, os.ErrPermission):
		return "status:3"
	case errors.Is(err, sftp.ErrSSHFxConnectionLost):
		return "connlost"
	case strings.HasPrefix(err.Error(), "sftp: unimplemented packet type"):
		return "unexpectedtype"
	}
	return sftp.VerifErrKind(err)
}

type opSpec struct {
	name   string
	target byte // request type whose first occurrence gets the scripted reply
}

var c20Ops = []opSpec{{"stat", fxpStat}, {"open", fxpOpen}, {"readlink", fxpReadlink}, {"readdir", fxpReaddir}, {"rename", fxpRename},
	{"read8", fxpRead}, {"statvfs", fxpExtended}, {"readconc", fxpRead}, {"writeto", fxpRead},
	// operations the client composes from several requests, or whose reply it only inspects for a status: the scripted reply
	// goes to the request named here, every other request gets a well-formed answer (REMOVE: a failure status, so that
	// Client.Remove goes on to RMDIR). Oracle only: no model of these call sequences is compared.
	{"remove", fxpRmdir}, {"removefirst", fxpRemove}, {"mkdirall", fxpStat}, {"mkdirallmk", fxpMkdir}, {"removeall", fxpLstat},
	{"realpath", fxpRealpath}, {"mkdir", fxpMkdir}, {"symlink", fxpSymlink}, {"chmod", fxpSetstat}, {"truncatefile", fxpFsetstat},
	{"posixrename", fxpExtended}, {"lstat", fxpLstat}, {"fstat", fxpFstat}, {"create", fxpOpen}, {"glob", fxpOpendir},
	// multi-chunk transfers in which EVERY chunk request gets the scripted reply, the replies to the chunks outstanding together
	// being written in the opposite order of the requests (a server may answer in any order): concurrent WriteAt,
	// ReadFromWithConcurrency, concurrent ReadAt, WriteTo
	// WriteTo sizes its work from the STAT reply: that reply mutated, and with sizes at the edges of 64 and 63 bits
	{"writetostat", fxpStat}, {"writetofstat", fxpFstat},
	// three Stat calls at once; the peer takes the first request, leaves the others stuck in the client's Write, answers the
	// first with the scripted reply and reads no further: every call returns (a bad reply ends the session: the others fail)
	{"stat-queued", fxpStat},
	{"writeconc-every", fxpWrite}, {"readfromconc-every", fxpWrite}, {"readconc-every", fxpRead}, {"writeto-every", fxpRead}}

// c20Compound: operations that are not compared with the model (only crash / hang / follow-up / Close / allocation are judged)
func c20Compound(op string) bool {
	switch op {
	case "writeconc-every", "readfromconc-every", "readconc-every", "writeto-every", "writetostat", "writetofstat", "stat-queued":
		return true
	case "readconc", "writeto", "remove", "removefirst", "mkdirall", "mkdirallmk", "removeall", "realpath", "mkdir", "symlink", "chmod",
		"truncatefile", "posixrename", "lstat", "fstat", "create", "glob":
		return true
	}
	return false
}

func validAttrsBody() []byte {
	return (&rb{}).u32(0xf).u64(24).u32(1).u32(2).u32(0o100644).u32(3).u32(4).b
}

// runC20Case performs one operation against a peer that answers the target request with reply (type byte first).
func runC20Case(op string, reply []byte) string {
	var spec opSpec
	for _, o := range c20Ops {
		if o.name == op {
			spec = o
		}
	}
	c1, c2 := net.Pipe()
	closedHandle := make(chan string, 4)
	go func() { // the peer: requests are read continuously, replies are written by a separate goroutine
		defer c2.Close()
		fr, err := readFrame(c2)
		if err != nil || fr.Typ != fxpInit {
			return
		}
		c2.Write(frame((&rb{}).u8(fxpVersion).u32(3).b))
		firstHeld := op == "stat-queued" // the first request is taken, then nothing is read for 40 ms (the other callers sit in their Write)
		outq := make(chan []byte, 4096)
		defer close(outq)
		go func() {
			for b := range outq {
				if _, err := c2.Write(b); err != nil {
					for range outq {
					}
					return
				}
			}
		}()
		done := false
		if firstHeld {
			fr, err := readFrame(c2)
			if err != nil {
				return
			}
			time.Sleep(40 * time.Millisecond)
			r := append([]byte(nil), reply...)
			if len(r) >= 5 {
				binary.BigEndian.PutUint32(r[1:], fr.ID)
			}
			if len(r) == 0 {
				return
			}
			outq <- frame(r)                  // written by the writer goroutine
			time.Sleep(40 * time.Millisecond) // the queued callers stay stuck a little longer; then the peer reads continuously, as every peer here does
			done = true
		}
		multi := strings.HasSuffix(op, "-every")
		nheld := 0
		held := make(chan uint32, 4096)
		defer close(held)
		go func() { // multi: collect the target requests outstanding together (up to 3, or whatever came within 20 ms), answer them newest first
			var ids []uint32
			flush := func() {
				for i := len(ids) - 1; i >= 0; i-- {
					r := append([]byte(nil), reply...)
					if len(r) >= 5 {
						binary.BigEndian.PutUint32(r[1:], ids[i])
					}
					if len(r) > 0 {
						outq <- frame(r)
					}
				}
				ids = nil
			}
			for {
				var t <-chan time.Time
				if len(ids) > 0 {
					t = time.After(20 * time.Millisecond)
				}
				select {
				case id, ok := <-held:
					if !ok {
						return
					}
					if ids = append(ids, id); len(ids) == 3 {
						flush()
					}
				case <-t:
					flush()
				}
			}
		}()
		for {
			fr, err := readFrame(c2)
			if err != nil {
				return
			}
			id := fr.ID
			if fr.Typ == spec.target && multi && nheld < 12 { // the 13th and later chunk requests get the ordinary answer (READ: end of file)
				nheld++
				if len(reply) == 0 {
					return // cannot frame an empty body: drop the link
				}
				held <- id
				continue
			}
			if fr.Typ == spec.target && !done {
				done = true
				r := append([]byte(nil), reply...)
				if len(r) >= 5 {
					binary.BigEndian.PutUint32(r[1:], id)
				}
				if len(r) == 0 {
					return // cannot frame an empty body: drop the link
				}
				outq <- frame(r)
				continue
			}
			var out []byte
			switch fr.Typ {
			case fxpOpen, fxpOpendir:
				out = pkt(fxpHandle, id).str("hh").b
			case fxpClose:
				if len(fr.Body) >= 4 {
					l := binary.BigEndian.Uint32(fr.Body)
					if int(l)+4 <= len(fr.Body) {
						select {
						case closedHandle <- string(fr.Body[4 : 4+l]):
						default:
						}
					}
				}
				out = pkt(fxpStatus, id).u32(0).str("").str("").b
			case fxpReaddir, fxpRead:
				out = pkt(fxpStatus, id).u32(1).str("EOF").str("").b
			case fxpRemove:
				if op == "remove" {
					out = pkt(fxpStatus, id).u32(4).str("is a directory").str("").b
				} else {
					out = pkt(fxpStatus, id).u32(0).str("").str("").b
				}
			case fxpStat, fxpLstat, fxpFstat:
				if op == "mkdirallmk" {
					out = pkt(fxpStatus, id).u32(2).str("no such file").str("").b
				} else {
					out = pkt(fxpAttrs, id).raw(validAttrsBody()).b
				}
			default:
				out = pkt(fxpStatus, id).u32(0).str("").str("").b
			}
			outq <- frame(out)
		}
	}()
	opts := []sftp.ClientOption{}
	if op == "readconc" || op == "writeto" || op == "writetostat" || op == "writetofstat" || strings.HasSuffix(op, "-every") {
		opts = append(opts, sftp.MaxPacketUnchecked(8), sftp.MaxConcurrentRequestsPerFile(3), sftp.UseConcurrentWrites(true))
	}
	if op == "writetofstat" { // the size probe of WriteTo goes through the handle
		opts = append(opts, sftp.UseFstat(true))
	}
	cl, err := sftp.NewClientPipe(c1, c1, opts...)
	if err != nil {
		c1.Close()
		return "res=setup-failed"
	}
	resCh := make(chan string, 1)
	go func() {
		var res string
		switch op {
		case "stat":
			fi, err := cl.Stat("/x")
			if err != nil {
				res = "err:" + cliErrKind(err)
			} else if st, _ := fi.Sys().(*sftp.FileStat); fi == nil || st == nil {
				res = "val:nil"
			} else {
				a := sftp.VerifAttrs{Size: st.Size, UID: st.UID, GID: st.GID, Perm: st.Mode, Atime: st.Atime, Mtime: st.Mtime}
				for _, e := range st.Extended {
					a.Ext = append(a.Ext, [2]string{e.ExtType, e.ExtData})
				}
				res = "val:attrs=" + canonAttrs(&a)
			}
		case "open":
			f, err := cl.Open("/x")
			if err != nil {
				res = "err:" + cliErrKind(err)
			} else if f == nil {
				res = "val:nil"
			} else {
				f.Close()
				select {
				case h := <-closedHandle:
					res = "val:h=" + hx(h)
				case <-time.After(300 * time.Millisecond):
					res = "val:h=-" // an empty handle makes the File "closed": no CLOSE is sent
				}
			}
		case "readlink":
			s, err := cl.ReadLink("/x")
			if err != nil {
				res = "err:" + cliErrKind(err)
			} else {
				res = "val:name=" + hx(s)
			}
		case "readdir":
			l, err := cl.ReadDir("/d")
			if err != nil {
				res = "err:" + cliErrKind(err)
			} else {
				parts := []string{}
				for _, fi := range l {
					st := fi.Sys().(*sftp.FileStat)
					a := sftp.VerifAttrs{Size: st.Size, UID: st.UID, GID: st.GID, Perm: st.Mode, Atime: st.Atime, Mtime: st.Mtime}
					for _, e := range st.Extended {
						a.Ext = append(a.Ext, [2]string{e.ExtType, e.ExtData})
					}
					parts = append(parts, hx(fi.Name())+"/"+canonAttrs(&a))
				}
				if len(parts) == 0 {
					res = "val:names=-"
				} else {
					res = "val:names=" + strings.Join(parts, "|")
				}
			}
		case "rename":
			err := cl.Rename("/a", "/b")
			if err != nil {
				res = "err:" + cliErrKind(err)
			} else {
				res = "val:ok"
			}
		case "statvfs":
			v, err := cl.StatVFS("/x")
			if err != nil {
				res = "err:" + cliErrKind(err)
			} else {
				var buf bytes.Buffer
				binary.Write(&buf, binary.BigEndian, v)
				res = "val:statvfs=" + hexs(buf.Bytes()[4:])
			}
		case "read8":
			f, err := cl.Open("/x")
			if err != nil {
				res = "err:open"
				break
			}
			b := make([]byte, 8)
			n, err := f.ReadAt(b, 0)
			res = fmt.Sprintf("n=%x;data=%s;err=%s", n, hexs(b[:clampLen(n, len(b))]), cliErrKind(err))
		case "stat-queued":
			var wg sync.WaitGroup
			var okN, errN int32
			for k := 0; k < 3; k++ {
				wg.Add(1)
				go func(k int) {
					defer wg.Done()
					if _, err := cl.Stat(fmt.Sprintf("/x%d", k)); err != nil {
						atomic.AddInt32(&errN, 1)
					} else {
						atomic.AddInt32(&okN, 1)
					}
				}(k)
			}
			wg.Wait() // a call that never returns is the 5 s "hang" verdict of the caller of this goroutine
			res = fmt.Sprintf("ok=%d;err=%d", okN, errN)
		case "writeconc-every", "readfromconc-every":
			f, err := cl.OpenFile("/x", os.O_RDWR)
			if err != nil {
				res = "err:open"
				break
			}
			var n int64
			if op == "writeconc-every" {
				var k int
				k, err = f.WriteAt(bytes.Repeat([]byte("w"), 40), 0)
				n = int64(k)
			} else {
				n, err = f.ReadFromWithConcurrency(bytes.NewReader(bytes.Repeat([]byte("r"), 40)), 3)
			}
			res = fmt.Sprintf("n=%x;err=%s", n, cliErrKind(err))
		case "readconc", "readconc-every":
			f, err := cl.Open("/x")
			if err != nil {
				res = "err:open"
				break
			}
			b := make([]byte, 24)
			n, err := f.ReadAt(b, 0)
			res = fmt.Sprintf("n=%x;err=%s", n, cliErrKind(err))
		case "writeto", "writeto-every", "writetostat", "writetofstat":
			f, err := cl.Open("/x")
			if err != nil {
				res = "err:open"
				break
			}
			var buf bytes.Buffer
			n, err := f.WriteTo(&buf)
			res = fmt.Sprintf("n=%x;err=%s", n, cliErrKind(err))
		default:
			var err error
			switch op {
			case "remove", "removefirst":
				err = cl.Remove("/x")
			case "mkdirall", "mkdirallmk":
				err = cl.MkdirAll("/a/b")
			case "removeall":
				err = cl.RemoveAll("/d")
			case "realpath":
				_, err = cl.RealPath("x")
			case "mkdir":
				err = cl.Mkdir("/m")
			case "symlink":
				err = cl.Symlink("/t", "/l")
			case "chmod":
				err = cl.Chmod("/x", 0o600)
			case "posixrename":
				err = cl.PosixRename("/a", "/b")
			case "lstat":
				_, err = cl.Lstat("/x")
			case "glob":
				_, err = cl.Glob("/d/*")
			case "fstat", "truncatefile", "create":
				var f *sftp.File
				if op == "create" {
					f, err = cl.Create("/c")
				} else {
					f, err = cl.Open("/x")
				}
				if err == nil && f != nil {
					switch op {
					case "fstat":
						_, err = f.Stat()
					case "truncatefile":
						err = f.Truncate(3)
					}
					f.Close()
				}
			}
			if err != nil {
				res = "err:" + cliErrKind(err)
			} else {
				res = "val:ok"
			}
		}
		resCh <- res
	}()
	var res string
	returned := true
	select {
	case res = <-resCh:
	case <-time.After(5 * time.Second):
		res, returned = "hang", false
	}
	after := "skipped"
	if returned {
		ch := make(chan string, 1)
		go func() {
			_, err := cl.Stat("/again")
			ch <- cliErrKind(err)
		}()
		select {
		case after = <-ch:
		case <-time.After(5 * time.Second):
			after = "hang"
		}
	}
	closeCh := make(chan struct{})
	go func() { cl.Close(); close(closeCh) }()
	closed := "ok"
	select {
	case <-closeCh:
	case <-time.After(5 * time.Second):
		closed = "hang"
		c1.Close()
	}
	return fmt.Sprintf("res=%s after=%s close=%s", res, after, closed)
}

func c20Handle(req string) string {
	f := strings.Split(req, " ")
	alloc := measure(func() { req = runC20Case(f[0], unhex(f[1])) })
	return fmt.Sprintf("%s alloc=%d", req, alloc)
}

func runC20(c *Ctx) {
	c.Rule("for every client operation (stat, open, readlink, readdir, rename, sequential read, statvfs, concurrent ReadAt, WriteTo; the multi-chunk transfers concurrent WriteAt, ReadFromWithConcurrency, concurrent ReadAt and WriteTo with EVERY chunk reply replaced and the replies of chunks outstanding together written newest first; and, judged by the crash/hang/follow-up/Close/allocation oracles only, Remove (the REMOVE and the RMDIR reply), MkdirAll (the STAT and the MKDIR reply), RemoveAll, RealPath, Mkdir, Symlink, Chmod, File.Truncate, PosixRename, Lstat, File.Stat, Create, Glob): the valid reply cut at every byte, " +
		"every 4-byte window replaced by 0,1,n-1,n+1,2^20,2^31-1,2^32-1 and the multiples of 2^29 (counts whose size computation wraps), every other reply type substituted, random bytes; for stat and readdir additionally replies carrying extended attributes, mutated the same way; each case in a child process; " +
		"non-trivial = reply that is not the valid one")
	c20FrameCuts(c)
	valid := map[string][]byte{
		"status":   pkt(fxpStatus, 0).u32(2).str("no such file").str("en").b,
		"statusok": pkt(fxpStatus, 0).u32(0).str("").str("").b,
		"handle":   pkt(fxpHandle, 0).str("handle-1").b,
		"attrs":    pkt(fxpAttrs, 0).raw(validAttrsBody()).b,
		"attrsx":   pkt(fxpAttrs, 0).u32(0x8000000f).u64(24).u32(1).u32(2).u32(0o100644).u32(3).u32(4).u32(2).str("t1").str("d1").str("t2").str("").b,
		"namesx":   pkt(fxpName, 0).u32(2).str("x").str("lx").u32(0x80000000).u32(1).str("user.k").str("v").str("y").str("ly").u32(0).b,
		"name1":    pkt(fxpName, 0).u32(1).str("/target").str("/target").u32(0).b,
		"names":    pkt(fxpName, 0).u32(3).str(".").str("l1").u32(0).str("a/b").str("l2").raw(validAttrsBody()).str("zz").str("l3").u32(4).u32(0o40755).b,
		"data":     pkt(fxpData, 0).str("ABCDEFGH").b,
		"data3":    pkt(fxpData, 0).str("xyz").b,
		"data0":    pkt(fxpData, 0).str("").b,
		"data9":    pkt(fxpData, 0).str("ABCDEFGHI").b,
		"data40":   pkt(fxpData, 0).str("0123456789012345678901234567890123456789").b,
		"statvfs": func() []byte {
			r := pkt(fxpExtendedReply, 0)
			for i := 0; i < 11; i++ {
				r.u64(uint64(1000 + i))
			}
			return r.b
		}(),
	}
	own := map[string]string{"stat": "attrs", "open": "handle", "readlink": "name1", "readdir": "names", "rename": "statusok", "read8": "data",
		"statvfs": "statvfs", "readconc": "data", "writeto": "data", "writeconc-every": "statusok", "readfromconc-every": "statusok", "readconc-every": "data", "writeto-every": "data", "writetostat": "attrs", "writetofstat": "attrs", "stat-queued": "attrs",
		"remove": "status", "removefirst": "status", "mkdirall": "attrs", "mkdirallmk": "statusok", "removeall": "attrs", "realpath": "name1", "mkdir": "statusok",
		"symlink": "statusok", "chmod": "statusok", "truncatefile": "statusok", "posixrename": "statusok", "lstat": "attrs", "fstat": "attrs", "create": "handle", "glob": "handle"}
	child, err := startChild("c20", 6000000)
	if err != nil {
		c.Diag("cannot start child: %v", err)
		return
	}
	defer func() { child.kill() }()
	crashes := 0
	ask := func(op string, reply []byte, isValid bool) {
		n := c.Case("creply", kvs("op", op), kvh("reply", reply))
		if !isValid {
			c.NT(n)
		}
		c.Stat("op_" + op)
		ans, ok := child.ask(op+" "+hexs(reply), 25*time.Second)
		if !ok {
			crashes++
			c.Obs(n, "res=crash")
			c.Oracle(n, false, "client process crashed (panic in caller or background goroutine), exhausted memory or hung")
			child.kill()
			child, _ = startChild("c20", 6000000)
			return
		}
		var res, after, closed string
		var alloc uint64
		for _, p := range strings.Split(ans, " ") {
			switch {
			case strings.HasPrefix(p, "res="):
				res = p
			case strings.HasPrefix(p, "after="):
				after = p[6:]
			case strings.HasPrefix(p, "close="):
				closed = p[6:]
			case strings.HasPrefix(p, "alloc="):
				fmt.Sscanf(p[6:], "%d", &alloc)
			}
		}
		if !c20Compound(op) {
			c.Obs(n, res)
		}
		switch {
		case res == "res=hang":
			c.Oracle(n, false, "operation did not return within 5s")
		case after == "hang":
			c.Oracle(n, false, "follow-up operation did not return (client neither usable nor failed)")
		case closed == "hang":
			c.Oracle(n, false, "Close did not return")
		case alloc > 64*uint64(len(reply))+3000000:
			c.Oracle(n, false, fmt.Sprintf("allocated %d bytes for a %d byte reply", alloc, len(reply)))
		default:
			c.Oracle(n, true, "")
		}
		if strings.HasPrefix(res, "res=err:") {
			c.Stat("outcome_err_" + strings.SplitN(strings.SplitN(res[8:], ";", 2)[0], ":", 2)[0])
		} else {
			c.Stat("outcome_value")
		}
	}
	for _, o := range c20Ops {
		base := valid[own[o.name]]
		every := 1
		if !c.Thorough() && (o.name == "readdir") {
			every = 2
		}
		for mi, m := range mutants(base, every) {
			ask(o.name, m, every == 1 && mi == len(base))
		}
		// replies that carry extended attributes (a count field the client must bound) for the operations that parse attributes
		for _, x := range map[string][]string{"stat": {"attrsx"}, "readdir": {"namesx"}}[o.name] {
			for _, m := range mutants(valid[x], 1) {
				ask(o.name, m, false)
			}
		}
		for k, v := range valid {
			ask(o.name, v, k == own[o.name])
		}
		if o.name == "writetostat" || o.name == "writetofstat" {
			for _, size := range []uint64{0, 1, 7, 8, 9, 1 << 32, 1<<63 - 1, 1 << 63, 1<<64 - 9, 1<<64 - 8, 1<<64 - 7, 1<<64 - 2, 1<<64 - 1} {
				ask(o.name, pkt(fxpAttrs, 0).u32(0xf).u64(size).u32(1).u32(2).u32(0o100644).u32(3).u32(4).b, false)
			}
		}
		nr := 20
		if c.Thorough() {
			nr = 1500
		}
		for i := 0; i < nr; i++ {
			m := make([]byte, 5+c.Rng.Intn(30))
			c.Rng.Read(m)
			m[0] = []byte{101, 102, 103, 104, 105, 201, 7}[c.Rng.Intn(7)]
			ask(o.name, m, false)
		}
	}
	c.Diag("c20 child crashes: %d", crashes)
}
